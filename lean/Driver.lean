/- The model driver (lean_exe, core-only imports): one operation per input line, one canonical
   result per output line. Each `SqiModel.Drv.*` module contributes a `handle`; unknown ops print
   `bad-op` (never a default value). -/
import SqiModel.Drv.Strategy

def handlers : List (List String → Option String) :=
  [ SqiModel.Drv.Strategy.handle ]

def dispatch (line : String) : String :=
  let ws := (line.trimAscii.toString.splitOn " ").filter (· ≠ "")
  match handlers.findSome? (fun h => h ws) with
  | some r => r
  | none => "bad-op"

partial def loop (h : IO.FS.Stream) (out : IO.FS.Stream) : IO Unit := do
  let line ← h.getLine
  if line.isEmpty then return ()
  out.putStrLn (dispatch line)
  loop h out

def main : IO Unit := do
  let out ← IO.getStdout
  loop (← IO.getStdin) out
  out.flush

/-
FIPS 197 (AES) — executable specification of the cipher (encryption only), AES-128 and AES-256.
Core-only. Nothing is tabulated: the S-box is computed from the multiplicative inverse in GF(2^8)
(modulus x^8 + x^4 + x^3 + x + 1) followed by the affine map of §5.1.1, Rcon from powers of x.
The C implementation (src/common/generic/aes_c.c, a bitsliced constant-time BearSSL port) is tied to
this specification by correspondence only (tie H).
-/
namespace SqiModel.Aes

/-- multiplication by x in GF(2^8) (§4.2.1 xtime) -/
def xtime (b : UInt8) : UInt8 := (b <<< 1) ^^^ (if b &&& 0x80 != 0 then 0x1b else 0)

/-- multiplication in GF(2^8) -/
def gmul (a b : UInt8) : UInt8 :=
  ((List.range 8).foldl (fun (acc : UInt8 × UInt8) i =>
      ((if (b >>> i.toUInt8) &&& 1 != 0 then acc.1 ^^^ acc.2 else acc.1), xtime acc.2)) (0, a)).1

def gpow (a : UInt8) : Nat → UInt8
  | 0 => 1
  | n + 1 => gmul a (gpow a n)

/-- multiplicative inverse, 0 ↦ 0:  a^254 -/
def ginv (a : UInt8) : UInt8 :=
  let a2 := gmul a a; let a4 := gmul a2 a2; let a8 := gmul a4 a4; let a16 := gmul a8 a8
  let a32 := gmul a16 a16; let a64 := gmul a32 a32; let a128 := gmul a64 a64
  gmul a128 (gmul a64 (gmul a32 (gmul a16 (gmul a8 (gmul a4 a2)))))

def rotl8 (b : UInt8) (k : UInt8) : UInt8 := (b <<< k) ||| (b >>> (8 - k))

/-- SubBytes on one byte (§5.1.1): b'_i = b_i ⊕ b_{i+4} ⊕ b_{i+5} ⊕ b_{i+6} ⊕ b_{i+7} ⊕ c_i, c = 0x63 -/
def sbox (a : UInt8) : UInt8 :=
  let b := ginv a
  b ^^^ rotl8 b 1 ^^^ rotl8 b 2 ^^^ rotl8 b 3 ^^^ rotl8 b 4 ^^^ 0x63

/-- FIPS 197 Figure 7 (S-box substitution values, row x, column y for the byte xy), as a table; that `sbox` computes
    exactly this table is proved in SqiProofs/AesSpec.lean (`sbox_table`) -/
def sboxTable : List Nat := [
  0x63, 0x7c, 0x77, 0x7b, 0xf2, 0x6b, 0x6f, 0xc5, 0x30, 0x01, 0x67, 0x2b, 0xfe, 0xd7, 0xab, 0x76,
  0xca, 0x82, 0xc9, 0x7d, 0xfa, 0x59, 0x47, 0xf0, 0xad, 0xd4, 0xa2, 0xaf, 0x9c, 0xa4, 0x72, 0xc0,
  0xb7, 0xfd, 0x93, 0x26, 0x36, 0x3f, 0xf7, 0xcc, 0x34, 0xa5, 0xe5, 0xf1, 0x71, 0xd8, 0x31, 0x15,
  0x04, 0xc7, 0x23, 0xc3, 0x18, 0x96, 0x05, 0x9a, 0x07, 0x12, 0x80, 0xe2, 0xeb, 0x27, 0xb2, 0x75,
  0x09, 0x83, 0x2c, 0x1a, 0x1b, 0x6e, 0x5a, 0xa0, 0x52, 0x3b, 0xd6, 0xb3, 0x29, 0xe3, 0x2f, 0x84,
  0x53, 0xd1, 0x00, 0xed, 0x20, 0xfc, 0xb1, 0x5b, 0x6a, 0xcb, 0xbe, 0x39, 0x4a, 0x4c, 0x58, 0xcf,
  0xd0, 0xef, 0xaa, 0xfb, 0x43, 0x4d, 0x33, 0x85, 0x45, 0xf9, 0x02, 0x7f, 0x50, 0x3c, 0x9f, 0xa8,
  0x51, 0xa3, 0x40, 0x8f, 0x92, 0x9d, 0x38, 0xf5, 0xbc, 0xb6, 0xda, 0x21, 0x10, 0xff, 0xf3, 0xd2,
  0xcd, 0x0c, 0x13, 0xec, 0x5f, 0x97, 0x44, 0x17, 0xc4, 0xa7, 0x7e, 0x3d, 0x64, 0x5d, 0x19, 0x73,
  0x60, 0x81, 0x4f, 0xdc, 0x22, 0x2a, 0x90, 0x88, 0x46, 0xee, 0xb8, 0x14, 0xde, 0x5e, 0x0b, 0xdb,
  0xe0, 0x32, 0x3a, 0x0a, 0x49, 0x06, 0x24, 0x5c, 0xc2, 0xd3, 0xac, 0x62, 0x91, 0x95, 0xe4, 0x79,
  0xe7, 0xc8, 0x37, 0x6d, 0x8d, 0xd5, 0x4e, 0xa9, 0x6c, 0x56, 0xf4, 0xea, 0x65, 0x7a, 0xae, 0x08,
  0xba, 0x78, 0x25, 0x2e, 0x1c, 0xa6, 0xb4, 0xc6, 0xe8, 0xdd, 0x74, 0x1f, 0x4b, 0xbd, 0x8b, 0x8a,
  0x70, 0x3e, 0xb5, 0x66, 0x48, 0x03, 0xf6, 0x0e, 0x61, 0x35, 0x57, 0xb9, 0x86, 0xc1, 0x1d, 0x9e,
  0xe1, 0xf8, 0x98, 0x11, 0x69, 0xd9, 0x8e, 0x94, 0x9b, 0x1e, 0x87, 0xe9, 0xce, 0x55, 0x28, 0xdf,
  0x8c, 0xa1, 0x89, 0x0d, 0xbf, 0xe6, 0x42, 0x68, 0x41, 0x99, 0x2d, 0x0f, 0xb0, 0x54, 0xbb, 0x16]

abbrev Block := List UInt8   -- 16 bytes, state s[r, c] = block[r + 4c]

def xorBytes (a b : List UInt8) : List UInt8 := List.zipWith (· ^^^ ·) a b

def subBytes (s : Block) : Block := s.map sbox
/-- s'[r, c] = s[r, (c + r) mod 4] -/
def shiftRows (s : Block) : Block :=
  (List.range 16).map fun i => s.getD (i % 4 + 4 * ((i / 4 + i % 4) % 4)) 0
def mixColumn (a0 a1 a2 a3 : UInt8) : List UInt8 :=
  [xtime a0 ^^^ (xtime a1 ^^^ a1) ^^^ a2 ^^^ a3,
   a0 ^^^ xtime a1 ^^^ (xtime a2 ^^^ a2) ^^^ a3,
   a0 ^^^ a1 ^^^ xtime a2 ^^^ (xtime a3 ^^^ a3),
   (xtime a0 ^^^ a0) ^^^ a1 ^^^ a2 ^^^ xtime a3]
def mixColumns (s : Block) : Block :=
  (List.range 4).flatMap fun c => mixColumn (s.getD (4 * c) 0) (s.getD (4 * c + 1) 0) (s.getD (4 * c + 2) 0) (s.getD (4 * c + 3) 0)

/-- KeyExpansion (§5.2): the list of 4(Nr+1) words, each 4 bytes; Nk = key.length / 4 -/
def keyExpansion (key : List UInt8) (nr : Nat) : List (List UInt8) :=
  let nk := key.length / 4
  let w0 : List (List UInt8) := (List.range nk).map fun i => (key.drop (4 * i)).take 4
  (List.range (4 * (nr + 1) - nk)).foldl (fun w j =>
    let i := nk + j
    let temp := w.getD (i - 1) []
    let temp :=
      if i % nk = 0 then
        let rot := temp.drop 1 ++ temp.take 1
        xorBytes (rot.map sbox) [gpow 2 (i / nk - 1), 0, 0, 0]
      else if nk > 6 ∧ i % nk = 4 then temp.map sbox
      else temp
    w ++ [xorBytes (w.getD (i - nk) []) temp]) w0

def roundKey (w : List (List UInt8)) (r : Nat) : Block := ((w.drop (4 * r)).take 4).flatten

/-- Cipher (§5.1) with an expanded key -/
def cipherWith (w : List (List UInt8)) (nr : Nat) (inp : Block) : Block :=
  let s := xorBytes inp (roundKey w 0)
  let s := (List.range (nr - 1)).foldl (fun s r => xorBytes (mixColumns (shiftRows (subBytes s))) (roundKey w (r + 1))) s
  xorBytes (shiftRows (subBytes s)) (roundKey w nr)

def aes256 (key : List UInt8) (inp : Block) : Block := cipherWith (keyExpansion key 14) 14 inp
def aes128 (key : List UInt8) (inp : Block) : Block := cipherWith (keyExpansion key 10) 10 inp

end SqiModel.Aes

/-
FIPS 197 (AES) — executable specification of the cipher (encryption only), AES-128 and AES-256.
Core-only. Nothing is tabulated: the S-box is computed from the multiplicative inverse in GF(2^8)
(modulus x^8 + x^4 + x^3 + x + 1) followed by the affine map of §5.1.1, Rcon from powers of x.
The C implementation (src/common/generic/aes_c.c, a bitsliced constant-time BearSSL port) is tied to
this specification by correspondence only (tie H).
-/
namespace SqiModel.Aes

/-- multiplication by x in GF(2^8) (§4.2.1 xtime) -/
def xtime (b : UInt8) : UInt8 := (b <<< 1) ^^^ (if b &&& 0x80 != 0 then 0x1b else 0)

/-- multiplication in GF(2^8) -/
def gmul (a b : UInt8) : UInt8 :=
  ((List.range 8).foldl (fun (acc : UInt8 × UInt8) i =>
      ((if (b >>> i.toUInt8) &&& 1 != 0 then acc.1 ^^^ acc.2 else acc.1), xtime acc.2)) (0, a)).1

def gpow (a : UInt8) : Nat → UInt8
  | 0 => 1
  | n + 1 => gmul a (gpow a n)

/-- multiplicative inverse, 0 ↦ 0:  a^254 -/
def ginv (a : UInt8) : UInt8 :=
  let a2 := gmul a a; let a4 := gmul a2 a2; let a8 := gmul a4 a4; let a16 := gmul a8 a8
  let a32 := gmul a16 a16; let a64 := gmul a32 a32; let a128 := gmul a64 a64
  gmul a128 (gmul a64 (gmul a32 (gmul a16 (gmul a8 (gmul a4 a2)))))

def rotl8 (b : UInt8) (k : UInt8) : UInt8 := (b <<< k) ||| (b >>> (8 - k))

/-- SubBytes on one byte (§5.1.1): b'_i = b_i ⊕ b_{i+4} ⊕ b_{i+5} ⊕ b_{i+6} ⊕ b_{i+7} ⊕ c_i, c = 0x63 -/
def sbox (a : UInt8) : UInt8 :=
  let b := ginv a
  b ^^^ rotl8 b 1 ^^^ rotl8 b 2 ^^^ rotl8 b 3 ^^^ rotl8 b 4 ^^^ 0x63

abbrev Block := List UInt8   -- 16 bytes, state s[r, c] = block[r + 4c]

def xorBytes (a b : List UInt8) : List UInt8 := List.zipWith (· ^^^ ·) a b

def subBytes (s : Block) : Block := s.map sbox
/-- s'[r, c] = s[r, (c + r) mod 4] -/
def shiftRows (s : Block) : Block :=
  (List.range 16).map fun i => s.getD (i % 4 + 4 * ((i / 4 + i % 4) % 4)) 0
def mixColumn (a0 a1 a2 a3 : UInt8) : List UInt8 :=
  [xtime a0 ^^^ (xtime a1 ^^^ a1) ^^^ a2 ^^^ a3,
   a0 ^^^ xtime a1 ^^^ (xtime a2 ^^^ a2) ^^^ a3,
   a0 ^^^ a1 ^^^ xtime a2 ^^^ (xtime a3 ^^^ a3),
   (xtime a0 ^^^ a0) ^^^ a1 ^^^ a2 ^^^ xtime a3]
def mixColumns (s : Block) : Block :=
  (List.range 4).flatMap fun c => mixColumn (s.getD (4 * c) 0) (s.getD (4 * c + 1) 0) (s.getD (4 * c + 2) 0) (s.getD (4 * c + 3) 0)

/-- KeyExpansion (§5.2): the list of 4(Nr+1) words, each 4 bytes; Nk = key.length / 4 -/
def keyExpansion (key : List UInt8) (nr : Nat) : List (List UInt8) :=
  let nk := key.length / 4
  let w0 : List (List UInt8) := (List.range nk).map fun i => (key.drop (4 * i)).take 4
  (List.range (4 * (nr + 1) - nk)).foldl (fun w j =>
    let i := nk + j
    let temp := w.getD (i - 1) []
    let temp :=
      if i % nk = 0 then
        let rot := temp.drop 1 ++ temp.take 1
        xorBytes (rot.map sbox) [gpow 2 (i / nk - 1), 0, 0, 0]
      else if nk > 6 ∧ i % nk = 4 then temp.map sbox
      else temp
    w ++ [xorBytes (w.getD (i - nk) []) temp]) w0

def roundKey (w : List (List UInt8)) (r : Nat) : Block := ((w.drop (4 * r)).take 4).flatten

/-- Cipher (§5.1) with an expanded key -/
def cipherWith (w : List (List UInt8)) (nr : Nat) (inp : Block) : Block :=
  let s := xorBytes inp (roundKey w 0)
  let s := (List.range (nr - 1)).foldl (fun s r => xorBytes (mixColumns (shiftRows (subBytes s))) (roundKey w (r + 1))) s
  xorBytes (shiftRows (subBytes s)) (roundKey w nr)

def aes256 (key : List UInt8) (inp : Block) : Block := cipherWith (keyExpansion key 14) 14 inp
def aes128 (key : List UInt8) (inp : Block) : Block := cipherWith (keyExpansion key 10) 10 inp

end SqiModel.Aes

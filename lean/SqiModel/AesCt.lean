/-
Hand model of the call structure of src/common/generic/aes_c.c (AES_256_ECB → aes256_ecb_keyexp / aes256_ecb →
br_aes_ct64_keysched / br_aes_ct64_skey_expand / aes_ecb → aes_ecb4x) on top of the *generated* register programs
of SqiGen.Aes (the bitsliced primitives, tie T).  Core-only, executable (tie H through the driver).

A primitive is run on its parameter registers followed by zero-initialised locals (the translator checks that every
local is assigned before it is read, so their initial value is irrelevant).

Bitsliced layout (proved, not assumed, in SqiProofs/AesCt*.lean): q[b] bit 16·r + 4·c + blk is bit b of the state byte
in row r, column c of block blk (4 blocks are processed at once).
-/
import SqiModel.Bitslice
import SqiGen.Aes

namespace SqiModel.AesCt
open SqiModel.Bitslice

def runPrim (prog : Prog) (nreg : Nat) (inp : List UInt64) : List UInt64 :=
  run prog (inp ++ List.replicate (nreg - inp.length) 0)

def sboxQ (q : List UInt64) : List UInt64 := (runPrim SqiGen.Aes.sbox_prog SqiGen.Aes.sbox_nreg q).take 8
def shiftRowsQ (q : List UInt64) : List UInt64 := (runPrim SqiGen.Aes.shift_rows_prog SqiGen.Aes.shift_rows_nreg q).take 8
def mixColumnsQ (q : List UInt64) : List UInt64 := (runPrim SqiGen.Aes.mix_columns_prog SqiGen.Aes.mix_columns_nreg q).take 8
def orthoQ (q : List UInt64) : List UInt64 := (runPrim SqiGen.Aes.ortho_prog SqiGen.Aes.ortho_nreg q).take 8
def addRoundKeyQ (q sk : List UInt64) : List UInt64 :=
  (runPrim SqiGen.Aes.add_round_key_prog SqiGen.Aes.add_round_key_nreg (q ++ sk)).take 8
/-- `br_aes_ct64_interleave_in(&q0, &q1, w)`: (q0, q1) -/
def interleaveIn (w : List UInt64) : UInt64 × UInt64 :=
  let e := runPrim SqiGen.Aes.interleave_in_prog SqiGen.Aes.interleave_in_nreg (w ++ [0, 0])
  (e.getD 4 0, e.getD 5 0)
/-- `br_aes_ct64_interleave_out(w, q0, q1)`: w[0..3] -/
def interleaveOut (q0 q1 : UInt64) : List UInt64 :=
  ((runPrim SqiGen.Aes.interleave_out_prog SqiGen.Aes.interleave_out_nreg [q0, q1, 0, 0, 0, 0]).drop 2).take 4

/-- `br_dec32le` (value of a uint32_t held in a 64-bit register): byte j at bits 8j … 8j+7 -/
def dec32le (b : List UInt8) : UInt64 :=
  (List.range 4).foldl (fun r j => r ||| ((b.getD j 0).toUInt64 <<< (8 * j).toUInt64)) 0
/-- `br_enc32le` -/
def enc32le (x : UInt64) : List UInt8 := (List.range 4).map fun j => (x >>> UInt64.ofNat (8 * j)).toUInt8

/-- the rounds of `aes_ecb4x` on the bitsliced state: q after the initial ortho, sk_exp as 8-word round keys -/
def roundsQ (q : List UInt64) (sk : Nat → List UInt64) (nrounds : Nat) : List UInt64 :=
  let q := addRoundKeyQ q (sk 0)
  let q := (List.range (nrounds - 1)).foldl (fun q i => addRoundKeyQ (mixColumnsQ (shiftRowsQ (sboxQ q))) (sk (i + 1))) q
  addRoundKeyQ (shiftRowsQ (sboxQ q)) (sk nrounds)

/-- the entry sequence of `aes_ecb4x` as one register program:
    `for i < 4: br_aes_ct64_interleave_in(&q[i], &q[i + 4], w + (i << 2)); br_aes_ct64_ortho(q);`
    registers 0..15 = w[0..15], 16..23 = q[0..7], then the locals of the five calls (disjoint). -/
def inProg : Prog :=
  ((List.range 4).flatMap fun j => SqiGen.Aes.interleave_in_prog.rename fun r =>
      if r < 4 then 4 * j + r else if r = 4 then 16 + j else if r = 5 then 20 + j else 24 + 4 * j + (r - 6))
  ++ SqiGen.Aes.ortho_prog.rename fun r => if r < 8 then 16 + r else 40 + (r - 8)
def inNreg : Nat := 64
/-- bitsliced state of 4 blocks given as 16 little-endian words -/
def sliceIn (w : List UInt64) : List UInt64 := ((runPrim inProg inNreg w).drop 16).take 8

/-- the exit sequence: `br_aes_ct64_ortho(q); for i < 4: br_aes_ct64_interleave_out(w + (i << 2), q[i], q[i + 4]);`
    registers 0..7 = q, 8..23 = w[0..15], then locals. -/
def outProg : Prog :=
  (SqiGen.Aes.ortho_prog.rename fun r => if r < 8 then r else 24 + (r - 8))
  ++ (List.range 4).flatMap fun j => SqiGen.Aes.interleave_out_prog.rename fun r =>
      if r = 0 then j else if r = 1 then j + 4 else if r < 6 then 8 + 4 * j + (r - 2) else 48 + 4 * j + (r - 6)
def outNreg : Nat := 64
def sliceOut (q : List UInt64) : List UInt64 := ((runPrim outProg outNreg q).drop 8).take 16

/-- `aes_ecb4x(out, ivw, sk_exp, nrounds)`: 16 input words (4 blocks), expanded key of 8·(nrounds+1) words -/
def ecb4x (w : List UInt64) (skExp : List UInt64) (nrounds : Nat) : List UInt8 :=
  let q := sliceIn w
  let q := roundsQ q (fun r => (skExp.drop (8 * r)).take 8) nrounds
  (sliceOut q).flatMap enc32le

/-! ### key schedule and wrappers (control code: text-checked by the translator, modelled here) -/
/-- `sub_word(x)`: q = {x, 0, …}; ortho; Sbox; ortho; (uint32_t)q[0] -/
def subWordC (x : UInt64) : UInt64 :=
  (orthoQ (sboxQ (orthoQ ((x &&& 0xffffffff) :: List.replicate 7 0)))).getD 0 0 &&& 0xffffffff
/-- `tmp = (tmp << 24) | (tmp >> 8)` in uint32_t arithmetic (`tmp` is a uint32_t: only its low 32 bits exist) -/
def rotWordC (t : UInt64) : UInt64 :=
  (((t &&& 0xffffffff) <<< UInt64.ofNat 24) ||| ((t &&& 0xffffffff) >>> UInt64.ofNat 8)) &&& 0xffffffff

/-- the word expansion loop of `br_aes_ct64_keysched` for key_len = 32, driven by the extracted control data `ks_ops`:
    skey[0..59] -/
def expandWords (key : List UInt8) : List UInt64 :=
  let w0 := (List.range SqiGen.Aes.ks_nk).map fun i => dec32le (key.drop (4 * i))
  ((SqiGen.Aes.ks_ops.zipIdx).foldl (fun (st : List UInt64 × UInt64) (x : (Nat × Nat) × Nat) =>
      let i := SqiGen.Aes.ks_nk + x.2
      let tmp := if x.1.1 = 1 then subWordC (rotWordC st.2) ^^^ (SqiGen.Aes.Rcon.getD x.1.2 0).toUInt64
                 else if x.1.1 = 2 then subWordC st.2 else st.2
      let tmp := tmp ^^^ st.1.getD (i - SqiGen.Aes.ks_nk) 0
      (st.1 ++ [tmp], tmp)) (w0, w0.getD (SqiGen.Aes.ks_nk - 1) 0)).1

/-- one iteration of the compression loop: skey[i..i+3] ↦ comp_skey[j], comp_skey[j+1] -/
def compress (ws : List UInt64) : List UInt64 :=
  ((runPrim SqiGen.Aes.ks_compress_prog SqiGen.Aes.ks_compress_nreg (ws ++ [0, 0])).drop 4).take 2
/-- `br_aes_ct64_keysched(comp_skey, key, 32)` -/
def keysched (key : List UInt8) : List UInt64 :=
  (List.range (SqiGen.Aes.ks_nkf / 4)).flatMap fun r => compress (((expandWords key).drop (4 * r)).take 4)
/-- one iteration of `br_aes_ct64_skey_expand`: comp_skey[u] ↦ skey[v..v+3] -/
def expand1 (c : UInt64) : List UInt64 :=
  ((runPrim SqiGen.Aes.ks_expand_prog SqiGen.Aes.ks_expand_nreg [c]).drop 1).take 4
/-- `br_aes_ct64_skey_expand(sk_exp, comp_skey, 14)` -/
def skeyExpand (comp : List UInt64) : List UInt64 := comp.flatMap expand1

/-- `AES_256_ECB(input, key, output)`: aes256_ecb_keyexp, aes256_ecb with nblocks = 1 → aes_ecb: `br_range_dec32le(blocks, 4, in)`
    fills blocks[0..3] only, the other 12 words of `blocks` are uninitialised stack (`garbage`, arbitrary), aes_ecb4x into a
    64-byte temporary, memcpy of the first 16 bytes -/
def aes256Ecb (garbage : List UInt64) (key block : List UInt8) : List UInt8 :=
  let sk := skeyExpand (keysched key)
  let w := ((List.range 4).map fun c => dec32le (block.drop (4 * c))) ++ garbage
  (ecb4x w sk SqiGen.Aes.ks_nrounds).take 16

/-! ### the coordinates of the bitsliced representation -/
/-- bit position of state byte i = r + 4c of block blk -/
def pos (i blk : Nat) : Nat := 16 * (i % 4) + 4 * (i / 4) + blk
def ofBits (l : List Bool) : UInt8 :=
  (l.zipIdx).foldl (fun acc (x : Bool × Nat) => if x.1 then acc ||| ((1 : UInt8) <<< x.2.toUInt8) else acc) 0
def byteBits (x : UInt8) : List Bool := (List.range 8).map fun k => x.toBitVec.getLsbD k
/-- state byte i of block blk held in the bitsliced registers q[0..7] -/
def unsliceByte (q : List UInt64) (i blk : Nat) : UInt8 := ofBits ((List.range 8).map fun b => bitsOf q b (pos i blk))
def unslice (q : List UInt64) (blk : Nat) : List UInt8 := (List.range 16).map fun i => unsliceByte q i blk

end SqiModel.AesCt

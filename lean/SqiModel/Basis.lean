/-
Hand model (tie H) of the hint logic of src/ec/ref/ecx/basis.c:

  ec_curve_to_point_2f_not_above_montgomery            ↦ `naOuter` / `naInner`   (search, emits hint)
  ec_curve_to_point_2f_not_above_montgomery_from_hint  ↦ `naFromHint`
  ec_curve_to_point_2f_above_montgomery                ↦ `abOuter` / `abInner`
  ec_curve_to_point_2f_above_montgomery_from_hint      ↦ `abFromHint`
  ec_curve_to_basis_2f_to_hint / _from_hint (x-coordinates before cofactor clearing) ↦ `toHint` / `fromHint`

The model is abstract in the field: `Fp` is any type; GF(p²) elements are pairs `(re, im)`. All that is
used of GF(p) is `one`, `add1 = fp_add(·, one)` and `setSmall = fp_set_small`; of GF(p²) the squareness
test `sq = fp2_is_square` (an arbitrary oracle `Fp × Fp → Bool`). The on-curve test is an arbitrary oracle
`oc : Nat → Fp × Fp → Bool` of the current hint counter and the candidate (the C test ignores the counter;
the verification hook that forces the first k candidates to fail is `fun h x => k ≤ h && …`). The
multiplication by α in the `above` search is an arbitrary function `mulAlpha`.

C loops are `for(;;)`; here they take a fuel argument and report `Res.fuel` when it runs out. A table read
outside the table is reported as `Res.oob` (the C code would read adjacent memory).
Core-only (linked into the driver).
-/
namespace SqiModel.Basis

/-- number of precomputed candidates the C code assumes in NQR_TABLE / Z_NQR_TABLE (literal `20` in basis.c) -/
def NTAB : Nat := 20

inductive Res (α : Type) where
  | ok : α → Res α
  | oob : Res α      -- table read out of bounds
  | fuel : Res α     -- search did not finish within the fuel
  deriving Repr, DecidableEq

structure Env (Fp : Type) where
  one : Fp
  add1 : Fp → Fp              -- fp_add(x, x, one)
  setSmall : Nat → Fp         -- fp_set_small
  sq : Fp × Fp → Bool         -- fp2_is_square

variable {Fp : Type}

/-- C table read `TABLE[i]` for a C `int` index: in bounds iff 0 ≤ i < length -/
def readTab (tab : List (Fp × Fp)) (i : Int) : Res (Fp × Fp) :=
  if 0 ≤ i then
    match tab[i.toNat]? with
    | some x => .ok x
    | none => .oob
  else .oob

/-! ## point not above (0,0) -/

/-- inner fallback loop: `for(;;){ fp_add(&x.re,&x.re,&one); if(!fp2_is_square(&x)) break; else hint += 1; }` -/
def naInner (E : Env Fp) : Nat → Nat → Fp × Fp → Res (Nat × (Fp × Fp))
  | 0, _, _ => .fuel
  | fuel + 1, hint, x =>
    let x' := (E.add1 x.1, x.2)
    if E.sq x' = false then .ok (hint, x') else naInner E fuel (hint + 1) x'

/-- outer loop of `ec_curve_to_point_2f_not_above_montgomery`; state = (hint, x) exactly as in C -/
def naOuter (E : Env Fp) (oc : Nat → Fp × Fp → Bool) (tab : List (Fp × Fp)) :
    Nat → Nat → Fp × Fp → Res (Nat × (Fp × Fp))
  | 0, _, _ => .fuel
  | fuel + 1, hint, x =>
    let sel : Res (Nat × (Fp × Fp)) :=
      if hint < NTAB then
        match readTab tab hint with
        | .ok t => .ok (hint, t)
        | .oob => .oob
        | .fuel => .fuel
      else
        let x0 := if hint = NTAB then (E.setSmall (hint - 1), E.one) else x
        naInner E fuel hint x0
    match sel with
    | .ok (h, x') => if oc h x' then .ok (h, x') else naOuter E oc tab fuel (h + 1) x'
    | .oob => .oob
    | .fuel => .fuel

/-- conversion `(digit_t)hint` of a C `int` to a 64-bit word (negative values wrap; non-negative ones are kept unbounded) -/
def toDigit (hint : Int) : Nat := if hint < 0 then (hint + 2 ^ 64).toNat else hint.toNat

/-- `ec_curve_to_point_2f_not_above_montgomery_from_hint` (hint is a C `int`); `guard` is the condition of the `if`
    protecting the table read (re-extracted from basis.c into SqiGen.BasisGuard) -/
def naFromHint (E : Env Fp) (guard : Int → Bool) (tab : List (Fp × Fp)) (hint : Int) : Res (Fp × Fp) :=
  if guard hint then readTab tab hint
  else .ok (E.setSmall (toDigit hint), E.one)

/-- the candidate attached to a hint value (specification) -/
def naCand (E : Env Fp) (tab : List (Fp × Fp)) (h : Nat) : Option (Fp × Fp) :=
  if h < NTAB then tab[h]? else some (E.setSmall h, E.one)

/-- hint `h` is acceptable: (beyond the table) the candidate is a non-square, and it passes the curve test -/
def naGood (E : Env Fp) (oc : Nat → Fp × Fp → Bool) (tab : List (Fp × Fp)) (h : Nat) : Bool :=
  match naCand E tab h with
  | some x => (decide (h < NTAB) || !E.sq x) && oc h x
  | none => false

/-! ## point above (0,0) -/

/-- inner fallback loop: both real parts are incremented, stop when z2 is a square and z1 is not -/
def abInner (E : Env Fp) : Nat → Nat → Fp × Fp → Fp × Fp → Res (Nat × (Fp × Fp) × (Fp × Fp))
  | 0, _, _, _ => .fuel
  | fuel + 1, hint, z1, z2 =>
    let z1' := (E.add1 z1.1, z1.2)
    let z2' := (E.add1 z2.1, z2.2)
    if E.sq z2' && !E.sq z1' then .ok (hint, z1', z2') else abInner E fuel (hint + 1) z1' z2'

/-- outer loop of `ec_curve_to_point_2f_above_montgomery`; state = (hint, z1, z2); returns (hint, x = z2·α) -/
def abOuter (E : Env Fp) (oc : Nat → Fp × Fp → Bool) (mulAlpha : Fp × Fp → Fp × Fp) (ztab : List (Fp × Fp)) :
    Nat → Nat → Fp × Fp → Fp × Fp → Res (Nat × (Fp × Fp))
  | 0, _, _, _ => .fuel
  | fuel + 1, hint, z1, z2 =>
    let sel : Res (Nat × (Fp × Fp) × (Fp × Fp)) :=
      if hint < NTAB then
        match readTab ztab hint with
        | .ok t => .ok (hint, z1, t)
        | .oob => .oob
        | .fuel => .fuel
      else
        let z1' := if hint = NTAB then (E.setSmall (hint - 2), E.one) else z1
        let z2' := if hint = NTAB then (E.setSmall (hint - 1), E.one) else z2
        abInner E fuel hint z1' z2'
    match sel with
    | .ok (h, z1', z2') =>
      let x := mulAlpha z2'
      if oc h x then .ok (h, x) else abOuter E oc mulAlpha ztab fuel (h + 1) z1' z2'
    | .oob => .oob
    | .fuel => .fuel

/-- `ec_curve_to_point_2f_above_montgomery_from_hint` -/
def abFromHint (E : Env Fp) (guard : Int → Bool) (mulAlpha : Fp × Fp → Fp × Fp) (ztab : List (Fp × Fp)) (hint : Int) : Res (Fp × Fp) :=
  let z2 : Res (Fp × Fp) :=
    if guard hint then readTab ztab hint else .ok (E.setSmall (toDigit hint), E.one)
  match z2 with
  | .ok z => .ok (mulAlpha z)
  | .oob => .oob
  | .fuel => .fuel

def abZ2 (E : Env Fp) (ztab : List (Fp × Fp)) (h : Nat) : Option (Fp × Fp) :=
  if h < NTAB then ztab[h]? else some (E.setSmall h, E.one)

def abGood (E : Env Fp) (oc : Nat → Fp × Fp → Bool) (mulAlpha : Fp × Fp → Fp × Fp) (ztab : List (Fp × Fp))
    (h : Nat) : Bool :=
  match abZ2 E ztab h with
  | some z2 => (decide (h < NTAB) || (E.sq z2 && !E.sq (E.setSmall (h - 1), E.one))) && oc h (mulAlpha z2)
  | none => false

/-! ## the pair of searches of `ec_curve_to_basis_2f_to_hint` / `_from_hint` -/

structure Search (Fp : Type) where
  E : Env Fp
  ocP : Nat → Fp × Fp → Bool        -- curve test of the not-above search
  ocQ : Nat → Fp × Fp → Bool        -- curve test of the above search
  mulAlpha : Fp × Fp → Fp × Fp
  tab : List (Fp × Fp)              -- NQR_TABLE
  ztab : List (Fp × Fp)             -- Z_NQR_TABLE
  junk : Fp × Fp                    -- value of uninitialised locals (x, z1, z2 before first assignment)
  guardP : Int → Bool               -- guard of `NQR_TABLE[hint]` in the not-above from_hint routine
  guardQ : Int → Bool               -- guard of `Z_NQR_TABLE[hint]` in the above from_hint routine

structure Hinted (Fp : Type) where
  hintP : Nat
  hintQ : Nat
  xP : Fp × Fp
  xQ : Fp × Fp

/-- x-coordinates (before cofactor clearing) and hints produced by `ec_curve_to_basis_2f_to_hint` -/
def toHint (S : Search Fp) (fuel : Nat) : Res (Hinted Fp) :=
  match naOuter S.E S.ocP S.tab fuel 0 S.junk with
  | .ok (h0, xP) =>
    match abOuter S.E S.ocQ S.mulAlpha S.ztab fuel 0 S.junk S.junk with
    | .ok (h1, xQ) => .ok ⟨h0, h1, xP, xQ⟩
    | .oob => .oob
    | .fuel => .fuel
  | .oob => .oob
  | .fuel => .fuel

/-- x-coordinates used by `ec_curve_to_basis_2f_from_hint` for C `int` hints -/
def fromHint (S : Search Fp) (h0 h1 : Int) : Res ((Fp × Fp) × (Fp × Fp)) :=
  match naFromHint S.E S.guardP S.tab h0 with
  | .ok xP =>
    match abFromHint S.E S.guardQ S.mulAlpha S.ztab h1 with
    | .ok xQ => .ok (xP, xQ)
    | .oob => .oob
    | .fuel => .fuel
  | .oob => .oob
  | .fuel => .fuel

end SqiModel.Basis

/-
Concrete instance of the hint-search model over GF(p²) = (Nat × Nat, explicit mod p), with the curve tests of
basis.c transcribed statement by statement. This is what the driver runs against the C functions.
-/
import SqiModel.Basis
import SqiModel.Fp2V
import SqiGen.Tables1
import SqiGen.Tables3
import SqiGen.Tables5
import SqiGen.BasisGuard

namespace SqiModel.BasisConcrete
open SqiModel.Basis SqiModel.Fp2V

/-- GF(p) environment: canonical representatives -/
def env (p : Nat) : Env Nat :=
  { one := 1 % p, add1 := fun a => fadd p a (1 % p), setSmall := fun n => n % p, sq := f2IsSquare p }

/-- curve test of `ec_curve_to_point_2f_not_above_montgomery`: C²x³ + ACx² + C²x is a square -/
def ocNotAbove (p : Nat) (A C x : F2) : Bool :=
  let t0 := f2mul p x C
  let t1 := f2add p t0 A
  let t1 := f2mul p t1 x
  let t1 := f2add p t1 C
  let t1 := f2mul p t1 t0
  f2IsSquare p t1

/-- a = A/C as computed in `ec_curve_to_point_2f_above_montgomery` -/
def aOf (p : Nat) (A C : F2) : F2 := f2mul p (f2inv p C) A

/-- alpha = (-a + sqrt(a² - 4))/2 -/
def alphaOf (p : Nat) (a : F2) : F2 :=
  let d := f2sub p (f2sqr p a) (f2small p 4)
  let d := f2sqrt p d
  f2half p (f2sub p d a)

/-- curve test of `ec_curve_to_point_2f_above_montgomery`: x³ + a x² + x is a square -/
def ocAbove (p : Nat) (a x : F2) : Bool :=
  let t0 := f2add p x a
  let t0 := f2mul p t0 x
  let t0 : F2 := (fadd p t0.1 (1 % p), t0.2)
  let t0 := f2mul p t0 x
  f2IsSquare p t0

/-- Montgomery decoding of a precomputed table -/
def decodeTab (p nwords : Nat) (raw : List F2) : List F2 := raw.map (f2fromMont p nwords)

/-- the searches for the curve (A:C); `forceP`/`forceQ` model the verification hook
    `verif_basis_force_fail` (candidates with hint < force are skipped as if the curve test failed; 0 = pinned code) -/
def search (p nwords : Nat) (tabRaw ztabRaw : List F2) (A C : F2) (forceP forceQ : Nat) : Search Nat :=
  let a := aOf p A C
  let alpha := alphaOf p a
  { E := env p
    ocP := fun h x => decide (forceP ≤ h) && ocNotAbove p A C x
    ocQ := fun h x => decide (forceQ ≤ h) && ocAbove p a x
    mulAlpha := fun z => f2mul p z alpha
    tab := decodeTab p nwords tabRaw
    ztab := decodeTab p nwords ztabRaw
    junk := (0, 0)
    guardP := SqiGen.BasisGuard.holds SqiGen.BasisGuard.notAboveFromHint
    guardQ := SqiGen.BasisGuard.holds SqiGen.BasisGuard.aboveFromHint }

def searchL (lvl : Nat) (A C : F2) (forceP forceQ : Nat) : Option (Search Nat) :=
  match lvl with
  | 1 => some (search SqiGen.L1.FP_p SqiGen.L1.D_NWORDS_FIELD SqiGen.L1.W64.NQR_TABLE SqiGen.L1.W64.Z_NQR_TABLE A C forceP forceQ)
  | 3 => some (search SqiGen.L3.FP_p SqiGen.L3.D_NWORDS_FIELD SqiGen.L3.W64.NQR_TABLE SqiGen.L3.W64.Z_NQR_TABLE A C forceP forceQ)
  | 5 => some (search SqiGen.L5.FP_p SqiGen.L5.D_NWORDS_FIELD SqiGen.L5.W64.NQR_TABLE SqiGen.L5.W64.Z_NQR_TABLE A C forceP forceQ)
  | _ => none

end SqiModel.BasisConcrete

/-
Straight-line 64-bit word programs as data (core-only): the target language of the translator for the bitsliced
AES primitives of src/common/generic/aes_c.c, its semantics on `UInt64` registers (what the C computes), and two
reflective evaluators used by the proofs:
  * `symRun`   — symbolic evaluation into GF(2)-affine forms over the *initial* register bits (a `Nat` bit mask of
                 variables, variable 64·i + k = bit k of initial register i, plus a constant), failing on genuinely
                 non-linear AND/OR — used for the bit permutations / linear layers (ortho, interleave, ShiftRows,
                 MixColumns, AddRoundKey);
  * `laneRun`  — evaluation over `Bool` registers of lane-wise programs (XOR/AND/OR/NOT only) — used for the S-box circuit.
-/
namespace SqiModel.Bitslice

inductive Ex where
  | reg (i : Nat)
  | const (c : UInt64)
  | xor (a b : Ex)
  | and (a b : Ex)
  | or (a b : Ex)
  | not (a : Ex)
  | shl (a : Ex) (n : Nat)
  | shr (a : Ex) (n : Nat)
  | sub (a b : Ex)
deriving Repr, DecidableEq, Inhabited

abbrev Env := List UInt64
/-- a program: sequence of assignments `reg d := e` -/
abbrev Prog := List (Nat × Ex)

def Ex.eval (env : Env) : Ex → UInt64
  | .reg i => env.getD i 0
  | .const c => c
  | .xor a b => a.eval env ^^^ b.eval env
  | .and a b => a.eval env &&& b.eval env
  | .or a b => a.eval env ||| b.eval env
  | .not a => ~~~ a.eval env
  | .shl a n => a.eval env <<< UInt64.ofNat n
  | .shr a n => a.eval env >>> UInt64.ofNat n
  | .sub a b => a.eval env - b.eval env

def step (env : Env) (s : Nat × Ex) : Env := env.set s.1 (s.2.eval env)
def run (prog : Prog) (env : Env) : Env := prog.foldl step env

/-- register renaming (a call with other actual parameters / other locals) -/
def Ex.rename (f : Nat → Nat) : Ex → Ex
  | .reg i => .reg (f i)
  | .const c => .const c
  | .xor a b => .xor (a.rename f) (b.rename f)
  | .and a b => .and (a.rename f) (b.rename f)
  | .or a b => .or (a.rename f) (b.rename f)
  | .not a => .not (a.rename f)
  | .shl a n => .shl (a.rename f) n
  | .shr a n => .shr (a.rename f) n
  | .sub a b => .sub (a.rename f) (b.rename f)
def Prog.rename (f : Nat → Nat) (p : Prog) : Prog := p.map fun s => (f s.1, s.2.rename f)

/-- all shift amounts < 64, no subtraction, registers < nreg -/
def Ex.ok (nreg : Nat) : Ex → Bool
  | .reg i => i < nreg
  | .const _ => true
  | .xor a b | .and a b | .or a b => a.ok nreg && b.ok nreg
  | .not a => a.ok nreg
  | .shl a n | .shr a n => a.ok nreg && n < 64
  | .sub _ _ => false
def Prog.ok (nreg : Nat) (p : Prog) : Bool := p.all fun s => s.1 < nreg && s.2.ok nreg

/-- bit p of register i -/
def bitsOf (env : Env) (i p : Nat) : Bool := (env.getD i 0).toBitVec.getLsbD p

/-! ### affine forms over the initial register bits -/
structure Aff where
  mask : Nat
  c : Bool
deriving DecidableEq, Repr

def Aff.zero : Aff := ⟨0, false⟩
def Aff.var (i k : Nat) : Aff := ⟨2 ^ (64 * i + k), false⟩
def Aff.xor (a b : Aff) : Aff := ⟨a.mask ^^^ b.mask, a.c != b.c⟩
def Aff.isConst (a : Aff) : Bool := a.mask == 0

/-- parity of the selected variables v < nvars under the assignment `val` -/
def par (val : Nat → Bool) (mask : Nat) : Nat → Bool
  | 0 => false
  | n + 1 => par val mask n != (mask.testBit n && val n)
/-- value of an affine form under an assignment of the variables v < nvars -/
def Aff.eval (nvars : Nat) (val : Nat → Bool) (a : Aff) : Bool := a.c != par val a.mask nvars

abbrev SEnv := Nat → Nat → Option Aff
def sinit : SEnv := fun i k => some (Aff.var i k)

def Ex.sym (senv : SEnv) : Ex → Nat → Option Aff
  | .reg i, p => senv i p
  | .const c, p => some ⟨0, c.toBitVec.getLsbD p⟩
  | .xor a b, p => match a.sym senv p, b.sym senv p with
      | some x, some y => some (x.xor y)
      | _, _ => none
  | .and a b, p => match a.sym senv p, b.sym senv p with
      | some x, some y =>
          if x.isConst then (if x.c then some y else some Aff.zero)
          else if y.isConst then (if y.c then some x else some Aff.zero)
          else none
      | some x, none => if x.isConst && !x.c then some Aff.zero else none     -- masked out: 0 ∧ anything
      | none, some y => if y.isConst && !y.c then some Aff.zero else none
      | none, none => none
  | .or a b, p => match a.sym senv p, b.sym senv p with
      | some x, some y =>
          if x.isConst then (if x.c then some ⟨0, true⟩ else some y)
          else if y.isConst then (if y.c then some ⟨0, true⟩ else some x)
          else none
      | _, _ => none
  | .not a, p => match a.sym senv p with
      | some x => some ⟨x.mask, !x.c⟩
      | none => none
  | .shl a n, p => if p < n then some Aff.zero else a.sym senv (p - n)
  | .shr a n, p => if n + p < 64 then a.sym senv (n + p) else some Aff.zero
  | .sub _ _, _ => none

def sstep (senv : SEnv) (s : Nat × Ex) : SEnv := fun i p => if i = s.1 then s.2.sym senv p else senv i p
def symRun (prog : Prog) (senv : SEnv) : SEnv := prog.foldl sstep senv

/-! ### lane-wise programs over Bool registers -/
def Ex.lane (benv : Nat → Bool) : Ex → Option Bool
  | .reg i => some (benv i)
  | .xor a b => match a.lane benv, b.lane benv with
      | some x, some y => some (x != y)
      | _, _ => none
  | .and a b => match a.lane benv, b.lane benv with
      | some x, some y => some (x && y)
      | _, _ => none
  | .or a b => match a.lane benv, b.lane benv with
      | some x, some y => some (x || y)
      | _, _ => none
  | .not a => match a.lane benv with
      | some x => some (!x)
      | none => none
  | _ => none

/-- Bool registers as a list; `none` if some statement is not lane-wise -/
def laneRun : Prog → List Bool → Option (List Bool)
  | [], env => some env
  | (d, e) :: rest, env => match e.lane (fun i => env.getD i false) with
      | some b => laneRun rest (env.set d b)
      | none => none

/-! ### lane-wise programs over `w` lanes packed into one `Nat` per register (truth-table evaluation) -/
def Ex.nat (w : Nat) (env : List Nat) : Ex → Option Nat
  | .reg i => some (env.getD i 0)
  | .xor a b => match a.nat w env, b.nat w env with
      | some x, some y => some (x ^^^ y)
      | _, _ => none
  | .and a b => match a.nat w env, b.nat w env with
      | some x, some y => some (x &&& y)
      | _, _ => none
  | .or a b => match a.nat w env, b.nat w env with
      | some x, some y => some (x ||| y)
      | _, _ => none
  | .not a => match a.nat w env with
      | some x => some ((2 ^ w - 1) ^^^ x)
      | none => none
  | _ => none

def natRun (w : Nat) : Prog → List Nat → Option (List Nat)
  | [], env => some env
  | (d, e) :: rest, env => match e.nat w env with
      | some x => natRun w rest (env.set d x)
      | none => none

end SqiModel.Bitslice

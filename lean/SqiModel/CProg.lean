/-
C17 tie T — the target language of tools/translate/intbig.py.

The translator re-extracts the bodies of selected functions of intbig.c / integers.c into Lean definitions
(lean/SqiGen/Intbig.lean) that use ONLY: `let` for an assignment / an mpz call with a destination, `if` for `if`,
the loop combinators below for `while` / `for` / `do … while(1)`, and the GMP primitives below with register or
literal operands.  This file is the "interpreter": it fixes the meaning of every primitive (the same modelling of
GMP as SqiModel.Intbig: exact `Int`) and of the loop combinators.  C `int` variables are `Int` (no wrap-around is
modelled); operations that abort or are undefined in C/GMP for some operands are partial (`Option`).
Core Lean only.
-/
import SqiModel.Intbig
import SqiModel.NumberTheory
namespace SqiModel.CProg
open SqiModel.Intbig

/-! ### GMP primitives (destination-passing calls become functions returning the new value) -/
abbrev mpz_set (a : Int) : Int := a
abbrev mpz_set_ui (k : Int) : Int := k
abbrev mpz_add (a b : Int) : Int := a + b
abbrev mpz_sub (a b : Int) : Int := a - b
abbrev mpz_mul (a b : Int) : Int := a * b
abbrev mpz_add_ui (a k : Int) : Int := a + k
abbrev mpz_sub_ui (a k : Int) : Int := a - k
abbrev mpz_mod (a b : Int) : Int := a % b
/-- `mpz_mul_2exp(d, a, k)` with an `int` count: a negative count converts to a huge `mp_bitcnt_t` and GMP aborts -/
abbrev mpz_mul_2exp (a k : Int) : Option Int := if k < 0 then none else some (a * 2 ^ k.toNat)
/-- the same with a literal (non-negative) count -/
abbrev mpz_mul_2exp_lit (a : Int) (k : Nat) : Int := a * 2 ^ k
abbrev mpz_tdiv_q_2exp (a k : Int) : Int := a.tdiv (2 ^ k.toNat)
abbrev mpz_fdiv_q_2exp (a k : Int) : Int := a / 2 ^ k.toNat
abbrev mpz_powm (b e m : Int) : Int := powm b e.toNat m
abbrev mpz_powm_ui (b e m : Int) : Int := powm b e.toNat m
/-- value returned (and stored) by `mpz_mod_ui(r, a, k)` -/
abbrev mpz_mod_ui (a k : Int) : Int := a % k
abbrev mpz_fdiv_ui (a k : Int) : Int := a % k
abbrev mpz_jacobi (a p : Int) : Int := jacobiP a p
abbrev mpz_legendre (a p : Int) : Int := jacobiP a p
abbrev mpz_cmp (a b : Int) : Int := (a - b).sign
abbrev mpz_cmp_ui (a k : Int) : Int := (a - k).sign
abbrev mpz_sgn (a : Int) : Int := a.sign
/-- bit `e` of a non-negative q (two's complement bits of negative numbers are not modelled: not used) -/
abbrev mpz_tstbit (q e : Int) : Int := q / 2 ^ e.toNat % 2
/-- `mpz_scan1(a, 0)` for a ≠ 0 -/
abbrev mpz_scan1 (a start : Int) : Int := if start = 0 then (trailingZeros a.natAbs a.natAbs : Nat) else -1
abbrev mpz_sizeinbase (a base : Int) : Int := if base = 2 then (sizeInBase2 a : Nat) else -1
abbrev mpz_gcdext (a b : Int) : Int × Int × Int := gcdext a b
abbrev mpz_tdiv_qr (a b : Int) : Int × Int := (a.tdiv b, a.tmod b)
abbrev mpz_fdiv_qr (a b : Int) : Int × Int := (a.fdiv b, a.fmod b)
/-- C `1UL << k` etc. on `unsigned long`: undefined for k ∉ [0, 64), wraps modulo 2^64 -/
abbrev ulShl (x k : Int) : Option Int := if 0 ≤ k ∧ k < 64 then some (x * 2 ^ k.toNat % 2 ^ 64) else none
/-- C `x >> k` on a 64-bit unsigned word: undefined for k ∉ [0, 64) -/
abbrev ulShr (x k : Int) : Option Int := if 0 ≤ k ∧ k < 64 then some (x / 2 ^ k.toNat) else none

/-! ### the ibz layer (wrappers of intbig.c used by integers.c); `prim_` prefix: the translated wrappers themselves live
     in SqiGen.Intbig under their C names -/
abbrev prim_ibz_set (k : Int) : Int := k
abbrev prim_ibz_copy (a : Int) : Int := a
abbrev prim_ibz_add (a b : Int) : Int := a + b
abbrev prim_ibz_sub (a b : Int) : Int := a - b
abbrev prim_ibz_mul (a b : Int) : Int := a * b
abbrev prim_ibz_cmp (a b : Int) : Int := (a - b).sign
abbrev prim_ibz_is_one (a : Int) : Int := if a = 1 then 1 else 0
abbrev prim_ibz_is_zero (a : Int) : Int := if a = 0 then 1 else 0
/-- `ibz_sqrt(sqrt, a)` (mpz_perfect_square_p + mpz_sqrt): primitive, modelled by `SqiModel.NumberTheory.ibzSqrt` -/
abbrev prim_ibz_sqrt (_out a : Int) : Res Int := SqiModel.NumberTheory.ibzSqrt a
/-- `ibz_div(q, r, a, b)` = `mpz_tdiv_qr`; division by zero raises SIGFPE -/
abbrev prim_ibz_div (a b : Int) : Option (Int × Int) := if b = 0 then none else some (a.tdiv b, a.tmod b)

/-- conversion to `mp_limb_t` / `unsigned long` (wraps modulo 2^64) -/
abbrev ulOfInt (x : Int) : Int := x % 2 ^ 64
/-- `randombytes(buf, n)` over an explicit byte stream: `none` = the generator failed (stream exhausted);
    otherwise the little-endian value of the n bytes written to `buf`, and the rest of the stream -/
def randombytes (stream : List Nat) (n : Int) : Option (Int × List Nat) :=
  if stream.length < n.toNat then none else some ((fromBytesLE (stream.take n.toNat) : Nat), stream.drop n.toNat)
/-- `r[idx] &= mask` on a limb array held as its little-endian value -/
def maskTopLimb (v idx mask : Int) : Int :=
  let w := 2 ^ (64 * idx.toNat)
  ((v.toNat % w + (v.toNat / w % 2 ^ 64 &&& mask.toNat) * w : Nat) : Int)
/-- `mpz_roinit_n(tmp, r, n)`: the integer whose limbs are r[0..n) (r holds exactly n limbs) -/
abbrev mpz_roinit_n (r n : Int) : Int := r

/-! ### control-flow combinators -/

/-- `while (cond) body` with a fuel bound (fuel exhausted while the condition still holds = non-termination) -/
def whileFuel {σ : Type} (cond : σ → Bool) (body : σ → σ) : Nat → σ → Option σ
  | 0, s => if cond s then none else some s
  | n + 1, s => if cond s then whileFuel cond body n (body s) else some s

/-- `while (cond) body` whose body contains a partial operation (`none` = fuel exhausted or undefined step) -/
def whileFuelO {σ : Type} (cond : σ → Bool) (body : σ → Option σ) : Nat → σ → Option σ
  | 0, s => if cond s then none else some s
  | n + 1, s => if cond s then (match body s with | none => none | some s' => whileFuelO cond body n s') else some s

/-- `for (int i = 0; i < n; ++i) body` where the body does not use i -/
def forN {σ : Type} (body : σ → σ) : Nat → σ → σ
  | 0, s => s
  | n + 1, s => forN body n (body s)

/-- one step of a `do { … } while (1)` loop with exits -/
inductive Step (σ ρ : Type) where
  | next : σ → Step σ ρ      -- reached the end of the body: iterate again
  | stop : σ → Step σ ρ      -- `break`
  | exit : ρ → Step σ ρ      -- `goto` out of the function
/-- `do body while (1)`; `none` = fuel exhausted -/
def doLoop {σ ρ : Type} (body : σ → Step σ ρ) : Nat → σ → Option (σ ⊕ ρ)
  | 0, _ => none
  | n + 1, s =>
    match body s with
    | .next s' => doLoop body n s'
    | .stop s' => some (.inl s')
    | .exit r => some (.inr r)

/-- epilogue `return ret;` of the int-returning routines with one output -/
def finish {α : Type} (ret : Int) (out : α) : Res α := if ret = 0 then .fail else .ok out

end SqiModel.CProg

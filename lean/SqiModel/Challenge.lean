/-
Model of `hash_to_challenge` (the three sign.c files): the hash input is the byte string
   fp2_encode(j(E_com)) ‖ fp2_encode(j(E_pk)) ‖ message
with two fixed-width encodings (FP2_ENCODED_BYTES each), hashed with SHAKE256 to NWORDS_FIELD 64-bit digits
(read as a little-endian integer: `ibz_copy_digit_array` on a little-endian host), re-hashed
`SQIsign2D_heuristic_challenge_hash_iteration` times onto itself in the heuristic and HD variants;
scalars[0] = 1.  The XOF is a parameter. j-invariant and fp2_encode themselves belong to C08/C06; the
correspondence harness feeds the encodings the real code produced.  Core-only.
-/
namespace SqiModel.Challenge

/-- the buffer `buf` handed to SHAKE256 -/
def hashInput (j1enc j2enc msg : List UInt8) : List UInt8 := j1enc ++ j2enc ++ msg

/-- little-endian value of a byte string (digits[] filled through `(void *)digits`, x86-64) -/
def leNat : List UInt8 → Nat
  | [] => 0
  | b :: bs => b.toNat + 256 * leNat bs

def iter {α : Type} (g : α → α) : Nat → α → α
  | 0, x => x
  | n + 1, x => iter g n (g x)

/-- digits after the first hash and `iters` re-hashes (`iters = 0` for the non-heuristic variant) -/
def challengeDigits (xof : List UInt8 → Nat → List UInt8) (nwords iters : Nat) (j1enc j2enc msg : List UInt8) : List UInt8 :=
  iter (fun d => xof d (8 * nwords)) iters (xof (hashInput j1enc j2enc msg) (8 * nwords))

/-- `hash_to_challenge`: (scalars[0], scalars[1]) -/
def hashToChallenge (xof : List UInt8 → Nat → List UInt8) (nwords iters : Nat) (j1enc j2enc msg : List UInt8) : Nat × Nat :=
  (1, leNat (challengeDigits xof nwords iters j1enc j2enc msg))

/-! ### the call sequence as data (target of tools/translate/challenge.py) -/
inductive Curve | com | pk
deriving DecidableEq, Repr
inductive Src | j (c : Curve) | msg
deriving DecidableEq, Repr

/-- `hash_to_challenge` as extracted: sizes in units of (FP2_ENCODED_BYTES, length) -/
structure Script where
  bufFp2 : Nat
  bufLen : Nat
  /-- writes into `buf` in program order: offset (in FP2_ENCODED_BYTES units) and source -/
  writes : List (Nat × Src)
  hashInFp2 : Nat
  hashInLen : Nat
  iterated : Bool
  scalar0 : Nat
  scalar1Init : Nat
deriving DecidableEq, Repr

/-- overwrite `bytes` at offset `off` (fp2_encode / memcpy into the buffer) -/
def writeAt (buf : List UInt8) (off : Nat) (bytes : List UInt8) : List UInt8 :=
  buf.take off ++ bytes ++ buf.drop (off + bytes.length)

/-- run the extracted call sequence: `w` = FP2_ENCODED_BYTES, `iterCount` = SQIsign2D_heuristic_challenge_hash_iteration -/
def Script.run (s : Script) (xof : List UInt8 → Nat → List UInt8) (w nwords iterCount : Nat)
    (jcom jpk msg : List UInt8) : Nat × Nat :=
  let buf0 := List.replicate (s.bufFp2 * w + s.bufLen * msg.length) (0 : UInt8)
  let buf := s.writes.foldl (fun b (x : Nat × Src) => writeAt b (x.1 * w) (match x.2 with
    | .j .com => jcom
    | .j .pk => jpk
    | .msg => msg)) buf0
  let inp := buf.take (s.hashInFp2 * w + s.hashInLen * msg.length)
  let d := xof inp (8 * nwords)
  let d := if s.iterated then iter (fun d => xof d (8 * nwords)) iterCount d else d
  (s.scalar0, leNat d)

/-- the sequence the model `hashToChallenge` describes -/
def expectedScript (iterated : Bool) : Script :=
  { bufFp2 := 2, bufLen := 1, writes := [(0, .j .com), (1, .j .pk), (2, .msg)], hashInFp2 := 2, hashInLen := 1,
    iterated := iterated, scalar0 := 1, scalar1Init := 1 }

/-- `sqisign_secure_clear(mem, size)` / the clearing part of `sqisign_secure_free`: memset(mem, 0, size) on a
    buffer `buf` of which the first `size` bytes are handed in -/
def secureClear (buf : List UInt8) (size : Nat) : List UInt8 := List.replicate (min size buf.length) 0 ++ buf.drop size

end SqiModel.Challenge

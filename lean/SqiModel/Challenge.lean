/-
Model of `hash_to_challenge` (the three sign.c files): the hash input is the byte string
   fp2_encode(j(E_com)) ‖ fp2_encode(j(E_pk)) ‖ message
with two fixed-width encodings (FP2_ENCODED_BYTES each), hashed with SHAKE256 to NWORDS_FIELD 64-bit digits
(read as a little-endian integer: `ibz_copy_digit_array` on a little-endian host), re-hashed
`SQIsign2D_heuristic_challenge_hash_iteration` times onto itself in the heuristic and HD variants;
scalars[0] = 1.  The XOF is a parameter. j-invariant and fp2_encode themselves belong to C08/C06; the
correspondence harness feeds the encodings the real code produced.  Core-only.
-/
namespace SqiModel.Challenge

/-- the buffer `buf` handed to SHAKE256 -/
def hashInput (j1enc j2enc msg : List UInt8) : List UInt8 := j1enc ++ j2enc ++ msg

/-- little-endian value of a byte string (digits[] filled through `(void *)digits`, x86-64) -/
def leNat : List UInt8 → Nat
  | [] => 0
  | b :: bs => b.toNat + 256 * leNat bs

def iter {α : Type} (g : α → α) : Nat → α → α
  | 0, x => x
  | n + 1, x => iter g n (g x)

/-- digits after the first hash and `iters` re-hashes (`iters = 0` for the non-heuristic variant) -/
def challengeDigits (xof : List UInt8 → Nat → List UInt8) (nwords iters : Nat) (j1enc j2enc msg : List UInt8) : List UInt8 :=
  iter (fun d => xof d (8 * nwords)) iters (xof (hashInput j1enc j2enc msg) (8 * nwords))

/-- `hash_to_challenge`: (scalars[0], scalars[1]) -/
def hashToChallenge (xof : List UInt8 → Nat → List UInt8) (nwords iters : Nat) (j1enc j2enc msg : List UInt8) : Nat × Nat :=
  (1, leNat (challengeDigits xof nwords iters j1enc j2enc msg))

/-- `sqisign_secure_clear(mem, size)` / the clearing part of `sqisign_secure_free`: memset(mem, 0, size) on a
    buffer `buf` of which the first `size` bytes are handed in -/
def secureClear (buf : List UInt8) (size : Nat) : List UInt8 := List.replicate (min size buf.length) 0 ++ buf.drop size

end SqiModel.Challenge

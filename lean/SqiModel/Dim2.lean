import SqiModel.Quat
/- Hand model (tie H) for property C16, part 2: `src/quaternion/ref/generic/dim2.c` (exact-integer routines in
   dimension 2 for the form  x^2 + q y^2)  and part 3: the decision logic of `sample_response`
   (`src/sqisigndim2/ref/sqisigndim2x/sign.c`).  GMP integers are exact `Int`.  `mat[i][j]` as in C; basis vectors
   are the COLUMNS.  Where the C code would divide by zero / take the square root of a negative number (GMP aborts)
   the model returns `none`.  Core Lean only (linked into the driver). -/
namespace SqiModel.Dim2
open SqiModel.Quat

structure V2 where
  x : Int
  y : Int
deriving DecidableEq, Repr, Inhabited

/-- `ibz_mat_2x2_t`: `a_ij = mat[i][j]` -/
structure M2 where
  a00 : Int
  a01 : Int
  a10 : Int
  a11 : Int
deriving DecidableEq, Repr, Inhabited

def M2.col0 (m : M2) : V2 := ⟨m.a00, m.a10⟩
def M2.col1 (m : M2) : V2 := ⟨m.a01, m.a11⟩
def M2.ofCols (c0 c1 : V2) : M2 := ⟨c0.x, c1.x, c0.y, c1.y⟩
/-- `ibz_mat_2x2_eval` -/
def M2.eval (m : M2) (v : V2) : V2 := ⟨m.a00 * v.x + m.a01 * v.y, m.a10 * v.x + m.a11 * v.y⟩
/-- `ibz_mat_2x2_det_from_ibz` on the entries of `m` -/
def M2.det (m : M2) : Int := m.a00 * m.a11 - m.a01 * m.a10
def V2.sub (a b : V2) : V2 := ⟨a.x - b.x, a.y - b.y⟩
def V2.smul (c : Int) (a : V2) : V2 := ⟨c * a.x, c * a.y⟩

/-- `quat_dim2_lattice_norm` -/
def norm (q c1 c2 : Int) : Int := c1 * c1 + c2 * c2 * q
def normV (q : Int) (v : V2) : Int := norm q v.x v.y
/-- `quat_dim2_lattice_bilinear` -/
def bil (q v11 v12 v21 v22 : Int) : Int := v11 * v21 + v12 * v22 * q
def bilV (q : Int) (u v : V2) : Int := bil q u.x u.y v.x v.y

/-- `quat_dim2_lattice_contains`: `none` when det = 0 (`ibz_div` by zero) -/
def contains (b : M2) (c1 c2 : Int) : Option Bool :=
  let det := b.det
  if det = 0 then none
  else
    let s1 := c1 * b.a11 - c2 * b.a01
    let s2 := c2 * b.a00 - c1 * b.a10
    some (Int.tmod s1 det == 0 && Int.tmod s2 det == 0)

/-! ### `quat_dim2_lattice_short_basis` (Cohen 3.1.14 as coded) -/

structure SBState where
  a : V2
  b : V2
  na : Int
  nb : Int
deriving Repr

/-- initialisation incl. the exchange "if norm_a < norm_b" -/
def sbInit (q : Int) (m : M2) : SBState :=
  let a := m.col0
  let b := m.col1
  let na := normV q a
  let nb := normV q b
  if na < nb then ⟨b, a, nb, na⟩ else ⟨a, b, na, nb⟩

/-- result of the `while (test)` loop: final state and the last `r`, `norm_t` -/
structure SBExit where
  st : SBState
  r : Int
  nt : Int
deriving Repr

/-- the loop, with fuel; `none` = the C code would call `ibz_rounded_div` with `norm_b = 0` (GMP division by
    zero) or the fuel ran out (never, see `SqiProofs/Dim2.lean`) -/
def sbLoop (q : Int) : Nat → SBState → Option SBExit
  | 0, _ => none
  | fuel + 1, s =>
    if s.nb = 0 then none
    else
      let n := bilV q s.a s.b
      let r := roundedDiv n s.nb
      let nt := s.na - 2 * n * r + r * r * s.nb
      if s.nb > nt then
        sbLoop q fuel ⟨s.b, s.a.sub (V2.smul r s.b), s.nb, nt⟩
      else some ⟨s, r, nt⟩

/-- the part after the loop: second vector = shorter of `a` and `t = a - r b`; output columns (b, a) -/
def sbFinish (e : SBExit) : M2 :=
  let a := if e.nt < e.st.na then e.st.a.sub (V2.smul e.r e.st.b) else e.st.a
  M2.ofCols e.st.b a

def shortBasisFuel (q : Int) (m : M2) : Nat := (sbInit q m).nb.toNat + 2

def shortBasis (q : Int) (m : M2) : Option M2 :=
  (sbLoop q (shortBasisFuel q m) (sbInit q m)).map sbFinish

/-! ### closest vector -/

/-- `quat_dim2_lattice_get_coefficient_with_orthogonalisation`; `none` when `norm(a*) = 0` -/
def coefOrth (q a0 a1 b0 b1 t0 t1 : Int) : Option Int :=
  let nb := norm q b0 b1
  let bl := bil q a0 a1 b0 b1
  let as0 := a0 * nb - b0 * bl
  let as1 := a1 * nb - b1 * bl
  let nas := norm q as0 as1
  let bl2 := bil q as0 as1 t0 t1 * nb
  if nas = 0 then none else some (roundedDiv bl2 nas)

structure CvpOut where
  tmc : V2        -- target_minus_closest
  coords : V2     -- closest_coords_in_basis
deriving Repr, DecidableEq

/-- `quat_dim2_lattice_closest_vector` -/
def closestVector (q : Int) (rb : M2) (target : V2) : Option CvpOut :=
  let na := norm q rb.a00 rb.a10
  match coefOrth q rb.a01 rb.a11 rb.a00 rb.a10 target.x target.y with
  | none => none
  | some c1 =>
    let w0 := target.x - rb.a01 * c1
    let w1 := target.y - rb.a11 * c1
    if na = 0 then none
    else
      let c0 := roundedDiv (bil q w0 w1 rb.a00 rb.a10) na
      some ⟨⟨w0 - rb.a00 * c0, w1 - rb.a10 * c0⟩, ⟨c0, c1⟩⟩

/-! ### enumeration -/

/-- `quat_dim2_lattice_get_qf_on_lattice` -/
def qfOnLattice (q : Int) (b : M2) : Int × Int × Int :=
  (norm q b.a00 b.a10, bil q b.a00 b.a10 b.a01 b.a11 * 2, norm q b.a01 b.a11)

def sqrtFloor (a : Int) : Int := (Nat.sqrt a.toNat : Nat)

/-- `quat_dim2_lattice_qf_value_bound_generation`: outer `none` = GMP aborts (sqrt of a negative number);
    inner `none` = the function returns 0 -/
def boundGen (numA denA numB denB : Int) : Option (Option Int) :=
  if denA < 0 || denA == 0 || denB == 0 then some none
  else if numA < 0 then none
  else
    let sn := sqrtFloor numA + 1
    let sd := sqrtFloor denA
    let cd := denB * sd
    let sn := sn * denB + sd * numB
    some (some (Int.tdiv sn cd + 1))

/-- `quat_dim2_lattice_test_cvp_condition` with `params = p` (p != 0) -/
def cvpCondition (p : Int) (v : V2) : Option Elem :=
  if (v.x + v.y) % p = 2 then some ⟨2, ⟨v.x, v.y, v.x, v.y⟩⟩ else none

/-- membership-oracle condition of the harness (`cond_eq` in drv_lll.c): true exactly on the vector `w` -/
def eqCondition (w : V2) (v : V2) : Option Elem :=
  if v = w then some ⟨1, ⟨v.x, v.y, 0, 0⟩⟩ else none

/-- `quat_dim2_lattice_bound_and_condition` for a condition given as a function -/
def boundAndCondition (cond : V2 → Option Elem) (q : Int) (x y : Int) (tmc : V2) (b : M2) (normBound : Int) :
    Option Elem :=
  let prop := b.eval ⟨x, y⟩
  let s := tmc.sub prop
  if normV q s ≤ normBound then cond s else none

structure EnumSt where
  found : Option Elem
  stop : Bool
  tries : Nat
deriving Repr

/-- inner `while` over x (x already holds the last tested value) -/
def enumInner (cond : V2 → Option Elem) (q : Int) (tmc : V2) (b : M2) (normBound : Int) (maxTries : Nat)
    (y boundX : Int) : Nat → Int → EnumSt → EnumSt
  | 0, _, st => st
  | fuel + 1, x, st =>
    if st.found.isNone && !st.stop && decide (x < boundX) && decide (st.tries < maxTries) then
      let x' := x + 1
      let f := boundAndCondition cond q x' y tmc b normBound
      enumInner cond q tmc b normBound maxTries y boundX fuel x' ⟨f, x' == 0 && y == 0, st.tries + 1⟩
    else st

structure EnumPre where
  fourA2NormBound : Int
  fourA2CMinusB2 : Int
  fourA3 : Int
  twoA : Int
  qfB : Int
  boundY : Int

/-- outer `while` over y.  `none` = GMP abort inside a bound generation. -/
def enumOuter (cond : V2 → Option Elem) (q : Int) (tmc : V2) (b : M2) (normBound : Int) (maxTries : Nat)
    (pre : EnumPre) : Nat → Int → EnumSt → Option EnumSt
  | 0, _, st => some st
  | fuel + 1, y, st =>
    if st.found.isNone && !st.stop && decide (y < pre.boundY) && decide (st.tries < maxTries) then
      let y' := y + 1
      let var := -(pre.qfB * y')
      let prod := y' * y' * pre.fourA2CMinusB2 + pre.fourA2NormBound
      match boundGen prod pre.fourA3 var pre.twoA, boundGen prod pre.fourA3 (-var) pre.twoA with
      | some bx, some x0 =>
        -- a failing bound generation (return 0) leaves the output variable untouched: bound_x keeps its previous
        -- value; with four_a3 > 0 and two_a != 0 (disc > 0) this cannot happen, the model then stops with `none`
        match bx, x0 with
        | some boundX, some xv =>
          let x := -xv - 1
          let st' := enumInner cond q tmc b normBound maxTries y' boundX (maxTries - st.tries) x st
          enumOuter cond q tmc b normBound maxTries pre fuel y' st'
        | _, _ => none
      | _, _ => none
    else some st

/-- `quat_dim2_lattice_qf_enumerate_short_vec`; result `some (some e)` = returns 1 with `*res = e`,
    `some none` = returns 0, `none` = GMP abort -/
def enumerateShortVec (cond : V2 → Option Elem) (q : Int) (tmc : V2) (b : M2) (normBound : Int) (maxTries : Nat) :
    Option (Option Elem) :=
  let nbe0 := normBound - normV q tmc
  let nbe := if nbe0 ≤ 0 then normBound else nbe0
  let (qa, qb, qc) := qfOnLattice q b
  let disc := qa * qc * 4 - qb * qb
  if disc ≤ 0 then some none
  else
    let twoA := 2 * qa
    let fourA2 := twoA * twoA
    let fourA2NormBound := fourA2 * nbe
    let fourA3 := fourA2 * qa
    let fourA2CMinusB2 := fourA2 * qc - qb * qb
    match boundGen fourA2NormBound fourA2CMinusB2 0 1 with
    | none => none
    | some none => none   -- bound_y would be used uninitialised (= 0 after ibz_init): not reachable when disc > 0, a > 0
    | some (some boundY) =>
      let pre : EnumPre := ⟨fourA2NormBound, fourA2CMinusB2, fourA3, twoA, qb, boundY⟩
      match enumOuter cond q tmc b normBound maxTries pre (2 * boundY.toNat + 2) (-boundY - 1) ⟨none, false, 0⟩ with
      | none => none
      | some st => some st.found

/-- `quat_2x2_lattice_enumerate_cvp_filter` -/
def enumerateCvpFilter (cond : V2 → Option Elem) (b : M2) (target : V2) (qf : Nat) (distBound : Nat) (maxTries : Nat) :
    Option (Option Elem) :=
  let q : Int := qf
  let normBound : Int := 2 ^ distBound
  match shortBasis q b with
  | none => none
  | some red =>
    match closestVector q red target with
    | none => none
    | some cv => enumerateShortVec cond q cv.tmc red normBound maxTries

/-! ## `sample_response` (sign.c): decision logic.  The random draws are an input list of candidate vectors. -/

def div2 (a : Int) : Int := Int.tdiv a 2   -- ibz_div_2exp(.,.,1) = mpz_tdiv_q_2exp

/-- `QUATALG_PINFTY.gram` = diag(1,1,p,p) -/
def gramP (p : Int) : Mat4 := ⟨⟨1, 0, 0, 0⟩, ⟨0, 1, 0, 0⟩, ⟨0, 0, p, 0⟩, ⟨0, 0, 0, p⟩⟩

/-- the matrix called `gram` after the scalar division: 2 * (reduced norm form of the LLL basis) / content -/
def respGram (p denom content : Int) (lll : Mat4) : Mat4 :=
  let g := ((lll.transpose).mul (gramP p)).mul lll
  let dg := div2 (denom * denom * content)
  (g.scalarDiv dg).1

/-- `norm_from_2_times_gram` -/
def normFrom2Gram (gram : Mat4) (v : Vec4) : Int := div2 (gram.qfEval v)

/-- `b_bound[j]`; `none` when `gram[j][j]/2 = 0` (division by zero in C) -/
def bBound (bound : Int) (gram : Mat4) (j : Nat) : Option Int :=
  let d := div2 (gram.get j j)
  if d = 0 then none else some (sqrtFloor (Int.tdiv bound d))

/-- the acceptance test inside the loop -/
def accept (bound : Int) (gram : Mat4) (v : Vec4) : Bool :=
  decide (normFrom2Gram gram v < bound) && !v.isZero

structure RespOut where
  x : Elem
  found : Bool     -- value of `found` when the loop ends (false = fallback branch taken)
  count : Nat      -- number of candidates consumed
deriving Repr, DecidableEq

/-- loop `while (!found && count < 50)` over the given candidates (at most 50 are consumed) -/
def respLoop (bound : Int) (gram : Mat4) : List Vec4 → Nat → Option Vec4 × Nat
  | [], c => (none, c)
  | v :: vs, c =>
    if c < 50 then
      if accept bound gram v then (some v, c + 1) else respLoop bound gram vs (c + 1)
    else (none, c)

/-- `sample_response` given the LLL basis `lll` (columns) of `lattice` and the candidate draws -/
def sampleResponse (p : Int) (respLen : Nat) (denom content : Int) (lll : Mat4) (cands : List Vec4) : RespOut :=
  let gram := respGram p denom content lll
  let bound : Int := 2 ^ respLen
  match respLoop bound gram cands 0 with
  | (some v, c) => ⟨⟨denom, lll.eval v⟩, true, c⟩
  | (none, c) => ⟨⟨denom, lll.col 0⟩, false, c⟩

/-- `first_zero_index` and `b_bound` (for the correspondence with the harness mirror) -/
def respBounds (p : Int) (respLen : Nat) (denom content : Int) (lll : Mat4) : Option (Nat × List Int) :=
  let gram := respGram p denom content lll
  let bound : Int := 2 ^ respLen
  match bBound bound gram 0, bBound bound gram 1, bBound bound gram 2, bBound bound gram 3 with
  | some b0, some b1, some b2, some b3 =>
    let l := [b0, b1, b2, b3]
    some ((l.findIdx? (· == 0)).getD 4, l)
  | _, _, _, _ => none

end SqiModel.Dim2

/-
Hand model (tie H) of the Pohlig–Hellman discrete logarithm in μ_{2^e} of src/ec/ref/ecx/biextension.c:

  fp2_dlog_2e_rec  ↦ `dlogRec`   (balanced recursion: right = ⌊len/2⌋ low bits first on the 2^left-th powers,
                                   then the left = len − right high bits; the power stacks pows_f / pows_g are shared:
                                   every call updates all entries *below* its own top as f_i ← f_i·g_i^a, g_i ← g_i^(2^len))
  fp2_dlog_2e      ↦ `dlog2e`    (stack initialised with (f, g⁻¹))

Abstract in the group: any type with a multiplication, a unit and decidable equality (core-only; the proofs
instantiate it with a commutative group, the driver with GF(p²)). The stack is a list, top first: the C array
entries [0 .. stacklen-2] are `below` (nearest first), entry [stacklen-1] is `top`.
-/
namespace SqiModel.Dlog

variable {M : Type} [DecidableEq M]

/-- n successive squarings (`for (i < left) fp2_sqr`) -/
def sqrIter (mul : M → M → M) : Nat → M → M
  | 0, x => x
  | n + 1, x => sqrIter mul n (mul x x)

/-- `fp2_dlog_2e_rec(a, len, pows_f, pows_g, stacklen)`: returns `a` and the updated lower stack, `none` = `false` -/
def dlogRec (mul : M → M → M) (one : M) (len : Nat) (top : M × M) (below : List (M × M)) :
    Option (Nat × List (M × M)) :=
  if len = 0 then some (0, below)
  else if len = 1 then
    if top.1 = one then some (0, below.map fun fg => (fg.1, mul fg.2 fg.2))
    else if top.1 = top.2 then some (1, below.map fun fg => (mul fg.1 fg.2, mul fg.2 fg.2))
    else none
  else
    let right := len / 2
    let left := len - right
    let top' := (sqrIter mul left top.1, sqrIter mul left top.2)
    match dlogRec mul one right top' (top :: below) with
    | some (d1, top1 :: below1) =>
      match dlogRec mul one left top1 below1 with
      | some (d2, below2) => some (d1 + 2 ^ right * d2, below2)
      | none => none
    | _ => none
termination_by len
decreasing_by all_goals omega

/-- `fp2_dlog_2e(scal, f, g, e)`; `inv` is `fp2_inv` -/
def dlog2e (mul : M → M → M) (one : M) (inv : M → M) (f g : M) (e : Nat) : Option Nat :=
  (dlogRec mul one e (f, inv g) []).map Prod.fst

/-- size of the C stacks: `for (log = 0; len > 1; len >>= 1) log++; log += 1;` -/
def stackSize (e : Nat) : Nat := e.log2 + 1

/-- largest stack index written or read by the recursion started at (len, stacklen) (C indices) -/
def maxIndex (len stacklen : Nat) : Nat :=
  if len ≤ 1 then stacklen - 1
  else
    let right := len / 2
    let left := len - right
    max stacklen (max (maxIndex right (stacklen + 1)) (maxIndex left stacklen))
termination_by len
decreasing_by all_goals omega

end SqiModel.Dlog

/-
NIST SP 800-90A Rev.1 CTR_DRBG (AES-256, no derivation function, no prediction resistance, no additional
input) — executable specification (`Spec`, V an integer mod 2^128 as in §10.2.1) and hand model of
src/common/generic/randombytes_ctrdrbg.c (`Model`, V a 16-byte big-endian array incremented bytewise from
V[15] with carry, exactly like the C loops).  Block cipher = `SqiModel.Aes.aes256` (a parameter `E` in all
definitions so that theorems do not depend on AES).  Core-only.
-/
import SqiModel.Aes

namespace SqiModel.Drbg

def xorBytes (a b : List UInt8) : List UInt8 := List.zipWith (· ^^^ ·) a b

/-- big-endian value of a byte string -/
def beNat (bs : List UInt8) : Nat := bs.foldl (fun acc b => acc * 256 + b.toNat) 0
/-- the n-byte big-endian encoding of v mod 256^n -/
def beBytes : Nat → Nat → List UInt8
  | 0, _ => []
  | n + 1, v => beBytes n (v / 256) ++ [(v % 256).toUInt8]

/-! ### specification (SP 800-90A §10.2.1.2 – §10.2.1.5, blocklen 128, keylen 256, seedlen 384) -/
namespace Spec
structure St where
  key : List UInt8      -- 32 bytes
  v : Nat               -- < 2^128
  reseedCounter : Nat
deriving Repr, DecidableEq

/-- temp = leftmost(seedlen) of  E(K, V+1) ‖ E(K, V+2) ‖ …  with V incremented mod 2^blocklen -/
def blocks (E : List UInt8 → List UInt8 → List UInt8) (key : List UInt8) : Nat → Nat → List UInt8 × Nat
  | 0, v => ([], v)
  | n + 1, v =>
    let v' := (v + 1) % 2 ^ 128
    let (out, v'') := blocks E key n v'
    (E key (beBytes 16 v') ++ out, v'')

/-- CTR_DRBG_Update(provided_data, Key, V) -/
def update (E : List UInt8 → List UInt8 → List UInt8) (provided : List UInt8) (key : List UInt8) (v : Nat) :
    List UInt8 × Nat :=
  let (temp, _) := blocks E key 3 v
  let temp := xorBytes (temp.take 48) provided
  (temp.take 32, beNat ((temp.drop 32).take 16))

/-- CTR_DRBG_Instantiate_algorithm without df: seed_material = entropy ⊕ personalization (padded) -/
def instantiate (E : List UInt8 → List UInt8 → List UInt8) (entropy pers : List UInt8) : St :=
  let seed := xorBytes entropy (pers ++ List.replicate (48 - pers.length) 0)
  let (k, v) := update E seed (List.replicate 32 0) 0
  ⟨k, v, 1⟩

/-- CTR_DRBG_Generate_algorithm, no additional input: returned bits and new state -/
def generate (E : List UInt8 → List UInt8 → List UInt8) (st : St) (n : Nat) : List UInt8 × St :=
  let (temp, v) := blocks E st.key ((n + 15) / 16) st.v
  let (k, v) := update E (List.replicate 48 0) st.key v
  (temp.take n, ⟨k, v, st.reseedCounter + 1⟩)
end Spec

/-! ### model of randombytes_ctrdrbg.c -/
namespace Model
/-- `AES256_CTR_DRBG_struct` -/
structure St where
  key : List UInt8      -- Key[32]
  v : List UInt8        -- V[16]
  reseedCounter : Nat
deriving Repr, DecidableEq

/-- the loop `for (j = 15; j >= 0; j--) if (V[j] == 0xff) V[j] = 0; else { V[j]++; break; }` on the reversed array -/
def incRev : List UInt8 → List UInt8
  | [] => []
  | b :: bs => if b = 0xff then 0 :: incRev bs else (b + 1) :: bs
def incV (v : List UInt8) : List UInt8 := (incRev v.reverse).reverse

/-- the same loop with its literals as parameters, in C order (j = hi down to lo on the array itself):
    `for (int j = hi; j >= lo; j--) if (V[j] == cmp) V[j] = reset; else { V[j]++; break; }`.
    `n` counts the remaining iterations, the current index is `lo + n - 1`.  The translator re-extracts
    (hi, lo, cmp, reset) of both loops of the C file (SqiGen.Drbg); SqiProps.C20 proves that with the extracted
    literals this is `incV`, i.e. `+1 mod 2^128`. -/
def incLoopAux (cmp reset : UInt8) (lo : Nat) : Nat → List UInt8 → List UInt8
  | 0, v => v
  | n + 1, v =>
    if v.getD (lo + n) 0 = cmp then incLoopAux cmp reset lo n (v.set (lo + n) reset)
    else v.set (lo + n) (v.getD (lo + n) 0 + 1)
def incLoop (hi lo : Nat) (cmp reset : UInt8) (v : List UInt8) : List UInt8 :=
  incLoopAux cmp reset lo (hi + 1 - lo) v

/-- `AES256_CTR_DRBG_Update(provided_data, Key, V)`; `none` = NULL -/
def update (E : List UInt8 → List UInt8 → List UInt8) (provided : Option (List UInt8)) (key v : List UInt8) :
    List UInt8 × List UInt8 :=
  let v1 := incV v; let t1 := E key v1
  let v2 := incV v1; let t2 := E key v2
  let v3 := incV v2; let t3 := E key v3
  let temp := t1 ++ t2 ++ t3
  let temp := match provided with
    | some p => xorBytes temp p
    | none => temp
  (temp.take 32, (temp.drop 32).take 16)

/-- `randombytes_init(entropy_input, personalization_string, security_strength)` -/
def init (E : List UInt8 → List UInt8 → List UInt8) (entropy : List UInt8) (pers : Option (List UInt8)) : St :=
  let seed := entropy.take 48
  let seed := match pers with
    | some p => xorBytes seed p
    | none => seed
  let (k, v) := update E (some seed) (List.replicate 32 0) (List.replicate 16 0)
  ⟨k, v, 1⟩

/-- the `while (xlen > 0)` loop of randombytes_nist: output so far and V -/
def genLoop (E : List UInt8 → List UInt8 → List UInt8) (key : List UInt8) : Nat → Nat → List UInt8 → List UInt8 × List UInt8
  | 0, _, v => ([], v)
  | fuel + 1, xlen, v =>
    if 0 < xlen then
      let v' := incV v
      let block := E key v'
      if 15 < xlen then
        let (out, v'') := genLoop E key fuel (xlen - 16) v'
        (block.take 16 ++ out, v'')
      else (block.take xlen, v')
    else ([], v)

/-- `randombytes(x, xlen)`: the bytes written to x and the new state -/
def randombytes (E : List UInt8 → List UInt8 → List UInt8) (st : St) (xlen : Nat) : List UInt8 × St :=
  let (out, v) := genLoop E st.key (xlen + 1) xlen st.v
  let (k, v) := update E none st.key v
  (out, ⟨k, v, st.reseedCounter + 1⟩)

/-- a history: init with a seed, then a sequence of requests; all outputs in order -/
def run (E : List UInt8 → List UInt8 → List UInt8) (st : St) : List Nat → List (List UInt8) × St
  | [] => ([], st)
  | n :: ns =>
    let (o, st') := randombytes E st n
    let (os, st'') := run E st' ns
    (o :: os, st'')
end Model

/-- abstraction: the model state seen as a specification state -/
def abs (st : Model.St) : Spec.St := ⟨st.key, beNat st.v, st.reseedCounter⟩

end SqiModel.Drbg

import SqiModel.Util
import SqiModel.AesCt
import SqiModel.Aes
/- driver ops for the bitsliced AES model (C20):
   aesct.prim <name> <words…>            run a generated primitive on its parameter registers, print the parameter registers
   aesct.ecb4x <nrounds> <16 words> <8·(nrounds+1) words>    model of aes_ecb4x, prints 64 bytes
   aesct.keys <key hex> <120 words>      checks that the expanded key produced by the C key schedule is, round by round and in
                                         all four lanes, the bitsliced form of the FIPS 197 round keys (prints ok / the first bad round) -/
namespace SqiModel.Drv.AesCt
open SqiModel SqiModel.Util SqiModel.Bitslice SqiModel.AesCt

def hexBytes (l : List UInt8) : String :=
  String.ofList (l.foldr (fun b acc => hexChar (b.toNat / 16) :: hexChar (b.toNat % 16) :: acc) [])

def parseBytes? (s : String) : Option (List UInt8) :=
  let rec go : List Char → List UInt8 → Option (List UInt8)
    | [], acc => some acc.reverse
    | [_], _ => none
    | a :: b :: rest, acc => do
        let x ← hexDigit? a
        let y ← hexDigit? b
        go rest ((x * 16 + y).toUInt8 :: acc)
  go s.toList []

def prim? : String → Option (Prog × Nat × Nat)
  | "sbox" => some (SqiGen.Aes.sbox_prog, SqiGen.Aes.sbox_nreg, 8)
  | "ortho" => some (SqiGen.Aes.ortho_prog, SqiGen.Aes.ortho_nreg, 8)
  | "interleave_in" => some (SqiGen.Aes.interleave_in_prog, SqiGen.Aes.interleave_in_nreg, 6)
  | "interleave_out" => some (SqiGen.Aes.interleave_out_prog, SqiGen.Aes.interleave_out_nreg, 6)
  | "add_round_key" => some (SqiGen.Aes.add_round_key_prog, SqiGen.Aes.add_round_key_nreg, 16)
  | "shift_rows" => some (SqiGen.Aes.shift_rows_prog, SqiGen.Aes.shift_rows_nreg, 8)
  | "mix_columns" => some (SqiGen.Aes.mix_columns_prog, SqiGen.Aes.mix_columns_nreg, 8)
  | _ => none

def handle : List String → Option String
  | "aesct.prim" :: name :: ws => do
      let (prog, nreg, np) ← prim? name
      let w ← parseNats? ws
      if w.length ≠ np then none else
      pure (natsToHex (((runPrim prog nreg (w.map (·.toUInt64))).take np).map (·.toNat)))
  | "aesct.ecb4x" :: nr :: ws => do
      let n ← parseHexNat? nr
      let w ← parseNats? ws
      if w.length ≠ 16 + 8 * (n + 1) then none else
      let w := w.map (·.toUInt64)
      pure (hexBytes (ecb4x (w.take 16) (w.drop 16) n))
  | ["aesct.enc256", key, blk] => do
      -- the hand model of AES_256_ECB (key schedule + aes_ecb + aes_ecb4x over the generated primitives); the uninitialised
      -- words of `blocks[]` are filled with a fixed pattern (the result does not depend on them: aes256_ecb_eq_spec)
      let k ← parseBytes? key
      let b ← parseBytes? blk
      if k.length ≠ 32 ∨ b.length ≠ 16 then none else
      pure (hexBytes (aes256Ecb (List.replicate 12 0xa5a5a5a5deadbeef) k b))
  | "aesct.keys" :: key :: ws => do
      let k ← parseBytes? key
      let w ← parseNats? ws
      if k.length ≠ 32 ∨ w.length ≠ 120 then none else
      let sk := w.map (·.toUInt64)
      let wk := Aes.keyExpansion k 14
      let bad := (List.range 15).filter fun r => !((List.range 4).all fun blk =>
        unslice ((sk.drop (8 * r)).take 8) blk == Aes.roundKey wk r)
      pure (if bad.isEmpty then "ok" else s!"bad-rounds {bad}")
  | _ => none

end SqiModel.Drv.AesCt

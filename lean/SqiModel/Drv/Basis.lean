import SqiModel.Util
import SqiModel.BasisConcrete
/- driver ops for the basis hint model (all integers hex, canonical field representatives):
   `basis.tohint lvl forceP forceQ Are Aim Cre Cim`  -> `h0 h1 xPre xPim xQre xQim` | `oob` | `fuel`
   `basis.fromhint lvl h0 h1 Are Aim Cre Cim` (h0,h1 signed) -> `xPre xPim xQre xQim` | `oob`
   `basis.sqrt lvl re im` -> `re im`   (fp2_sqrt model)
   `basis.issq lvl re im` -> `0|1`     (fp2_is_square model)                                      -/
namespace SqiModel.Drv.Basis
open SqiModel SqiModel.Util SqiModel.Basis SqiModel.BasisConcrete

def pOf (lvl : Nat) : Option Nat :=
  match lvl with
  | 1 => some SqiGen.L1.FP_p
  | 3 => some SqiGen.L3.FP_p
  | 5 => some SqiGen.L5.FP_p
  | _ => none

def handle : List String → Option String
  | ["basis.tohint", lvl, fP, fQ, a0, a1, c0, c1] => do
      let lvl ← parseHexNat? lvl
      let fP ← parseHexNat? fP
      let fQ ← parseHexNat? fQ
      let a0 ← parseHexNat? a0
      let a1 ← parseHexNat? a1
      let c0 ← parseHexNat? c0
      let c1 ← parseHexNat? c1
      let S ← searchL lvl (a0, a1) (c0, c1) fP fQ
      match toHint S 100000 with
      | .ok r => pure (natsToHex [r.hintP, r.hintQ, r.xP.1, r.xP.2, r.xQ.1, r.xQ.2])
      | .oob => pure "oob"
      | .fuel => pure "fuel"
  | ["basis.fromhint", lvl, h0, h1, a0, a1, c0, c1] => do
      let lvl ← parseHexNat? lvl
      let h0 ← parseHexInt? h0
      let h1 ← parseHexInt? h1
      let a0 ← parseHexNat? a0
      let a1 ← parseHexNat? a1
      let c0 ← parseHexNat? c0
      let c1 ← parseHexNat? c1
      let S ← searchL lvl (a0, a1) (c0, c1) 0 0
      match fromHint S h0 h1 with
      | .ok (xP, xQ) => pure (natsToHex [xP.1, xP.2, xQ.1, xQ.2])
      | .oob => pure "oob"
      | .fuel => pure "fuel"
  | ["basis.sqrt", lvl, re, im] => do
      let p ← pOf (← parseHexNat? lvl)
      let r := Fp2V.f2sqrt p (← parseHexNat? re, ← parseHexNat? im)
      pure (natsToHex [r.1, r.2])
  | ["basis.issq", lvl, re, im] => do
      let p ← pOf (← parseHexNat? lvl)
      pure (if Fp2V.f2IsSquare p (← parseHexNat? re, ← parseHexNat? im) then "1" else "0")
  | _ => none

end SqiModel.Drv.Basis

import SqiModel.Util
import SqiModel.Dlog
import SqiModel.Fp2V
import SqiModel.Drv.Basis
/- driver ops for the dlog model (integers hex, canonical field representatives):
   `dlog.2e lvl e fre fim gre gim` -> `ok a` | `fail`        (fp2_dlog_2e)
   `dlog.maxidx e`                 -> `maxIndex stackSize`    (largest stack index touched, size of the C stacks) -/
namespace SqiModel.Drv.Dlog
open SqiModel SqiModel.Util SqiModel.Dlog SqiModel.Fp2V

def handle : List String → Option String
  | ["dlog.2e", lvl, e, f0, f1, g0, g1] => do
      let p ← SqiModel.Drv.Basis.pOf (← parseHexNat? lvl)
      let e ← parseHexNat? e
      let f : F2 := ((← parseHexNat? f0) % p, (← parseHexNat? f1) % p)
      let g : F2 := ((← parseHexNat? g0) % p, (← parseHexNat? g1) % p)
      match dlog2e (f2mul p) ((1 % p, 0) : F2) (f2inv p) f g e with
      | some a => pure ("ok " ++ toHex a)
      | none => pure "fail"
  | ["dlog.maxidx", e] => do
      let e ← parseHexNat? e
      pure (toHex (maxIndex e 1) ++ " " ++ toHex (stackSize e))
  | _ => none

end SqiModel.Drv.Dlog

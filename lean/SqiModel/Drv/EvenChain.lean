import SqiModel.Util
import SqiModel.EvenChain
import SqiGen.Tables1
import SqiGen.Tables3
import SqiGen.Tables5
import SqiGen.EvenGuard
import SqiModel.SkelEven
/- driver ops for the 2^n-isogeny chain models:
     even.trace <lvl> <isog_len>     -> hook-visible trace of ec_eval_even_strategy on the level's STRATEGY4 table:
                                        "tag a b c tag a b c …", followed by "E" when the model halts on a fault
     even.summary <lvl> <isog_len>   -> "<err?> <strategy> <deg> <#iso4> <maxcurrent>"
     small.trace <len>               -> "i dbls kerOrd …" of ec_eval_small_chain -/
namespace SqiModel.Drv.EvenChain
open SqiModel SqiModel.Util SqiModel.EvenChain

def tableOf : Nat → Option (List (List Nat) × Nat)
  | 1 => some (SqiGen.L1.STRATEGY4, SqiGen.L1.W64.TORSION_PLUS_EVEN_POWER)
  | 3 => some (SqiGen.L3.STRATEGY4, SqiGen.L3.W64.TORSION_PLUS_EVEN_POWER)
  | 5 => some (SqiGen.L5.STRATEGY4, SqiGen.L5.W64.TORSION_PLUS_EVEN_POWER)
  | _ => none

def traceInts (s : St) : String :=
  let body := intsToHex ((s.trace.filterMap Ev.ints).flatten)
  if s.err.isSome then body ++ " E" else body

def maxCur (s : St) : Int :=
  s.trace.foldl (fun m e => match e with
    | .push _ c _ => max m c
    | .fin4 c _ _ => max m c
    | _ => m) 0

def handle : List String → Option String
  | ["even.trace", l, n] => do            -- through the public entry point ec_eval_even (guard from the C text)
      let l ← parseHexNat? l
      let n ← parseHexNat? n
      let (tab, f) ← tableOf l
      match evalEvenTop SqiGen.EvenGuard.naive tab f n with
      | .naive _ => pure ""                -- naive chain: no hook events
      | .strategy s => pure (traceInts s)
  | ["even.inner", l, n] => do            -- the unguarded static routine ec_eval_even_strategy
      let l ← parseHexNat? l
      let n ← parseHexNat? n
      let (tab, f) ← tableOf l
      pure (traceInts (evalEven tab f n))
  | ["even.top", l, n] => do              -- "<branch> <err?> <degree exponent>"
      let l ← parseHexNat? l
      let n ← parseHexNat? n
      let (tab, f) ← tableOf l
      match evalEvenTop SqiGen.EvenGuard.naive tab f n with
      | .naive tr => pure s!"naive 0 {toHex tr.length}"
      | .strategy s => pure s!"strategy {if s.err.isSome then 1 else 0} {toHex ((s.trace.map Ev.deg).sum)}"
  | ["even.summary", l, n] => do
      let l ← parseHexNat? l
      let n ← parseHexNat? n
      let (tab, f) ← tableOf l
      let s := evalEven tab f n
      let deg := (s.trace.map Ev.deg).sum
      let n4 := (s.trace.filter (fun e => match e with | .iso4 .. => true | .fin4 .. => true | _ => false)).length
      pure s!"{if s.err.isSome then 1 else 0} {toHex s.strategy} {toHex deg} {toHex n4} {intToHex (maxCur s)}"
  | ["skel.even", l, n] => do             -- generated integer skeleton (from the C text) vs hand model, same run
      let l ← parseHexNat? l
      let n ← parseHexNat? n
      let (tab, f) ← tableOf l
      let a := SqiModel.SkelEven.skelSummary tab f n 1024
      let b := SqiModel.SkelEven.modelSummary tab f n 1024
      pure (if a == b then s!"1 {if a.1 then 1 else 0} {a.2.2.2.2.1.length}" else s!"0 skel={repr a} model={repr b}")
  | ["small.trace", n] => do
      let n ← parseHexNat? n
      pure (natsToHex ((smallChain n n).flatMap fun e => match e with | .iso2 i d k => [i, d, k]))
  | _ => none

end SqiModel.Drv.EvenChain

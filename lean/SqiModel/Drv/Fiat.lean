import SqiModel.Util
import SqiModel.Fiat
import SqiGen.Fiat1
import SqiGen.Fiat3
import SqiGen.Fiat5
/- driver ops for the translated fiat programs:  `gf <lvl> ref fiat_<fn> <alias> args…` runs the instruction list
   re-extracted from fp_p*.c through `SqiModel.Fiat.run` (field elements as integers, bytes as one LE integer). -/
namespace SqiModel.Drv.Fiat
open SqiModel SqiModel.Util SqiModel.Fiat

structure Progs where
  n : Nat
  mul : Prog
  square : Prog
  add : Prog
  sub : Prog
  opp : Prog
  from_montgomery : Prog
  to_montgomery : Prog
  nonzero : Prog
  selectznz : Prog
  to_bytes : Prog
  from_bytes : Prog
  set_one : Prog

def progs? : String → Option Progs
  | "1" => some ⟨SqiGen.Fiat1.nlimbs, SqiGen.Fiat1.mul, SqiGen.Fiat1.square, SqiGen.Fiat1.add, SqiGen.Fiat1.sub, SqiGen.Fiat1.opp,
      SqiGen.Fiat1.from_montgomery, SqiGen.Fiat1.to_montgomery, SqiGen.Fiat1.nonzero, SqiGen.Fiat1.selectznz, SqiGen.Fiat1.to_bytes,
      SqiGen.Fiat1.from_bytes, SqiGen.Fiat1.set_one⟩
  | "3" => some ⟨SqiGen.Fiat3.nlimbs, SqiGen.Fiat3.mul, SqiGen.Fiat3.square, SqiGen.Fiat3.add, SqiGen.Fiat3.sub, SqiGen.Fiat3.opp,
      SqiGen.Fiat3.from_montgomery, SqiGen.Fiat3.to_montgomery, SqiGen.Fiat3.nonzero, SqiGen.Fiat3.selectznz, SqiGen.Fiat3.to_bytes,
      SqiGen.Fiat3.from_bytes, SqiGen.Fiat3.set_one⟩
  | "5" => some ⟨SqiGen.Fiat5.nlimbs, SqiGen.Fiat5.mul, SqiGen.Fiat5.square, SqiGen.Fiat5.add, SqiGen.Fiat5.sub, SqiGen.Fiat5.opp,
      SqiGen.Fiat5.from_montgomery, SqiGen.Fiat5.to_montgomery, SqiGen.Fiat5.nonzero, SqiGen.Fiat5.selectznz, SqiGen.Fiat5.to_bytes,
      SqiGen.Fiat5.from_bytes, SqiGen.Fiat5.set_one⟩
  | _ => none

def fiatOp (G : Progs) (op : String) (a : List Nat) : Option String :=
  let h := fun (x : Nat) => toHex x
  match op, a with
  | "fiat_mul", [x, y] => some (h (runLimbs G.mul G.n [x, y]))
  | "fiat_add", [x, y] => some (h (runLimbs G.add G.n [x, y]))
  | "fiat_sub", [x, y] => some (h (runLimbs G.sub G.n [x, y]))
  | "fiat_square", [x] => some (h (runLimbs G.square G.n [x]))
  | "fiat_opp", [x] => some (h (runLimbs G.opp G.n [x]))
  | "fiat_to_montgomery", [x] => some (h (runLimbs G.to_montgomery G.n [x]))
  | "fiat_from_montgomery", [x] => some (h (runLimbs G.from_montgomery G.n [x]))
  | "fiat_set_one", [] => some (h (runLimbs G.set_one G.n []))
  | "fiat_nonzero", [x] => some (h (evalBase W (run G.nonzero [digits W G.n x])))
  | "fiat_selectznz", [c, x, y] => some (h (evalBase W (run G.selectznz [[c % 256], digits W G.n x, digits W G.n y])))
  | "fiat_to_bytes", [x] => some (h (evalBase 256 (run G.to_bytes [digits W G.n x])))
  | "fiat_from_bytes", [v] => some (h (evalBase W (run G.from_bytes [digits 256 (8 * G.n) v])))
  | _, _ => none

def handle : List String → Option String
  | "gf" :: lvl :: "ref" :: op :: _alias :: args => do
      if !op.startsWith "fiat_" then none else
      let G ← progs? lvl
      let a ← parseNats? args
      fiatOp G op a
  | _ => none

end SqiModel.Drv.Fiat

import SqiModel.Util
import SqiModel.Fp2
import SqiGen.EcOps
import SqiGen.IsogOps
import SqiGen.ThetaOps
/- driver ops running the *generated* definitions (tie T is itself checked):
     gen <lvl> <op> <nF> <2·nF hex: re im ...> <ints...>   ->  <F leaves re im ...> | <ints...>
     fp2.sqrt <lvl> re im / fp2.inv / fp2.issquare          ->  re im                       -/
namespace SqiModel.Drv.Gen
open SqiModel SqiModel.Util

def pairs {p : Nat} : List Nat → List (Fp2 p)
  | a :: b :: rest => Fp2.mk' p a b :: pairs rest
  | _ => []

def render {p : Nat} (fs : List (Fp2 p)) (is_ : List Int) : String :=
  natsToHex (fs.flatMap (fun x => [x.re, x.im])) ++ " | " ++ intsToHex is_

def allOps (p : Nat) : List (String × (List (Fp2 p) → List Int → Option (List (Fp2 p) × List Int))) :=
  SqiGen.opsEc (F := Fp2 p) Fp2.sqrt ++ SqiGen.opsIsog (F := Fp2 p) Fp2.sqrt ++ SqiGen.opsTheta (F := Fp2 p) Fp2.sqrt

def handle : List String → Option String
  | "gen" :: lvl :: op :: nF :: rest => do
      let lvl ← parseHexNat? lvl
      let p ← levelPrime lvl
      let nF ← parseHexNat? nF
      let toks ← parseNats? rest
      let fs : List (Fp2 p) := pairs (toks.take (2 * nF))
      let is_ : List Int := (toks.drop (2 * nF)).map Int.ofNat
      let f ← (allOps p).lookup op
      match f fs is_ with
      | some (ofs, ois) => pure (render ofs ois)
      | none => pure "bad-args"
  | ["fp2.sqrt", lvl, a, b] => do
      let p ← levelPrime (← parseHexNat? lvl)
      let x : Fp2 p := Fp2.mk' p (← parseHexNat? a) (← parseHexNat? b)
      pure (render [Fp2.sqrt x] [])
  | ["fp2.inv", lvl, a, b] => do
      let p ← levelPrime (← parseHexNat? lvl)
      let x : Fp2 p := Fp2.mk' p (← parseHexNat? a) (← parseHexNat? b)
      pure (render [x⁻¹] [])
  | ["fp2.issquare", lvl, a, b] => do
      let p ← levelPrime (← parseHexNat? lvl)
      let x : Fp2 p := Fp2.mk' p (← parseHexNat? a) (← parseHexNat? b)
      pure (render ([] : List (Fp2 p)) [if Fp2.isSquare x then 1 else 0])
  | _ => none

end SqiModel.Drv.Gen

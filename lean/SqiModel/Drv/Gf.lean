import SqiModel.Util
import SqiModel.Gf
import SqiModel.GfRef
/- driver ops for the GF(p)/GF(p²) models:  `gf <lvl> <ref|bw> <op> <alias> args…`
   (the alias token tells the C harness which pointer-aliasing pattern to use; the functional model
   ignores it).  Field elements travel as the raw stored integer (Montgomery form) in hex. -/
namespace SqiModel.Drv.Gf
open SqiModel SqiModel.Util SqiModel.Gf

def refParams? : String → Option RefParams
  | "1" => some lvl1 | "3" => some lvl3 | "5" => some lvl5 | _ => none

def h (n : Nat) : String := toHex n
def h2 (x : Fp2 Nat) : String := toHex x.re ++ " " ++ toHex x.im

def pairs : List Nat → Option (List (Fp2 Nat))
  | [] => some []
  | [_] => none
  | a :: b :: r => (pairs r).map (⟨a, b⟩ :: ·)

/-- operations expressed through the common `FpOps` record (both back-ends) -/
def generic (O : FpOps Nat) (op : String) (a : List Nat) : Option String :=
  match op, a with
  | "fp_add", [x, y] => some (h (O.add x y))
  | "fp_sub", [x, y] => some (h (O.sub x y))
  | "fp_mul", [x, y] => some (h (O.mul x y))
  | "fp_neg", [x] => some (h (O.neg x))
  | "fp_sqr", [x] => some (h (O.sqr x))
  | "fp_half", [x] => some (h (O.half x))
  | "fp_inv", [x] => some (h (O.inv x))
  | "fp_sqrt", [x] => some (h (O.sqrt x))
  | "fp_is_square", [x] => some (h (O.isSquare x))
  | "fp_is_zero", [x] => some (h (O.isZero x))
  | "fp_is_equal", [x, y] => some (h (O.isEqual x y))
  | "fp_select", [x, y, c] => some (h (O.select x y c))
  | "fp_cswap", [x, y, c] => let r := O.cswap x y c; some (h r.1 ++ " " ++ h r.2)
  | "fp_set_small", [v] => some (h (O.setSmall v))
  | "fp_set_one", [] => some (h O.one)
  | "fp_set_zero", [] => some (h O.zero)
  | "fp_encode", [x] => some (h (O.encode x))
  | "fp_decode", [v] => let r := O.decode v; some (h r.1 ++ " " ++ h r.2)
  | "fp2_add", [a, b, c, d] => some (h2 (fp2_add O ⟨a, b⟩ ⟨c, d⟩))
  | "fp2_sub", [a, b, c, d] => some (h2 (fp2_sub O ⟨a, b⟩ ⟨c, d⟩))
  | "fp2_mul", [a, b, c, d] => some (h2 (fp2_mul O ⟨a, b⟩ ⟨c, d⟩))
  | "fp2_neg", [a, b] => some (h2 (fp2_neg O ⟨a, b⟩))
  | "fp2_sqr", [a, b] => some (h2 (fp2_sqr O ⟨a, b⟩))
  | "fp2_half", [a, b] => some (h2 (fp2_half O ⟨a, b⟩))
  | "fp2_inv", [a, b] => some (h2 (fp2_inv O ⟨a, b⟩))
  | "fp2_sqrt", [a, b] => some (h2 (fp2_sqrt O ⟨a, b⟩))
  | "fp2_is_square", [a, b] => some (h (fp2_is_square O ⟨a, b⟩))
  | "fp2_is_zero", [a, b] => some (h (fp2_is_zero O ⟨a, b⟩))
  | "fp2_is_one", [a, b] => some (h (fp2_is_one O ⟨a, b⟩))
  | "fp2_is_equal", [a, b, c, d] => some (h (fp2_is_equal O ⟨a, b⟩ ⟨c, d⟩))
  | "fp2_select", [a, b, c, d, ctl] => some (h2 (fp2_select O ⟨a, b⟩ ⟨c, d⟩ ctl))
  | "fp2_cswap", [a, b, c, d, ctl] =>
      let r := fp2_cswap O ⟨a, b⟩ ⟨c, d⟩ ctl; some (h2 r.1 ++ " " ++ h2 r.2)
  | "fp2_set_small", [v] => some (h2 (fp2_set_small O v))
  | "fp2_set_one", [] => some (h2 (fp2_set_one O))
  | "fp2_encode", [a, b] => some (h (fp2_encode O ⟨a, b⟩))
  | "fp2_decode", [v] => let r := fp2_decode O v; some (h2 r.1 ++ " " ++ h r.2)
  | "fp2_batched_inv", n :: rest =>
      match pairs rest with
      | some xs => if xs.length = n ∧ 0 < n then
          some (" ".intercalate ((fp2_batched_inv O xs).map h2)) else none
      | none => none
  | "fp2_pow_vartime", a :: b :: k :: ws =>
      if ws.length = k then some (h2 (fp2_pow_vartime O ⟨a, b⟩ ws)) else none
  | _, _ => none

/-- ref-only entry points -/
def refOnly (P : RefParams) (op : String) (a : List Nat) : Option String :=
  match op, a with
  | "fp_tomont", [x] => some (h (Ref.fp_tomont P x))
  | "fp_frommont", [x] => some (h (Ref.fp_frommont P x))
  | "fp_exp3div4", [x] => some (h (Ref.fp_exp3div4 P x))
  -- the harness hands over a zero-padded buffer holding the `len`-byte integer `v`
  | "fp_decode_reduce", [len, v] =>
      some (h (Ref.fp_decode_reduce P (Ref.toBytes (max len (8 * P.n)) (v % 256 ^ len)) len))
  | _, _ => none

def handle : List String → Option String
  | "gf" :: lvl :: "ref" :: op :: _alias :: args => do
      let P ← refParams? lvl
      let a ← parseNats? args
      match generic (Ref.ops P) op a with
      | some r => some r
      | none => refOnly P op a
  | _ => none

end SqiModel.Drv.Gf

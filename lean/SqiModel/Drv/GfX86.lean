import SqiModel.Util
import SqiModel.Gf
import SqiModel.GfX86
import SqiModel.Drv.Gf
/- driver ops for the x86 ("broadwell") GF(p) model:  `gf <lvl> bw <op> <alias> args…`
   (alias token ignored: the functional model has no aliasing).  Field elements travel as the raw
   stored integer (Montgomery form, partially reduced) in hex. -/
namespace SqiModel.Drv.GfX86
open SqiModel SqiModel.Util SqiModel.Gf

def params? : String → Option X86Params
  | "1" => some x1 | "3" => some x3 | "5" => some x5 | _ => none

def h (n : Nat) : String := toHex n

/-- entry points below the `fp_*` macro layer -/
def bwOnly (P : X86Params) (op : String) (a : List Nat) : Option String :=
  match op, a with
  | "gf_mul_small", [x, k] => some (h (X86.mul_small P x k))
  | "gf_xsquare", [x, k] => some (h (X86.xsquare P x k))
  | "gf_div", [x, y] => let r := X86.div P x y; some (h r.1 ++ " " ++ h r.2)
  | "gf_invert", [x] => let r := X86.invert P x; some (h r.1 ++ " " ++ h r.2)
  | "gf_sqrt", [x] => let r := X86.sqrt P x; some (h r.1 ++ " " ++ h r.2)
  | "gf_legendre", [x] => some (h (X86.legendre P x))
  | "gf_decode_reduce", [len, v] => some (h (X86.decode_reduce P len v))
  | "fp_decode_reduce", [len, v] => some (h (X86.decode_reduce P len v))
  -- internal functions (no C entry point in the stock harness; used by model-level tests)
  | "gf_lin", [u, v, f, g] => some (h (X86.lin P u v f g))
  | "gf_lindiv31abs", [x, y, f, g] => let r := X86.lindiv31abs P x y f g; some (h r.1 ++ " " ++ h r.2)
  | "gf_partial_reduce", [x] => some (h (X86.partial_reduce P x))
  | "gf_montgomery_reduce", [x] => some (h (X86.montgomery_reduce P x))
  | "gf_squareint", [x] => some (h (X86.squareInt P x))
  | "gf_squareint_chain1", [x] =>
      some (h ((2 * x1SqProg.foldl (X86.applyChain x) 0 + X86.diagSum x 4) % (x1.R * x1.R)))
  | "gf_normalize", [x] => some (h (X86.normalize P x))
  | _, _ => none

def handle : List String → Option String
  | "gf" :: lvl :: "bw" :: op :: _alias :: args => do
      let P ← params? lvl
      let a ← parseNats? args
      match Drv.Gf.generic (X86.ops P) op a with
      | some r => some r
      | none => bwOnly P op a
  | _ => none

end SqiModel.Drv.GfX86

import SqiModel.Util
import SqiModel.Sponge
import SqiModel.Drbg
import SqiModel.Challenge
import SqiGen.Keccak
import SqiGen.KeccakParams
/- driver ops for C20 (hashing / DRBG / challenge).  Byte strings travel as hex (`-` = empty), numbers as hex.
   `hash.*` ops run the hand model with the *generated* permutation and the extracted rate / domain constants;
   `spec.*` ops run the FIPS 202 / SP 800-90A specification (used as oracle by the violation search). -/
namespace SqiModel.Drv.Hash
open SqiModel SqiModel.Util

def parseBytes? (s : String) : Option (List UInt8) :=
  if s == "-" then some [] else
  let rec go : List Char → List UInt8 → Option (List UInt8)
    | [], acc => some acc.reverse
    | [_], _ => none
    | a :: b :: rest, acc => do
        let x ← hexDigit? a
        let y ← hexDigit? b
        go rest ((x * 16 + y).toUInt8 :: acc)
  go s.toList []

def bytesHex (l : List UInt8) : String :=
  if l.isEmpty then "-" else
  String.ofList (l.foldr (fun b acc => hexChar (b.toNat / 16) :: hexChar (b.toNat % 16) :: acc) [])

def lanesHex (s : Fips202.State) : String := " ".intercalate (s.toList.map fun l => toHex l.toNat)

structure Params where
  absR : Nat
  absD : UInt8
  sqbR : Nat
  oneR : Nat
  incAbsR : Nat
  incFinR : Nat
  incFinD : UInt8
  incSqR : Nat

open SqiGen.Keccak in
def params? : String → Option Params
  | "128" => some ⟨shake128_absorb_rate, shake128_absorb_domain, shake128_squeezeblocks_rate, shake128_oneshot_rate,
                  shake128_inc_absorb_rate, shake128_inc_finalize_rate, shake128_inc_finalize_domain, shake128_inc_squeeze_rate⟩
  | "256" => some ⟨shake256_absorb_rate, shake256_absorb_domain, shake256_squeezeblocks_rate, shake256_oneshot_rate,
                  shake256_inc_absorb_rate, shake256_inc_finalize_rate, shake256_inc_finalize_domain, shake256_inc_squeeze_rate⟩
  | _ => none

def genF := SqiGen.Keccak.keccakF

/-- the model of `SHAKE128` / `SHAKE256` (→ `shake128` / `shake256`) as the library computes it -/
def shakeModel (p : Params) (msg : List UInt8) (outlen : Nat) : List UInt8 :=
  Sponge.shakeOneShot genF p.absR p.absD p.sqbR p.oneR msg outlen

def shake256Model (msg : List UInt8) (outlen : Nat) : List UInt8 :=
  match params? "256" with
  | some p => shakeModel p msg outlen
  | none => []

/-- one op of an incremental session: a<hex> absorb, f finalize, s<hexlen> squeeze -/
def incOp (p : Params) (acc : Sponge.IncState × List String × List Nat) (tok : String) :
    Option (Sponge.IncState × List String × List Nat) :=
  let (st, outs, poss) := acc
  match tok.toList with
  | 'a' :: rest => do
      let m ← parseBytes? (if rest.isEmpty then "-" else String.ofList rest)
      let st' := Sponge.incAbsorb genF p.incAbsR st m
      pure (st', outs, poss ++ [st'.pos])
  | ['f'] =>
      let st' := Sponge.incFinalize p.incFinR p.incFinD st
      some (st', outs, poss ++ [st'.pos])
  | 's' :: rest => do
      let n ← parseHexNat? (String.ofList rest)
      let (o, st') := Sponge.incSqueeze genF p.incSqR st n
      pure (st', outs ++ [bytesHex o], poss ++ [st'.pos])
  | _ => none

def handle : List String → Option String
  | "hash.perm" :: lanes => do
      let ls ← parseNats? lanes
      if h : ls.length = 25 then
        let s : Fips202.State := ⟨(ls.map (·.toUInt64)).toArray, by simp [h]⟩
        pure (lanesHex (genF s))
      else none
  | ["hash.shake", v, outlen, msg] => do
      let p ← params? v
      let n ← parseHexNat? outlen
      let m ← parseBytes? msg
      pure (bytesHex (shakeModel p m n))
  | ["spec.shake", v, outlen, msg] => do
      let n ← parseHexNat? outlen
      let m ← parseBytes? msg
      match v with
      | "128" => pure (bytesHex (Fips202.shake128 m n))
      | "256" => pure (bytesHex (Fips202.shake256 m n))
      | _ => none
  | "hash.inc" :: v :: ops => do
      let p ← params? v
      let (st, outs, poss) ← ops.foldlM (incOp p) (Sponge.incInit, [], [])
      pure (s!"{"|".intercalate outs};p={natsToHex poss};s={lanesHex st.s}")
  | ["hash.absblk", v, blocks, msg] => do
      let p ← params? v
      let ns ← parseNats? ((blocks.splitOn ",").filter (· ≠ ""))
      let m ← parseBytes? msg
      let s0 := Sponge.keccakAbsorb genF p.absR m p.absD
      let (outs, s) := ns.foldl (fun (acc : List String × Fips202.State) n =>
        let (o, s') := Sponge.squeezeBlocksC genF p.sqbR n acc.2
        (acc.1 ++ [bytesHex o], s')) ([], s0)
      pure (s!"{"|".intercalate outs};s={lanesHex s}")
  | ["aes.enc256", key, blk] => do
      let k ← parseBytes? key
      let b ← parseBytes? blk
      if k.length = 32 ∧ b.length = 16 then pure (bytesHex (Aes.aes256 k b)) else none
  | "drbg.run" :: seed :: pers :: reqs => do
      let sd ← parseBytes? seed
      let ps ← if pers == "-" then some none else (parseBytes? pers).map some
      let ns ← parseNats? reqs
      if sd.length ≠ 48 then none else
      match ps with
      | some p => if p.length ≠ 48 then none else pure ()
      | none => pure ()
      let st := Drbg.Model.init Aes.aes256 sd ps
      let (outs, st') := Drbg.Model.run Aes.aes256 st ns
      pure (s!"{"|".intercalate (outs.map bytesHex)};k={bytesHex st'.key};v={bytesHex st'.v};c={toHex st'.reseedCounter}")
  | "spec.drbg" :: seed :: pers :: reqs => do
      let sd ← parseBytes? seed
      let ps ← parseBytes? pers
      let ns ← parseNats? reqs
      let st := Drbg.Spec.instantiate Aes.aes256 sd ps
      let (outs, st') := ns.foldl (fun (acc : List String × Drbg.Spec.St) n =>
        let (o, s') := Drbg.Spec.generate Aes.aes256 acc.2 n
        (acc.1 ++ [bytesHex o], s')) ([], st)
      pure (s!"{"|".intercalate outs};k={bytesHex st'.key};v={bytesHex (Drbg.beBytes 16 st'.v)};c={toHex st'.reseedCounter}")
  | ["hash.h2c", nwords, iters, j1, j2, msg] => do
      let nw ← parseHexNat? nwords
      let it ← parseHexNat? iters
      let a ← parseBytes? j1
      let b ← parseBytes? j2
      let m ← parseBytes? msg
      let (s0, s1) := Challenge.hashToChallenge shake256Model nw it a b m
      pure (s!"{toHex s0} {toHex s1}")
  | ["mem.clear", buf, size] => do
      let b ← parseBytes? buf
      let n ← parseHexNat? size
      if n ≤ b.length then pure (bytesHex (Challenge.secureClear b n)) else none
  | _ => none

end SqiModel.Drv.Hash

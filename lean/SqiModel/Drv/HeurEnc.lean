import SqiModel.Util
import SqiModel.HeurEnc
/- driver ops (hex):  heurenc.encode f a m00 m01 m10 m11 x -> x b0 d0 b1 d1 c0a e0a hintB(of the matrix)
                      heurenc.decode f a x b0 d0 b1 d1 c0a e0a -> m00 m01 m10 m11 -/
namespace SqiModel.Drv.HeurEnc
open SqiModel.Util SqiModel.HeurEnc

def handle : List String → Option String
  | ["heurenc.encode", f, a, m00, m01, m10, m11, x] => do
      let f ← parseHexNat? f; let a ← parseHexNat? a
      let M : Mat := ⟨← parseHexInt? m00, ← parseHexInt? m01, ← parseHexInt? m10, ← parseHexInt? m11⟩
      let e := encode f a M (← parseHexInt? x)
      pure (intsToHex [e.x, e.b0, e.d0, e.b1, e.d1, e.c0a, e.e0a, (hintB M : Int)])
  | ["heurenc.decode", f, a, x, b0, d0, b1, d1, c0a, e0a] => do
      let f ← parseHexNat? f; let a ← parseHexNat? a
      let e : Enc := ⟨← parseHexInt? x, ← parseHexInt? b0, ← parseHexInt? d0, ← parseHexInt? b1, ← parseHexInt? d1,
        ← parseHexInt? c0a, ← parseHexInt? e0a, 0⟩
      let M := decode f a e
      pure (intsToHex [M.m00, M.m01, M.m10, M.m11])
  | _ => none

end SqiModel.Drv.HeurEnc

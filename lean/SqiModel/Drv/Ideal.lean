import SqiModel.Util
import SqiModel.Quat
import SqiModel.Ideal
import SqiModel.Drv.Quat
/- driver ops for the left-ideal model (C15).  All integers in hex (optional leading '-').
   element E = `denom c0 c1 c2 c3`; lattice/order L = `denom` + 16 entries row-major (`basis[i][j]` as in C);
   ideal I = lattice + norm (18 ints); the parent order is passed separately by value.
     id.principal p E O            -> L norm
     id.fromprim p E N O           -> L norm
     id.mkprim p E N O             -> L norm
     id.add I1 I2 O | id.inter I1 I2 O   -> L norm
     id.equals I1 O1 I2 O2         -> 0/1
     id.gen p I O n bound          -> 0 | 1 E
     id.mul p I O alpha bound      -> 0 | 1 L norm
     id.connect p O1 O2            -> L norm
     id.isprim O E                 -> 0/1                (quat_alg_is_primitive)
   certificate checkers (input = output of the C code):
     id.certtrans p L1 L2 T        -> 0/1   L1·T ⊆ L2
     id.certtransid p I1 I2 O T    -> incl covol        (I1, I2 ideals of O)
     id.certrord p I O T           -> 0/1   T = right order certificate
     id.certisom p L1 L2 E         -> 0/1   L1·E = L2
     id.certleft p O L             -> 0/1   O·L ⊆ L
     id.certorder p O              -> ring disc_is_p2
     id.certtransx p I1 I2 O T     -> 0/1   I1·T ⊆ I2 and conj(I1)·I2 ⊆ N(I1)·T  (T is exactly the transporter)
     id.certnorm I O               -> 0/1   N(I)² · covol(O) = covol(I)
     id.certgen p I O E            -> 0/1   O·E + O·N(I) = I -/
namespace SqiModel.Drv.Ideal
open SqiModel SqiModel.Util SqiModel.Quat SqiModel.Ideal SqiModel.Drv.Quat

def idealOf (l : List Int) : Option (Lattice × Int × List Int) := do
  let (lat, l) ← latOf l
  match l with
  | n :: r => pure (lat, n, r)
  | [] => none

def showIdeal (I : LeftIdeal) : String := showLat I.lattice ++ " " ++ intToHex I.norm

def handleInts : String → List Int → Option String
  | "id.principal", p :: l => do
      let (x, l) ← elemOf l; let (o, _) ← latOf l
      pure (showIdeal (createPrincipal p x o))
  | "id.fromprim", p :: l => do
      let (x, l) ← elemOf l
      match l with
      | n :: l => do let (o, _) ← latOf l; pure (showIdeal (createFromPrimitive p x n o))
      | [] => none
  | "id.mkprim", p :: l => do
      let (x, l) ← elemOf l
      match l with
      | n :: l => do let (o, _) ← latOf l; pure (showIdeal (makePrimitiveThenCreate p x n o))
      | [] => none
  | "id.add", l => do
      let (l1, n1, l) ← idealOf l; let (l2, n2, l) ← idealOf l; let (o, _) ← latOf l
      pure (showIdeal (lidealAdd ⟨l1, n1, o⟩ ⟨l2, n2, o⟩))
  | "id.inter", l => do
      let (l1, n1, l) ← idealOf l; let (l2, n2, l) ← idealOf l; let (o, _) ← latOf l
      pure (showIdeal (lidealInter ⟨l1, n1, o⟩ ⟨l2, n2, o⟩))
  | "id.equals", l => do
      let (l1, n1, l) ← idealOf l; let (o1, l) ← latOf l
      let (l2, n2, l) ← idealOf l; let (o2, _) ← latOf l
      pure (b01 (lidealEquals ⟨l1, n1, o1⟩ ⟨l2, n2, o2⟩))
  | "id.gen", p :: l => do
      let (l1, n1, l) ← idealOf l; let (o, l) ← latOf l
      match l with
      | [n, bound] =>
        match generatorCoprime p ⟨l1, n1, o⟩ n bound with
        | some g => pure ("1 " ++ showElem g)
        | none => pure "0"
      | _ => none
  | "id.mul", p :: l => do
      let (l1, n1, l) ← idealOf l; let (o, l) ← latOf l; let (a, l) ← elemOf l
      match l with
      | [bound] =>
        match lidealMul p ⟨l1, n1, o⟩ a bound with
        | some I => pure ("1 " ++ showIdeal I)
        | none => pure "0"
      | _ => none
  | "id.connect", p :: l => do
      let (o1, l) ← latOf l; let (o2, _) ← latOf l
      pure (showIdeal (connectingIdeal p o1 o2))
  | "id.isprim", l => do
      let (o, l) ← latOf l; let (x, _) ← elemOf l
      pure (b01 (isPrimitive o x))
  | "id.certtrans", p :: l => do
      let (l1, l) ← latOf l; let (l2, l) ← latOf l; let (t, _) ← latOf l
      pure (b01 (isRightTransporterCert p l1 l2 t))
  | "id.certtransid", p :: l => do
      let (l1, n1, l) ← idealOf l; let (l2, n2, l) ← idealOf l; let (o, l) ← latOf l; let (t, _) ← latOf l
      pure (b01 (isRightTransporterCert p l1 l2 t) ++ " " ++ b01 (transporterCovolOk ⟨l1, n1, o⟩ ⟨l2, n2, o⟩ t))
  | "id.certrord", p :: l => do
      let (l1, n1, l) ← idealOf l; let (o, l) ← latOf l; let (t, _) ← latOf l
      pure (b01 (isRightOrderCert p ⟨l1, n1, o⟩ t))
  | "id.certisom", p :: l => do
      let (l1, l) ← latOf l; let (l2, l) ← latOf l; let (x, _) ← elemOf l
      pure (b01 (isomCert p l1 l2 x))
  | "id.certleft", p :: l => do
      let (o, l) ← latOf l; let (i, _) ← latOf l
      pure (b01 (isLeftIdealCert p o i))
  | "id.certtransx", p :: l => do
      let (l1, n1, l) ← idealOf l; let (l2, n2, l) ← idealOf l; let (o, l) ← latOf l; let (t, _) ← latOf l
      pure (b01 (isRightTransporterExact p ⟨l1, n1, o⟩ ⟨l2, n2, o⟩ t))
  | "id.certnorm", l => do
      let (l1, n1, l) ← idealOf l; let (o, _) ← latOf l
      pure (b01 (normCovolOk ⟨l1, n1, o⟩))
  | "id.certgen", p :: l => do
      let (l1, n1, l) ← idealOf l; let (o, l) ← latOf l; let (g, _) ← elemOf l
      pure (b01 (generatorCert p ⟨l1, n1, o⟩ g))
  | "id.certorder", p :: l => do
      let (o, _) ← latOf l
      pure (b01 (isOrderCert p o) ++ " " ++ b01 (hasMaximalDisc p o))
  | _, _ => none

def handle : List String → Option String
  | op :: args =>
    if op.startsWith "id." then
      match parseInts? args with
      | some l => handleInts op l
      | none => none
    else none
  | _ => none

end SqiModel.Drv.Ideal

import SqiModel.Util
import SqiModel.IdealKernel
import SqiGen.Tables1
import SqiGen.Tables3
import SqiGen.Tables5
/- driver ops for the C13 linear-algebra model (hex, signed):
   `c13.k2i lvl f v0 v1` -> `ok|noninv a b g0 g1 g2 g3 z0 z1`   (generator numerators over denominator 2; z = (a − ι + bθ)·v mod 2^f)
   `c13.i2k lvl n c0 c1 c2 c3` -> `w0 w1`                        (kernel vector from the O0-coordinates of the conjugate generator)
   `c13.finduv n d1 d2 d2inv i3 k` -> `u v`
   `c13.fdi T bp b` -> `length dblcount row`
   `c13.endo lvl f c0 c1 c2 c3` -> `m00 m01 m10 m11`   (matrix of c0 + c1·g2 + c2·g3 + c3·g4 reduced mod 2^f) -/
namespace SqiModel.Drv.IdealKernel
open SqiModel SqiModel.Util SqiModel.IdealKernel

def mats (lvl : Nat) : Option (M × M × M × M × M) :=
  match lvl with
  | 1 => some (SqiGen.L1.W64.ACTION_I, SqiGen.L1.W64.ACTION_J, SqiGen.L1.W64.ACTION_GEN2, SqiGen.L1.W64.ACTION_GEN3, SqiGen.L1.W64.ACTION_GEN4)
  | 3 => some (SqiGen.L3.W64.ACTION_I, SqiGen.L3.W64.ACTION_J, SqiGen.L3.W64.ACTION_GEN2, SqiGen.L3.W64.ACTION_GEN3, SqiGen.L3.W64.ACTION_GEN4)
  | 5 => some (SqiGen.L5.W64.ACTION_I, SqiGen.L5.W64.ACTION_J, SqiGen.L5.W64.ACTION_GEN2, SqiGen.L5.W64.ACTION_GEN3, SqiGen.L5.W64.ACTION_GEN4)
  | _ => none

def handle : List String → Option String
  | ["c13.k2i", lvl, f, v0, v1] => do
      let (AI, AJ, _, _, AG4) ← mats (← parseHexNat? lvl)
      let f ← parseHexNat? f
      let v : Int × Int := (← parseHexInt? v0, ← parseHexInt? v1)
      let (ok, (a, b), g) := kernelToIdealGen AI AJ AG4 f v
      let N : Int := 2 ^ f
      let t := mulVec AJ v; let g4 := mulVec AG4 v; let iv := mulVec AI v
      let z : Int × Int := ((a * v.1 - iv.1 + b * (t.1 + g4.1)) % N, (a * v.2 - iv.2 + b * (t.2 + g4.2)) % N)
      pure ((if ok then "ok " else "noninv ") ++ intsToHex ([a, b] ++ g ++ [z.1, z.2]))
  | ["c13.i2k", lvl, n, c0, c1, c2, c3] => do
      let (_, _, G2, G3, G4) ← mats (← parseHexNat? lvl)
      let n ← parseHexInt? n
      let w := idealToKernel G2 G3 G4 n (← parseHexInt? c0, ← parseHexInt? c1, ← parseHexInt? c2, ← parseHexInt? c3)
      pure (intsToHex [w.1, w.2])
  | ["c13.endo", lvl, f, c0, c1, c2, c3] => do
      let (_, _, G2, G3, G4) ← mats (← parseHexNat? lvl)
      let f ← parseHexNat? f
      let m := matOfCoeffs G2 G3 G4 (← parseHexInt? c0, ← parseHexInt? c1, ← parseHexInt? c2, ← parseHexInt? c3)
      let N : Int := 2 ^ f
      pure (intsToHex [Mat2.get m 0 0 % N, Mat2.get m 0 1 % N, Mat2.get m 1 0 % N, Mat2.get m 1 1 % N])
  | ["c13.finduv", n, d1, d2, d2inv, i3, k] => do
      let r := findUVStep (← parseHexInt? n) (← parseHexInt? d1) (← parseHexInt? d2) (← parseHexInt? d2inv) (← parseHexNat? i3) (← parseHexNat? k)
      pure (intsToHex [r.1, r.2])
  | ["c13.fdi", t, bp, b] => do
      let t ← parseHexInt? t; let bp ← parseHexInt? bp; let b ← parseHexInt? b
      pure (intsToHex [fdiLength bp b, fdiDblCount t bp b, fdiRow t bp b])
  | _ => none

end SqiModel.Drv.IdealKernel

import SqiModel.Util
import SqiModel.Intbig
import SqiModel.NumberTheory
import SqiModel.Kernels
import SqiModel.Howell
/- driver ops of the C17 models (integers in hex with optional '-', one result line per op) -/
namespace SqiModel.Drv.Int
open SqiModel SqiModel.Util SqiModel.Intbig SqiModel.NumberTheory SqiModel.Kernels

def h (z : Int) : String := intToHex z
def hs (l : List Int) : String := intsToHex l

def showRes {α} (f : α → String) : Res α → String
  | .ok v => "1 " ++ f v
  | .fail => "0"
  | .ub => "ub"

def hexByte? (a b : Char) : Option Nat := do
  let x ← hexDigit? a
  let y ← hexDigit? b
  pure (x * 16 + y)

def parseBytes? : List Char → Option (List Nat)
  | [] => some []
  | [_] => none
  | a :: b :: rest => do
    let v ← hexByte? a b
    let r ← parseBytes? rest
    pure (v :: r)

/-- stream argument: "-" for the empty stream, else an even-length hex string (byte order = stream order) -/
def parseStream? (s : String) : Option (List Nat) :=
  if s = "-" then some [] else parseBytes? s.toList

def toMat (cols : Nat) (l : List Int) : Mat :=
  (List.range (l.length / cols)).map fun i => (l.drop (i * cols)).take cols

def showRand (r : Res (Int × List Nat)) (total : Nat) : String :=
  showRes (fun (v, rest) => h v ++ " " ++ toHex (total - rest.length)) r

def handle : List String → Option String
  | ["div", a, b] => do
      let a ← parseHexInt? a; let b ← parseHexInt? b
      let (q, r) := ibzDiv a b; pure (h q ++ " " ++ h r)
  | ["divfloor", a, b] => do
      let a ← parseHexInt? a; let b ← parseHexInt? b
      let (q, r) := ibzDivFloor a b; pure (h q ++ " " ++ h r)
  | ["mod", a, b] => do
      let a ← parseHexInt? a; let b ← parseHexInt? b
      pure (h (ibzMod a b))
  | ["div2exp", a, e] => do
      let a ← parseHexInt? a; let e ← parseHexNat? e
      pure (h (ibzDiv2exp a e))
  | ["rdiv", a, b] => do
      let a ← parseHexInt? a; let b ← parseHexInt? b
      pure (h (ibzRoundedDiv a b))
  | ["xgcd", a, b] => do
      let a ← parseHexInt? a; let b ← parseHexInt? b
      let (g, u, v) := ibzXgcd a b; pure (hs [g, u, v])
  | ["xgcdann", a, b] => do
      let a ← parseHexInt? a; let b ← parseHexInt? b
      let (g, s, t, u, v) := ibzXgcdAnn a b; pure (hs [g, s, t, u, v])
  | ["invmod", a, m] => do
      let a ← parseHexInt? a; let m ← parseHexInt? m
      pure (showRes h (ibzInvmod a m))
  | ["crt", a, b, ma, mb] => do
      let a ← parseHexInt? a; let b ← parseHexInt? b; let ma ← parseHexInt? ma; let mb ← parseHexInt? mb
      pure (h (ibzCrt a b ma mb))
  | ["powm", b, e, m] => do
      let b ← parseHexInt? b; let e ← parseHexNat? e; let m ← parseHexInt? m
      pure (h (powm b e m))
  | ["sqrtp", a, p] => do
      let a ← parseHexInt? a; let p ← parseHexInt? p
      pure (showRes h (ibzSqrtModP a p))
  | ["sqrt2p", a, p] => do
      let a ← parseHexInt? a; let p ← parseHexInt? p
      pure (showRes h (ibzSqrtMod2P a p))
  | ["get", x] => do
      let x ← parseHexInt? x
      pure (h (ibzGet x))
  | ["tav", x] => do
      let x ← parseHexInt? x
      pure (toHex (twoAdicValuationOfIbz x))
  | ["twoadic", x] => do
      let x ← parseHexInt? x
      pure (toHex (ibzTwoAdic x))
  | ["bitsize", x] => do
      let x ← parseHexInt? x
      pure (toHex (sizeInBase2 x))
  | "fromdigits" :: ds => do
      let ds ← parseNats? ds
      pure (h (ibzCopyDigits ds))
  | ["todigits", n, x] => do
      let n ← parseHexNat? n; let x ← parseHexInt? x
      pure (showRes natsToHex (ibzToDigitArray n x))
  | ["randint", a, b, s] => do
      let a ← parseHexInt? a; let b ← parseHexInt? b; let s ← parseStream? s
      pure (showRand (ibzRandInterval a b s) s.length)
  | ["randint86", a, b, s] => do
      let a ← parseHexInt? a; let b ← parseHexInt? b; let s ← parseStream? s
      pure (showRand (ibzRandInterval a b s) s.length)
  | ["randminm", m, s] => do
      let m ← parseHexInt? m; let s ← parseStream? s
      pure (showRand (ibzRandIntervalMinmM m s) s.length)
  | ["cornp", n, p] => do
      let n ← parseHexInt? n; let p ← parseHexInt? p
      pure (showRes (fun (x, y) => hs [x, y]) (ibzCornacchiaPrime n p))
  | ["cornsp", n, p, e] => do
      let n ← parseHexInt? n; let p ← parseHexInt? p; let e ← parseHexNat? e
      pure (showRes (fun (x, y) => hs [x, y]) (ibzCornacchiaSpecialPrime n p e))
  | ["cmulpow", r0, r1, a0, a1, e] => do
      let r0 ← parseHexInt? r0; let r1 ← parseHexInt? r1; let a0 ← parseHexInt? a0; let a1 ← parseHexInt? a1
      let e ← parseHexNat? e
      let (x, y) := cmulByPow (r0, r1) (a0, a1) e
      pure (hs [x, y])
  | "cornext" :: n :: bad :: primes => do
      let n ← parseHexInt? n
      let bad ← (if bad = "null" then some none else (parseHexInt? bad).map some)
      let ps ← parseInts? primes
      pure (showRes (fun (x, y) => hs [x, y]) (ibzCornacchiaExtended probabPrime n ps bad))
  | "inv2" :: m :: es => do
      let m ← parseHexInt? m; let es ← parseInts? es
      if es.length ≠ 4 then none else
      pure (showRes (fun r => hs r.flatten) (inv2x2Mod (toMat 2 es) m))
  | "mul2" :: m :: es => do
      let m ← parseHexInt? m; let es ← parseInts? es
      if es.length ≠ 8 then none else
      pure (hs (mul2x2Mod (toMat 2 (es.take 4)) (toMat 2 (es.drop 4)) m).flatten)
  | "ker44p" :: p :: es => do
      let p ← parseHexInt? p; let es ← parseInts? es
      if es.length ≠ 16 then none else
      pure (showRes hs (ker4x4ModPrime (toMat 4 es) p))
  | "ker45p" :: p :: es => do
      let p ← parseHexInt? p; let es ← parseInts? es
      if es.length ≠ 20 then none else
      pure (showRes hs (ker4x5ModPrime (toMat 5 es) p))
  | "ker44two" :: e :: es => do
      let e ← parseHexNat? e; let es ← parseInts? es
      if es.length ≠ 16 then none else
      pure (showRes hs (SqiModel.Howell.ker4x4ModPow2 (SqiModel.Howell.ofLists (toMat 4 es)) e))
  | "howell" :: rows :: cols :: m :: es => do
      let rows ← parseHexNat? rows; let cols ← parseHexNat? cols; let m ← parseHexInt? m; let es ← parseInts? es
      if es.length ≠ rows * cols ∨ cols = 0 ∨ cols > rows then none else
      let (H, T, z) := SqiModel.Howell.matHowell rows cols (SqiModel.Howell.ofLists (toMat cols es)) m
      pure (toHex z ++ " " ++ hs (SqiModel.Howell.toLists H).flatten ++ " | " ++ hs (SqiModel.Howell.toLists T).flatten)
  | "kermod" :: rows :: cols :: m :: es => do
      let rows ← parseHexNat? rows; let cols ← parseHexNat? cols; let m ← parseHexInt? m; let es ← parseInts? es
      if es.length ≠ rows * cols ∨ cols = 0 ∨ cols > rows then none else
      pure (hs (SqiModel.Howell.toLists (SqiModel.Howell.matRightKerMod rows cols (SqiModel.Howell.ofLists (toMat cols es)) m)).flatten)
  | ["repint", nd, trials, p, n, st] => do
      let nd ← parseHexNat? nd; let trials ← parseHexNat? trials; let p ← parseHexInt? p; let n ← parseHexInt? n
      let st ← parseStream? st
      pure (match representInteger probabPrime (nd != 0) trials n p st with
        | .ok (o, rest) => "1 " ++ h o.nOut ++ " " ++ hs o.coord ++ " " ++ h o.denom ++ " " ++ toHex (st.length - rest.length)
        | .fail => "0"
        | .ub => "ub")
  | "chkmul" :: r :: k :: c :: n :: es => do
      -- chkmul r k c N  A(r*k) B(k*c) C(r*c): 1 iff A·B ≡ C (mod N)
      let r ← parseHexNat? r; let k ← parseHexNat? k; let c ← parseHexNat? c; let n ← parseHexInt? n
      let es ← parseInts? es
      if es.length ≠ r * k + k * c + r * c ∨ k = 0 ∨ c = 0 then none else
      let A := toMat k (es.take (r * k))
      let B := toMat c ((es.drop (r * k)).take (k * c))
      let C := toMat c (es.drop (r * k + k * c))
      pure (if matMulCheck A B C c n then "1" else "0")
  | "chkker2e" :: e :: es => do
      let e ← parseHexNat? e; let es ← parseInts? es
      if es.length ≠ 20 then none else
      pure (if kerPow2Check (toMat 4 (es.take 16)) e (es.drop 16) then "1" else "0")
  | _ => none

end SqiModel.Drv.Int

import SqiModel.Util
import SqiModel.Fp2
import SqiModel.Ladder
/- driver ops for the hand ladder models (same line format as tools/harness/drv_ec.c):
     ec.xmul <lvl> Px Pz A C k | ec.xmulv2 <lvl> Px Pz A24x A24z kbits k | ec.dblmul <lvl> P Q PQ A C k l
     ec.dblmulb <lvl> P Q PQ A C k l f | ec.ladder3pt <lvl> P Q PQ A C m | ec.dbliter <lvl> n P A C
   every field element is two hex tokens (re im). -/
namespace SqiModel.Drv.Ladder
open SqiModel SqiModel.Util SqiModel.Ladder SqiGen

def levelBits : Nat → Option (Nat × Nat)      -- (BITS, TORSION_PLUS_EVEN_POWER)
  | 1 => some (256, 248)
  | 3 => some (384, 376)
  | 5 => some (512, 500)
  | _ => none

def pt {p : Nat} (a b c d : Nat) : EcPoint (Fp2 p) := ⟨Fp2.mk' p a b, Fp2.mk' p c d⟩
def crv {p : Nat} (a b c d : Nat) : EcCurve (Fp2 p) :=
  { (ec_curve_init : EcCurve (Fp2 p)) with A := Fp2.mk' p a b, C := Fp2.mk' p c d }
def out {p : Nat} (P : EcPoint (Fp2 p)) (is_ : List Int) : String :=
  natsToHex [P.x.re, P.x.im, P.z.re, P.z.im] ++ " | " ++ intsToHex is_

def handle : List String → Option String
  | op :: lvl :: rest => do
      if !(op.startsWith "ec.") then none
      let lvl ← parseHexNat? lvl
      let p ← levelPrime lvl
      let (bits, tpe) ← levelBits lvl
      let t ← parseNats? rest
      match op, t with
      | "ec.xmul", [a, b, c, d, e, f, g, h, k] =>
          pure (out (xMUL bits k (pt (p := p) a b c d) (crv e f g h)) [])
      | "ec.xmulv2", [a, b, c, d, e, f, g, h, kbits, k] =>
          pure (out (xMULv2 kbits k (pt (p := p) a b c d) (pt e f g h)) [])
      | "ec.dblmul", [a, b, c, d, e, f, g, h, i, j, k', l', m, n, o, q, k, l] =>
          pure (out (xDBLMUL bits k l (pt (p := p) a b c d) (pt e f g h) (pt i j k' l') (crv m n o q)) [])
      | "ec.dblmulb", [a, b, c, d, e, f, g, h, i, j, k', l', m, n, o, q, k, l, ff] =>
          pure (out (xDBLMULgen bits (some (ff + 2 + (bits - tpe))) k l (pt (p := p) a b c d) (pt e f g h) (pt i j k' l') (crv m n o q)) [])
      | "ec.ladder3pt", [a, b, c, d, e, f, g, h, i, j, k', l', m, n, o, q, s] =>
          pure (out (ladder3pt bits s (pt (p := p) a b c d) (pt e f g h) (pt i j k' l') (ec_curve_normalize_A24 (crv m n o q))) [])
      | "ec.dbliter", [n, a, b, c, d, e, f, g, h] =>
          let r := dblIter (pt (p := p) 0x5a5a 0 0x5a5a 0) (Int.ofNat n) (crv e f g h) (pt a b c d)
          pure (out r.1 [r.2.is_A24_computed_and_normalized])
      | _, _ => pure "bad-args"
  | _ => none

end SqiModel.Drv.Ladder

import SqiModel.Util
import SqiModel.Fp2
import SqiModel.Ladder
/- driver ops for the hand ladder models (same line format as tools/harness/drv_ec.c):
     ec.xmul <lvl> Px Pz A C k | ec.xmulv2 <lvl> Px Pz A24x A24z kbits k | ec.dblmul <lvl> P Q PQ A C k l
     ec.dblmulb <lvl> P Q PQ A C k l f | ec.ladder3pt <lvl> P Q PQ A C m | ec.dbliter <lvl> n P A C
   every field element is two hex tokens (re im). -/
namespace SqiModel.Drv.Ladder
open SqiModel SqiModel.Util SqiModel.Ladder SqiGen

def levelBits : Nat → Option (Nat × Nat)      -- (BITS, TORSION_PLUS_EVEN_POWER)
  | 1 => some (256, 248)
  | 3 => some (384, 376)
  | 5 => some (512, 500)
  | _ => none

def pt {p : Nat} (a b c d : Nat) : EcPoint (Fp2 p) := ⟨Fp2.mk' p a b, Fp2.mk' p c d⟩
def crv {p : Nat} (a b c d : Nat) : EcCurve (Fp2 p) :=
  { (ec_curve_init : EcCurve (Fp2 p)) with A := Fp2.mk' p a b, C := Fp2.mk' p c d }
def out {p : Nat} (P : EcPoint (Fp2 p)) (is_ : List Int) : String :=
  natsToHex [P.x.re, P.x.im, P.z.re, P.z.im] ++ " | " ++ intsToHex is_

def jpt {p : Nat} : List Nat → Option (JacPoint (Fp2 p))
  | [a, b, c, d, e, f] => some ⟨Fp2.mk' p a b, Fp2.mk' p c d, Fp2.mk' p e f⟩
  | _ => none

def jpts {p : Nat} : List Nat → List (JacPoint (Fp2 p))
  | a :: b :: c :: d :: e :: f :: rest => ⟨Fp2.mk' p a b, Fp2.mk' p c d, Fp2.mk' p e f⟩ :: jpts rest
  | _ => []

def triples : List Nat → List (Nat × Nat × Nat)
  | a :: b :: c :: rest => (a, b, c) :: triples rest
  | _ => []

def jout {p : Nat} (J : JacPoint (Fp2 p)) : String :=
  natsToHex [J.x.re, J.x.im, J.y.re, J.y.im, J.z.re, J.z.im] ++ " | "

/-- `jac.seq <lvl> <nF> a P1 … Pn  ops…` and `jac.dblmul <lvl> 7 a P Q  nbits k l` (curve with C = 1) -/
def handleJac : List String → Option String
  | op :: lvl :: nF :: rest => do
      if !(op.startsWith "jac.") then none
      let lvl ← parseHexNat? lvl
      let p ← levelPrime lvl
      let nF ← parseHexNat? nF
      let t ← parseNats? rest
      let fs := t.take (2 * nF)
      let is_ := t.drop (2 * nF)
      match fs with
      | a0 :: a1 :: pts =>
        let curve : EcCurve (Fp2 p) := { (ec_curve_init : EcCurve (Fp2 p)) with A := Fp2.mk' p a0 a1 }
        match op, is_ with
        | "jac.seq", prog =>
            match jacSeq curve (jpts pts) (triples prog) with
            | some J => pure (jout J)
            | none => pure "bad-args"
        | "jac.dblmul", [nbits, k, l] =>
            match jpts (p := p) pts with
            | [P, Q] => pure (jout (jacDBLMUL nbits k l P Q curve))
            | _ => pure "bad-args"
        | _, _ => pure "bad-args"
      | _ => pure "bad-args"
  | _ => none

def handleEc : List String → Option String
  | op :: lvl :: rest => do
      if !(op.startsWith "ec.") then none
      let lvl ← parseHexNat? lvl
      let p ← levelPrime lvl
      let (bits, tpe) ← levelBits lvl
      let t ← parseNats? rest
      match op, t with
      | "ec.xmul", [a, b, c, d, e, f, g, h, k] =>
          pure (out (xMUL bits k (pt (p := p) a b c d) (crv e f g h)) [])
      | "ec.xmulv2", [a, b, c, d, e, f, g, h, kbits, k] =>
          pure (out (xMULv2 kbits k (pt (p := p) a b c d) (pt e f g h)) [])
      | "ec.dblmul", [a, b, c, d, e, f, g, h, i, j, k', l', m, n, o, q, k, l] =>
          pure (out (xDBLMUL bits k l (pt (p := p) a b c d) (pt e f g h) (pt i j k' l') (crv m n o q)) [])
      | "ec.dblmulb", [a, b, c, d, e, f, g, h, i, j, k', l', m, n, o, q, k, l, ff] =>
          pure (out (xDBLMULgen bits (some (ff + 2 + (bits - tpe))) k l (pt (p := p) a b c d) (pt e f g h) (pt i j k' l') (crv m n o q)) [])
      | "ec.biscalarb", [a, b, c, d, e, f, g, h, i, j, k', l', m, n, o, q, k, l, ff] =>
          pure (out (biscalarMulBounded bits tpe ff k l (pt (p := p) a b c d) (pt e f g h) (pt i j k' l') (crv m n o q)) [])
      | "ec.ladder3pt", [a, b, c, d, e, f, g, h, i, j, k', l', m, n, o, q, s] =>
          pure (out (ladder3pt bits s (pt (p := p) a b c d) (pt e f g h) (pt i j k' l') (ec_curve_normalize_A24 (crv m n o q))) [])
      | "ec.dbliter", [n, a, b, c, d, e, f, g, h] =>
          let r := dblIter (pt (p := p) 0x5a5a 0 0x5a5a 0) (Int.ofNat n) (crv e f g h) (pt a b c d)
          pure (out r.1 [r.2.is_A24_computed_and_normalized])
      | _, _ => pure "bad-args"
  | _ => none

def handle (ws : List String) : Option String :=
  match handleJac ws with
  | some r => some r
  | none => handleEc ws

end SqiModel.Drv.Ladder

import SqiModel.Util
import SqiModel.Quat
import SqiModel.Lll
import SqiModel.Dim2
/- driver ops for C16 (same op lines as tools/harness/drv_lll.c).  All integers in hex (optional leading '-'),
   matrices row-major (`mat[i][j]` as in C).
     lll.check dn dd en ed q L(16) R(16)        -> diagnostic code of `lllDiag` (0 = certificate accepted)
     lll.retcheck dn dd en ed q L(16) ret R(16) -> 1/0   (`lllRetCheck`; R ignored unless ret = 0)
     lll.guard L(16) -> -1 | pass  (entry rank test of the repaired routine)   lll.prec q L(16) -> requested mpf precision
     lll.ops B(16) (0 k l r | 1 k 0 0)*         -> B'(16) H(16)    (fold of integer row operations, rows)
     lll.gs q B(16)                             -> n0 n1 n2 n3 t10 t20 t21 t30 t31 t32  (division-free GS of the COLUMNS)
     d2.norm q c1 c2 | d2.bil q v11 v12 v21 v22 | d2.short q B(4) | d2.coef q a0 a1 b0 b1 t0 t1
     d2.cvp q B(4) t0 t1 | d2.qf q B(4) | d2.bound na da nb db | d2.contains B(4) c1 c2
     d2.bac q x y tmc0 tmc1 B(4) bound p | d2.enum q tmc0 tmc1 B(4) bound maxtries p
     d2.enumeq q tmc0 tmc1 B(4) bound maxtries v0 v1   (condition: vec == (v0,v1): membership oracle of the enumeration)
     d2.filter B(4) t0 t1 qf dist_bound p max_tries
     resp.model p resplen denom content lll(16) cand(4)*  -> x(5) found count | fzi bb(4) | hyp (4 flags: dg>0, division exact, 2*norm even, det lll != 0)
   `abort` = the C code would divide by zero / take the root of a negative number (GMP aborts). -/
namespace SqiModel.Drv.Lll
open SqiModel SqiModel.Util SqiModel.Quat SqiModel.Lll SqiModel.Dim2

def vecOf : List Int → Option (Vec4 × List Int)
  | a :: b :: c :: d :: r => some (⟨a, b, c, d⟩, r)
  | _ => none

def matOf (l : List Int) : Option (Mat4 × List Int) := do
  let (r0, l) ← vecOf l
  let (r1, l) ← vecOf l
  let (r2, l) ← vecOf l
  let (r3, l) ← vecOf l
  pure (⟨r0, r1, r2, r3⟩, l)

def m2Of : List Int → Option (M2 × List Int)
  | a :: b :: c :: d :: r => some (⟨a, b, c, d⟩, r)
  | _ => none

def showMat (m : Mat4) : String := intsToHex m.toList
def showElem (e : Elem) : String := intsToHex (e.denom :: e.coord.toList)
def showM2 (m : M2) : String := intsToHex [m.a00, m.a01, m.a10, m.a11]
def b01 (b : Bool) : String := if b then "1" else "0"

def finOf (i : Int) : Option (Fin 4) := if h : i.toNat < 4 then (if 0 ≤ i then some ⟨i.toNat, h⟩ else none) else none

def opsOf : List Int → Option (List Op)
  | [] => some []
  | kind :: k :: l :: r :: rest => do
      let k ← finOf k
      let tl ← opsOf rest
      if kind = 0 then do
        let l ← finOf l
        pure (Op.red k l r :: tl)
      else pure (Op.swap k :: tl)
  | _ => none

def candsOf : List Int → Option (List Vec4)
  | [] => some []
  | a :: b :: c :: d :: r => do let tl ← candsOf r; pure (⟨a, b, c, d⟩ :: tl)
  | _ => none

def showFound : Option (Option Elem) → String
  | none => "abort"
  | some none => "0"
  | some (some e) => "1 " ++ showElem e

def handleInts : String → List Int → Option String
  | "lll.check", dn :: dd :: en :: ed :: q :: l => do
      let (a, l) ← matOf l; let (b, _) ← matOf l
      pure (toString (lllDiag dn dd en ed q a b))
  | "lll.retcheck", dn :: dd :: en :: ed :: q :: l => do
      let (a, l) ← matOf l
      match l with
      | ret :: l' =>
        let b := (matOf l').map (·.1)
        pure (b01 (lllRetCheck dn dd en ed q a ret (b.getD Mat4.zero)))
      | _ => none
  | "lll.guard", l => do
      let (a, _) ← matOf l
      pure (match lllGuard a with | some r => intToHex r | none => "pass")
  | "lll.prec", q :: l => do
      let (a, _) ← matOf l
      pure (toHex (lllPrecision q a))
  | "lll.ops", l => do
      let (a, l) ← matOf l
      let ops ← opsOf l
      let r := run ops a
      pure (showMat r.1 ++ " " ++ showMat r.2)
  | "lll.gs", q :: l => do
      let (a, _) ← matOf l
      let g := gsData q a.transpose
      pure (intsToHex [g.n0, g.n1, g.n2, g.n3, g.t10, g.t20, g.t21, g.t30, g.t31, g.t32])
  | "d2.norm", [q, a, b] => some (intToHex (norm q a b))
  | "d2.bil", [q, a, b, c, d] => some (intToHex (bil q a b c d))
  | "d2.short", q :: l => do
      let (b, _) ← m2Of l
      pure (match shortBasis q b with | some r => showM2 r | none => "abort")
  | "d2.coef", [q, a0, a1, b0, b1, t0, t1] =>
      some (match coefOrth q a0 a1 b0 b1 t0 t1 with | some r => intToHex r | none => "abort")
  | "d2.cvp", q :: l => do
      let (b, l) ← m2Of l
      match l with
      | [t0, t1] =>
        pure (match closestVector q b ⟨t0, t1⟩ with
              | some r => intsToHex [r.tmc.x, r.tmc.y, r.coords.x, r.coords.y]
              | none => "abort")
      | _ => none
  | "d2.qf", q :: l => do
      let (b, _) ← m2Of l
      let r := qfOnLattice q b
      pure (intsToHex [r.1, r.2.1, r.2.2])
  | "d2.bound", [na, da, nb, db] =>
      some (match boundGen na da nb db with
            | none => "abort" | some none => "0" | some (some r) => "1 " ++ intToHex r)
  | "d2.contains", l => do
      let (b, l) ← m2Of l
      match l with
      | [c1, c2] => pure (match contains b c1 c2 with | some r => b01 r | none => "abort")
      | _ => none
  | "d2.bac", q :: x :: y :: t0 :: t1 :: l => do
      let (b, l) ← m2Of l
      match l with
      | [bound, p] =>
        pure (if p = 0 then "abort" else showFound (some (boundAndCondition (cvpCondition p) q x y ⟨t0, t1⟩ b bound)))
      | _ => none
  | "d2.enum", q :: t0 :: t1 :: l => do
      let (b, l) ← m2Of l
      match l with
      | [bound, mt, p] =>
        pure (if p = 0 then "abort" else showFound (enumerateShortVec (cvpCondition p) q ⟨t0, t1⟩ b bound mt.toNat))
      | _ => none
  | "d2.enumeq", q :: t0 :: t1 :: l => do
      let (b, l) ← m2Of l
      match l with
      | [bound, mt, v0, v1] =>
        pure (showFound (enumerateShortVec (eqCondition ⟨v0, v1⟩) q ⟨t0, t1⟩ b bound mt.toNat))
      | _ => none
  | "d2.filter", l => do
      let (b, l) ← m2Of l
      match l with
      | [t0, t1, qf, db, p, mt] =>
        pure (if p = 0 then "abort"
              else showFound (enumerateCvpFilter (cvpCondition p) b ⟨t0, t1⟩ qf.toNat db.toNat mt.toNat))
      | _ => none
  | "resp.model", p :: rl :: denom :: content :: l => do
      let (lll, l) ← matOf l
      let cands ← candsOf l
      let r := sampleResponse p rl.toNat denom content lll cands
      let bs := match respBounds p rl.toNat denom content lll with
        | some (fzi, bb) => toHex fzi ++ " " ++ intsToHex bb
        | none => "abort"
      -- the three conditions the C code only asserts (hypotheses of `sample_response_found_pos`), evaluated on this input:
      -- divisor positive, scalar division exact, 2*norm even for every candidate consumed
      let dg := div2 (denom * denom * content)
      let g := ((lll.transpose).mul (gramP p)).mul lll
      let gram := respGram p denom content lll
      let hyp := b01 (decide (0 < dg)) ++ b01 (g.scalarDiv dg).2 ++
        b01 ((cands.take r.count).all fun w => (gram.qfEval w) % 2 == 0) ++ b01 (lll.invWithDet.2 != 0)
      pure (showElem r.x ++ " " ++ b01 r.found ++ " " ++ toHex r.count ++ " | " ++ bs ++ " | " ++ hyp)
  | _, _ => none

def handle : List String → Option String
  | op :: args =>
    if op.startsWith "lll." || op.startsWith "d2." || op.startsWith "resp." then
      match parseInts? args with
      | some l => handleInts op l
      | none => none
    else none
  | _ => none

end SqiModel.Drv.Lll

import SqiModel.Util
import SqiModel.Quat
/- driver ops for the quaternion / lattice model (C14).  All integers in hex (optional leading '-').
   element = `denom c0 c1 c2 c3`; matrix = 16 entries row-major (`mat[i][j]`, as in C); lattice = `denom` + matrix;
   4x8 generator matrix = 32 entries row-major.
     q.xgcd a b                -> g s t
     q.add|q.sub A B           -> element          q.mul p A B -> element
     q.conj A | q.normalize A  -> element          q.eqden A B -> element element
     q.norm p A | q.trace A    -> num den          q.rmat p A  -> matrix
     m.mul A B -> matrix   m.inv A -> det adj(16)  m.eval A v -> vec   m.qf A v -> int   m.ishnf A -> 0/1   m.gcd A -> int (ibz_mat_4x4_gcd)
     h.core G(32) -> matrix      h.mod A m -> matrix
     l.add L1 L2 | l.inter L1 L2 | l.mul p L1 L2 | l.hnf L | l.reduce L | l.dual L  -> lattice
     l.equal L1 L2 -> 0/1    l.contains L x -> flag c0 c1 c2 c3    l.index Lsub Lover -> int -/
namespace SqiModel.Drv.Quat
open SqiModel SqiModel.Util SqiModel.Quat

def vecOf : List Int → Option (Vec4 × List Int)
  | a :: b :: c :: d :: r => some (⟨a, b, c, d⟩, r)
  | _ => none

def matOf (l : List Int) : Option (Mat4 × List Int) := do
  let (r0, l) ← vecOf l
  let (r1, l) ← vecOf l
  let (r2, l) ← vecOf l
  let (r3, l) ← vecOf l
  pure (⟨r0, r1, r2, r3⟩, l)

def elemOf : List Int → Option (Elem × List Int)
  | d :: l => do let (v, r) ← vecOf l; pure (⟨d, v⟩, r)
  | _ => none

def latOf : List Int → Option (Lattice × List Int)
  | d :: l => do let (m, r) ← matOf l; pure (⟨d, m⟩, r)
  | _ => none

def showVec (v : Vec4) : String := intsToHex v.toList
def showMat (m : Mat4) : String := intsToHex m.toList
def showElem (e : Elem) : String := intsToHex (e.denom :: e.coord.toList)
def showLat (l : Lattice) : String := intsToHex (l.denom :: l.basis.toList)
def showQ : Option (Int × Int) → String
  | some (n, d) => intsToHex [n, d]
  | none => "none"
def b01 (b : Bool) : String := if b then "1" else "0"

def cols8 (l : List Int) : Option (List Vec4) :=
  if l.length ≠ 32 then none
  else some ((List.range 8).map fun h =>
    (⟨l.getD h 0, l.getD (8 + h) 0, l.getD (16 + h) 0, l.getD (24 + h) 0⟩ : Vec4))

def handleInts : String → List Int → Option String
  | "q.xgcd", [a, b] => let r := xgcdGmp a b; some (intsToHex [r.1, r.2.1, r.2.2])
  | "q.rdiv", [a, b] => some (intToHex (roundedDiv a b))
  | "q.add", l => do let (a, l) ← elemOf l; let (b, _) ← elemOf l; pure (showElem (algAdd a b))
  | "q.sub", l => do let (a, l) ← elemOf l; let (b, _) ← elemOf l; pure (showElem (algSub a b))
  | "q.mul", p :: l => do let (a, l) ← elemOf l; let (b, _) ← elemOf l; pure (showElem (algMul p a b))
  | "q.conj", l => do let (a, _) ← elemOf l; pure (showElem (algConj a))
  | "q.normalize", l => do let (a, _) ← elemOf l; pure (showElem (algNormalize a))
  | "q.eqden", l => do
      let (a, l) ← elemOf l; let (b, _) ← elemOf l
      let r := equalDenom a b
      pure (showElem r.1 ++ " " ++ showElem r.2)
  | "q.norm", p :: l => do let (a, _) ← elemOf l; pure (showQ (algNorm p a))
  | "q.trace", l => do let (a, _) ← elemOf l; pure (showQ (algTrace a))
  | "q.rmat", p :: l => do let (a, _) ← elemOf l; pure (showMat (rightMulMat p a))
  | "q.o0basis", l => do let (a, _) ← elemOf l; pure (showVec (from1ijkToO0 a))
  | "m.mul", l => do let (a, l) ← matOf l; let (b, _) ← matOf l; pure (showMat (a.mul b))
  | "m.inv", l => do
      let (a, _) ← matOf l
      let r := a.invWithDet
      pure (if r.2 = 0 then "0" else intsToHex (r.2 :: r.1.toList))
  | "m.eval", l => do let (a, l) ← matOf l; let (v, _) ← vecOf l; pure (showVec (a.eval v))
  | "m.qf", l => do let (a, l) ← matOf l; let (v, _) ← vecOf l; pure (intToHex (a.qfEval v))
  | "m.ishnf", l => do let (a, _) ← matOf l; pure (b01 a.isHnf)
  | "m.gcd", l => do let (a, _) ← matOf l; pure (intToHex a.gcd)
  | "h.core", l => do let g ← cols8 l; pure (showMat (hnfCore g))
  | "h.mod", l => do
      let (a, l) ← matOf l
      match l with
      | [m] => pure (showMat (hnfMod a m))
      | _ => none
  | "l.add", l => do let (a, l) ← latOf l; let (b, _) ← latOf l; pure (showLat (latAdd a b))
  | "l.inter", l => do let (a, l) ← latOf l; let (b, _) ← latOf l; pure (showLat (latIntersect a b))
  | "l.mul", p :: l => do let (a, l) ← latOf l; let (b, _) ← latOf l; pure (showLat (latMul p a b))
  | "l.hnf", l => do let (a, _) ← latOf l; pure (showLat (latHnf a))
  | "l.reduce", l => do let (a, _) ← latOf l; pure (showLat (latReduceDenom a))
  | "l.dual", l => do let (a, _) ← latOf l; pure (showLat (latDualNoHnf a))
  | "l.equal", l => do let (a, l) ← latOf l; let (b, _) ← latOf l; pure (b01 (latEqual a b))
  | "l.contains", l => do
      let (a, l) ← latOf l; let (x, _) ← elemOf l
      let r := latContains a x
      pure (b01 r.1 ++ " " ++ showVec r.2)
  | "l.index", l => do let (a, l) ← latOf l; let (b, _) ← latOf l; pure (intToHex (latIndex a b))
  | _, _ => none

def handle : List String → Option String
  | op :: args =>
    if op.startsWith "q." || op.startsWith "m." || op.startsWith "h." || op.startsWith "l." then
      match parseInts? args with
      | some l => handleInts op l
      | none => none
    else none
  | _ => none

end SqiModel.Drv.Quat

import SqiModel.Util
import SqiModel.SigBook
import SqiModel.Drv.SignBook
/- sigbook.predict <8 params> bt v m00 m01 m10 m11 -> challlen pow n inrange kercol ordP ordQ chosenodd detok   (decimal) -/
namespace SqiModel.Drv.SigBook
open SqiModel.Util SqiModel.SignBook SqiModel.SigBook SqiModel.Drv.SignBook

def handle : List String → Option String
  | "sigbook.predict" :: args => do
      let (P, rest) ← params? (← parseNats? args)
      match rest with
      | [bt, v, a, b, c, d] =>
        let s : Sig := ⟨bt, v, a, b, c, d⟩
        pure s!"{challLen P s} {pow P s} {orderExp P} {b2s (inRange P s)} {chooseCol s} {b2s (ordPFull s)} {b2s (ordQFull s)} {b2s (chosenHasOdd s)} {b2s (detOk P s)}"
      | _ => none
  | _ => none

end SqiModel.Drv.SigBook

import SqiModel.Util
import SqiModel.SignBook
/- driver ops for the signer bookkeeping model (integers in hex, see SqiModel.Util):
     signbook.tav x                                  -> tavC x
     signbook.v2 x                                   -> v2 x
     signbook.dim2 f resp heur lc btb rows pbits sm bt v      -> bt v pow row dbl
     signbook.heur <params> v                        -> v pow a n row
     signbook.fixed <params> small ubits             -> small ubits length row dbl
     signbook.clap <params> expgcd                   -> expgcd exp row
     signbook.safe.dim2 <params> bt v                -> 1/0     (+ .heur v, .fixed small ubits)
   (results for .dim2/.heur/.fixed/.clap are printed in *decimal*, the format of the C trace lines) -/
namespace SqiModel.Drv.SignBook
open SqiModel.Util SqiModel.SignBook

def params? : List Nat → Option (Params × List Nat)
  | f :: r :: h :: lc :: btb :: rows :: pb :: sm :: rest => some (⟨f, r, h, lc, btb, rows, pb, sm⟩, rest)
  | _ => none

def b2s (b : Bool) : String := if b then "1" else "0"

def handle : List String → Option String
  | ["signbook.tav", x] => do let x ← parseHexNat? x; pure (toString (tavC x))
  | ["signbook.v2", x] => do let x ← parseHexNat? x; pure (toString (v2 x))
  | "signbook.dim2" :: args => do
      let (P, rest) ← params? (← parseNats? args)
      match rest with
      | [bt, v] => let b := dim2Book P bt v
                   pure s!"{bt} {v} {b.powDim2} {b.row} {b.dblBasis}"
      | _ => none
  | "signbook.heur" :: args => do
      let (P, rest) ← params? (← parseNats? args)
      match rest with
      | [v] => let b := heurBook P v
               pure s!"{v} {b.powDim2} {b.a} {b.n} {b.verifRow}"
      | _ => none
  | "signbook.fixed" :: args => do
      let (P, rest) ← params? (← parseNats? args)
      match rest with
      | [small, ubits] => let b := fixedDegBook P (small != 0) ubits
                          pure s!"{small} {ubits} {b.length} {b.row} {b.dbl}"
      | _ => none
  | "signbook.clap" :: args => do
      let (P, rest) ← params? (← parseNats? args)
      match rest with
      | [g] => pure s!"{g} {(P.f : Int) - g} {clapotisRow P g}"
      | _ => none
  | "signbook.safe.dim2" :: args => do
      let (P, rest) ← params? (← parseNats? args)
      match rest with
      | [bt, v] => pure (b2s (dim2Safe P bt v))
      | _ => none
  | "signbook.safe.heur" :: args => do
      let (P, rest) ← params? (← parseNats? args)
      match rest with
      | [v] => pure (b2s (heurSafe P v))
      | _ => none
  | "signbook.safe.fixed" :: args => do
      let (P, rest) ← params? (← parseNats? args)
      match rest with
      | [small, ubits] => pure (b2s (fixedDegSafe P (small != 0) ubits))
      | _ => none
  | _ => none

end SqiModel.Drv.SignBook

import SqiModel.Util
import SqiModel.SignBook
/- driver ops for the signer bookkeeping model (integers in hex, see SqiModel.Util):
     signbook.tav x                                  -> tavC x
     signbook.v2 x                                   -> v2 x
     signbook.dim2 f resp heur lc btb rows pbits sm bt v      -> bt v pow row dbl
     signbook.heur <params> v                        -> v pow a n row
     signbook.fixed <params> small ubits             -> small ubits length row dbl
     signbook.clap <params> expgcd                   -> expgcd exp row
     signbook.safe.dim2 <params> bt v                -> 1/0     (+ .heur v, .fixed small ubits)
     signbook.flow.dim2 <params> <17 shape flags> cu cf cv bt v ri au af av -> ok | fail | bad <site>
     signbook.flow.heur <params> <shape> cf rf v ri au af av ;  signbook.flow.hd <shape> cf rf ;
     signbook.flow.keygen <shape> checked (u a b)* ;  signbook.flow.fixed <params> <shape> small ubits ri
   (results for .dim2/.heur/.fixed/.clap are printed in *decimal*, the format of the C trace lines) -/
namespace SqiModel.Drv.SignBook
open SqiModel.Util SqiModel.SignBook

def params? : List Nat → Option (Params × List Nat)
  | f :: r :: h :: lc :: btb :: rows :: pb :: sm :: rest => some (⟨f, r, h, lc, btb, rows, pb, sm⟩, rest)
  | _ => none

def b2s (b : Bool) : String := if b then "1" else "0"

/-- 17 shape flags in the field order of `Shape` -/
def shape? : List Nat → Option (Shape × List Nat)
  | a :: b :: c :: d :: e :: f :: g :: h :: i :: j :: k :: l :: m :: n :: o :: p :: q :: rest =>
    some (⟨a != 0, b != 0, c != 0, d != 0, e != 0, f != 0, g != 0, h != 0, i != 0, j != 0, k != 0, l != 0, m != 0,
      n != 0, o != 0, p != 0, q != 0⟩, rest)
  | _ => none

def outcome : Outcome → String
  | .ok => "ok"
  | .fail => "fail"
  | .bad s => "bad " ++ s

def handle : List String → Option String
  | ["signbook.tav", x] => do let x ← parseHexNat? x; pure (toString (tavC x))
  | ["signbook.v2", x] => do let x ← parseHexNat? x; pure (toString (v2 x))
  | "signbook.dim2" :: args => do
      let (P, rest) ← params? (← parseNats? args)
      match rest with
      | [bt, v] => let b := dim2Book P bt v
                   pure s!"{bt} {v} {b.powDim2} {b.row} {b.dblBasis}"
      | _ => none
  | "signbook.heur" :: args => do
      let (P, rest) ← params? (← parseNats? args)
      match rest with
      | [v] => let b := heurBook P v
               pure s!"{v} {b.powDim2} {b.a} {b.n} {b.verifRow}"
      | _ => none
  | "signbook.fixed" :: args => do
      let (P, rest) ← params? (← parseNats? args)
      match rest with
      | [small, ubits] => let b := fixedDegBook P (small != 0) ubits
                          pure s!"{small} {ubits} {b.length} {b.row} {b.dbl}"
      | _ => none
  | "signbook.clap" :: args => do
      let (P, rest) ← params? (← parseNats? args)
      match rest with
      | [g] => pure s!"{g} {(P.f : Int) - g} {clapotisRow P g}"
      | _ => none
  | "signbook.safe.dim2" :: args => do
      let (P, rest) ← params? (← parseNats? args)
      match rest with
      | [bt, v] => pure (b2s (dim2Safe P bt v))
      | _ => none
  | "signbook.safe.heur" :: args => do
      let (P, rest) ← params? (← parseNats? args)
      match rest with
      | [v] => pure (b2s (heurSafe P v))
      | _ => none
  | "signbook.safe.fixed" :: args => do
      let (P, rest) ← params? (← parseNats? args)
      match rest with
      | [small, ubits] => pure (b2s (fixedDegSafe P (small != 0) ubits))
      | _ => none
  | "signbook.flow.dim2" :: args => do
      let (P, rest) ← params? (← parseNats? args)
      let (S, rest) ← shape? rest
      match rest with
      | [cu, cf, cv, bt, v, ri, au, af, av] =>
        pure (outcome (flowDim2 P S ⟨⟨cu, cf != 0, cv != 0⟩, bt, v, ri != 0, ⟨au, af != 0, av != 0⟩⟩))
      | _ => none
  | "signbook.flow.heur" :: args => do
      let (P, rest) ← params? (← parseNats? args)
      let (S, rest) ← shape? rest
      match rest with
      | [cf, rf, v, ri, au, af, av] =>
        pure (outcome (flowHeur P S ⟨cf != 0, rf != 0, v, ri != 0, ⟨au, af != 0, av != 0⟩⟩))
      | _ => none
  | "signbook.flow.fixed" :: args => do
      let (P, rest) ← params? (← parseNats? args)
      let (S, rest) ← shape? rest
      match rest with
      | [small, ub, ri] => pure (outcome (flowFixedDeg P S (small != 0) ub (ri != 0)))
      | _ => none
  | "signbook.flow.hd" :: args => do
      let (S, rest) ← shape? (← parseNats? args)
      match rest with
      | [cf, rf] => pure (outcome (flowHd S ⟨cf != 0, rf != 0⟩))
      | _ => none
  | "signbook.flow.keygen" :: args => do
      let (S, rest) ← shape? (← parseNats? args)
      match rest with
      | checked :: ts =>
        let rec tapes : List Nat → Option (List ClapTape)
          | [] => some []
          | u :: a :: b :: r => (tapes r).map (fun l => ⟨u, a != 0, b != 0⟩ :: l)
          | _ => none
        match flowKeygen S (checked != 0) (← tapes ts) with
        | some o => pure (outcome o)
        | none => pure "nonterminating"
      | _ => none
  | _ => none

end SqiModel.Drv.SignBook

import SqiModel.Util
import SqiModel.Strategy
/- driver ops for the strategy model:  `strat.check n x1 x2 ...` -> 1/0 -/
namespace SqiModel.Drv.Strategy
open SqiModel SqiModel.Util

def handle : List String → Option String
  | "strat.check" :: n :: row => do
      let n ← parseHexNat? n
      let r ← parseNats? row
      pure (if checkStrat n r then "1" else "0")
  | _ => none

end SqiModel.Drv.Strategy

import SqiModel.Util
import SqiModel.ThetaChain
import SqiGen.Tables1
import SqiGen.Tables3
import SqiGen.Tables5
import SqiModel.SkelTheta
import SqiModel.SkelRec
/- driver ops for the (2,2)-chain models:
     theta.trace <lvl> <row> <n> <ea> <which>   -> hook-visible trace of theta_chain_comput_strategy (which=0) /
                                                   _faster_no_eval (which=1) on strategies[row]; "… E" on a fault
     theta.trace.row <n> <ea> <which> x1 x2 …   -> same on an explicit strategy array
     theta.summary.row <n> <ea> x1 x2 …         -> "<err?> <index> <#steps>"
     skel.rec <lo> <hi>                         -> number of n in [lo,hi) where the translated recursion and `balanced n` disagree
     theta.bal <n>                              -> trace of the balanced recursion inside theta_chain_comput_balanced -/
namespace SqiModel.Drv.ThetaChain
open SqiModel SqiModel.Util SqiModel.ThetaChain

def tableOf : Nat → Option (List (List Nat))
  | 1 => some SqiGen.L1.strategies
  | 3 => some SqiGen.L3.strategies
  | 5 => some SqiGen.L5.strategies
  | _ => none

def traceInts (s : St) : String :=
  let body := intsToHex ((s.trace.filterMap Ev.ints).flatten)
  if s.err.isSome then body ++ " E" else body

def handle : List String → Option String
  | ["theta.trace", l, r, n, ea, _] => do
      let l ← parseHexNat? l
      let r ← parseHexNat? r
      let n ← parseHexNat? n
      let ea ← parseHexNat? ea
      let tab ← tableOf l
      let row ← tab[r]?
      pure (traceInts (chain { row := row, n := n, eightAbove := ea != 0 }))
  | ["theta.summary", l, r, n, ea] => do
      let l ← parseHexNat? l
      let r ← parseHexNat? r
      let n ← parseHexNat? n
      let ea ← parseHexNat? ea
      let tab ← tableOf l
      let row ← tab[r]?
      let s := chain { row := row, n := n, eightAbove := ea != 0 }
      pure s!"{if s.err.isSome then 1 else 0} {toHex s.index} {toHex ((s.trace.map Ev.steps).sum)}"
  | ["skel.theta", l, r, n, ea, w] => do  -- generated integer skeleton (from the C text) vs hand model, same run
      let l ← parseHexNat? l
      let r ← parseHexNat? r
      let n ← parseHexNat? n
      let ea ← parseHexNat? ea
      let w ← parseHexNat? w
      let tab ← tableOf l
      let row ← tab[r]?
      let a := SqiModel.SkelTheta.skelSummary w row n (ea != 0) 2048
      let b := SqiModel.SkelTheta.modelSummary row n (ea != 0)
      pure (if a == b then s!"1 {if a.1 then 1 else 0} {a.2.2.2.2.1.length}" else s!"0 skel={repr a} model={repr b}")
  | "theta.trace.row" :: n :: ea :: _ :: xs => do
      let n ← parseHexNat? n
      let ea ← parseHexNat? ea
      let row ← parseNats? xs
      pure (traceInts (chain { row := row, n := n, eightAbove := ea != 0 }))
  | "theta.summary.row" :: n :: ea :: xs => do
      let n ← parseHexNat? n
      let ea ← parseHexNat? ea
      let row ← parseNats? xs
      let s := chain { row := row, n := n, eightAbove := ea != 0 }
      pure s!"{if s.err.isSome then 1 else 0} {toHex s.index} {toHex ((s.trace.map Ev.steps).sum)}"
  | ["skel.rec", lo, hi] => do  -- generated skeleton of theta_chain_comput_rec vs hand model `balanced`, lo ≤ n < hi
      let lo ← parseHexNat? lo
      let hi ← parseHexNat? hi
      let bad := (List.range (hi - lo)).filter (fun k => !SqiModel.SkelRec.balAgree (lo + k))
      pure s!"{bad.length} {hi - lo}" 
  | ["theta.bal", n] => do
      let n ← parseHexNat? n
      let (evs, _) := balanced n
      let body := intsToHex ([33, (n : Int), (balancedCap n : Int), 0] ++ (evs.filterMap BEv.ints).flatten)
      pure (if evs.any (fun e => match e with | .oob .. => true | _ => false) then body ++ " E" else body)
  | _ => none

end SqiModel.Drv.ThetaChain

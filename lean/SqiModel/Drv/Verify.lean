import SqiModel.Util
import SqiModel.VerifyLevels
import SqiModel.VerifyDecision
import SqiGen.VerifGuard
/- driver ops for the verifier models (C03 / C02). Integers in hex (optional '-'), booleans 0/1.
   verif.acc <dim2|heur> <lvl> <gen|none> <pk: c a h0 h1> <sig fields>
       -> guard=<0|1> inrange=<0|1> safe=<0|1> bad=<first out-of-bounds access | ->
   verif.dec <dim2|heur> <lvl> <gen|none> <gen|0|1> <pk: c a h0 h1> <sig fields> <oracle fields>
       -> v=<0|1> stage=<0..4>
   verif.checks -> which validity checks the translator found in the C text; nist = per entry point of src/sqisign.c:
                   1 stub returning non-zero, 0 stub returning 0, w wired to real code
   sig fields  dim2: c a bt trl m00 m01 m10 m11 chall challB ha0 ha1 hc0 hc1      oracle: ker o1 o2 o3 o4 o5 o6 split h
               heur: c a trl ha0 ha1 x hintB b0 d0 b1 d1 c0 e0                      oracle: ker o1 o2 o3 o4 o5 o6 split h h2 -/
namespace SqiModel.Drv.Verify
open SqiModel SqiModel.Util SqiModel.Verify

def bool? : String → Option Bool
  | "0" => some false | "1" => some true | _ => none

def b2s (b : Bool) : String := if b then "1" else "0"

def expectedOrder (e : String) : List (String × String × String × String) :=
  [("T1", "P1", "E1", e), ("T2", "P1", "E1", e), ("T1m2", "P1", "E1", e),
   ("T1", "P2", "E2", e), ("T2", "P2", "E2", e), ("T1m2", "P2", "E2", e)]

/-- the validity checks found in the current C text (translator output) -/
def checksNowDim2 : Bool :=
  SqiGen.VerifGuard.dim2OrderChecks == expectedOrder "pow_dim2_deg_resp+2" &&
  SqiGen.VerifGuard.dim2KerCheck && SqiGen.VerifGuard.dim2ChainCheck
def checksNowHeur : Bool :=
  SqiGen.VerifGuard.heurOrderChecks == expectedOrder "pow_dim2_deg_resp" &&
  SqiGen.VerifGuard.heurKerCheck && SqiGen.VerifGuard.heurChainCheck

def pk? : List String → Option RawPk
  | [c, a, h0, h1] => do pure ⟨← bool? c, ← bool? a, ← parseHexInt? h0, ← parseHexInt? h1⟩
  | _ => none

def sigD? : List String → Option RawSig
  | [c, a, bt, trl, m00, m01, m10, m11, ch, cb, ha0, ha1, hc0, hc1] => do
      pure ⟨← bool? c, ← bool? a, ← parseHexInt? bt, ← parseHexInt? trl, ← parseHexInt? m00, ← parseHexInt? m01,
            ← parseHexInt? m10, ← parseHexInt? m11, ← parseHexInt? ch, ← parseHexInt? cb, ← parseHexInt? ha0,
            ← parseHexInt? ha1, ← parseHexInt? hc0, ← parseHexInt? hc1⟩
  | _ => none

def sigH? : List String → Option RawSigH
  | [c, a, trl, ha0, ha1, x, hb, b0, d0, b1, d1, c0, e0] => do
      pure ⟨← bool? c, ← bool? a, ← parseHexInt? trl, ← parseHexInt? ha0, ← parseHexInt? ha1, ← parseHexInt? x,
            ← parseHexInt? hb, ← parseHexInt? b0, ← parseHexInt? d0, ← parseHexInt? b1, ← parseHexInt? d1,
            ← parseHexInt? c0, ← parseHexInt? e0⟩
  | _ => none

def orD? : List String → Option OracleDim2
  | [k, o1, o2, o3, o4, o5, o6, sp, h] => do
      pure ⟨← bool? k, ← bool? o1, ← bool? o2, ← bool? o3, ← bool? o4, ← bool? o5, ← bool? o6, ← bool? sp, ← parseHexInt? h⟩
  | _ => none

def orH? : List String → Option OracleHeur
  | [k, o1, o2, o3, o4, o5, o6, sp, h, h2] => do
      pure ⟨← bool? k, ← bool? o1, ← bool? o2, ← bool? o3, ← bool? o4, ← bool? o5, ← bool? o6, ← bool? sp,
            ← parseHexInt? h, ← parseHexInt? h2⟩
  | _ => none

def lvl? (s : String) : Option Lvl := do lvlOf (← s.toNat?)

def accLine (g inr : Bool) (l : List Access) : String :=
  let bad := match firstBad l with
    | some a => a.what.replace " " "_"
    | none => "-"
  s!"guard={b2s g} inrange={b2s inr} safe={b2s (allOk l)} bad={bad}"

def handle : List String → Option String
  | "verif.checks" :: [] =>
      let nist := String.join (SqiGen.VerifGuard.nistApi.map fun e => if e.2.1 then b2s (decide (e.2.2 ≠ 0)) else "w")
      some s!"dim2={b2s checksNowDim2} heur={b2s checksNowHeur} guardDim2={b2s SqiGen.VerifGuard.dim2Present} guardHeur={b2s SqiGen.VerifGuard.heurPresent} nist={nist}"
  | "verif.acc" :: "dim2" :: lv :: gm :: rest => do
      let K ← lvl? lv
      let pk ← pk? (rest.take 4)
      let s ← sigD? (rest.drop 4)
      let guard ← (match gm with | "gen" => some SqiGen.VerifGuard.dim2 | "none" => some noGuardDim2 | _ => none)
      pure (accLine (guard K pk s) (sigInRangeDim2 K pk s) (verifyAccessesDim2 K guard pk s))
  | "verif.acc" :: "heur" :: lv :: gm :: rest => do
      let K ← lvl? lv
      let pk ← pk? (rest.take 4)
      let s ← sigH? (rest.drop 4)
      let guard ← (match gm with | "gen" => some SqiGen.VerifGuard.heur | "none" => some noGuardHeur | _ => none)
      pure (accLine (guard K pk s) (sigInRangeHeur K pk s) (verifyAccessesHeur K guard pk s))
  | "verif.dec" :: "dim2" :: lv :: gm :: cm :: rest => do
      let K ← lvl? lv
      let pk ← pk? (rest.take 4)
      let s ← sigD? ((rest.drop 4).take 14)
      let o ← orD? (rest.drop 18)
      let guard ← (match gm with | "gen" => some SqiGen.VerifGuard.dim2 | "none" => some noGuardDim2 | _ => none)
      let checks ← (match cm with | "gen" => some checksNowDim2 | "0" => some false | "1" => some true | _ => none)
      pure s!"v={b2s (verifyDim2 guard checks K pk s o)} stage={stageDim2 guard checks K pk s o}"
  | "verif.dec" :: "heur" :: lv :: gm :: cm :: rest => do
      let K ← lvl? lv
      let pk ← pk? (rest.take 4)
      let s ← sigH? ((rest.drop 4).take 13)
      let o ← orH? (rest.drop 17)
      let guard ← (match gm with | "gen" => some SqiGen.VerifGuard.heur | "none" => some noGuardHeur | _ => none)
      let checks ← (match cm with | "gen" => some checksNowHeur | "0" => some false | "1" => some true | _ => none)
      pure s!"v={b2s (verifyHeur guard checks K pk s o)} stage={stageHeur guard checks K pk s o}"
  | _ => none

end SqiModel.Drv.Verify

/-
Interpreter for the fiat-crypto straight-line functions of the ref back-end (tie T: the programs in
`SqiGen.Fiat{1,3,5}` are re-extracted from fp_p5248.c / fp_p65376.c / fp_p27500.c on every run by
tools/translate/fiat.py).  Core-only; linked into the driver.

Semantics = the C semantics of the fiat helper functions on `uint64_t` words:
  mulx lo hi a b   : (lo, hi) ← low / high word of a·b
  adc o c cin a b  : s = cin + a + b;  o ← s mod 2^64, c ← s / 2^64
  sbb o c cin a b  : o ← (a − cin − b) mod 2^64, c ← 1 if a < cin + b else 0
  cmov o c a b     : o ← if c ≠ 0 then b else a
  mov o bits e     : o ← e mod 2^bits          (bits = width of the C variable: 64, 8 or 1)
  out i e          : out1[i] ← e
Operands are evaluated modulo 2^64 (`+`, `<<` wrap).
-/
namespace SqiModel.Fiat

def W : Nat := 2 ^ 64

inductive Opnd where
  | reg (n : Nat)
  | arg (k i : Nat)
  | lit (v : Nat)
  | add (a b : Opnd)
  | and (a b : Opnd)
  | or (a b : Opnd)
  | shl (a : Opnd) (k : Nat)
  | shr (a : Opnd) (k : Nat)
deriving Repr

inductive Instr where
  | mulx (lo hi : Nat) (a b : Opnd)
  | adc (o c : Nat) (cin a b : Opnd)
  | sbb (o c : Nat) (cin a b : Opnd)
  | cmov (o : Nat) (c a b : Opnd)
  | mov (o bits : Nat) (e : Opnd)
  | out (i : Nat) (e : Opnd)
deriving Repr

structure Prog where
  nout : Nat
  code : List Instr

/-- machine state: registers and outputs as association lists (latest binding first), inputs fixed -/
structure St where
  regs : List (Nat × Nat)
  outs : List (Nat × Nat)

def lookup (k : Nat) : List (Nat × Nat) → Nat
  | [] => 0
  | (k', v) :: r => if k' = k then v else lookup k r

def argv (args : List (List Nat)) (k i : Nat) : Nat := ((args.getD (k - 1) []).getD i 0) % W

def eval (args : List (List Nat)) (regs : List (Nat × Nat)) : Opnd → Nat
  | .reg n => lookup n regs
  | .arg k i => argv args k i
  | .lit v => v % W
  | .add a b => (eval args regs a + eval args regs b) % W
  | .and a b => eval args regs a &&& eval args regs b
  | .or a b => eval args regs a ||| eval args regs b
  | .shl a k => (eval args regs a * 2 ^ k) % W
  | .shr a k => eval args regs a / 2 ^ k

def step (args : List (List Nat)) (s : St) : Instr → St
  | .mulx lo hi a b =>
      let p := eval args s.regs a * eval args s.regs b
      { s with regs := (hi, p / W) :: (lo, p % W) :: s.regs }
  | .adc o c cin a b =>
      let t := eval args s.regs cin + eval args s.regs a + eval args s.regs b
      { s with regs := (c, t / W) :: (o, t % W) :: s.regs }
  | .sbb o c cin a b =>
      let x := eval args s.regs a
      let y := eval args s.regs cin + eval args s.regs b
      { s with regs := (c, if x < y then 1 else 0) :: (o, (x + 2 * W - y) % W) :: s.regs }
  | .cmov o c a b =>
      { s with regs := (o, if eval args s.regs c = 0 then eval args s.regs a else eval args s.regs b) :: s.regs }
  | .mov o bits e => { s with regs := (o, eval args s.regs e % 2 ^ bits) :: s.regs }
  | .out i e => { s with outs := (i, eval args s.regs e) :: s.outs }

/-- run a program on the input arrays `args` (argK = `args[K-1]`); result = `out1[0..nout-1]` -/
def run (p : Prog) (args : List (List Nat)) : List Nat :=
  let s := p.code.foldl (step args) ⟨[], []⟩
  (List.range p.nout).map (fun i => lookup i s.outs)

/-- little-endian value of a list of digits in base `b` -/
def evalBase (b : Nat) : List Nat → Nat
  | [] => 0
  | x :: xs => x + b * evalBase b xs

def digits (b : Nat) : Nat → Nat → List Nat
  | 0, _ => []
  | n + 1, x => x % b :: digits b n (x / b)

/-- a program on `n`-limb field elements given as integers -/
def runLimbs (p : Prog) (n : Nat) (xs : List Nat) : Nat :=
  evalBase W (run p (xs.map (digits W n)))

end SqiModel.Fiat

/-
FIPS 202 (SHA-3 standard) — executable specification at lane level (core-only Lean).

State: 25 lanes of 64 bits, lane (x, y) stored at index x + 5y (FIPS 202 §3.1.2 with w = 64:
A[x, y, z] = S[64(5y + x) + z]); bit z of a lane is bit z of the `UInt64` (least significant = z = 0),
byte k of the byte string is bits 8k … 8k+7 (FIPS 202 B.1: little-endian bit order in bytes).

* step mappings θ ρ π χ ι (Algorithms 1–4, 6), round constants from the LFSR `rc(t)` (Algorithm 5),
  rotation offsets from the `(t+1)(t+2)/2` walk of Algorithm 2 — nothing is tabulated here;
* `pad10*1` (Algorithm 9) at bit level and the byte-level padding it induces;
* the sponge construction (Algorithm 8) with rate r bytes, SHAKE128 / SHAKE256 (§6.2: M ‖ 1111).
-/
namespace SqiModel.Fips202

abbrev State := Vector UInt64 25

/-- lane A[x mod 5, y mod 5] -/
@[inline] def lane (s : State) (x y : Nat) : UInt64 := s[x % 5 + 5 * (y % 5)]'(by omega)

/-- rotation of a lane by n bit positions towards higher z:  (rotl a n)[z] = a[(z − n) mod 64] -/
@[inline] def rotl (a : UInt64) (n : Nat) : UInt64 :=
  (a <<< (n % 64).toUInt64) ||| (a >>> ((64 - n % 64) % 64).toUInt64)

/-- the state whose lane with index i = x + 5y is `g i` -/
def mk25 (g : Nat → UInt64) : State :=
  #v[g 0, g 1, g 2, g 3, g 4, g 5, g 6, g 7, g 8, g 9, g 10, g 11, g 12, g 13, g 14, g 15, g 16, g 17, g 18, g 19,
    g 20, g 21, g 22, g 23, g 24]

/-! ### θ (Algorithm 1) -/
def thetaC (s : State) (x : Nat) : UInt64 :=
  lane s x 0 ^^^ lane s x 1 ^^^ lane s x 2 ^^^ lane s x 3 ^^^ lane s x 4
def thetaD (s : State) (x : Nat) : UInt64 := thetaC s (x + 4) ^^^ rotl (thetaC s (x + 1)) 1
def theta (s : State) : State := mk25 fun i => lane s (i % 5) (i / 5) ^^^ thetaD s (i % 5)

/-! ### ρ (Algorithm 2): offsets (t+1)(t+2)/2 along the walk (x,y) ← (y, 2x+3y) from (1,0) -/
def rhoWalk : Nat → Nat × Nat → List Nat → List Nat
  | 0, _, tbl => tbl
  | n + 1, (x, y), tbl =>
      let t := 23 - n
      rhoWalk n (y, (2 * x + 3 * y) % 5) (tbl.set (x + 5 * y) ((t + 1) * (t + 2) / 2))
/-- offset of lane index i = x + 5y (not yet reduced mod 64) -/
def rhoTable : List Nat := rhoWalk 24 (1, 0) (List.replicate 25 0)
def rhoOffset (i : Nat) : Nat := rhoTable.getD i 0
def rho (s : State) : State := mk25 fun i => rotl (lane s (i % 5) (i / 5)) (rhoOffset i)

/-! ### π (Algorithm 3): A′[x, y] = A[(x + 3y) mod 5, x] -/
def pi (s : State) : State := mk25 fun i => lane s (i % 5 + 3 * (i / 5)) (i % 5)

/-! ### χ (Algorithm 4): A′[x,y] = A[x,y] ⊕ (¬A[x+1,y] ∧ A[x+2,y]) -/
def chi (s : State) : State :=
  mk25 fun i => lane s (i % 5) (i / 5) ^^^ (~~~ lane s (i % 5 + 1) (i / 5) &&& lane s (i % 5 + 2) (i / 5))

/-! ### rc(t) (Algorithm 5) and ι (Algorithm 6) -/
/-- one step of the LFSR on R = R[0..7]:  R = 0 ‖ R; R[0]^=R[8]; R[4]^=R[8]; R[5]^=R[8]; R[6]^=R[8]; Trunc8 -/
def lfsrStep (R : List Bool) : List Bool :=
  let R := false :: R
  let r8 := R.getD 8 false
  let R := R.set 0 (R.getD 0 false != r8)
  let R := R.set 4 (R.getD 4 false != r8)
  let R := R.set 5 (R.getD 5 false != r8)
  let R := R.set 6 (R.getD 6 false != r8)
  R.take 8
def lfsrIter : Nat → List Bool → List Bool
  | 0, R => R
  | n + 1, R => lfsrIter n (lfsrStep R)
def rc (t : Nat) : Bool :=
  if t % 255 = 0 then true
  else (lfsrIter (t % 255) [true, false, false, false, false, false, false, false]).getD 0 false
/-- RC for round index ir: RC[2^j − 1] = rc(j + 7 ir), j = 0..6 -/
def roundConstant (ir : Nat) : UInt64 :=
  (List.range 7).foldl (fun acc j => if rc (j + 7 * ir) then acc ||| ((1 : UInt64) <<< (2 ^ j - 1).toUInt64) else acc) 0
def iota (c : UInt64) (s : State) : State := s.set 0 (s[0] ^^^ c)

/-- Rnd(A, ir) = ι(χ(π(ρ(θ(A)))), ir), with the round constant passed explicitly -/
def roundWith (c : UInt64) (s : State) : State := iota c (chi (pi (rho (theta s))))
def round (ir : Nat) (s : State) : State := roundWith (roundConstant ir) s

/-- Keccak-p[1600, 24] = Keccak-f[1600]: rounds ir = 0 … 23 -/
def keccakF (s : State) : State := (List.range 24).foldl (fun s ir => round ir s) s

/-! ### bytes ↔ lanes -/
/-- little-endian load of 8 bytes: byte i of the string occupies bits 8i … 8i+7 of the lane -/
def le64 (bs : List UInt8) : UInt64 :=
  (List.range 8).foldl (fun r i => r ||| ((bs.getD i 0).toUInt64 <<< (8 * i).toUInt64)) 0
/-- byte k (0..7) of a lane -/
@[inline] def laneByte (l : UInt64) (k : Nat) : UInt8 := (l >>> (8 * k).toUInt64).toUInt8
/-- byte i (0..199) of the state string -/
@[inline] def stateByte (s : State) (i : Nat) : UInt8 := laneByte (s.getD (i / 8) 0) (i % 8)

/-- S ← S ⊕ (P ‖ 0^c) for a block P of r bytes (8 ∣ r, r ≤ 200): lane i gets the i-th 8-byte word of P -/
def xorBlock (s : State) (blk : List UInt8) : State :=
  mk25 fun i => if 8 * i < blk.length then s.getD i 0 ^^^ le64 (blk.drop (8 * i)) else s.getD i 0

/-! ### pad10*1 (Algorithm 9) and the SHAKE suffix -/
/-- pad10*1(x, m) = 1 ‖ 0^j ‖ 1, j = (−m − 2) mod x -/
def pad101 (x m : Nat) : List Bool := true :: (List.replicate ((x - (m + 2) % x) % x) false ++ [true])
/-- bits of a byte, least significant first (FIPS 202 B.1) -/
def byteBits (b : UInt8) : List Bool := (List.range 8).map fun k => (b >>> k.toUInt8) &&& 1 == 1
def bytesBits (bs : List UInt8) : List Bool := bs.flatMap byteBits
def bitsByte (bits : List Bool) : UInt8 :=
  (bits.take 8).foldr (fun b acc => (acc <<< 1) ||| (if b then 1 else 0)) 0
def bitsBytes : Nat → List Bool → List UInt8
  | 0, _ => []
  | n + 1, bits => bitsByte bits :: bitsBytes n (bits.drop 8)
/-- SHAKE: message bits ‖ 1111 ‖ pad10*1(8r, ·), as a bit string -/
def shakePaddedBits (r : Nat) (msg : List UInt8) : List Bool :=
  let m := bytesBits msg ++ [true, true, true, true]
  m ++ pad101 (8 * r) m.length

/-- the same padding at byte level: domain byte d (0x1F for SHAKE: suffix 1111 then the first pad bit),
    zero bytes, and 0x80 merged into the last byte of the block -/
def padBytes (r : Nat) (d : UInt8) (mlen : Nat) : List UInt8 :=
  let q := r - 1 - mlen % r
  if q = 0 then [d ||| 0x80] else d :: (List.replicate (q - 1) 0 ++ [0x80])

/-! ### sponge (Algorithm 8), rate r bytes, on byte strings -/
/-- absorb the blocks of an already padded string: S ← f(S ⊕ (P_i ‖ 0^c)) -/
def absorbBlocks (f : State → State) (r : Nat) : Nat → State → List UInt8 → State
  | 0, s, _ => s
  | n + 1, s, p => absorbBlocks f r n (f (xorBlock s (p.take r))) (p.drop r)

/-- first r bytes of the state string -/
def truncR (r : Nat) (s : State) : List UInt8 := (List.range r).map (stateByte s)

/-- Z ← Trunc_r(S); while |Z| < d: S ← f(S), Z ← Z ‖ Trunc_r(S).  `nblk` blocks are produced. -/
def squeezeBlocks (f : State → State) (r : Nat) : Nat → State → List UInt8
  | 0, _ => []
  | n + 1, s => truncR r s ++ squeezeBlocks f r n (f s)

def zeroState : State := Vector.replicate 25 0

/-- SPONGE[f, pad10*1, r](N, d) on byte strings, with domain byte `dom`; `f` is a parameter so that the
    same definition is used with the specification permutation and with the generated one -/
def spongeWith (f : State → State) (r : Nat) (dom : UInt8) (msg : List UInt8) (outlen : Nat) : List UInt8 :=
  let p := msg ++ padBytes r dom msg.length
  let s := absorbBlocks f r (p.length / r) zeroState p
  (squeezeBlocks f r ((outlen + r - 1) / r) s).take outlen

def sponge (r : Nat) (dom : UInt8) (msg : List UInt8) (outlen : Nat) : List UInt8 :=
  spongeWith keccakF r dom msg outlen

/-- SHAKE128(M, d) = KECCAK[256](M ‖ 1111, d): rate 1600 − 256 bits = 168 bytes -/
def shake128 (msg : List UInt8) (outlen : Nat) : List UInt8 := sponge 168 0x1F msg outlen
/-- SHAKE256(M, d) = KECCAK[512](M ‖ 1111, d): rate 1600 − 512 bits = 136 bytes -/
def shake256 (msg : List UInt8) (outlen : Nat) : List UInt8 := sponge 136 0x1F msg outlen

end SqiModel.Fips202

/- Executable GF(p²) = GF(p)[i]/(i²+1) over `Nat` residues (core Lean only), used to *run* the generated
   definitions (SqiGen.*) and the hand ladder models in the model driver. Elements are kept reduced.
   `Fp2.sqrt` mirrors src/gf/ref/gfx/fp2.c:fp2_sqrt (including its sign convention and the ref back-end's
   `fp_is_square(0) = 0`); it is itself checked against the C function by the correspondence harness
   (op `fp2.sqrt`). No theorem depends on this file: it only serves tie H / the translator check. -/
namespace SqiModel

def powMod (b e m : Nat) : Nat :=
  if h : e = 0 then 1 % m
  else
    let h2 := powMod (b * b % m) (e / 2) m
    if e % 2 = 1 then b * h2 % m else h2
termination_by e
decreasing_by omega

structure Fp2 (p : Nat) where
  re : Nat
  im : Nat
deriving DecidableEq, Repr

namespace Fp2
variable {p : Nat}

def mk' (p a b : Nat) : Fp2 p := ⟨a % p, b % p⟩
def fsub (p a b : Nat) : Nat := (a + (p - b % p)) % p
def fneg (p a : Nat) : Nat := (p - a % p) % p
def finv (p a : Nat) : Nat := powMod a (p - 2) p
/-- fp_sqrt: a^((p+1)/4), negated when the canonical representative is odd -/
def fsqrt (p a : Nat) : Nat :=
  let r := powMod a ((p + 1) / 4) p
  if r % 2 = 1 then fneg p r else r
/-- fp_is_square of the ref back-end: a^((p-1)/2) = 1 (so 0 is reported as a non-square) -/
def fisSquare (p a : Nat) : Bool := powMod a ((p - 1) / 2) p == 1 % p

instance : Add (Fp2 p) := ⟨fun a b => ⟨(a.re + b.re) % p, (a.im + b.im) % p⟩⟩
instance : Sub (Fp2 p) := ⟨fun a b => ⟨fsub p a.re b.re, fsub p a.im b.im⟩⟩
instance : Neg (Fp2 p) := ⟨fun a => ⟨fneg p a.re, fneg p a.im⟩⟩
instance : Mul (Fp2 p) := ⟨fun a b => ⟨fsub p (a.re * b.re % p) (a.im * b.im % p), (a.re * b.im + a.im * b.re) % p⟩⟩
instance : Zero (Fp2 p) := ⟨⟨0, 0⟩⟩
instance : One (Fp2 p) := ⟨⟨1 % p, 0⟩⟩
instance : NatCast (Fp2 p) := ⟨fun n => ⟨n % p, 0⟩⟩
/-- fp2_inv: conj(a)/norm(a) with the GF(p) inverse n^(p-2) (0 ↦ 0, as in C) -/
instance : Inv (Fp2 p) := ⟨fun a =>
  let n := (a.re * a.re + a.im * a.im) % p
  let ni := finv p n
  ⟨a.re * ni % p, fneg p a.im * ni % p⟩⟩

/-- mirror of fp2_sqrt (gf/ref/gfx/fp2.c) -/
def sqrt (x : Fp2 p) : Fp2 p :=
  let delta := fsqrt p ((x.re * x.re + x.im * x.im) % p)
  let inv2 := finv p (2 % p)
  let y0 := (x.re + delta) % p * inv2 % p
  let x1z := x.im == 0
  let y0 := if x1z then x.re else y0
  let nqr := !(fisSquare p y0)
  let y0 := if nqr && x1z then fneg p y0 else y0
  let y0 := if nqr && !x1z then fsub p y0 delta else y0
  let y0 := fsqrt p y0
  let y1 := x.im * finv p ((y0 + y0) % p) % p
  let (y0, y1) := if nqr && x1z then (y1, y0) else (y0, y1)
  let neg := (y0 % 2 == 1) || (y0 == 0 && y1 % 2 == 1)
  if neg then ⟨fneg p y0, fneg p y1⟩ else ⟨y0, y1⟩

def isSquare (x : Fp2 p) : Bool := fisSquare p ((x.re * x.re + x.im * x.im) % p)

end Fp2

def levelPrime : Nat → Option Nat
  | 1 => some (5 * 2 ^ 248 - 1)
  | 3 => some (65 * 2 ^ 376 - 1)
  | 5 => some (27 * 2 ^ 500 - 1)
  | _ => none

end SqiModel

/- Value-level GF(p^2) = Fp[i]/(i^2+1) on pairs of naturals (executable, core-only); used for kernel
   evaluation of table facts (orders of the precomputed torsion bases, non-residue tables). -/
namespace SqiModel.Fp2N

abbrev E := Nat × Nat

def add (p : Nat) (a b : E) : E := ((a.1 + b.1) % p, (a.2 + b.2) % p)
def sub (p : Nat) (a b : E) : E := ((a.1 + (p - b.1 % p)) % p, (a.2 + (p - b.2 % p)) % p)
def mul (p : Nat) (a b : E) : E :=
  ((a.1 * b.1 + (p - (a.2 * b.2) % p)) % p, (a.1 * b.2 + a.2 * b.1) % p)
def sqr (p : Nat) (a : E) : E := mul p a a
def isZero (p : Nat) (a : E) : Bool := a.1 % p == 0 && a.2 % p == 0
def norm (p : Nat) (a : E) : Nat := (a.1 * a.1 + a.2 * a.2) % p

/-- modular exponentiation by repeated squaring (fuel = number of bits) -/
def powMod (p : Nat) : Nat → Nat → Nat → Nat → Nat
  | 0, _, _, acc => acc
  | fuel + 1, b, e, acc =>
    if e = 0 then acc
    else powMod p fuel (b * b % p) (e / 2) (if e % 2 = 1 then acc * b % p else acc)

/-- Euler criterion in GF(p): a is a non-zero square -/
def isSquareFp (p a : Nat) : Bool := powMod p (p.log2 + 1) (a % p) ((p - 1) / 2) 1 == 1

/-- x ∈ GF(p^2), p ≡ 3 mod 4: x is a square iff its norm is a square in GF(p) (0 counts as a square) -/
def isSquare (p : Nat) (a : E) : Bool := isZero p a || isSquareFp p (norm p a)

/-- x-only doubling on the Montgomery curve (A : C), formula of `xDBL` in ec.c -/
def xDBL (p : Nat) (A C : E) (P : E × E) : E × E :=
  let X := P.1; let Z := P.2
  let t0 := add p X Z
  let t0 := sqr p t0
  let t1 := sub p X Z
  let t1 := sqr p t1
  let t2 := sub p t0 t1
  let t3 := add p C C
  let t1 := mul p t1 t3
  let t1 := add p t1 t1
  let Qx := mul p t0 t1
  let t0 := add p t3 A
  let t0 := mul p t0 t2
  let t0 := add p t0 t1
  let Qz := mul p t0 t2
  (Qx, Qz)

def xDBLiter (p : Nat) (A C : E) : Nat → E × E → E × E
  | 0, P => P
  | n + 1, P => xDBLiter p A C n (xDBL p A C P)

/-- projective equality of x-coordinates -/
def projEq (p : Nat) (P Q : E × E) : Bool :=
  mul p P.1 Q.2 == mul p Q.1 P.2

/-- P has exact order 2^f: [2^(f-1)]P ≠ ∞ and [2^f]P = ∞ -/
def exactOrder2f (p : Nat) (A C : E) (f : Nat) (P : E × E) : Bool :=
  let T := xDBLiter p A C (f - 1) P
  !(isZero p T.2) && isZero p (xDBL p A C T).2


/-- differential addition x(P+Q) from x(P), x(Q), x(P−Q) (formula of `xADD` in ec.c) -/
def xADD (p : Nat) (P Q D : E × E) : E × E :=
  let t0 := add p P.1 P.2
  let t1 := sub p P.1 P.2
  let t2 := add p Q.1 Q.2
  let t3 := sub p Q.1 Q.2
  let t0 := mul p t0 t3
  let t1 := mul p t1 t2
  let t2 := add p t0 t1
  let t3 := sub p t0 t1
  let t2 := sqr p t2
  let t3 := sqr p t3
  (mul p D.2 t2, mul p D.1 t3)

/-- bits of k, least significant first -/
def bitsLE : Nat → Nat → List Bool
  | 0, _ => []
  | n + 1, k => (k % 2 == 1) :: bitsLE n (k / 2)

/-- Montgomery ladder x([k]P) over the bits of k (most significant first), k < 2^nbits -/
def xMUL (p : Nat) (A C : E) (nbits k : Nat) (P : E × E) : E × E :=
  let step := fun (R : (E × E) × (E × E)) (b : Bool) =>
    if b then (xADD p R.1 R.2 P, xDBL p A C R.2) else (xDBL p A C R.1, xADD p R.1 R.2 P)
  -- (R0, R1) = (∞, P) = ([0]P, [1]P); ∞ = (1 : 0)
  (((bitsLE nbits k).reverse).foldl step (((1, 0), (0, 0)), P)).1

/-- three-point ladder x(P + [k]Q) from x(P), x(Q), x(P−Q) -/
def ladder3pt (p : Nat) (A C : E) (nbits k : Nat) (P Q D : E × E) : E × E :=
  let step := fun (X : (E × E) × (E × E) × (E × E)) (b : Bool) =>
    let X0 := X.1; let X1 := X.2.1; let X2 := X.2.2
    if b then (xDBL p A C X0, xADD p X0 X1 X2, X2) else (xDBL p A C X0, X1, xADD p X0 X2 X1)
  ((bitsLE nbits k).foldl step (Q, P, D)).2.1

/-- inverse of an odd number modulo 2^f by Newton iteration (result is re-checked where used) -/
def invMod2 (f a : Nat) : Nat :=
  let N := 2 ^ f
  (List.range 12).foldl (fun inv _ => (inv * ((2 * N + 2 - (a * inv) % N) % N)) % N) (a % N)

/-- x([a]P + [c]Q) for a basis (P, Q, P−Q) of the 2^f-torsion when a is odd: [a](P + [c/a]Q) -/
def xLinComb (p : Nat) (A C : E) (f a c : Nat) (P Q D : E × E) : E × E :=
  let N := 2 ^ f
  let k := (c % N) * invMod2 f a % N
  xMUL p A C f (a % N) (ladder3pt p A C f k P Q D)

def natOfInt (N : Nat) (z : Int) : Nat := (z % (N : Int)).toNat

/-- x of the image of P under the endomorphism with matrix `m` (column convention:
    θ(P) = m₀₀·P + m₁₀·Q, θ(Q) = m₀₁·P + m₁₁·Q), for either parity of the coefficients -/
def xImage (p : Nat) (A C : E) (f : Nat) (a c : Int) (P Q D : E × E) : E × E :=
  let N := 2 ^ f
  let a' := natOfInt N a; let c' := natOfInt N c
  if a' % 2 == 1 then xLinComb p A C f a' c' P Q D else xLinComb p A C f c' a' Q P D

def invOk (f : Nat) (a c : Int) : Bool :=
  let N := 2 ^ f
  let a' := natOfInt N a; let c' := natOfInt N c
  if a' % 2 == 1 then (a' * invMod2 f a') % N == 1 else (c' * invMod2 f c') % N == 1

def negX (p : Nat) (P : E × E) : E × E := (sub p (0, 0) P.1, P.2)
def conjX (p : Nat) (P : E × E) : E × E := ((P.1.1, (p - P.1.2 % p) % p), (P.2.1, (p - P.2.2 % p) % p))

/-- the matrix `m` (2×2 integer matrix, column convention) describes the action of the map `g` on x-coordinates
    on the basis (P, Q) and on P−Q (which fixes the relative sign of the two columns) -/
def actionAgrees (p : Nat) (A C : E) (f : Nat) (m : List (List Int)) (g : E × E → E × E) (B : List (E × E)) : Bool :=
  match B, m with
  | [P, Q, D], [[a, b], [c, d]] =>
    invOk f a c && invOk f b d && invOk f (a - b) (c - d) &&
    projEq p (xImage p A C f a c P Q D) (g P) &&
    projEq p (xImage p A C f b d P Q D) (g Q) &&
    projEq p (xImage p A C f (a - b) (c - d) P Q D) (g D)
  | _, _ => false

end SqiModel.Fp2N

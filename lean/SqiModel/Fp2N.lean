/- Value-level GF(p^2) = Fp[i]/(i^2+1) on pairs of naturals (executable, core-only); used for kernel
   evaluation of table facts (orders of the precomputed torsion bases, non-residue tables). -/
namespace SqiModel.Fp2N

abbrev E := Nat × Nat

def add (p : Nat) (a b : E) : E := ((a.1 + b.1) % p, (a.2 + b.2) % p)
def sub (p : Nat) (a b : E) : E := ((a.1 + (p - b.1 % p)) % p, (a.2 + (p - b.2 % p)) % p)
def mul (p : Nat) (a b : E) : E :=
  ((a.1 * b.1 + (p - (a.2 * b.2) % p)) % p, (a.1 * b.2 + a.2 * b.1) % p)
def sqr (p : Nat) (a : E) : E := mul p a a
def isZero (p : Nat) (a : E) : Bool := a.1 % p == 0 && a.2 % p == 0
def norm (p : Nat) (a : E) : Nat := (a.1 * a.1 + a.2 * a.2) % p

/-- modular exponentiation by repeated squaring (fuel = number of bits) -/
def powMod (p : Nat) : Nat → Nat → Nat → Nat → Nat
  | 0, _, _, acc => acc
  | fuel + 1, b, e, acc =>
    if e = 0 then acc
    else powMod p fuel (b * b % p) (e / 2) (if e % 2 = 1 then acc * b % p else acc)

/-- Euler criterion in GF(p): a is a non-zero square -/
def isSquareFp (p a : Nat) : Bool := powMod p (p.log2 + 1) (a % p) ((p - 1) / 2) 1 == 1

/-- x ∈ GF(p^2), p ≡ 3 mod 4: x is a square iff its norm is a square in GF(p) (0 counts as a square) -/
def isSquare (p : Nat) (a : E) : Bool := isZero p a || isSquareFp p (norm p a)

/-- x-only doubling on the Montgomery curve (A : C), formula of `xDBL` in ec.c -/
def xDBL (p : Nat) (A C : E) (P : E × E) : E × E :=
  let X := P.1; let Z := P.2
  let t0 := add p X Z
  let t0 := sqr p t0
  let t1 := sub p X Z
  let t1 := sqr p t1
  let t2 := sub p t0 t1
  let t3 := add p C C
  let t1 := mul p t1 t3
  let t1 := add p t1 t1
  let Qx := mul p t0 t1
  let t0 := add p t3 A
  let t0 := mul p t0 t2
  let t0 := add p t0 t1
  let Qz := mul p t0 t2
  (Qx, Qz)

def xDBLiter (p : Nat) (A C : E) : Nat → E × E → E × E
  | 0, P => P
  | n + 1, P => xDBLiter p A C n (xDBL p A C P)

/-- projective equality of x-coordinates -/
def projEq (p : Nat) (P Q : E × E) : Bool :=
  mul p P.1 Q.2 == mul p Q.1 P.2

/-- P has exact order 2^f: [2^(f-1)]P ≠ ∞ and [2^f]P = ∞ -/
def exactOrder2f (p : Nat) (A C : E) (f : Nat) (P : E × E) : Bool :=
  let T := xDBLiter p A C (f - 1) P
  !(isZero p T.2) && isZero p (xDBL p A C T).2

end SqiModel.Fp2N

/-
Executable value-level model of GF(p) / GF(p²)=GF(p)[i]/(i²+1) over `Nat` with explicit `% p`
(core-only, kernel-friendly: `decide +kernel` evaluates it with GMP arithmetic on literals).

Scope: exactly the operations of src/gf/ref/gfx/{fp.c,fp2.c} that the basis generator (C10) and the
pairing/dlog layer (C11) use, at the level of *values* (canonical representatives in [0,p)), not limbs:
`fp_is_square` (Euler: a^((p-1)/2) == 1, or a = 0 — the ref code after fix 59953ae), `fp_sqrt`
(a^((p+1)/4), negated when the canonical representative is odd), `fp_inv` (a^(p-2)), `fp2_is_square`
(norm criterion), `fp2_inv`, `fp2_sqrt` (as coded, incl. its sign management), Montgomery decoding.
The limb level is C07's business; this file is tied to the C by the C10/C11 correspondence harness.
-/
namespace SqiModel.Fp2V

/-- square-and-multiply, structurally recursive on `fuel` (≥ bit length of `e`) -/
def powModAux (m : Nat) : Nat → Nat → Nat → Nat → Nat
  | 0, _, _, acc => acc
  | fuel + 1, b, e, acc =>
    if e = 0 then acc
    else powModAux m fuel (b * b % m) (e / 2) (if e % 2 = 1 then acc * b % m else acc)

def powMod (b e m : Nat) : Nat := powModAux m (e.log2 + 1) (b % m) e (1 % m)

theorem powModAux_spec (m : Nat) : ∀ (fuel b e acc : Nat), e < 2 ^ fuel →
    powModAux m fuel b e acc % m = acc * b ^ e % m := by
  intro fuel
  induction fuel with
  | zero =>
    intro b e acc h
    have : e = 0 := by simpa using h
    subst this; simp [powModAux]
  | succ n ih =>
    intro b e acc h
    unfold powModAux
    by_cases he : e = 0
    · subst he; simp
    · simp only [he, if_false]
      have h2 : e / 2 < 2 ^ n := by
        rw [Nat.div_lt_iff_lt_mul (by decide)]; rw [Nat.pow_succ] at h; exact h
      rw [ih _ _ _ h2]
      have hb : (b * b % m) ^ (e / 2) % m = (b * b) ^ (e / 2) % m := by
        rw [Nat.pow_mod, Nat.mod_mod, ← Nat.pow_mod]
      have hsq : (b * b) ^ (e / 2) = b ^ (2 * (e / 2)) := by
        rw [Nat.pow_mul, Nat.pow_two]
      by_cases hodd : e % 2 = 1
      · simp only [hodd, if_true]
        have he2 : e = 2 * (e / 2) + 1 := by omega
        rw [Nat.mul_mod, hb, hsq]
        conv => rhs; rw [he2, Nat.pow_succ]
        rw [Nat.mod_mod, ← Nat.mul_mod]
        congr 1
        rw [Nat.mul_assoc, Nat.mul_comm b]
      · simp only [hodd, if_false]
        have he2 : e = 2 * (e / 2) := by omega
        rw [Nat.mul_mod, hb, ← Nat.mul_mod, hsq, ← he2]

/-- `powMod` is modular exponentiation -/
theorem powMod_eq (b e m : Nat) : powMod b e m % m = b ^ e % m := by
  unfold powMod
  rw [powModAux_spec m _ _ _ _ (Nat.lt_log2_self)]
  rw [Nat.mul_mod, Nat.mod_mod, ← Nat.mul_mod, Nat.one_mul, Nat.pow_mod, Nat.mod_mod, ← Nat.pow_mod]

/-! ## GF(p), canonical representatives -/
def fadd (p a b : Nat) : Nat := (a + b) % p
def fsub (p a b : Nat) : Nat := (a + (p - b % p)) % p
def fneg (p a : Nat) : Nat := (p - a % p) % p
def fmul (p a b : Nat) : Nat := a * b % p
/-- `fp_inv`: a^(p-2) (0 ↦ 0) -/
def finv (p a : Nat) : Nat := powMod a (p - 2) p
/-- `fp_is_square` of the ref back-end (after fix 59953ae): a^((p-1)/2) == 1, or a == 0 -/
def fIsSquare (p a : Nat) : Bool := powMod a ((p - 1) / 2) p == 1 % p || a % p == 0
/-- `fp_sqrt`: a^((p+1)/4), negated if the canonical representative is odd -/
def fsqrt (p a : Nat) : Nat :=
  let r := powMod a ((p + 1) / 4) p
  if r % 2 = 1 then fneg p r else r
def fhalf (p a : Nat) : Nat := fmul p a (finv p (2 % p))

/-! ## GF(p²) -/
abbrev F2 := Nat × Nat

def f2add (p : Nat) (a b : F2) : F2 := (fadd p a.1 b.1, fadd p a.2 b.2)
def f2sub (p : Nat) (a b : F2) : F2 := (fsub p a.1 b.1, fsub p a.2 b.2)
def f2neg (p : Nat) (a : F2) : F2 := (fneg p a.1, fneg p a.2)
def f2mul (p : Nat) (a b : F2) : F2 :=
  (fsub p (fmul p a.1 b.1) (fmul p a.2 b.2), fadd p (fmul p a.1 b.2) (fmul p a.2 b.1))
def f2sqr (p : Nat) (a : F2) : F2 := f2mul p a a
def f2norm (p : Nat) (a : F2) : Nat := fadd p (fmul p a.1 a.1) (fmul p a.2 a.2)
/-- `fp2_is_square`: the norm re²+im² is a square in GF(p) -/
def f2IsSquare (p : Nat) (a : F2) : Bool := fIsSquare p (f2norm p a)
/-- `fp2_inv`: conj(a)/norm(a) -/
def f2inv (p : Nat) (a : F2) : F2 :=
  let t := finv p (f2norm p a)
  (fmul p a.1 t, fneg p (fmul p a.2 t))
def f2half (p : Nat) (a : F2) : F2 := (fhalf p a.1, fhalf p a.2)
def f2small (p n : Nat) : F2 := (n % p, 0)

/-- `fp2_sqrt` of src/gf/ref/gfx/fp2.c, statement by statement (selects become `if`) -/
def f2sqrt (p : Nat) (x : F2) : F2 :=
  let sqrtDelta := fsqrt p (f2norm p x)
  let y0 := fhalf p (fadd p x.1 sqrtDelta)
  let x1zero := x.2 % p == 0
  let y0 := if x1zero then x.1 % p else y0
  let nqr := !(fIsSquare p y0)
  let y0 := if nqr && x1zero then fneg p y0 else y0
  let y0 := if nqr && !x1zero then fsub p y0 sqrtDelta else y0
  let y0 := fsqrt p y0
  let y1 := fmul p x.2 (finv p (fadd p y0 y0))
  let (y0, y1) := if nqr && x1zero then (y1, y0) else (y0, y1)
  let neg := y0 % 2 = 1 || (y0 = 0 && y1 % 2 = 1)
  if neg then (fneg p y0, fneg p y1) else (y0, y1)

/-- Montgomery decoding of a table entry: raw = v·R mod p  ↦  v, with R = 2^(64·nwords) -/
def fromMont (p nwords raw : Nat) : Nat := fmul p raw (finv p (2 ^ (64 * nwords) % p))
def f2fromMont (p nwords : Nat) (raw : F2) : F2 := (fromMont p nwords raw.1, fromMont p nwords raw.2)

end SqiModel.Fp2V

/-
C semantics used by the GENERATED translation of src/gf/ref/gfx/fp.c (`SqiGen.FpRef`, tools/translate/fpref.py).
Core-only.  An `fp_t` (array of NWORDS_FIELD uint64_t) is the natural number Σ limb_i·2^(64 i); scalars are naturals kept
in range by the explicit casts the translator emits at every assignment (`u64`, `u32`) and arithmetic operation.
The last block is the reading of the helper macros/inline functions of mp.h that fp.c uses (`is_digit_zero_ct`, `SUBC`,
`mp_shiftr` by one bit); they are small and stated here as what they compute.
-/
namespace SqiModel.FpRefSem

/-- `x[i]` -/
def limb (x i : Nat) : Nat := x / 2 ^ (64 * i) % 2 ^ 64

/-- the array whose limb `i` is `f i` (truncated to 64 bits), `i < n` -/
def ofLimbs : Nat → (Nat → Nat) → Nat
  | 0, _ => 0
  | n + 1, f => ofLimbs n f + f n % 2 ^ 64 * 2 ^ (64 * n)

/-- `for (i = lo; i < n; i++) x[i] = f i;` on an array whose limbs below `lo` are those of `old` -/
def mapLimbs (lo n old : Nat) (f : Nat → Nat) : Nat := ofLimbs n (fun i => if i < lo then limb old i else f i)

/-- `x[i] = v` -/
def setLimb (n x i v : Nat) : Nat := ofLimbs n (fun j => if j = i then v else limb x j)

/-- `for (i = lo; i < hi; i++) s = f s i;` -/
def loopAcc {σ : Type} (lo hi : Nat) (f : σ → Nat → σ) (s : σ) : σ := (List.range' lo (hi - lo)).foldl f s
-- never evaluated by the elaborator (a loop bound is a term like `64·n − 2`); the proofs unfold it explicitly
attribute [irreducible] loopAcc

def u8 (x : Nat) : Nat := x % 2 ^ 8
def u32 (x : Nat) : Nat := x % 2 ^ 32
def u64 (x : Nat) : Nat := x % 2 ^ 64
/-- `a - b` at width `w` -/
def subw (w a b : Nat) : Nat := (a % 2 ^ w + (2 ^ w - b % 2 ^ w)) % 2 ^ w
/-- `-a` at width `w` -/
def negw (w a : Nat) : Nat := (2 ^ w - a % 2 ^ w) % 2 ^ w
/-- `(uint64_t) * (int32_t *)&ctl`: sign extension of a 32-bit word -/
def sext32 (ctl : Nat) : Nat := if ctl % 2 ^ 32 < 2 ^ 31 then ctl % 2 ^ 32 else ctl % 2 ^ 32 + (2 ^ 64 - 2 ^ 32)

/-! ### helpers of mp.h -/

/-- `is_digit_zero_ct(x) = 1 ^ ((x | (0 - x)) >> 63)`: 1 iff the digit is zero -/
def is_digit_zero_ct (x : Nat) : Nat := if x % 2 ^ 64 = 0 then 1 else 0
/-- `is_digit_lessthan_ct(x, y)`: 1 iff `x < y` (digits) -/
def is_digit_lessthan_ct (x y : Nat) : Nat := if x % 2 ^ 64 < y % 2 ^ 64 then 1 else 0
/-- macro `SUBC(diff, borrowOut, a, b, borrowIn)`: `(diff, borrowOut)` -/
def subc (a b bin : Nat) : Nat × Nat :=
  let temp := subw 64 a b
  let borrow := is_digit_lessthan_ct a b ||| (bin &&& is_digit_zero_ct temp)
  (subw 64 temp (u64 bin), borrow)
/-- `mp_shiftr(x, 1, nwords)`: the multi-word value shifted right by one bit -/
def mp_shiftr1 (x : Nat) : Nat := x / 2

end SqiModel.FpRefSem

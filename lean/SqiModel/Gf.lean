/-
GF(p) / GF(p^2) layer, part 1: the operation record shared by both back-ends and the GF(p^2) code
`fp2.c` transcribed *as coded* on top of it (src/gf/ref/gfx/fp2.c and src/gf/broadwell/gfx/fp2.c +
include/fp2.h are the same algorithms; they differ only in the `fp_*` layer underneath).

Core-only (linked into the driver).  A field element is whatever the back-end stores (`α`); Boolean
results are the C API's 32-bit masks (`0xFFFFFFFF` = true, `0` = false) kept as `Nat`.
-/
namespace SqiModel.Gf

/-- C truth value 0xFFFFFFFF -/
def T32 : Nat := 0xFFFFFFFF
/-- `~x` on a uint32_t -/
def not32 (x : Nat) : Nat := (x ^^^ T32) % 2 ^ 32
/-- `-(x & 1)` on a uint32_t: all-ones iff x odd -/
def oddMask (x : Nat) : Nat := if x % 2 = 1 then T32 else 0

/-- the `fp_*` API of one back-end at one level -/
structure FpOps (α : Type) where
  zero : α
  one : α
  add : α → α → α
  sub : α → α → α
  neg : α → α
  mul : α → α → α
  sqr : α → α
  half : α → α
  inv : α → α
  sqrt : α → α
  isSquare : α → Nat
  isZero : α → Nat
  isEqual : α → α → Nat
  /-- `fp_select(d, a0, a1, ctl)` -/
  select : α → α → Nat → α
  /-- `fp_cswap(a, b, ctl)` -/
  cswap : α → α → Nat → α × α
  setSmall : Nat → α
  /-- `fp_encode`: the integer whose little-endian bytes are written -/
  encode : α → Nat
  /-- `fp_decode` of the integer given by the little-endian bytes; second component: returned flag
      (the ref back-end returns void: modelled as T32) -/
  decode : Nat → α × Nat
  /-- number of encoded bytes of one GF(p) element -/
  encBytes : Nat

structure Fp2 (α : Type) where
  re : α
  im : α
deriving Repr, BEq, DecidableEq

variable {α : Type} (O : FpOps α)

def fp2_set_small (v : Nat) : Fp2 α := ⟨O.setSmall v, O.zero⟩
def fp2_set_one : Fp2 α := ⟨O.one, O.zero⟩
def fp2_set_zero : Fp2 α := ⟨O.zero, O.zero⟩
def fp2_is_zero (a : Fp2 α) : Nat := O.isZero a.re &&& O.isZero a.im
def fp2_is_equal (a b : Fp2 α) : Nat := O.isEqual a.re b.re &&& O.isEqual a.im b.im
def fp2_is_one (a : Fp2 α) : Nat := O.isEqual a.re O.one &&& O.isZero a.im
def fp2_select (a0 a1 : Fp2 α) (ctl : Nat) : Fp2 α := ⟨O.select a0.re a1.re ctl, O.select a0.im a1.im ctl⟩
def fp2_cswap (a b : Fp2 α) (ctl : Nat) : Fp2 α × Fp2 α :=
  let r := O.cswap a.re b.re ctl
  let i := O.cswap a.im b.im ctl
  (⟨r.1, i.1⟩, ⟨r.2, i.2⟩)
/-- `fp2_encode`: re bytes then im bytes, as one little-endian integer -/
def fp2_encode (a : Fp2 α) : Nat := O.encode a.re + 2 ^ (8 * O.encBytes) * O.encode a.im
/-- `fp2_decode` (flag: `re & im` on the x86 back-end, void on ref) -/
def fp2_decode (v : Nat) : Fp2 α × Nat :=
  let r := O.decode (v % 2 ^ (8 * O.encBytes))
  let i := O.decode (v / 2 ^ (8 * O.encBytes) % 2 ^ (8 * O.encBytes))
  (⟨r.1, i.1⟩, r.2 &&& i.2)
def fp2_half (y : Fp2 α) : Fp2 α := ⟨O.half y.re, O.half y.im⟩
def fp2_add (y z : Fp2 α) : Fp2 α := ⟨O.add y.re z.re, O.add y.im z.im⟩
def fp2_sub (y z : Fp2 α) : Fp2 α := ⟨O.sub y.re z.re, O.sub y.im z.im⟩
def fp2_neg (y : Fp2 α) : Fp2 α := ⟨O.neg y.re, O.neg y.im⟩

/-- `fp2_mul` as coded (3 multiplications) -/
def fp2_mul (y z : Fp2 α) : Fp2 α :=
  let t0 := O.add y.re y.im
  let t1 := O.add z.re z.im
  let t0 := O.mul t0 t1
  let t1 := O.mul y.im z.im
  let xre := O.mul y.re z.re
  let xim := O.sub t0 t1
  let xim := O.sub xim xre
  let xre := O.sub xre t1
  ⟨xre, xim⟩

/-- `fp2_sqr` as coded -/
def fp2_sqr (y : Fp2 α) : Fp2 α :=
  let sum := O.add y.re y.im
  let diff := O.sub y.re y.im
  let xim := O.mul y.re y.im
  let xim := O.add xim xim
  let xre := O.mul sum diff
  ⟨xre, xim⟩

/-- `fp2_inv` as coded -/
def fp2_inv (x : Fp2 α) : Fp2 α :=
  let t0 := O.sqr x.re
  let t1 := O.sqr x.im
  let t0 := O.add t0 t1
  let t0 := O.inv t0
  let xre := O.mul x.re t0
  let xim := O.mul x.im t0
  let xim := O.neg xim
  ⟨xre, xim⟩

/-- `fp2_is_square` as coded -/
def fp2_is_square (x : Fp2 α) : Nat :=
  let t0 := O.sqr x.re
  let t1 := O.sqr x.im
  let t0 := O.add t0 t1
  O.isSquare t0

/-- left scan `[f a x0, f (f a x0) x1, …]` -/
def scanFrom {β γ : Type} (f : β → γ → β) : β → List γ → List β
  | _, [] => []
  | a, x :: xs => f a x :: scanFrom f (f a x) xs

/-- the product chain of `fp2_batched_inv(x, len)` as coded (the whole function before the repair), `len = xs.length ≥ 1`
    (the C code reads `x[0]` and declares zero-length VLAs for `len = 0`: outside the API; the model returns `[]` there).
    `t1[i] = x0⋯xi`; `t2[0] = 1/t1[len-1]`, `t2[i] = t2[i-1]·x[len-i]`;
    `x[0] = t2[len-1]`, `x[i] = t1[i-1]·t2[len-i-1]`. -/
def fp2_batched_inv_core : List (Fp2 α) → List (Fp2 α)
  | [] => []
  | x0 :: xs =>
    let t1 := x0 :: scanFrom (fp2_mul O) x0 xs
    let inverse := fp2_inv O (t1.getLast?.getD x0)
    let t2 := inverse :: scanFrom (fp2_mul O) inverse xs.reverse
    (t2.getLast?.getD inverse) :: List.zipWith (fp2_mul O) t1.dropLast t2.reverse.tail

/-- `fp2_batched_inv(x, len)` as coded after the repair: `z[i] = fp2_is_zero(x[i])`, `x[i] = select(x[i], one, z[i])`,
    the product chain, then `x[i] = select(x[i], zero, z[i])` -/
def fp2_batched_inv (xs : List (Fp2 α)) : List (Fp2 α) :=
  let z := xs.map (fp2_is_zero O)
  let xs' := List.zipWith (fun x zi => fp2_select O x (fp2_set_one O) zi) xs z
  let ys := fp2_batched_inv_core O xs'
  List.zipWith (fun y zi => fp2_select O y (fp2_set_zero O) zi) ys z

/-- `fp2_sqrt` as coded (constant-time complex square root with sign normalisation) -/
def fp2_sqrt (x : Fp2 α) : Fp2 α :=
  let sqrt_delta := O.sqr x.re
  let tmp := O.sqr x.im
  let sqrt_delta := O.add sqrt_delta tmp
  let sqrt_delta := O.sqrt sqrt_delta
  let y0 := O.add x.re sqrt_delta
  let y0 := O.half y0
  let x1_is_zero := O.isZero x.im
  let y0 := O.select y0 x.re x1_is_zero
  let nqr := not32 (O.isSquare y0)
  let tmp := O.neg y0
  let y0 := O.select y0 tmp (nqr &&& x1_is_zero)
  let tmp := O.sub y0 sqrt_delta
  let y0 := O.select y0 tmp (nqr &&& not32 x1_is_zero)
  let y0 := O.sqrt y0
  let tmp := O.add y0 y0
  let tmp := O.inv tmp
  let y1 := O.mul x.im tmp
  let sw := O.cswap y0 y1 (nqr &&& x1_is_zero)
  let y0 := sw.1
  let y1 := sw.2
  let y0_is_zero := O.isZero y0
  let y0_is_odd := oddMask (O.encode y0)
  let y1_is_odd := oddMask (O.encode y1)
  let negate_output := y0_is_odd ||| (y0_is_zero &&& y1_is_odd)
  let tmp := O.neg y0
  let xre := O.select y0 tmp negate_output
  let tmp := O.neg y1
  let xim := O.select y1 tmp negate_output
  ⟨xre, xim⟩

/-- inner loop of `fp2_pow_vartime` over the 64 bits of one exponent word -/
def powWord (w : Nat) : Nat → Fp2 α × Fp2 α → Fp2 α × Fp2 α
  | 0, s => s
  | k + 1, (out, acc) =>
    powWord (w / 2) k (if w % 2 = 1 then fp2_mul O out acc else out, fp2_sqr O acc)

/-- `fp2_pow_vartime(out, x, exp, size)`: exp as list of 64-bit words, least significant first -/
def fp2_pow_vartime (x : Fp2 α) (exp : List Nat) : Fp2 α :=
  (exp.foldl (fun s w => powWord O w 64 s) (fp2_set_one O, x)).1

end SqiModel.Gf

/-
GF(p) layer, ref back-end (src/gf/ref/gfx/fp.c, mp.c and the fiat-crypto word-by-word Montgomery files
src/gf/ref/lvl{1,3,5}/fp_p*.c), modelled at value level: an `fp_t` is the natural number
`Σ limb[i]·2^(64 i)` (`< 2^(64 n)`), in Montgomery form with `R = 2^(64 n)`.

`montMul` is the *generic* word-by-word Montgomery multiplication (any limb count, any odd modulus,
`p' = -p⁻¹ mod 2^64`) over the limb list of the first operand, followed by the final conditional
subtraction; the fiat straight-line functions are tied to it by correspondence (tools/props/c07.py).
Core-only.
-/
import SqiModel.Gf
namespace SqiModel.Gf

def W : Nat := 2 ^ 64

/-- `n` little-endian 64-bit limbs of `x` -/
def toLimbs : Nat → Nat → List Nat
  | 0, _ => []
  | n + 1, x => x % W :: toLimbs n (x / W)

def evalLimbs : List Nat → Nat
  | [] => 0
  | a :: as => a + W * evalLimbs as

/-- one word step: `t ← (t + aᵢ·b + m·p) / 2^64` with `m = (t + aᵢ·b)·p' mod 2^64` -/
def montStep (p p' b t ai : Nat) : Nat :=
  let t' := t + ai * b
  let m := ((t' % W) * p') % W
  (t' + m * p) / W

def montLoop (p p' b : Nat) : List Nat → Nat → Nat
  | [], t => t
  | ai :: as, t => montLoop p p' b as (montStep p p' b t ai)

/-- final conditional subtraction -/
def condSub (p r : Nat) : Nat := if p ≤ r then r - p else r

/-- word-by-word Montgomery product of `a` (`n` limbs) and `b` -/
def montMul (n p p' a b : Nat) : Nat := condSub p (montLoop p p' b (toLimbs n a) 0)

/-- parameters of one level of the ref back-end -/
structure RefParams where
  n : Nat
  p : Nat
  /-- `-p⁻¹ mod 2^64` -/
  p' : Nat
deriving Repr

namespace RefParams
variable (P : RefParams)
def R : Nat := 2 ^ (64 * P.n)
/-- constant of `fiat_*_to_montgomery` -/
def r2 : Nat := (P.R * P.R) % P.p
/-- constant of `fiat_*_set_one` -/
def oneM : Nat := P.R % P.p
end RefParams

def lvl1 : RefParams := ⟨4, 5 * 2 ^ 248 - 1, 1⟩
def lvl3 : RefParams := ⟨6, 65 * 2 ^ 376 - 1, 1⟩
def lvl5 : RefParams := ⟨8, 27 * 2 ^ 500 - 1, 1⟩

namespace Ref
variable (P : RefParams)

def fp_mul (a b : Nat) : Nat := montMul P.n P.p P.p' a b
def fp_sqr (a : Nat) : Nat := montMul P.n P.p P.p' a a
def fp_tomont (a : Nat) : Nat := montMul P.n P.p P.p' a P.r2
def fp_frommont (a : Nat) : Nat := montMul P.n P.p P.p' a 1
def fp_set_one : Nat := P.oneM
def fp_set_zero : Nat := 0

/-- `fiat_*_add`: `n`-limb add with carry, `n+1`-limb subtract of `p`, select on the borrow -/
def fp_add (a b : Nat) : Nat :=
  let s := a + b
  if s < P.p then s % P.R else (s - P.p) % P.R

/-- `fiat_*_sub`: `n`-limb subtract, add `p` back when it borrowed (carry dropped) -/
def fp_sub (a b : Nat) : Nat :=
  if a < b then (a + P.R - b + P.p) % P.R else a - b

/-- `fp_neg` of gfx/fp.c: `out = p - a` by a SUBC chain, then `fp_sub(out, out, p)` -/
def fp_neg (a : Nat) : Nat := fp_sub P ((P.p + P.R - a) % P.R) P.p

def fp_set_small (v : Nat) : Nat := fp_tomont P (v % W)

def fp_is_equal (a b : Nat) : Nat := if a = b then T32 else 0
def fp_is_zero (a : Nat) : Nat := if a = 0 then T32 else 0

/-- `cw = (uint64_t)(int32_t)ctl`, replicated over the `n` limbs -/
def ctlWord (ctl : Nat) : Nat := if ctl % 2 ^ 32 < 2 ^ 31 then ctl % 2 ^ 32 else ctl % 2 ^ 32 + (2 ^ 64 - 2 ^ 32)
def replLimb : Nat → Nat → Nat
  | 0, _ => 0
  | n + 1, w => w + W * replLimb n w

/-- `fp_select(d, a0, a1, ctl)`: limb-wise `a0 ^ (cw & (a0 ^ a1))` -/
def fp_select (a0 a1 ctl : Nat) : Nat := a0 ^^^ (replLimb P.n (ctlWord ctl) &&& (a0 ^^^ a1))

/-- `fp_cswap(a, b, ctl)` -/
def fp_cswap (a b ctl : Nat) : Nat × Nat :=
  let t := replLimb P.n (ctlWord ctl) &&& (a ^^^ b)
  (a ^^^ t, b ^^^ t)

/-- the square-and-multiply loop of `fp_exp3div4`: `k` iterations, exponent bits `pt` LSB first -/
def expLoop : Nat → Nat → Nat → Nat → Nat
  | 0, _, out, _ => out
  | k + 1, pt, out, acc =>
    expLoop k (pt / 2) (if pt % 2 = 1 then fp_mul P out acc else out) (fp_sqr P acc)

/-- `fp_exp3div4`: `p_t = p >> 2`, `NWORDS·64 − 2` iterations -/
def fp_exp3div4 (a : Nat) : Nat := expLoop P (64 * P.n - 2) (P.p / 4) (fp_set_one P) a

def fp_inv (a : Nat) : Nat :=
  let t := fp_exp3div4 P a
  let t := fp_sqr P t
  let t := fp_sqr P t
  fp_mul P t a

def fp_is_square (a : Nat) : Nat :=
  let t := fp_exp3div4 P a
  let t := fp_sqr P t
  let t := fp_mul P t a
  fp_is_equal t (fp_set_one P) ||| fp_is_zero a

def fp_sqrt (a : Nat) : Nat :=
  let t := fp_exp3div4 P a
  let a := fp_mul P t a
  let t := fp_frommont P a
  let ctl := oddMask (t % W)
  let t := fp_neg P a
  fp_select P a t ctl

/-- `fp_half` as coded: multiply by `inv(set_small 2)` -/
def fp_half (a : Nat) : Nat := fp_mul P a (fp_inv P (fp_set_small P 2))

/-- little-endian bytes -/
def toBytes : Nat → Nat → List Nat
  | 0, _ => []
  | k + 1, x => x % 256 :: toBytes k (x / 256)
def evalBytes : List Nat → Nat
  | [] => 0
  | b :: bs => b + 256 * evalBytes bs

/-- `fp_encode`: `fp_frommont` then `enc64le` per limb -/
def fp_encode (a : Nat) : List Nat := toBytes (8 * P.n) (fp_frommont P a)
/-- `fp_decode`: `dec64le` per limb then `fp_tomont` (no range check: the value is reduced mod p) -/
def fp_decode (bs : List Nat) : Nat := fp_tomont P (evalBytes bs % P.R)

/-- `fp_decode_reduce(d, src, len)` of gfx/fp.c AS CODED: `len` is ignored ("TODO: handle lengths"); exactly `8n` bytes of
    the buffer are read (the bytes at and beyond `len` included — an over-read when the buffer is shorter) and converted
    with `fp_tomont`.  `bs` = the buffer contents as seen by the routine. -/
def fp_decode_reduce (bs : List Nat) (_len : Nat) : Nat := fp_tomont P (evalBytes (bs.take (8 * P.n)) % P.R)

def ops : FpOps Nat where
  zero := 0
  one := fp_set_one P
  add := fp_add P
  sub := fp_sub P
  neg := fp_neg P
  mul := fp_mul P
  sqr := fp_sqr P
  half := fp_half P
  inv := fp_inv P
  sqrt := fp_sqrt P
  isSquare := fp_is_square P
  isZero := fp_is_zero
  isEqual := fp_is_equal
  select := fp_select P
  cswap := fp_cswap P
  setSmall := fp_set_small P
  encode := fun a => evalBytes (fp_encode P a)
  decode := fun v => (fp_decode P (toBytes (8 * P.n) v), T32)
  encBytes := 8 * P.n

end Ref
end SqiModel.Gf

/-
GF(p) layer, x86 ("broadwell") back-end: value-level model of
  src/gf/broadwell/lvl1/{include/gf5248.h, gf5248.c, fp.c}     q = 5·2^248 − 1,  4 limbs, values < 2^251
  src/gf/broadwell/lvl3/{include/gf65376.h, gf65376.c, fp.c}   q = 65·2^376 − 1, 6 limbs, values < 2^383
  src/gf/broadwell/lvl5/{include/gf27500.h, gf27500.c, fp.c}   q = 27·2^500 − 1, 8 limbs, values < 2^505

A field element is the natural number `Σ v_i·2^(64 i)` of the stored limbs (`< R = 2^(64 n)`), in
Montgomery representation with `R`, only partially reduced (`< 2^B`).  Every function is modelled *as
coded* at value level: an `adc`/`sbb` chain over all limbs is arithmetic modulo `R` (carry/borrow made
explicit where the code uses it), 64-bit temporaries are arithmetic modulo `2^64`, masks `x & -f` are
`&&&` on `Nat`.  The three levels share one parametrised definition (`X86Params`); the level-specific
constants are exactly the literals of the C files (divisions by 5/65/27 through multiply-shift magic
numbers, loop counts of the binary GCD, the square-root addition chain, `R2`, `ONE`, `INVT`).
Differences between the levels that are *not* mere constants and are modelled:
  * lvl3 `mul`/`square` end with `inner_partial_reduce`, lvl1/lvl5 do not (`mulReduce`);
  * lvl5 `sqrt` uses the chain a³, (a³)^8·a³ = a^27 (`sqCube`), lvl1/lvl3 use a^(2^k)·a.
Core-only (linked into the driver).  Validated against the C code by tools/props (raw limbs compared).
-/
import SqiModel.Gf
import SqiModel.GfRef
namespace SqiModel.Gf

/-- one carry chain of the off-diagonal part of `square`: product `k` of `prods` (limb indices `(i, j)`)
    is added at limb `start + 2k`; the carry is propagated up to limb `stop` and then **dropped** -/
structure SqChain where
  start : Nat
  stop : Nat
  prods : List (Nat × Nat)
deriving Repr

/-- parameters of one level of the x86 back-end -/
structure X86Params where
  /-- number of 64-bit limbs -/
  n : Nat
  /-- `q = c·2^e − 1` -/
  e : Nat
  c : Nat
  /-- stored values are kept `< 2^B` (251 / 383 / 505) -/
  B : Nat
  /-- `quo = (h * smallMul) >> smallSh`: division of a small `h` by `c` (0xCD,10 / 0xFC1,18 / 0x12F7,17) -/
  smallMul : Nat
  smallSh : Nat
  /-- `quo = hi64(h * bigMul) >> bigSh`: division of a 64-bit `h` by `c` -/
  bigMul : Nat
  bigSh : Nat
  /-- `(2^64 − 1)/c` as written in `lin` (0x3333333333333333 / 0x3F03F03F03F03F0 / 0x97B425ED097B425) -/
  linK : Nat
  /-- `mul`/`square` end with `inner_partial_reduce` (lvl3 only) -/
  mulReduce : Bool
  /-- outer iterations of the binary GCD (15 / 23 / 31), each 31 inner iterations -/
  outer : Nat
  /-- final iterations on the low words (35 / 51 / 47) -/
  final : Nat
  /-- `INVT…` constant (raw): 2^12 / 2^4 / 2^16 -/
  invt : Nat
  /-- square-root chain: `y0 = if sqCube then a²·a else a; y = y0^(2^sqK1)·y0; y^(2^sqK2)` -/
  sqCube : Bool
  sqK1 : Nat
  sqK2 : Nat
  /-- constant `R2` (raw limbs) -/
  r2 : Nat
  /-- constant `ONE` (raw limbs) -/
  one : Nat
  /-- the carry chains that accumulate the off-diagonal products in `square`
      (`none`: every chain runs up to the top limb, the integer square is exact — lvl1) -/
  sqProg : Option (List SqChain)
deriving Repr

namespace X86Params
variable (P : X86Params)
def R : Nat := 2 ^ (64 * P.n)
def q : Nat := P.c * 2 ^ P.e - 1
/-- position of bit `e` inside the top limb (56 / 56 / 52) -/
def s : Nat := P.e - 64 * (P.n - 1)
/-- weight of the top limb -/
def topW : Nat := 2 ^ (64 * (P.n - 1))
end X86Params

def x1 : X86Params where
  n := 4
  e := 248
  c := 5
  B := 251
  smallMul := 0xCD
  smallSh := 10
  bigMul := 0xCCCCCCCCCCCCCCCD
  bigSh := 2
  linK := 0x3333333333333333
  mulReduce := false
  outer := 15
  final := 35
  invt := 0x1000
  sqCube := false
  sqK1 := 2
  sqK2 := 246
  r2 := 0x033333333333333333333333333333333333333333333333_3333333333333d70
  one := 0x0100000000000000_0000000000000000_0000000000000000_0000000000000033
  sqProg := none

/-- the lvl1 chains, for reference (all run to limb 6 = top limb of the off-diagonal sum: exact) -/
def x1SqProg : List SqChain :=
  [⟨1, 6, [(0, 1), (0, 3), (2, 3)]⟩, ⟨2, 6, [(0, 2), (1, 3)]⟩, ⟨3, 6, [(1, 2)]⟩]

def x3 : X86Params where
  n := 6
  e := 376
  c := 65
  B := 383
  smallMul := 0xFC1
  smallSh := 18
  bigMul := 0xFC0FC0FC0FC0FC1
  bigSh := 2
  linK := 0x3F03F03F03F03F0
  mulReduce := true
  outer := 23
  final := 51
  invt := 0x10
  sqCube := false
  sqK1 := 6
  sqK2 := 374
  r2 := 0x1D3F03F03F03F03F_03F03F03F03F03F0_3F03F03F03F03F03_F03F03F03F03F03F_03F03F03F03F03F0_3F03F03F03F03F13
  one := 0x3D00000000000000_0000000000000000_0000000000000000_0000000000000000_0000000000000000_0000000000000003
  sqProg := none

def x5 : X86Params where
  n := 8
  e := 500
  c := 27
  B := 505
  smallMul := 0x12F7
  smallSh := 17
  bigMul := 0x97B425ED097B425F
  bigSh := 4
  linK := 0x97B425ED097B425
  mulReduce := false
  outer := 31
  final := 47
  invt := 0x10000
  sqCube := true
  sqK1 := 3
  sqK2 := 498
  r2 := 0x0045ED097B425ED0_97B425ED097B425E_D097B425ED097B42_5ED097B425ED097B_425ED097B425ED09_7B425ED097B425ED_097B425ED097B425_ED097B425ED0F19A
  one := 0x0130000000000000_0000000000000000_0000000000000000_0000000000000000_0000000000000000_0000000000000000_0000000000000000_0000000000000097
  sqProg := none

/-- HISTORY: the carry chains of `gf65376_square` / `gf27500_square` BEFORE the repair 82bdea1 (chains 3.. stopped below
    the top limb and dropped a carry). Since the repair every chain runs to the top limb (10 resp. 14), no carry can be
    lost (the off-diagonal sum is < 2^(64(2n-1))), and the integer square is exact as at level 1: `sqProg := none`. -/
def x3SqProgPreFix : List SqChain :=
  [⟨1, 10, [(0, 1), (0, 3), (0, 5), (2, 5), (4, 5)]⟩,
     ⟨2, 10, [(0, 2), (0, 4), (1, 5), (3, 5)]⟩,
     ⟨3, 9, [(1, 2), (1, 4), (3, 4)]⟩,
     ⟨4, 8, [(1, 3), (2, 4)]⟩,
     ⟨5, 7, [(2, 3)]⟩]
def x5SqProgPreFix : List SqChain :=
  [⟨1, 14, [(0, 1), (0, 3), (0, 5), (0, 7), (2, 7), (4, 7), (6, 7)]⟩,
     ⟨2, 14, [(0, 2), (0, 4), (0, 6), (1, 7), (3, 7), (5, 7)]⟩,
     ⟨3, 13, [(1, 2), (1, 4), (1, 6), (3, 6), (5, 6)]⟩,
     ⟨4, 12, [(1, 3), (1, 5), (2, 6), (4, 6)]⟩,
     ⟨5, 11, [(2, 3), (2, 5), (4, 5)]⟩,
     ⟨6, 10, [(2, 4), (3, 5)]⟩,
     ⟨7, 9, [(3, 4)]⟩]

namespace X86

/-! ### 64-bit word helpers -/

/-- `-x` on a uint64_t -/
def neg64 (x : Nat) : Nat := (2 ^ 64 - x % 2 ^ 64) % 2 ^ 64
/-- `a - b` on uint64_t -/
def sub64 (a b : Nat) : Nat := (a % 2 ^ 64 + (2 ^ 64 - b % 2 ^ 64)) % 2 ^ 64
/-- `sgnw`: the top bit of a uint64_t expanded to a full word -/
def sgnw (x : Nat) : Nat := if 2 ^ 63 ≤ x % 2 ^ 64 then 2 ^ 64 - 1 else 0
/-- `(x ^ s) - s` for `s = sgnw x`: absolute value of the signed reading of a uint64_t -/
def abs64 (x : Nat) : Nat := if 2 ^ 63 ≤ x % 2 ^ 64 then neg64 x else x % 2 ^ 64
/-- `(x ^ m) - m` for a mask `m ∈ {0, 2^64−1}`: conditional negation -/
def cneg64 (m x : Nat) : Nat := if m = 0 then x % 2 ^ 64 else neg64 x
/-- signed reading of a uint64_t -/
def toInt64 (x : Nat) : Int := if 2 ^ 63 ≤ x % 2 ^ 64 then (x % 2 ^ 64 : Nat) - (2 ^ 64 : Int) else (x % 2 ^ 64 : Nat)
/-- limb `i` -/
def limb (a i : Nat) : Nat := a / 2 ^ (64 * i) % 2 ^ 64

/-- `lzcnt` on a uint64_t (64 for 0); both C variants (`_lzcnt_u64` and the portable one) compute this -/
def lzcnt (x : Nat) : Nat := if x % 2 ^ 64 = 0 then 64 else 63 - Nat.log2 (x % 2 ^ 64)

variable (P : X86Params)

/-! ### additive layer (gfXXXX.h) -/

/-- one "subtract q if ≥ 2^B" pass: `f = top >> (B − 64(n−1))`, then add `f` to limb 0 and
    `(−c·2^s mod 2^64) & −f` to the top limb, final carry dropped -/
def fold (d : Nat) : Nat :=
  let f := d / 2 ^ P.B
  let t := (2 ^ 64 - P.c * 2 ^ P.s) &&& neg64 f
  (d + f + t * P.topW) % P.R

def add (a b : Nat) : Nat := fold P (fold P ((a + b) % P.R))

/-- raw subtraction; on borrow subtract `R − 2q` (= `2 + (−2c·2^s mod 2^64)·topW`), i.e. add `2q`; one fold -/
def sub (a b : Nat) : Nat :=
  let d := (a + (P.R - b % P.R)) % P.R
  let d := if a < b then (d + (P.R - (2 + (2 ^ 64 - 2 * P.c * 2 ^ P.s) * P.topW))) % P.R else d
  fold P d

/-- `2q − a` by a borrow chain (final borrow dropped), one fold -/
def neg (a : Nat) : Nat := fold P ((2 * P.q + (P.R - a % P.R)) % P.R)

/-- `cw = (uint64_t)(int32_t)ctl` on every limb: `a0 ^ (cw & (a0 ^ a1))` -/
def select (a0 a1 ctl : Nat) : Nat := a0 ^^^ (Ref.replLimb P.n (Ref.ctlWord ctl) &&& (a0 ^^^ a1))

def cswap (a b ctl : Nat) : Nat × Nat :=
  let t := Ref.replLimb P.n (Ref.ctlWord ctl) &&& (a ^^^ b)
  (a ^^^ t, b ^^^ t)

/-- shift right by one over all limbs; `top += (c << (s−1)) & −(a0 & 1)` (wraps in the top limb) -/
def half (a : Nat) : Nat :=
  (a / 2 + (if a % 2 = 1 then P.c * 2 ^ (P.s - 1) * P.topW else 0)) % P.R

/-- `inner_partial_reduce`: `h = top >> s`, `quo = (h·smallMul) >> smallSh`, `rem = h − c·quo`,
    result `lo + quo + (rem << s)·topW` (final carry dropped) -/
def partial_reduce (a : Nat) : Nat :=
  let h := a / 2 ^ P.e % 2 ^ 64
  let lo := a % 2 ^ P.e
  let quo := (h * P.smallMul) % 2 ^ 64 / 2 ^ P.smallSh
  let rem := sub64 h (P.c * quo)
  (lo + quo + (rem * 2 ^ P.s % 2 ^ 64) * P.topW) % P.R

/-- `quo = hi64(h·bigMul) >> bigSh` -/
def bigQuo (h : Nat) : Nat := h * P.bigMul / 2 ^ 64 % 2 ^ 64 / 2 ^ P.bigSh

/-- `mul_small(a, x)`, `x` a uint32: exact integer product `a·x`, then the high part `h` above bit `e` is folded
    (`quo = h / c`, `rem = h mod c`); since the repair 2ef264b the fold chain starts with a clear carry. -/
def mul_small (a x : Nat) : Nat :=
  let x := x % 2 ^ 32
  let D := a * x
  let h := D / 2 ^ P.e % 2 ^ 64
  let lo := D % 2 ^ P.e
  let quo := bigQuo P h
  let rem := sub64 h (P.c * quo)
  (lo + quo + (rem * 2 ^ P.s % 2 ^ 64) * P.topW) % P.R

/-- `set_small(x)`, `x` a uint32: `h = x << (64 − s)` -/
def set_small (x : Nat) : Nat :=
  let h := (x % 2 ^ 32) * 2 ^ (64 - P.s)
  let quo := bigQuo P h
  let rem := sub64 h (P.c * quo)
  quo + (rem * 2 ^ P.s % 2 ^ 64) * P.topW

/-- `f = x·m mod R` with `m = −1/q mod R = c·2^e + 1`, as coded: `f_top = x_top + ((x0·c) << s)` -/
def montF (x : Nat) : Nat := (x % P.R + (x % 2 ^ 64 * P.c * 2 ^ P.s % 2 ^ 64) * P.topW) % P.R

/-- `inner_montgomery_reduce`: `h = (x + f·q)/R`, then `h = q ↦ 0` -/
def montgomery_reduce (x : Nat) : Nat :=
  let h := (x + montF P x * P.q) / P.R % P.R
  if h = P.q then 0 else h

/-- Montgomery reduction of a `2n`-limb integer `e` as coded in `mul`/`square`
    (sum truncated to `2n` limbs, low half dropped); lvl3: followed by partial_reduce -/
def montMulRed (e : Nat) : Nat :=
  let r := (e + montF P e * P.q) % (P.R * P.R) / P.R
  if P.mulReduce then partial_reduce P r else r

/-- integer product (exact over all limbs), one Montgomery reduction -/
def mul (a b : Nat) : Nat := montMulRed P (a * b)

/-- value added by one chain: `Σ_k a_i·a_j·W^(start+2k)` -/
def chainVal (a : Nat) : Nat → List (Nat × Nat) → Nat
  | _, [] => 0
  | pos, (i, j) :: r => limb a i * limb a j * 2 ^ (64 * pos) + chainVal a (pos + 2) r

/-- one carry chain on the accumulator `E`: only limbs `start..stop` change, carry out of `stop` dropped -/
def applyChain (a E : Nat) (c : SqChain) : Nat :=
  let lo := 2 ^ (64 * c.start)
  let len := 2 ^ (64 * (c.stop + 1 - c.start))
  let win := E / lo % len
  E - win * lo + (win + chainVal a c.start c.prods / lo) % len * lo

/-- sum of the diagonal products `Σ a_i²·W^(2i)` -/
def diagSum (a : Nat) : Nat → Nat
  | 0 => 0
  | k + 1 => diagSum a k + limb a k * limb a k * 2 ^ (128 * k)

/-- the `2n`-limb integer computed by the first half of `square`: off-diagonal chains, doubling,
    diagonal chain (last carry dropped).  Equals `a²` when no chain drops a carry. -/
def squareInt (a : Nat) : Nat :=
  match P.sqProg with
  | none => a * a
  | some prog => (2 * prog.foldl (applyChain a) 0 + diagSum a P.n) % (P.R * P.R)

def square (a : Nat) : Nat := montMulRed P (squareInt P a)

def xsquare (a : Nat) : Nat → Nat
  | 0 => a
  | k + 1 => xsquare (square P a) k

/-- zero is represented by `0` or by `q` -/
def iszero (a : Nat) : Nat := if a = 0 ∨ a = P.q then T32 else 0

def equals (a b : Nat) : Nat := iszero P (sub P a b)

/-- `inner_normalize`: subtract `q`, add it back on borrow -/
def normalize (a : Nat) : Nat := if a < P.q then a else (a - P.q) % P.R

/-! ### binary GCD layer (gfXXXX.c) -/

/-- `lin(d, u, v, f, g)`: `d ← u·f + v·g`; `f`, `g` are uint64_t read as signed -/
def lin (u v f g : Nat) : Nat :=
  let sf := sgnw f
  let af := abs64 f
  let tu := select P u (neg P u) (sf % 2 ^ 32)
  let sg := sgnw g
  let ag := abs64 g
  let tv := select P v (neg P v) (sg % 2 ^ 32)
  -- linear combination over the integers: n limbs and the last carry word t
  let D := tu * af + tv * ag
  let t := D / P.R % 2 ^ 64
  let dtop := limb D (P.n - 1)
  let h0 := (dtop / 2 ^ P.s) ||| (t * 2 ^ (64 - P.s) % 2 ^ 64)
  let h1 := t / 2 ^ P.s
  let lo := D % 2 ^ P.e
  let quo0 := bigQuo P h0
  let rem0 := sub64 h0 (P.c * quo0)
  let quo1 := (h1 * P.smallMul) % 2 ^ 64 / 2 ^ P.smallSh
  let rem1 := sub64 h1 (P.c * quo1)
  -- cc = adc(0, rem0 + (2^64 − (c+1)), rem1, &e); cc = adc(cc, quo0, rem1*linK, &f0); adc(cc, quo1, 0, &f1)
  let bias := 2 ^ 64 - (P.c + 1)
  let s0 := (rem0 + bias) % 2 ^ 64 + rem1
  let e := sub64 (s0 % 2 ^ 64) bias
  let s1 := quo0 + (rem1 * P.linK) % 2 ^ 64 + s0 / 2 ^ 64
  let f0 := s1 % 2 ^ 64
  let f1 := (quo1 + s1 / 2 ^ 64) % 2 ^ 64
  (lo + f0 + f1 * 2 ^ 64 + (e * 2 ^ P.s % 2 ^ 64) * P.topW) % P.R

/-- `lindiv31abs(d, a, b, f, g)`: `(|⌊(a·f + b·g)/2^31⌋|, sign mask)` on `n+1`-limb two's complement -/
def lindiv31abs (a b f g : Nat) : Nat × Nat :=
  let R1 := P.R * 2 ^ 64
  let af := abs64 f
  let ag := abs64 g
  -- (a ^ sf) − sf over n limbs plus the borrow word: −a on n+1 limbs
  let a' := if sgnw f = 0 then a % P.R else (R1 - a % P.R) % R1
  let b' := if sgnw g = 0 then b % P.R else (R1 - b % P.R) % R1
  let D := (a' % P.R) * af + (b' % P.R) * ag
  let t := D / P.R % 2 ^ 64
  let an := a' / P.R   -- 0 or 2^64 − 1
  let bn := b' / P.R
  let dn := sub64 (sub64 t (an &&& af)) (bn &&& ag)
  -- shift right by 31 bits, keep n limbs
  let x := (D % P.R + dn * P.R) / 2 ^ 31 % P.R
  let tt := sgnw dn
  (if tt = 0 then x else (P.R - x) % P.R, tt)

/-- highest limb index `k ≥ 1` (searching downwards from the given one) at which `m` is non-zero, else 0 -/
def topIdx (m : Nat) : Nat → Nat
  | 0 => 0
  | k + 1 => if limb m (k + 1) ≠ 0 then k + 1 else topIdx m k

/-- the 64-bit approximations `xa`, `xb` of `a`, `b` used by one outer iteration -/
def approx (a b : Nat) : Nat × Nat :=
  let j := topIdx (a ||| b) (P.n - 1)
  let tnzm := if j = 0 then 0 else limb (a ||| b) j
  let tnza := if j = 0 then 0 else limb a j
  let tnzb := if j = 0 then 0 else limb b j
  let snza := if j = 0 then 0 else limb a (j - 1)
  let snzb := if j = 0 then 0 else limb b (j - 1)
  let s := lzcnt tnzm
  let sm := decide (32 ≤ s)
  let tnza := if sm then (tnza * 2 ^ 32 % 2 ^ 64) ||| (snza / 2 ^ 32) else tnza
  let tnzb := if sm then (tnzb * 2 ^ 32 % 2 ^ 64) ||| (snzb / 2 ^ 32) else tnzb
  let s := if sm then s - 32 else s
  let tnza := tnza * 2 ^ s % 2 ^ 64
  let tnzb := tnzb * 2 ^ s % 2 ^ 64
  let tnza := if j = 0 then tnza ||| limb a 0 else tnza
  let tnzb := if j = 0 then tnzb ||| limb b 0 else tnzb
  ((limb a 0 &&& 0x7FFFFFFF) ||| (tnza &&& 0xFFFFFFFF80000000),
   (limb b 0 &&& 0x7FFFFFFF) ||| (tnzb &&& 0xFFFFFFFF80000000))

/-- state of the inner loop with packed coefficients: `xa, xb, fg0, fg1` -/
structure Inner where
  xa : Nat
  xb : Nat
  fg0 : Nat
  fg1 : Nat
deriving Repr

/-- one inner iteration of `div` on the packed coefficients -/
def innerStep (st : Inner) : Inner :=
  let odd := st.xa % 2 = 1
  let swap := odd ∧ st.xa < st.xb
  let xa := if swap then st.xb else st.xa
  let xb := if swap then st.xa else st.xb
  let fg0 := if swap then st.fg1 else st.fg0
  let fg1 := if swap then st.fg0 else st.fg1
  let xa := if odd then sub64 xa xb else xa
  let fg0 := if odd then sub64 fg0 fg1 else fg0
  ⟨xa / 2, xb, fg0, fg1 * 2 % 2 ^ 64⟩

def innerLoop : Nat → Inner → Inner
  | 0, st => st
  | k + 1, st => innerLoop k (innerStep st)

/-- unpack `fg` into the two uint64_t coefficients `(f, g)` -/
def unpack (fg : Nat) : Nat × Nat :=
  let z := (fg + 0x7FFFFFFF7FFFFFFF) % 2 ^ 64
  (sub64 (z % 2 ^ 32) 0x7FFFFFFF, sub64 (z / 2 ^ 32) 0x7FFFFFFF)

/-- state of the outer loop of `div` -/
structure DivSt where
  a : Nat
  b : Nat
  u : Nat
  v : Nat
deriving Repr

/-- one outer iteration of `div` -/
def divOuterStep (st : DivSt) : DivSt :=
  let x := approx P st.a st.b
  let r := innerLoop 31 ⟨x.1, x.2, 1, 2 ^ 32⟩
  let fg0 := unpack r.fg0
  let fg1 := unpack r.fg1
  let na := lindiv31abs P st.a st.b fg0.1 fg0.2
  let nb := lindiv31abs P st.a st.b fg1.1 fg1.2
  let f0 := cneg64 na.2 fg0.1
  let g0 := cneg64 na.2 fg0.2
  let f1 := cneg64 nb.2 fg1.1
  let g1 := cneg64 nb.2 fg1.2
  ⟨na.1, nb.1, lin P st.u st.v f0 g0, lin P st.u st.v f1 g1⟩

def divOuter : Nat → DivSt → DivSt
  | 0, st => st
  | k + 1, st => divOuter k (divOuterStep P st)

/-- state of the final loop: `xa, xb, f0, g0, f1, g1` (all uint64_t) -/
structure Fin6 where
  xa : Nat
  xb : Nat
  f0 : Nat
  g0 : Nat
  f1 : Nat
  g1 : Nat
deriving Repr

def finalStep (st : Fin6) : Fin6 :=
  let odd := st.xa % 2 = 1
  let swap := odd ∧ st.xa < st.xb
  let xa := if swap then st.xb else st.xa
  let xb := if swap then st.xa else st.xb
  let f0 := if swap then st.f1 else st.f0
  let f1 := if swap then st.f0 else st.f1
  let g0 := if swap then st.g1 else st.g0
  let g1 := if swap then st.g0 else st.g1
  let xa := if odd then sub64 xa xb else xa
  let f0 := if odd then sub64 f0 f1 else f0
  let g0 := if odd then sub64 g0 g1 else g0
  ⟨xa / 2, xb, f0, g0, f1 * 2 % 2 ^ 64, g1 * 2 % 2 ^ 64⟩

def finalLoop : Nat → Fin6 → Fin6
  | 0, st => st
  | k + 1, st => finalLoop k (finalStep st)

/-- `div(d, x, y)`: `(x / y, flag)`; flag = `~iszero(y)` -/
def div (x y : Nat) : Nat × Nat :=
  let r := not32 (iszero P y)
  let st := divOuter P P.outer ⟨normalize P y, P.q, x, 0⟩
  let fin := finalLoop P.final ⟨limb st.a 0, limb st.b 0, 1, 0, 0, 1⟩
  let d := lin P st.u st.v fin.f1 fin.g1
  (mul P d P.invt, r)

def invert (a : Nat) : Nat × Nat := div P P.one a

/-! #### Legendre symbol -/

/-- state of the Legendre inner loops: `xa, xb, fg0, fg1, ls` and the look-ahead words `a0, b0` -/
structure Leg where
  xa : Nat
  xb : Nat
  fg0 : Nat
  fg1 : Nat
  a0 : Nat
  b0 : Nat
  ls : Nat
deriving Repr

/-- one of the first 29 inner iterations (symbol update from `xa`, `xb`) -/
def legStepA (st : Leg) : Leg :=
  let odd := st.xa % 2 = 1
  let swap := odd ∧ st.xa < st.xb
  let ls := if swap then st.ls ^^^ (st.xa &&& st.xb) else st.ls
  let xa := if swap then st.xb else st.xa
  let xb := if swap then st.xa else st.xb
  let fg0 := if swap then st.fg1 else st.fg0
  let fg1 := if swap then st.fg0 else st.fg1
  let xa := if odd then sub64 xa xb else xa
  let fg0 := if odd then sub64 fg0 fg1 else fg0
  { st with xa := xa / 2, xb := xb, fg0 := fg0, fg1 := fg1 * 2 % 2 ^ 64,
            ls := ls ^^^ ((xb + 2) % 2 ^ 64 / 2) }

/-- one of the 2 extra inner iterations (symbol update from the recomputed low words `a0`, `b0`) -/
def legStepB (st : Leg) : Leg :=
  let odd := st.xa % 2 = 1
  let swap := odd ∧ st.xa < st.xb
  let ls := if swap then st.ls ^^^ (st.a0 &&& st.b0) else st.ls
  let xa := if swap then st.xb else st.xa
  let xb := if swap then st.xa else st.xb
  let fg0 := if swap then st.fg1 else st.fg0
  let fg1 := if swap then st.fg0 else st.fg1
  let a0 := if swap then st.b0 else st.a0
  let b0 := if swap then st.a0 else st.b0
  let xa := if odd then sub64 xa xb else xa
  let fg0 := if odd then sub64 fg0 fg1 else fg0
  let a0 := if odd then sub64 a0 b0 else a0
  { xa := xa / 2, xb := xb, fg0 := fg0, fg1 := fg1 * 2 % 2 ^ 64, a0 := a0 / 2, b0 := b0,
    ls := ls ^^^ ((b0 + 2) % 2 ^ 64 / 2) }

def iter {α : Type} (f : α → α) : Nat → α → α
  | 0, x => x
  | k + 1, x => iter f k (f x)

/-- one outer iteration of `legendre` on `(a, b, ls)` -/
def legOuterStep (st : Nat × Nat × Nat) : Nat × Nat × Nat :=
  let a := st.1
  let b := st.2.1
  let ls := st.2.2
  let x := approx P a b
  let r := iter legStepA 29 ⟨x.1, x.2, 1, 2 ^ 32, 0, 0, ls⟩
  let c0 := unpack r.fg0
  let c1 := unpack r.fg1
  let a0 := (limb a 0 * c0.1 + limb b 0 * c0.2) % 2 ^ 64 / 2 ^ 29
  let b0 := (limb a 0 * c1.1 + limb b 0 * c1.2) % 2 ^ 64 / 2 ^ 29
  let r := iter legStepB 2 { r with a0 := a0, b0 := b0 }
  let c0 := unpack r.fg0
  let c1 := unpack r.fg1
  let na := lindiv31abs P a b c0.1 c0.2
  let nb := lindiv31abs P a b c1.1 c1.2
  (na.1, nb.1, r.ls ^^^ (na.2 &&& limb nb.1 0))

/-- final iterations of `legendre` on `(xa, xb, ls)` -/
def legFinalStep (st : Nat × Nat × Nat) : Nat × Nat × Nat :=
  let xa := st.1
  let xb := st.2.1
  let ls := st.2.2
  let odd := xa % 2 = 1
  let swap := odd ∧ xa < xb
  let ls := if swap then ls ^^^ (xa &&& xb) else ls
  let xa' := if swap then xb else xa
  let xb' := if swap then xa else xb
  let xa' := if odd then sub64 xa' xb' else xa'
  (xa' / 2, xb', ls ^^^ ((xb' + 2) % 2 ^ 64 / 2))

/-- `legendre(x)` as the uint32_t bit pattern of the int32_t result (1, 0, 0xFFFFFFFF) -/
def legendre (x : Nat) : Nat :=
  let st := iter (legOuterStep P) P.outer (normalize P x, P.q, 0)
  let fin := iter legFinalStep P.final (limb st.1 0, limb st.2.1 0, st.2.2)
  let ls := fin.2.2
  let r := (1 + (2 ^ 32 - (ls % 2 ^ 32 &&& 2))) % 2 ^ 32
  r &&& not32 (iszero P x)

/-- `fp_is_square` of fp.c: `~(uint32_t)(ls >> 1)` with an arithmetic shift of the int32_t -/
def fp_is_square (a : Nat) : Nat :=
  let ls := legendre P a
  let sh := if 2 ^ 31 ≤ ls then ls / 2 + 2 ^ 31 else ls / 2
  not32 sh

/-! #### square root, encoding -/

/-- `sqrt(d, a)`: `(root candidate with even canonical value, flag)` -/
def sqrt (a : Nat) : Nat × Nat :=
  let y0 := if P.sqCube then mul P (square P a) a else a
  let y := mul P (xsquare P y0 P.sqK1) y0
  let y := xsquare P y P.sqK2
  let yn := montgomery_reduce P y
  let ctl := if yn % 2 = 1 then T32 else 0
  let y := select P y (neg P y) ctl
  (y, equals P (square P y) a)

/-- `encode`: the integer whose little-endian bytes are written -/
def encode (a : Nat) : Nat := montgomery_reduce P a

/-- `decode` of the integer `v < R` given by the `8n` bytes: `(value, flag)` -/
def decode (v : Nat) : Nat × Nat :=
  let v := v % P.R
  let t := if v < P.q then 2 ^ 64 - 1 else 0
  (mul P (if v < P.q then v else 0) P.r2, t % 2 ^ 32)

/-- the block loop of `decode_reduce`: `k` further blocks below byte offset `8n·k` -/
def decodeBlocks (v : Nat) : Nat → Nat → Nat
  | 0, d => d
  | k + 1, d =>
    let d := mul P d P.r2
    let blk := v / 256 ^ (8 * P.n * k) % 256 ^ (8 * P.n)
    decodeBlocks v k (add P d (partial_reduce P blk))

/-- `decode_reduce(d, src, len)`; byte `i` of `src` is `(v / 256^i) % 256` -/
def decode_reduce (len v : Nat) : Nat :=
  let bs := 8 * P.n
  if len = 0 then 0 else
  let rem := len % bs
  if rem ≠ 0 then
    let k := len / bs
    mul P (decodeBlocks P v k (v / 256 ^ (bs * k) % 256 ^ rem)) P.r2
  else
    let k := len / bs - 1
    mul P (decodeBlocks P v k (partial_reduce P (v / 256 ^ (bs * k) % 256 ^ bs))) P.r2

/-- the `fp_*` API of the x86 back-end (fp.h macro layer + fp.c) -/
def ops : FpOps Nat where
  zero := 0
  one := P.one
  add := add P
  sub := sub P
  neg := neg P
  mul := mul P
  sqr := square P
  half := half P
  inv := fun a => (invert P a).1
  sqrt := fun a => (sqrt P a).1
  isSquare := fp_is_square P
  isZero := iszero P
  isEqual := equals P
  select := select P
  cswap := cswap P
  setSmall := fun v => set_small P (v % 2 ^ 32)
  encode := encode P
  decode := decode P
  encBytes := 8 * P.n

end X86
end SqiModel.Gf

/-
Response compression of the heuristic variant (C05), as coded in
src/sqisigndim2_heuristic/ref/sqisigndim2_heuristicx/sign.c: `protocols_sign` tail (encode) and `protocols_verif`
head (decode).  Core Lean only.

`f` = TORSION_PLUS_EVEN_POWER, `a` = len_chall + two_resp_length, `n` = f - a.
`ibz_mod` = `mpz_mod` (result in [0, m)) = `Int.emod`;  `ibz_div` by a positive divisor of a non-negative number
= `Int.ediv` (every division in the encoder is of that kind under the encoder's invariants, which the
theorems state explicitly).
-/
namespace SqiModel.HeurEnc

structure Mat where
  m00 : Int
  m01 : Int
  m10 : Int
  m11 : Int
deriving Repr, DecidableEq

structure Enc where
  x : Int
  b0 : Int
  d0 : Int
  b1 : Int
  d1 : Int
  c0a : Int
  e0a : Int
  hintB : Nat
deriving Repr, DecidableEq

/-- which entry the code inverts to define `x`, and the value of `hint_b` (four-way branch of the signer) -/
inductive Pivot where
  | m00 | m10 | m01 | m11
deriving Repr, DecidableEq

def pivot (M : Mat) : Pivot :=
  if M.m00 % 2 ≠ 0 then .m00 else if M.m10 % 2 ≠ 0 then .m10 else if M.m01 % 2 ≠ 0 then .m01 else .m11

def hintB (M : Mat) : Nat := match pivot M with | .m00 => 0 | .m10 => 1 | .m01 => 0 | .m11 => 1

/-- one column `(top, bot)` of the matrix as the encoder treats it: low part of `top` (sent as b0 / d0), the
combined high part `(c1 - t1·x) mod 2^a` (sent as b1 / d1) and the adjustment (c0_adjust / e0_adjust, only when a ≤ n) -/
def encCol (f a : Nat) (top bot x : Int) : Int × Int × Int :=
  let n := f - a
  let pa : Int := 2 ^ a
  let pn : Int := 2 ^ n
  let t0 := top % pn
  let t1 := (top - t0) / pn
  let c0 := bot % pn
  let adj := if a ≤ n then (c0 - (x * t0) % pa) / pa else 0
  let c1 := (bot - c0) / pn
  (t0, (c1 - t1 * x) % pa, adj)

/-- the verifier's re-expansion of the second-row entry of one column -/
def decCol (f a : Nat) (t0 s adj x : Int) : Int :=
  let n := f - a
  let pa : Int := 2 ^ a
  let pn : Int := 2 ^ n
  if a ≤ n then pn * s + ((t0 * x) % pa + pa * adj) else pn * s + (t0 * x) % pn

/-- the part of the encoder after `x` has been computed (`hint_b = 0` branch; the other branch is `assert(0)`,
i.e. nothing is written when assertions are compiled out) -/
def encode (f a : Nat) (M : Mat) (x : Int) : Enc :=
  let c0 := encCol f a M.m00 M.m10 x
  let c1 := encCol f a M.m01 M.m11 x
  ⟨x, c0.1, c1.1, c0.2.1, c1.2.1, c0.2.2, c1.2.2, 0⟩

/-- the verifier's re-expansion -/
def decode (f a : Nat) (e : Enc) : Mat :=
  ⟨e.b0, e.d0, decCol f a e.b0 e.b1 e.c0a e.x, decCol f a e.d0 e.d1 e.e0a e.x⟩

end SqiModel.HeurEnc

/-
C17 — hand model of src/quaternion/ref/generic/matkermod.c (Howell form and right kernel modulo an
arbitrary modulus) and of `ibz_4x4_right_ker_mod_power_of_2` (dim4.c).

Faithful transcription of the C control flow (nested loops, in-place column operations, the hand-written
row updates next to `gen_elem`, the dead stores into `howell` at the end of `ibz_mat_right_ker_mod`), with
GMP = exact `Int` through the primitives of `SqiModel.Intbig` (`ibzXgcd`, `ibzXgcdAnn`, `ibzDiv`, `ibzMod`).
The transformation matrix `trans` is always computed (when the C is called with `trans = NULL` it is simply
not returned; it is never read by the computation of `howell`).
Imperative style (`Id.run do`, mutable arrays) to stay close to the C text.  Core Lean only.
-/
import SqiModel.Intbig
import SqiModel.HowellUnit
namespace SqiModel.Howell
open SqiModel.Intbig

abbrev M := Array (Array Int)

def mk (r c : Nat) : M := Array.replicate r (Array.replicate c 0)
def g (a : M) (i j : Nat) : Int := (a.getD i #[]).getD j 0
def s (a : M) (i j : Nat) (v : Int) : M := a.setIfInBounds i ((a.getD i #[]).setIfInBounds j v)
def ofLists (l : List (List Int)) : M := (l.map List.toArray).toArray
def toLists (a : M) : List (List Int) := (a.map Array.toList).toList

-- `gcdI` and `unit` (the Stabilizer/Split helper, proved in SqiProofs.C17.Unit) live in SqiModel.HowellUnit

/-- `gen_elem`: (col j | col k) ← (col j | col k)·U on rows start..end-1, U = [[u00,u01],[u10,u11]] -/
def genElem (a : M) (j k start stop : Nat) (u00 u01 u10 u11 mod : Int) : M := Id.run do
  let mut a := a
  for i in [start:stop] do
    let aj := g a i j
    let ak := g a i k
    let t1 := aj * u00 + ak * u10
    let nk := aj * u01 + ak * u11
    a := s a i j (ibzMod t1 mod)
    a := s a i k (ibzMod nk mod)
  return a

def swapCol (a : M) (nrows j k : Nat) : M := Id.run do
  let mut a := a
  for i in [0:nrows] do
    let t := g a i j
    a := s a i j (g a i k)
    a := s a i k t
  return a

def isColZero (a : M) (nrows j : Nat) : Bool := Id.run do
  let mut z := true
  for i in [0:nrows] do
    if g a i j ≠ 0 then z := false
  return z

/-- `ibz_mat_howell(rows, cols, howell, trans, mat, mod)`: returns (howell, trans, number of zero columns) -/
def matHowell (rows cols : Nat) (mat : M) (mod : Int) : M × M × Nat := Id.run do
  let extra := rows + 1 - cols
  let mut H := mk rows (rows + 1)
  for i in [0:rows] do
    for j in [0:cols] do
      H := s H i (j + extra) (ibzMod (g mat i j) mod)
  let mut T := mk (rows + 1) (rows + 1)
  for i in [0:rows + 1] do
    T := s T i i 1
  -- upper triangular form: for (i = rows-1; i >= extra-1; i--) for (j = extra; j <= i; j++)
  for ii in [0:rows + 1 - extra] do
    let i := rows - 1 - ii
    for j in [extra:i + 1] do
      if g H i j ≠ 0 then
        let (gcd, u00, u10, u01, u11) := ibzXgcdAnn (g H i j) (g H i (i + 1))
        H := genElem H j (i + 1) 0 i u00 u01 u10 u11 mod
        H := s H i j 0
        H := s H i (i + 1) gcd
        T := genElem T j (i + 1) 0 (rows + 1) u00 u01 u10 u11 mod
  -- reduced Howell form: for (i = rows-1; i >= 0; i--)
  for ii in [0:rows] do
    let i := rows - 1 - ii
    let (ok, u, gcd) := unit (g H i (i + 1)) mod
    if ok then
      for k in [0:i] do
        H := s H k (i + 1) (ibzMod (g H k (i + 1) * u) mod)
      H := s H i (i + 1) gcd
      for k in [0:rows + 1] do
        T := s T k (i + 1) (ibzMod (g T k (i + 1) * u) mod)
    if g H i (i + 1) ≠ 0 then
      for j in [i + 2:rows + 1] do
        let pivot := g H i (i + 1)
        let (q, r) := ibzDiv (g H i j) pivot
        H := s H i j r
        for k in [0:i] do
          H := s H k j (ibzMod (g H k j - q * g H k (i + 1)) mod)
        for k in [0:rows + 1] do
          T := s T k j (ibzMod (g T k j - q * g T k (i + 1)) mod)
    if i > 0 then
      let gcd2 := gcdI (g H i (i + 1)) mod
      if gcd2 ≠ 1 then
        let u2 := (ibzDiv mod gcd2).1
        for k in [0:rows] do
          if k < i then H := s H k 0 (ibzMod (g H k (i + 1) * u2) mod)
          else H := s H k 0 0
        for k in [0:rows + 1] do
          T := s T k 0 (ibzMod (g T k 0 + u2 * g T k (i + 1)) mod)
        for jj in [0:i] do
          let i2 := i - 1 - jj
          if g H i2 0 ≠ 0 then
            if g H i2 (i2 + 1) = 0 then
              H := swapCol H rows 0 (i2 + 1)
              T := swapCol T (rows + 1) 0 (i2 + 1)
            else
              let (gcd3, u00, u10, u01, u11) := ibzXgcdAnn (g H i2 0) (g H i2 (i2 + 1))
              H := genElem H 0 (i2 + 1) 0 i2 u00 u01 u10 u11 mod
              H := s H i2 0 0
              H := s H i2 (i2 + 1) gcd3
              T := genElem T 0 (i2 + 1) 0 (rows + 1) u00 u01 u10 u11 mod
  -- put zero columns first: for (read = rows, write = rows; read >= 1; read--)
  let mut write := rows
  for rr in [0:rows] do
    let read := rows - rr
    if !isColZero H rows read then
      if read < write then
        H := swapCol H rows read write
        T := swapCol T (rows + 1) read write
      write := write - 1
  return (H, T, write + 1)

/-- `ibz_mat_right_ker_mod(rows, cols, ker, mat, mod)` (cols ≤ rows): the cols × cols result -/
def matRightKerMod (rows cols : Nat) (mat : M) (mod : Int) : M := Id.run do
  let extra := rows + 1 - cols
  let (H, T, _) := matHowell rows cols mat mod
  -- right kernel of the Howell form: for (j = rows, i = rows-1; j >= 0; j--)
  let mut P := mk (rows + 1) (rows + 1)
  let mut i : Int := (rows : Int) - 1
  for jj in [0:rows + 1] do
    let j := rows - jj
    -- while (i >= 0 && howell[i][j] == 0) i--   (at most rows steps)
    for _ in [0:rows] do
      if i ≥ 0 ∧ g H i.toNat j = 0 then i := i - 1
    if i < 0 then
      P := s P j j 1
    else
      let pivot := g H i.toNat j
      let t := gcdI pivot mod
      if t ≠ 1 then P := s P j j (ibzDiv mod t).1
      for j2 in [j + 1:rows + 1] do
        let mut acc := g P j j2
        for k in [j + 1:rows + 1] do
          acc := acc + g H i.toNat k * g P k j2
        acc := ibzMod acc mod
        let q := (ibzDiv acc pivot).1
        P := s P j j2 q
        if q ≠ 0 then P := s P j j2 (mod - q)
  -- apply (bottom part of) the transition matrix
  let mut K := mk cols (rows + 1)
  for a in [0:cols] do
    for b in [0:rows + 1] do
      let mut acc : Int := 0
      for k in [0:rows + 1] do
        acc := acc + g T (a + extra) k * g P k b
      K := s K a b (ibzMod acc mod)
  -- move zero columns to the start: for (read = rows, write = rows; read >= 0; read--)
  let mut write : Int := rows
  for rr in [0:rows + 1] do
    let read := rows - rr
    if !isColZero K cols read then
      if (read : Int) < write then K := swapCol K cols read write.toNat
      write := write - 1
  -- upper triangular form
  let ds := rows - cols + 1
  for ii in [0:cols] do
    let a := cols - 1 - ii
    for j in [(write + 1).toNat:a + ds] do
      if g K a j ≠ 0 then
        let (_, u00, u10, u01, u11) := ibzXgcdAnn (g K a j) (g K a (a + ds))
        K := genElem K j (a + ds) 0 (a + 1) u00 u01 u10 u11 mod
  let mut R := mk cols cols
  for a in [0:cols] do
    for b in [0:cols] do
      R := s R a b (g K a (b + rows - cols + 1))
  return R

/-- `ibz_4x4_right_ker_mod_power_of_2(ker, mat, exp)` -/
def ker4x4ModPow2 (mat : M) (e : Nat) : Res (List Int) := Id.run do
  let pow2 : Int := 2 ^ e
  let full := matRightKerMod 4 4 mat pow2
  let (H, _, zeros) := matHowell 4 4 full pow2
  let mut dim := 0
  let mut ker : List Int := []
  for j in [zeros:5] do
    let mut prim := false
    for i in [0:4] do
      if g H i j % 2 ≠ 0 then prim := true
    if prim then
      ker := [g H 0 j, g H 1 j, g H 2 j, g H 3 j]
      dim := dim + 1
  return (if dim = 1 then .ok ker else .fail)

end SqiModel.Howell

/-
C17 — `unit` of matkermod.c (static helper of the Howell form): given x ≠ 0 and the modulus, a unit u modulo `mod`
with u·x ≡ gcd(x, mod).  Functional transcription (the squaring loop `for (i = bitsize(nmod2); i > 0; i >>= 1)` is
`sqIter`).  Used by `SqiModel.Howell.matHowell`.  Core Lean only.
-/
import SqiModel.Intbig
namespace SqiModel.Howell
open SqiModel.Intbig

def gcdI (a b : Int) : Int := (gcdext a b).1

/-- k iterations of `stab = stab*stab mod m` -/
def sqIter (m : Int) : Nat → Int → Int
  | 0, s => s
  | k + 1, s => sqIter m k (ibzMod (s * s) m)

/-- number of iterations of `for (int i = b; i > 0; i >>= 1)` -/
def halvings (b : Nat) : Nat := if b = 0 then 0 else b.log2 + 1

/-- `unit(unit, gcd, x, mod)`: (found, u, gcd) -/
def unit (x mod : Int) : Bool × Int × Int :=
  if x = 0 then (false, 0, 0) else
    let r := ibzXgcd x mod
    let gcd := r.1
    let u := r.2.1
    let nmod := (ibzDiv mod gcd).1
    let stab0 := gcdI u nmod
    let nmod2 := (ibzDiv mod stab0).1
    let stab1 := (ibzDiv u stab0).1
    let stab2 := sqIter nmod2 (halvings (sizeInBase2 nmod2)) stab1
    let stab3 := gcdI stab2 nmod2
    let stab4 := (ibzDiv nmod2 stab3).1
    (true, ibzMod (u + stab4 * nmod) mod, gcd)

end SqiModel.Howell

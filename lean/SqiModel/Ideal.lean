import SqiModel.Quat
/- Hand model (tie H) of src/quaternion/ref/generic/ideal.c (left ideals of quaternion orders) and of the
   data layout of `quat_p_extremal_maximal_order_t` (src/precomp/ref/lvl{1,3,5}/quaternion_data.c).
   Built on the exact-`Int` model of algebra.c / dim4.c / lattice.c in `SqiModel.Quat`.

   * Modelled operation by operation: `quat_lideal_create_principal`, `quat_lideal_create_from_primitive`,
     `quat_lideal_make_primitive_then_create`, `quat_lideal_add`, `quat_lideal_inter`,
     `quat_lideal_generator(_coprime)` (the enumeration order exactly as coded), `quat_lideal_mul`,
     `quat_lideal_equals`, `quat_connecting_ideal`.
   * NOT modelled line by line: `quat_lattice_right_transporter` (modular kernel of matkermod.c + Howell form),
     `quat_lideal_right_order`, `quat_lideal_isom` (floating point LLL).  For those the model contains
     *checkers* that take the C output as a certificate (`isRightTransporterCert`, `isRightOrderCert`,
     `isomCert`); the checkers are proved sound in SqiProofs/Ideal*.lean and run on every C output by the
     correspondence harness.
   The parent order of an ideal is a pointer in C; here it is the order's lattice *value*.
   Core Lean only (linked into the driver). -/
namespace SqiModel.Ideal
open SqiModel.Quat

/-! ## small integer helpers (intbig.c) -/

/-- `ibz_sqrt`: when `a` is a perfect square (`mpz_perfect_square_p`: 0 and 1 are, negatives are not) the root is
    written and 1 returned; otherwise the destination is **left untouched** and 0 returned.  `prev` is the value
    the destination had before the call. -/
def ibzSqrt (prev a : Int) : Bool × Int :=
  if a < 0 then (false, prev)
  else
    let s := Nat.sqrt a.toNat
    if s * s = a.toNat then (true, (s : Int)) else (false, prev)

/-- value of an `ibq_t` after `quat_alg_norm` into a rational that held `prev`:
    `ibq_set` returns 0 and leaves the rational untouched when the denominator is 0 -/
def normInto (prev : Int × Int) (p : Int) (x : Elem) : Int × Int :=
  match algNorm p x with
  | some q => q
  | none => prev

/-- `ibq_to_ibz`: `(flag, value)`; `mpz_divisible_p (num, den)`, value untouched (`prev`) when not integral.
    (`den > 0` for every canonical `mpq_t`; `den = 0` would make `mpz_divisible_p` true only for `num = 0`.) -/
def ibqToIbz (prev : Int) (q : Int × Int) : Bool × Int :=
  if q.2 = 0 then (if q.1 = 0 then (true, 0) else (false, prev))
  else if Int.tmod q.1 q.2 = 0 then (true, Int.tdiv q.1 q.2) else (false, prev)

/-! ## left ideals -/

/-- `quat_left_ideal_t`; `order` is the *value* of `*parent_order` -/
structure LeftIdeal where
  lattice : Lattice
  norm : Int
  order : Lattice
deriving DecidableEq, Repr, Inhabited

/-- the lattice `O·x` as computed by `quat_lideal_create_principal`:
    basis = rightmul_mat(x) · basis(O), denominator `x.denom · O.denom`, then reduce_denom and HNF -/
def principalLattice (p : Int) (x : Elem) (order : Lattice) : Lattice :=
  latHnf (latReduceDenom ⟨x.denom * order.denom, (rightMulMat p x).mul order.basis⟩)

/-- `quat_lideal_create_principal`.  `prevNorm` is the previous content of `lideal->norm` (0 after
    `quat_left_ideal_init`): it survives when N(x) is not an integer (the assert is compiled out). -/
def createPrincipal (p : Int) (x : Elem) (order : Lattice) (prevNorm : Int := 0) : LeftIdeal :=
  let nq := normInto (0, 1) p x
  ⟨principalLattice p x order, (ibqToIbz prevNorm nq).2, order⟩

/-- `quat_lideal_create_from_primitive`: `I = O·x + O·N`, stored norm `gcd(N(x), N)`.
    (The `#ifndef NDEBUG` index check is compiled out of the pinned build and not modelled.) -/
def createFromPrimitive (p : Int) (x : Elem) (N : Int) (order : Lattice) (prevNorm : Int := 0) : LeftIdeal :=
  let I0 := createPrincipal p x order prevNorm
  let nrm := ibzGcd I0.norm N
  let oN : Lattice := ⟨order.denom, order.basis.scalarMul N⟩
  ⟨latAdd I0.lattice oN, nrm, order⟩

/-- `quat_lideal_make_primitive_then_create` (x must lie in `order` and be non-zero: otherwise the C code divides
    by a zero content) -/
def makePrimitiveThenCreate (p : Int) (x : Elem) (N : Int) (order : Lattice) (prevNorm : Int := 0) : LeftIdeal :=
  let mp := makePrimitive order x
  let prim : Elem := ⟨order.denom, order.basis.eval mp.1⟩
  let imprim := ibzGcd mp.2 N
  let n1 := (ibzDiv N imprim).1
  createFromPrimitive p prim n1 order prevNorm

/-- common tail of `quat_lideal_add` / `quat_lideal_inter`: norm := index in the parent order, replaced by its
    square root when it is a perfect square (the `assert(ok)` is compiled out) -/
def withIndexNorm (lat : Lattice) (order : Lattice) : LeftIdeal :=
  let idx := latIndex lat order
  ⟨lat, (ibzSqrt idx idx).2, order⟩

/-- `quat_lideal_add` (parent order taken from `I1`) -/
def lidealAdd (I1 I2 : LeftIdeal) : LeftIdeal := withIndexNorm (latAdd I1.lattice I2.lattice) I1.order

/-- `quat_lideal_inter` (parent order taken from `I1`) -/
def lidealInter (I1 I2 : LeftIdeal) : LeftIdeal := withIndexNorm (latIntersect I1.lattice I2.lattice) I1.order

/-- `quat_lideal_equals`: same parent order (pointer equality in C; value equality here), same norm, and
    `quat_lattice_equal` -/
def lidealEquals (I1 I2 : LeftIdeal) : Bool :=
  I1.order == I2.order && I1.norm == I2.norm && latEqual I1.lattice I2.lattice

/-! ## generators -/

/-- the integers `lo, lo+1, …, hi` (a C `for (v = lo; v <= hi; v++)`) -/
def intRange (lo hi : Int) : List Int := (List.range (hi - lo + 1).toNat).map (fun (k : Nat) => lo + (k : Int))

/-- `QUATERNION_lideal_generator_search_bound` -/
def defaultSearchBound : Int := 1024

/-- candidate element for the coefficient vector `v`: `gen = (basis · v) / denom` -/
def genCandidate (I : LeftIdeal) (v : Vec4) : Elem := ⟨I.lattice.denom, I.lattice.basis.eval v⟩

/-- the acceptance tests of `quat_lideal_generator_coprime` on a candidate, in the order coded:
    N(gen) integral; N(I) | N(gen); gcd(N(I)·n, N(gen)/N(I)) = 1; gcd(n², N(gen)) = gcd(n, N(I)).
    (N(I) = 0 makes the C code divide by zero.) -/
def genAccept (p : Int) (I : LeftIdeal) (n : Int) (gen : Elem) : Bool :=
  let nq := normInto (0, 1) p gen
  let r := ibqToIbz 0 nq
  if !r.1 then false
  else
    let normInt := r.2
    let qr := ibzDiv normInt I.norm
    if qr.2 ≠ 0 then false
    else if ibzGcd (I.norm * n) qr.1 ≠ 1 then false
    else ibzGcd (n * n) normInt == ibzGcd n I.norm

/-- innermost body for fixed `int_norm, a, b, c` -/
def genTry (p : Int) (I : LeftIdeal) (n : Int) (m a b c : Int) : Option Elem :=
  let d := m - (a.natAbs : Int) - (b.natAbs : Int) - (c.natAbs : Int)
  let v : Vec4 := ⟨a, b, c, d⟩
  if v.content = 1 then
    let g := genCandidate I v
    if genAccept p I n g then some g else none
  else none

/-- the four nested loops of `quat_lideal_generator_coprime` for one value `m` of `int_norm` -/
def genSearchNorm (p : Int) (I : LeftIdeal) (n : Int) (m : Int) : Option Elem :=
  (intRange (-m) m).findSome? fun a =>
    (intRange (-m + (a.natAbs : Int)) (m - (a.natAbs : Int))).findSome? fun b =>
      (intRange (-m + (a.natAbs : Int) + (b.natAbs : Int)) (m - (a.natAbs : Int) - (b.natAbs : Int))).findSome? fun c =>
        genTry p I n m a b c

/-- `quat_lideal_generator_coprime`: `none` = returns 0 (the C output element then holds the last candidate tried,
    which is not modelled), `some gen` = returns 1 with `gen`.  `bound = 0` selects the default bound. -/
def generatorCoprime (p : Int) (I : LeftIdeal) (n : Int) (bound : Int) : Option Elem :=
  let used := if bound ≠ 0 then bound else defaultSearchBound
  (intRange 1 (used - 1)).findSome? fun m => genSearchNorm p I n m

/-- `quat_lideal_generator` -/
def generator (p : Int) (I : LeftIdeal) (bound : Int) : Option Elem := generatorCoprime p I 1 bound

/-! ## multiplication by an element -/

/-- `quat_lideal_mul`: `none` = returns 0 (no generator found), `some product` otherwise.
    `bound` is hard-coded to 0 (default) in the C code; it is a parameter here only to allow bounded tests. -/
def lidealMul (p : Int) (I : LeftIdeal) (alpha : Elem) (bound : Int := 0) (prevNorm : Int := 0) : Option LeftIdeal :=
  let nq := normInto (0, 1) p alpha
  let dn := ibzGcd nq.2 nq.1
  let normInt := (ibzDiv nq.1 dn).1
  match generatorCoprime p I normInt bound with
  | none => none
  | some g =>
    let gen := algMul p g alpha
    -- ibq_set(norm_lideal, N(I), 1); ibq_mul(norm, norm, norm_lideal)  (canonical product)
    let prod : Int × Int := match ibqSet (nq.1 * I.norm) nq.2 with
      | some q => q
      | none => (0, 1)
    let normInt' := (ibqToIbz normInt prod).2
    some (createFromPrimitive p gen normInt' I.order prevNorm)

/-! ## connecting ideal -/

/-- `quat_connecting_ideal`: `N·O₁ + Σ_i O₁·(N·b_i)` with `N = [O₁ : O₁ ∩ O₂]` and `b_i` the basis of `O₂` -/
def connectingIdeal (p : Int) (O1 O2 : Lattice) (prevNorm : Int := 0) : LeftIdeal :=
  let inter := latIntersect O1 O2
  let nrm := latIndex inter O1
  let gens := O2.basis.scalarMul nrm
  let c0 := createPrincipal p (algScalar nrm 1) O1 prevNorm
  let I (i : Nat) := createPrincipal p ⟨O2.denom, gens.col i⟩ O1
  lidealAdd (lidealAdd (lidealAdd (lidealAdd c0 (I 0)) (I 1)) (I 2)) (I 3)

/-! ## certificate checkers for the parts of the C code that are not modelled line by line -/

def idx4 : List Nat := [0, 1, 2, 3]

/-- basis column `k` of a lattice as an algebra element -/
def latCol (l : Lattice) (k : Nat) : Elem := ⟨l.denom, l.basis.col k⟩

/-- every product (basis vector of `l1`)·(basis vector of `l2`) lies in `l3` (`l3` in HNF, full rank) -/
def prodsContained (p : Int) (l1 l2 l3 : Lattice) : Bool :=
  idx4.all fun k => idx4.all fun i => (latContains l3 (algMul p (latCol l1 k) (latCol l2 i))).1

/-- Hermite normal form with positive diagonal, as a direct formula: zero below the diagonal, `0 < m[r][r]`,
    `0 ≤ m[r][c] < m[r][r]` to the right of it.  (For a non-zero diagonal this is what `ibz_mat_4x4_is_hnf` tests.) -/
def isHnfStrict (m : Mat4) : Bool :=
  idx4.all fun r => decide (0 < m.get r r) && idx4.all fun c =>
    if c < r then m.get r c == 0
    else if r < c then decide (0 ≤ m.get r c) && decide (m.get r c < m.get r r)
    else true

/-- basic well-formedness required by `latContains`: HNF basis with positive diagonal, non-zero denominator -/
def latWf (l : Lattice) : Bool := l.denom != 0 && l.basis.isHnf && isHnfStrict l.basis

/-- product of the diagonal (= determinant for the upper triangular HNF bases) -/
def diagProd (m : Mat4) : Int := m.get 0 0 * m.get 1 1 * m.get 2 2 * m.get 3 3

def pow4 (x : Int) : Int := (x * x) * (x * x)

/-- covolume comparison `covol(l1) · b = covol(l2) · a` for HNF lattices, i.e.
    `covol(l1)/covol(l2) = a/b` with `covol(l) = |det basis| / denom⁴` -/
def covolRatioIs (l1 l2 : Lattice) (a b : Int) : Bool :=
  (diagProd l1.basis).natAbs * (pow4 l2.denom).natAbs * b.natAbs
    == (diagProd l2.basis).natAbs * (pow4 l1.denom).natAbs * a.natAbs

/-- Certificate check for `quat_lattice_right_transporter(T; L1, L2)`:
    `incl`: `L1 · T ⊆ L2` (all 16 products of basis vectors are in `L2`), so `T ⊆ {x | L1·x ⊆ L2}`. -/
def isRightTransporterCert (p : Int) (L1 L2 T : Lattice) : Bool :=
  latWf L2 && L1.denom != 0 && T.denom != 0 && prodsContained p L1 T L2

/-- For two left ideals `I1, I2` of the same *maximal* order the transporter `I1⁻¹·I2` has covolume
    `covol(O)·(N(I2)/N(I1))²`; together with the inclusion this forces `T` to be the whole transporter. -/
def transporterCovolOk (I1 I2 : LeftIdeal) (T : Lattice) : Bool :=
  covolRatioIs T I1.order (I2.norm * I2.norm) (I1.norm * I1.norm)

/-- the element 1 -/
def elemOne : Elem := ⟨1, ⟨1, 0, 0, 0⟩⟩

/-- the conjugates of the basis vectors lie in the lattice -/
def conjContained (O : Lattice) : Bool := idx4.all fun k => (latContains O (algConj (latCol O k))).1

/-- `O` is a ring stable under conjugation: HNF, contains 1, closed under multiplication and conjugation -/
def isOrderCert (p : Int) (O : Lattice) : Bool :=
  latWf O && (latContains O elemOne).1 && prodsContained p O O O && conjContained O

/-- `x / n` -/
def elemDivInt (x : Elem) (n : Int) : Elem := ⟨x.denom * n, x.coord⟩

/-- every `b̄_k·c_i / n` (b_k basis of `l1`, c_i basis of `l2`) lies in `T`, i.e. `l̄1·l2 ⊆ n·T` -/
def conjProdsContained (p n : Int) (l1 l2 T : Lattice) : Bool :=
  idx4.all fun k => idx4.all fun i =>
    (latContains T (elemDivInt (algMul p (algConj (latCol l1 k)) (latCol l2 i)) n)).1

/-- Certificate check for `quat_lideal_right_order(O'; I)`: `O'` is a ring (contains 1, closed under
    multiplication), `I·O' ⊆ I`, and `O'` has the same covolume as the parent order of `I`
    (same discriminant: if the parent order is maximal, so is `O'`, hence `O'` is the whole right order). -/
def isRightOrderCert (p : Int) (I : LeftIdeal) (O' : Lattice) : Bool :=
  isOrderCert p O' && latWf I.lattice && prodsContained p I.lattice O' I.lattice &&
  covolRatioIs O' I.order 1 1

/-- **Complete** certificate check for `quat_lattice_right_transporter(T; I1, I2)` on left ideals of the same order:
    `I1·T ⊆ I2` *and* `Ī1·I2 ⊆ N(I1)·T`.  For `I1` of norm `N(I1)` with `N(I1) ∈ Ī1·I1` (e.g. any ideal with a generator
    of cofactor coprime to the norm) the transporter is `N(I1)⁻¹·Ī1·I2`, so acceptance means `T` *is* the transporter. -/
def isRightTransporterExact (p : Int) (I1 I2 : LeftIdeal) (T : Lattice) : Bool :=
  isRightTransporterCert p I1.lattice I2.lattice T && latWf T && I1.norm != 0 && I2.lattice.denom != 0 &&
  conjProdsContained p I1.norm I1.lattice I2.lattice T

/-- complete certificate check for `quat_lideal_right_order` -/
def isRightOrderExact (p : Int) (I : LeftIdeal) (O' : Lattice) : Bool := isRightTransporterExact p I I O'

/-- the lattice `L·x` (columns `b_k·x`), in HNF with reduced denominator: the same computation as
    `quat_lideal_create_principal` performs on the order's basis -/
def latMulElem (p : Int) (L : Lattice) (x : Elem) : Lattice := principalLattice p x L

/-- Certificate check for `quat_lideal_isom(iso; I1, I2) = 1`: `I1·iso = I2` as lattices
    (`I2` in HNF with reduced denominator, as every constructor leaves it) -/
def isomCert (p : Int) (I1 I2 : Lattice) (iso : Elem) : Bool :=
  iso.denom != 0 && I1.denom != 0 && latWf (latMulElem p I1 iso) && latWf I2 && latEqual (latMulElem p I1 iso) I2

/-- the check `quat_lideal_create_from_primitive` performs only in debug builds, without the division:
    `covol(I) = N(I)²·covol(O)`, i.e. `N(I)² = [O : I]` -/
def normCovolOk (I : LeftIdeal) : Bool :=
  latWf I.lattice && latWf I.order && covolRatioIs I.lattice I.order (I.norm * I.norm) 1

/-- certificate check for a reported generator: `O·g + O·N(I)` (recomputed by the verified constructor) is `I` -/
def generatorCert (p : Int) (I : LeftIdeal) (g : Elem) : Bool :=
  g.denom != 0 && I.order.denom != 0 && latWf I.lattice && latWf (createFromPrimitive p g I.norm I.order).lattice &&
  latEqual (createFromPrimitive p g I.norm I.order).lattice I.lattice

/-- left-ideal test: `O·I ⊆ I` on basis vectors -/
def isLeftIdealCert (p : Int) (O I : Lattice) : Bool := latWf I && prodsContained p O I I

/-! ## extremal maximal orders (`quat_p_extremal_maximal_order_t`) as emitted by the table translator -/

def vecOfList : List Int → Option Vec4
  | [a, b, c, d] => some ⟨a, b, c, d⟩
  | _ => none

def matOfRows : List (List Int) → Option Mat4
  | [r0, r1, r2, r3] => do
    let a ← vecOfList r0; let b ← vecOfList r1; let c ← vecOfList r2; let d ← vecOfList r3
    pure ⟨a, b, c, d⟩
  | _ => none

/-- `quat_lattice_t` initialiser `(denom, basis[4][4])` (row-major as in C) -/
def latOfTable (t : Int × List (List Int)) : Option Lattice := (matOfRows t.2).map fun m => ⟨t.1, m⟩

def elemOfTable (t : Int × List Int) : Option Elem := (vecOfList t.2).map fun v => ⟨t.1, v⟩

/-- determinant by the cofactor code of `ibz_mat_4x4_inv_with_det_as_denom` -/
def det4 (m : Mat4) : Int := m.invWithDet.2

/-- Discriminant of the lattice w.r.t. the reduced trace form `(x,y) ↦ trd(x·ȳ)`, whose Gram matrix in the basis
    (1,i,j,ij) is `2·diag(1,1,p,p)`: `disc = 16·p²·det(B)²/d⁸`, returned as `(numerator, denominator)`.
    A maximal order of the algebra ramified at p and ∞ has `disc = p²` (reduced discriminant p). -/
def traceDisc (p : Int) (O : Lattice) : Int × Int :=
  (16 * p * p * (det4 O.basis * det4 O.basis), pow4 O.denom * pow4 O.denom)

/-- `disc(O) = p²` exactly -/
def hasMaximalDisc (p : Int) (O : Lattice) : Bool :=
  let d := traceDisc p O
  d.2 != 0 && d.1 == p * p * d.2

/-- `d²·trd(a·b̄)` for two coordinate vectors over the common denominator `d`: `2(a0b0 + a1b1 + p·a2b2 + p·a3b3)` -/
def bilForm (p : Int) (a b : Vec4) : Int := 2 * (a.x0 * b.x0 + a.x1 * b.x1 + p * (a.x2 * b.x2) + p * (a.x3 * b.x3))

/-- Gram matrix of the reduced trace form `(x, y) ↦ trd(x·ȳ)` on the basis of `O` (exact quotients by `d²`) -/
def traceGram (p : Int) (O : Lattice) : Mat4 :=
  Mat4.ofFn fun i j => Int.tdiv (bilForm p (O.basis.col i) (O.basis.col j)) (O.denom * O.denom)

/-- the trace form is integral on `O` (all `trd(b_i·b̄_j) ∈ ℤ`, all `N(b_i) ∈ ℤ`) and its Gram determinant is `p²`
    (so the form is unimodular at every prime `ℓ ≠ p`) -/
def gramOk (p : Int) (O : Lattice) : Bool :=
  (idx4.all fun i => idx4.all fun j =>
    Int.tmod (bilForm p (O.basis.col i) (O.basis.col j)) (O.denom * O.denom) == 0) &&
  (idx4.all fun i => Int.tmod (bilForm p (O.basis.col i) (O.basis.col i)) (2 * (O.denom * O.denom)) == 0) &&
  det4 (traceGram p O) == p * p

/-- a maximal-order table entry: HNF, ring closed under conjugation, discriminant p², integral unimodular-away-from-p
    trace form -/
def maxOrderOk (p : Int) (t : Int × List (List Int)) : Bool :=
  match latOfTable t with
  | some O => isOrderCert p O && hasMaximalDisc p O && gramOk p O
  | none => false

/-- `z² = -q`, `t² = -p`, `z·t = -t·z` on coordinates (denominators multiply) -/
def extremalElemsOk (p : Int) (z t : Elem) (q : Int) : Bool :=
  z.denom != 0 && t.denom != 0 &&
  (algMul p z z).coord == ⟨-q * (z.denom * z.denom), 0, 0, 0⟩ &&
  (algMul p t t).coord == ⟨-p * (t.denom * t.denom), 0, 0, 0⟩ &&
  (algMul p z t).coord == (algMul p t z).coord.neg

/-- a `quat_p_extremal_maximal_order_t` entry `(order, i, j, q)`: maximal order containing `i`, `j` with
    `i² = -q`, `j² = -p`, `ij = -ji`, `q > 0` -/
def extremalOk (p : Int) (e : (Int × List (List Int)) × (Int × List Int) × (Int × List Int) × Int) : Bool :=
  match latOfTable e.1, elemOfTable e.2.1, elemOfTable e.2.2.1 with
  | some O, some z, some t =>
    maxOrderOk p e.1 && (latContains O z).1 && (latContains O t).1 && extremalElemsOk p z t e.2.2.2 &&
    decide (0 < e.2.2.2)
  | _, _, _ => false

end SqiModel.Ideal

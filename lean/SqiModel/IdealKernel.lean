/-
Hand model (tie H) of the linear-algebra core of src/id2iso/ref/id2isox/id2iso.c (C13), over integers modulo N = 2^f with
the generated action matrices (lists of rows, as in SqiGen):

  id2iso_kernel_dlogs_to_ideal_two   ↦ `kernelToIdealGen`   (the generator a − i + b·(j + (1+k)/2) as coordinates over (1,i,j,k)/2)
  id2iso_ideal_to_kernel_dlogs_even  ↦ `idealToKernel`      (given the coordinates of the conjugate generator in the O0-basis)
  matrix_of_endomorphism_even / endomorphism_application_even_basis (matrix part) ↦ `matOfCoeffs`
  find_uv (inner arithmetic step)    ↦ `findUVStep`
  fixed_degree_isogeny (index arithmetic) ↦ `fdiLength`, `fdiDblCount`, `fdiRow`
Core-only (linked into the driver).
-/
import SqiModel.Mat2
import SqiModel.Fp2V

namespace SqiModel.IdealKernel
open SqiModel

abbrev M := List (List Int)

def mulVec (m : M) (v : Int × Int) : Int × Int :=
  (Mat2.get m 0 0 * v.1 + Mat2.get m 0 1 * v.2, Mat2.get m 1 0 * v.1 + Mat2.get m 1 1 * v.2)

def modV (N : Int) (v : Int × Int) : Int × Int := (v.1 % N, v.2 % N)

/-- inverse of an odd x modulo 2^f: x^(2^(f-1) - 1) (the unit group has exponent dividing 2^(f-1)) -/
def invMod2f (f : Nat) (x : Int) : Int :=
  let N : Nat := 2 ^ f
  (Fp2V.powMod (x % N).toNat (2 ^ (f - 1) - 1) N : Nat)

/-- `id2iso_kernel_dlogs_to_ideal_two`: returns (ok, (a, b), gen) with gen = (2a+b, −2, 2b, b) over the basis (1,i,j,k) and
    denominator 2; ok = `ibz_2x2_inv_mod` succeeded (determinant odd) -/
def kernelToIdealGen (AI AJ AG4 : M) (f : Nat) (v : Int × Int) : Bool × (Int × Int) × List Int :=
  let N : Int := 2 ^ f
  let t := mulVec AJ v
  let g := mulVec AG4 v
  let c := modV N (t.1 + g.1, t.2 + g.2)          -- second column: (j + (1+k)/2)(K)
  let det := (v.1 * c.2 - c.1 * v.2) % N
  let ok := det % 2 != 0
  let di := invMod2f f det
  let w := mulVec AI v                              -- i(K)
  -- inverse of [[v.1, c.1], [v.2, c.2]] applied to w
  let a := (di * (c.2 * w.1 - c.1 * w.2)) % N
  let b := (di * (v.1 * w.2 - v.2 * w.1)) % N
  (ok, (a, b), [a + a + b, -2, b + b, b])

/-- matrix c0 + c1·GEN2 + c2·GEN3 + c3·GEN4 (entries not reduced) -/
def matOfCoeffs (G2 G3 G4 : M) (c : Int × Int × Int × Int) : M :=
  let e (i j : Nat) : Int := (if i = j then c.1 else 0) + Mat2.get G2 i j * c.2.1 + Mat2.get G3 i j * c.2.2.1 + Mat2.get G4 i j * c.2.2.2
  [[e 0 0, e 0 1], [e 1 0, e 1 1]]

/-- `id2iso_ideal_to_kernel_dlogs_even` after the generator has been chosen: `cbar` = coordinates of the conjugate generator in
    the basis (1, i, (i+j)/2, (1+k)/2); first column mod n if it has an odd coordinate (gcd odd), else the second column -/
def idealToKernel (G2 G3 G4 : M) (n : Int) (cbar : Int × Int × Int × Int) : Int × Int :=
  let m := matOfCoeffs G2 G3 G4 cbar
  let v := (Mat2.get m 0 0 % n, Mat2.get m 1 0 % n)
  if (Int.gcd v.1 v.2) % 2 = 1 then v else (Mat2.get m 0 1 % n, Mat2.get m 1 1 % n)

/-- inner step of `find_uv`: d2inv·d2 ≡ 1 (mod d1); v = ((d2inv·(n mod d1))·2^i3 mod d1) + k·d1; u = (2^i3·n − v·d2)/d1 -/
def findUVStep (n d1 d2 d2inv : Int) (i3 k : Nat) : Int × Int :=
  let v := (d2inv * (n % d1) * 2 ^ i3) % d1 + k * d1
  let u := (2 ^ i3 * n - v * d2) / d1
  (u, v)

/-! index arithmetic of `fixed_degree_isogeny` in the `small` case (C ints) -/
def fdiLength (bitsP bitsU : Int) : Int := bitsP + 15 - bitsU
def fdiDblCount (torsion bitsP bitsU : Int) : Int := torsion - fdiLength bitsP bitsU - 2
def fdiRow (torsion bitsP bitsU : Int) : Int := torsion - fdiLength bitsP bitsU

/-- the range guard of `fixed_degree_isogeny` (fix d48f5af): the function returns 0 when this holds -/
def fdiGuardRejects (torsion rows length bitsU : Int) : Bool :=
  decide (length + 2 > torsion) || decide (torsion - length ≥ rows) || decide (bitsU > length)

end SqiModel.IdealKernel

/-
C17 — hand model of src/intbig/ref/generic/intbig.c (+ ibz_rounded_div, two_adic_valuation).

GMP is *modelled*: an `mpz_t` is an exact `Int`, and every `mpz_*` primitive is replaced by the mathematical
function its documentation specifies (tdiv/fdiv/mod conventions, `mpz_gcdext` = the normalised Bézout pair
computed by the classical extended Euclid on absolute values, `mpz_invert`, `mpz_powm`, `mpz_get_si`,
`mpz_sizeinbase(·,2)`, `mpz_jacobi` for a prime second argument = Euler's criterion).  The control flow of
the C wrappers around those primitives is transcribed faithfully.  All loops are structural recursions on
an explicit measure so that the definitions are total and kernel-reducible.

Three-valued results: `ok v` = the C function returned 1 (or is `void`) with output `v`; `fail` = it
returned 0; `ub` = the C executes undefined behaviour / aborts / does not terminate on that input.

Core Lean only (this file is linked into the driver executable).
-/
namespace SqiModel.Intbig

inductive Res (α : Type) where
  | ok : α → Res α
  | fail : Res α
  | ub : Res α
deriving Repr, DecidableEq

/-! ## division wrappers -/

/-- `ibz_div` = `mpz_tdiv_qr`: quotient rounded toward zero, remainder has the sign of `a`. (b ≠ 0) -/
def ibzDiv (a b : Int) : Int × Int := (a.tdiv b, a.tmod b)

/-- `ibz_div_floor` = `mpz_fdiv_qr`: quotient rounded toward −∞, remainder has the sign of `d`. (d ≠ 0) -/
def ibzDivFloor (n d : Int) : Int × Int := (n.fdiv d, n.fmod d)

/-- `ibz_mod` = `mpz_mod`: the sign of the divisor is ignored, result in `[0,|b|)`. (b ≠ 0) -/
def ibzMod (a b : Int) : Int := a % b

/-- `ibz_div_2exp` = `mpz_tdiv_q_2exp` -/
def ibzDiv2exp (a : Int) (e : Nat) : Int := a.tdiv (2 ^ e)

/-- `ibz_rounded_div` (integers.c): nearest integer to a/b, ties toward zero, transcribed. (b ≠ 0) -/
def ibzRoundedDiv (a b : Int) : Int :=
  let absb := b.natAbs
  let signq := a * b
  let q := a.tdiv b
  let r := a.tmod b
  let r2 : Int := (r.natAbs : Int) + (r.natAbs : Int)
  if r2 > (absb : Int) then
    (if signq < 0 then q + (-1) else q + 1)
  else q

/-! ## gcd, Bézout, annihilators, inverse, CRT -/

/-- classical extended Euclid on naturals, `fuel` bounds the number of steps (r1 < fuel suffices) -/
def egcdAux : Nat → Nat → Nat → Int → Int → Int → Int → Nat × Int × Int
  | 0, r0, _, s0, _, t0, _ => (r0, s0, t0)
  | fuel + 1, r0, r1, s0, s1, t0, t1 =>
    if r1 = 0 then (r0, s0, t0)
    else egcdAux fuel r1 (r0 % r1) s1 (s0 - (r0 / r1 : Nat) * s1) t1 (t0 - (r0 / r1 : Nat) * t1)

/-- `mpz_gcdext(g,s,t,a,b)`: g = gcd ≥ 0, s·a + t·b = g, the normalised (minimal) pair. -/
def gcdext (a b : Int) : Int × Int × Int :=
  let (g, s, t) := egcdAux (b.natAbs + 1) a.natAbs b.natAbs 1 0 0 1
  ((g : Int), s * a.sign, t * b.sign)

/-- `ibz_xgcd` -/
def ibzXgcd (a b : Int) : Int × Int × Int := gcdext a b

/-- `ibz_xgcd_ann`: returns (gcd, s, t, u, v) with s = b/g, t = (−a)/g (truncated divisions). (not both 0) -/
def ibzXgcdAnn (a b : Int) : Int × Int × Int × Int × Int :=
  let (g, u, v) := ibzXgcd a b
  let s := (ibzDiv b g).1
  let t := (ibzDiv (-a) g).1
  (g, s, t, u, v)

/-- `ibz_invmod` = `mpz_invert`: inverse in `[0,|m|)` if it exists. (m ≠ 0) -/
def ibzInvmod (a m : Int) : Res Int :=
  let (g, s, _) := gcdext a m
  if g = 1 then .ok (s % m) else .fail

/-- `ibz_crt`, as coded from the Bézout pair of the two moduli. (mod_a·mod_b ≠ 0) -/
def ibzCrt (a b ma mb : Int) : Int :=
  let (_, u, v) := gcdext ma mb
  let tmp := a * v * mb
  let u' := b * u * ma
  (tmp + u') % (ma * mb)

/-! ## modular exponentiation (`mpz_powm`) -/

def powModAux (m : Nat) : Nat → Nat → Nat → Nat → Nat
  | 0, _, _, acc => acc
  | fuel + 1, b, e, acc =>
    if e = 0 then acc
    else powModAux m fuel (b * b % m) (e / 2) (if e % 2 = 1 then acc * b % m else acc)

/-- `b^e mod m` by square-and-multiply (m ≠ 0) -/
def powMod (b e m : Nat) : Nat := powModAux m (e.log2 + 1) (b % m) e (1 % m)

/-- `mpz_powm(r, b, e, m)` for e ≥ 0, m ≠ 0: result in `[0,|m|)` -/
def powm (b : Int) (e : Nat) (m : Int) : Int := (powMod (b % m).toNat e m.natAbs : Nat)

/-! ## Legendre / Kronecker symbol as used by `ibz_sqrt_mod_p` -/

/-- `mpz_jacobi(a, p)` / `mpz_legendre(a, p)` for **prime** p: Euler's criterion for odd p, the Kronecker
    symbol (a/2) for p = 2. (For composite p GMP returns the Jacobi symbol; that is outside the contract of
    every caller and outside this model.) -/
def jacobiP (a p : Int) : Int :=
  if p = 2 then
    (if a % 2 = 0 then 0 else if a % 8 = 1 ∨ a % 8 = 7 then 1 else -1)
  else
    let r := powm a ((p - 1) / 2).toNat p
    if r = 0 then 0 else if r = 1 then 1 else -1

/-- number of trailing zero bits of `q` (`while (mpz_tstbit(q,e)==0) e++`); fuel-bounded -/
def trailingZeros : Nat → Nat → Nat
  | 0, _ => 0
  | fuel + 1, q => if q % 2 = 1 then 0 else trailingZeros fuel (q / 2) + 1

/-- the non-residue search `while (mpz_legendre(qnr,p) != -1) qnr++` starting from the value `q` -/
def findQnr (p : Int) : Nat → Int → Option Int
  | 0, _ => none
  | fuel + 1, q => if jacobiP q p = -1 then some q else findQnr p fuel (q + 1)

/-- the Tonelli–Shanks main loop exactly as coded: `n` remaining iterations, state (x, y, z, exp) -/
def tsLoop (p : Int) : Nat → Int → Int → Int → Nat → Int
  | 0, x, _, _, _ => x
  | n + 1, x, y, z, exp =>
    let b := powm y exp p
    if b = p - 1 then
      tsLoop p n (x * z % p) (y * z * z % p) (powm z 2 p) (exp / 2)
    else
      tsLoop p n x y (powm z 2 p) (exp / 2)

/-- `ibz_sqrt_mod_p(sqrt, a, p)`; p assumed prime (p ≥ 2 for the model to be meaningful).
    Repaired code (fix: a ≡ 0 and p = 2 return `a mod p` before the Legendre test). -/
def ibzSqrtModP (a p : Int) : Res Int :=
  let amod := a % p
  if amod = 0 ∨ p = 2 then .ok amod
  else if jacobiP amod p ≠ 1 then .fail
  else if p % 4 = 3 then .ok (powm amod ((p + 1) / 4).toNat p)
  else if p % 8 = 5 then
    let t := powm amod ((p - 1) / 4).toNat p
    if t = 1 then .ok (powm amod ((p + 3) / 8).toNat p)
    else .ok ((2 * amod * powm (4 * amod) ((p - 5) / 8).toNat p) % p)
  else
    let q0 := (p - 1).toNat
    if q0 = 0 then .ub            -- `while (mpz_tstbit(q,e)==0)` never ends
    else
      let e := trailingZeros q0 q0
      let q := q0 / 2 ^ e
      match findQnr p p.toNat 0 with
      | none => .ub               -- search does not terminate within p steps
      | some qnr =>
        if e < 2 then .ub         -- `mpz_mul_2exp(exp, exp, e - 2)` with a negative int: GMP aborts
        else
          let z := powm qnr q p
          let y := powm amod q p
          let x := powm amod ((q + 1) / 2) p
          .ok (tsLoop p e x y z (2 ^ (e - 2)))

/-- `ibz_sqrt_mod_2p` (repaired: for p = 2 only a ≡ 0, 1 (mod 4) have a square root modulo 2p = 4) -/
def ibzSqrtMod2P (a p : Int) : Res Int :=
  match ibzSqrtModP a p with
  | .ok r =>
    if p = 2 ∧ a % 4 ≥ 2 then .fail
    else if a % 2 ≠ r % 2 then .ok (r + p) else .ok r
  | .fail => .fail
  | .ub => .ub

/-! ## conversions -/

/-- `mpz_sizeinbase(x, 2)`: bit length of |x|, and 1 for x = 0 -/
def sizeInBase2 (x : Int) : Nat := if x = 0 then 1 else x.natAbs.log2 + 1

/-- `ibz_get` = `mpz_get_si`: sign and the low 63 bits of |x| (GMP's formula) -/
def ibzGet (x : Int) : Int :=
  let zl := x.natAbs % 2 ^ 64
  if x > 0 then ((zl % 2 ^ 63 : Nat) : Int)
  else if x < 0 then -1 - (((zl + 2 ^ 64 - 1) % 2 ^ 64 % 2 ^ 63 : Nat) : Int)
  else 0

/-- conversion `int64_t → int` (two's complement truncation to 32 bits) -/
def toInt32 (v : Int) : Int :=
  let w := v % 2 ^ 32
  if w < 2 ^ 31 then w else w - 2 ^ 32

/-- `two_adic_valuation(int n)` (common/generic/tools.c): the loop on the 32-bit pattern -/
def twoAdicValuationInt (n : Int) : Nat :=
  if n = 0 then 0 else trailingZeros 32 (n % 2 ^ 32).toNat

/-- the composition used by the signers: `two_adic_valuation(ibz_get(&x))` -/
def twoAdicValuationOfIbz (x : Int) : Nat := twoAdicValuationInt (toInt32 (ibzGet x))

/-- `ibz_two_adic(a)` (intbig.c, added by fix b69f2a3): `mpz_scan1(a, 0)` = index of the lowest set bit of |a|
    (two's complement of a negative number has the same lowest set bit), and 0 for a = 0.
    (The C casts the bit index to `int`; an index ≥ 2^31 needs a 256 MiB operand and is not modelled.) -/
def ibzTwoAdic (a : Int) : Nat :=
  if a = 0 then 0 else trailingZeros a.natAbs a.natAbs

/-- little-endian 64-bit limbs of a natural number (`mpz_limbs_read`, `mpz_size` many) -/
def limbsAux : Nat → Nat → List Nat
  | 0, _ => []
  | fuel + 1, x => if x = 0 then [] else (x % 2 ^ 64) :: limbsAux fuel (x / 2 ^ 64)

def limbs (x : Nat) : List Nat := limbsAux (x.log2 / 64 + 1) x

/-- `ibz_copy_digits(target, dig, dig_len)` on a 64-bit build: Σ dig[i]·2^(64 i) -/
def ibzCopyDigits : List Nat → Int
  | [] => 0
  | d :: ds => (d : Int) + 2 ^ 64 * ibzCopyDigits ds

/-- `ibz_to_digits(target, x)`: writes `mpz_size(x)` limbs of |x| (one zero limb for x = 0) starting at
    `target[0]`; **no bound check**: with a destination of `n` digits more than `n` limbs is an
    out-of-bounds write (`ub`). This is the macro `ibz_to_digit_array` (memset 0, then `ibz_to_digits`). -/
def ibzToDigitArray (n : Nat) (x : Int) : Res (List Nat) :=
  let ls := if x = 0 then [0] else limbs x.natAbs
  if ls.length ≤ n then .ok (ls ++ List.replicate (n - ls.length) 0) else .ub

/-! ## sampling in an interval over an explicit byte stream

`randombytes(buf, n)` is modelled as popping `n` bytes from a finite list; an exhausted list is a failing
`randombytes` (non-zero return), which makes `ibz_rand_interval` return 0. -/

def fromBytesLE : List Nat → Nat
  | [] => 0
  | b :: bs => b + 256 * fromBytesLE bs

/-- rejection loop; `fuel` ≥ number of chunks in the stream -/
def randLoop (bmina : Int) (lenBytes lenLimbs mask : Nat) : Nat → List Nat → Res (Int × List Nat)
  | 0, _ => .fail
  | fuel + 1, s =>
    if s.length < lenBytes then .fail
    else
      let v := fromBytesLE (s.take lenBytes)
      let w := 2 ^ (64 * (lenLimbs - 1))
      let t : Nat := v % w + (v / w % 2 ^ 64 &&& mask) * w      -- r[len_limbs-1] &= mask
      if (t : Int) ≤ bmina then .ok ((t : Int), s.drop lenBytes)
      else randLoop bmina lenBytes lenLimbs mask fuel (s.drop lenBytes)

structure RandParams where
  lenBits : Nat
  lenBytes : Nat
  lenLimbs : Nat
  shift : Nat
deriving Repr

def randParams (a b : Int) : RandParams :=
  let lenBits := sizeInBase2 (b - a)
  let lenBytes := (lenBits + 7) / 8
  { lenBits := lenBits, lenBytes := lenBytes, lenLimbs := (lenBytes + 8 - 1) / 8,
    shift := 64 - lenBits % 64 }

/-- `ibz_rand_interval(rand, a, b)`; returns the value and the unread rest of the stream.
    `maskOf` is the mask computation from `shift = 64 - len_bits % 64` (a parameter, so that the range theorem
    is seen not to depend on it; `none` = undefined shift). -/
def ibzRandIntervalWith (maskOf : Nat → Option Nat) (a b : Int) (stream : List Nat) : Res (Int × List Nat) :=
  let P := randParams a b
  match maskOf P.shift with
  | none => .ub
  | some mask =>
    match randLoop (b - a) P.lenBytes P.lenLimbs mask (stream.length + 1) stream with
    | .ok (t, rest) => .ok (t + a, rest)
    | .fail => .fail
    | .ub => .ub

/-- the repaired C: `mask = ((mp_limb_t)-1) >> ((64 - len_bits % 64) % 64)` — the shift count is always < 64 -/
def ibzRandInterval (a b : Int) (stream : List Nat) : Res (Int × List Nat) :=
  ibzRandIntervalWith (fun s => some ((2 ^ 64 - 1) / 2 ^ (s % 64))) a b stream

/-- `ibz_rand_interval_i(rand, a, b)` (int64 arguments) -/
def ibzRandIntervalI (a b : Int) (stream : List Nat) : Res (Int × List Nat) := ibzRandInterval a b stream

/-- `ibz_rand_interval_minm_m(rand, m)`: `ibz_rand_interval_i(0, 2m)` then subtract m
    (`2*m` is computed in int64: overflow for m ≥ 2^62 is signed-overflow UB) -/
def ibzRandIntervalMinmM (m : Int) (stream : List Nat) : Res (Int × List Nat) :=
  if 2 * m ≥ 2 ^ 63 ∨ 2 * m < -(2 ^ 63) then .ub else
  match ibzRandInterval 0 (2 * m) stream with
  | .ok (r, rest) => .ok (r - (m % 2 ^ 64), rest)   -- mpz_sub_ui(rand, rand, (unsigned long) m)
  | .fail => .fail
  | .ub => .ub

end SqiModel.Intbig

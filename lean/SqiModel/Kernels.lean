/-
C17 — hand model of the modular linear-algebra kernels:
  * dim2.c : `ibz_2x2_mul_mod`, `ibz_2x2_inv_mod`
  * dim4.c : `ibz_4x4_right_ker_mod_prime`, `ibz_4x5_right_ker_mod_prime` (Cohen, Alg. 2.3.1, as coded)
Matrices are `List (List Int)` (rows).  GMP = exact `Int`.  Core Lean only.
-/
import SqiModel.Intbig
namespace SqiModel.Kernels
open SqiModel.Intbig

abbrev Mat := List (List Int)

def get (m : Mat) (i j : Nat) : Int := (m.getD i []).getD j 0

def tabulate (rows cols : Nat) (f : Nat → Nat → Int) : Mat :=
  (List.range rows).map fun i => (List.range cols).map fun j => f i j

/-! ## 2×2 modular operations (dim2.c) -/

/-- `ibz_2x2_mul_mod`: accumulates with a reduction after every addition (m ≠ 0) -/
def mul2x2Mod (a b : Mat) (m : Int) : Mat :=
  tabulate 2 2 fun i j => ((0 + get a i 0 * get b 0 j) % m + get a i 1 * get b 1 j) % m

/-- `ibz_2x2_inv_mod` (m ≠ 0) -/
def inv2x2Mod (mat : Mat) (m : Int) : Res Mat :=
  let det := (get mat 0 0 * get mat 1 1) % m
  let det := (det - get mat 0 1 * get mat 1 0) % m
  match ibzInvmod det m with
  | .ok di =>
    .ok [[(get mat 1 1 * di) % m, (-(get mat 0 1) * di) % m],
         [(-(get mat 1 0) * di) % m, (get mat 0 0 * di) % m]]
  | .fail => .fail
  | .ub => .ub

/-! ## right kernel modulo a prime (dim4.c), generic in the number of columns -/

structure KState where
  W : Mat
  c : Nat → Nat      -- c[j] = k+1 if row j is the pivot row of column k, else 0
  d : Nat → Nat      -- d[k] = j+1 if column k has pivot row j, else 0
  kdim : Nat
  bad : Bool         -- a pivot had no inverse (cannot happen for prime p): result of the C unspecified

def upd (f : Nat → Nat) (i v : Nat) : Nat → Nat := fun x => if x = i then v else f x

/-- pivot search `j = 0; while (j < rows && (W[j][k] == 0 || c[j] != 0)) j++` -/
def findPivot (rows : Nat) (W : Mat) (c : Nat → Nat) (k : Nat) : Option Nat :=
  (List.range rows).find? fun j => get W j k != 0 && c j == 0

/-- one iteration of the main `while (k < columns)` loop -/
def kerStep (p : Int) (rows cols : Nat) (st : KState) (k : Nat) : KState :=
  match findPivot rows st.W st.c k with
  | none => { st with d := upd st.d k 0, kdim := st.kdim + 1 }
  | some j =>
    let W := st.W
    let (inv, bad) := match ibzInvmod (get W j k) p with
      | .ok v => (v, st.bad)
      | _ => (0, true)
    let prod := (-inv) % p
    let rowj : Nat → Int := fun s =>
      if s = k then (-1) % p else if k < s then (get W j s * prod) % p else get W j s
    let W' := tabulate rows cols fun i s =>
      if i = j then rowj s
      else if s = k then 0
      else if k < s then (get W i s + rowj s * get W i k) % p
      else get W i s
    { W := W', c := upd st.c j (k + 1), d := upd st.d k (j + 1), kdim := st.kdim, bad := bad }

def kerInit (p : Int) (rows cols : Nat) (mat : Mat) : KState :=
  { W := tabulate rows cols fun i s => get mat i s % p, c := fun _ => 0, d := fun _ => 0, kdim := 0, bad := false }

def kerRun (p : Int) (rows cols : Nat) (mat : Mat) : KState :=
  (List.range cols).foldl (kerStep p rows cols) (kerInit p rows cols mat)

/-- the output vector built for the free column `k` -/
def kerVec (p : Int) (cols : Nat) (st : KState) (k : Nat) : List Int :=
  (List.range cols).map fun s =>
    if st.d s > 0 then get st.W (st.d s - 1) k % p else if s = k then 1 else 0

/-- `ibz_4x4_right_ker_mod_prime` (cols = 4) / `ibz_4x5_right_ker_mod_prime` (cols = 5); rows = 4.
    Returns a vector exactly when the kernel found has dimension 1. -/
def rightKerModPrime (rows cols : Nat) (mat : Mat) (p : Int) : Res (List Int) :=
  let st := kerRun p rows cols mat
  if st.bad then .ub
  else if st.kdim = 1 then
    match ((List.range cols).filter fun k => st.d k == 0).getLast? with
    | some k => .ok (kerVec p cols st k)
    | none => .ub
  else .fail

def ker4x4ModPrime (mat : Mat) (p : Int) : Res (List Int) := rightKerModPrime 4 4 mat p
def ker4x5ModPrime (mat : Mat) (p : Int) : Res (List Int) := rightKerModPrime 4 5 mat p

/-! ## certificate checker for `ibz_4x4_right_ker_mod_power_of_2` (Howell form, matkermod.c)

The Howell-form computation itself is not modelled; instead every vector the real code returns is passed through
this checker (driver op `chkker2e`), whose soundness is a theorem (`SqiProps.C17.ker_pow2_check_sound`). -/

def dotInt : List Int → List Int → Int
  | a :: r, b :: w => a * b + dotInt r w
  | _, _ => 0

/-- accepts iff v has as many entries as the rows, some entry is odd (primitive), and every row·v ≡ 0 (mod 2^e) -/
def kerPow2Check (mat : Mat) (e : Nat) (v : List Int) : Bool :=
  mat.all (fun row => row.length == v.length) && v.any (fun x => x % 2 == 1) &&
  mat.all (fun row => dotInt row v % 2 ^ e == 0)

/-- certificate checker for matrix identities modulo N: A·B ≡ C entrywise (A: r×k rows, B given by its k rows, C: r×c) -/
def colOf (B : Mat) (j : Nat) : List Int := B.map fun row => row.getD j 0

def matMulCheck (A B C : Mat) (cols : Nat) (N : Int) : Bool :=
  A.length == C.length &&
  (List.range A.length).all fun i =>
    (List.range cols).all fun j => (dotInt (A.getD i []) (colOf B j) - get C i j) % N == 0

end SqiModel.Kernels

import SqiGen.Ec
/-! Hand models (tie H) of the scalar-multiplication loops of src/ec/ref/ecx/ec.c, written over the *generated*
    straight-line definitions (`SqiGen.xDBLADD`, `xADD`, `xDBL_A24_normalized`, `swap_points`, `select_point`, …), so an
    edit of a formula also changes what these models compute. Core Lean only (linked into the driver).
    Scalars are natural numbers; `nbits` plays the role of `BITS` (= 64·NWORDS_ORDER at every level) resp. `kbits`.
    Each model is run against the C function by tools/harness/drv_ec.c on every check (ops `ec.*`). -/
namespace SqiModel.Ladder
open SqiGen

variable {F : Type} [Add F] [Sub F] [Mul F] [Neg F] [Inv F] [Zero F] [One F] [NatCast F] [DecidableEq F]

/-- mask argument of `swap_points` / `select_point`: 0 or "all ones" (any non-zero value in the model) -/
def mask (b : Bool) : Int := if b then 1 else 0

/-- bits `n-1 … 0` of `k` (most significant first) -/
def bitsMSB (n k : Nat) : List Bool := (List.range n).reverse.map (fun i => k.testBit i)
/-- bits `0 … n-1` of `k` (least significant first) -/
def bitsLSB (n k : Nat) : List Bool := (List.range n).map (fun i => k.testBit i)

/-! ### xMUL / xMULv2 : Montgomery ladder with lazy swaps -/
structure LState (F : Type) where
  R0 : EcPoint F
  R1 : EcPoint F
  prev : Bool

def ladderStep (P A24 : EcPoint F) (st : LState F) (bit : Bool) : LState F :=
  let sw := xor bit st.prev
  let s := swap_points st.R0 st.R1 (mask sw)
  let r := xDBLADD s.1 s.2 P A24
  ⟨r.1, r.2, bit⟩

def ladderInit (P : EcPoint F) : LState F := ⟨ec_point_init, ⟨P.x, P.z⟩, false⟩

def ladderFinish (st : LState F) : EcPoint F :=
  let s := swap_points st.R0 st.R1 (mask (xor false st.prev))
  ⟨s.1.x, s.1.z⟩

/-- the loop of xMUL / xMULv2 on an explicit bit list (most significant bit first) -/
def xMULbits (bits : List Bool) (P A24 : EcPoint F) : EcPoint F :=
  ladderFinish (bits.foldl (ladderStep P A24) (ladderInit P))

/-- `xMULv2(Q, P, k, kbits, A24)` -/
def xMULv2 (kbits k : Nat) (P A24 : EcPoint F) : EcPoint F := xMULbits (bitsMSB kbits k) P A24

/-- the three `fp2_add`s at the top of xMUL: `A24 = (A + 2C : 4C)` -/
def xMUL_A24 (curve : EcCurve F) : EcPoint F :=
  let A24_x := curve.C + curve.C
  let A24_z := A24_x + A24_x
  let A24_x := A24_x + curve.A
  ⟨A24_x, A24_z⟩

/-- `xMUL(Q, P, k, curve)` with `BITS = nbits` -/
def xMUL (nbits k : Nat) (P : EcPoint F) (curve : EcCurve F) : EcPoint F :=
  xMULbits (bitsMSB nbits k) P (xMUL_A24 curve)

/-! ### ec_ladder3pt : P + m·Q from (P, Q, P-Q), bits least significant first -/
structure L3State (F : Type) where
  X0 : EcPoint F
  X1 : EcPoint F
  X2 : EcPoint F

def ladder3Step (A24 : EcPoint F) (st : L3State F) (bit : Bool) : L3State F :=
  let m := mask (!bit)
  let s := swap_points st.X1 st.X2 m
  let r := xDBLADD_normalized st.X0 s.1 s.2 A24
  let s' := swap_points r.2 s.2 m
  ⟨r.1, s'.1, s'.2⟩

def ladder3bits (bits : List Bool) (P Q PQ A24 : EcPoint F) : EcPoint F :=
  let st := bits.foldl (ladder3Step A24) ⟨copy_point Q, copy_point P, copy_point PQ⟩
  copy_point st.X1

/-- `ec_ladder3pt(R, m, P, Q, PQ, A)`: uses the stored `A->A24` as it is -/
def ladder3pt (nbits m : Nat) (P Q PQ : EcPoint F) (curve : EcCurve F) : EcPoint F :=
  ladder3bits (bitsLSB nbits m) P Q PQ curve.A24

/-! ### ec_dbl_iter -/
def iter {α : Type} (f : α → α) : Nat → α → α
  | 0, x => x
  | n + 1, x => iter f n (f x)

/-- `ec_dbl(res, curve, P)`: `xDBL(res, P, (ec_point_t const *)curve)` — the first two fields of the curve read as a point -/
def ec_dbl (curve : EcCurve F) (P : EcPoint F) : EcPoint F := xDBL P ⟨curve.A, curve.C⟩

/-- `ec_dbl_iter(res, n, curve, P)`: returns the new `res` and the (possibly updated) curve. As coded, `n ≤ 0`
    leaves `res` untouched (it is *not* set to `P`). -/
def dblIter (res : EcPoint F) (n : Int) (curve : EcCurve F) (P : EcPoint F) : EcPoint F × EcCurve F :=
  if n > 0 then
    if n > 50 then
      let curve := ec_curve_normalize_A24 curve
      (iter (fun R => xDBL_A24 R curve.A24) n.toNat P, curve)
    else (iter (fun R => ec_dbl curve R) n.toNat P, curve)
  else (res, curve)

/-! ### xDBLMUL / xDBLMUL_bounded : two-dimensional differential addition chain -/
structure RecState where
  kt : Nat
  lt : Nat
  s0 : Bool
  s1 : Bool
  pre : Bool
  r : List (Bool × Bool)        -- (r[2i], r[2i+1]) for i = 0, 1, …

def recodeStep (st : RecState) (last : Bool) : RecState :=
  let sw := xor st.s0 st.pre
  let kt := if sw then st.lt else st.kt
  let lt := if sw then st.kt else st.lt
  let b1ip1 := if last then false else kt.testBit 0
  let b2ip1 := if last then false else lt.testBit 0
  let kt := if last then kt else kt / 2
  let lt := if last then lt else lt / 2
  let r0 := xor (kt.testBit 0) b1ip1
  let r1 := xor (lt.testBit 0) b2ip1
  ⟨kt, lt, if r1 then st.s1 else st.s0, if r1 then st.s0 else st.s1, st.s0, st.r ++ [(r0, r1)]⟩

structure Recoded where
  r : List (Bool × Bool)
  sigma0 : Bool
  mevens : Bool
  bothOdd : Bool

/-- scalar recoding of xDBLMUL (`nbits = BITS`; the subtraction wraps modulo `2^nbits` like `mp_sub`) -/
def recode (nbits k l : Nat) : Recoded :=
  let bitk0 := k.testBit 0
  let bitl0 := l.testBit 0
  let s0 := !bitk0
  let s1 := !bitl0
  let mevens := xor s0 s1                       -- exactly one scalar is even
  let sigma0 := s0 && mevens
  let sigma1 := (s1 && mevens) || !mevens
  let kt := if bitk0 then k % 2 ^ nbits else (k % 2 ^ nbits + 2 ^ nbits - 1) % 2 ^ nbits
  let lt := if bitl0 then l % 2 ^ nbits else (l % 2 ^ nbits + 2 ^ nbits - 1) % 2 ^ nbits
  let st := (List.range nbits).foldl (fun st i => recodeStep st (i + 1 == nbits)) ⟨kt, lt, sigma0, sigma1, false, []⟩
  ⟨st.r, st.s0, mevens, bitk0 && bitl0⟩

structure DState (F : Type) where
  R0 : EcPoint F
  R1 : EcPoint F
  R2 : EcPoint F
  T0 : EcPoint F
  T1 : EcPoint F
  T2 : EcPoint F
  D1a : EcPoint F
  D1b : EcPoint F
  D2a : EcPoint F
  D2b : EcPoint F

/-- one iteration of the main loop; `apply = false` only occurs in the bounded variant -/
def dblmulStep (A24 : EcPoint F) (st : DState F) (rr : Bool × Bool) (apply : Bool) : DState F :=
  let h1 := xor rr.1 rr.2                        -- h & 1
  let h2 := rr.1 && rr.2                         -- h >> 1
  let T0 := if apply then select_point st.R0 st.R1 (mask h1) else st.T0
  let T0 := if apply then xDBL_A24_normalized (select_point T0 st.R2 (mask h2)) A24 else T0
  let T1 := if apply then select_point st.R0 st.R1 (mask rr.2) else st.T1
  let T2 := if apply then select_point st.R1 st.R2 (mask rr.2) else st.T2
  let d1 := swap_points st.D1a st.D1b (mask rr.2)
  let T1 := if apply then xADD T1 T2 d1.1 else T1
  let T2 := if apply then xADD st.R0 st.R2 st.D2a else T2
  let d2 := swap_points st.D2a st.D2b (mask h1)
  ⟨copy_point T0, copy_point T1, copy_point T2, T0, T1, T2, d1.1, d1.2, d2.1, d2.2⟩

def dblmulInit (sigma0 : Bool) (P Q PQ : EcPoint F) : DState F :=
  let R0 : EcPoint F := ec_point_init
  let R1 := select_point P Q (mask sigma0)
  let R2 := select_point Q P (mask sigma0)
  let D1a : EcPoint F := ⟨R1.x, R1.z⟩
  let D1b : EcPoint F := ⟨R2.x, R2.z⟩
  let R2 := xADD R1 R2 PQ
  ⟨R0, R1, R2, copy_point R0, copy_point R1, copy_point R2, D1a, D1b, ⟨R2.x, R2.z⟩, ⟨PQ.x, PQ.z⟩⟩

def dblmulA24 (curve : EcCurve F) : EcPoint F :=
  copy_point (ec_curve_normalize_A24 (copy_curve curve)).A24

def dblmulOut (rc : Recoded) (st : DState F) : EcPoint F :=
  select_point (select_point st.R0 st.R1 (mask rc.mevens)) st.R2 (mask rc.bothOdd)

/-- `xDBLMUL(S, P, k, Q, l, PQ, curve)` (`bound = none`) and `xDBLMUL_bounded(…, f)` (`bound = some (f + 2 + (BITS - TORSION_PLUS_EVEN_POWER))`) -/
def xDBLMULgen (nbits : Nat) (bound : Option Nat) (k l : Nat) (P Q PQ : EcPoint F) (curve : EcCurve F) : EcPoint F :=
  let rc := recode nbits k l
  let A24 := dblmulA24 curve
  let idx := (List.range nbits).reverse
  let st := (idx.zip rc.r.reverse).foldl
    (fun st ir => dblmulStep A24 st ir.2 (match bound with | none => true | some b => ir.1 ≤ b)) (dblmulInit rc.sigma0 P Q PQ)
  dblmulOut rc st

def xDBLMUL (nbits k l : Nat) (P Q PQ : EcPoint F) (curve : EcCurve F) : EcPoint F :=
  xDBLMULgen nbits none k l P Q PQ curve

/-- `ec_biscalar_mul_bounded(res, curve, k, l, PQ, f)` (after fix 76cbdb3): a zero scalar is replaced by `2^f`, then
    `xDBLMUL_bounded(…, f)`, whose main loop is applied for the indices `≤ f + 2 + (BITS - TORSION_PLUS_EVEN_POWER)` -/
def biscalarMulBounded (nbits tpe f k l : Nat) (P Q PQ : EcPoint F) (curve : EcCurve F) : EcPoint F :=
  let k' := if k % 2 ^ nbits = 0 then 2 ^ f else k
  let l' := if l % 2 ^ nbits = 0 then 2 ^ f else l
  xDBLMULgen nbits (some (f + 2 + (nbits - tpe))) k' l' P Q PQ curve

/-! ### Jacobian double-scalar multiplication (DBLMUL, DBLMUL2, DBLMUL_generic) and op sequences -/

/-- one iteration of the DBLMUL loops: `R ← 2R`, then add `P+Q`, `P` or `Q` according to the two bits -/
def jacDblmulStep (P Q PQ : JacPoint F) (curve : EcCurve F) (R : JacPoint F) (kl : Bool × Bool) : JacPoint F :=
  let R := DBL R curve
  if kl.1 && kl.2 then ADD R PQ curve
  else if kl.1 then ADD R P curve
  else if kl.2 then ADD R Q curve
  else R

/-- `DBLMUL` (nbits = 64), `DBLMUL2` (128), `DBLMUL_generic` (64·size): bits most significant first -/
def jacDBLMUL (nbits k l : Nat) (P Q : JacPoint F) (curve : EcCurve F) : JacPoint F :=
  let PQ := ADD P Q curve
  ((bitsMSB nbits k).zip (bitsMSB nbits l)).foldl (jacDblmulStep P Q PQ curve) jac_init

/-- one instruction of a register program: `(1,i,j)` = ADD, `(2,i,_)` = DBL, `(3,i,_)` = jac_neg; the result is
    appended as a new register; an invalid instruction gives `none` -/
def jacStep (curve : EcCurve F) (rs : List (JacPoint F)) (op : Nat × Nat × Nat) : Option (List (JacPoint F)) :=
  match op.1, rs[op.2.1]?, rs[op.2.2]? with
  | 1, some a, some b => some (rs ++ [ADD a b curve])
  | 2, some a, _ => some (rs ++ [DBL a curve])
  | 3, some a, _ => some (rs ++ [jac_neg a])
  | _, _, _ => none

def jacRun (curve : EcCurve F) : List (JacPoint F) → List (Nat × Nat × Nat) → Option (List (JacPoint F))
  | rs, [] => some rs
  | rs, op :: prog => match jacStep curve rs op with
    | some rs' => jacRun curve rs' prog
    | none => none

/-- a straight-line program over Jacobian registers; the value is the last register -/
def jacSeq (curve : EcCurve F) (regs : List (JacPoint F)) (prog : List (Nat × Nat × Nat)) : Option (JacPoint F) :=
  match jacRun curve regs prog with
  | some rs => rs.getLast?
  | none => none

end SqiModel.Ladder

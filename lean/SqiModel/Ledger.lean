/-
Resource-ledger model (C19) of the protocol API of src/sqisigndim2 (same shape for the other two variants):
init / finalize / keygen / sign / verify over several keys and signatures as a state machine on the multiset
(list) of live heap blocks, the DRBG state, the values of the key / signature objects, and the audited module-level
globals (`hidden`).

Allocation summary per operation (checked against the real code by tools/props/c19.py with a malloc/GMP ledger):
  * `init o` allocates the heap part of object o (hint arrays, GMP integers); calling it twice leaks the first block
    (the C `*_init` functions do not look at the previous content);
  * `finalize o` releases one block of o;
  * keygen / sign / verify allocate temporaries that they free again (net zero) and compute theta chains; each chain of
    length n allocates ONE block `steps` of (n−1)·stepBytes in `theta_chain_comput_*` (theta_isogenies.c).
    `leaky = true`  : the pinned code — no release function exists, the block stays live for ever;
    `leaky = false` : the repaired code — the block is released before the operation returns.
Outputs: an abstract function `F` of (operation, DRBG state, values of the objects the operation names) — the model has
no other input, which is the "no hidden state" claim; its tie to the code is (a) SqiGen.Globals (every static object of
the sources is in the audited list) and (b) the transcript comparisons of the harness.
Core-only.
-/
namespace SqiModel.Ledger

inductive Obj where
  | pk (k : Nat) | sk (k : Nat) | sig (s : Nat)
  deriving DecidableEq, Repr

inductive Site where
  | obj (o : Obj)        -- heap part of an initialised object
  | thetaSteps           -- theta_chain_t.steps
  deriving DecidableEq, Repr

structure Block where
  site : Site
  size : Nat
  deriving DecidableEq, Repr

inductive Op where
  | reseed (seed : Nat)
  | init (o : Obj)
  | finalize (o : Obj)
  | keygen (k : Nat) (chains : List Nat)
  | sign (k s : Nat) (msg : Nat) (chains : List Nat)
  | verify (k s : Nat) (msg : Nat) (chains : List Nat)
  deriving Repr

/-- parameters: heap bytes of an object, bytes of one theta_isogeny_t -/
structure Params where
  objBytes : Obj → Nat
  stepBytes : Nat

/-- abstract semantics of the computations: new DRBG state, output, new values of the named objects -/
structure Sem (D V O : Type) where
  seed : Nat → D
  keygen : D → D × O × V × V                      -- drbg ↦ drbg', output, pk value, sk value
  sign : D → V → V → Nat → D × O × V              -- drbg, pk, sk, msg ↦ drbg', output, signature value
  verify : V → V → Nat → O                        -- pk, sig, msg ↦ verdict (no randomness)
  unit : O

structure State (D V H : Type) where
  live : List Block
  drbg : D
  val : Obj → V
  hidden : H            -- global_timer, K[83], GMP default precision, … : never read by the model

variable {D V O H : Type}

def chainBlocks (P : Params) (chains : List Nat) : List Block :=
  chains.map fun n => ⟨Site.thetaSteps, (n - 1) * P.stepBytes⟩

def removeOne (b : Site) : List Block → List Block
  | [] => []
  | x :: xs => if x.site = b then xs else x :: removeOne b xs

def setVal (val : Obj → V) (o : Obj) (v : V) : Obj → V := fun o' => if o' = o then v else val o'

/-- one API call; `leaky` selects the pinned (true) or the repaired (false) allocation behaviour -/
def step (P : Params) (S : Sem D V O) (leaky : Bool) (st : State D V H) : Op → State D V H × O
  | .reseed s => ({ st with drbg := S.seed s }, S.unit)
  | .init o => ({ st with live := ⟨Site.obj o, P.objBytes o⟩ :: st.live }, S.unit)
  | .finalize o => ({ st with live := removeOne (Site.obj o) st.live }, S.unit)
  | .keygen k chains =>
    let (d', out, vpk, vsk) := S.keygen st.drbg
    ({ st with drbg := d', val := setVal (setVal st.val (.pk k) vpk) (.sk k) vsk,
               live := (if leaky then chainBlocks P chains else []) ++ st.live }, out)
  | .sign k s msg chains =>
    let (d', out, vsig) := S.sign st.drbg (st.val (.pk k)) (st.val (.sk k)) msg
    ({ st with drbg := d', val := setVal st.val (.sig s) vsig,
               live := (if leaky then chainBlocks P chains else []) ++ st.live }, out)
  | .verify k s msg chains =>
    ({ st with live := (if leaky then chainBlocks P chains else []) ++ st.live },
     S.verify (st.val (.pk k)) (st.val (.sig s)) msg)

def run (P : Params) (S : Sem D V O) (leaky : Bool) : State D V H → List Op → State D V H × List O
  | st, [] => (st, [])
  | st, op :: ops =>
    let (st', o) := step P S leaky st op
    let (st'', os) := run P S leaky st' ops
    (st'', o :: os)

def bytes (l : List Block) : Nat := (l.map Block.size).sum
def thetaBytes (l : List Block) : Nat := ((l.filter fun b => b.site = Site.thetaSteps).map Block.size).sum
def objBlocks (l : List Block) : List Block := l.filter fun b => b.site ≠ Site.thetaSteps

/-- bytes leaked by one operation in the pinned code -/
def opLeak (P : Params) : Op → Nat
  | .keygen _ c => bytes (chainBlocks P c)
  | .sign _ _ _ c => bytes (chainBlocks P c)
  | .verify _ _ _ c => bytes (chainBlocks P c)
  | _ => 0

end SqiModel.Ledger

import SqiModel.Quat
/- Hand model (tie H) for property C16, part 1: `src/quaternion/ref/generic/lll.c`.

   * `Op`/`run`: the *integer effect* of `quat_lattice_lll`.  The C routine keeps the (transposed) basis and the
     transformation `H` in exact integers (GMP `mpz`); the `mpf` floats only DECIDE which of the two integer
     row operations comes next:  RED(k,l): row k -= r * row l  (r = floor(0.5 + u[k][l]), l < k)  and
     SWAP(k): swap rows k and k-1 (k >= 1).  Both are applied to `basis` and to `H` alike.  The model is a fold
     over an ARBITRARY list of such operations (whatever the floats decide).
   * `lllCheck`: exact (integer-only, division-free) checker for "same lattice, size-reduced with parameter eta,
     Lovasz condition with parameter delta" for the norm form  x0^2 + x1^2 + q (x2^2 + x3^2)  (`dotproduct_row`).
     It is run on every C output by the harness and proved sound in `SqiProofs/LllCheck.lean`.
   Core Lean only (linked into the driver). -/
namespace SqiModel.Lll
open SqiModel.Quat

/-! ## integer row operations -/

def getRow (m : Mat4) : Fin 4 → Vec4
  | 0 => m.r0 | 1 => m.r1 | 2 => m.r2 | 3 => m.r3

def setRow (m : Mat4) (k : Fin 4) (v : Vec4) : Mat4 :=
  match k with
  | 0 => { m with r0 := v } | 1 => { m with r1 := v } | 2 => { m with r2 := v } | 3 => { m with r3 := v }

/-- `c * v` (coordinatewise) -/
def sm (c : Int) (v : Vec4) : Vec4 := ⟨c * v.x0, c * v.x1, c * v.x2, c * v.x3⟩

/-- the two integer operations of Cohen 2.6.3 as coded in `RED` / `SWAP` -/
inductive Op where
  | red (k l : Fin 4) (r : Int)    -- row k -= r * row l
  | swap (k : Fin 4)               -- swap rows k and k-1
deriving Repr, DecidableEq

/-- the C code only issues RED(k,l) with l < k and SWAP(k) with k >= 1 -/
def Op.valid : Op → Bool
  | .red k l _ => decide (k ≠ l)
  | .swap k => decide (k ≠ 0)

/-- `k - 1` (only used for k >= 1) -/
def prev : Fin 4 → Fin 4
  | 0 => 3 | 1 => 0 | 2 => 1 | 3 => 2

def applyOp (op : Op) (m : Mat4) : Mat4 :=
  match op with
  | .red k l r => setRow m k ((getRow m k).sub (sm r (getRow m l)))
  | .swap k => setRow (setRow m k (getRow m (prev k))) (prev k) (getRow m k)

/-- state of the integer part of the routine: (basis rows, H) -/
def step (s : Mat4 × Mat4) (op : Op) : Mat4 × Mat4 := (applyOp op s.1, applyOp op s.2)

/-- integer effect of the main loop for an arbitrary decision sequence: start with `H = I` -/
def run (ops : List Op) (b : Mat4) : Mat4 × Mat4 := ops.foldl step (b, Mat4.identity)

/-- the C calling convention: `basis := transpose(lattice->basis)` at entry, `red := transpose(basis)` at exit
    (lattice vectors are the COLUMNS of `lattice->basis` and of `red`) -/
def runCols (ops : List Op) (lat : Mat4) : Mat4 := (run ops lat.transpose).1.transpose

/-! ## the norm form and the division-free Gram-Schmidt data -/

/-- `dotproduct_row`: m1[0]*m2[0] + m1[1]*m2[1] + q*(m1[2]*m2[2] + m1[3]*m2[3]) -/
def form (q : Int) (u v : Vec4) : Int := u.x0 * v.x0 + u.x1 * v.x1 + q * (u.x2 * v.x2 + u.x3 * v.x3)

/-- Division-free Gram-Schmidt of the rows `b0..b3`:  `c_i = s_i * b_i^*` with `s_0 = 1`, `s_i = N_0 ... N_{i-1}`,
    `N_i = <c_i, c_i>`, `t_ij = <b_i, c_j>`; hence `mu_ij = t_ij / N_j * s_j`... (see `SqiProofs/LllCheck.lean`):
      mu_ij = t_ij * s_j / N_j,   |b_i^*|^2 = N_i / s_i^2. -/
structure GS where
  c0 : Vec4
  c1 : Vec4
  c2 : Vec4
  c3 : Vec4
  n0 : Int
  n1 : Int
  n2 : Int
  n3 : Int
  t10 : Int
  t20 : Int
  t21 : Int
  t30 : Int
  t31 : Int
  t32 : Int
deriving Repr

def gsData (q : Int) (b : Mat4) : GS :=
  let b0 := b.r0; let b1 := b.r1; let b2 := b.r2; let b3 := b.r3
  let c0 := b0
  let n0 := form q c0 c0
  let t10 := form q b1 c0
  let c1 := (sm n0 b1).sub (sm t10 c0)
  let n1 := form q c1 c1
  let t20 := form q b2 c0
  let t21 := form q b2 c1
  let c2 := ((sm (n0 * n1) b2).sub (sm (t20 * n1) c0)).sub (sm (t21 * n0) c1)
  let n2 := form q c2 c2
  let t30 := form q b3 c0
  let t31 := form q b3 c1
  let t32 := form q b3 c2
  let c3 := (((sm (n0 * n1 * n2) b3).sub (sm (t30 * (n1 * n2)) c0)).sub (sm (t31 * (n0 * n2)) c1)).sub
              (sm (t32 * (n0 * n1)) c2)
  let n3 := form q c3 c3
  ⟨c0, c1, c2, c3, n0, n1, n2, n3, t10, t20, t21, t30, t31, t32⟩

def iabs (a : Int) : Int := if a < 0 then -a else a

/-- `|t * s / n| <= en/ed`  (n > 0, ed > 0) without division -/
def sizeOk (en ed t s n : Int) : Bool := decide (iabs (t * s) * ed ≤ en * n)

/-- Lovasz condition  N_i/s_i^2 >= (dn/dd - mu^2) * N_{i-1}/s_{i-1}^2  with  mu = t*s/P, P = N_{i-1}, s = s_{i-1},
    s_i = s*P, cleared of denominators:  dd * N_i >= dn * P^3 - dd * t^2 * s^2 * P. -/
def lovaszOk (dn dd ni t s p : Int) : Bool := decide (dn * (p * p * p) - dd * (t * t) * (s * s) * p ≤ dd * ni)

/-- all four squared Gram-Schmidt norms positive (the rows are linearly independent) -/
def GS.pos (g : GS) : Bool := decide (0 < g.n0) && decide (0 < g.n1) && decide (0 < g.n2) && decide (0 < g.n3)

def GS.sizeReduced (g : GS) (en ed : Int) : Bool :=
  sizeOk en ed g.t10 1 g.n0 &&
  sizeOk en ed g.t20 1 g.n0 && sizeOk en ed g.t21 g.n0 g.n1 &&
  sizeOk en ed g.t30 1 g.n0 && sizeOk en ed g.t31 g.n0 g.n1 && sizeOk en ed g.t32 (g.n0 * g.n1) g.n2

def GS.lovasz (g : GS) (dn dd : Int) : Bool :=
  lovaszOk dn dd g.n1 g.t10 1 g.n0 &&
  lovaszOk dn dd g.n2 g.t21 g.n0 g.n1 &&
  lovaszOk dn dd g.n3 g.t32 (g.n0 * g.n1) g.n2

/-- reducedness of the ROWS of `b` -/
def reducedRows (dn dd en ed q : Int) (b : Mat4) : Bool :=
  let g := gsData q b
  g.pos && g.sizeReduced en ed && g.lovasz dn dd

/-! ## same lattice -/

/-- determinant by the 2x2-minor expansion used in `ibz_mat_4x4_inv_with_det_as_denom` -/
def det (m : Mat4) : Int := m.invWithDet.2

/-- candidate for `X` with `X * a = b` (rows of b as integer combinations of rows of a): `b * adj(a) / det a`
    entrywise (truncated); the candidate is only a hint — it is VERIFIED by `mulEq`. -/
def solveLeft (a b : Mat4) : Mat4 :=
  let r := a.invWithDet
  (b.mul r.1).map (fun x => Int.tdiv x r.2)

/-- rows of `b` are integer combinations of the rows of `a`, witnessed and re-checked exactly -/
def rowsIn (a b : Mat4) : Bool := (solveLeft a b).mul a == b

/-- the rows of `a` and of `b` generate the same lattice -/
def sameRowLattice (a b : Mat4) : Bool := rowsIn a b && rowsIn b a

/-- The certificate check run on every C output.  `lat`, `red` in the C convention (vectors are COLUMNS).
    delta = dn/dd, eta = en/ed. -/
def lllCheck (dn dd en ed q : Int) (lat red : Mat4) : Bool :=
  decide (0 < q) && decide (0 < dd) && decide (0 < ed) && decide (0 ≤ en) &&
  sameRowLattice lat.transpose red.transpose && reducedRows dn dd en ed q red.transpose

/-- diagnostic code for the harness: 0 ok, 1 bad parameters, 2 lattice changed, 3 not a basis (some N_i <= 0),
    4 not size-reduced, 5 Lovasz fails -/
def lllDiag (dn dd en ed q : Int) (lat red : Mat4) : Nat :=
  if !(decide (0 < q) && decide (0 < dd) && decide (0 < ed) && decide (0 ≤ en)) then 1
  else if !sameRowLattice lat.transpose red.transpose then 2
  else
    let g := gsData q red.transpose
    if !g.pos then 3 else if !g.sizeReduced en ed then 4 else if !g.lovasz dn dd then 5 else 0

/-- full post-condition on the return value: rank-deficient input must be reported (`ret = -1`);
    full-rank input must succeed with a reduced basis of the same lattice. -/
def lllRetCheck (dn dd en ed q : Int) (lat : Mat4) (ret : Int) (red : Mat4) : Bool :=
  if det lat = 0 then ret == -1 else ret == 0 && lllCheck dn dd en ed q lat red

/-! ## the repaired routine (repo commit ba3b4ab, "fix: quat_lattice_lll reports rank-deficient input ...")

`quat_lattice_lll` now BEGINS with the exact rank test
  `full_rank = ibz_mat_4x4_inv_with_det_as_denom(NULL, &det, &lattice->basis); if (!full_rank) return -1;`
(`ibz_mat_4x4_inv_with_det_as_denom` = `Mat4.invWithDet`, verified in SqiProofs/QuatMat.lean: its second component is the
determinant) before any float is touched, and only then sets the float precision
  `mpf_set_default_prec(2*logdet + 4*ibz_bitsize(q) + 128)`,  logdet = sum over rows of the max bitsize
(formerly `2*logdet`, which ignored q).  The floats themselves are still not modelled: what they decide is the
operation list and whether the remaining float test `B[k] == 0.0` fires. -/

/-- the entry guard: `some (-1)` = the routine returns -1 at once, `none` = it goes on to the float loop -/
def lllGuard (lat : Mat4) : Option Int := if lat.invWithDet.2 = 0 then some (-1) else none

/-- everything the floats decide -/
structure Trace where
  ops : List Op
  floatZero : Bool      -- the float test `mpf_get_d(B[k]) == 0.0` fired (then ret = -1)

/-- `bitsize` as `mpz_sizeinbase(.,2)` (1 for 0) and the precision the repaired routine asks for -/
def bitsize (a : Int) : Nat := if a = 0 then 1 else Nat.log2 a.natAbs + 1
def rowMaxBits (r : Vec4) : Nat := max (max (bitsize r.x0) (bitsize r.x1)) (max (bitsize r.x2) (bitsize r.x3))
def logdetBound (lat : Mat4) : Nat := rowMaxBits lat.r0 + rowMaxBits lat.r1 + rowMaxBits lat.r2 + rowMaxBits lat.r3
def lllPrecision (q : Int) (lat : Mat4) : Nat := 2 * logdetBound lat + 4 * bitsize q + 128

/-- the repaired routine for an arbitrary float trace: (return value, `red` if written) -/
def lllRepaired (t : Trace) (lat : Mat4) : Int × Option Mat4 :=
  match lllGuard lat with
  | some r => (r, none)
  | none => if t.floatZero then (-1, none) else (0, some (runCols t.ops lat))

/-! ### second repair (notes/patches/C16-fix-lll-float-zero.diff): the zero test on `B[k]`

The remaining float test was `mpf_get_d(B[k]) == 0.0`: the conversion to `double` underflows to 0.0 as soon as the
(correct, positive) `B[k]` is below 2^-1074, so full-rank lattices given by a skewed basis were reported as rank
deficient.  The repair tests the mpf value itself (`mpf_sgn(B[k]) == 0`; kept because the next statements divide by
`B[k]`).  Its exact counterpart — "the exact Gram-Schmidt norm of the current basis vanishes" — is what the model
uses; it can be evaluated whenever the routine recomputes a `B[k]`, i.e. after any prefix of the operation list. -/

/-- exact counterpart of `mpf_sgn(B[k]) == 0` for the current basis rows: some exact `|b*_k|^2` is not positive -/
def exactZeroTest (q : Int) (rows : Mat4) : Bool := !(gsData q rows).pos

/-- the routine after both repairs, for an arbitrary operation list: entry guard, then the (exact) zero test at
    every prefix, then success -/
def lllRepaired2 (q : Int) (ops : List Op) (lat : Mat4) : Int × Option Mat4 :=
  match lllGuard lat with
  | some r => (r, none)
  | none =>
    if (List.range (ops.length + 1)).any (fun n => exactZeroTest q (run (ops.take n) lat.transpose).1) then (-1, none)
    else (0, some (runCols ops lat))

end SqiModel.Lll

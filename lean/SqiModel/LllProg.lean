import SqiModel.Lll
/- Program type + interpreter for the INTEGER SLICE of `src/quaternion/ref/generic/lll.c` (tie T for C16).
   `tools/translate/lllops.py` keeps the integer statements of `RED`, `SWAP` and the skeleton of `quat_lattice_lll`,
   drops every `mpf_*` statement, turns every float-dependent value / branch into an ORACLE choice, unrolls the
   `for (int i = 0; i < N; ++i)` loops into per-entry statements and writes the result as DATA into
   `SqiGen/LllOps.lean` (regenerated on every run).  This file is hand-written: the statement language and what it means.
   Core Lean only. -/
namespace SqiModel.LllProg
open SqiModel.Quat SqiModel.Lll

/-- the two integer matrices the routine updates -/
inductive Which where
  | basis | H
deriving DecidableEq, Repr

/-- row-index expressions occurring in the C text, in terms of the parameters `k`, `l` of RED / SWAP -/
inductive Idx where
  | k | l | kMinus1
deriving DecidableEq, Repr

/-- an `mpz_t` operand: an entry `mat[row][col]` (col already a literal: the loops are unrolled) or the local `tmpz` -/
inductive Ref where
  | ent (m : Which) (row : Idx) (col : Fin 4)
  | tmp
deriving DecidableEq, Repr

/-- the accepted integer statements; `q` is the oracle quotient (`mpz_set_f(q, floor(0.5 + u[k][l]))`) -/
inductive Stmt where
  | mulQ (dst src : Ref)        -- mpz_mul(dst, q, src)
  | add (dst a b : Ref)         -- mpz_add(dst, a, b)
  | sub (dst a b : Ref)         -- mpz_sub(dst, a, b)
  | subMulQ (dst src : Ref)     -- mpz_submul(dst, q, src)
  | swap (a b : Ref)            -- mpz_swap(a, b)
deriving DecidableEq, Repr

structure St where
  basis : Mat4
  h : Mat4
  tmp : Int

def getV (v : Vec4) : Fin 4 → Int
  | 0 => v.x0 | 1 => v.x1 | 2 => v.x2 | 3 => v.x3

def setV (v : Vec4) (c : Fin 4) (x : Int) : Vec4 :=
  match c with
  | 0 => { v with x0 := x } | 1 => { v with x1 := x } | 2 => { v with x2 := x } | 3 => { v with x3 := x }

def getE (m : Mat4) (r c : Fin 4) : Int := getV (getRow m r) c
def setE (m : Mat4) (r c : Fin 4) (x : Int) : Mat4 := setRow m r (setV (getRow m r) c x)

def evalIdx (k l : Fin 4) : Idx → Fin 4
  | .k => k | .l => l | .kMinus1 => prev k

def rd (k l : Fin 4) (s : St) : Ref → Int
  | .ent .basis r c => getE s.basis (evalIdx k l r) c
  | .ent .H r c => getE s.h (evalIdx k l r) c
  | .tmp => s.tmp

def wr (k l : Fin 4) (s : St) (x : Int) : Ref → St
  | .ent .basis r c => { s with basis := setE s.basis (evalIdx k l r) c x }
  | .ent .H r c => { s with h := setE s.h (evalIdx k l r) c x }
  | .tmp => { s with tmp := x }

/-- one statement, with the parameters `k`, `l` and the oracle quotient `q` -/
def exec (k l : Fin 4) (q : Int) (s : St) : Stmt → St
  | .mulQ d a => wr k l s (q * rd k l s a) d
  | .add d a b => wr k l s (rd k l s a + rd k l s b) d
  | .sub d a b => wr k l s (rd k l s a - rd k l s b) d
  | .subMulQ d a => wr k l s (rd k l s d - q * rd k l s a) d
  | .swap a b =>
    let va := rd k l s a
    let vb := rd k l s b
    wr k l (wr k l s vb a) va b

def execAll (k l : Fin 4) (q : Int) (s : St) (p : List Stmt) : St := p.foldl (exec k l q) s

/-- the integer slice of `RED`: an optional oracle early exit (`if (|u| <= 0.5) goto end`) that must precede every
    integer statement, the oracle quotient, and the unrolled integer statements -/
structure RedProg where
  earlyExit : Bool        -- the float-guarded `goto end` is present, before the first integer statement
  quotientFromFloat : Bool  -- `q` is set by `mpz_set_f` from a float (an oracle value), before its first use
  body : List Stmt

/-- integer slice of `SWAP`: no oracle at all -/
structure SwapProg where
  body : List Stmt

/-- effect of RED on (basis, H) for an oracle (`exit`: the early exit is taken; `q`: the quotient) -/
def runRED (p : RedProg) (k l : Fin 4) (exit : Bool) (q : Int) (s : Mat4 × Mat4) : Mat4 × Mat4 :=
  if p.earlyExit && exit then s
  else
    let r := execAll k l q ⟨s.1, s.2, 0⟩ p.body
    (r.basis, r.h)

def runSWAP (p : SwapProg) (k : Fin 4) (s : Mat4 × Mat4) : Mat4 × Mat4 :=
  let r := execAll k k 0 ⟨s.1, s.2, 0⟩ p.body
  (r.basis, r.h)

/-! ## skeleton of `quat_lattice_lll` -/

/-- what the zero test on `B[k]` looks at -/
inductive ZeroTest where
  | mpfSgn        -- `mpf_sgn(B[k]) == 0`: the mpf value itself (exact on the float)
  | doubleConv    -- `mpf_get_d(B[k]) == 0.0`: underflows below 2^-1074 (the defect fixed by 1010430)
  | other
deriving DecidableEq, Repr

/-- the events of the routine that concern integers / return values, in textual order -/
inductive Event where
  | rankTestReturnMinus1     -- `ibz_mat_4x4_inv_with_det_as_denom(NULL,&det,&lattice->basis)`; `if (!full_rank) return -1;`
  | rankComputedNoReturn     -- the determinant is computed but the routine does not return on rank deficiency
  | setPrecision             -- `mpf_set_default_prec(..)` (float; position only)
  | transposeIn              -- `ibz_mat_4x4_transpose(&basis, &lattice->basis)`
  | initHIdentity            -- `H[i][j] = (i == j)`
  | mainLoop
  | transposeOut             -- `ibz_mat_4x4_transpose(red, &basis)`
deriving DecidableEq, Repr

/-- the main loop `while (k < 4)`, as extracted:
      [k > kmax: float Gram-Schmidt; if (zero test) { ret = -1; goto err; }]
      while (1) { RED(k, k-1); if (oracle Lovasz) { SWAP(k); k = max(k-1, 1); } else { for l = k-2..0: RED(k,l); k++; break; } } -/
structure MainLoop where
  kInit : Nat                 -- `int k = 1`
  kBound : Nat                -- `while (k < 4)`
  zeroTest : ZeroTest
  zeroTestReturnsMinus1 : Bool
  firstRedL : Idx             -- second index argument of the first RED call (`k - 1`)
  swapK : Idx                 -- index argument of SWAP (`k`)
  kAfterSwapMax1 : Bool       -- `k = (k - 1 > 1 ? k - 1 : 1)`
  elseRedFrom : Int           -- `l = k - 2` encoded as the offset -2
  elseRedDownTo : Int         -- `l >= 0`
  kIncrAfterElse : Bool       -- `k++; break;`
deriving Repr

structure Skeleton where
  events : List Event
  loop : MainLoop

/-- one oracle decision of the main loop body at the current `k`: the first RED's outcome, then either SWAP or the
    remaining REDs with their outcomes -/
structure Decision where
  red1 : Bool × Int                  -- (early exit?, quotient) of RED(k, k-1)
  lovaszSwap : Bool                  -- the float Lovasz test says "swap"
  reds : List (Bool × Int)           -- outcomes of RED(k, l), l = k-2 … 0 (used when not swapping)

/-- ops issued by one pass of the inner loop body at `k` (1 ≤ k ≤ 3), and the next `k` -/
def passOps (ml : MainLoop) (k : Nat) (d : Decision) : List Op × Nat :=
  let kf : Fin 4 := Fin.ofNat 4 k
  let l1 : Fin 4 := evalIdx kf kf ml.firstRedL
  let r1 : List Op := if d.red1.1 then [] else [Op.red kf l1 d.red1.2]
  if d.lovaszSwap then
    (r1 ++ [Op.swap (evalIdx kf kf ml.swapK)], if ml.kAfterSwapMax1 then (if k - 1 > 1 then k - 1 else 1) else k - 1)
  else
    let ls : List Nat := (List.range (k - 1)).reverse       -- l = k-2, …, 0
    let rs : List Op := (ls.zip d.reds).filterMap fun (l, o) => if o.1 then none else some (Op.red kf (Fin.ofNat 4 l) o.2)
    (r1 ++ rs, if ml.kIncrAfterElse then k + 1 else k)

/-- the op list issued by the main loop for a finite list of oracle decisions (the loop ends when `k` reaches the
    bound; a run that has not ended when the decisions are used up is cut there — every prefix is covered) -/
def loopOps (ml : MainLoop) : List Decision → Nat → List Op
  | [], _ => []
  | d :: ds, k =>
    if k < ml.kBound then
      let r := passOps ml k d
      r.1 ++ loopOps ml ds r.2
    else []


/-! ## executing the extracted text -/

/-- effect of one issued call, through the EXTRACTED bodies -/
def textStep (rp : RedProg) (sp : SwapProg) (s : Mat4 × Mat4) : Op → Mat4 × Mat4
  | .red k l q => runRED rp k l false q s
  | .swap k => runSWAP sp k s

/-- the whole routine on a full-rank input that passes the zero test, for a list of oracle decisions: the events
    `transposeIn`, `initHIdentity`, the main loop (calls through the extracted bodies), `transposeOut` -/
def textLll (rp : RedProg) (sp : SwapProg) (sk : Skeleton) (ds : List Decision) (lat : Mat4) : Mat4 :=
  ((loopOps sk.loop ds sk.loop.kInit).foldl (textStep rp sp) (lat.transpose, Mat4.identity)).1.transpose

end SqiModel.LllProg

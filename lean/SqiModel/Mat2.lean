/- 2x2 integer matrices as `List (List Int)` (shape of the generated tables), executable, core-only -/
namespace SqiModel.Mat2

def get (m : List (List Int)) (i j : Nat) : Int := (m.getD i []).getD j 0

def mul (a b : List (List Int)) : List (List Int) :=
  [[get a 0 0 * get b 0 0 + get a 0 1 * get b 1 0, get a 0 0 * get b 0 1 + get a 0 1 * get b 1 1],
   [get a 1 0 * get b 0 0 + get a 1 1 * get b 1 0, get a 1 0 * get b 0 1 + get a 1 1 * get b 1 1]]

def add (a b : List (List Int)) : List (List Int) :=
  [[get a 0 0 + get b 0 0, get a 0 1 + get b 0 1], [get a 1 0 + get b 1 0, get a 1 1 + get b 1 1]]

def smul (c : Int) (a : List (List Int)) : List (List Int) :=
  [[c * get a 0 0, c * get a 0 1], [c * get a 1 0, c * get a 1 1]]

def scalar (c : Int) : List (List Int) := [[c, 0], [0, c]]

def det (a : List (List Int)) : Int := get a 0 0 * get a 1 1 - get a 0 1 * get a 1 0

/-- entrywise congruence modulo n (as a Bool, for `decide`) -/
def eqMod (n : Int) (a b : List (List Int)) : Bool :=
  (get a 0 0 - get b 0 0) % n == 0 && (get a 0 1 - get b 0 1) % n == 0 &&
  (get a 1 0 - get b 1 0) % n == 0 && (get a 1 1 - get b 1 1) % n == 0

def wellShaped (a : List (List Int)) : Bool :=
  a.length == 2 && a.all (·.length == 2)

end SqiModel.Mat2

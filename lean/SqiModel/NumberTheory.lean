/-
C17 — hand model of the norm-equation helpers of src/quaternion/ref/generic/integers.c:
`ibz_cornacchia_prime`, `ibz_cornacchia_special_prime`, `ibz_complex_mul`,
`ibz_complex_mul_by_complex_power`, `ibz_cornacchia_extended_prime_loop`, `ibz_cornacchia_extended`,
and the integer core of `represent_integer` (klpt/tools.c).  Control flow transcribed; GMP = exact `Int`.
`ibz_probab_prime` is a *parameter* of the model (soundness never depends on it: every Cornacchia call
re-checks its result); the driver instantiates it with a Miller–Rabin test.
Core Lean only.
-/
import SqiModel.Intbig
namespace SqiModel.NumberTheory
open SqiModel.Intbig

/-- floor square root, bit by bit (structural recursion, kernel-reducible); stands for `mpz_sqrt` -/
def isqrtBits : Nat → Nat → Nat → Nat
  | 0, _, r => r
  | k + 1, n, r => if (r + 2 ^ k) * (r + 2 ^ k) ≤ n then isqrtBits k n (r + 2 ^ k) else isqrtBits k n r

def isqrt (n : Nat) : Nat := isqrtBits (n.log2 / 2 + 1) n 0

/-- `ibz_sqrt`: exact integer square root of a perfect square (returns 0/`fail` otherwise, also for a < 0) -/
def ibzSqrt (a : Int) : Res Int :=
  if a < 0 then .fail
  else
    let s := isqrt a.toNat
    if s * s = a.toNat then .ok (s : Int) else .fail

/-- the Euclidean descent `while (prod >= bound) { r0 = r2 tmod r1; prod = r0²; r2 = r1; r1 = r0; }`,
    entered with `prod = bound` (so the body runs at least once); returns (r0, prod) at exit. -/
def cornLoop (bound : Int) : Nat → Int → Int → Res (Int × Int)
  | 0, _, _ => .ub
  | fuel + 1, r2, r1 =>
    if r1 = 0 then .ub                     -- division by zero
    else
      let r0 := r2.tmod r1
      let prod := r0 * r0
      if prod ≥ bound then cornLoop bound fuel r1 r0 else .ok (r0, prod)

/-- common tail of the two prime variants: "test if result is solution" -/
def cornFinish (n target r0 prod : Int) : Res (Int × Int) :=
  let a := (target - prod).tdiv n
  let r2 := (target - prod).tmod n
  if r2 ≠ 0 then .fail
  else match ibzSqrt a with
    | .ok y =>
      let x := r0
      if prod + y * y * n = target then .ok (x, y) else .fail
    | _ => .fail

/-- `ibz_cornacchia_prime(x, y, n, p)` : x² + n·y² = p.  (n ≠ 0, p > 0 prime) -/
def ibzCornacchiaPrime (n p : Int) : Res (Int × Int) :=
  if p = 2 then (if n = 1 then .ok (1, 1) else .fail)
  else
    match ibzSqrtModP (0 - n) p with
    | .ub => .ub
    | .fail => .fail
    | .ok r2 =>
      match cornLoop p (p.natAbs + 2) r2 p with
      | .ub => .ub
      | .fail => .fail
      | .ok (r0, prod) => cornFinish n p r0 prod

/-- `ibz_cornacchia_special_prime(x, y, n, p, exp_adjust)` : x² + n·y² = 2^exp_adjust · p.
    Repaired code: gcd(p, n) ≠ 1 (p ≠ 2) reports failure. -/
def ibzCornacchiaSpecialPrime (n p : Int) (e : Nat) : Res (Int × Int) :=
  let p4 := p * 2 ^ e
  if p = 2 then (if n = 1 then .ok (1, 1) else .fail)
  else if (gcdext p n).1 ≠ 1 then .fail
  else
    match ibzSqrtModP (0 - n) p with
    | .ub => .ub
    | .fail => .fail
    | .ok r2 =>
      if ibzGet r2 % 2 = 0 then .fail
      else if (r2 * r2 + n) % p4 ≠ 0 then .fail
      else
        match cornLoop p4 (p4.natAbs + 2) r2 p4 with
        | .ub => .ub
        | .fail => .fail
        | .ok (r0, prod) => cornFinish n p4 r0 prod

/-! ### Gaussian-integer product and power -/

/-- `ibz_complex_mul` -/
def cmul (a b : Int × Int) : Int × Int := (a.1 * b.1 - a.2 * b.2, a.1 * b.2 + a.2 * b.1)

/-- the 64-iteration square-and-multiply loop of `ibz_complex_mul_by_complex_power` (`k` iterations left,
    bit tested in this iteration: `k-1`) -/
def cpowLoop (a : Int × Int) (exp : Nat) : Nat → Int × Int → Int × Int
  | 0, x => x
  | k + 1, x =>
    let x := cmul x x
    let x := if exp / 2 ^ k % 2 = 1 then cmul x a else x
    cpowLoop a exp k x

/-- `ibz_complex_mul_by_complex_power(res, a, exp)`: res ← res · a^exp  (0 ≤ exp < 2^63) -/
def cmulByPow (res a : Int × Int) (exp : Nat) : Int × Int := cmul res (cpowLoop a exp 64 (1, 0))

/-- `ibz_cornacchia_extended_prime_loop` -/
def extPrimeLoop (res : Int × Int) (prime : Int) (val : Nat) : Res (Int × Int) :=
  match ibzCornacchiaPrime 1 prime with
  | .ok a => .ok (cmulByPow res a val)
  | .fail => .fail
  | .ub => .ub

/-- the valuation loop of `ibz_cornacchia_extended` for one prime, literally:
    `while (r == 0) { val++; nodd = q; (q, r) = tdiv(nodd, p); } val--;` entered with q = nodd, r = 0 -/
def valLoop (p : Int) : Nat → Int → Int → Nat → Res (Int × Nat)
  | 0, _, _, _ => .ub                       -- does not terminate (nodd = 0 or |p| ≤ 1)
  | fuel + 1, q, _, val =>
    let val := val + 1
    let nodd := q
    let q' := nodd.tdiv p
    let r := nodd.tmod p
    if r = 0 then valLoop p fuel q' nodd val else .ok (nodd, val - 1)

/-- strip all listed primes (those ≡ 1 mod 4, and the first entry whatever it is) -/
def stripPrimes : List Int → Bool → Int → Res (Int × List Nat)
  | [], _, nodd => .ok (nodd, [])
  | p :: ps, first, nodd =>
    if p % 4 = 1 ∨ first then
      if p = 0 then .ub else
      match valLoop p (nodd.natAbs.log2 + 2) nodd nodd 0 with
      | .ok (nodd', v) =>
        (match stripPrimes ps false nodd' with
         | .ok (n2, vs) => .ok (n2, v :: vs)
         | .fail => .fail
         | .ub => .ub)
      | .fail => .fail
      | .ub => .ub
    else
      match stripPrimes ps false nodd with
      | .ok (n2, vs) => .ok (n2, 0 :: vs)
      | .fail => .fail
      | .ub => .ub

/-- the final loop over the prime list -/
def applyPrimes : List Int → List Nat → Int × Int → Res (Int × Int)
  | p :: ps, v :: vs, xy =>
    if v ≠ 0 then
      match extPrimeLoop xy p v with
      | .ok xy' => applyPrimes ps vs xy'
      | .fail => .fail
      | .ub => .ub
    else applyPrimes ps vs xy
  | _, _, xy => .ok xy

/-- `if (bad_primes_prod != NULL) { gcd(n, bad) != 1 → res = 0 }` -/
def badPrimesHit (n : Int) : Option Int → Bool
  | some b => decide ((gcdext n b).1 ≠ 1)
  | none => false

/-- `ibz_cornacchia_extended(x, y, n, prime_list, len, iters, bad_primes_prod)` : x² + y² = n -/
def ibzCornacchiaExtended (isPP : Int → Bool) (n : Int) (primes : List Int) (bad : Option Int) : Res (Int × Int) :=
  if badPrimesHit n bad then .fail
  else
    match stripPrimes primes true n with
    | .ub => .ub
    | .fail => .fail
    | .ok (nodd, vals) =>
      if nodd % 4 ≠ 1 then .fail
      else if ¬ (isPP nodd ∨ nodd = 1) then .fail
      else
        let first : Res (Int × Int) := if nodd = 1 then .ok (1, 0) else ibzCornacchiaPrime 1 nodd
        match first with
        | .ok xy => applyPrimes primes vals xy
        | .fail => .fail
        | .ub => .ub

/-! ### Miller–Rabin stand-in for `ibz_probab_prime` (driver only; no theorem depends on it) -/

def mrWitnessLoop (n : Nat) : Nat → Nat → Bool
  | 0, _ => false
  | k + 1, x => if x = n - 1 then true else mrWitnessLoop n k (x * x % n)

def mrPasses (n d s a : Nat) : Bool :=
  let a := a % n
  if a = 0 then true else
  let x := powMod a d n
  x = 1 || mrWitnessLoop n s x

def smallPrimes : List Nat := [2, 3, 5, 7, 11, 13, 17, 19, 23, 29, 31, 37, 41, 43, 47, 53, 59, 61, 67, 71]

def probabPrime (n : Int) : Bool :=
  if n < 0 then probabPrime' n.natAbs else probabPrime' n.toNat
where
  probabPrime' (n : Nat) : Bool :=
    if n < 2 then false
    else if smallPrimes.contains n then true
    else if smallPrimes.any (fun p => n % p = 0) then false
    else
      let s := trailingZeros (n - 1) (n - 1)
      let d := (n - 1) / 2 ^ s
      smallPrimes.all (fun a => mrPasses n d s a)

/-! ### integer core of `represent_integer` (klpt/tools.c): one trial of the main loop

Given the two sampled coordinates z, t (from `ibz_rand_interval`), the code solves
x² + y² = 4·n_gamma − p·(z² + t²) with `ibz_cornacchia_extended`. -/
def representIntegerTrial (isPP : Int → Bool) (nGamma p z t : Int) (primes : List Int) (bad : Option Int) :
    Res (Int × Int × Int × Int) :=
  let adjusted := nGamma * 2 * 2
  let target := adjusted - (z * z + t * t) * p
  match ibzCornacchiaExtended isPP target primes bad with
  | .ok (x, y) => .ok (x, y, z, t)
  | .fail => .fail
  | .ub => .ub

/-! ### `represent_integer` / `represent_integer_non_diag` (klpt/tools.c), whole function at the integer level

The candidate-enumeration loop (at most `trials` = KLPT_repres_num_gamma_trial iterations; z ∈ [1, ⌊√(4n/p)⌋],
t ∈ [1, ⌊√(⌊4n/p⌋ − z²)⌋] drawn with `ibz_rand_interval`; x, y from `ibz_cornacchia_extended`; the C parity tests on
`int64` truncations) is transcribed.  The quaternion tail (`order_elem_create`, `quat_alg_make_primitive`,
`ibz_mat_4x4_eval` with the basis of STANDARD_EXTREMAL_ORDER = ⟨1, i, (i+j)/2, (1+k)/2⟩, denominator 2) is modelled
by its closed form for that order: x + y·i + z·j + t·(j·i) = x + y i + z j − t k has lattice coordinates
(x+t, y−z, 2z, −2t); content g = gcd of those; γ = basis · (coords / g), denominator 2; n_gamma ← 4n / g².
(`quat_alg_mul`, `quat_lattice_contains` themselves belong to C14/C15; the closed form is tied by correspondence.) -/

/-- C `%` on `int64_t` -/
def cRem (a m : Int) : Int := a.tmod m

def inInt64 (v : Int) : Bool := decide (-(2 ^ 63) ≤ v ∧ v < 2 ^ 63)

/-- the acceptance tests after Cornacchia; returns the (possibly swapped) x, y.  `ub` = signed overflow in
    `ibz_get(a) - ibz_get(b)` -/
def riAccept (nd : Bool) (x y z t : Int) : Res (Int × Int) :=
  if ¬ nd then
    if cRem (ibzGet x) 2 = cRem (ibzGet t) 2 ∧ cRem (ibzGet y) 2 = cRem (ibzGet z) 2 then .ok (x, y) else .fail
  else
    let (x, y) := if cRem (ibzGet x) 2 = cRem (ibzGet t) 2 then (x, y) else (y, x)
    if cRem (ibzGet x) 2 = cRem (ibzGet t) 2 ∧ cRem (ibzGet y) 2 = cRem (ibzGet z) 2 then
      let d1 := ibzGet x - ibzGet t
      let d2 := ibzGet y - ibzGet z
      if ¬ inInt64 d1 then .ub
      else if cRem d1 4 ≠ 2 then .fail
      else if ¬ inInt64 d2 then .ub
      else if cRem d2 4 = 2 then .ok (x, y) else .fail
    else .fail

/-- the main loop: `k` trials left -/
def riLoop (isPP : Int → Bool) (nd : Bool) (p adjusted sqBound bound : Int) (primes : List Int) (bad : Option Int) :
    Nat → List Nat → Res ((Int × Int × Int × Int) × List Nat)
  | 0, _ => .fail
  | k + 1, s =>
    match ibzRandInterval 1 bound s with
    | .ok (z, s1) =>
      let temp : Int := (isqrt (sqBound - z * z).toNat : Nat)
      if temp = 0 then riLoop isPP nd p adjusted sqBound bound primes bad k s1
      else
        match ibzRandInterval 1 temp s1 with
        | .ok (t, s2) =>
          let target := adjusted - (z * z + t * t) * p
          (match ibzCornacchiaExtended isPP target primes bad with
           | .ok (x, y) =>
             (match riAccept nd x y z t with
              | .ok (x', y') => .ok ((x', y', z, t), s2)
              | .fail => riLoop isPP nd p adjusted sqBound bound primes bad k s2
              | .ub => .ub)
           | .fail => riLoop isPP nd p adjusted sqBound bound primes bad k s2
           | .ub => .ub)
        | _ => .ub        -- randombytes failed: the C ignores the return value and goes on with a stale coordinate (not modelled)
    | _ => .ub

structure RIOut where
  nOut : Int
  coord : List Int
  denom : Int
deriving Repr, DecidableEq

def gcd4 (a b c d : Int) : Int := (gcdext (gcdext (gcdext a b).1 c).1 d).1

/-- the quaternion tail for the standard extremal order (closed form, see the section comment) -/
def riFinish (n : Int) (x y z t : Int) : RIOut :=
  let a := x + t
  let b := y - z
  let c := 2 * z
  let d := -(2 * t)
  let g := gcd4 a b c d
  let a' := a.tdiv g; let b' := b.tdiv g; let c' := c.tdiv g; let d' := d.tdiv g
  { nOut := (n * 2 * 2).tdiv (g * g), coord := [2 * a' + d', 2 * b' + c', c', d'], denom := 2 }

def riPrimes (nd : Bool) : List Int := if nd then [2, 5, 13, 17, 29, 37, 41, 53, 61, 73, 89, 97] else [5]
def riBad (nd : Bool) : Int :=
  if nd then 140227657289781369 * 8695006970070847579 * 4359375434796427649 * 221191130330393351 *
    1516192381681334191 * 5474546011261709671 else 1

/-- `represent_integer` (nd = false) / `represent_integer_non_diag` (nd = true); `fail` = the C returns 0 -/
def representInteger (isPP : Int → Bool) (nd : Bool) (trials : Nat) (n p : Int) (stream : List Nat) :
    Res (RIOut × List Nat) :=
  let adjusted := n * 2 * 2
  let sqBound := adjusted.tdiv p
  let bound : Int := (isqrt sqBound.toNat : Nat)
  match riLoop isPP nd p adjusted sqBound bound (riPrimes nd) (some (riBad nd)) trials stream with
  | .ok ((x, y, z, t), rest) => .ok (riFinish n x y z t, rest)
  | .fail => .fail
  | .ub => .ub

end SqiModel.NumberTheory

/- Hand model (tie H) of src/quaternion/ref/generic/{algebra.c, dim4.c, lattice.c, finit.c}.
   GMP integers (`ibz_t`) are modelled as exact `Int`, `ibq_t` as a canonical pair (num, den) with den > 0.
   Core Lean only (linked into the driver).  C indexing is kept: `mat[i][j]` = `(M.row i).get j`, lattice
   basis vectors are the *columns* of `basis`. -/
namespace SqiModel.Quat

/-! ## integer helpers (GMP wrappers of intbig.c) -/

/-- `ibz_div`: `mpz_tdiv_qr` (quotient rounded towards zero). -/
def ibzDiv (a b : Int) : Int × Int := (Int.tdiv a b, Int.tmod a b)

/-- `ibz_gcd`: `mpz_gcd`, always non-negative. -/
def ibzGcd (a b : Int) : Int := (Int.gcd a b : Int)

/-- Bezout coefficients of two naturals by the Euclidean algorithm: `s*a + t*b = gcd a b`
    (structural recursion on a fuel argument so that the kernel can evaluate it; `b + 1` steps always suffice
    because the second argument strictly decreases). -/
def egcdAux : Nat → Nat → Nat → Int × Int
  | 0, _, _ => (1, 0)
  | fuel + 1, a, b =>
    if b = 0 then (1, 0)
    else
      let st := egcdAux fuel b (a % b)
      (st.2, st.1 - ((a / b : Nat) : Int) * st.2)

def egcd (a b : Nat) : Int × Int := egcdAux (b + 1) a b

def sgn (a : Int) : Int := if a < 0 then -1 else if a = 0 then 0 else 1

/-- `ibz_xgcd` = `mpz_gcdext`: returns `(g, s, t)` with `s*a + t*b = g = gcd(a,b) ≥ 0` and GMP's documented
    normalisation of the cofactors (`|s| < |b|/(2g)`, `|t| < |a|/(2g)` with the documented exceptions). -/
def xgcdGmp (a b : Int) : Int × Int × Int :=
  let A := a.natAbs
  let B := b.natAbs
  let g := Nat.gcd A B
  if A = B then ((g : Int), 0, sgn b)
  else if B = 0 then ((g : Int), sgn a, 0)
  else if A = 0 then ((g : Int), 0, sgn b)
  else
    let A' : Int := ((A / g : Nat) : Int)
    let B' : Int := ((B / g : Nat) : Int)
    let st := egcd A B
    -- centred residue of s modulo B' (|B'| = 2 gives s' = 1, GMP's documented exception)
    let r := st.1 % B'
    let s' := if 2 * r ≤ B' then r else r - B'
    let m := (s' - st.1) / B'
    let t' := st.2 - m * A'
    ((g : Int), sgn a * s', sgn b * t')

/-- `ibz_rounded_div` (integers.c): nearest integer, ties away from the truncated quotient are *not* taken
    (only `2|r| > |b|` moves). -/
def roundedDiv (a b : Int) : Int :=
  let q := Int.tdiv a b
  let r := Int.tmod a b
  if 2 * r.natAbs > b.natAbs then (if a * b < 0 then q - 1 else q + 1) else q

/-! ## vectors and matrices -/

structure Vec4 where
  x0 : Int
  x1 : Int
  x2 : Int
  x3 : Int
deriving DecidableEq, Repr, Inhabited

namespace Vec4
def get (v : Vec4) : Nat → Int
  | 0 => v.x0 | 1 => v.x1 | 2 => v.x2 | 3 => v.x3 | _ => 0
def ofFn (f : Nat → Int) : Vec4 := ⟨f 0, f 1, f 2, f 3⟩
def zero : Vec4 := ⟨0, 0, 0, 0⟩
def map (f : Int → Int) (v : Vec4) : Vec4 := ⟨f v.x0, f v.x1, f v.x2, f v.x3⟩
def neg (v : Vec4) : Vec4 := ⟨-v.x0, -v.x1, -v.x2, -v.x3⟩
def add (a b : Vec4) : Vec4 := ⟨a.x0 + b.x0, a.x1 + b.x1, a.x2 + b.x2, a.x3 + b.x3⟩
def sub (a b : Vec4) : Vec4 := ⟨a.x0 - b.x0, a.x1 - b.x1, a.x2 - b.x2, a.x3 - b.x3⟩
def smul (c : Int) (a : Vec4) : Vec4 := ⟨a.x0 * c, a.x1 * c, a.x2 * c, a.x3 * c⟩
/-- `ibz_vec_4_linear_combination` -/
def lc (ca : Int) (a : Vec4) (cb : Int) (b : Vec4) : Vec4 :=
  ⟨ca * a.x0 + cb * b.x0, ca * a.x1 + cb * b.x1, ca * a.x2 + cb * b.x2, ca * a.x3 + cb * b.x3⟩
def isZero (v : Vec4) : Bool := v.x0 == 0 && v.x1 == 0 && v.x2 == 0 && v.x3 == 0
/-- `ibz_content` (quaternion.h): gcd(gcd(x3, gcd(x2, gcd(x0,x1)))) -/
def content (v : Vec4) : Int := ibzGcd v.x3 (ibzGcd v.x2 (ibzGcd v.x0 v.x1))
/-- `ibz_vec_4_scalar_div`: truncated quotients, flag = all remainders zero -/
def scalarDiv (s : Int) (v : Vec4) : Vec4 × Bool :=
  (v.map (fun x => Int.tdiv x s), v.x0.tmod s == 0 && v.x1.tmod s == 0 && v.x2.tmod s == 0 && v.x3.tmod s == 0)
def toList (v : Vec4) : List Int := [v.x0, v.x1, v.x2, v.x3]
end Vec4

structure Mat4 where
  r0 : Vec4
  r1 : Vec4
  r2 : Vec4
  r3 : Vec4
deriving DecidableEq, Repr, Inhabited

namespace Mat4
def row (m : Mat4) : Nat → Vec4
  | 0 => m.r0 | 1 => m.r1 | 2 => m.r2 | _ => m.r3
def get (m : Mat4) (i j : Nat) : Int := (m.row i).get j
def ofFn (f : Nat → Nat → Int) : Mat4 := ⟨Vec4.ofFn (f 0), Vec4.ofFn (f 1), Vec4.ofFn (f 2), Vec4.ofFn (f 3)⟩
def col (m : Mat4) (j : Nat) : Vec4 := ⟨m.r0.get j, m.r1.get j, m.r2.get j, m.r3.get j⟩
def ofCols (c0 c1 c2 c3 : Vec4) : Mat4 :=
  ⟨⟨c0.x0, c1.x0, c2.x0, c3.x0⟩, ⟨c0.x1, c1.x1, c2.x1, c3.x1⟩, ⟨c0.x2, c1.x2, c2.x2, c3.x2⟩, ⟨c0.x3, c1.x3, c2.x3, c3.x3⟩⟩
def map (f : Int → Int) (m : Mat4) : Mat4 := ⟨m.r0.map f, m.r1.map f, m.r2.map f, m.r3.map f⟩
def zero : Mat4 := ⟨Vec4.zero, Vec4.zero, Vec4.zero, Vec4.zero⟩
def identity : Mat4 := ⟨⟨1, 0, 0, 0⟩, ⟨0, 1, 0, 0⟩, ⟨0, 0, 1, 0⟩, ⟨0, 0, 0, 1⟩⟩
/-- `ibz_mat_4x4_mul` -/
def mul (a b : Mat4) : Mat4 :=
  ofFn fun i j => a.get i 0 * b.get 0 j + a.get i 1 * b.get 1 j + a.get i 2 * b.get 2 j + a.get i 3 * b.get 3 j
def transpose (m : Mat4) : Mat4 := ofCols m.r0 m.r1 m.r2 m.r3
def negate (m : Mat4) : Mat4 := m.map (fun x => -x)
/-- `ibz_mat_4x4_scalar_mul` -/
def scalarMul (s : Int) (m : Mat4) : Mat4 := m.map (fun x => x * s)
/-- `ibz_mat_4x4_scalar_div`: truncated quotients and the flag "all remainders zero" -/
def scalarDiv (s : Int) (m : Mat4) : Mat4 × Bool :=
  (m.map (fun x => Int.tdiv x s),
   (m.r0.scalarDiv s).2 && (m.r1.scalarDiv s).2 && (m.r2.scalarDiv s).2 && (m.r3.scalarDiv s).2)
def toList (m : Mat4) : List Int := m.r0.toList ++ m.r1.toList ++ m.r2.toList ++ m.r3.toList
/-- `ibz_mat_4x4_gcd`: gcd of all entries (starting from entry (0,0)) -/
def gcd (m : Mat4) : Int := m.toList.foldl ibzGcd (m.get 0 0)
/-- `ibz_mat_4x4_eval` -/
def eval (m : Mat4) (v : Vec4) : Vec4 :=
  Vec4.ofFn fun i => m.get i 0 * v.x0 + m.get i 1 * v.x1 + m.get i 2 * v.x2 + m.get i 3 * v.x3
/-- `quat_qf_eval`: vᵀ·M·v -/
def qfEval (m : Mat4) (v : Vec4) : Int :=
  let s := m.eval v
  s.x0 * v.x0 + s.x1 * v.x1 + s.x2 * v.x2 + s.x3 * v.x3

def det2 (a11 a12 a21 a22 : Int) : Int := a11 * a22 - a12 * a21

/-- `ibz_mat_4x4_inv_with_det_as_denom`: returns (adjugate, det); the C code leaves `inv` untouched when
    det = 0 (modelled by returning the adjugate anyway and letting callers test `det`). Laplace expansion by
    2×2 minors `s[0..5]` (rows 0,1) and `c[0..5]` (rows 2,3), exactly the index pattern of the C loops. -/
def invWithDet (m : Mat4) : Mat4 × Int :=
  let a := m.get
  let s0 := det2 (a 0 0) (a 0 1) (a 1 0) (a 1 1)
  let s1 := det2 (a 0 0) (a 0 2) (a 1 0) (a 1 2)
  let s2 := det2 (a 0 0) (a 0 3) (a 1 0) (a 1 3)
  let s3 := det2 (a 0 1) (a 0 2) (a 1 1) (a 1 2)
  let s4 := det2 (a 0 1) (a 0 3) (a 1 1) (a 1 3)
  let s5 := det2 (a 0 2) (a 0 3) (a 1 2) (a 1 3)
  let c0 := det2 (a 2 0) (a 2 1) (a 3 0) (a 3 1)
  let c1 := det2 (a 2 0) (a 2 2) (a 3 0) (a 3 2)
  let c2 := det2 (a 2 0) (a 2 3) (a 3 0) (a 3 3)
  let c3 := det2 (a 2 1) (a 2 2) (a 3 1) (a 3 2)
  let c4 := det2 (a 2 1) (a 2 3) (a 3 1) (a 3 3)
  let c5 := det2 (a 2 2) (a 2 3) (a 3 2) (a 3 3)
  let det := s0 * c5 - s1 * c4 + s2 * c3 + s3 * c2 - s4 * c1 + s5 * c0
  let pmp (a1 a2 b1 b2 c1 c2 : Int) : Int := a1 * a2 - b1 * b2 + c1 * c2
  let mpm (a1 a2 b1 b2 c1 c2 : Int) : Int := b1 * b2 - a1 * a2 - c1 * c2
  -- work[j][k]; for k<2 uses row (1-k) of mat and the c-minors, for k≥2 row (3-(k==3)) and the s-minors
  let inv : Mat4 :=
    ⟨⟨pmp (a 1 1) c5 (a 1 2) c4 (a 1 3) c3, mpm (a 0 1) c5 (a 0 2) c4 (a 0 3) c3,
      pmp (a 3 1) s5 (a 3 2) s4 (a 3 3) s3, mpm (a 2 1) s5 (a 2 2) s4 (a 2 3) s3⟩,
     ⟨mpm (a 1 0) c5 (a 1 2) c2 (a 1 3) c1, pmp (a 0 0) c5 (a 0 2) c2 (a 0 3) c1,
      mpm (a 3 0) s5 (a 3 2) s2 (a 3 3) s1, pmp (a 2 0) s5 (a 2 2) s2 (a 2 3) s1⟩,
     ⟨pmp (a 1 0) c4 (a 1 1) c2 (a 1 3) c0, mpm (a 0 0) c4 (a 0 1) c2 (a 0 3) c0,
      pmp (a 3 0) s4 (a 3 1) s2 (a 3 3) s0, mpm (a 2 0) s4 (a 2 1) s2 (a 2 3) s0⟩,
     ⟨mpm (a 1 0) c3 (a 1 1) c1 (a 1 2) c0, pmp (a 0 0) c3 (a 0 1) c1 (a 0 2) c0,
      mpm (a 3 0) s3 (a 3 1) s1 (a 3 2) s0, pmp (a 2 0) s3 (a 2 1) s1 (a 2 2) s0⟩⟩
  (inv, det)

/-- `ibz_mat_4x4_is_hnf` (upper triangular; in every row the first non-zero entry is positive and strictly
    larger than the later, non-negative entries).  The trailing "linestart" loop of the C code only tests
    `-1 < i` and is always true. -/
def isHnfRow (i : Nat) (r : Vec4) : Bool :=
  let e := r.get
  -- zeros left of the diagonal
  (List.range i).all (fun j => e j == 0) &&
  -- scan from the diagonal
  (let rec scan (fuel j : Nat) (found : Bool) (ind : Nat) (res : Bool) : Bool :=
      match fuel with
      | 0 => res
      | fuel + 1 =>
        if found then scan fuel (j + 1) true ind (res && decide (e j ≥ 0) && decide (e ind > e j))
        else if e j ≠ 0 then scan fuel (j + 1) true j (res && decide (e j > 0))
        else scan fuel (j + 1) false ind res
    scan (4 - i) i false 0 true)
def isHnf (m : Mat4) : Bool := isHnfRow 0 m.r0 && isHnfRow 1 m.r1 && isHnfRow 2 m.r2 && isHnfRow 3 m.r3
end Mat4

/-! ## Hermite normal form (`ibz_mat_4x8_hnf_core`, Cohen 2.4.5 as coded) -/

/-- the working array `a[0..7]` of column vectors (a structure around the lookup function, so that compiled code
    evaluates every update strictly instead of building unevaluated partial applications) -/
structure Cols where
  get : Nat → Vec4

instance : CoeFun Cols (fun _ => Nat → Vec4) := ⟨Cols.get⟩

def Cols.set (a : Cols) (j : Nat) (v : Vec4) : Cols := ⟨fun h => if h = j then v else a.get h⟩

/-- one pass of the inner `while (j != 0)` body for column `j` (pivot column `k`, row `i`) -/
def hnfStep (xgcd : Int → Int → Int × Int × Int) (i k j : Nat) (a : Cols) : Cols :=
  if (a j).get i = 0 then a
  else
    let aki := (a k).get i
    let aji := (a j).get i
    let g := xgcd aki aji
    let d := g.1
    let u := if g.2.1 = 0 then (1 : Int) else g.2.1
    let v := if g.2.1 = 0 then 1 - Int.tdiv aki aji else g.2.2
    let c := Vec4.lc u (a k) v (a j)
    let coeff1 := Int.tdiv aki d
    let coeff2 := -(Int.tdiv aji d)
    let aj' := Vec4.lc coeff1 (a j) coeff2 (a k)
    (a.set j aj').set k c

/-- inner loop: `j` runs from `n-1` down to `0` -/
def hnfInner (xgcd : Int → Int → Int × Int × Int) (i k : Nat) : Nat → Cols → Cols
  | 0, a => a
  | j + 1, a => hnfInner xgcd i k j (hnfStep xgcd i k j a)

/-- reduction of the entries right of the pivot: `for (j = k+1; j < 8; j++)`, `n` = number of columns still to do -/
def hnfReduce (i k : Nat) (b : Int) : Nat → Nat → Cols → Cols
  | 0, _, a => a
  | n + 1, j, a =>
    let aji := (a j).get i
    let d0 := Int.tdiv aji b
    let d := if Int.tmod aji b < 0 then d0 - 1 else d0
    hnfReduce i k b n (j + 1) (a.set j (Vec4.lc 1 (a j) (-d) (a k)))

/-- body of the outer loop for row `i` with pivot column `k` (before the `if (i != 0) k = k - 1`) -/
def hnfRow (xgcd : Int → Int → Int × Int × Int) (i : Nat) (st : Cols × Nat) : Cols × Nat :=
  let k := st.2
  let a := hnfInner xgcd i k k st.1
  let b0 := (a k).get i
  let a := if b0 < 0 then a.set k (a k).neg else a
  let b := if b0 < 0 then -b0 else b0
  if b = 0 then (a, k + 1)
  else (hnfReduce i k b (7 - k) (k + 1) a, k)

/-- outer loop over rows `i = n-1, …, 0`; `k` is decremented between rows (not after row 0) -/
def hnfOuter (xgcd : Int → Int → Int × Int × Int) : Nat → Cols × Nat → Cols × Nat
  | 0, st => st
  | 1, st => hnfRow xgcd 0 st
  | i + 2, st =>
    let st' := hnfRow xgcd (i + 1) st
    hnfOuter xgcd (i + 1) (st'.1, st'.2 - 1)

/-- The control structure of `ibz_mat_4x8_hnf_core` that `hnfOuter` / `hnfInner` / `hnfRow` / `hnfReduce` implement, in the
    normalised form in which tools/translate/hnfcore.py extracts it from dim4.c on every run (tie T: the theorem
    `SqiProps.C14.hnf_skeleton_translated` compares the two):
    rows i = 3..0 (`hnfOuter 4`), pivot column k starting at 7; inner loop j = k-1..0 (`hnfInner i k k`, decrement first)
    applying `hnfStep`; then the sign normalisation and the `b = 0 ⇒ k+1 / else reduce columns k+1..7` of `hnfRow`;
    `k` is decremented (and j reset to k) between rows but not after row 0; output = columns 4..7 (`hnfCoreWith`). -/
def hnfCoreSkeleton : List String :=
  ["int i = 3",
   "int j = 7",
   "int k = 7",
   "ibz_set(&zero, 0)",
   "for (int h = 0; h < 8; h++)",
   "  ibz_copy(&(a[h][0]), &((*generators)[0][h]))",
   "  ibz_copy(&(a[h][1]), &((*generators)[1][h]))",
   "  ibz_copy(&(a[h][2]), &((*generators)[2][h]))",
   "  ibz_copy(&(a[h][3]), &((*generators)[3][h]))",
   "while (i != -1)",
   "  while (j != 0)",
   "    j = j - 1",
   "    <inner_step: if (!ibz_is_zero(&(a[j][i]))) ...>",
   "  <normalise>",
   "  if (ibz_is_zero(&b))",
   "    k = k + 1",
   "  else",
   "    for (j = k + 1; j < 8; j++)",
   "      <reduce_step>",
   "  if (i != 0)",
   "    k = k - 1",
   "    j = k",
   "  i = i - 1",
   "for (j = 4; j < 8; j++)",
   "  for (i = 0; i < 4; i++)",
   "    ibz_copy(&((*hnf)[i][j - 4]), &(a[j][i]))"]

/-- control structure of `ibz_mat_4x4_hnf_mod` implemented by `hnfMod`: input = [mat | mod·I] -/
def hnfModSkeleton : List String :=
  ["for (int i = 0; i < 4; i++)",
   "  for (int j = 0; j < 4; j++)",
   "    ibz_copy(&(input[i][j]), &((*mat)[i][j]))",
   "    ibz_set(&(input[i][j + 4]), 0)",
   "  ibz_copy(&(input[i][i + 4]), mod)",
   "ibz_mat_4x8_hnf_core(hnf, &input)"]

def colsOfList (g : List Vec4) : Cols := ⟨fun h => g.getD h Vec4.zero⟩

/-- `ibz_mat_4x8_hnf_core`: the 8 generator columns are given as a list; result = columns 4..7 of the work array -/
def hnfCoreWith (xgcd : Int → Int → Int × Int × Int) (g : List Vec4) : Mat4 :=
  let a := (hnfOuter xgcd 4 (colsOfList g, 7)).1
  Mat4.ofCols (a 4) (a 5) (a 6) (a 7)

def hnfCore (g : List Vec4) : Mat4 := hnfCoreWith xgcdGmp g

def Mat4.cols (m : Mat4) : List Vec4 := [m.col 0, m.col 1, m.col 2, m.col 3]

/-- `ibz_mat_4x4_hnf_mod`: HNF of [mat | mod·I] -/
def hnfMod (m : Mat4) (md : Int) : Mat4 :=
  hnfCore (m.cols ++ (Mat4.scalarMul md Mat4.identity).cols)

/-! ## quaternion algebra elements (algebra.c) -/

structure Elem where
  denom : Int
  coord : Vec4
deriving DecidableEq, Repr, Inhabited

/-- `quat_alg_equal_denom` -/
def equalDenom (a b : Elem) : Elem × Elem :=
  let g := ibzGcd a.denom b.denom
  let da := Int.tdiv a.denom g
  let db := Int.tdiv b.denom g
  let ca := a.coord.map (fun x => x * db)
  let cb := b.coord.map (fun x => x * da)
  let d := da * db * g
  (⟨d, ca⟩, ⟨d, cb⟩)

def algAdd (a b : Elem) : Elem :=
  let (ra, rb) := equalDenom a b
  ⟨ra.denom, ra.coord.add rb.coord⟩

def algSub (a b : Elem) : Elem :=
  let (ra, rb) := equalDenom a b
  ⟨ra.denom, ra.coord.sub rb.coord⟩

/-- coordinate formula of `quat_alg_mul`, operation by operation -/
def mulCoord (p : Int) (a b : Vec4) : Vec4 :=
  ⟨((0 - a.x2 * b.x2) - a.x3 * b.x3) * p + a.x0 * b.x0 - a.x1 * b.x1,
   ((0 + a.x2 * b.x3) - a.x3 * b.x2) * p + a.x0 * b.x1 + a.x1 * b.x0,
   0 + a.x0 * b.x2 + a.x2 * b.x0 - a.x1 * b.x3 + a.x3 * b.x1,
   0 + a.x0 * b.x3 + a.x3 * b.x0 - a.x2 * b.x1 + a.x1 * b.x2⟩

def algMul (p : Int) (a b : Elem) : Elem := ⟨a.denom * b.denom, mulCoord p a.coord b.coord⟩

def algConj (x : Elem) : Elem := ⟨x.denom, ⟨x.coord.x0, -x.coord.x1, -x.coord.x2, -x.coord.x3⟩⟩

/-- `ibq_set` + `mpq_canonicalize`: (num, den) in lowest terms with den > 0; `none` when b = 0 (ibq_set returns 0
    and leaves the rational untouched) -/
def ibqSet (a b : Int) : Option (Int × Int) :=
  if b = 0 then none
  else
    let g := ibzGcd a b
    let s : Int := if b < 0 then -1 else 1
    some (s * Int.tdiv a g, s * Int.tdiv b g)

/-- `quat_alg_norm` -/
def algNorm (p : Int) (a : Elem) : Option (Int × Int) :=
  let n := algMul p a (algConj a)
  ibqSet n.coord.x0 n.denom

/-- `quat_alg_trace` -/
def algTrace (a : Elem) : Option (Int × Int) := ibqSet (a.coord.x0 + a.coord.x0) a.denom

def algScalar (num den : Int) : Elem := ⟨den, ⟨num, 0, 0, 0⟩⟩

/-- `quat_alg_normalize` -/
def algNormalize (x : Elem) : Elem :=
  let g := ibzGcd (x.coord.content) x.denom
  let d := Int.tdiv x.denom g
  let c := x.coord.map (fun t => Int.tdiv t g)
  if d < 0 then ⟨-d, c.neg⟩ else ⟨d, c⟩

def elemIsZero (x : Elem) : Bool := x.coord.isZero

def elemMulByScalar (s : Int) (x : Elem) : Elem := ⟨x.denom, x.coord.map (fun t => t * s)⟩

/-- `quat_alg_rightmul_mat`: column i = coordinates of e_i · a -/
def rightMulMat (p : Int) (a : Elem) : Mat4 :=
  Mat4.ofCols (mulCoord p ⟨1, 0, 0, 0⟩ a.coord) (mulCoord p ⟨0, 1, 0, 0⟩ a.coord)
              (mulCoord p ⟨0, 0, 1, 0⟩ a.coord) (mulCoord p ⟨0, 0, 0, 1⟩ a.coord)

/-- `from_1ijk_to_O0basis` (truncated divisions; the C asserts exactness only in debug builds) -/
def from1ijkToO0 (el : Elem) : Vec4 :=
  let v2 := el.coord.x2 + el.coord.x2
  let v3 := el.coord.x3 + el.coord.x3
  let v0 := el.coord.x0 - el.coord.x3
  let v1 := el.coord.x1 - el.coord.x2
  if el.denom = 1 then ⟨v0, v1, v2, v3⟩
  else ⟨Int.tdiv v0 el.denom, Int.tdiv v1 el.denom, Int.tdiv v2 el.denom, Int.tdiv v3 el.denom⟩

/-! ## lattices (lattice.c) -/

structure Lattice where
  denom : Int
  basis : Mat4
deriving DecidableEq, Repr, Inhabited

/-- `quat_lattice_reduce_denom` -/
def latReduceDenom (l : Lattice) : Lattice :=
  let g := ibzGcd l.basis.gcd l.denom
  ⟨Int.tdiv l.denom g, (l.basis.scalarDiv g).1⟩

/-- `quat_lattice_hnf` -/
def latHnf (l : Lattice) : Lattice :=
  latReduceDenom ⟨l.denom, hnfCore (Mat4.zero.cols ++ l.basis.cols)⟩

/-- `quat_lattice_equal` (HNF assumed by the C code) -/
def latEqual (l1 l2 : Lattice) : Bool :=
  let d1 : Int := l1.denom.natAbs
  let d2 : Int := l2.denom.natAbs
  l1.basis.scalarMul d2 == l2.basis.scalarMul d1

/-- `quat_lattice_dual_without_hnf` -/
def latDualNoHnf (l : Lattice) : Lattice :=
  let t := l.basis.transpose
  let r := t.invWithDet
  -- the C code leaves `inv` (= the transpose) untouched when det = 0
  let inv := if r.2 = 0 then t else r.1
  ⟨r.2, inv.scalarMul l.denom⟩

/-- `quat_lattice_add` -/
def latAdd (l1 l2 : Lattice) : Lattice :=
  let h := hnfCore ((l2.basis.scalarMul l1.denom).cols ++ (l1.basis.scalarMul l2.denom).cols)
  latReduceDenom ⟨l1.denom * l2.denom, h⟩

/-- `quat_lattice_intersect` -/
def latIntersect (l1 l2 : Lattice) : Lattice :=
  latHnf (latDualNoHnf (latAdd (latDualNoHnf l1) (latDualNoHnf l2)))

/-- product column used by `quat_lattice_mul`: coordinates of (col k of l1)·(col i of l2), rescaled to the
    common denominator when `quat_alg_mul`'s denominator differs (it never does) -/
def latMulCol (p : Int) (l1 l2 : Lattice) (k i : Nat) : Vec4 :=
  let e := algMul p ⟨l1.denom, l1.basis.col k⟩ ⟨l2.denom, l2.basis.col i⟩
  let denom := l1.denom * l2.denom
  if denom ≠ e.denom then (elemMulByScalar (Int.tdiv denom e.denom) e).coord else e.coord

/-- `quat_lattice_mul` -/
def latMul (p : Int) (l1 l2 : Lattice) : Lattice :=
  let blk (k0 : Nat) : List Vec4 :=
    [latMulCol p l1 l2 k0 0, latMulCol p l1 l2 k0 1, latMulCol p l1 l2 k0 2, latMulCol p l1 l2 k0 3,
     latMulCol p l1 l2 (k0 + 1) 0, latMulCol p l1 l2 (k0 + 1) 1, latMulCol p l1 l2 (k0 + 1) 2, latMulCol p l1 l2 (k0 + 1) 3]
  let t1 := hnfCore (blk 0)
  let t2 := hnfCore (blk 2)
  latReduceDenom ⟨l1.denom * l2.denom, hnfCore (t1.cols ++ t2.cols)⟩

/-- one step of the back-substitution of `quat_lattice_contains_without_alg` for index `c = 3 - i` -/
def containsStep (l : Lattice) (xd : Int) (c : Nat) (st : Bool × Vec4 × Vec4) : Bool × Vec4 × Vec4 :=
  let (res, workX, coord) := st
  if !res then st
  else
    let prod := xd * l.basis.get c c
    let q := Int.tdiv (workX.get c) prod
    let r := Int.tmod (workX.get c) prod
    let coord' := Vec4.ofFn fun h => if h = c then q else coord.get h
    if r = 0 then
      let column := (l.basis.col c).map (fun t => t * xd)
      (true, Vec4.lc 1 workX (-q) column, coord')
    else (false, workX, coord')

/-- `quat_lattice_contains`: `(flag, coordinates)`; coordinates are only written by the C code when the flag is 1 -/
def latContains (l : Lattice) (x : Elem) : Bool × Vec4 :=
  let workX := x.coord.map (fun t => t * l.denom)
  let st := containsStep l x.denom 0 (containsStep l x.denom 1 (containsStep l x.denom 2
              (containsStep l x.denom 3 (true, workX, Vec4.zero))))
  let res := st.1 && st.2.1.isZero
  (res, if res then st.2.2 else Vec4.zero)

/-- `quat_lattice_index` (absolute value of the truncated quotient) -/
def latIndex (sub over : Lattice) : Int :=
  let d4 (x : Int) := (x * x) * (x * x)
  let num := d4 over.denom * sub.basis.get 0 0 * sub.basis.get 1 1 * sub.basis.get 2 2 * sub.basis.get 3 3
  let den := d4 sub.denom * over.basis.get 0 0 * over.basis.get 1 1 * over.basis.get 2 2 * over.basis.get 3 3
  ((Int.tdiv num den).natAbs : Int)

/-- `quat_alg_make_primitive`: coordinates in the order basis divided by their content -/
def makePrimitive (order : Lattice) (x : Elem) : Vec4 × Int :=
  let c := (latContains order x).2
  let cnt := c.content
  (c.map (fun t => Int.tdiv t cnt), cnt)

def isPrimitive (order : Lattice) (x : Elem) : Bool := (makePrimitive order x).2 == 1

end SqiModel.Quat

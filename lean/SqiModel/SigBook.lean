/-
Per-signature bookkeeping of the dimension-2 variant, executable (core Lean only): what the abstract theorems of
SqiProps/C01.lean predict for the concrete integers of one signature.  tools/props/c01.py evaluates these
definitions (driver op `sigbook.predict`) on every sampled signature and compares them with the values the real
signer dumps (hook H3s, `verif-sig:`) and the real verifier exposes (hook H4 taps, `R vtap`).
-/
import SqiModel.SignBook
namespace SqiModel.SigBook
open SqiModel.SignBook

/-- the integer fields of a signature (matrix = mat_Bchall_can_to_B_chall, columns = images of P, Q) -/
structure Sig where
  bt : Nat
  v : Nat
  m00 : Nat
  m01 : Nat
  m10 : Nat
  m11 : Nat
deriving Repr, DecidableEq

/-- order exponent of the bases / matrices: pow_dim2 + v + 2 = response_length + 2 -/
def orderExp (P : Params) : Nat := P.respLen + 2
def pow (P : Params) (s : Sig) : Nat := P.respLen - s.v
def challLen (P : Params) (s : Sig) : Nat := P.f - s.bt
def inRange (P : Params) (s : Sig) : Bool :=
  decide (s.m00 < 2 ^ orderExp P) && decide (s.m01 < 2 ^ orderExp P) && decide (s.m10 < 2 ^ orderExp P) && decide (s.m11 < 2 ^ orderExp P)
def col0Even (s : Sig) : Bool := s.m00 % 2 == 0 && s.m10 % 2 == 0
def col1Even (s : Sig) : Bool := s.m01 % 2 == 0 && s.m11 % 2 == 0
/-- the verifier's rule: first column even ⇒ Q' (column 1), else P' (column 0) -/
def chooseCol (s : Sig) : Nat := if col0Even s then 1 else 0
/-- P' = B_can·col0 has exact order 2^n iff one of its coordinates is odd; same for Q' -/
def ordPFull (s : Sig) : Bool := !col0Even s
def ordQFull (s : Sig) : Bool := !col1Even s
def chosenHasOdd (s : Sig) : Bool := if col0Even s then !col1Even s else true
/-- determinant modulo 2^n as a natural number -/
def detMod (P : Params) (s : Sig) : Nat :=
  ((s.m00 * s.m11 + (2 ^ orderExp P - (s.m01 * s.m10) % 2 ^ orderExp P)) % 2 ^ orderExp P)
/-- the determinant is 2^v times an odd number (this is what makes the dual chain of length v exist) -/
def detOk (P : Params) (s : Sig) : Bool :=
  decide (detMod P s ≠ 0) && decide (v2 (detMod P s) = s.v)

end SqiModel.SigBook

/-
Signer-side bookkeeping model (C04; reused by C01/C05).  Core Lean only (linked into the driver).

What is modelled (C anchors in brackets):

* `v2`, `tavC`              — exact 2-adic valuation and the C idiom `two_adic_valuation(ibz_get(x))`
                              [src/common/generic/tools.c:two_adic_valuation(int), intbig.c:ibz_get]
* `Params`                  — the per-level constants the code reads (instantiated from SqiGen.L{1,3,5})
* `dim2Book` / `heurBook`   — every integer derived from the sampled response (backtracking, v2 of the
                              response degree) that selects a table row, a loop count or an exponent in
                              `protocols_sign` [sqisigndim2/.../sign.c, sqisigndim2_heuristic/.../sign.c]
* `fixedDegBook`, `clapotisBook` — the same for `fixed_degree_isogeny` and
                              `dim2id2iso_ideal_to_isogeny_clapotis` [dim2id2iso.c]
* `Shape`, `Tape`, `flowDim2`, `flowHeur`, `flowHd`, `flowKeygen` — the retry / early-exit structure of
                              key generation and signing as a state machine whose inputs are the outcomes
                              of the fallible steps (the "random tape" as far as control flow sees it) and
                              whose outputs are `ok`, explicit failure, or a named *bad* event (result of a
                              failed step used / table index out of range).  `Shape` says which call sites
                              check the result they get; it is regenerated from the C text on every run
                              (tools/translate/signflow.py → SqiGen/SignFlow.lean).
-/
namespace SqiModel.SignBook

/-! ## 2-adic valuation -/

/-- exact 2-adic valuation, with `v2 0 = 0` (the convention of the C helper) -/
def v2 (n : Nat) : Nat :=
  if h : n = 0 then 0
  else if n % 2 = 0 then v2 (n / 2) + 1 else 0
termination_by n
decreasing_by omega

/-- the loop of `two_adic_valuation(int n)` for a non-zero 32-bit pattern `n` (as unsigned: the C code
shifts a signed int arithmetically, which visits the same low bits) — fuel = 32 is enough -/
def tavLoop : Nat → Nat → Nat
  | 0, _ => 0
  | fuel + 1, n => if n % 2 = 0 then tavLoop fuel (n / 2) + 1 else 0

/-- `two_adic_valuation((int) ibz_get(x))` for `x ≥ 0`: `ibz_get` = low 63 bits, the implicit conversion
to `int` keeps the low 32 bits; `n == 0` returns 0 -/
def tavC (x : Nat) : Nat :=
  let n := x % 2 ^ 32
  if n = 0 then 0 else tavLoop 32 n

/-! ## level parameters -/

structure Params where
  f : Nat          -- TORSION_PLUS_EVEN_POWER
  respLen : Nat    -- SQIsign2D_response_length
  heurBound : Nat  -- SQIsign2D_response_heuristic_bound
  lenChall : Nat   -- SQIsign2D_heuristic_challenge_length
  btBound : Nat    -- SQIsign2D_backtracking_bound
  rows : Nat       -- number of rows of strategies[][] (and of STRATEGY4[][])
  pbits : Nat      -- ibz_bitsize(p)
  smallExp : Nat   -- SQIsign2D_small_fixed_deg_exp
deriving Repr, DecidableEq

/-- largest 2-adic valuation of the response degree for which the dimension-2 signer's row index
`f - (respLen - v)` is inside the table -/
def Params.vmaxDim2 (P : Params) : Int := (P.rows : Int) - 1 - ((P.f : Int) - P.respLen)
/-- same for the heuristic variant, whose verifier uses row `f - (heurBound - v) + 2` -/
def Params.vmaxHeur (P : Params) : Int := (P.rows : Int) - 1 - ((P.f : Int) - P.heurBound + 2)

/-! ## integers derived from the sampled response -/

/-- a table / loop access: `idx` must satisfy `0 ≤ idx < bound` (for loop counts `bound = none`: only `0 ≤`) -/
structure Access where
  what : String
  idx : Int
  bound : Option Nat
deriving Repr

def Access.ok (a : Access) : Bool :=
  decide (0 ≤ a.idx) && (match a.bound with | none => true | some b => decide (a.idx < (b : Int)))

/-- `protocols_sign` of sqisigndim2: everything computed from `bt = backtracking`, `v = exp_diadic_val_full_resp` -/
structure Dim2Book where
  powDim2 : Int      -- pow_dim2_deg_resp = respLen - v
  row : Int          -- strategies[f - pow_dim2_deg_resp]
  dblBasis : Int     -- ec_dbl_iter(…, f - pow_dim2 - v - 2) on Baux0 / Bcom0
  dblKer : Int       -- ec_dbl_iter(…, v) on the kernel points
  order : Int        -- pow_dim2 + v + 2  (order exponent of bases, hints, matrices)
  divPow : Int       -- 2^(f - v) divides vec_resp_two
  dblRespTwo : Int   -- ec_dbl_iter(B_resp_two, pow_dim2 + 2)
  smallLen : Int     -- ec_eval_small_chain length v
  challLen : Int     -- phi_chall.length = f - bt
  challRow : Int     -- STRATEGY4[f - phi_chall.length]
deriving Repr, DecidableEq

def dim2Book (P : Params) (bt v : Nat) : Dim2Book :=
  let pow : Int := (P.respLen : Int) - v
  { powDim2 := pow, row := (P.f : Int) - pow, dblBasis := (P.f : Int) - pow - v - 2, dblKer := v,
    order := pow + v + 2, divPow := (P.f : Int) - v, dblRespTwo := pow + 2, smallLen := v,
    challLen := (P.f : Int) - bt, challRow := (P.f : Int) - ((P.f : Int) - bt) }

def dim2Accesses (P : Params) (bt v : Nat) : List Access :=
  let b := dim2Book P bt v
  [ ⟨"strategies[f-pow_dim2_deg_resp]", b.row, some P.rows⟩,
    ⟨"theta chain length pow_dim2_deg_resp >= 1", b.powDim2 - 1, none⟩,
    ⟨"ec_dbl_iter(Baux0/Bcom0)", b.dblBasis, none⟩,
    ⟨"ibz_pow(2, f - v)", b.divPow, none⟩,
    ⟨"ec_dbl_iter(B_resp_two)", b.dblRespTwo, none⟩,
    ⟨"phi_chall.length", b.challLen - 1, none⟩,
    ⟨"STRATEGY4[f-phi_chall.length]", b.challRow, some P.rows⟩ ]

def dim2Safe (P : Params) (bt v : Nat) : Bool := (dim2Accesses P bt v).all Access.ok

/-- the range guard of the repaired signer, as coded:
`pow_dim2_deg_resp < 1 || f - pow_dim2_deg_resp >= rows || backtracking >= bound` ⇒ explicit failure -/
def dim2GuardPasses (P : Params) (bt v : Nat) : Bool :=
  decide (1 ≤ (dim2Book P bt v).powDim2) && decide ((dim2Book P bt v).row < (P.rows : Int)) && decide (bt < P.btBound)

/-- `protocols_sign` of sqisigndim2_heuristic (`bt = 0` there: the response is primitive) -/
structure HeurBook where
  powDim2 : Int   -- heurBound - v
  a : Int         -- len_chall + v     (challenge + small response chain)
  n : Int         -- f - a
  verifRow : Int  -- strategies[f - pow_dim2 + 2] used by protocols_verif
deriving Repr, DecidableEq

def heurBook (P : Params) (v : Nat) : HeurBook :=
  let pow : Int := (P.heurBound : Int) - v
  { powDim2 := pow, a := (P.lenChall : Int) + v, n := (P.f : Int) - ((P.lenChall : Int) + v),
    verifRow := (P.f : Int) - pow + 2 }

def heurAccesses (P : Params) (v : Nat) : List Access :=
  let b := heurBook P v
  [ ⟨"verifier strategies[f-pow_dim2_deg_resp+2]", b.verifRow, some P.rows⟩,
    ⟨"pow_dim2_deg_resp >= 1", b.powDim2 - 1, none⟩,
    ⟨"ibz_pow(2, f - (len_chall + v))", b.n, none⟩ ]

def heurSafe (P : Params) (v : Nat) : Bool := (heurAccesses P v).all Access.ok

/-- the range guard of the repaired heuristic signer, as coded:
`pow_dim2_deg_resp < 1 || f - pow_dim2_deg_resp + 2 >= rows` ⇒ explicit failure -/
def heurGuardPasses (P : Params) (v : Nat) : Bool :=
  decide (1 ≤ (heurBook P v).powDim2) && decide ((heurBook P v).verifRow < (P.rows : Int))

/-- `fixed_degree_isogeny(…, u, …, small)`: `length`, strategies row, `ec_dbl_iter` count -/
structure FixedDegBook where
  length : Int
  row : Int
  dbl : Int
deriving Repr, DecidableEq

def fixedDegBook (P : Params) (small : Bool) (ubits : Nat) : FixedDegBook :=
  let len : Int := if small then (P.pbits : Int) + 15 - ubits else (P.f : Int) - 2
  { length := len, row := (P.f : Int) - len, dbl := (P.f : Int) - len - 2 }

def fixedDegAccesses (P : Params) (small : Bool) (ubits : Nat) : List Access :=
  let b := fixedDegBook P small ubits
  [ ⟨"strategies[f-length]", b.row, some P.rows⟩, ⟨"ec_dbl_iter(B0_two, f-length-2)", b.dbl, none⟩,
    ⟨"2^length > u", b.length - ubits, none⟩ ]

def fixedDegSafe (P : Params) (small : Bool) (ubits : Nat) : Bool := (fixedDegAccesses P small ubits).all Access.ok

/-- the range guard of the repaired `fixed_degree_isogeny`, as coded:
`length + 2 > f || f - length >= rows || bitsize(u) > length` ⇒ return 0 -/
def fixedDegGuardPasses (P : Params) (small : Bool) (ubits : Nat) : Bool :=
  !(decide ((fixedDegBook P small ubits).length + 2 > (P.f : Int)) ||
    decide ((P.f : Int) - (fixedDegBook P small ubits).length ≥ (P.rows : Int)) ||
    decide ((ubits : Int) > (fixedDegBook P small ubits).length))

/-- `dim2id2iso_ideal_to_isogeny_clapotis`: `exp = f - exp_gcd`, row `f - exp + 2` -/
def clapotisRow (P : Params) (expGcd : Nat) : Int := (P.f : Int) - ((P.f : Int) - expGcd) + 2
def clapotisSafe (P : Params) (expGcd : Nat) : Bool :=
  decide (0 ≤ clapotisRow P expGcd) && decide (clapotisRow P expGcd < P.rows) && decide (expGcd + 1 ≤ P.f)

/-! ## control flow: retries, early exits, failure codes -/

/-- which call sites check the result they receive (regenerated from the C text) -/
structure Shape where
  clapotisFu : Bool     -- dim2id2iso.c: fixed_degree_isogeny(&Fu,…) result used
  clapotisFv : Bool     -- dim2id2iso.c: fixed_degree_isogeny(&Fv,…) result used
  sampleIdeal : Bool    -- id2iso.c sampling_random_ideal_O0: represent_integer result used, and reported
  dim2Commit : Bool     -- sqisigndim2 sign.c: commit's dim2id2iso_arbitrary_isogeny_evaluation result reaches protocols_sign
  dim2Aux : Bool        -- sqisigndim2 sign.c: evaluation of the auxiliary ideal
  dim2AuxIdeal : Bool   -- sqisigndim2 sign.c: sampling_random_ideal_O0 result used
  dim2Guard : Bool      -- sqisigndim2 sign.c: range guard before strategies[…]
  dim2Keygen : Bool     -- sqisigndim2 keygen.c
  heurCommit : Bool
  heurAux : Bool
  heurAuxIdeal : Bool
  heurGuard : Bool
  heurKeygen : Bool
  hdCommit : Bool
  hdKeygen : Bool
  exactValuation : Bool -- the valuations are computed on the big integer (not through `(int) ibz_get`)
  fixedDegGuard : Bool  -- dim2id2iso.c fixed_degree_isogeny: range guard on `length` before any table access
deriving Repr, DecidableEq

def Shape.allChecked : Shape :=
  ⟨true, true, true, true, true, true, true, true, true, true, true, true, true, true, true, true, true⟩

inductive Outcome where
  | ok                    -- returns 1 / keys produced, every value used was computed
  | fail                  -- explicit failure code (return 0)
  | bad (site : String)   -- a failed step's unset output is used, or a table index is out of range
deriving Repr, DecidableEq

/-- one call `fixed_degree_isogeny(…, u, …, small)` with `bitsize(u) = ubits`; `riFail`: represent_integer_non_diag fails -/
def flowFixedDeg (P : Params) (S : Shape) (small : Bool) (ubits : Nat) (riFail : Bool) : Outcome :=
  if S.fixedDegGuard && !(fixedDegGuardPasses P small ubits) then .fail else
  if !(fixedDegSafe P small ubits) then .bad "fixed_degree_isogeny: length without strategy row / negative doubling count / u >= 2^length" else
  if riFail then .fail else .ok

/-- outcome of one ideal → isogeny translation (`dim2id2iso_arbitrary_isogeny_evaluation`) -/
structure ClapTape where
  uvFails : Nat    -- number of consecutive failing find_uv calls (the code tries 3 times)
  fuFail : Bool    -- fixed_degree_isogeny for u fails
  fvFail : Bool
deriving Repr, DecidableEq

/-- result of the translation: `some true` = found, `some false` = reported failure, `none` = bad -/
def clapotis (S : Shape) (t : ClapTape) : Except String Bool :=
  if 3 ≤ t.uvFails then .ok false
  else if t.fuFail then (if S.clapotisFu then .ok false else .error "clapotis: Fu used after fixed_degree_isogeny failed")
  else if t.fvFail then (if S.clapotisFv then .ok false else .error "clapotis: Fv used after fixed_degree_isogeny failed")
  else .ok true

/-- the valuation the code computes for a true valuation `v` of a non-zero integer: exact, or the
truncated one (0 when 2^32 divides the integer) -/
def codeVal (S : Shape) (v : Nat) : Nat := if S.exactValuation then v else (if 32 ≤ v then 0 else v)

structure Dim2Tape where
  com : ClapTape
  bt : Nat           -- true backtracking of the sampled response
  v : Nat            -- true 2-adic valuation of the response degree
  riFail : Bool      -- represent_integer fails while sampling the auxiliary ideal
  aux : ClapTape
deriving Repr, DecidableEq

def flowDim2 (P : Params) (S : Shape) (t : Dim2Tape) : Outcome :=
  match clapotis S t.com with
  | .error s => .bad s
  | .ok false => if S.dim2Commit then .fail else .bad "dim2 sign: E_com/Bcom0 used after commit failed"
  | .ok true =>
    let bt := codeVal S t.bt
    let v := codeVal S t.v
    if bt ≠ t.bt ∨ v ≠ t.v then .bad "dim2 sign: two_adic_valuation truncated" else
    if S.dim2Guard && !(dim2GuardPasses P bt v) then .fail else
    if !(dim2Safe P bt v) then .bad "dim2 sign: table index out of range" else
    if t.riFail then (if S.sampleIdeal && S.dim2AuxIdeal then .fail else .bad "dim2 sign: lideal_aux used after represent_integer failed") else
    match clapotis S t.aux with
    | .error s => .bad s
    | .ok false => if S.dim2Aux then .fail else .bad "dim2 sign: E_aux/Baux0 used after evaluation failed"
    | .ok true => .ok

structure HeurTape where
  comFail : Bool     -- fixed_degree_isogeny of the commitment fails
  respFound : Bool   -- sample_response finds a candidate
  v : Nat
  riFail : Bool
  aux : ClapTape
deriving Repr, DecidableEq

def flowHeur (P : Params) (S : Shape) (t : HeurTape) : Outcome :=
  if t.comFail then (if S.heurCommit then .fail else .bad "heur sign: E_com used after fixed_degree_isogeny failed") else
  if !t.respFound then .fail else
  let v := codeVal S t.v
  if v ≠ t.v then .bad "heur sign: two_adic_valuation truncated" else
  if S.heurGuard && !(heurGuardPasses P v) then .fail else
  if !(heurSafe P v) then .bad "heur sign: lengths outside the verifier's table" else
  if t.riFail then (if S.sampleIdeal && S.heurAuxIdeal then .fail else .bad "heur sign: lideal_aux used after represent_integer failed") else
  match clapotis S t.aux with
  | .error s => .bad s
  | .ok false => if S.heurAux then .fail else .bad "heur sign: E_aux/Baux0 used after evaluation failed"
  | .ok true => .ok

structure HdTape where
  comFail : Bool
  respFound : Bool
deriving Repr, DecidableEq

def flowHd (S : Shape) (t : HdTape) : Outcome :=
  if t.comFail then (if S.hdCommit then .fail else .bad "hd sign: F used after fixed_degree_isogeny failed") else
  if !t.respFound then .fail else .ok

/-- key generation: a list of translation attempts (the repaired code draws a new ideal after a failure;
the pinned code has a single attempt and no way to report failure).  `none` = does not terminate on
this (finite) tape, which only happens when every listed attempt fails under the retrying shape. -/
def flowKeygen (S : Shape) (checked : Bool) : List ClapTape → Option Outcome
  | [] => none
  | t :: ts =>
    match clapotis S t with
    | .error s => some (.bad s)
    | .ok true => some .ok
    | .ok false => if checked then flowKeygen S checked ts else some (.bad "keygen: curve/basis used after evaluation failed")

/-! ## bounded work: number of leaf-routine calls on every path (shape "all checked")

Loop budgets of the control skeleton, as they appear in the C text (regenerated as `SqiGen.SignFlow.*`, tied in
SqiProps/C04Code.lean): find_uv is tried `uv` times per translation, represent_integer_non_diag `nd` times per
fixed_degree_isogeny, the candidate loop of sample_response runs at most `samp` times.  A tape value larger than the
budget means "would have failed more often": the code stops at the budget. -/

structure Budget where
  uv : Nat
  nd : Nat
  samp : Nat
deriving Repr, DecidableEq

/-- leaf calls of one ideal → isogeny translation: find_uv calls, then (if one succeeded) fixed_degree_isogeny for u
and (if that succeeded) for v; each fixed_degree_isogeny makes at most `nd` represent_integer_non_diag calls -/
def clapCalls (B : Budget) (t : ClapTape) : Nat :=
  min (t.uvFails + 1) B.uv +
    (if B.uv ≤ t.uvFails then 0 else (1 + B.nd) + (if t.fuFail then 0 else (1 + B.nd)))

/-- dim-2 `protocols_sign`: commit translation, candidate loop (`tries` draws needed, capped by the budget), one
represent_integer for the auxiliary ideal, auxiliary translation, one final (2,2)-chain + small chain + hint searches
counted as 1 -/
def callsDim2 (B : Budget) (t : Dim2Tape) (tries : Nat) : Nat :=
  clapCalls B t.com + min tries B.samp + 1 + clapCalls B t.aux + 1

def callsHeur (B : Budget) (t : HeurTape) (tries : Nat) : Nat :=
  (1 + B.nd) + min tries B.samp + 1 + clapCalls B t.aux + 1

def callsHd (B : Budget) (tries : Nat) : Nat := (1 + B.nd) + min tries B.samp + 1

/-- key generation with the retry loop: translations attempted until the first success (unbounded loop in the C code:
the count is bounded only by the position of the first successful attempt on the tape) -/
def keygenAttempts : List ClapTape → Nat
  | [] => 0
  | t :: ts => if decide (t.uvFails < 3) && !t.fuFail && !t.fvFail then 1 else 1 + keygenAttempts ts

end SqiModel.SignBook

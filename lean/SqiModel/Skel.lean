/-
Generic run-time for the *integer skeletons* emitted by tools/translate/chainskel.py (`SqiGen.ChainSkel`): the
translator keeps every statement of a C routine over its integer state (counters, int arrays, table reads, loop
headers, branch conditions) and replaces every field / point / theta statement by an opaque event carrying the
array indices it touches.  This file is the small verified interpreter those programs are written against:
  * `whileF` — `while (cond) body` with fuel (running out of fuel is a fault, never a silent stop);
  * `IArr`  — an int VLA with its declared size (reads/writes outside, or of an unwritten slot, are faults);
  * `rdTab`/`rdRow` — reads of a 2-dimensional table / of a row reached through a pointer;
  * `Obs σ` — the observer: the semantics given to the opaque events (e.g. order tracking of the points).
Core Lean only.
-/
namespace SqiModel.Skel

/-- 2^64: arithmetic of `digit_t` / `uint64_t` expressions is done modulo W64 -/
def W64 : Int := 18446744073709551616

inductive Fault
  | index (arr : String) (i size : Int)      -- int array accessed outside its declared size
  | uninit (arr : String) (i : Int)          -- int array slot read before written
  | tableRow (i : Int) (rows : Nat)          -- table row outside the table
  | tableCol (i : Int) (cols : Nat)          -- column outside the row
  | vla (arr : String) (size : Int)          -- VLA declared with a non-positive size
  | fuel                                     -- a loop did not terminate within the fuel
  deriving DecidableEq, Repr

/-- the observer gives meaning to the opaque statements: `ev st kind args` = an opaque statement of the given kind
    (the translator classifies callees into a small vocabulary, see `EvKind` below and tools/translate/chainskel.py)
    touching the tracked (non-integer) arrays at the integer arguments `args`; `ok` = no fault recorded -/
structure Obs (σ : Type) where
  ev : σ → Nat → List Int → σ
  ok : σ → Bool

/-! event kinds (numeric so that the kernel can evaluate runs cheaply) -/
namespace EvKind
def vla : Nat := 1        -- [size]            a tracked VLA is declared
def copy : Nat := 2       -- [dst, src]        A[dst] = A[src]
def copyIn : Nat := 3     -- [dst]             A[dst] = (a point from outside)
def dbl : Nat := 4        -- [dst, src]        A[dst] = [2] A[src]
def read : Nat := 5       -- [src]             A[src] is read into opaque data
def isog4 : Nat := 6      -- [ker]             4-isogeny with kernel A[ker]
def eval4 : Nat := 7      -- [n]               the first n points of A are pushed through the current 4-isogeny
def isog2 : Nat := 8      -- [ker]             2-isogeny with kernel A[ker]
def dblIter : Nat := 9    -- [dst, src, k]     A[dst] = [2^k] A[src]   (theta: double_iter / double_couple_jac_point_iter)
def glue : Nat := 10      -- [ker]             gluing step with kernel points[ker]
def glueEval : Nat := 11  -- [dst, src]        Q[dst] = gluing(points[src])
def step : Nat := 12      -- [i, ker, b1, b2]  generic theta step steps[i] with kernel Q[ker]
def evalStep : Nat := 13  -- [i, pt]           Q[pt] pushed through steps[i]
def step4 : Nat := 14     -- [i]               theta_isogeny_comput4 (kernel R of exponent 2)
def step2 : Nat := 15     -- [i]               theta_isogeny_comput2
def evalR : Nat := 16     -- [i]               R pushed through steps[i]
def loadR : Nat := 17     -- [src]             R = Q[src]
def split : Nat := 18     -- [i]               splitting_comput on steps[i].codomain
def dblIterP : Nat := 19  -- [dst, k, src]     points[dst] = [2^k] points[src]  (double_couple_jac_point_iter)
def eval2 : Nat := 20     -- [dst, src, n]     n points starting at A[src] pushed through the current 2-isogeny into A[dst]
def stepR : Nat := 21     -- [5, i, a1, k1, a2, k2, b1, b2]  generic theta step steps[i] with kernel pair (A1[k1], A2[k2])
def copyA : Nat := 22     -- [da, di, sa, si]  A_da[di] = A_sa[si]  (struct copy between two tracked arrays)
end EvKind

structure IArr where
  size : Int
  get : Int → Option Int

def IArr.new (size : Int) : IArr := ⟨size, fun _ => none⟩
def IArr.inb (a : IArr) (i : Int) : Bool := decide (0 ≤ i) && decide (i < a.size)
def IArr.set (a : IArr) (i v : Int) : IArr := { a with get := fun k => if k = i then some v else a.get k }

def rdArr (name : String) (a : IArr) (i : Int) : Except Fault Int :=
  if a.inb i then (match a.get i with | some v => .ok v | none => .error (.uninit name i))
  else .error (.index name i a.size)

/-- `T[r][c]` -/
def rdTab (T : List (List Nat)) (r c : Int) : Except Fault Int :=
  if 0 ≤ r ∧ r < T.length then
    let row := T.getD r.toNat []
    if 0 ≤ c ∧ c < row.length then .ok (row.getD c.toNat 0 : Nat) else .error (.tableCol c row.length)
  else .error (.tableRow r T.length)

/-- `p[c]` for a pointer to (the start of) a row -/
def rdRow (row : List Nat) (c : Int) : Except Fault Int :=
  if 0 ≤ c ∧ c < row.length then .ok (row.getD c.toNat 0 : Nat) else .error (.tableCol c row.length)

/-- `while (cond) body` with fuel -/
def whileF {S : Type} (live : S → Bool) (cond : S → Bool) (body : S → S) (outOfFuel : S → S) : Nat → S → S
  | 0, s => if live s && cond s then outOfFuel s else s
  | f + 1, s => if live s && cond s then whileF live cond body outOfFuel f (body s) else s

theorem whileF_stop {S : Type} (live cond : S → Bool) (body oof : S → S) (f : Nat) (s : S)
    (h : (live s && cond s) = false) : whileF live cond body oof f s = s := by
  cases f <;> simp [whileF, h]

theorem whileF_step {S : Type} (live cond : S → Bool) (body oof : S → S) (f : Nat) (s : S)
    (h : (live s && cond s) = true) : whileF live cond body oof (f + 1) s = whileF live cond body oof f (body s) := by
  simp [whileF, h]

/-- C truth value of an int -/
def truthy (v : Int) : Bool := decide (v ≠ 0)
def b2i (b : Bool) : Int := if b then 1 else 0

end SqiModel.Skel

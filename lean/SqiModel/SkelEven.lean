/-
Order-tracking observer for the integer skeleton of `ec_eval_even_strategy` (`SqiGen.ChainSkel.ec_eval_even_strategy`,
re-extracted from the C text on every run) and the comparison of a skeleton run with the hand model
`SqiModel.EvenChain`: same fault status, same final integer state, same sequence of array accesses / doublings /
isogeny steps, same kernel orders.  Core Lean only; everything is structurally recursive so that the kernel can
evaluate it (`decide +kernel` per table row in SqiProps.C09).
-/
import SqiModel.Skel
import SqiModel.EvenChain
import SqiGen.ChainSkel

namespace SqiModel.SkelEven
open SqiModel.Skel SqiModel.EvenChain

/-- observer state: the tracked array SPLITTING_POINTS as order exponents -/
structure OSt where
  size : Int
  sp : Int → Option Nat
  kexp : Nat                         -- exponent of the kernel generator copied into slot 0
  bad : Bool
  log : List (Nat × Int × Int)       -- (kind, a, b) of every opaque statement, in program order
  kers : List (Nat × Nat)            -- (kind, exponent of the kernel point) of every isogeny step

def OSt.init (kexp : Nat) : OSt := { size := 0, sp := fun _ => none, kexp := kexp, bad := false, log := [], kers := [] }
def OSt.inb (o : OSt) (i : Int) : Bool := decide (0 ≤ i) && decide (i < o.size)
def OSt.fail (o : OSt) : OSt := { o with bad := true }
def OSt.put (o : OSt) (i : Int) (v : Nat) : OSt := { o with sp := fun k => if k = i then some v else o.sp k }

def ev (o : OSt) (kind : Nat) (args : List Int) : OSt :=
  if o.bad then o else
  match kind, args with
  | 1, [n] => if 0 < n then { o with size := n, log := o.log ++ [(1, n, 0)] } else o.fail
  | 3, [d] => if o.inb d then { o.put d o.kexp with log := o.log ++ [(3, d, 0)] } else o.fail
  | 2, [d, s] =>
    if o.inb d && o.inb s then
      match o.sp s with
      | some v => { o.put d v with log := o.log ++ [(2, d, s)] }
      | none => o.fail
    else o.fail
  | 4, [d, s] =>
    if o.inb d && o.inb s then
      match o.sp s with
      | some v => { o.put d (v - 1) with log := o.log ++ [(4, d, s)] }
      | none => o.fail
    else o.fail
  | 5, [a] => if o.inb a then (match o.sp a with | some _ => { o with log := o.log ++ [(5, a, 0)] } | none => o.fail) else o.fail
  | 6, [a] =>
    if o.inb a then (match o.sp a with
      | some v => { o with log := o.log ++ [(6, a, 0)], kers := o.kers ++ [(6, v)] }
      | none => o.fail) else o.fail
  | 7, [n] =>
    if 0 ≤ n ∧ n ≤ o.size then
      { o with sp := fun k => if 0 ≤ k ∧ k < n then (o.sp k).map (· - 2) else o.sp k, log := o.log ++ [(7, n, 0)] }
    else o.fail
  | 8, [a] =>
    if o.inb a then (match o.sp a with
      | some v => { o with log := o.log ++ [(8, a, 0)], kers := o.kers ++ [(8, v)] }
      | none => o.fail) else o.fail
  | _, _ => o.fail

def obs : Obs OSt := { ev := ev, ok := fun o => !o.bad }

/-- what is compared: (no fault, strategy, BLOCK, current, log of opaque statements, kernel orders) -/
abbrev Summary := Bool × Int × Int × Int × List (Nat × Int × Int) × List (Nat × Nat)

/-- run of the generated skeleton on a kernel generator of exact order 2^len (oracle: the first step is not singular;
    no extra points) -/
def skelSummary (table : List (List Nat)) (tpep len fuel : Nat) : Summary :=
  let s := SqiGen.ChainSkel.ec_eval_even_strategy obs table tpep (fun _ => false) fuel len 0
    (SqiGen.ChainSkel.EvenSt.init (OSt.init len))
  let ok := s.fault.isNone && !s.obs.bad
  if ok then (true, s.strategy, s.BLOCK, s.current, s.obs.log, s.obs.kers) else (false, 0, 0, 0, [], [])

/-! ### the hand model, with fuel instead of well-founded recursion (kernel-evaluable twin) -/

def whileLoopF (P : Params) (j : Nat) : Nat → St → St
  | 0, s =>
    if s.err.isSome then s
    else if s.block = (P.eHalf : Int) - 1 - (j : Int) then s
    else s.fail (if P.rowOK then .stratIndex s.strategy P.row.length else .rowIndex P.rowIdx P.nrows)
  | f + 1, s =>
    if s.err.isSome then s
    else if s.block = (P.eHalf : Int) - 1 - (j : Int) then s
    else if h : s.strategy < P.row.length then
      whileLoopF P j f { pushBody P s P.row[s.strategy] with strategy := s.strategy + 1 }
    else s.fail (if P.rowOK then .stratIndex s.strategy P.row.length else .rowIndex P.rowIdx P.nrows)

def forLoopF (P : Params) (fuel : Nat) : Nat → Nat → St → St
  | 0, _, s => s
  | cnt + 1, j, s => forLoopF P fuel cnt (j + 1) (isoStep P j (whileLoopF P j fuel s))

def evalPF (P : Params) (fuel : Nat) : St :=
  if P.vla = 0 then (initSt P).fail .vlaZero
  else finalSteps P (forLoopF P fuel (P.eHalf - 1) 0 (initSt P))

theorem whileLoopF_eq (P : Params) (j : Nat) : ∀ (f : Nat) (s : St), P.row.length + 1 ≤ f + s.strategy →
    whileLoopF P j f s = whileLoop P j s := by
  intro f
  induction f with
  | zero =>
    intro s h
    rw [whileLoop]
    simp only [whileLoopF]
    have : ¬ s.strategy < P.row.length := by omega
    -- out of fuel can only happen when the strategy index is already past the row: both sides stop …
    by_cases he : s.err.isSome
    · simp [he]
    · by_cases hb : s.block = (P.eHalf : Int) - 1 - (j : Int)
      · simp [he, hb]
      · simp [he, hb, this]
  | succ f ih =>
    intro s h
    rw [whileLoop]
    simp only [whileLoopF]
    by_cases he : s.err.isSome
    · simp [he]
    · by_cases hb : s.block = (P.eHalf : Int) - 1 - (j : Int)
      · simp [he, hb]
      · by_cases hs : s.strategy < P.row.length
        · simp only [he, hb, hs, if_false, dite_true, Bool.false_eq_true]
          exact ih _ (by simp only []; omega)
        · simp [he, hb, hs]


theorem forLoopF_eq (P : Params) (fuel : Nat) (hf : P.row.length + 1 ≤ fuel) : ∀ (cnt j : Nat) (s : St),
    forLoopF P fuel cnt j s = forLoop P cnt j s := by
  intro cnt
  induction cnt with
  | zero => intro j s; rfl
  | succ cnt ih =>
    intro j s
    simp only [forLoopF, forLoop]
    rw [whileLoopF_eq P j fuel s (by omega), ih]

/-- the fuel twin is the hand model -/
theorem evalPF_eq (P : Params) (fuel : Nat) (hf : P.row.length + 1 ≤ fuel) : evalPF P fuel = evalP P := by
  unfold evalPF evalP
  rw [forLoopF_eq P fuel hf]

/-- the opaque statements the C executes for an event of the hand-model trace (non-singular first step, no points) -/
def expand (isOdd : Nat) : Ev → List (Nat × Int × Int)
  | .vla size _ _ => [(1, size, 0), (3, 0, 0)]
  | .row _ _ => []
  | .push _ cur _ => [(2, cur, cur - 1)]
  | .dbls cur cnt extra _ => List.replicate (extra + cnt) (4, cur, cur)
  | .iso4 j cur _ _ => (if j = 0 then [(5, cur, 0)] else []) ++ [(6, cur, 0), (7, cur, 0)]
  | .pop _ _ => []
  | .fin4 cur odd _ => (if odd = 1 then [(2, 1, 0), (4, 1, 1)] else []) ++ [(6, cur, 0)]
  | .fin2 _ => [(7, 1, 0), (8, 0, 0)]
  | .error _ => []

def kerOf : Ev → List (Nat × Nat)
  | .iso4 _ _ _ k => [(6, k)]
  | .fin4 _ _ k => [(6, k)]
  | .fin2 k => [(8, k)]
  | _ => []

def modelSummaryOf (isOdd : Nat) (s : St) : Summary :=
  if s.err.isSome then (false, 0, 0, 0, [], [])
  else (true, s.strategy, s.block, s.current, s.trace.flatMap (expand isOdd), s.trace.flatMap kerOf)

def modelSummary (table : List (List Nat)) (tpep len fuel : Nat) : Summary :=
  modelSummaryOf (len % 2) (evalPF (mkParams table tpep len) fuel)

/-- small synthetic cases (table with the single row `row`, chain length `len`): cheap enough for the kernel -/
def smallAgree (row : List Nat) (len fuel : Nat) : Bool :=
  skelSummary [row] len len fuel == modelSummary [row] len len fuel

/-- valid strategies of every shape for 2 … 8 four-isogeny steps, even and odd lengths, and two invalid rows
    (fault on both sides) -/
def smallCases : List (List Nat × Nat) :=
  [([], 2), ([], 3), ([1], 4), ([1], 5), ([1, 1], 6), ([2, 1], 7), ([2, 1, 1], 8), ([1, 1, 1], 9), ([1, 2, 1], 9),
   ([2, 1, 1, 1], 10), ([3, 1, 1, 1], 11), ([2, 1, 1, 2, 1], 12), ([3, 2, 1, 1, 1], 13), ([1, 2, 1, 1, 1], 13),
   ([4, 2, 1, 1, 1, 1], 14), ([3, 2, 1, 1, 1, 1], 15), ([3, 2, 1, 1, 2, 1, 1], 16), ([4, 2, 1, 1, 1, 2, 1], 17),
   ([5, 3, 2, 1, 1, 1, 1, 1, 1], 20), ([6, 3, 2, 1, 1, 1, 1, 2, 1, 1, 1], 25),
   ([2, 2, 1], 8), ([0, 0, 0], 8), ([3, 1], 9)]

def smallAllAgree : Bool := smallCases.all fun (row, len) => smallAgree row len 64

/-- every row `i` of the table: the skeleton run and the hand-model run on a chain of length `f - i` agree -/
def rowsAgree (f fuel : Nat) (table : List (List Nat)) : Bool :=
  (List.range table.length).all fun i => skelSummary table f (f - i) fuel == modelSummary table f (f - i) fuel

end SqiModel.SkelEven

/-
Order-tracking observer for the integer skeleton of the balanced recursion `theta_chain_comput_rec`
(`SqiGen.ChainSkel.theta_chain_comput_rec`, re-extracted from the C text on every run) and the comparison of a skeleton run
with the hand model `SqiModel.ThetaChain.rec` / `balanced`.  Core Lean only, structurally recursive (kernel-evaluable).

Arrays: 6, 7 = what `R1`, `R2` point to (one element in `theta_chain_comput_balanced`: `&R1`, `&R2`), 8, 9 = the stacks
`P1`, `P2` (size `cap`), 5 = `out->steps` (size `total`).
-/
import SqiModel.Skel
import SqiModel.ThetaChain
import SqiGen.ChainSkel

namespace SqiModel.SkelRec
open SqiModel.Skel SqiModel.ThetaChain

structure OSt where
  r1 : Int → Option Nat
  r2 : Int → Option Nat
  p1 : Int → Option Nat
  p2 : Int → Option Nat
  rsize : Int
  cap : Int
  total : Int
  bad : Bool
  steps : List (Int × Nat × Nat)       -- (index, exponent of the kernel pair, mode 0:(0,1) 1:(0,0) 2:(1,0)) of every step

def OSt.fail (o : OSt) : OSt := { o with bad := true }
def OSt.get (o : OSt) (a i : Int) : Option Nat :=
  if a = 6 then o.r1 i else if a = 7 then o.r2 i else if a = 8 then o.p1 i else if a = 9 then o.p2 i else none
def OSt.size (o : OSt) (a : Int) : Int :=
  if a = 6 ∨ a = 7 then o.rsize else if a = 8 ∨ a = 9 then o.cap else if a = 5 then o.total else 0
def OSt.inb (o : OSt) (a i : Int) : Bool := decide (0 ≤ i) && decide (i < o.size a)
def OSt.put (o : OSt) (a i : Int) (v : Nat) : OSt :=
  if a = 6 then { o with r1 := fun k => if k = i then some v else o.r1 k }
  else if a = 7 then { o with r2 := fun k => if k = i then some v else o.r2 k }
  else if a = 8 then { o with p1 := fun k => if k = i then some v else o.p1 k }
  else if a = 9 then { o with p2 := fun k => if k = i then some v else o.p2 k }
  else o.fail

def ev (o : OSt) (kind : Nat) (args : List Int) : OSt :=
  if o.bad then o else
  match kind, args with
  | 21, [5, i, 6, k1, 7, k2, b1, b2] =>
    if o.inb 5 i && o.inb 6 k1 && o.inb 7 k2 then
      match o.r1 k1, o.r2 k2 with
      | some v, some w =>
        if v = w then { o with steps := o.steps ++ [(i, v, if b1 = 0 ∧ b2 = 0 then 1 else if b1 = 1 then 2 else 0)] } else o.fail
      | _, _ => o.fail
    else o.fail
  | 17, [5, i] => if o.inb 5 i then o else o.fail
  | 13, [a, d, 5, i, a', d'] =>
    if a = a' ∧ d = d' ∧ (a = 8 ∨ a = 9) ∧ o.inb a d && o.inb 5 i then
      match o.get a d with
      | some v => o.put a d (v - 1)
      | none => o.fail
    else o.fail
  | 22, [da, di, sa, si] =>
    if ((da = 8 ∧ sa = 6) ∨ (da = 9 ∧ sa = 7) ∨ (da = 6 ∧ sa = 8) ∨ (da = 7 ∧ sa = 9)) ∧ o.inb da di && o.inb sa si then
      match o.get sa si with
      | some v => o.put da di v
      | none => o.fail
    else o.fail
  | 9, [a, d, a', s, k] =>
    if a = a' ∧ (a = 6 ∨ a = 7) ∧ 0 ≤ k ∧ o.inb a d && o.inb a s then
      match o.get a s with
      | some v => o.put a d (v - k.toNat)
      | none => o.fail
    else o.fail
  | _, _ => o.fail

def obs : Obs OSt := { ev := ev, ok := fun o => !o.bad }

/-- observer state at the entry of a call: kernel pair of exponent `r`, stack contents `stack` (bottom first) -/
def OSt.entry (cap total r : Nat) (stack : List Nat) : OSt :=
  { r1 := fun k => if k = 0 then some r else none, r2 := fun k => if k = 0 then some r else none,
    p1 := fun k => if 0 ≤ k then stack[k.toNat]? else none, p2 := fun k => if 0 ≤ k then stack[k.toNat]? else none,
    rsize := 1, cap := cap, total := total, bad := false, steps := [] }

/-- (no fault, steps (index, kernel exponent, mode), first `stacklen` entries of P1, P1 = P2 there) -/
abbrev Summary := Bool × List (Int × Nat × Nat) × List (Option Nat)

def skelSummary (cap total rf fuel len index r : Nat) (stack : List Nat) : Summary :=
  let s := SqiGen.ChainSkel.theta_chain_comput_rec obs [] (fun _ => false) fuel rf len index 0 stack.length total 0 0 0 0
    (SqiGen.ChainSkel.RecSt.init (OSt.entry cap total r stack))
  let ok := s.fault.isNone && !s.obs.bad
  let st := (List.range stack.length).map (fun (i : Nat) => s.obs.p1 (i : Int))
  let same := (List.range stack.length).all (fun (i : Nat) => s.obs.p1 (i : Int) == s.obs.p2 (i : Int))
  if ok && same then (true, s.obs.steps, st) else (false, [], [])

def mStep : BEv → List (Int × Nat × Nat)
  | .step i _ _ k mode => [((i : Int), k, mode)]
  | _ => []

def modelSummary (cap total fuel len index r : Nat) (stack : List Nat) : Summary :=
  let (evs, st) := rec cap total fuel len index r stack
  if evs.any (fun e => match e with | .oob .. => true | _ => false) then (false, [], [])
  else (true, evs.flatMap mStep, st.map some)

/-- the middle part of `theta_chain_comput_balanced` for chain length `n` -/
def balAgree (n : Nat) : Bool :=
  skelSummary (balancedCap n) n (n + 1) (n + 1) (n - 3) 0 (n + 1 - 2) [n + 1] ==
    modelSummary (balancedCap n) n (n + 1) (n - 3) 0 (n + 1 - 2) [n + 1]

/-- also with a stack that is too small (fault on both sides) and from a non-trivial entry -/
def smallAllAgree : Bool :=
  (List.range 14).all (fun k => balAgree (k + 4)) &&
  (List.range 5).all (fun k =>
    skelSummary 2 (k + 8) (k + 9) (k + 9) (k + 5) 0 (k + 7) [k + 9] == modelSummary 2 (k + 8) (k + 9) (k + 5) 0 (k + 7) [k + 9]) &&
  (List.range 5).all (fun k =>
    skelSummary 9 (k + 20) 40 40 (k + 3) 5 (k + 5) [30, 20, 11] == modelSummary 9 (k + 20) 40 (k + 3) 5 (k + 5) [30, 20, 11])

end SqiModel.SkelRec

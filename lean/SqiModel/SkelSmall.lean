/-
Order-tracking observer for the integer skeleton of the naive chain `ec_eval_small_chain`
(`SqiGen.ChainSkel.ec_eval_small_chain`, re-extracted from the C text on every run) and the translated version of the
public entry point `ec_eval_even`: the dispatch condition re-read from the C (`SqiGen.EvenGuard.naive`) selecting between
the two translated routines.  Core Lean only.

The scalar points `big_K`, `small_K` of the C are the slots 0, 1.  What is logged:
  `reads`  exponent of `small_K` each time the branch condition `fp2_is_zero(&small_K.x)` inspects it — this is the
           kernel of the step that follows (in the singular branch the kernel is the point (0,0) = small_K itself);
  `isos`   exponent of the kernel passed to `xisog_2` (regular branch);
  `nsteps` number of times `big_K` is pushed through a 2-isogeny.
-/
import SqiModel.Skel
import SqiModel.SkelEven
import SqiGen.ChainSkel
import SqiGen.EvenGuard

namespace SqiModel.SkelSmall
open SqiModel.Skel SqiModel.EvenChain

structure OSt where
  big : Option Nat
  small : Option Nat
  kexp : Nat                     -- exponent of the kernel generator copied into big_K
  bad : Bool
  reads : List Nat
  isos : List Nat
  nsteps : Nat

def OSt.init (kexp : Nat) : OSt :=
  { big := none, small := none, kexp := kexp, bad := false, reads := [], isos := [], nsteps := 0 }
def OSt.fail (o : OSt) : OSt := { o with bad := true }

def ev (o : OSt) (kind : Nat) (args : List Int) : OSt :=
  if o.bad then o else
  match kind, args with
  | 3, [0] => { o with big := some o.kexp }                                     -- copy_point(&big_K, kernel)
  | 2, [1, 0] => (match o.big with | some v => { o with small := some v } | none => o.fail)
  | 4, [1, 1] => (match o.small with | some v => { o with small := some (v - 1) } | none => o.fail)
  | 5, [1] => (match o.small with | some v => { o with reads := o.reads ++ [v] } | none => o.fail)
  | 8, [1] => (match o.small with | some v => { o with isos := o.isos ++ [v] } | none => o.fail)
  | 20, [0, 0, 1] => (match o.big with | some v => { o with big := some (v - 1), nsteps := o.nsteps + 1 } | none => o.fail)
  | _, _ => o.fail

def obs : Obs OSt := { ev := ev, ok := fun o => !o.bad }

/-- run of the translated naive chain on a kernel generator of exponent `e` -/
def runSmall (oracle : Nat → Bool) (fuel : Nat) (len : Nat) (lenPoints : Int) (e : Nat) : SqiGen.ChainSkel.SmallSt OSt :=
  SqiGen.ChainSkel.ec_eval_small_chain obs [] oracle fuel len lenPoints (SqiGen.ChainSkel.SmallSt.init (OSt.init e))

/-- run of the translated strategy routine on a kernel generator of exponent `len` -/
def runStrategy (T : List (List Nat)) (tpep : Nat) (oracle : Nat → Bool) (fuel : Nat) (len : Nat) (lenPoints : Int) :
    SqiGen.ChainSkel.EvenSt SqiModel.SkelEven.OSt :=
  SqiGen.ChainSkel.ec_eval_even_strategy SqiModel.SkelEven.obs T tpep oracle fuel len lenPoints
    (SqiGen.ChainSkel.EvenSt.init (SqiModel.SkelEven.OSt.init len))

/-- outcome of the translated `ec_eval_even` -/
inductive TopSkel
  | naive (s : SqiGen.ChainSkel.SmallSt OSt)
  | strategy (s : SqiGen.ChainSkel.EvenSt SqiModel.SkelEven.OSt)

/-- `ec_eval_even(image, phi, points, length)` with `phi->length = len`, kernel of exact order 2^len: the guard is the
    condition of the C's `if` (tools/translate/evenguard.py, which also checks that the two branches call
    `ec_eval_small_chain(…, phi->length, points, length)` resp. `ec_eval_even_strategy(…, length, …, phi->length)`),
    the branches are the translated routines (tools/translate/chainskel.py). -/
def evalEvenTopSkel (T : List (List Nat)) (tpep : Nat) (oracleS oracleE : Nat → Bool) (fuel : Nat) (len : Nat)
    (lenPoints : Int) : TopSkel :=
  if SqiGen.EvenGuard.naive len tpep T.length then .naive (runSmall oracleS fuel len lenPoints len)
  else .strategy (runStrategy T tpep oracleE fuel len lenPoints)

end SqiModel.SkelSmall

/-
Order-tracking observer for the integer skeletons of `theta_chain_comput_strategy` and
`theta_chain_comput_strategy_faster_no_eval` (`SqiGen.ChainSkel`, re-extracted from the C text on every run) and the
comparison of a skeleton run with the hand model `SqiModel.ThetaChain.chain`: same fault status, same final `index` /
`len_list`, same sequence of doublings (array, slot, count), same sequence of step indices, same kernel exponents.
Core Lean only.
-/
import SqiModel.Skel
import SqiModel.ThetaChain
import SqiGen.ChainSkel

namespace SqiModel.SkelTheta
open SqiModel.Skel SqiModel.ThetaChain

/-- arrays: 1,2 = points1/2, 3,4 = Q1/2 (order exponents), 5 = out->steps (only its size matters) -/
structure OSt where
  size : Int → Int                   -- declared size per array id
  arr : Int → Int → Option Nat       -- arr id idx
  kexp : Nat                         -- exponent of the input pair
  r1 : Option Nat                    -- R1, R2 (the kernel pair of the next step)
  r2 : Option Nat
  tog : Bool                         -- evalR events come in pairs (R1 then R2)
  bad : Bool
  dbls : List (Int × Int × Int)      -- (array, destination slot, count) of every iterated doubling on points1 / Q1
  steps : List Int                   -- index i of every step written to out->steps[i]
  kers : List (Nat × Nat)            -- (kind, exponent of the kernel pair)

def OSt.init (kexp : Nat) : OSt :=
  { size := fun _ => 0, arr := fun _ _ => none, kexp := kexp, r1 := none, r2 := none, tog := false, bad := false,
    dbls := [], steps := [], kers := [] }
def OSt.inb (o : OSt) (a i : Int) : Bool := decide (0 ≤ i) && decide (i < o.size a)
def OSt.fail (o : OSt) : OSt := { o with bad := true }
def OSt.put (o : OSt) (a i : Int) (v : Nat) : OSt :=
  { o with arr := fun a' k => if a' = a ∧ k = i then some v else o.arr a' k }

def ev (o : OSt) (kind : Nat) (args : List Int) : OSt :=
  if o.bad then o else
  match kind, args with
  | 1, [a, n] => if 0 < n then { o with size := fun a' => if a' = a then n else o.size a' } else o.fail
  | 3, [a, d] => if o.inb a d then o.put a d o.kexp else o.fail                       -- copyIn
  | 19, [a, d, k, a', s] =>                                                              -- dblIterP (points): dst, k, src
    if a = a' ∧ o.inb a d && o.inb a s then
      match o.arr a s with
      | some v => { o.put a d (v - k.toNat) with dbls := if a = 1 then o.dbls ++ [(a, d, k)] else o.dbls }
      | none => o.fail
    else o.fail
  | 9, [a, d, a', s, k] =>                                                               -- dblIter (Q): dst, src, k
    if a = a' ∧ o.inb a d && o.inb a s then
      match o.arr a s with
      | some v => { o.put a d (v - k.toNat) with dbls := if a = 3 then o.dbls ++ [(a, d, k)] else o.dbls }
      | none => o.fail
    else o.fail
  | 5, [a, s] =>                                                                          -- read: kernel of the gluing
    if o.inb a s then (match o.arr a s with
      | some v => { o with kers := o.kers ++ [(10, v)] }
      | none => o.fail) else o.fail
  | 11, [qa, d, qb, d', pa, s, pb, s'] =>                                                 -- glueEval
    if d = d' ∧ s = s' ∧ o.inb qa d && o.inb qb d && o.inb pa s && o.inb pb s then
      match o.arr pa s, o.arr pb s with
      | some v, some w => (o.put qa d (v - 1)).put qb d (w - 1)
      | _, _ => o.fail
    else o.fail
  | 17, [a, s] =>                                                                         -- loadR
    if a = 5 then (if o.inb 5 s then o else o.fail)                                      --   codomain = steps[s].codomain
    else if o.inb a s then (if a = 3 then { o with r1 := o.arr a s } else { o with r2 := o.arr a s }) else o.fail
  | 12, [_, i, _, _] =>                                                                   -- step
    if o.inb 5 i then (match o.r1, o.r2 with
      | some v, some w => if v = w then { o with steps := o.steps ++ [i], kers := o.kers ++ [(12, v)] } else o.fail
      | _, _ => o.fail) else o.fail
  | 14, [_, i, _, _] =>
    if o.inb 5 i then (match o.r1, o.r2 with
      | some v, some w => if v = w then { o with steps := o.steps ++ [i], kers := o.kers ++ [(14, v)] } else o.fail
      | _, _ => o.fail) else o.fail
  | 15, [_, i, _, _] =>
    if o.inb 5 i then (match o.r1, o.r2 with
      | some v, some w => if v = w then { o with steps := o.steps ++ [i], kers := o.kers ++ [(15, v)] } else o.fail
      | _, _ => o.fail) else o.fail
  | 13, [a, d, _, i, a', s] =>                                                            -- evalStep: Q[d] through steps[i]
    if a = a' ∧ d = s ∧ o.inb a d && o.inb 5 i then
      match o.arr a d with
      | some v => o.put a d (v - 1)
      | none => o.fail
    else o.fail
  | 16, [_, i] =>                                                                         -- evalR: R1, then R2
    if o.inb 5 i then
      (if o.tog then { o with r2 := o.r2.map (· - 1), tog := false } else { o with r1 := o.r1.map (· - 1), tog := true })
    else o.fail
  | 18, [_, i] => if o.inb 5 i then o else o.fail                                         -- split
  | _, _ => o.fail

def obs : Obs OSt := { ev := ev, ok := fun o => !o.bad }

/-- (no fault, index, len_list, doublings, step indices, kernel exponents) -/
abbrev Summary := Bool × Int × Int × List (Int × Int × Int) × List Int × List (Nat × Nat)

def ofObs (ok : Bool) (index lenList : Int) (o : OSt) : Summary :=
  if ok && !o.bad then (true, index, lenList, o.dbls, o.steps, o.kers) else (false, 0, 0, [], [], [])

def skelSummary (which : Nat) (row : List Nat) (n : Nat) (ea : Bool) (fuel : Nat) : Summary :=
  let kexp := if ea then n + 2 else n
  if which = 0 then
    let s := SqiGen.ChainSkel.theta_chain_comput_strategy obs row (fun _ => true) fuel n (if ea then 1 else 0)
      (SqiGen.ChainSkel.ThetaSt.init (OSt.init kexp))
    ofObs s.fault.isNone s.index s.len_list s.obs
  else
    let s := SqiGen.ChainSkel.theta_chain_comput_strategy_faster_no_eval obs row (fun _ => true) fuel n (if ea then 1 else 0)
      (SqiGen.ChainSkel.ThetaFSt.init (OSt.init kexp))
    ofObs s.fault.isNone s.index s.len_list s.obs

/-- what the hand-model trace says about the same quantities -/
def mDbls : ThetaChain.Ev → List (Int × Int × Int)
  | .pts i v _ => [(1, i, v)]
  | .push _ l v _ => [(3, l, v)]
  | _ => []
def mSteps (n : Nat) (ea : Bool) : ThetaChain.Ev → List Int
  | .step i _ _ _ => if ea ∨ ((i : Int) ≠ (n : Int) - 3 ∧ (i : Int) ≠ (n : Int) - 2) then [(i : Int)] else []
  | .fin _ b c _ _ => [b, c]
  | _ => []
def mKers : ThetaChain.Ev → List (Nat × Nat)
  | .glue _ o => [(10, o), (10, o), (10, o), (10, o)]
  | .step _ _ _ k => [(12, k)]
  | .fin _ _ _ o4 o2 => [(14, o4), (15, o2)]
  | _ => []

def modelSummary (row : List Nat) (n : Nat) (ea : Bool) : Summary :=
  let s := chain { row := row, n := n, eightAbove := ea }
  if s.err.isSome then (false, 0, 0, [], [], [])
  else (true, s.index, s.lenList, s.trace.flatMap mDbls, s.trace.flatMap (mSteps n ea), s.trace.flatMap mKers)


/-- small strategies of every shape (2 … 8 leaves), both routines, both modes, plus invalid rows (fault on both sides):
    cheap enough for the kernel -/
def smallRows : List (List Nat × Nat) :=
  [([1], 2), ([1, 1], 3), ([2, 1], 3), ([2, 1, 1], 4), ([1, 1, 1], 4), ([1, 2, 1], 4), ([2, 1, 1, 1], 5), ([3, 1, 1, 1], 5),
   ([3, 1, 2, 1], 5), ([3, 2, 1, 1, 1], 6), ([2, 1, 1, 1, 1], 6), ([4, 2, 1, 1, 2, 1], 7), ([3, 2, 1, 1, 1, 1], 7),
   ([4, 2, 1, 1, 2, 1, 1], 8), ([5, 2, 1, 1, 1, 2, 1], 8), ([0, 0, 0], 4), ([3, 3, 3, 3], 5), ([1, 1], 4)]

def smallAgree (row : List Nat) (L : Nat) : Bool :=
  [0, 1].all fun w =>
    (skelSummary w (row ++ [0, 0]) L true 64 == modelSummary (row ++ [0, 0]) L true) &&
    (skelSummary w (row ++ [0, 0]) (L + 2) false 64 == modelSummary (row ++ [0, 0]) (L + 2) false)

def smallAllAgree : Bool := smallRows.all fun (row, L) => smallAgree row L

end SqiModel.SkelTheta

/-
Hand model of the sponge plumbing of src/common/generic/fips202.c (core-only, executable; tie H).

Every function mirrors the C loop structure and the byte-position bookkeeping in `s_inc[25]`:
  load64 / store64, keccak_absorb, keccak_squeezeblocks, keccak_inc_init / _absorb / _finalize / _squeeze,
  the shake128 / shake256 wrappers (rates and domain bytes are *parameters* here; the driver and the
  theorems instantiate them with the constants the translator extracts from the C text) and the one-shot
  `shake128` / `shake256` (whole blocks written directly, the tail through a temporary block).
The permutation is a parameter `f`, instantiated with `SqiGen.Keccak.keccakF` (generated from the C).

Loops are given structural fuel (enough by construction: every iteration consumes ≥ 1 byte), so that the
definitions reduce in the kernel.  Inputs the C code cannot reach without already being out of bounds
(`s_inc[25] ≥ r`, lane index ≥ 25) leave the state unchanged in the model; the theorems carry the
invariant `pos < r ≤ 200` explicitly and prove it is preserved from `keccak_inc_init`.
-/
import SqiModel.Fips202

namespace SqiModel.Sponge
open SqiModel.Fips202

/-- `load64`: r = 0; for i < 8: r |= (uint64_t)x[i] << 8*i -/
def load64 (x : List UInt8) : UInt64 :=
  (List.range 8).foldl (fun r i => r ||| ((x.getD i 0).toUInt64 <<< (8 * i).toUInt64)) 0

/-- `store64`: x[i] = (uint8_t)(u >> 8*i) -/
def store64 (u : UInt64) : List UInt8 := (List.range 8).map fun i => (u >>> (8 * i).toUInt64).toUInt8

/-- `s[idx >> 3] ^= (uint64_t)b << (8 * (idx & 7))` -/
def xorByteAt (s : State) (idx : Nat) (b : UInt8) : State :=
  if h : idx / 8 < 25 then s.set (idx / 8) (s[idx / 8] ^^^ (b.toUInt64 <<< (8 * (idx % 8)).toUInt64)) else s

/-- `for (i = 0; i < n; i++) s[(pos + i) >> 3] ^= (uint64_t)m[i] << (8 * ((pos + i) & 7))` -/
def xorBytesAt (s : State) (pos : Nat) : List UInt8 → State
  | [] => s
  | b :: bs => xorBytesAt (xorByteAt s pos b) (pos + 1) bs

/-- `(uint8_t)(s[i >> 3] >> (8 * (i & 7)))` -/
def byteAt (s : State) (i : Nat) : UInt8 := ((s.getD (i / 8) 0) >>> (8 * (i % 8)).toUInt64).toUInt8

/-- `for (i = 0; i < n; ++i) s[i] ^= load64(m + 8 * i)` -/
def xorLanes (s : State) (m : List UInt8) (n : Nat) : State :=
  (List.range n).foldl (fun s i => if h : i < 25 then s.set i (s[i] ^^^ load64 (m.drop (8 * i))) else s) s

section
variable (f : State → State)

/-! ### non-incremental API -/

/-- the `while (mlen >= r)` loop of keccak_absorb; returns the state and the unabsorbed tail -/
def absorbFull (r : Nat) : Nat → State → List UInt8 → State × List UInt8
  | 0, s, m => (s, m)
  | fuel + 1, s, m =>
    if m.length ≥ r ∧ 0 < r then absorbFull r fuel (f (xorLanes s m (r / 8))) (m.drop r) else (s, m)

/-- the padded last block `t` of keccak_absorb: t[0..r) = 0; t[i] = m[i]; t[mlen] = p; t[r-1] |= 128 -/
def lastBlock (r : Nat) (m : List UInt8) (p : UInt8) : List UInt8 :=
  let t := (m ++ [p] ++ List.replicate (r - m.length - 1) 0)
  t.set (r - 1) (t.getD (r - 1) 0 ||| 128)

/-- `keccak_absorb(s, r, m, mlen, p)` -/
def keccakAbsorb (r : Nat) (m : List UInt8) (p : UInt8) : State :=
  let (s, rest) := absorbFull f r (m.length + 1) zeroState m
  xorLanes s (lastBlock r rest p) (r / 8)

/-- one block of keccak_squeezeblocks: permute, then store64 of the first r/8 lanes -/
def blockBytes (s : State) (r : Nat) : List UInt8 :=
  (List.range (r / 8)).flatMap fun i => store64 (s.getD i 0)

/-- `keccak_squeezeblocks(h, nblocks, s, r)`: output and new state -/
def squeezeBlocksC (r : Nat) : Nat → State → List UInt8 × State
  | 0, s => ([], s)
  | n + 1, s =>
    let s' := f s
    let (out, s'') := squeezeBlocksC r n s'
    (blockBytes s' r ++ out, s'')

/-- the one-shot `shake128` / `shake256`: absorb; `outlen / r` whole blocks; then, if `outlen % r ≠ 0`,
    one more block into a temporary of which `outlen % r` bytes are copied -/
def shakeOneShot (rAbs : Nat) (dom : UInt8) (rSq : Nat) (rOne : Nat) (msg : List UInt8) (outlen : Nat) : List UInt8 :=
  let nblocks := outlen / rOne
  let s := keccakAbsorb f rAbs msg dom
  let (out, s) := squeezeBlocksC f rSq nblocks s
  let rem := outlen - nblocks * rOne
  if rem ≠ 0 then
    let (t, _) := squeezeBlocksC f rSq 1 s
    out ++ t.take rem
  else out

/-! ### incremental API -/

/-- `uint64_t s_inc[26]`: 25 lanes and the byte counter `s_inc[25]` -/
structure IncState where
  s : State
  pos : Nat

/-- `keccak_inc_init` -/
def incInit : IncState := ⟨zeroState, 0⟩

/-- the `while (mlen + s_inc[25] >= r)` loop of keccak_inc_absorb followed by the tail loop -/
def incAbsorbLoop (r : Nat) : Nat → IncState → List UInt8 → IncState
  | 0, st, m => ⟨xorBytesAt st.s st.pos m, st.pos + m.length⟩
  | fuel + 1, st, m =>
    if m.length + st.pos ≥ r ∧ st.pos < r then
      incAbsorbLoop r fuel ⟨f (xorBytesAt st.s st.pos (m.take (r - st.pos))), 0⟩ (m.drop (r - st.pos))
    else ⟨xorBytesAt st.s st.pos m, st.pos + m.length⟩

/-- `keccak_inc_absorb(s_inc, r, m, mlen)` -/
def incAbsorb (r : Nat) (st : IncState) (m : List UInt8) : IncState := incAbsorbLoop f r (m.length + 1) st m

/-- `keccak_inc_finalize(s_inc, r, p)` -/
def incFinalize (r : Nat) (p : UInt8) (st : IncState) : IncState :=
  ⟨xorByteAt (xorByteAt st.s st.pos p) (r - 1) 128, 0⟩

/-- the `while (outlen > 0)` loop of keccak_inc_squeeze -/
def incSqueezeLoop (r : Nat) : Nat → Nat → IncState → List UInt8 × IncState
  | 0, _, st => ([], st)
  | fuel + 1, outlen, st =>
    if 0 < outlen then
      let s' := f st.s
      let i := min outlen r
      let (out, st') := incSqueezeLoop r fuel (outlen - i) ⟨s', r - i⟩
      ((List.range i).map (byteAt s') ++ out, st')
    else ([], st)

/-- `keccak_inc_squeeze(h, outlen, s_inc, r)`: first the bytes still available, then whole permutations -/
def incSqueeze (r : Nat) (st : IncState) (outlen : Nat) : List UInt8 × IncState :=
  let i := min outlen st.pos
  let out0 := (List.range i).map fun j => byteAt st.s (r - st.pos + j)
  let (out, st') := incSqueezeLoop f r (outlen + 1) (outlen - i) ⟨st.s, st.pos - i⟩
  (out0 ++ out, st')

/-- a sequence of absorb calls -/
def incAbsorbMany (r : Nat) (st : IncState) (chunks : List (List UInt8)) : IncState :=
  chunks.foldl (incAbsorb f r) st

/-- a sequence of squeeze calls; the outputs are concatenated in call order -/
def incSqueezeMany (r : Nat) (st : IncState) : List Nat → List UInt8 × IncState
  | [] => ([], st)
  | n :: ns =>
    let (o, st') := incSqueeze f r st n
    let (os, st'') := incSqueezeMany r st' ns
    (o ++ os, st'')

/-- a whole session of the incremental API: init, absorb the chunks, finalize, squeeze the requested lengths.
    The three rates are those the three C wrappers pass (extracted separately by the translator). -/
def incSession (rAbs rFin rSq : Nat) (dom : UInt8) (chunks : List (List UInt8)) (reqs : List Nat) :
    List UInt8 × IncState :=
  incSqueezeMany f rSq (incFinalize rFin dom (incAbsorbMany f rAbs incInit chunks)) reqs

end

end SqiModel.Sponge

/-
Target language of tools/translate/sponge.py (C20, tie T for the sponge control code of fips202.c).
The translator re-extracts the function bodies into Lean definitions (SqiGen/Sponge.lean) that use only: record updates
for assignments, `bind` for sequencing, `loopO` for every `while` and `for` (a `for (i = 0; i < B; i++)` is `i := 0;
while (i < B) { body; i++ }` with B re-evaluated at every iteration, exactly like C), and the memory primitives below.
Conventions of the translation (assumptions, the same as the hand model's): `size_t` / `uint32_t` scalars and the byte
counter `s_inc[25]` are natural numbers (no wrap-around: `r - s_inc[25]` is truncated subtraction, only reachable with
`s_inc[25] ≤ r`); `s_inc[25]` (literal index) is the field `pos`, every other index into a lane array addresses lanes
0..24 (an index ≥ 25 is out of bounds in C: the primitive leaves the state unchanged); pointer increments `m += k` drop k
bytes of the input list; a `uint8_t t[200]` local is a 200-byte list.
-/
import SqiModel.Fips202

namespace SqiModel.SpongeProg
open SqiModel.Fips202

/-- `while (cond) body`; `none` = fuel exhausted while the condition still holds -/
def loopO {σ : Type} (cond : σ → Bool) (body : σ → Option σ) : Nat → σ → Option σ
  | 0, s => if cond s then none else some s
  | n + 1, s => if cond s then (match body s with | none => none | some s' => loopO cond body n s') else some s

/-- `s[idx] ^= e` on a lane array -/
def xorLaneAt (s : State) (idx : Nat) (e : UInt64) : State := if h : idx < 25 then s.set idx (s[idx] ^^^ e) else s
/-- `s[idx] = e` -/
def setLaneAt (s : State) (idx : Nat) (e : UInt64) : State := if h : idx < 25 then s.set idx e else s
/-- `s[idx]` -/
def laneAt (s : State) (idx : Nat) : UInt64 := s.getD idx 0
/-- the state passed to `keccak_absorb` is uninitialised memory: any value (the function zeroes it first) -/
def anyState : State := zeroState

end SqiModel.SpongeProg

/-
Strategies (pre-order encoding used by scripts/ec_params.py and scripts/dim2_strategy.py):
  S(1) = [] ,  S(n) = b :: S(n-b) ++ S(b)   with 1 ≤ b < n.
Core-only file: the executable checker `checkStrat`, the abstract traversal machine and the theorem
that every valid strategy drives it through exactly n isogeny steps (all n, all strategies).
-/
namespace SqiModel

/-- valid strategies for a tree with `n` leaves -/
inductive Strat : Nat → List Nat → Prop
  | leaf : Strat 1 []
  | node {n b : Nat} {s1 s2 : List Nat} : 1 ≤ b → b < n → Strat (n - b) s1 → Strat b s2 →
      Strat n (b :: (s1 ++ s2))

/-- executable parser: consume one S(n) from the front of `l`; `fuel ≥ n` suffices -/
def parseStrat : Nat → Nat → List Nat → Option (List Nat)
  | 0, _, _ => none
  | fuel + 1, n, l =>
    if n = 1 then some l
    else match l with
      | [] => none
      | b :: rest =>
        if 1 ≤ b ∧ b < n then
          match parseStrat fuel (n - b) rest with
          | none => none
          | some rest' => parseStrat fuel b rest'
        else none

/-- a zero-padded table row is a valid strategy for `n` leaves -/
def checkStrat (n : Nat) (row : List Nat) : Bool :=
  match parseStrat (n + 1) n row with
  | some rest => rest.all (· == 0)
  | none => false

theorem parseStrat_sound : ∀ (fuel n : Nat) (l rest : List Nat),
    parseStrat fuel n l = some rest → ∃ s, Strat n s ∧ l = s ++ rest := by
  intro fuel
  induction fuel with
  | zero => intro n l rest h; simp [parseStrat] at h
  | succ fuel ih =>
    intro n l rest h
    unfold parseStrat at h
    by_cases hn : n = 1
    · subst hn
      simp at h
      exact ⟨[], Strat.leaf, by simp [h]⟩
    · simp only [hn, if_false] at h
      cases l with
      | nil => simp at h
      | cons b tl =>
        simp only at h
        by_cases hb : 1 ≤ b ∧ b < n
        · simp only [hb, and_self, if_true] at h
          cases h1 : parseStrat fuel (n - b) tl with
          | none => simp [h1] at h
          | some r1 =>
            simp only [h1] at h
            obtain ⟨s1, hs1, e1⟩ := ih (n - b) tl r1 h1
            obtain ⟨s2, hs2, e2⟩ := ih b r1 rest h
            refine ⟨b :: (s1 ++ s2), Strat.node hb.1 hb.2 hs1 hs2, ?_⟩
            simp [e1, e2, List.append_assoc]
        · simp only [hb, if_false] at h
          cases h

theorem Strat.length {n : Nat} {s : List Nat} (h : Strat n s) : s.length + 1 = n := by
  induction h with
  | leaf => rfl
  | node hb1 hbn _ _ ih1 ih2 => simp [List.length_append]; omega

theorem Strat.pos {n : Nat} {s : List Nat} (h : Strat n s) : 1 ≤ n := by
  cases h with
  | leaf => exact Nat.le_refl 1
  | node hb1 hbn _ _ => omega

/-- a checked row yields a valid strategy in its first n-1 entries; the rest is zero padding -/
theorem checkStrat_sound (n : Nat) (row : List Nat) (h : checkStrat n row = true) :
    ∃ s pad, Strat n s ∧ row = s ++ pad ∧ (∀ x ∈ pad, x = 0) ∧ s.length = n - 1 := by
  unfold checkStrat at h
  cases hp : parseStrat (n + 1) n row with
  | none => simp [hp] at h
  | some rest =>
    simp only [hp] at h
    obtain ⟨s, hs, e⟩ := parseStrat_sound _ _ _ _ hp
    refine ⟨s, rest, hs, e, ?_, ?_⟩
    · intro x hx
      have := List.all_eq_true.mp h x hx
      simpa using this
    · have := hs.length; omega

/-! ### The abstract traversal machine -/

/-- configuration: stack of remaining heights (top first), unread strategy, isogeny steps done,
    maximal stack depth seen -/
structure Cfg where
  stack : List Nat
  strat : List Nat
  done  : Nat
  maxDepth : Nat

inductive Step : Cfg → Cfg → Prop
  | iso (rest s k m) : Step ⟨1 :: rest, s, k, m⟩ ⟨rest.map (· - 1), s, k + 1, m⟩
  | dbl (h b rest s k m) : 1 < h → 1 ≤ b → b < h →
      Step ⟨h :: rest, b :: s, k, m⟩ ⟨(h - b) :: h :: rest, s, k, max m (rest.length + 2)⟩

inductive Steps : Cfg → Cfg → Prop
  | refl (c) : Steps c c
  | tail {a b c} : Steps a b → Step b c → Steps a c

theorem Steps.trans {a b c : Cfg} (h1 : Steps a b) (h2 : Steps b c) : Steps a c := by
  induction h2 with
  | refl => exact h1
  | tail _ hs ih => exact Steps.tail ih hs

theorem map_sub_sub (l : List Nat) (a b : Nat) :
    (l.map (· - a)).map (· - b) = l.map (· - (a + b)) := by
  simp [List.map_map, Function.comp_def, Nat.sub_sub]

/-- a point of height h with S(h) in front is consumed in exactly h isogeny steps -/
theorem run_subtree {h : Nat} {s1 : List Nat} (hs : Strat h s1) :
    ∀ (rest s2 : List Nat) (k m : Nat), ∃ m', m ≤ m' ∧ m' ≤ max m (rest.length + h) ∧
      Steps ⟨h :: rest, s1 ++ s2, k, m⟩ ⟨rest.map (· - h), s2, k + h, m'⟩ := by
  induction hs with
  | leaf =>
    intro rest s2 k m
    refine ⟨m, Nat.le_refl _, Nat.le_max_left _ _, ?_⟩
    exact Steps.tail (Steps.refl _) (Step.iso rest s2 k m)
  | @node n b sa sb hb1 hbn hsa hsb iha ihb =>
    intro rest s2 k m
    have hn : 1 < n := by omega
    have st1 : Step ⟨n :: rest, b :: ((sa ++ sb) ++ s2), k, m⟩
        ⟨(n - b) :: n :: rest, (sa ++ sb) ++ s2, k, max m (rest.length + 2)⟩ :=
      Step.dbl n b rest _ k m hn hb1 hbn
    obtain ⟨m1, hm1a, hm1b, r1⟩ := iha (n :: rest) (sb ++ s2) k (max m (rest.length + 2))
    obtain ⟨m2, hm2a, hm2b, r2⟩ := ihb (rest.map (· - (n - b))) s2 (k + (n - b)) m1
    refine ⟨m2, ?_, ?_, ?_⟩
    · have := Nat.le_max_left m (rest.length + 2); omega
    · simp only [List.length_cons, List.length_map] at hm1b hm2b
      omega
    · have e1 : ((n :: rest).map (· - (n - b))) = b :: rest.map (· - (n - b)) := by
        simp; omega
      have e2 : (rest.map (· - (n - b))).map (· - b) = rest.map (· - n) := by
        rw [map_sub_sub]; congr 1; funext x; omega
      have e3 : k + (n - b) + b = k + n := by omega
      rw [e1] at r1
      rw [e2, e3] at r2
      have : (b :: (sa ++ sb)) ++ s2 = b :: ((sa ++ sb) ++ s2) := rfl
      rw [this]
      refine Steps.trans (Steps.tail (Steps.refl _) st1) ?_
      rw [List.append_assoc]
      exact Steps.trans r1 r2

/-- whole chain: n isogeny steps, strategy consumed exactly, stack depth never exceeds n -/
theorem run_chain {n : Nat} {s : List Nat} (hs : Strat n s) :
    ∃ m', m' ≤ max 1 n ∧ Steps ⟨[n], s, 0, 1⟩ ⟨[], [], n, m'⟩ := by
  obtain ⟨m', _, h2, h3⟩ := run_subtree hs [] [] 0 1
  refine ⟨m', ?_, ?_⟩
  · simpa using h2
  · simpa using h3

end SqiModel

/-
Strategies with a bound on the stack index (core-only).

`StratD cap n c s`: `s` is a valid strategy for `n` leaves (as `Strat n s`) **and**, when the traversal
processes it with its root stored at stack index `c`, no stack index ≥ `cap` is ever used (a push of the
left subtree goes to index `c+1`; the right subtree is processed at index `c` again).
Validity alone does not bound the depth (a comb-shaped strategy has depth n), so for the fixed-size arrays of
`ec_eval_even_strategy` (size 2·bitlen(⌊len/2⌋)) the bound is a per-table fact, decided by `checkStratD`.
For arrays of size ≥ n (theta chains) the bound follows from validity (`Strat.toD`).
-/
import SqiModel.Strategy
namespace SqiModel

inductive StratD (cap : Nat) : Nat → Nat → List Nat → Prop
  | leaf {c : Nat} : c < cap → StratD cap 1 c []
  | node {n b c : Nat} {s1 s2 : List Nat} : 1 ≤ b → b < n → StratD cap (n - b) (c + 1) s1 → StratD cap b c s2 →
      StratD cap n c (b :: (s1 ++ s2))

theorem StratD.toStrat {cap n c : Nat} {s : List Nat} (h : StratD cap n c s) : Strat n s := by
  induction h with
  | leaf _ => exact Strat.leaf
  | node hb1 hbn _ _ ih1 ih2 => exact Strat.node hb1 hbn ih1 ih2

theorem StratD.idx_lt {cap n c : Nat} {s : List Nat} (h : StratD cap n c s) : c < cap := by
  induction h with
  | leaf hc => exact hc
  | node _ _ _ _ _ ih2 => exact ih2

/-- validity implies the depth bound whenever the array has room for one slot per leaf -/
theorem Strat.toD {n : Nat} {s : List Nat} (h : Strat n s) : ∀ (cap c : Nat), c + n ≤ cap → StratD cap n c s := by
  induction h with
  | leaf => intro cap c hc; exact StratD.leaf (by omega)
  | @node n b s1 s2 hb1 hbn _ _ ih1 ih2 =>
    intro cap c hc
    exact StratD.node hb1 hbn (ih1 cap (c + 1) (by omega)) (ih2 cap c (by omega))

/-- executable parser: consume one S(n) from the front of `l`, root at index `c`; `fuel ≥ n` suffices -/
def parseStratD (cap : Nat) : Nat → Nat → Nat → List Nat → Option (List Nat)
  | 0, _, _, _ => none
  | fuel + 1, n, c, l =>
    if n = 1 then (if c < cap then some l else none)
    else match l with
      | [] => none
      | b :: rest =>
        if 1 ≤ b ∧ b < n then
          match parseStratD cap fuel (n - b) (c + 1) rest with
          | none => none
          | some rest' => parseStratD cap fuel b c rest'
        else none

/-- a zero-padded table row is a valid strategy for `n` leaves whose traversal from index `c` stays below `cap` -/
def checkStratD (cap n c : Nat) (row : List Nat) : Bool :=
  match parseStratD cap (n + 1) n c row with
  | some rest => rest.all (· == 0)
  | none => false

theorem parseStratD_sound (cap : Nat) : ∀ (fuel n c : Nat) (l rest : List Nat),
    parseStratD cap fuel n c l = some rest → ∃ s, StratD cap n c s ∧ l = s ++ rest := by
  intro fuel
  induction fuel with
  | zero => intro n c l rest h; simp [parseStratD] at h
  | succ fuel ih =>
    intro n c l rest h
    unfold parseStratD at h
    by_cases hn : n = 1
    · subst hn
      simp only [if_true] at h
      by_cases hc : c < cap
      · simp only [hc, if_true, Option.some.injEq] at h
        exact ⟨[], StratD.leaf hc, by simp [h]⟩
      · simp [hc] at h
    · simp only [hn, if_false] at h
      cases l with
      | nil => simp at h
      | cons b tl =>
        simp only at h
        by_cases hb : 1 ≤ b ∧ b < n
        · simp only [hb, and_self, if_true] at h
          cases h1 : parseStratD cap fuel (n - b) (c + 1) tl with
          | none => simp [h1] at h
          | some r1 =>
            simp only [h1] at h
            obtain ⟨s1, hs1, e1⟩ := ih (n - b) (c + 1) tl r1 h1
            obtain ⟨s2, hs2, e2⟩ := ih b c r1 rest h
            refine ⟨b :: (s1 ++ s2), StratD.node hb.1 hb.2 hs1 hs2, ?_⟩
            simp [e1, e2, List.append_assoc]
        · simp only [hb, if_false] at h
          cases h

theorem checkStratD_sound (cap n c : Nat) (row : List Nat) (h : checkStratD cap n c row = true) :
    ∃ s pad, StratD cap n c s ∧ row = s ++ pad ∧ (∀ x ∈ pad, x = 0) ∧ s.length = n - 1 := by
  unfold checkStratD at h
  cases hp : parseStratD cap (n + 1) n c row with
  | none => simp [hp] at h
  | some rest =>
    simp only [hp] at h
    obtain ⟨s, hs, e⟩ := parseStratD_sound cap _ _ _ _ _ hp
    refine ⟨s, rest, hs, e, ?_, ?_⟩
    · intro x hx
      have := List.all_eq_true.mp h x hx
      simpa using this
    · have := hs.toStrat.length; omega

end SqiModel

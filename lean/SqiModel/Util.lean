/- Line-protocol helpers shared by all driver modules (core-only). Integers travel as hex
   (optional leading '-'), lists as space-separated items. -/
namespace SqiModel.Util

def hexDigit? (c : Char) : Option Nat :=
  if '0' ≤ c ∧ c ≤ '9' then some (c.toNat - '0'.toNat)
  else if 'a' ≤ c ∧ c ≤ 'f' then some (c.toNat - 'a'.toNat + 10)
  else if 'A' ≤ c ∧ c ≤ 'F' then some (c.toNat - 'A'.toNat + 10)
  else none

def parseHexNat? (s : String) : Option Nat :=
  if s.isEmpty then none else
  s.toList.foldl (fun acc c => match acc, hexDigit? c with
    | some a, some d => some (a * 16 + d)
    | _, _ => none) (some 0)

def parseHexInt? (s : String) : Option Int :=
  if s.startsWith "-" then (parseHexNat? (s.drop 1).toString).map (fun n => - (n : Int))
  else (parseHexNat? s).map (fun n => (n : Int))

def hexChar (d : Nat) : Char :=
  if d < 10 then Char.ofNat ('0'.toNat + d) else Char.ofNat ('a'.toNat + d - 10)

partial def toHexAux (n : Nat) (acc : List Char) : List Char :=
  if n < 16 then hexChar n :: acc else toHexAux (n / 16) (hexChar (n % 16) :: acc)

def toHex (n : Nat) : String := String.ofList (toHexAux n [])

def intToHex (z : Int) : String :=
  if z < 0 then "-" ++ toHex z.natAbs else toHex z.natAbs

def parseNats? (ws : List String) : Option (List Nat) := ws.mapM parseHexNat?
def parseInts? (ws : List String) : Option (List Int) := ws.mapM parseHexInt?

def natsToHex (l : List Nat) : String := " ".intercalate (l.map toHex)
def intsToHex (l : List Int) : String := " ".intercalate (l.map intToHex)

end SqiModel.Util

/-
C03 — access model of the two verifiers (`protocols_verif` of sqisigndim2 and sqisigndim2_heuristic).

`bodyDim2 K pk sig` / `bodyHeur K pk sig` list every table index, VLA / malloc element count, digit-array
destination size, input-controlled loop bound, `ibz_pow` exponent and `int` expression of the verifier body
as a function of the *raw* public-key and signature fields (unbounded `Int`s: the C `int` semantics is
recovered through the `intval` accesses — if they are all in range the unbounded value is the C value).
`verifyAccesses… K guard pk sig` is the model of the whole function: the body runs only when the range
guard at the top of `protocols_verif` lets the input through.  The guard itself is *not* written here: it is
re-extracted from the C text on every run (tools/translate/verif_guard.py -> SqiGen/VerifGuard.lean); on a tree
without a guard the translator emits the constant `true`.

The two strategy traversals (`ec_eval_even_strategy`, `theta_chain_comput_strategy_faster_no_eval`) are not re-modelled
here: the access list embeds engineer a3's C-shaped loop models (`SqiModel.EvenChain`, `SqiModel.ThetaChain`, tied to the C
by the H3 trace correspondence of C09/C12) and their general theorems make the traversal part a corollary for every admitted
length. The digit-array conversion uses the limb list of engineer a5's C17 model (`SqiModel.Intbig`).
Core-only file (linked into the driver).  C anchors are given next to each access.
-/
import SqiModel.Strategy
import SqiModel.EvenChain
import SqiModel.ThetaChain
import SqiModel.Intbig

namespace SqiModel.Verify

/-- level constants and tables the verifiers index (instances: SqiModel.VerifyLevels, from the generated tables) -/
structure Lvl where
  f : Nat            -- TORSION_PLUS_EVEN_POWER = POWER_OF_2
  respLen : Nat      -- SQIsign2D_response_length
  btBound : Nat      -- SQIsign2D_backtracking_bound
  heurBound : Nat    -- SQIsign2D_response_heuristic_bound
  heurChall : Nat    -- SQIsign2D_heuristic_challenge_length
  nwOrder : Nat      -- NWORDS_ORDER
  nwField : Nat      -- NWORDS_FIELD
  radix : Nat        -- RADIX (64 on the verified configuration)
  nqr : Nat          -- entries of NQR_TABLE / Z_NQR_TABLE
  hintThrP : Nat     -- `hint < hintThrP` ⇒ NQR_TABLE[hint] is read (basis.c, extracted: SqiGen.VerifConsts)
  hintThrQ : Nat     -- `hint < hintThrQ` ⇒ Z_NQR_TABLE[hint] is read
  hintLoP : Bool     -- the table branch is also guarded by `hint >= 0`
  hintLoQ : Bool
  cols4 : Nat        -- columns of STRATEGY4
  cols2 : Nat        -- columns of strategies
  evenNaive : Nat → Nat → Nat → Bool   -- guard of `ec_eval_even` (len, TORSION_PLUS_EVEN_POWER, rows): true ⇒ naive chain
                                       -- (re-read from the C text: SqiGen.EvenGuard.naive, tools/translate/evenguard.py)
  strat4 : List (List Nat)   -- STRATEGY4 (rows)
  strat2 : List (List Nat)   -- strategies (rows)

def Lvl.rows4 (K : Lvl) : Nat := K.strat4.length
def Lvl.rows2 (K : Lvl) : Nat := K.strat2.length

/-- raw public key as handed to `protocols_verif` -/
structure RawPk where
  cIsOne : Bool      -- fp2_is_one(&pk->curve.C)
  a24Flag : Bool     -- pk->curve.is_A24_computed_and_normalized
  hint0 : Int
  hint1 : Int
deriving Repr, DecidableEq

/-- raw signature of sqisigndim2 -/
structure RawSig where
  cIsOne : Bool
  a24Flag : Bool
  bt : Int           -- backtracking
  trl : Int          -- two_resp_length
  m00 : Int
  m01 : Int
  m10 : Int
  m11 : Int
  chall : Int        -- chall_coeff
  challB : Int       -- chall_b
  ha0 : Int
  ha1 : Int
  hc0 : Int
  hc1 : Int
deriving Repr, DecidableEq

/-- raw signature of sqisigndim2_heuristic -/
structure RawSigH where
  cIsOne : Bool
  a24Flag : Bool
  trl : Int
  ha0 : Int
  ha1 : Int
  x : Int
  hintB : Int
  b0 : Int
  d0 : Int
  b1 : Int
  d1 : Int
  c0 : Int
  e0 : Int
deriving Repr, DecidableEq

/-- `mpz_sizeinbase(z, 2)` = `ibz_bitsize` -/
def bitsize (z : Int) : Nat := if z = 0 then 1 else Nat.log2 z.natAbs + 1
/-- number of 64-bit words `ibz_to_digits` writes: the limb list of the C17 model of `ibz_to_digit_array`
    (SqiModel.Intbig.ibzToDigitArray: `mpz_size` limbs of |z|, one zero limb for z = 0) -/
def wordsWritten (z : Int) : Nat := (if z = 0 then [0] else SqiModel.Intbig.limbs z.natAbs).length

inductive Access where
  | index (what : String) (i : Int) (size : Nat)    -- element `i` of an array/table with `size` elements
  | vla (what : String) (n : Int)                   -- element count of a VLA / malloc'ed array (must be ≥ 1)
  | digits (what : String) (words cap : Nat)        -- `ibz_to_digits` writes `words` words into `cap`
  | loop (what : String) (count : Int) (max : Nat)  -- input-controlled iteration count (≤ max ⇒ terminates quickly)
  | intval (what : String) (v : Int)                -- value of an `int` expression (no signed overflow)
  | expo (what : String) (e : Int) (max : Nat)      -- exponent handed to `ibz_pow` (cast to unsigned long)
  | bad (what : String)                             -- the traversal simulation got stuck (would not terminate)
deriving Repr

def Access.ok : Access → Bool
  | .index _ i size => decide (0 ≤ i) && decide (i < size)
  | .vla _ n => decide (1 ≤ n)
  | .digits _ w cap => decide (w ≤ cap)
  | .loop _ c max => decide (c ≤ max)
  | .intval _ v => decide (-(2 : Int) ^ 31 ≤ v) && decide (v < (2 : Int) ^ 31)
  | .expo _ e max => decide (0 ≤ e) && decide (e ≤ max)
  | .bad _ => false

def Access.what : Access → String
  | .index w _ _ | .vla w _ | .digits w _ _ | .loop w _ _ | .intval w _ | .expo w _ _ | .bad w => w

def allOk (l : List Access) : Bool := l.all Access.ok
def firstBad (l : List Access) : Option Access := l.find? (fun a => !a.ok)

/-! ## the pieces of the verifier body -/

/-- basis.c `ec_curve_to_point_2f_*_from_hint`: `if (hint < thr) x = TABLE[hint]` (thr extracted from the C text) -/
def hintAcc (K : Lvl) (lo : Bool) (thr : Nat) (what : String) (h : Int) : List Access :=
  if (lo = true → 0 ≤ h) ∧ h < thr then [.index what h K.nqr] else []

/-- basis.c `ec_curve_to_basis_2f_from_hint(…, f, hint)` incl. `clear_cofactor_for_maximal_even_order` -/
def fromHint (K : Lvl) (tag : String) (fArg h0 h1 : Int) : List Access :=
  hintAcc K K.hintLoP K.hintThrP (tag ++ ":NQR_TABLE[hint[0]]") h0 ++ hintAcc K K.hintLoQ K.hintThrQ (tag ++ ":Z_NQR_TABLE[hint[1]]") h1 ++
  [.loop (tag ++ ":clear_cofactor doublings POWER_OF_2 - f") ((K.f : Int) - fArg) K.f]

/-- length stored in `ec_isog_even_t.length` (`unsigned short`) -/
def lenU16 (isogLen : Int) : Nat := (isogLen % 65536).toNat

/-- isog_chains.c `ec_eval_even(phi)` with `phi->length = (unsigned short) isogLen`: the naive chain when the guard of
    `ec_eval_even` holds, else `ec_eval_even_strategy` — index / size / loop quantities that do not need the traversal -/
def evalEven (K : Lvl) (tag : String) (isogLen : Int) : List Access :=
  let len := lenU16 isogLen
  [ .intval (tag ++ ":length (int expression, stored as unsigned short)") isogLen ] ++
  (if K.evenNaive len K.f K.rows4 then
    [ .loop (tag ++ ":ec_eval_small_chain steps (naive branch of ec_eval_even)") len K.f,
      .loop (tag ++ ":ec_eval_small_chain doublings len(len-1)/2") ((len * (len - 1) / 2 : Nat) : Int) (K.f * K.f) ]
   else
    let P := SqiModel.EvenChain.mkParams K.strat4 K.f len
    [ .vla (tag ++ ":SPLITTING_POINTS[log2_of_e], XDBLs[log2_of_e]") P.vla,
      .index (tag ++ ":STRATEGY4[TORSION_PLUS_EVEN_POWER - isog_len]") P.rowIdx K.rows4,
      .loop (tag ++ ":4-isogeny steps e_half") P.eHalf K.f ])

/-- the strategy traversal of `ec_eval_even_strategy`: the C-shaped loop model `SqiModel.EvenChain.evalEven` (engineer a3;
    halts with an error at the first out-of-bounds access of `SPLITTING_POINTS`, `XDBLs`, the row or an unset slot);
    in bounds for every admitted length by `SqiProps.C09.even_chain_of_rows` -/
def evalEvenTrav (K : Lvl) (tag : String) (isogLen : Int) : List Access :=
  let len := lenU16 isogLen
  if K.evenNaive len K.f K.rows4 then []
  else match (SqiModel.EvenChain.evalEven K.strat4 K.f len).err with
    | none => []
    | some _ => [.bad (tag ++ ":ec_eval_even_strategy traversal faults (SqiModel.EvenChain)")]

/-- ec.c `ec_dbl_iter(n)` -/
def dblIter (K : Lvl) (tag : String) (n : Int) : List Access := [.loop (tag ++ ":ec_dbl_iter") n K.f]

/-- id2iso.c `matrix_application_even_basis(…, mat, f)`: entries are reduced modulo 2^f before
    `ibz_to_digit_array(scalars[i] /* NWORDS_FIELD */, …)` -/
def matApp (K : Lvl) (tag : String) (fArg : Int) : List Access :=
  [ .intval (tag ++ ":f") fArg,
    .expo (tag ++ ":ibz_pow(2, f)") fArg (K.radix * K.nwField),
    .digits (tag ++ ":scalars[NWORDS_FIELD] <- entry mod 2^f") ((fArg.toNat + 63) / 64) K.nwField ]

/-- theta_isogenies.c `theta_chain_comput_strategy_faster_no_eval(n, strategies[rowIdx], eight_above)`: sizes and the
    row index (what does not need the traversal) -/
def thetaChain (K : Lvl) (tag : String) (n rowIdx : Int) (adj : Nat) : List Access :=
  [ .intval (tag ++ ":n") n,
    .vla (tag ++ ":steps[n-1] / malloc((n-1)*sizeof)") (n - 1),
    .vla (tag ++ ":points1[n], points2[n], Q1[n], Q2[n], level[n]") n,
    .index (tag ++ ":strategies[row]") rowIdx K.rows2,
    .index (tag ++ ":out->steps[n-2]") (n - 2) (n - 1).toNat,
    .loop (tag ++ ":(2,2)-isogeny steps n") n K.f ] ++
  (if adj = 2 then [.index (tag ++ ":out->steps[n-4]") (n - 4) (n - 1).toNat] else [])

/-- the strategy traversal of the chain: the C-shaped loop model `SqiModel.ThetaChain.chain` (engineer a3; halts with an
    error at the first out-of-bounds access of `points1/2`, `Q1/2`, `level`, `steps`, the row, or an unset slot);
    in bounds for every admitted length and both modes by `SqiProps.C12.chain_strategy_sound` + C18 -/
def thetaChainTrav (K : Lvl) (tag : String) (n rowIdx : Int) (adj : Nat) : List Access :=
  if 0 ≤ rowIdx ∧ rowIdx < K.rows2 ∧ 2 ≤ n then
    match (SqiModel.ThetaChain.chain { row := K.strat2.getD rowIdx.toNat [], n := n.toNat, eightAbove := decide (adj = 0) }).err with
    | none => []
    | some _ => [.bad (tag ++ ":theta chain traversal faults (SqiModel.ThetaChain)")]
  else []

/-- ec.c `ec_ladder3pt`: `NWORDS_FIELD * 64` ladder steps (constant) -/
def ladder3pt (K : Lvl) : List Access :=
  [.loop "ec_ladder3pt steps 64*NWORDS_FIELD" ((64 * K.nwField : Nat) : Int) (K.f + 64)]

/-- ec.c `xDBLMUL_bounded`: recoding and main loop over `BITS = 64*NWORDS_FIELD` positions, 3 calls per matrix application -/
def dblmul3 (K : Lvl) (tag : String) : List Access :=
  [.loop (tag ++ ":3 x xDBLMUL_bounded main loop BITS") ((3 * (64 * K.nwField) : Nat) : Int) (3 * (K.f + 64))]

/-! ## sqisigndim2 `protocols_verif` body (src/sqisigndim2/ref/sqisigndim2x/sign.c) -/
def cheapDim2 (K : Lvl) (pk : RawPk) (s : RawSig) : List Access :=
  let isogLen : Int := (K.f : Int) - s.bt                 -- phi_chall.length
  let pow : Int := (K.respLen : Int) - s.trl              -- pow_dim2_deg_resp
  let fB : Int := pow + 2 + s.trl                         -- order of the canonical bases
  fromHint K "pk" K.f pk.hint0 pk.hint1 ++
  [ .digits "scal[NWORDS_ORDER] <- chall_coeff" (wordsWritten s.chall) K.nwOrder,
    .index "ec_ladder3pt reads m[NWORDS_FIELD-1] of scal[NWORDS_ORDER]" ((K.nwField : Int) - 1) K.nwOrder ] ++
  ladder3pt K ++
  dblIter K "backtracking" s.bt ++
  evalEven K "challenge" isogLen ++
  [ .intval "pow_dim2_deg_resp" pow, .intval "pow_dim2_deg_resp + 2" (pow + 2), .intval "pow_dim2_deg_resp+2+two_resp_length" fB ] ++
  fromHint K "chall" fB s.hc0 s.hc1 ++
  fromHint K "aux" fB s.ha0 s.ha1 ++
  dblIter K "B_aux_can x3 (two_resp_length)" s.trl ++
  matApp K "matrix_application" fB ++ dblmul3 K "matrix_application" ++
  (if s.trl > 0 then
     dblIter K "small chain kernel (pow_dim2_deg_resp+2)" (pow + 2) ++
     [ .loop "ec_eval_small_chain(len = two_resp_length) steps" s.trl K.f,
       .loop "ec_eval_small_chain doublings len(len-1)/2" ((s.trl.toNat * (s.trl.toNat - 1) / 2 : Nat) : Int) (K.f * K.f) ]
   else []) ++
  thetaChain K "chain" pow ((K.f : Int) - pow) 0

/-- the two strategy traversals (listed after the cheap quantities: the order of the list carries no meaning) -/
def travDim2 (K : Lvl) (_pk : RawPk) (s : RawSig) : List Access :=
  let pow : Int := (K.respLen : Int) - s.trl
  evalEvenTrav K "challenge" ((K.f : Int) - s.bt) ++ thetaChainTrav K "chain" pow ((K.f : Int) - pow) 0

def bodyDim2 (K : Lvl) (pk : RawPk) (s : RawSig) : List Access := cheapDim2 K pk s ++ travDim2 K pk s

/-! ## sqisigndim2_heuristic `protocols_verif` body -/
def cheapHeur (K : Lvl) (pk : RawPk) (s : RawSigH) : List Access :=
  let isogLen : Int := (K.heurChall : Int) + s.trl        -- phi_chall.length
  let pow : Int := (K.heurBound : Int) - s.trl            -- pow_dim2_deg_resp
  [ .intval "phi_chall.length" isogLen,
    .intval "TORSION - len_chall - two_resp_length" ((K.f : Int) - K.heurChall - s.trl),
    .expo "ibz_pow(2, TORSION - len_chall - two_resp_length)" ((K.f : Int) - K.heurChall - s.trl) K.f ] ++
  (if isogLen ≤ (K.f : Int) - isogLen then [.expo "ibz_pow(2, len_chall + two_resp_length)" isogLen K.f] else []) ++
  fromHint K "pk" K.f pk.hint0 pk.hint1 ++
  matApp K "matrix_application" K.f ++ dblmul3 K "matrix_application" ++
  [ .intval "pow_dim2_deg_resp" pow ] ++
  dblIter K "challenge kernel (TORSION - length)" ((K.f : Int) - isogLen) ++
  evalEven K "challenge" isogLen ++
  fromHint K "aux" K.f s.ha0 s.ha1 ++
  [ .intval "TORSION - pow_dim2_deg_resp" ((K.f : Int) - pow) ] ++
  dblIter K "B_aux_can x3 (TORSION - pow_dim2_deg_resp)" ((K.f : Int) - pow) ++
  [ .intval "TORSION - pow_dim2_deg_resp + 2" ((K.f : Int) - pow + 2) ] ++
  thetaChain K "chain" pow ((K.f : Int) - pow + 2) 2

def travHeur (K : Lvl) (_pk : RawPk) (s : RawSigH) : List Access :=
  let pow : Int := (K.heurBound : Int) - s.trl
  evalEvenTrav K "challenge" ((K.heurChall : Int) + s.trl) ++ thetaChainTrav K "chain" pow ((K.f : Int) - pow + 2) 2

def bodyHeur (K : Lvl) (pk : RawPk) (s : RawSigH) : List Access := cheapHeur K pk s ++ travHeur K pk s

/-- iterations of the modelled loops (for the total-work bound `verify_total_work_*`) -/
def Access.work : Access → Nat
  | .loop _ c _ => c.toNat
  | _ => 0
def totalWork (l : List Access) : Nat := (l.map Access.work).sum
/-- the bound a loop access is compared with -/
def Access.cap : Access → Nat
  | .loop _ _ m => m
  | _ => 0
def totalCap (l : List Access) : Nat := (l.map Access.cap).sum

/-- model of the whole function: the body runs only if the range guard lets the input through -/
def verifyAccessesDim2 (K : Lvl) (guard : Lvl → RawPk → RawSig → Bool) (pk : RawPk) (s : RawSig) : List Access :=
  if guard K pk s then bodyDim2 K pk s else []

def verifyAccessesHeur (K : Lvl) (guard : Lvl → RawPk → RawSigH → Bool) (pk : RawPk) (s : RawSigH) : List Access :=
  if guard K pk s then bodyHeur K pk s else []

/-! ## what an honest signer can emit (specification of the ranges; the C guard is compared with this) -/

def maxTrlDim2 (K : Lvl) : Int := (K.rows2 : Int) - ((K.f : Int) - K.respLen) - 1
def maxTrlHeur (K : Lvl) : Int := (K.rows2 : Int) - ((K.f : Int) - K.heurBound + 2) - 1

def pkInRange (pk : RawPk) : Bool :=
  pk.cIsOne && !pk.a24Flag && decide (0 ≤ pk.hint0) && decide (0 ≤ pk.hint1)

/-- `0 ≤ z < 2^bits`, stated through the bit length the C code tests (`ibz_bitsize`); see `inU_iff` in SqiProofs -/
def inU (z : Int) (bits : Int) : Bool := decide (0 ≤ z) && decide ((bitsize z : Int) ≤ bits)

def sigInRangeDim2 (K : Lvl) (pk : RawPk) (s : RawSig) : Bool :=
  pkInRange pk && s.cIsOne && !s.a24Flag &&
  decide (0 ≤ s.bt) && decide (s.bt < K.btBound) &&
  decide (0 ≤ s.trl) && decide (s.trl ≤ maxTrlDim2 K) &&
  decide (0 ≤ s.ha0) && decide (0 ≤ s.ha1) && decide (0 ≤ s.hc0) && decide (0 ≤ s.hc1) &&
  decide (0 ≤ s.challB) && decide (s.challB ≤ 1) &&
  inU s.chall (K.radix * K.nwOrder : Nat) &&
  inU s.m00 (K.respLen + 2 : Nat) && inU s.m01 (K.respLen + 2 : Nat) &&
  inU s.m10 (K.respLen + 2 : Nat) && inU s.m11 (K.respLen + 2 : Nat)

def sigInRangeHeur (K : Lvl) (pk : RawPk) (s : RawSigH) : Bool :=
  let a : Int := (K.heurChall : Int) + s.trl
  let n : Int := (K.f : Int) - a
  pkInRange pk && s.cIsOne && !s.a24Flag &&
  decide (0 ≤ s.trl) && decide (s.trl ≤ maxTrlHeur K) &&
  decide (0 ≤ s.ha0) && decide (0 ≤ s.ha1) &&
  decide (0 ≤ s.hintB) && decide (s.hintB ≤ 1) &&
  inU s.x a && inU s.b1 a && inU s.d1 a &&
  inU s.b0 n && inU s.d0 n && inU s.c0 n && inU s.e0 n

/-- the model of a verifier without any range validation (the pinned tree) -/
def noGuardDim2 : Lvl → RawPk → RawSig → Bool := fun _ _ _ => true
def noGuardHeur : Lvl → RawPk → RawSigH → Bool := fun _ _ _ => true

end SqiModel.Verify

/-
C03 — access model of the two verifiers (`protocols_verif` of sqisigndim2 and sqisigndim2_heuristic).

`bodyDim2 K pk sig` / `bodyHeur K pk sig` list every table index, VLA / malloc element count, digit-array
destination size, input-controlled loop bound, `ibz_pow` exponent and `int` expression of the verifier body
as a function of the *raw* public-key and signature fields (unbounded `Int`s: the C `int` semantics is
recovered through the `intval` accesses — if they are all in range the unbounded value is the C value).
`verifyAccesses… K guard pk sig` is the model of the whole function: the body runs only when the range
guard at the top of `protocols_verif` lets the input through.  The guard itself is *not* written here: it is
re-extracted from the C text on every run (tools/translate/verif_guard.py -> SqiGen/VerifGuard.lean); on a tree
without a guard the translator emits the constant `true`.

Core-only file (linked into the driver).  C anchors are given next to each access.
-/
import SqiModel.Strategy

namespace SqiModel.Verify

/-- level constants and tables the verifiers index (instances: SqiModel.VerifyLevels, from the generated tables) -/
structure Lvl where
  f : Nat            -- TORSION_PLUS_EVEN_POWER = POWER_OF_2
  respLen : Nat      -- SQIsign2D_response_length
  btBound : Nat      -- SQIsign2D_backtracking_bound
  heurBound : Nat    -- SQIsign2D_response_heuristic_bound
  heurChall : Nat    -- SQIsign2D_heuristic_challenge_length
  nwOrder : Nat      -- NWORDS_ORDER
  nwField : Nat      -- NWORDS_FIELD
  radix : Nat        -- RADIX (64 on the verified configuration)
  nqr : Nat          -- entries of NQR_TABLE / Z_NQR_TABLE
  hintThrP : Nat     -- `hint < hintThrP` ⇒ NQR_TABLE[hint] is read (basis.c, extracted: SqiGen.VerifConsts)
  hintThrQ : Nat     -- `hint < hintThrQ` ⇒ Z_NQR_TABLE[hint] is read
  hintLoP : Bool     -- the table branch is also guarded by `hint >= 0`
  hintLoQ : Bool
  cols4 : Nat        -- columns of STRATEGY4
  cols2 : Nat        -- columns of strategies
  strat4 : List (List Nat)   -- STRATEGY4 (rows)
  strat2 : List (List Nat)   -- strategies (rows)

def Lvl.rows4 (K : Lvl) : Nat := K.strat4.length
def Lvl.rows2 (K : Lvl) : Nat := K.strat2.length

/-- raw public key as handed to `protocols_verif` -/
structure RawPk where
  cIsOne : Bool      -- fp2_is_one(&pk->curve.C)
  a24Flag : Bool     -- pk->curve.is_A24_computed_and_normalized
  hint0 : Int
  hint1 : Int
deriving Repr, DecidableEq

/-- raw signature of sqisigndim2 -/
structure RawSig where
  cIsOne : Bool
  a24Flag : Bool
  bt : Int           -- backtracking
  trl : Int          -- two_resp_length
  m00 : Int
  m01 : Int
  m10 : Int
  m11 : Int
  chall : Int        -- chall_coeff
  challB : Int       -- chall_b
  ha0 : Int
  ha1 : Int
  hc0 : Int
  hc1 : Int
deriving Repr, DecidableEq

/-- raw signature of sqisigndim2_heuristic -/
structure RawSigH where
  cIsOne : Bool
  a24Flag : Bool
  trl : Int
  ha0 : Int
  ha1 : Int
  x : Int
  hintB : Int
  b0 : Int
  d0 : Int
  b1 : Int
  d1 : Int
  c0 : Int
  e0 : Int
deriving Repr, DecidableEq

/-- `mpz_sizeinbase(z, 2)` = `ibz_bitsize` -/
def bitsize (z : Int) : Nat := if z = 0 then 1 else Nat.log2 z.natAbs + 1
/-- number of 64-bit words `ibz_to_digits` writes (it writes `target[0] = 0` for zero) -/
def wordsWritten (z : Int) : Nat := if z = 0 then 1 else (bitsize z + 63) / 64

inductive Access where
  | index (what : String) (i : Int) (size : Nat)    -- element `i` of an array/table with `size` elements
  | vla (what : String) (n : Int)                   -- element count of a VLA / malloc'ed array (must be ≥ 1)
  | digits (what : String) (words cap : Nat)        -- `ibz_to_digits` writes `words` words into `cap`
  | loop (what : String) (count : Int) (max : Nat)  -- input-controlled iteration count (≤ max ⇒ terminates quickly)
  | intval (what : String) (v : Int)                -- value of an `int` expression (no signed overflow)
  | expo (what : String) (e : Int) (max : Nat)      -- exponent handed to `ibz_pow` (cast to unsigned long)
  | bad (what : String)                             -- the traversal simulation got stuck (would not terminate)
deriving Repr

def Access.ok : Access → Bool
  | .index _ i size => decide (0 ≤ i) && decide (i < size)
  | .vla _ n => decide (1 ≤ n)
  | .digits _ w cap => decide (w ≤ cap)
  | .loop _ c max => decide (c ≤ max)
  | .intval _ v => decide (-(2 : Int) ^ 31 ≤ v) && decide (v < (2 : Int) ^ 31)
  | .expo _ e max => decide (0 ≤ e) && decide (e ≤ max)
  | .bad _ => false

def Access.what : Access → String
  | .index w _ _ | .vla w _ | .digits w _ _ | .loop w _ _ | .intval w _ | .expo w _ _ | .bad w => w

def allOk (l : List Access) : Bool := l.all Access.ok
def firstBad (l : List Access) : Option Access := l.find? (fun a => !a.ok)

/-! ## strategy traversals (simulation of the index bookkeeping of the two chain routines) -/

/-- isog_chains.c `ec_eval_even_strategy`: returns (final `current`, max `current`, max `strategy` index read) or none
    if the loop would get stuck / underflow. `eHalf` = number of 4-isogeny steps. The array `XDBLs[current]` is
    modelled as a stack (`current` = its length: the code only touches `XDBLs[current]` right after `current += 1`
    and right before `current -= 1`), `BLOCK` as the running sum. All counters are compared at every step, so the
    kernel evaluates them eagerly. -/
def sim4Inner (target : Nat) : Nat → Nat → Nat → List Nat → List Nat → Nat → Nat →
    Option (Nat × Nat × List Nat × List Nat × Nat × Nat)
  | 0, _, _, _, _, _, _ => none
  | fuel + 1, block, strategy, rest, stack, maxC, maxS =>
    if block = target then some (block, strategy, rest, stack, maxC, maxS)
    else
      match rest with                                -- `rest` = the row from column `strategy` on
      | [] => none                                   -- reading past the row
      | s :: rest' =>
        let cur := stack.length + 1
        sim4Inner target fuel (block + s) (strategy + 1) rest' (s :: stack)
          (if maxC < cur then cur else maxC) (if maxS < strategy then strategy else maxS)

def sim4Outer (eHalf : Nat) : Nat → Nat → Nat → Nat → List Nat → List Nat → Nat → Nat →
    Option (Nat × Nat × Nat)
  | 0, _, _, _, _, _, _, _ => none
  | fuel + 1, j, block, strategy, rest, stack, maxC, maxS =>
    if j + 1 ≥ eHalf then some (stack.length, maxC, maxS)
    else
      match sim4Inner (eHalf - 1 - j) (eHalf + 2) block strategy rest stack maxC maxS with
      | none => none
      | some (block', strategy', rest', stack', maxC', maxS') =>
        match stack' with
        | [] => none                                 -- `current -= 1` below zero
        | d :: below =>
          if block' < d then none                    -- BLOCK underflow
          else sim4Outer eHalf fuel (j + 1) (block' - d) strategy' rest' below maxC' maxS'

/-- (final `current`, max `current`, max strategy column) of the traversal for `eHalf` steps -/
def sim4 (row : List Nat) (eHalf : Nat) (_slots : Nat) : Option (Nat × Nat × Nat) :=
  sim4Outer eHalf (eHalf + 2) 0 0 0 row [] 0 0

/-- theta_isogenies.c `theta_chain_comput_strategy_faster_no_eval`: (max list length needed, max strategy index
    read) or none when stuck. `m = n - 1 - adjusting`. `level[0..len_list)` is modelled as a stack (last element on
    top) together with its running sum (`len_count` is recomputed as that sum at every step of the C loop). -/
def sim2First (row : List Nat) (m bound : Nat) : Nat → Nat → Nat → Nat × Nat
  | 0, lenCount, index => (lenCount, index)
  | fuel + 1, lenCount, index =>
    if lenCount ≠ m ∧ index < bound then sim2First row m bound fuel (lenCount + row.getD index 0) (index + 1)
    else (lenCount, index)

def sim2Inner (target : Nat) : Nat → Nat → Nat → List Nat → List Nat → Nat → Nat →
    Option (Nat × Nat × List Nat × List Nat × Nat × Nat)
  | 0, _, _, _, _, _, _ => none
  | fuel + 1, lenCount, index, rest, stack, maxL, maxI =>
    if lenCount = target then some (lenCount, index, rest, stack, maxL, maxI)
    else
      match rest with                                -- `rest` = the row from column `index` on
      | [] => none
      | s :: rest' =>
        let len := stack.length + 1
        sim2Inner target fuel (lenCount + s) (index + 1) rest' (s :: stack)
          (if maxL < len then len else maxL) (if maxI < index then index else maxI)

def sim2Outer (n adj : Nat) : Nat → Nat → Nat → Nat → List Nat → List Nat → Nat → Nat → Option (Nat × Nat)
  | 0, _, _, _, _, _, _, _ => none
  | fuel + 1, i, sum, index, rest, stack, maxL, maxI =>
    if i + 1 + adj ≥ n then some (maxL, maxI)
    else
      if n < i + 2 + adj then none else
      match sim2Inner (n - i - 2 - adj) (n + 2) sum index rest stack maxL maxI with
      | none => none
      | some (sum', index', rest', stack', maxL', maxI') =>
        match stack' with
        | [] => none                                 -- `len_list--` below zero
        | d :: below => if sum' < d then none else sim2Outer n adj fuel (i + 1) (sum' - d) index' rest' below maxL' maxI'

/-- (number of array slots the traversal needs, max strategy column read) for a chain of length `n` -/
def sim2 (row : List Nat) (n adj : Nat) : Option (Nat × Nat) :=
  if n < 1 + adj then none else
  let (lenCount, index) := sim2First row (n - 1 - adj) (n + 10) (n + 10) 0 0
  if lenCount ≠ n - 1 - adj then none else
  let lenList := index + 1
  -- level[0] = 0, level[i] = strategy[i-1] for i < len_list; after the gluing `len_list--` drops the last one
  let stack := ((row.take index).dropLast).reverse ++ [0]
  let sum := stack.foldl (· + ·) 0
  sim2Outer n adj (n + 2) 0 sum index (row.drop index) stack lenList (if index = 0 then 0 else index - 1)

/-! ## the pieces of the verifier body -/

/-- basis.c `ec_curve_to_point_2f_*_from_hint`: `if (hint < thr) x = TABLE[hint]` (thr extracted from the C text) -/
def hintAcc (K : Lvl) (lo : Bool) (thr : Nat) (what : String) (h : Int) : List Access :=
  if (lo = true → 0 ≤ h) ∧ h < thr then [.index what h K.nqr] else []

/-- basis.c `ec_curve_to_basis_2f_from_hint(…, f, hint)` incl. `clear_cofactor_for_maximal_even_order` -/
def fromHint (K : Lvl) (tag : String) (fArg h0 h1 : Int) : List Access :=
  hintAcc K K.hintLoP K.hintThrP (tag ++ ":NQR_TABLE[hint[0]]") h0 ++ hintAcc K K.hintLoQ K.hintThrQ (tag ++ ":Z_NQR_TABLE[hint[1]]") h1 ++
  [.loop (tag ++ ":clear_cofactor doublings POWER_OF_2 - f") ((K.f : Int) - fArg) K.f]

/-- isog_chains.c `ec_eval_even` → `ec_eval_even_strategy(isog_len)` -/
def evalEven (K : Lvl) (tag : String) (isogLen : Int) : List Access :=
  let eHalf : Nat := ((isogLen / 2) % (2 : Int) ^ 64).toNat      -- digit_t e_half = isog_len >> 1
  let tmp := eHalf % 256                                           -- uint8_t tmp = e_half
  let log2e := 2 * (if tmp = 0 then 0 else Nat.log2 tmp + 1)      -- log2_of_e *= 2
  let rowIdx : Int := (K.f : Int) - isogLen                        -- STRATEGY4[TORSION_PLUS_EVEN_POWER - isog_len]
  [ .intval (tag ++ ":isog_len") isogLen,
    .vla (tag ++ ":SPLITTING_POINTS[log2_of_e]") log2e,
    .index (tag ++ ":STRATEGY4[row]") rowIdx K.rows4,
    .loop (tag ++ ":4-isogeny steps e_half-1 (unsigned)") (if eHalf = 0 then (2 : Int) ^ 64 - 1 else (eHalf : Int) - 1) K.f ] ++
  (if 0 ≤ rowIdx ∧ rowIdx < K.rows4 ∧ 1 ≤ eHalf ∧ eHalf ≤ K.f then
    match sim4 (K.strat4.getD rowIdx.toNat []) eHalf log2e with
    | none => [.bad (tag ++ ":STRATEGY4 traversal stuck")]
    | some (cur, maxC, maxS) =>
      [ .index (tag ++ ":SPLITTING_POINTS[current]") (max maxC (if isogLen % 2 = 1 then 1 else cur)) log2e,
        .index (tag ++ ":STRATEGY4[row][strategy]") maxS K.cols4 ]
   else [])

/-- ec.c `ec_dbl_iter(n)` -/
def dblIter (K : Lvl) (tag : String) (n : Int) : List Access := [.loop (tag ++ ":ec_dbl_iter") n K.f]

/-- id2iso.c `matrix_application_even_basis(…, mat, f)`: entries are reduced modulo 2^f before
    `ibz_to_digit_array(scalars[i] /* NWORDS_FIELD */, …)` -/
def matApp (K : Lvl) (tag : String) (fArg : Int) : List Access :=
  [ .intval (tag ++ ":f") fArg,
    .expo (tag ++ ":ibz_pow(2, f)") fArg (K.radix * K.nwField),
    .digits (tag ++ ":scalars[NWORDS_FIELD] <- entry mod 2^f") ((fArg.toNat + 63) / 64) K.nwField ]

/-- theta_isogenies.c `theta_chain_comput_strategy_faster_no_eval(n, strategies[rowIdx], eight_above)` -/
def thetaChain (K : Lvl) (tag : String) (n rowIdx : Int) (adj : Nat) : List Access :=
  [ .intval (tag ++ ":n") n,
    .vla (tag ++ ":steps[n-1] / malloc((n-1)*sizeof)") (n - 1),
    .vla (tag ++ ":points1[n], points2[n], Q1[n], Q2[n], level[n]") n,
    .index (tag ++ ":strategies[row]") rowIdx K.rows2,
    .index (tag ++ ":out->steps[n-2]") (n - 2) (n - 1).toNat ] ++
  (if adj = 2 then [.index (tag ++ ":out->steps[n-4]") (n - 4) (n - 1).toNat] else []) ++
  (if 0 ≤ rowIdx ∧ rowIdx < K.rows2 ∧ 2 ≤ n ∧ n ≤ K.f then
    match sim2 (K.strat2.getD rowIdx.toNat []) n.toNat adj with
    | none => [.bad (tag ++ ":strategies traversal stuck")]
    | some (slots, maxI) =>
      [ .index (tag ++ ":points1/Q1/level[len_list]") ((slots : Int) - 1) n.toNat,
        .index (tag ++ ":strategy[index]") maxI K.cols2 ]
   else [])

/-! ## sqisigndim2 `protocols_verif` body (src/sqisigndim2/ref/sqisigndim2x/sign.c) -/
def bodyDim2 (K : Lvl) (pk : RawPk) (s : RawSig) : List Access :=
  let isogLen : Int := (K.f : Int) - s.bt                 -- phi_chall.length
  let pow : Int := (K.respLen : Int) - s.trl              -- pow_dim2_deg_resp
  let fB : Int := pow + 2 + s.trl                         -- order of the canonical bases
  fromHint K "pk" K.f pk.hint0 pk.hint1 ++
  [ .digits "scal[NWORDS_ORDER] <- chall_coeff" (wordsWritten s.chall) K.nwOrder,
    .index "ec_ladder3pt reads m[NWORDS_FIELD-1] of scal[NWORDS_ORDER]" ((K.nwField : Int) - 1) K.nwOrder ] ++
  dblIter K "backtracking" s.bt ++
  evalEven K "challenge" isogLen ++
  [ .intval "pow_dim2_deg_resp" pow, .intval "pow_dim2_deg_resp + 2" (pow + 2), .intval "pow_dim2_deg_resp+2+two_resp_length" fB ] ++
  fromHint K "chall" fB s.hc0 s.hc1 ++
  fromHint K "aux" fB s.ha0 s.ha1 ++
  dblIter K "B_aux_can x3 (two_resp_length)" s.trl ++
  matApp K "matrix_application" fB ++
  (if s.trl > 0 then
     dblIter K "small chain kernel (pow_dim2_deg_resp+2)" (pow + 2) ++
     [.loop "ec_eval_small_chain(len = two_resp_length)" s.trl K.f]
   else []) ++
  thetaChain K "chain" pow ((K.f : Int) - pow) 0

/-! ## sqisigndim2_heuristic `protocols_verif` body -/
def bodyHeur (K : Lvl) (pk : RawPk) (s : RawSigH) : List Access :=
  let isogLen : Int := (K.heurChall : Int) + s.trl        -- phi_chall.length
  let pow : Int := (K.heurBound : Int) - s.trl            -- pow_dim2_deg_resp
  [ .intval "phi_chall.length" isogLen,
    .intval "TORSION - len_chall - two_resp_length" ((K.f : Int) - K.heurChall - s.trl),
    .expo "ibz_pow(2, TORSION - len_chall - two_resp_length)" ((K.f : Int) - K.heurChall - s.trl) K.f ] ++
  (if isogLen ≤ (K.f : Int) - isogLen then [.expo "ibz_pow(2, len_chall + two_resp_length)" isogLen K.f] else []) ++
  fromHint K "pk" K.f pk.hint0 pk.hint1 ++
  matApp K "matrix_application" K.f ++
  [ .intval "pow_dim2_deg_resp" pow ] ++
  dblIter K "challenge kernel (TORSION - length)" ((K.f : Int) - isogLen) ++
  evalEven K "challenge" isogLen ++
  fromHint K "aux" K.f s.ha0 s.ha1 ++
  [ .intval "TORSION - pow_dim2_deg_resp" ((K.f : Int) - pow) ] ++
  dblIter K "B_aux_can x3 (TORSION - pow_dim2_deg_resp)" ((K.f : Int) - pow) ++
  [ .intval "TORSION - pow_dim2_deg_resp + 2" ((K.f : Int) - pow + 2) ] ++
  thetaChain K "chain" pow ((K.f : Int) - pow + 2) 2

/-- model of the whole function: the body runs only if the range guard lets the input through -/
def verifyAccessesDim2 (K : Lvl) (guard : Lvl → RawPk → RawSig → Bool) (pk : RawPk) (s : RawSig) : List Access :=
  if guard K pk s then bodyDim2 K pk s else []

def verifyAccessesHeur (K : Lvl) (guard : Lvl → RawPk → RawSigH → Bool) (pk : RawPk) (s : RawSigH) : List Access :=
  if guard K pk s then bodyHeur K pk s else []

/-! ## what an honest signer can emit (specification of the ranges; the C guard is compared with this) -/

def maxTrlDim2 (K : Lvl) : Int := (K.rows2 : Int) - ((K.f : Int) - K.respLen) - 1
def maxTrlHeur (K : Lvl) : Int := (K.rows2 : Int) - ((K.f : Int) - K.heurBound + 2) - 1

def pkInRange (pk : RawPk) : Bool :=
  pk.cIsOne && !pk.a24Flag && decide (0 ≤ pk.hint0) && decide (0 ≤ pk.hint1)

/-- `0 ≤ z < 2^bits`, stated through the bit length the C code tests (`ibz_bitsize`); see `inU_iff` in SqiProofs -/
def inU (z : Int) (bits : Int) : Bool := decide (0 ≤ z) && decide ((bitsize z : Int) ≤ bits)

def sigInRangeDim2 (K : Lvl) (pk : RawPk) (s : RawSig) : Bool :=
  pkInRange pk && s.cIsOne && !s.a24Flag &&
  decide (0 ≤ s.bt) && decide (s.bt < K.btBound) &&
  decide (0 ≤ s.trl) && decide (s.trl ≤ maxTrlDim2 K) &&
  decide (0 ≤ s.ha0) && decide (0 ≤ s.ha1) && decide (0 ≤ s.hc0) && decide (0 ≤ s.hc1) &&
  decide (0 ≤ s.challB) && decide (s.challB ≤ 1) &&
  inU s.chall (K.radix * K.nwOrder : Nat) &&
  inU s.m00 (K.respLen + 2 : Nat) && inU s.m01 (K.respLen + 2 : Nat) &&
  inU s.m10 (K.respLen + 2 : Nat) && inU s.m11 (K.respLen + 2 : Nat)

def sigInRangeHeur (K : Lvl) (pk : RawPk) (s : RawSigH) : Bool :=
  let a : Int := (K.heurChall : Int) + s.trl
  let n : Int := (K.f : Int) - a
  pkInRange pk && s.cIsOne && !s.a24Flag &&
  decide (0 ≤ s.trl) && decide (s.trl ≤ maxTrlHeur K) &&
  decide (0 ≤ s.ha0) && decide (0 ≤ s.ha1) &&
  decide (0 ≤ s.hintB) && decide (s.hintB ≤ 1) &&
  inU s.x a && inU s.b1 a && inU s.d1 a &&
  inU s.b0 n && inU s.d0 n && inU s.c0 n && inU s.e0 n

/-- the model of a verifier without any range validation (the pinned tree) -/
def noGuardDim2 : Lvl → RawPk → RawSig → Bool := fun _ _ _ => true
def noGuardHeur : Lvl → RawPk → RawSigH → Bool := fun _ _ _ => true

end SqiModel.Verify

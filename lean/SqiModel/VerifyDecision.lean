/-
C02 — decision model of the two verifiers: what `protocols_verif` returns as a function of the raw signature /
public-key fields and of the values its curve and isogeny arithmetic produces (the *oracle* record: these are the
values hook H4 taps from the running C code, so the model can be run against the implementation on every probe).

`checks = true`  : the code with the kernel-order checks and the "chain failed ⇒ reject" test (repaired tree);
`checks = false` : the pinned code (no such checks; the chain's result is used whatever happened).
The range guard is a parameter (generated from the C text, SqiGen.VerifGuard).
Core-only (linked into the driver).
-/
import SqiModel.VerifyAccess

namespace SqiModel.Verify

/-- values computed by the arithmetic layers for one run of the sqisigndim2 verifier -/
structure OracleDim2 where
  kerOk : Bool     -- small two-isogeny chain kernel has order exactly 2^two_resp_length (consulted iff two_resp_length > 0)
  t1p1 : Bool      -- T1.P1 has order exactly 2^(n+2) on E_chall_2
  t2p1 : Bool
  t12p1 : Bool     -- (T1 - T2).P1
  t1p2 : Bool      -- T1.P2 has order exactly 2^(n+2) on E_aux
  t2p2 : Bool
  t12p2 : Bool
  split : Bool     -- the (2,2)-chain ended on a product of elliptic curves
  h : Int          -- hash_to_challenge(E_com, pk, m): check_vec_chall = (1, h), 0 ≤ h
deriving Repr

def OracleDim2.ordAll (o : OracleDim2) : Bool := o.t1p1 && o.t2p1 && o.t12p1 && o.t1p2 && o.t2p2 && o.t12p2

/-- final comparison of sqisigndim2: `chall_b ? chall*h == 1 : chall*1 == h` -/
def challEqDim2 (s : RawSig) (h : Int) : Bool :=
  if s.challB ≠ 0 then decide (s.chall * h = 1) else decide (s.chall * 1 = h)

def verifyDim2 (guard : Lvl → RawPk → RawSig → Bool) (checks : Bool) (K : Lvl) (pk : RawPk) (s : RawSig)
    (o : OracleDim2) : Bool :=
  guard K pk s &&
  (!checks || ((decide (s.trl ≤ 0) || o.kerOk) && o.ordAll && o.split)) &&
  challEqDim2 s o.h

/-- the same decision with an explicit mask of which of the six kernel-order tests are performed (T1.P1, T2.P1, T1m2.P1,
    T1.P2, T2.P2, T1m2.P2) — used to state what a verifier lacking one test would accept -/
structure OrderMask where
  t1p1 : Bool
  t2p1 : Bool
  t12p1 : Bool
  t1p2 : Bool
  t2p2 : Bool
  t12p2 : Bool

def OrderMask.all : OrderMask := ⟨true, true, true, true, true, true⟩

def verifyDim2Masked (guard : Lvl → RawPk → RawSig → Bool) (mk : OrderMask) (K : Lvl) (pk : RawPk) (s : RawSig)
    (o : OracleDim2) : Bool :=
  guard K pk s && (decide (s.trl ≤ 0) || o.kerOk) &&
  (!mk.t1p1 || o.t1p1) && (!mk.t2p1 || o.t2p1) && (!mk.t12p1 || o.t12p1) &&
  (!mk.t1p2 || o.t1p2) && (!mk.t2p2 || o.t2p2) && (!mk.t12p2 || o.t12p2) &&
  o.split && challEqDim2 s o.h

/-- stage at which the C function returns (observable through the taps): 0 guard, 1 small-chain kernel order,
    2 kernel point orders, 3 chain did not split, 4 final comparison -/
def stageDim2 (guard : Lvl → RawPk → RawSig → Bool) (checks : Bool) (K : Lvl) (pk : RawPk) (s : RawSig)
    (o : OracleDim2) : Nat :=
  if !guard K pk s then 0
  else if checks && !(decide (s.trl ≤ 0) || o.kerOk) then 1
  else if checks && !o.ordAll then 2
  else if checks && !o.split then 3
  else 4

/-- heuristic variant: orders are 2^n (no points above), two candidate codomains, comparison modulo 2^len_chall -/
structure OracleHeur where
  kerOk : Bool     -- challenge kernel has order exactly 2^(len_chall + two_resp_length)
  t1p1 : Bool
  t2p1 : Bool
  t12p1 : Bool
  t1p2 : Bool
  t2p2 : Bool
  t12p2 : Bool
  split : Bool
  h : Int          -- hash with E_com = second factor of the codomain
  h2 : Int         -- hash with E_com = first factor (only computed when the first comparison fails)
deriving Repr

def OracleHeur.ordAll (o : OracleHeur) : Bool := o.t1p1 && o.t2p1 && o.t12p1 && o.t1p2 && o.t2p2 && o.t12p2

/-- first comparison: `hint_b ? (x*h) mod 2^len == 1 mod 2^len : x mod 2^len == h mod 2^len` -/
def challEqHeur1 (K : Lvl) (s : RawSigH) (h : Int) : Bool :=
  let m : Int := (2 : Int) ^ K.heurChall
  if s.hintB ≠ 0 then decide ((s.x * h) % m = 1 % m) else decide ((s.x * 1) % m = h % m)

/-- second comparison (other codomain): the C code reuses the already reduced / multiplied left-hand side -/
def challEqHeur2 (K : Lvl) (s : RawSigH) (h h2 : Int) : Bool :=
  let m : Int := (2 : Int) ^ K.heurChall
  if s.hintB ≠ 0 then decide ((((s.x * h) % m) * h2) % m = 1 % m) else decide ((((s.x * 1) % m) * 1) % m = h2 % m)

def verifyHeur (guard : Lvl → RawPk → RawSigH → Bool) (checks : Bool) (K : Lvl) (pk : RawPk) (s : RawSigH)
    (o : OracleHeur) : Bool :=
  guard K pk s &&
  (!checks || (o.kerOk && o.ordAll && o.split)) &&
  (challEqHeur1 K s o.h || challEqHeur2 K s o.h o.h2)

def stageHeur (guard : Lvl → RawPk → RawSigH → Bool) (checks : Bool) (K : Lvl) (pk : RawPk) (s : RawSigH)
    (o : OracleHeur) : Nat :=
  if !guard K pk s then 0
  else if checks && !o.kerOk then 1
  else if checks && !o.ordAll then 2
  else if checks && !o.split then 3
  else 4

/-- model of the NIST-style entry points of src/sqisign.c: the value they return (0 = success), independent of
    every argument. `failClosed = false` is the pinned tree (`int ret = 0; … return ret;`). -/
def nistApiReturn (failClosed : Bool) : Int := if failClosed then -1 else 0

end SqiModel.Verify

/- level parameters of the verifier models, taken from the tables regenerated from the C headers on every run -/
import SqiModel.VerifyAccess
import SqiGen.Tables1
import SqiGen.Tables3
import SqiGen.Tables5
import SqiGen.VerifConsts
import SqiGen.EvenGuard

namespace SqiModel.Verify

def L1 : Lvl where
  f := SqiGen.L1.W64.TORSION_PLUS_EVEN_POWER
  respLen := SqiGen.L1.D_SQIsign2D_response_length
  btBound := SqiGen.L1.D_SQIsign2D_backtracking_bound
  heurBound := SqiGen.L1.D_SQIsign2D_response_heuristic_bound
  heurChall := SqiGen.L1.D_SQIsign2D_heuristic_challenge_length
  nwOrder := SqiGen.L1.D_NWORDS_ORDER
  nwField := SqiGen.L1.D_NWORDS_FIELD
  radix := 64   -- tutil.h RADIX under -DRADIX_64 (the configuration every check builds)
  nqr := SqiGen.L1.W64.NQR_TABLE.length
  hintThrP := SqiGen.VerifConsts.hintThrNotAbove
  hintThrQ := SqiGen.VerifConsts.hintThrAbove
  hintLoP := SqiGen.VerifConsts.hintLoNotAbove
  hintLoQ := SqiGen.VerifConsts.hintLoAbove
  cols4 := SqiGen.L1.STRATEGY4_cols
  cols2 := SqiGen.L1.strategies_cols
  evenNaive := SqiGen.EvenGuard.naive
  strat4 := SqiGen.L1.STRATEGY4
  strat2 := SqiGen.L1.strategies

def L3 : Lvl where
  f := SqiGen.L3.W64.TORSION_PLUS_EVEN_POWER
  respLen := SqiGen.L3.D_SQIsign2D_response_length
  btBound := SqiGen.L3.D_SQIsign2D_backtracking_bound
  heurBound := SqiGen.L3.D_SQIsign2D_response_heuristic_bound
  heurChall := SqiGen.L3.D_SQIsign2D_heuristic_challenge_length
  nwOrder := SqiGen.L3.D_NWORDS_ORDER
  nwField := SqiGen.L3.D_NWORDS_FIELD
  radix := 64
  nqr := SqiGen.L3.W64.NQR_TABLE.length
  hintThrP := SqiGen.VerifConsts.hintThrNotAbove
  hintThrQ := SqiGen.VerifConsts.hintThrAbove
  hintLoP := SqiGen.VerifConsts.hintLoNotAbove
  hintLoQ := SqiGen.VerifConsts.hintLoAbove
  cols4 := SqiGen.L3.STRATEGY4_cols
  cols2 := SqiGen.L3.strategies_cols
  evenNaive := SqiGen.EvenGuard.naive
  strat4 := SqiGen.L3.STRATEGY4
  strat2 := SqiGen.L3.strategies

def L5 : Lvl where
  f := SqiGen.L5.W64.TORSION_PLUS_EVEN_POWER
  respLen := SqiGen.L5.D_SQIsign2D_response_length
  btBound := SqiGen.L5.D_SQIsign2D_backtracking_bound
  heurBound := SqiGen.L5.D_SQIsign2D_response_heuristic_bound
  heurChall := SqiGen.L5.D_SQIsign2D_heuristic_challenge_length
  nwOrder := SqiGen.L5.D_NWORDS_ORDER
  nwField := SqiGen.L5.D_NWORDS_FIELD
  radix := 64
  nqr := SqiGen.L5.W64.NQR_TABLE.length
  hintThrP := SqiGen.VerifConsts.hintThrNotAbove
  hintThrQ := SqiGen.VerifConsts.hintThrAbove
  hintLoP := SqiGen.VerifConsts.hintLoNotAbove
  hintLoQ := SqiGen.VerifConsts.hintLoAbove
  cols4 := SqiGen.L5.STRATEGY4_cols
  cols2 := SqiGen.L5.strategies_cols
  evenNaive := SqiGen.EvenGuard.naive
  strat4 := SqiGen.L5.STRATEGY4
  strat2 := SqiGen.L5.strategies

def lvlOf : Nat → Option Lvl
  | 1 => some L1 | 3 => some L3 | 5 => some L5 | _ => none

end SqiModel.Verify

/-
C20 (AES): the generated bitsliced primitives of aes_c.c equal the FIPS 197 transformations on every input.
Part 1: representation lemmas and the S-box circuit (Boyar–Peralta) = SubBytes, per lane by `decide` over the 256
byte values (finite table), lifted to all 64 lanes by `laneRun_sound`.
-/
import SqiProofs.Bitslice
import SqiModel.AesCt
import SqiModel.Aes
import SqiProofs.AesSpec

namespace SqiProofs.AesCt
open SqiModel SqiModel.Bitslice SqiModel.AesCt SqiProofs.Bitslice

/-! ### bytes and their bits -/
set_option maxRecDepth 100000 in
theorem byteBits_ofBits : ∀ b0 b1 b2 b3 b4 b5 b6 b7 : Bool,
    byteBits (ofBits [b0, b1, b2, b3, b4, b5, b6, b7]) = [b0, b1, b2, b3, b4, b5, b6, b7] := by decide +kernel

set_option maxRecDepth 100000 in
theorem ofBits_byteBits_nat : ∀ n, n < 256 → ofBits (byteBits (UInt8.ofNat n)) = UInt8.ofNat n := by decide +kernel

theorem ofBits_byteBits (x : UInt8) : ofBits (byteBits x) = x := by
  have := ofBits_byteBits_nat x.toNat x.toNat_lt
  simpa using this

theorem range8_map {α : Type} (f : Nat → α) : (List.range 8).map f = [f 0, f 1, f 2, f 3, f 4, f 5, f 6, f 7] := rfl

theorem byteBits_unsliceByte (q : List UInt64) (i blk : Nat) :
    byteBits (unsliceByte q i blk) = (List.range 8).map fun b => bitsOf q b (pos i blk) := by
  unfold unsliceByte
  rw [range8_map, byteBits_ofBits]

theorem byteBits_inj (x y : UInt8) (h : byteBits x = byteBits y) : x = y := by
  rw [← ofBits_byteBits x, ← ofBits_byteBits y, h]

theorem pos_lt (i blk : Nat) (hi : i < 16) (hb : blk < 4) : pos i blk < 64 := by
  unfold pos; omega

theorem row_take8 (e : List UInt64) (he : 8 ≤ e.length) (p : Nat) :
    (List.range 8).map (fun b => bitsOf e b p) = (bitRow e p).take 8 := by
  apply List.ext_getElem
  · simp [bitRow]; omega
  · intro n h1 h2
    simp only [List.length_map, List.length_range] at h1
    simp [bitRow, bitsOf, List.getD_eq_getElem?_getD, show n < e.length by omega]

theorem bitsOf_take (e : List UInt64) (n b p : Nat) (hb : b < n) : bitsOf (e.take n) b p = bitsOf e b p := by
  simp [bitsOf, List.getD_eq_getElem?_getD, List.getElem?_take, hb]

theorem unsliceByte_take (e : List UInt64) (i blk : Nat) : unsliceByte (e.take 8) i blk = unsliceByte e i blk := by
  unfold unsliceByte
  congr 1
  apply List.map_congr_left
  intro b hb
  exact bitsOf_take e 8 b _ (List.mem_range.mp hb)

theorem bitRow_append_zeros (q : List UInt64) (n p : Nat) :
    bitRow (q ++ List.replicate n 0) p = bitRow q p ++ List.replicate n false := by
  simp [bitRow]

/-! ### the S-box circuit -/
theorem byteBits_ofNat (n : Nat) : byteBits (UInt8.ofNat n) = (List.range 8).map fun k => n.testBit k := by
  unfold byteBits
  apply List.map_congr_left
  intro k hk
  have hk' : k < 8 := List.mem_range.mp hk
  rw [UInt8.toBitVec_ofNat', BitVec.getLsbD_ofNat]
  simp [hk']

/-- truth table of a predicate on bytes: lane n (< 256) holds `f n` -/
def tt (f : Nat → Bool) : Nat := (List.range 256).foldl (fun acc n => if f n then acc + 2 ^ n else acc) 0
/-- all 256 input bytes at once: lane n of register b holds bit b of n; locals zero -/
def sboxIn : List Nat :=
  (List.range 8).map (fun b => tt fun n => n.testBit b) ++ List.replicate (SqiGen.Aes.sbox_nreg - 8) 0
def sboxOut : List Nat := (natRun 256 SqiGen.Aes.sbox_prog sboxIn).getD []

set_option maxRecDepth 100000 in
/-- kernel evaluation (Nat bit operations on 256-bit truth tables): the circuit runs, the input rows are the bytes
    0..255, and the output rows are the entries of the FIPS 197 S-box table -/
theorem sbox_tt :
    natRun 256 SqiGen.Aes.sbox_prog sboxIn = some sboxOut ∧
    ((List.range 256).all fun n =>
      sboxIn.map (·.testBit n) == ((List.range 8).map fun k => n.testBit k) ++ List.replicate (SqiGen.Aes.sbox_nreg - 8) false) = true ∧
    ((List.range 256).all fun n =>
      (sboxOut.map (·.testBit n)).take 8 == (List.range 8).map fun k => (Aes.sboxTable.getD n 0).testBit k) = true := by
  decide +kernel

/-- the Boyar–Peralta circuit as generated from the C text computes the FIPS 197 S-box on one lane, for each of the 256
    input bytes (locals zero-initialised) -/
theorem sbox_lane (n : Nat) (hn : n < 256) :
    (laneRun SqiGen.Aes.sbox_prog (byteBits (UInt8.ofNat n) ++ List.replicate (SqiGen.Aes.sbox_nreg - 8) false)).map (·.take 8)
      = some (byteBits (Aes.sbox (UInt8.ofNat n))) := by
  obtain ⟨h1, h2, h3⟩ := sbox_tt
  rw [List.all_eq_true] at h2 h3
  have e2 := h2 n (List.mem_range.mpr hn)
  have e3 := h3 n (List.mem_range.mpr hn)
  simp only [beq_iff_eq] at e2 e3
  have hl := natRun_sound 256 _ _ _ n hn h1
  rw [e2] at hl
  rw [byteBits_ofNat, hl, SqiProofs.AesSpec.sbox_table n hn, byteBits_ofNat, Option.map_some, e3]

/-- SubBytes: on every byte of every block, for every bitsliced state -/
theorem sboxQ_eq (q : List UInt64) (hq : q.length = 8) (i blk : Nat) (hi : i < 16) (hb : blk < 4) :
    unsliceByte (sboxQ q) i blk = Aes.sbox (unsliceByte q i blk) := by
  have hp := pos_lt i blk hi hb
  have hx := sbox_lane (unsliceByte q i blk).toNat (unsliceByte q i blk).toNat_lt
  simp only [UInt8.ofNat_toNat] at hx
  have hrow : bitRow (q ++ List.replicate (SqiGen.Aes.sbox_nreg - q.length) 0) (pos i blk)
      = byteBits (unsliceByte q i blk) ++ List.replicate (SqiGen.Aes.sbox_nreg - 8) false := by
    rw [bitRow_append_zeros, byteBits_unsliceByte, row_take8 q (by omega), List.take_of_length_le (by simp [bitRow, hq]), hq]
  cases hl : laneRun SqiGen.Aes.sbox_prog (byteBits (unsliceByte q i blk) ++ List.replicate (SqiGen.Aes.sbox_nreg - 8) false) with
  | none => rw [hl] at hx; simp at hx
  | some out =>
    rw [hl] at hx
    simp only [Option.map_some, Option.some.injEq] at hx
    rw [← hrow] at hl
    have hs := laneRun_sound _ _ _ hp out hl
    apply byteBits_inj
    unfold sboxQ runPrim
    rw [unsliceByte_take, byteBits_unsliceByte, row_take8 _ (by rw [run_length]; simp [hq]), hs, hx]

end SqiProofs.AesCt

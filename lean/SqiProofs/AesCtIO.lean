/-
C20 (AES), part 4: entry (interleave_in ×4, ortho) and exit (ortho, interleave_out ×4) sequences of `aes_ecb4x`:
the bitsliced layout is exactly "q[b] bit 16·r + 4·c + blk = bit b of byte (r, c) of block blk", and the whole
`aes_ecb4x` equals the FIPS 197 Cipher on each of the four blocks.
-/
import SqiProofs.AesCtRounds

namespace SqiProofs.AesCt
open SqiModel SqiModel.Bitslice SqiModel.AesCt SqiProofs.Bitslice

set_option maxRecDepth 100000

def inTab : Bool := (List.range 8).all fun k => (List.range 16).all fun i => (List.range 4).all fun blk =>
  symRun inProg sinit (16 + k) (pos i blk) == some (affOfVars [(4 * blk + i / 4, 8 * (i % 4) + k)])
theorem inTab_ok : inTab = true := by decide +kernel
theorem in_ok : Prog.ok inNreg inProg = true := by decide +kernel

def outTab : Bool := (List.range 4).all fun blk => (List.range 4).all fun c => (List.range 64).all fun p =>
  symRun outProg sinit (8 + 4 * blk + c) p == some (affOfVars (if p < 32 then [(p % 8, pos (4 * c + p / 8) blk)] else []))
theorem outTab_ok : outTab = true := by decide +kernel
theorem out_ok : Prog.ok outNreg outProg = true := by decide +kernel

theorem bitsOf_drop_take (e : List UInt64) (d n k p : Nat) (hk : k < n) :
    bitsOf ((e.drop d).take n) k p = bitsOf e (d + k) p := by
  simp [bitsOf, List.getD_eq_getElem?_getD, List.getElem?_take, hk, List.getElem?_drop]

theorem sliceIn_bit (w : List UInt64) (hw : w.length = 16) (k i blk : Nat) (hk : k < 8) (hi : i < 16) (hb : blk < 4) :
    bitsOf (sliceIn w) k (pos i blk) = bitsOf w (4 * blk + i / 4) (8 * (i % 4) + k) := by
  have htab := inTab_ok
  unfold inTab at htab
  simp only [List.all_eq_true, List.mem_range, beq_iff_eq] at htab
  unfold sliceIn
  rw [bitsOf_drop_take _ _ _ _ _ hk,
    prim_bit _ _ in_ok w (by rw [hw]; decide) (16 + k) (pos i blk) _ (by have : inNreg = 64 := rfl; omega)
      (pos_lt i blk hi hb) (by
        intro v hv
        simp only [List.mem_singleton] at hv
        subst hv
        exact ⟨by rw [hw]; omega, by omega⟩)
      (htab k hk i hi blk hb)]
  simp

theorem enc32le_getD_bit (x : UInt64) (r k : Nat) (hr : r < 4) (hk : k < 8) :
    ((enc32le x).getD r 0).toBitVec.getLsbD k = x.toBitVec.getLsbD (8 * r + k) := by
  have : (enc32le x).getD r 0 = (x >>> UInt64.ofNat (8 * r)).toUInt8 := by
    simp [enc32le, List.getD_eq_getElem?_getD, hr]
  rw [this, UInt64.toBitVec_toUInt8, BitVec.getLsbD_setWidth, getLsbD_shr _ _ _ (by omega)]
  simp [hk]

theorem words_bytes (ws : List UInt64) (h : ws.length = 4) :
    ws.flatMap enc32le = (List.range 16).map fun i => (enc32le (ws.getD (i / 4) 0)).getD (i % 4) 0 := by
  match ws, h with
  | [a, b, c, d], _ => rfl

/-- entry sequence: the four blocks, read as little-endian words, appear in the bitsliced layout -/
theorem sliceIn_eq (w : List UInt64) (hw : w.length = 16) (blk : Nat) (hb : blk < 4) :
    unslice (sliceIn w) blk = ((w.drop (4 * blk)).take 4).flatMap enc32le := by
  rw [words_bytes _ (by simp [hw]; omega)]
  unfold unslice
  apply List.map_congr_left
  intro i hi
  have hi' : i < 16 := List.mem_range.mp hi
  apply byte_ext
  intro k hk
  rw [unsliceByte_bit _ _ _ _ hk, sliceIn_bit w hw k i blk hk hi' hb,
    enc32le_getD_bit _ _ _ (Nat.mod_lt _ (by decide)) hk]
  have : ((w.drop (4 * blk)).take 4).getD (i / 4) 0 = w.getD (4 * blk + i / 4) 0 := by
    simp [List.getD_eq_getElem?_getD, List.getElem?_take, List.getElem?_drop, show i / 4 < 4 by omega]
  rw [this]; rfl

theorem sliceIn_length (w : List UInt64) (hw : w.length = 16) : (sliceIn w).length = 8 := by
  unfold sliceIn runPrim
  simp [run_length, hw, inNreg]

theorem sliceOut_bit (q : List UInt64) (hq : q.length = 8) (blk c p : Nat) (hb : blk < 4) (hc : c < 4) (hp : p < 32) :
    bitsOf (sliceOut q) (4 * blk + c) p = bitsOf q (p % 8) (pos (4 * c + p / 8) blk) := by
  have htab := outTab_ok
  unfold outTab at htab
  simp only [List.all_eq_true, List.mem_range, beq_iff_eq] at htab
  have h := htab blk hb c hc p (by omega)
  simp only [hp, if_true] at h
  unfold sliceOut
  rw [bitsOf_drop_take _ _ _ _ _ (by omega), ← Nat.add_assoc,
    prim_bit _ _ out_ok q (by rw [hq]; decide) (8 + 4 * blk + c) p _ (by have : outNreg = 64 := rfl; omega)
      (by omega) (by
        intro v hv
        simp only [List.mem_singleton] at hv
        subst hv
        exact ⟨by rw [hq]; exact Nat.mod_lt _ (by decide), pos_lt _ _ (by omega) hb⟩)
      h]
  simp

theorem sliceOut_length (q : List UInt64) (hq : q.length = 8) : (sliceOut q).length = 16 := by
  unfold sliceOut runPrim
  simp [run_length, hq, outNreg]

/-- exit sequence: the words written for block blk are the little-endian words of the bitsliced block -/
theorem sliceOut_eq (q : List UInt64) (hq : q.length = 8) (blk : Nat) (hb : blk < 4) :
    (((sliceOut q).drop (4 * blk)).take 4).flatMap enc32le = unslice q blk := by
  have hl := sliceOut_length q hq
  rw [words_bytes _ (by simp [hl]; omega)]
  unfold unslice
  apply List.map_congr_left
  intro i hi
  have hi' : i < 16 := List.mem_range.mp hi
  apply byte_ext
  intro k hk
  have : (((sliceOut q).drop (4 * blk)).take 4).getD (i / 4) 0 = (sliceOut q).getD (4 * blk + i / 4) 0 := by
    simp [List.getD_eq_getElem?_getD, List.getElem?_take, List.getElem?_drop, show i / 4 < 4 by omega]
  rw [enc32le_getD_bit _ _ _ (Nat.mod_lt _ (by decide)) hk, this, unsliceByte_bit _ _ _ _ hk]
  have hb2 := sliceOut_bit q hq blk (i / 4) (8 * (i % 4) + k) hb (by omega) (by omega)
  have e1 : (8 * (i % 4) + k) % 8 = k := by omega
  have e2 : 4 * (i / 4) + (8 * (i % 4) + k) / 8 = i := by omega
  rw [e1, e2] at hb2
  exact hb2

end SqiProofs.AesCt

/-
C20 (AES), part 2: the linear layers of the generated bitsliced code.  For each of shift_rows, add_round_key,
mix_columns (and ortho / interleave in part 3) the symbolic evaluator computes, for every output bit, the set of input
bits it is the XOR of; that finite table is compared by `decide +kernel` with the FIPS 197 transformation expressed in the
bitsliced coordinates, and `table_sound` turns each entry into a statement about every input.
-/
import SqiProofs.AesCt

namespace SqiProofs.AesCt
open SqiModel SqiModel.Bitslice SqiModel.AesCt SqiProofs.Bitslice

set_option maxRecDepth 100000

theorem foldl_vars_congr (f g : Nat → Nat → Bool) (vs : List (Nat × Nat)) (a : Bool)
    (h : ∀ v ∈ vs, f v.1 v.2 = g v.1 v.2) :
    vs.foldl (fun acc v => acc != f v.1 v.2) a = vs.foldl (fun acc v => acc != g v.1 v.2) a := by
  induction vs generalizing a with
  | nil => rfl
  | cons v vs ih =>
    simp only [List.foldl_cons, h v (List.mem_cons_self ..)]
    exact ih _ (fun w hw => h w (List.mem_cons_of_mem _ hw))

/-- a generated primitive run on `inp` (then zeroed locals): output bit = XOR of the input bits listed in its table entry -/
theorem prim_bit (prog : Prog) (nreg : Nat) (hok : prog.ok nreg = true) (inp : List UInt64) (hin : inp.length ≤ nreg)
    (b p : Nat) (vs : List (Nat × Nat)) (hb : b < nreg) (hp : p < 64) (hvs : ∀ v ∈ vs, v.1 < inp.length ∧ v.2 < 64)
    (h : symRun prog sinit b p = some (affOfVars vs)) :
    bitsOf (runPrim prog nreg inp) b p = vs.foldl (fun acc v => acc != bitsOf inp v.1 v.2) false := by
  unfold runPrim
  rw [table_sound prog nreg hok _ (by simp; omega) b p vs hb hp (fun v hv => ⟨by have := (hvs v hv).1; omega, (hvs v hv).2⟩) h]
  exact foldl_vars_congr _ _ vs false (fun v hv => bitsOf_append_left _ _ _ _ (hvs v hv).1)

theorem unsliceByte_bit (q : List UInt64) (i blk k : Nat) (hk : k < 8) :
    (unsliceByte q i blk).toBitVec.getLsbD k = bitsOf q k (pos i blk) := by
  have := congrArg (fun l => l.getD k false) (byteBits_unsliceByte q i blk)
  simpa [byteBits, List.getD_eq_getElem?_getD, hk] using this

theorem byte_ext (x y : UInt8) (h : ∀ k, k < 8 → x.toBitVec.getLsbD k = y.toBitVec.getLsbD k) : x = y := by
  apply byteBits_inj
  unfold byteBits
  apply List.map_congr_left
  intro k hk
  exact h k (List.mem_range.mp hk)

theorem unslice_getD (q : List UInt64) (blk j : Nat) (hj : j < 16) : (unslice q blk).getD j 0 = unsliceByte q j blk := by
  simp [unslice, List.getD_eq_getElem?_getD, hj]

theorem unslice_length (q : List UInt64) (blk : Nat) : (unslice q blk).length = 16 := by simp [unslice]

/-! ### ortho (bit transposition of the 8 words, byte by byte) -/
def orthoTab : Bool := (List.range 8).all fun b => (List.range 64).all fun p =>
  symRun SqiGen.Aes.ortho_prog sinit b p == some (affOfVars [(p % 8, 8 * (p / 8) + b)])
theorem orthoTab_ok : orthoTab = true := by decide +kernel
theorem ortho_ok : Prog.ok SqiGen.Aes.ortho_nreg SqiGen.Aes.ortho_prog = true := by decide +kernel

theorem orthoQ_bit (q : List UInt64) (hq : q.length = 8) (b p : Nat) (hb : b < 8) (hp : p < 64) :
    bitsOf (orthoQ q) b p = bitsOf q (p % 8) (8 * (p / 8) + b) := by
  have htab := orthoTab_ok
  unfold orthoTab at htab
  simp only [List.all_eq_true, List.mem_range, beq_iff_eq] at htab
  unfold orthoQ
  rw [bitsOf_take _ _ _ _ hb,
    prim_bit _ _ ortho_ok q (by rw [hq]; decide) b p _ (by have : SqiGen.Aes.ortho_nreg = 32 := rfl; omega) hp (by
        intro v hv
        simp only [List.mem_singleton] at hv
        subst hv
        exact ⟨by rw [hq]; omega, by omega⟩)
      (htab b hb p hp)]
  simp

/-! ### ShiftRows -/
def srcSR (i : Nat) : Nat := i % 4 + 4 * ((i / 4 + i % 4) % 4)

def shiftTab : Bool := (List.range 8).all fun b => (List.range 16).all fun i => (List.range 4).all fun blk =>
  symRun SqiGen.Aes.shift_rows_prog sinit b (pos i blk) == some (affOfVars [(b, pos (srcSR i) blk)])
theorem shiftTab_ok : shiftTab = true := by decide +kernel
theorem shift_ok : Prog.ok SqiGen.Aes.shift_rows_nreg SqiGen.Aes.shift_rows_prog = true := by decide +kernel

theorem shiftRowsQ_byte (q : List UInt64) (hq : q.length = 8) (i blk : Nat) (hi : i < 16) (hb : blk < 4) :
    unsliceByte (shiftRowsQ q) i blk = unsliceByte q (srcSR i) blk := by
  have htab := shiftTab_ok
  unfold shiftTab at htab
  simp only [List.all_eq_true, List.mem_range, beq_iff_eq] at htab
  apply byte_ext
  intro k hk
  unfold shiftRowsQ
  rw [unsliceByte_take, unsliceByte_bit _ _ _ _ hk, unsliceByte_bit _ _ _ _ hk,
    prim_bit _ _ shift_ok q (by rw [hq]; decide) k (pos i blk) _ (by have : SqiGen.Aes.shift_rows_nreg = 16 := rfl; omega)
      (pos_lt i blk hi hb) (by
        intro v hv
        simp only [List.mem_singleton] at hv
        subst hv
        exact ⟨by rw [hq]; exact hk, pos_lt _ _ (by unfold srcSR; omega) hb⟩)
      (htab k hk i hi blk hb)]
  simp

/-- ShiftRows on every block of every bitsliced state -/
theorem shiftRowsQ_eq (q : List UInt64) (hq : q.length = 8) (blk : Nat) (hb : blk < 4) :
    unslice (shiftRowsQ q) blk = Aes.shiftRows (unslice q blk) := by
  unfold unslice Aes.shiftRows
  apply List.map_congr_left
  intro i hi
  have hi' : i < 16 := List.mem_range.mp hi
  rw [shiftRowsQ_byte q hq i blk hi' hb]
  have := unslice_getD q blk (srcSR i) (by unfold srcSR; omega)
  unfold unslice srcSR at this
  exact this.symm

theorem bitsOf_append_right (a b : Env) (i p : Nat) (h : a.length ≤ i) : bitsOf (a ++ b) i p = bitsOf b (i - a.length) p := by
  simp [bitsOf, List.getD_eq_getElem?_getD, List.getElem?_append_right h]

/-! ### AddRoundKey -/
def arkTab : Bool := (List.range 8).all fun b => (List.range 64).all fun p =>
  symRun SqiGen.Aes.add_round_key_prog sinit b p == some (affOfVars [(b, p), (8 + b, p)])
theorem arkTab_ok : arkTab = true := by decide +kernel
theorem ark_ok : Prog.ok SqiGen.Aes.add_round_key_nreg SqiGen.Aes.add_round_key_prog = true := by decide +kernel

theorem addRoundKeyQ_byte (q sk : List UInt64) (hq : q.length = 8) (hsk : sk.length = 8) (i blk : Nat) (hi : i < 16)
    (hb : blk < 4) : unsliceByte (addRoundKeyQ q sk) i blk = unsliceByte q i blk ^^^ unsliceByte sk i blk := by
  have htab := arkTab_ok
  unfold arkTab at htab
  simp only [List.all_eq_true, List.mem_range, beq_iff_eq] at htab
  apply byte_ext
  intro k hk
  have hp := pos_lt i blk hi hb
  unfold addRoundKeyQ
  rw [unsliceByte_take, unsliceByte_bit _ _ _ _ hk,
    prim_bit _ _ ark_ok (q ++ sk) (by simp [hq, hsk]; decide) k (pos i blk) _
      (by have : SqiGen.Aes.add_round_key_nreg = 16 := rfl; omega) hp (by
        intro v hv
        simp only [List.mem_cons, List.mem_singleton, List.not_mem_nil, or_false] at hv
        rcases hv with rfl | rfl <;> simp [hq, hsk] <;> omega)
      (htab k hk (pos i blk) hp)]
  simp only [List.foldl_cons, List.foldl_nil, UInt8.toBitVec_xor, BitVec.getLsbD_xor, unsliceByte_bit _ _ _ _ hk]
  rw [bitsOf_append_left _ _ _ _ (by omega), bitsOf_append_right _ _ _ _ (by omega), hq, Nat.add_sub_cancel_left]
  cases bitsOf q k (pos i blk) <;> cases bitsOf sk k (pos i blk) <;> rfl

theorem addRoundKeyQ_eq (q sk : List UInt64) (hq : q.length = 8) (hsk : sk.length = 8) (blk : Nat) (hb : blk < 4) :
    unslice (addRoundKeyQ q sk) blk = Aes.xorBytes (unslice q blk) (unslice sk blk) := by
  apply List.ext_getElem
  · simp [unslice, Aes.xorBytes]
  · intro n h1 h2
    have hn : n < 16 := by simpa [unslice] using h1
    simp only [unslice, Aes.xorBytes, List.getElem_map, List.getElem_range, List.getElem_zipWith]
    exact addRoundKeyQ_byte q sk hq hsk n blk hn hb

/-! ### MixColumns -/
def xtCond (b : Nat) : Bool := b == 0 || b == 1 || b == 3 || b == 4
def xtB (f : Nat → Bool) (b : Nat) : Bool := (decide (0 < b) && f (b - 1)) != (xtCond b && f 7)

theorem xtime_bit (a : UInt8) (b : Nat) (hb : b < 8) :
    (Aes.xtime a).toBitVec.getLsbD b = xtB (fun k => a.toBitVec.getLsbD k) b := by
  have h := SqiProofs.AesSpec.xtimeBitsOk_true
  unfold SqiProofs.AesSpec.xtimeBitsOk at h
  simp only [List.all_eq_true, List.mem_range, beq_iff_eq] at h
  have := h a.toNat a.toNat_lt b hb
  simp only [UInt8.ofNat_toNat] at this
  rw [this]
  rfl

theorem xtime_getElem (a : UInt8) (b : Nat) (hb : b < 8) :
    (Aes.xtime a).toBitVec[b] = xtB (fun k => a.toBitVec.getLsbD k) b := by
  rw [← BitVec.getLsbD_eq_getElem]; exact xtime_bit a b hb

def xtV (b j : Nat) : List (Nat × Nat) := (if 0 < b then [(j, b - 1)] else []) ++ (if xtCond b then [(j, 7)] else [])
/-- the input bits (row j of the column, bit k) whose XOR is bit b of row r of MixColumns, in the order of the FIPS 197 formula -/
def mixVars (r b : Nat) : List (Nat × Nat) :=
  if r = 0 then xtV b 0 ++ xtV b 1 ++ [(1, b), (2, b), (3, b)]
  else if r = 1 then [(0, b)] ++ xtV b 1 ++ xtV b 2 ++ [(2, b), (3, b)]
  else if r = 2 then [(0, b), (1, b)] ++ xtV b 2 ++ xtV b 3 ++ [(3, b)]
  else xtV b 0 ++ [(0, b), (1, b), (2, b)] ++ xtV b 3

theorem lt8_cases (b : Nat) (h : b < 8) : b = 0 ∨ b = 1 ∨ b = 2 ∨ b = 3 ∨ b = 4 ∨ b = 5 ∨ b = 6 ∨ b = 7 := by omega
theorem lt4_cases (r : Nat) (h : r < 4) : r = 0 ∨ r = 1 ∨ r = 2 ∨ r = 3 := by omega

theorem mixColumn_bit (a0 a1 a2 a3 : UInt8) (r b : Nat) (hr : r < 4) (hb : b < 8) :
    ((Aes.mixColumn a0 a1 a2 a3).getD r 0).toBitVec.getLsbD b
      = (mixVars r b).foldl (fun acc v => acc != ([a0, a1, a2, a3].getD v.1 0).toBitVec.getLsbD v.2) false := by
  rcases lt4_cases r hr with rfl | rfl | rfl | rfl <;>
  rcases lt8_cases b hb with rfl | rfl | rfl | rfl | rfl | rfl | rfl | rfl <;>
  simp [Aes.mixColumn, mixVars, xtV, xtCond, xtime_getElem, xtB]
def mixTab : Bool := (List.range 8).all fun b => (List.range 16).all fun i => (List.range 4).all fun blk =>
  symRun SqiGen.Aes.mix_columns_prog sinit b (pos i blk)
    == some (affOfVars ((mixVars (i % 4) b).map fun v => (v.2, pos (4 * (i / 4) + v.1) blk)))
theorem mixTab_ok : mixTab = true := by decide +kernel
theorem mix_ok : Prog.ok SqiGen.Aes.mix_columns_nreg SqiGen.Aes.mix_columns_prog = true := by decide +kernel
def mixVarsRange : Bool := (List.range 4).all fun r => (List.range 8).all fun b => (mixVars r b).all fun v => decide (v.1 < 4) && decide (v.2 < 8)
theorem mixVarsRange_ok : mixVarsRange = true := by decide +kernel

theorem mixVars_range (r b : Nat) (hr : r < 4) (hb : b < 8) (v : Nat × Nat) (hv : v ∈ mixVars r b) : v.1 < 4 ∧ v.2 < 8 := by
  have h := mixVarsRange_ok
  unfold mixVarsRange at h
  simp only [List.all_eq_true, List.mem_range, Bool.and_eq_true, decide_eq_true_eq] at h
  exact h r hr b hb v hv

theorem mixColumnsQ_byte (q : List UInt64) (hq : q.length = 8) (i blk : Nat) (hi : i < 16) (hb : blk < 4) :
    unsliceByte (mixColumnsQ q) i blk =
      (Aes.mixColumn (unsliceByte q (4 * (i / 4)) blk) (unsliceByte q (4 * (i / 4) + 1) blk)
        (unsliceByte q (4 * (i / 4) + 2) blk) (unsliceByte q (4 * (i / 4) + 3) blk)).getD (i % 4) 0 := by
  have htab := mixTab_ok
  unfold mixTab at htab
  simp only [List.all_eq_true, List.mem_range, beq_iff_eq] at htab
  apply byte_ext
  intro k hk
  have hp := pos_lt i blk hi hb
  have hr : i % 4 < 4 := Nat.mod_lt _ (by decide)
  unfold mixColumnsQ
  rw [unsliceByte_take, unsliceByte_bit _ _ _ _ hk,
    prim_bit _ _ mix_ok q (by rw [hq]; decide) k (pos i blk) _ (by have : SqiGen.Aes.mix_columns_nreg = 24 := rfl; omega) hp (by
        intro v hv
        simp only [List.mem_map] at hv
        obtain ⟨w, hw, rfl⟩ := hv
        have := mixVars_range _ _ hr hk w hw
        exact ⟨by rw [hq]; exact this.2, pos_lt _ _ (by omega) hb⟩)
      (htab k hk i hi blk hb),
    mixColumn_bit _ _ _ _ _ _ hr hk, List.foldl_map]
  refine foldl_vars_congr (fun j k' => bitsOf q k' (pos (4 * (i / 4) + j) blk))
    (fun j k' => ([unsliceByte q (4 * (i / 4)) blk, unsliceByte q (4 * (i / 4) + 1) blk, unsliceByte q (4 * (i / 4) + 2) blk,
      unsliceByte q (4 * (i / 4) + 3) blk].getD j 0).toBitVec.getLsbD k') _ _ ?_
  intro v hv
  have hv' := mixVars_range _ _ hr hk v hv
  rcases lt4_cases v.1 hv'.1 with h | h | h | h <;> simp [h, unsliceByte_bit _ _ _ _ hv'.2]
theorem range16 : List.range 16 = [0, 1, 2, 3, 4, 5, 6, 7, 8, 9, 10, 11, 12, 13, 14, 15] := rfl
theorem range4 : List.range 4 = [0, 1, 2, 3] := rfl

/-- MixColumns on every block of every bitsliced state -/
theorem mixColumnsQ_eq (q : List UInt64) (hq : q.length = 8) (blk : Nat) (hb : blk < 4) :
    unslice (mixColumnsQ q) blk = Aes.mixColumns (unslice q blk) := by
  have e : ∀ i, i < 16 → unsliceByte (mixColumnsQ q) i blk = _ := fun i hi => mixColumnsQ_byte q hq i blk hi hb
  have g : ∀ j, j < 16 → (unslice q blk).getD j 0 = unsliceByte q j blk := fun j hj => unslice_getD q blk j hj
  unfold Aes.mixColumns
  rw [range4]
  simp only [List.flatMap_cons, List.flatMap_nil, List.append_nil, Nat.mul_zero, Nat.zero_add, Nat.mul_one,
    g 0 (by decide), g 1 (by decide), g 2 (by decide), g 3 (by decide), g 4 (by decide), g 5 (by decide),
    g 6 (by decide), g 7 (by decide), g 8 (by decide), g 9 (by decide), g 10 (by decide), g 11 (by decide),
    g 12 (by decide), g 13 (by decide), g 14 (by decide), g 15 (by decide)]
  conv => lhs; unfold unslice; rw [range16]
  simp only [List.map_cons, List.map_nil, e 0 (by decide), e 1 (by decide), e 2 (by decide), e 3 (by decide),
    e 4 (by decide), e 5 (by decide), e 6 (by decide), e 7 (by decide), e 8 (by decide), e 9 (by decide),
    e 10 (by decide), e 11 (by decide), e 12 (by decide), e 13 (by decide), e 14 (by decide), e 15 (by decide)]
  simp [Aes.mixColumn]

/-- SubBytes on every block -/
theorem sboxQ_eq' (q : List UInt64) (hq : q.length = 8) (blk : Nat) (hb : blk < 4) :
    unslice (sboxQ q) blk = Aes.subBytes (unslice q blk) := by
  unfold unslice Aes.subBytes
  rw [List.map_map]
  apply List.map_congr_left
  intro i hi
  exact sboxQ_eq q hq i blk (List.mem_range.mp hi) hb
end SqiProofs.AesCt

/- C20 (AES), part 5: `aes_ecb4x` as a whole. -/
import SqiProofs.AesCtIO

namespace SqiProofs.AesCt
open SqiModel SqiModel.Bitslice SqiModel.AesCt SqiProofs.Bitslice

theorem flatMap_congr' {α β : Type} (l : List α) (f g : α → List β) (h : ∀ a ∈ l, f a = g a) :
    l.flatMap f = l.flatMap g := by
  induction l with
  | nil => rfl
  | cons a l ih =>
    simp only [List.flatMap_cons, h a (List.mem_cons_self ..)]
    rw [ih (fun b hb => h b (List.mem_cons_of_mem _ hb))]

theorem split16 {β : Type} (S : List UInt64) (h : S.length = 16) (f : UInt64 → List β) :
    S.flatMap f = (List.range 4).flatMap fun blk => ((S.drop (4 * blk)).take 4).flatMap f := by
  match S, h with
  | [s0, s1, s2, s3, s4, s5, s6, s7, s8, s9, s10, s11, s12, s13, s14, s15], _ => simp [List.range, List.range.loop]

/-- `aes_ecb4x` = FIPS 197 Cipher on each of the four blocks (given as little-endian words), for every input, every
    number of rounds, and every expanded key whose round-r part is the bitsliced form of round key r in all four lanes -/
theorem ecb4x_eq (w : List UInt64) (hw : w.length = 16) (skExp : List UInt64) (wk : List (List UInt8)) (nr : Nat)
    (hlen : 8 * (nr + 1) ≤ skExp.length)
    (hkeys : ∀ r, r ≤ nr → ∀ blk, blk < 4 → unslice ((skExp.drop (8 * r)).take 8) blk = Aes.roundKey wk r) :
    ecb4x w skExp nr =
      (List.range 4).flatMap fun blk => Aes.cipherWith wk nr (((w.drop (4 * blk)).take 4).flatMap enc32le) := by
  have hsk : ∀ r, r ≤ nr → ((skExp.drop (8 * r)).take 8).length = 8 := by
    intro r hr
    have : 8 * r + 8 ≤ skExp.length := by
      have : 8 * (r + 1) ≤ 8 * (nr + 1) := Nat.mul_le_mul_left 8 (by omega)
      omega
    simp; omega
  have hq := sliceIn_length w hw
  have hq' := roundsQ_length (sliceIn w) hq (fun r => (skExp.drop (8 * r)).take 8) nr hsk
  unfold ecb4x
  simp only
  rw [split16 _ (sliceOut_length _ hq')]
  apply flatMap_congr'
  intro blk hblk
  have hb : blk < 4 := List.mem_range.mp hblk
  rw [sliceOut_eq _ hq' blk hb, roundsQ_eq _ hq _ wk nr blk hsk hb (fun r hr => hkeys r hr blk hb), sliceIn_eq w hw blk hb]

end SqiProofs.AesCt

/-
C20 (AES), part 3: the round structure of `aes_ecb4x` on the bitsliced state equals the FIPS 197 Cipher on each of
the four blocks, for every state, every number of rounds and every key schedule given in bitsliced form.
-/
import SqiProofs.AesCtLinear

namespace SqiProofs.AesCt
open SqiModel SqiModel.Bitslice SqiModel.AesCt SqiProofs.Bitslice

theorem runPrim_take_length (prog : Prog) (nreg : Nat) (inp : List UInt64) (h8 : 8 ≤ nreg) (hin : inp.length ≤ nreg) :
    ((runPrim prog nreg inp).take 8).length = 8 := by
  unfold runPrim
  rw [List.length_take, run_length]
  simp; omega

theorem sboxQ_length (q : List UInt64) (hq : q.length = 8) : (sboxQ q).length = 8 :=
  runPrim_take_length _ _ _ (by decide) (by rw [hq]; decide)
theorem shiftRowsQ_length (q : List UInt64) (hq : q.length = 8) : (shiftRowsQ q).length = 8 :=
  runPrim_take_length _ _ _ (by decide) (by rw [hq]; decide)
theorem mixColumnsQ_length (q : List UInt64) (hq : q.length = 8) : (mixColumnsQ q).length = 8 :=
  runPrim_take_length _ _ _ (by decide) (by rw [hq]; decide)
theorem addRoundKeyQ_length (q sk : List UInt64) (hq : q.length = 8) (hsk : sk.length = 8) : (addRoundKeyQ q sk).length = 8 :=
  runPrim_take_length _ _ _ (by decide) (by simp [hq, hsk]; decide)

theorem rounds_fold (sk : Nat → List UInt64) (nr : Nat) (hsk : ∀ r, r ≤ nr → (sk r).length = 8) (w : List (List UInt8)) (blk : Nat) (hb : blk < 4)
    (hkeys : ∀ r, r ≤ nr → unslice (sk r) blk = Aes.roundKey w r) (l : List Nat) (hl : ∀ i ∈ l, i + 1 ≤ nr)
    (q : List UInt64) (hq : q.length = 8) :
    (l.foldl (fun q i => addRoundKeyQ (mixColumnsQ (shiftRowsQ (sboxQ q))) (sk (i + 1))) q).length = 8 ∧
    unslice (l.foldl (fun q i => addRoundKeyQ (mixColumnsQ (shiftRowsQ (sboxQ q))) (sk (i + 1))) q) blk
      = l.foldl (fun s r => Aes.xorBytes (Aes.mixColumns (Aes.shiftRows (Aes.subBytes s))) (Aes.roundKey w (r + 1)))
          (unslice q blk) := by
  induction l generalizing q with
  | nil => exact ⟨hq, rfl⟩
  | cons i l ih =>
    simp only [List.foldl_cons]
    have h1 := sboxQ_length q hq
    have h2 := shiftRowsQ_length _ h1
    have h3 := mixColumnsQ_length _ h2
    have hi1 := hl i (List.mem_cons_self ..)
    have h4 := addRoundKeyQ_length _ (sk (i + 1)) h3 (hsk _ hi1)
    have := ih (fun j hj => hl j (List.mem_cons_of_mem _ hj)) _ h4
    rw [addRoundKeyQ_eq _ _ h3 (hsk _ hi1) blk hb, mixColumnsQ_eq _ h2 blk hb, shiftRowsQ_eq _ h1 blk hb,
      sboxQ_eq' q hq blk hb, hkeys (i + 1) hi1] at this
    exact this

/-- the rounds of `aes_ecb4x` (AddRoundKey, nr−1 full rounds, final round without MixColumns) = FIPS 197 `Cipher`,
    block by block -/
theorem roundsQ_eq (q : List UInt64) (hq : q.length = 8) (sk : Nat → List UInt64) (w : List (List UInt8)) (nr blk : Nat)
    (hsk : ∀ r, r ≤ nr → (sk r).length = 8) (hb : blk < 4)
    (hkeys : ∀ r, r ≤ nr → unslice (sk r) blk = Aes.roundKey w r) :
    unslice (roundsQ q sk nr) blk = Aes.cipherWith w nr (unslice q blk) := by
  unfold roundsQ Aes.cipherWith
  simp only
  have h0 := addRoundKeyQ_length q (sk 0) hq (hsk 0 (Nat.zero_le _))
  obtain ⟨hl, hf⟩ := rounds_fold sk nr hsk w blk hb hkeys (List.range (nr - 1))
    (fun i hi => by have := List.mem_range.mp hi; omega) _ h0
  have h1 := sboxQ_length _ hl
  have h2 := shiftRowsQ_length _ h1
  rw [addRoundKeyQ_eq _ _ h2 (hsk _ (Nat.le_refl _)) blk hb, shiftRowsQ_eq _ h1 blk hb, sboxQ_eq' _ hl blk hb, hf,
    addRoundKeyQ_eq _ _ hq (hsk _ (Nat.zero_le _)) blk hb, hkeys 0 (Nat.zero_le _), hkeys nr (Nat.le_refl _)]

theorem rounds_fold_length (sk : Nat → List UInt64) (nr : Nat) (hsk : ∀ r, r ≤ nr → (sk r).length = 8) (l : List Nat)
    (hl : ∀ i ∈ l, i + 1 ≤ nr) (q : List UInt64) (hq : q.length = 8) :
    (l.foldl (fun q i => addRoundKeyQ (mixColumnsQ (shiftRowsQ (sboxQ q))) (sk (i + 1))) q).length = 8 := by
  induction l generalizing q with
  | nil => exact hq
  | cons i l ih =>
    simp only [List.foldl_cons]
    exact ih (fun j hj => hl j (List.mem_cons_of_mem _ hj)) _
      (addRoundKeyQ_length _ _ (mixColumnsQ_length _ (shiftRowsQ_length _ (sboxQ_length q hq)))
        (hsk _ (hl i (List.mem_cons_self ..))))

theorem roundsQ_length (q : List UInt64) (hq : q.length = 8) (sk : Nat → List UInt64) (nr : Nat)
    (hsk : ∀ r, r ≤ nr → (sk r).length = 8) : (roundsQ q sk nr).length = 8 := by
  unfold roundsQ
  simp only
  have h0 := addRoundKeyQ_length q (sk 0) hq (hsk 0 (Nat.zero_le _))
  have hl := rounds_fold_length sk nr hsk (List.range (nr - 1))
    (fun i hi => by have := List.mem_range.mp hi; omega) _ h0
  exact addRoundKeyQ_length _ _ (shiftRowsQ_length _ (sboxQ_length _ hl)) (hsk _ (Nat.le_refl _))

end SqiProofs.AesCt

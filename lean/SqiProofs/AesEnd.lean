/- C20 (AES), part 9: `AES_256_ECB` of aes_c.c = FIPS 197 AES-256 encryption, for every key and every block. -/
import SqiProofs.AesKey3

namespace SqiProofs.AesCt
open SqiModel SqiModel.Bitslice SqiModel.AesCt SqiProofs.Bitslice

theorem flatMap_flatMap' {α β γ : Type} (l : List α) (f : α → List β) (g : β → List γ) :
    (l.flatMap f).flatMap g = l.flatMap fun x => (f x).flatMap g := by
  induction l with
  | nil => rfl
  | cons a l ih => simp [List.flatMap_cons, List.flatMap_append, ih]

theorem flatMap_eq_flatten_map {α β : Type} (l : List α) (f : α → List β) : l.flatMap f = (l.map f).flatten := by
  induction l with
  | nil => rfl
  | cons a l ih => simp [List.flatMap_cons, ih]

theorem flatMap_length_const {α β : Type} (l : List α) (f : α → List β) (k : Nat) (h : ∀ x ∈ l, (f x).length = k) :
    (l.flatMap f).length = k * l.length := by
  induction l with
  | nil => simp
  | cons a l ih =>
    rw [List.flatMap_cons, List.length_append, h a (List.mem_cons_self ..), ih (fun x hx => h x (List.mem_cons_of_mem _ hx)),
      List.length_cons, Nat.mul_succ]
    omega

theorem flatMap_range_block {α : Type} (g : Nat → List α) (k n r : Nat) (hg : ∀ i, i < n → (g i).length = k) (hr : r < n) :
    (((List.range n).flatMap g).drop (k * r)).take k = g r := by
  induction n with
  | zero => omega
  | succ n ih =>
    have hlen : ((List.range n).flatMap g).length = k * n := by
      clear ih hr
      induction n with
      | zero => simp
      | succ m ihm =>
        rw [List.range_succ, List.flatMap_append, List.length_append, ihm (fun i hi => hg i (by omega))]
        simp [hg m (by omega), Nat.mul_succ]
    rw [List.range_succ, List.flatMap_append]
    simp only [List.flatMap_cons, List.flatMap_nil, List.append_nil]
    by_cases h : r < n
    · have hle : k * r + k ≤ k * n := by
        have : k * (r + 1) ≤ k * n := Nat.mul_le_mul_left k h
        rw [Nat.mul_succ] at this; exact this
      rw [List.drop_append_of_le_length (by omega), List.take_append_of_le_length (by simp [hlen]; omega)]
      exact ih (fun i hi => hg i (by omega)) h
    · have e : r = n := by omega
      subst e
      rw [← hlen, List.drop_left' rfl, List.take_of_length_le (by rw [hg r (by omega)]; exact Nat.le_refl k)]

theorem expandWords_length (key : List UInt8) (hk : key.length = 32) : (expandWords key).length = 60 := by
  have := congrArg List.length (expandWords_eq key hk)
  rw [List.length_map] at this
  rw [this]
  -- length of the FIPS 197 schedule: 8 + 52 words
  have hspec : Aes.keyExpansion key 14 = (List.range 52).foldl stepS ((List.range 8).map fun i => (key.drop (4 * i)).take 4) := by
    unfold Aes.keyExpansion
    simp only [hk]
    rfl
  rw [hspec]
  have : ∀ n (w : List (List UInt8)), ((List.range n).foldl stepS w).length = w.length + n := by
    intro n
    induction n with
    | zero => intro w; rfl
    | succ n ih => intro w; rw [List.range_succ, List.foldl_append, List.foldl_cons, List.foldl_nil]; simp [stepS, ih]; omega
  rw [this]; simp

/-- the expanded key of the C code satisfies the hypothesis of `ecb4x_eq`: in every round and every lane it is the bitsliced
    FIPS 197 round key -/
theorem skExp_keys (key : List UInt8) (hk : key.length = 32) (r : Nat) (hr : r ≤ 14) (blk : Nat) (hb : blk < 4) :
    unslice (((skeyExpand (keysched key)).drop (8 * r)).take 8) blk = Aes.roundKey (Aes.keyExpansion key 14) r := by
  have hc := ks_consts
  have hwl := expandWords_length key hk
  have hW : ∀ i, i < 15 → (((expandWords key).drop (4 * i)).take 4).length = 4 := by
    intro i hi; simp [hwl]; omega
  unfold skeyExpand keysched
  rw [flatMap_flatMap', hc.2.1, show (60 : Nat) / 4 = 15 from rfl,
    flatMap_range_block _ 8 15 r (fun i hi => by
      have h2 := compress_length _ (hW i hi)
      match hcw : compress (((expandWords key).drop (4 * i)).take 4), h2 with
      | [c0, c1], _ => simp [expand1_length]) (by omega),
    roundkey_rep _ (hW r (by omega)) blk hb, ← expandWords_eq key hk]
  unfold Aes.roundKey
  rw [← List.map_drop, ← List.map_take]
  exact flatMap_eq_flatten_map _ _

theorem skExp_length (key : List UInt8) (hk : key.length = 32) : (skeyExpand (keysched key)).length = 120 := by
  have hc := ks_consts
  have hwl := expandWords_length key hk
  unfold skeyExpand
  rw [flatMap_length_const _ _ 4 (fun x _ => expand1_length x)]
  unfold keysched
  rw [hc.2.1, show (60 : Nat) / 4 = 15 from rfl,
    flatMap_length_const _ _ 2 (fun i hi => compress_length _ (by
      have : i < 15 := List.mem_range.mp hi
      simp [hwl]; omega))]
  simp

end SqiProofs.AesCt

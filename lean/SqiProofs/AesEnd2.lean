/- C20 (AES), part 10: the end-to-end theorem for `AES_256_ECB`. -/
import SqiProofs.AesEnd

namespace SqiProofs.AesCt
open SqiModel SqiModel.Bitslice SqiModel.AesCt SqiProofs.Bitslice

theorem roundKey_length (key : List UInt8) (hk : key.length = 32) (r : Nat) (hr : r ≤ 14) :
    (Aes.roundKey (Aes.keyExpansion key 14) r).length = 16 := by
  rw [← skExp_keys key hk r hr 0 (by decide), unslice_length]

theorem cipher_length (wk : List (List UInt8)) (h : (Aes.roundKey wk 14).length = 16) (inp : List UInt8) :
    (Aes.cipherWith wk 14 inp).length = 16 := by
  unfold Aes.cipherWith
  simp [Aes.xorBytes, Aes.shiftRows, h]

/-- FIPS 197 AES-256 returns a 16-byte block for every 32-byte key (and any input list) -/
theorem aes256_length (key : List UInt8) (hk : key.length = 32) (v : List UInt8) : (Aes.aes256 key v).length = 16 :=
  cipher_length _ (roundKey_length key hk 14 (Nat.le_refl _)) v

theorem blocks_bytes (block : List UInt8) (hb : block.length = 16) :
    ((List.range 4).map fun c => dec32le (block.drop (4 * c))).flatMap enc32le = block := by
  have e : ∀ c, c < 4 → enc32le (dec32le (block.drop (4 * c))) = (block.drop (4 * c)).take 4 :=
    fun c hc => enc32le_dec32le _ (by simp [hb]; omega)
  simp only [range4, List.map_cons, List.map_nil, List.flatMap_cons, List.flatMap_nil, List.append_nil,
    e 0 (by decide), e 1 (by decide), e 2 (by decide), e 3 (by decide)]
  match block, hb with
  | [b0, b1, b2, b3, b4, b5, b6, b7, b8, b9, b10, b11, b12, b13, b14, b15], _ => rfl

/-- **`AES_256_ECB(input, key, output)` of aes_c.c = FIPS 197 AES-256 encryption**, for every 32-byte key, every 16-byte
    block and whatever the 12 uninitialised words of `blocks[]` in `aes_ecb` contain. -/
theorem aes256Ecb_eq_spec (garbage : List UInt64) (hg : garbage.length = 12) (key block : List UInt8)
    (hk : key.length = 32) (hb : block.length = 16) :
    aes256Ecb garbage key block = Aes.aes256 key block := by
  have hc := ks_consts
  unfold aes256Ecb
  simp only [hc.2.2]
  have hw : (((List.range 4).map fun c => dec32le (block.drop (4 * c))) ++ garbage).length = 16 := by simp [hg]
  rw [ecb4x_eq _ hw _ (Aes.keyExpansion key 14) 14 (by rw [skExp_length key hk]; decide) (fun r hr blk hblk => skExp_keys key hk r hr blk hblk)]
  rw [range4]
  simp only [List.flatMap_cons, List.flatMap_nil, List.append_nil]
  have h0 : (((List.map (fun c => dec32le (block.drop (4 * c))) [0, 1, 2, 3] ++ garbage).drop (4 * 0)).take 4)
      = (List.range 4).map fun c => dec32le (block.drop (4 * c)) := by
    simp [range4]
  rw [h0, blocks_bytes block hb, List.take_append_of_le_length (by rw [cipher_length _ (roundKey_length key hk 14 (Nat.le_refl _))]; exact Nat.le_refl _),
    List.take_of_length_le (by rw [cipher_length _ (roundKey_length key hk 14 (Nat.le_refl _))]; exact Nat.le_refl _)]
  rfl

end SqiProofs.AesCt

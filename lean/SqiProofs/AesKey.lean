/-
C20 (AES), part 6: the compressed / expanded key representation.  `br_aes_ct64_skey_expand` (with its `(x << 4) - x`
nibble replication) applied to the output of the compression loop of `br_aes_ct64_keysched` yields, for every four key
schedule words, exactly the bitsliced round key in all four lanes — the hypothesis `hkeys` of `ecb4x_eq`.
-/
import SqiProofs.AesCtMain

namespace SqiProofs.AesCt
open SqiModel SqiModel.Bitslice SqiModel.AesCt SqiProofs.Bitslice

set_option maxRecDepth 100000

/-! ### (x << 4) − x replicates the low bit of every nibble -/
def M1 : BitVec 64 := 0x1111111111111111#64

theorem M1_bit : ∀ j, j < 64 → M1.getLsbD j = decide (j % 4 = 0) := by decide

theorem low_bit (b : BitVec 64) (h : b &&& M1 = b) (j : Nat) (hj : b.getLsbD j = true) : j % 4 = 0 := by
  have hj64 : j < 64 := by
    by_cases h64 : j < 64
    · exact h64
    · rw [BitVec.getLsbD_of_ge _ _ (by omega)] at hj; cases hj
  have : (b &&& M1).getLsbD j = true := by rw [h]; exact hj
  rw [BitVec.getLsbD_and, hj, M1_bit j hj64] at this
  simpa using this

theorem sum15 (b : BitVec 64) : (b <<< 4) - b = b + (b <<< 1) + (b <<< 2) + (b <<< 3) := by
  apply BitVec.eq_of_toNat_eq
  simp only [BitVec.toNat_sub, BitVec.toNat_add, BitVec.toNat_shiftLeft, Nat.shiftLeft_eq]
  have := b.isLt
  omega

theorem disj (b : BitVec 64) (h : b &&& M1 = b) (x : BitVec 64) (a : Nat) (ha : 0 < a) (ha4 : a < 4)
    (hx : ∀ j, x.getLsbD j = true → j % 4 < a) : x &&& (b <<< a) = 0#64 := by
  apply BitVec.eq_of_getLsbD_eq
  intro i hi
  simp only [BitVec.getLsbD_and, BitVec.getLsbD_shiftLeft, BitVec.getLsbD_zero]
  by_cases hxi : x.getLsbD i = true
  · have h1 := hx i hxi
    by_cases hb : b.getLsbD (i - a) = true
    · have h2 := low_bit b h (i - a) hb
      by_cases hia : i < a
      · simp [hia]
      · exfalso; omega
    · simp [hb]
  · simp [hxi]

theorem mul15_bits (b : BitVec 64) (h : b &&& M1 = b) (p : Nat) (hp : p < 64) :
    ((b <<< 4) - b).getLsbD p = b.getLsbD (4 * (p / 4)) := by
  have d1 := disj b h b 1 (by decide) (by decide) (fun j hj => by have := low_bit b h j hj; omega)
  have hx1 : ∀ j, (b + b <<< 1).getLsbD j = true → j % 4 < 2 := by
    intro j hj
    rw [BitVec.add_eq_or_of_and_eq_zero _ _ d1, BitVec.getLsbD_or, BitVec.getLsbD_shiftLeft] at hj
    simp only [Bool.or_eq_true, Bool.and_eq_true] at hj
    rcases hj with hj | hj
    · have := low_bit b h j hj; omega
    · have := low_bit b h (j - 1) hj.2
      have : ¬ j < 1 := by simpa using hj.1.2
      omega
  have d2 := disj b h (b + b <<< 1) 2 (by decide) (by decide) hx1
  have hx2 : ∀ j, (b + b <<< 1 + b <<< 2).getLsbD j = true → j % 4 < 3 := by
    intro j hj
    rw [BitVec.add_eq_or_of_and_eq_zero _ _ d2, BitVec.getLsbD_or, BitVec.getLsbD_shiftLeft] at hj
    simp only [Bool.or_eq_true, Bool.and_eq_true] at hj
    rcases hj with hj | hj
    · have := hx1 j hj; omega
    · have := low_bit b h (j - 2) hj.2
      have : ¬ j < 2 := by simpa using hj.1.2
      omega
  have d3 := disj b h (b + b <<< 1 + b <<< 2) 3 (by decide) (by decide) hx2
  rw [sum15, BitVec.add_eq_or_of_and_eq_zero _ _ d3, BitVec.add_eq_or_of_and_eq_zero _ _ d2,
    BitVec.add_eq_or_of_and_eq_zero _ _ d1]
  simp only [BitVec.getLsbD_or, BitVec.getLsbD_shiftLeft, hp, decide_true, Bool.true_and]
  -- exactly one of p, p-1, p-2, p-3 is a multiple of 4
  have key : ∀ j, j % 4 ≠ 0 → b.getLsbD j = false := by
    intro j hj
    cases hb : b.getLsbD j
    · rfl
    · exact absurd (low_bit b h j hb) hj
  have t0 : b.getLsbD p = (decide (p % 4 = 0) && b.getLsbD (4 * (p / 4))) := by
    by_cases hm : p % 4 = 0
    · have e : 4 * (p / 4) = p := by omega
      simp [hm, e]
    · simp [hm, key p hm]
  have term : ∀ a, 0 < a → a < 4 →
      (!decide (p < a) && b.getLsbD (p - a)) = (decide (p % 4 = a) && b.getLsbD (4 * (p / 4))) := by
    intro a ha0 ha4
    by_cases hpa : p < a
    · have : ¬ p % 4 = a := by omega
      simp [hpa, this]
    · by_cases hm : p % 4 = a
      · have e : 4 * (p / 4) = p - a := by omega
        simp [hpa, hm, e]
      · have : (p - a) % 4 ≠ 0 := by omega
        simp [hm, key (p - a) this]
  rw [t0, term 1 (by decide) (by decide), term 2 (by decide) (by decide), term 3 (by decide) (by decide)]
  have hm : p % 4 = 0 ∨ p % 4 = 1 ∨ p % 4 = 2 ∨ p % 4 = 3 := by omega
  rcases hm with hm | hm | hm | hm <;> simp [hm]

theorem mul15U (y : UInt64) (h : y.toBitVec &&& M1 = y.toBitVec) (p : Nat) (hp : p < 64) :
    ((y <<< UInt64.ofNat 4) - y).toBitVec.getLsbD p = y.toBitVec.getLsbD (4 * (p / 4)) := by
  rw [UInt64.toBitVec_sub, UInt64.toBitVec_shiftLeft, BitVec.shiftLeft_eq', shiftAmtN 4 (by decide)]
  exact mul15_bits y.toBitVec h p hp

/-- y = (c & m) >> t for a mask m selecting the bits ≡ t mod 4: y has only bits ≡ 0 mod 4, and bit 4n of y is bit 4n+t of c -/
theorem ymask (c m : UInt64) (t : Nat) (ht : t < 4)
    (hm : ∀ j, j < 64 → m.toBitVec.getLsbD j = decide (j % 4 = t)) :
    (((c &&& m) >>> UInt64.ofNat t).toBitVec &&& M1 = ((c &&& m) >>> UInt64.ofNat t).toBitVec) ∧
    ∀ q, q % 4 = 0 → q < 64 → ((c &&& m) >>> UInt64.ofNat t).toBitVec.getLsbD q = c.toBitVec.getLsbD (q + t) := by
  have hb : ∀ q, ((c &&& m) >>> UInt64.ofNat t).toBitVec.getLsbD q
      = (c.toBitVec.getLsbD (t + q) && m.toBitVec.getLsbD (t + q)) := by
    intro q
    rw [getLsbD_shr _ _ _ (by omega), UInt64.toBitVec_and, BitVec.getLsbD_and]
  constructor
  · apply BitVec.eq_of_getLsbD_eq
    intro i hi
    rw [BitVec.getLsbD_and, hb, M1_bit i hi]
    by_cases h64 : t + i < 64
    · rw [hm _ h64]
      by_cases hi4 : i % 4 = 0
      · simp [hi4]
      · have : ¬ (t + i) % 4 = t := by omega
        simp [this]
    · rw [BitVec.getLsbD_of_ge m.toBitVec _ (by omega)]; simp
  · intro q hq hq64
    rw [hb]
    by_cases h64 : t + q < 64
    · rw [hm _ h64, Nat.add_comm]
      have : (q + t) % 4 = t := by omega
      simp [this]
    · have : 64 ≤ q + t := by omega
      rw [BitVec.getLsbD_of_ge c.toBitVec _ (by omega), BitVec.getLsbD_of_ge c.toBitVec _ this]; simp

theorem mask_bits :
    (∀ j, j < 64 → (0x1111111111111111 : UInt64).toBitVec.getLsbD j = decide (j % 4 = 0)) ∧
    (∀ j, j < 64 → (0x2222222222222222 : UInt64).toBitVec.getLsbD j = decide (j % 4 = 1)) ∧
    (∀ j, j < 64 → (0x4444444444444444 : UInt64).toBitVec.getLsbD j = decide (j % 4 = 2)) ∧
    (∀ j, j < 64 → (0x8888888888888888 : UInt64).toBitVec.getLsbD j = decide (j % 4 = 3)) := by decide

theorem expand1_eq (c : UInt64) : expand1 c =
    [((c &&& 0x1111111111111111) <<< UInt64.ofNat 4) - (c &&& 0x1111111111111111),
     (((c &&& 0x2222222222222222) >>> UInt64.ofNat 1) <<< UInt64.ofNat 4) - ((c &&& 0x2222222222222222) >>> UInt64.ofNat 1),
     (((c &&& 0x4444444444444444) >>> UInt64.ofNat 2) <<< UInt64.ofNat 4) - ((c &&& 0x4444444444444444) >>> UInt64.ofNat 2),
     (((c &&& 0x8888888888888888) >>> UInt64.ofNat 3) <<< UInt64.ofNat 4) - ((c &&& 0x8888888888888888) >>> UInt64.ofNat 3)] := by
  simp [expand1, runPrim, run, step, Ex.eval, SqiGen.Aes.ks_expand_prog, SqiGen.Aes.ks_expand_nreg, List.replicate]

theorem shr_zero (x : UInt64) : x >>> UInt64.ofNat 0 = x := by
  apply UInt64.eq_of_toBitVec_eq
  apply BitVec.eq_of_getLsbD_eq
  intro i _
  rw [getLsbD_shr _ _ _ (by decide), Nat.zero_add]

/-- one iteration of br_aes_ct64_skey_expand: bit p of output word t is bit 4⌊p/4⌋ + t of the compressed word -/
theorem expand1_bit (c : UInt64) (t p : Nat) (ht : t < 4) (hp : p < 64) :
    ((expand1 c).getD t 0).toBitVec.getLsbD p = c.toBitVec.getLsbD (4 * (p / 4) + t) := by
  obtain ⟨m0, m1, m2, m3⟩ := mask_bits
  rw [expand1_eq]
  rcases lt4_cases t ht with rfl | rfl | rfl | rfl
  · have h := ymask c 0x1111111111111111 0 (by decide) m0
    rw [shr_zero] at h
    simp only [List.getD_cons_zero]
    rw [mul15U _ h.1 p hp, h.2 _ (by omega) (by omega)]
  · have h := ymask c 0x2222222222222222 1 (by decide) m1
    simp only [List.getD_cons_succ, List.getD_cons_zero]
    rw [mul15U _ h.1 p hp, h.2 _ (by omega) (by omega)]
  · have h := ymask c 0x4444444444444444 2 (by decide) m2
    simp only [List.getD_cons_succ, List.getD_cons_zero]
    rw [mul15U _ h.1 p hp, h.2 _ (by omega) (by omega)]
  · have h := ymask c 0x8888888888888888 3 (by decide) m3
    simp only [List.getD_cons_succ, List.getD_cons_zero]
    rw [mul15U _ h.1 p hp, h.2 _ (by omega) (by omega)]

/-! ### the compression loop -/
def compTab : Bool := (List.range 2).all fun u => (List.range 4).all fun t => (List.range 16).all fun i =>
  symRun SqiGen.Aes.ks_compress_prog sinit (4 + u) (16 * (i % 4) + 4 * (i / 4) + t)
    == some (affOfVars [(i / 4, 8 * (i % 4) + 4 * u + t)])
theorem compTab_ok : compTab = true := by decide +kernel
theorem comp_ok : Prog.ok SqiGen.Aes.ks_compress_nreg SqiGen.Aes.ks_compress_prog = true := by decide +kernel

theorem compress_bit (ws : List UInt64) (hw : ws.length = 4) (u t i : Nat) (hu : u < 2) (ht : t < 4) (hi : i < 16) :
    bitsOf (compress ws) u (16 * (i % 4) + 4 * (i / 4) + t) = bitsOf ws (i / 4) (8 * (i % 4) + 4 * u + t) := by
  have htab := compTab_ok
  unfold compTab at htab
  simp only [List.all_eq_true, List.mem_range, beq_iff_eq] at htab
  unfold compress
  rw [bitsOf_drop_take _ _ _ _ _ hu,
    prim_bit _ _ comp_ok (ws ++ [0, 0]) (by simp [hw]; decide) (4 + u) _ _ (by have : SqiGen.Aes.ks_compress_nreg = 42 := rfl; omega)
      (by omega) (by
        intro v hv
        simp only [List.mem_singleton] at hv
        subst hv
        exact ⟨by simp [hw]; omega, by omega⟩)
      (htab u hu t ht i hi)]
  simp only [List.foldl_cons, List.foldl_nil, Bool.false_bne]
  exact bitsOf_append_left _ _ _ _ (by rw [hw]; omega)

end SqiProofs.AesCt

/- C20 (AES), part 7: four key-schedule words ↦ (compress, expand) ↦ the bitsliced round key in all four lanes. -/
import SqiProofs.AesKey

namespace SqiProofs.AesCt
open SqiModel SqiModel.Bitslice SqiModel.AesCt SqiProofs.Bitslice

theorem expand1_length (c : UInt64) : (expand1 c).length = 4 := by rw [expand1_eq]; rfl

theorem compress_length (ws : List UInt64) (hw : ws.length = 4) : (compress ws).length = 2 := by
  unfold compress runPrim
  simp [run_length, hw, SqiGen.Aes.ks_compress_nreg]

/-- the expanded key words of one round are the bitsliced form of the four schedule words, in every lane -/
theorem roundkey_rep (ws : List UInt64) (hw : ws.length = 4) (blk : Nat) (hb : blk < 4) :
    unslice ((compress ws).flatMap expand1) blk = ws.flatMap enc32le := by
  have hcl := compress_length ws hw
  match hc : compress ws, hcl with
  | [c0, c1], _ =>
    have hc0 : c0 = (compress ws).getD 0 0 := by rw [hc]; rfl
    have hc1 : c1 = (compress ws).getD 1 0 := by rw [hc]; rfl
    rw [words_bytes ws hw]
    unfold unslice
    apply List.map_congr_left
    intro i hi
    have hi' : i < 16 := List.mem_range.mp hi
    apply byte_ext
    intro k hk
    rw [unsliceByte_bit _ _ _ _ hk, enc32le_getD_bit _ _ _ (Nat.mod_lt _ (by decide)) hk]
    simp only [List.flatMap_cons, List.flatMap_nil, List.append_nil]
    have hp : pos i blk < 64 := pos_lt i blk hi' hb
    have h4 : 4 * (pos i blk / 4) = 16 * (i % 4) + 4 * (i / 4) := by unfold pos; omega
    by_cases hk4 : k < 4
    · rw [bitsOf_append_left _ _ _ _ (by rw [expand1_length]; exact hk4)]
      simp only [bitsOf]
      rw [expand1_bit c0 k _ hk4 hp, h4, hc0]
      have := compress_bit ws hw 0 k i (by decide) hk4 hi'
      simp only [bitsOf] at this
      rw [this]; simp
    · rw [bitsOf_append_right _ _ _ _ (by rw [expand1_length]; omega), expand1_length]
      simp only [bitsOf]
      rw [expand1_bit c1 (k - 4) _ (by omega) hp, h4, hc1]
      have := compress_bit ws hw 1 (k - 4) i (by decide) (by omega) hi'
      simp only [bitsOf] at this
      rw [this, show 8 * (i % 4) + 4 * 1 + (k - 4) = 8 * (i % 4) + k by omega]

end SqiProofs.AesCt

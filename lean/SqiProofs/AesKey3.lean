/- C20 (AES), part 8: the word expansion of br_aes_ct64_keysched (uint32 words, RotWord as shifts, `sub_word` through the
   bitsliced S-box, control flow as extracted) = FIPS 197 KeyExpansion for 256-bit keys. -/
import SqiProofs.AesKey2
import SqiProofs.SpongeBits

namespace SqiProofs.AesCt
open SqiModel SqiModel.Bitslice SqiModel.AesCt SqiProofs.Bitslice

set_option maxRecDepth 100000

theorem enc32le_length (x : UInt64) : (enc32le x).length = 4 := by simp [enc32le]

theorem bytes4_ext (l1 l2 : List UInt8) (h1 : l1.length = 4) (h2 : l2.length = 4)
    (h : ∀ r, r < 4 → ∀ k, k < 8 → (l1.getD r 0).toBitVec.getLsbD k = (l2.getD r 0).toBitVec.getLsbD k) : l1 = l2 := by
  match l1, h1, l2, h2 with
  | [a0, a1, a2, a3], _, [b0, b1, b2, b3], _ =>
    have e0 := byte_ext a0 b0 (fun k hk => by simpa using h 0 (by decide) k hk)
    have e1 := byte_ext a1 b1 (fun k hk => by simpa using h 1 (by decide) k hk)
    have e2 := byte_ext a2 b2 (fun k hk => by simpa using h 2 (by decide) k hk)
    have e3 := byte_ext a3 b3 (fun k hk => by simpa using h 3 (by decide) k hk)
    rw [e0, e1, e2, e3]

theorem xorBytes_getD (l1 l2 : List UInt8) (r : Nat) (h1 : r < l1.length) (h2 : r < l2.length) :
    (Aes.xorBytes l1 l2).getD r 0 = l1.getD r 0 ^^^ l2.getD r 0 := by
  simp [Aes.xorBytes, List.getD_eq_getElem?_getD, List.getElem?_zipWith, h1, h2]

theorem xorBytes_length4 (l1 l2 : List UInt8) (h1 : l1.length = 4) (h2 : l2.length = 4) : (Aes.xorBytes l1 l2).length = 4 := by
  simp [Aes.xorBytes, h1, h2]

/-- W1 -/
theorem enc32le_xor (a b : UInt64) : enc32le (a ^^^ b) = Aes.xorBytes (enc32le a) (enc32le b) := by
  apply bytes4_ext _ _ (enc32le_length _) (xorBytes_length4 _ _ (enc32le_length _) (enc32le_length _))
  intro r hr k hk
  rw [xorBytes_getD _ _ _ (by rw [enc32le_length]; exact hr) (by rw [enc32le_length]; exact hr),
    UInt8.toBitVec_xor, BitVec.getLsbD_xor, enc32le_getD_bit _ _ _ hr hk, enc32le_getD_bit _ _ _ hr hk,
    enc32le_getD_bit _ _ _ hr hk, UInt64.toBitVec_xor, BitVec.getLsbD_xor]

theorem mask32_bit (p : Nat) : (0xffffffff : UInt64).toBitVec.getLsbD p = decide (p < 32) := by
  by_cases h : p < 64
  · revert p; decide
  · rw [BitVec.getLsbD_of_ge _ _ (by omega)]; simp; omega

theorem enc32le_byte (c : UInt8) : enc32le c.toUInt64 = [c, 0, 0, 0] := by
  apply bytes4_ext _ _ (enc32le_length _) rfl
  intro r hr k hk
  rw [enc32le_getD_bit _ _ _ hr hk, UInt8.toBitVec_toUInt64, BitVec.getLsbD_setWidth]
  rcases lt4_cases r hr with rfl | rfl | rfl | rfl
  · simp; omega
  · rw [BitVec.getLsbD_of_ge c.toBitVec _ (by omega)]; simp
  · rw [BitVec.getLsbD_of_ge c.toBitVec _ (by omega)]; simp
  · rw [BitVec.getLsbD_of_ge c.toBitVec _ (by omega)]; simp

theorem rot_bit (t : UInt64) (p q : Nat) (hp : p < 32) (h : (p < 24 ∧ q = 8 + p) ∨ (24 ≤ p ∧ q = p - 24)) :
    (rotWordC t).toBitVec.getLsbD p = t.toBitVec.getLsbD q := by
  unfold rotWordC
  simp only [UInt64.toBitVec_and, UInt64.toBitVec_or, BitVec.getLsbD_and, BitVec.getLsbD_or,
    getLsbD_shl _ _ _ (show 24 < 64 by decide), getLsbD_shr _ _ _ (show 8 < 64 by decide), mask32_bit]
  rcases h with ⟨h1, rfl⟩ | ⟨h1, rfl⟩
  · simp [h1, hp, show p < 64 by omega, show 8 + p < 32 by omega]
  · simp [hp, show ¬ p < 24 by omega, show p < 64 by omega, show ¬ 8 + p < 32 by omega, show p - 24 < 32 by omega]

/-- W2: RotWord -/
theorem enc32le_rot (t : UInt64) : enc32le (rotWordC t) = (enc32le t).drop 1 ++ (enc32le t).take 1 := by
  have hlen : ((enc32le t).drop 1 ++ (enc32le t).take 1).length = 4 := by simp [enc32le]
  apply bytes4_ext _ _ (enc32le_length _) hlen
  intro r hr k hk
  have hget : ((enc32le t).drop 1 ++ (enc32le t).take 1).getD r 0 = (enc32le t).getD ((r + 1) % 4) 0 := by
    have : enc32le t = [(enc32le t).getD 0 0, (enc32le t).getD 1 0, (enc32le t).getD 2 0, (enc32le t).getD 3 0] := by
      simp [enc32le, List.range, List.range.loop]
    rw [this]
    rcases lt4_cases r hr with rfl | rfl | rfl | rfl <;> rfl
  rw [hget, enc32le_getD_bit _ _ _ hr hk, enc32le_getD_bit _ _ _ (Nat.mod_lt _ (by decide)) hk]
  apply rot_bit _ _ _ (by omega)
  by_cases h3 : r = 3
  · right; subst h3; constructor <;> omega
  · left; constructor <;> omega

theorem orthoQ_length (q : List UInt64) (hq : q.length = 8) : (orthoQ q).length = 8 :=
  runPrim_take_length _ _ _ (by decide) (by rw [hq]; decide)

def laneI (r : Nat) : Nat := if r = 0 then 0 else if r = 1 then 8 else if r = 2 then 1 else 9
theorem pos_laneI (r : Nat) (hr : r < 4) : pos (laneI r) 0 = 8 * r ∧ laneI r < 16 := by
  rcases lt4_cases r hr with rfl | rfl | rfl | rfl <;> decide

/-- W3: `sub_word` = SubWord -/
theorem enc32le_subWord (x : UInt64) : enc32le (subWordC x) = (enc32le x).map Aes.sbox := by
  apply bytes4_ext _ _ (enc32le_length _) (by simp [enc32le])
  intro r hr k hk
  obtain ⟨hpos, hl16⟩ := pos_laneI r hr
  have hQ0 : ((x &&& 0xffffffff) :: List.replicate 7 (0 : UInt64)).length = 8 := by simp
  have hT := orthoQ_length _ hQ0
  have hS := sboxQ_length _ hT
  have hmap : ((enc32le x).map Aes.sbox).getD r 0 = Aes.sbox ((enc32le x).getD r 0) := by
    simp [List.getD_eq_getElem?_getD, enc32le, hr]
  -- the byte in lane 8r after the first ortho is byte r of x
  have hbyte : unsliceByte (orthoQ ((x &&& 0xffffffff) :: List.replicate 7 0)) (laneI r) 0 = (enc32le x).getD r 0 := by
    apply byte_ext
    intro k' hk'
    rw [unsliceByte_bit _ _ _ _ hk', hpos, orthoQ_bit _ hQ0 k' (8 * r) hk' (by omega), enc32le_getD_bit _ _ _ hr hk']
    have e1 : 8 * r % 8 = 0 := by omega
    have e2 : 8 * (8 * r / 8) + k' = 8 * r + k' := by omega
    rw [e1, e2]
    simp only [bitsOf, List.getD_cons_zero, UInt64.toBitVec_and, BitVec.getLsbD_and, mask32_bit]
    simp [show 8 * r + k' < 32 by omega]
  rw [hmap, ← hbyte, ← sboxQ_eq _ hT (laneI r) 0 hl16 (by decide), unsliceByte_bit _ _ _ _ hk, hpos,
    enc32le_getD_bit _ _ _ hr hk]
  unfold subWordC
  rw [UInt64.toBitVec_and, BitVec.getLsbD_and, mask32_bit]
  have hb := orthoQ_bit _ hS 0 (8 * r + k) (by decide) (by omega)
  simp only [bitsOf] at hb
  have e1 : (8 * r + k) % 8 = k := by omega
  have e2 : 8 * ((8 * r + k) / 8) + 0 = 8 * r := by omega
  rw [hb, e1, e2]
  simp [bitsOf, show 8 * r + k < 32 by omega]

theorem dec32le_bit' (b : List UInt8) (p : Nat) (hp : p < 32) :
    (dec32le b).toBitVec.getLsbD p = (b.getD (p / 8) 0).toBitVec.getLsbD (p % 8) := by
  have hd : dec32le b = ((((0 : UInt64) ||| ((b.getD 0 0).toUInt64 <<< (8 * 0).toUInt64)) ||| ((b.getD 1 0).toUInt64 <<< (8 * 1).toUInt64))
      ||| ((b.getD 2 0).toUInt64 <<< (8 * 2).toUInt64)) ||| ((b.getD 3 0).toUInt64 <<< (8 * 3).toUInt64) := rfl
  rw [hd]
  simp only [UInt64.toBitVec_or, BitVec.getLsbD_or, SqiProofs.Sponge.byteShift_bit _ 0 (by decide),
    SqiProofs.Sponge.byteShift_bit _ 1 (by decide), SqiProofs.Sponge.byteShift_bit _ 2 (by decide),
    SqiProofs.Sponge.byteShift_bit _ 3 (by decide)]
  by_cases h1 : p < 8
  · have e1 : p / 8 = 0 := by omega
    have e2 : p % 8 = p := by omega
    rw [e1, e2]
    simp [h1, show ¬ 8 ≤ p by omega, show ¬ 16 ≤ p by omega, show ¬ 24 ≤ p by omega]
  · by_cases h2 : p < 16
    · have e1 : p / 8 = 1 := by omega
      have e2 : p % 8 = p - 8 := by omega
      rw [e1, e2]
      simp [h1, h2, show 8 ≤ p by omega, show ¬ 16 ≤ p by omega, show ¬ 24 ≤ p by omega]
    · by_cases h3 : p < 24
      · have e1 : p / 8 = 2 := by omega
        have e2 : p % 8 = p - 16 := by omega
        rw [e1, e2]
        simp [h1, h2, h3, show 16 ≤ p by omega, show ¬ 24 ≤ p by omega]
      · have e1 : p / 8 = 3 := by omega
        have e2 : p % 8 = p - 24 := by omega
        rw [e1, e2]
        simp [h1, h2, h3, hp, show 24 ≤ p by omega]

/-- little-endian load: byte r of the string is bits 8r … 8r+7 of the word -/
theorem dec32le_bit (b : List UInt8) (r k : Nat) (hr : r < 4) (hk : k < 8) :
    (dec32le b).toBitVec.getLsbD (8 * r + k) = (b.getD r 0).toBitVec.getLsbD k := by
  rw [dec32le_bit' b _ (by omega), show (8 * r + k) / 8 = r by omega, show (8 * r + k) % 8 = k by omega]

/-- br_range_dec32le then br_range_enc32le is the identity on 4-byte groups -/
theorem enc32le_dec32le (b : List UInt8) (hb : 4 ≤ b.length) : enc32le (dec32le b) = b.take 4 := by
  apply bytes4_ext _ _ (enc32le_length _) (by simp; omega)
  intro r hr k hk
  rw [enc32le_getD_bit _ _ _ hr hk, dec32le_bit b r k hr hk]
  congr 2
  simp [List.getD_eq_getElem?_getD, List.getElem?_take, hr]

/-! ### the expansion loop -/
/-- the kind of step FIPS 197 prescribes for word i of a 256-bit key schedule, in the encoding of `ks_ops` -/
def specKind (i : Nat) : Nat × Nat := if i % 8 = 0 then (1, i / 8 - 1) else if i % 8 = 4 then (2, 0) else (0, 0)

/-- the control flow extracted from the C loop (j, k counters, `nk > 6 && j == 4`) is the FIPS 197 case distinction -/
theorem ks_ops_eq : SqiGen.Aes.ks_ops.zipIdx = (List.range 52).map fun j => (specKind (8 + j), j) := by decide
theorem ks_consts : SqiGen.Aes.ks_nk = 8 ∧ SqiGen.Aes.ks_nkf = 60 ∧ SqiGen.Aes.ks_nrounds = 14 := by decide
theorem rcon_eq : ∀ k, k < 7 → SqiGen.Aes.Rcon.getD k 0 = Aes.gpow 2 k := by decide

def stepS (w : List (List UInt8)) (j : Nat) : List (List UInt8) :=
  let i := 8 + j
  let temp := w.getD (i - 1) []
  let temp :=
    if i % 8 = 0 then
      let rot := temp.drop 1 ++ temp.take 1
      Aes.xorBytes (rot.map Aes.sbox) [Aes.gpow 2 (i / 8 - 1), 0, 0, 0]
    else if 8 > 6 ∧ i % 8 = 4 then temp.map Aes.sbox
    else temp
  w ++ [Aes.xorBytes (w.getD (i - 8) []) temp]

def stepM (st : List UInt64 × UInt64) (x : (Nat × Nat) × Nat) : List UInt64 × UInt64 :=
  let i := SqiGen.Aes.ks_nk + x.2
  let tmp := if x.1.1 = 1 then subWordC (rotWordC st.2) ^^^ (SqiGen.Aes.Rcon.getD x.1.2 0).toUInt64
             else if x.1.1 = 2 then subWordC st.2 else st.2
  let tmp := tmp ^^^ st.1.getD (i - SqiGen.Aes.ks_nk) 0
  (st.1 ++ [tmp], tmp)

def KInv (st : List UInt64 × UInt64) (w : List (List UInt8)) (n : Nat) : Prop :=
  w = st.1.map enc32le ∧ st.1.length = n ∧ st.2 = st.1.getD (n - 1) 0

theorem getD_map_enc (ws : List UInt64) (i : Nat) (h : i < ws.length) :
    (ws.map enc32le).getD i [] = enc32le (ws.getD i 0) := by
  simp [List.getD_eq_getElem?_getD, h]

theorem xorBytes_comm (a b : List UInt8) : Aes.xorBytes a b = Aes.xorBytes b a := by
  unfold Aes.xorBytes
  induction a generalizing b with
  | nil => cases b <;> rfl
  | cons x xs ih =>
    cases b with
    | nil => rfl
    | cons y ys => simp only [List.zipWith_cons_cons, ih ys, UInt8.xor_comm]

/-- the new schedule word: the C step (by kind) and the FIPS 197 step agree on the little-endian bytes -/
theorem new_word (tmp prev : UInt64) (i : Nat) (hi : i / 8 - 1 < 7) :
    enc32le ((if (specKind i).1 = 1 then subWordC (rotWordC tmp) ^^^ (SqiGen.Aes.Rcon.getD (specKind i).2 0).toUInt64
              else if (specKind i).1 = 2 then subWordC tmp else tmp) ^^^ prev)
      = Aes.xorBytes (enc32le prev)
          (if i % 8 = 0 then
              Aes.xorBytes (((enc32le tmp).drop 1 ++ (enc32le tmp).take 1).map Aes.sbox) [Aes.gpow 2 (i / 8 - 1), 0, 0, 0]
            else if 8 > 6 ∧ i % 8 = 4 then (enc32le tmp).map Aes.sbox else enc32le tmp) := by
  rw [enc32le_xor, xorBytes_comm]
  congr 1
  by_cases h0 : i % 8 = 0
  · have hkind : specKind i = (1, i / 8 - 1) := by simp [specKind, h0]
    rw [hkind]
    simp only [h0, if_true]
    rw [enc32le_xor, enc32le_subWord, enc32le_rot, enc32le_byte, rcon_eq _ hi]
  · by_cases h4 : i % 8 = 4
    · have hkind : specKind i = (2, 0) := by simp [specKind, h4]
      rw [hkind]
      simp only [h0, h4, if_false, if_true, show (8 : Nat) > 6 from by decide, true_and, and_self,
        show ¬ (2 : Nat) = 1 by decide, show ¬ (4 : Nat) = 0 by decide]
      rw [enc32le_subWord]
    · have hkind : specKind i = (0, 0) := by simp [specKind, h0, h4]
      rw [hkind]
      simp only [h0, h4, if_false, and_false, show ¬ (0 : Nat) = 1 by decide, show ¬ (0 : Nat) = 2 by decide]

theorem step_inv (st : List UInt64 × UInt64) (w : List (List UInt8)) (j : Nat) (hj : j < 52) (h : KInv st w (8 + j)) :
    KInv (stepM st (specKind (8 + j), j)) (stepS w j) (8 + j + 1) := by
  obtain ⟨hw, hlen, htmp⟩ := h
  have hk := ks_consts.1
  have g1 : w.getD (8 + j - 1) [] = enc32le st.2 := by
    rw [hw, getD_map_enc _ _ (by omega), htmp]
  have g2 : w.getD (8 + j - 8) [] = enc32le (st.1.getD (8 + j - 8) 0) := by
    rw [hw, getD_map_enc _ _ (by omega)]
  refine ⟨?_, by simp [stepM, hlen], by simp [stepM, hlen, List.getD_eq_getElem?_getD]⟩
  have nw := new_word st.2 (st.1.getD (8 + j - 8) 0) (8 + j) (by omega)
  unfold stepS stepM
  simp only [g1, g2, hk, List.map_append, List.map_cons, List.map_nil, ← hw, nw]

theorem fold_inv (n : Nat) (hn : n ≤ 52) (st : List UInt64 × UInt64) (w : List (List UInt8)) (h : KInv st w 8) :
    KInv ((List.range n).foldl (fun st j => stepM st (specKind (8 + j), j)) st) ((List.range n).foldl stepS w) (8 + n) := by
  induction n with
  | zero => exact h
  | succ n ih =>
    rw [List.range_succ, List.foldl_append, List.foldl_append]
    exact step_inv _ _ n (by omega) (ih (by omega))

/-- the 60 schedule words of the C code, written little-endian, are the words w[0..59] of FIPS 197 KeyExpansion -/
theorem expandWords_eq (key : List UInt8) (hk : key.length = 32) :
    (expandWords key).map enc32le = Aes.keyExpansion key 14 := by
  have hc := ks_consts
  have hw0 : ((List.range 8).map fun i => dec32le (key.drop (4 * i))).map enc32le
      = (List.range 8).map fun i => (key.drop (4 * i)).take 4 := by
    rw [List.map_map]
    apply List.map_congr_left
    intro i hi
    have : i < 8 := List.mem_range.mp hi
    exact enc32le_dec32le _ (by simp [hk]; omega)
  have hinv : KInv ((List.range 8).map (fun i => dec32le (key.drop (4 * i))),
      ((List.range 8).map fun i => dec32le (key.drop (4 * i))).getD 7 0)
      ((List.range 8).map fun i => (key.drop (4 * i)).take 4) 8 := ⟨hw0.symm, by simp, rfl⟩
  have hf := fold_inv 52 (Nat.le_refl _) _ _ hinv
  have e : expandWords key = ((SqiGen.Aes.ks_ops.zipIdx).foldl stepM
      ((List.range SqiGen.Aes.ks_nk).map (fun i => dec32le (key.drop (4 * i))),
       ((List.range SqiGen.Aes.ks_nk).map fun i => dec32le (key.drop (4 * i))).getD (SqiGen.Aes.ks_nk - 1) 0)).1 := rfl
  rw [e, ks_ops_eq, List.foldl_map, hc.1]
  have hspec : Aes.keyExpansion key 14 = (List.range 52).foldl stepS ((List.range 8).map fun i => (key.drop (4 * i)).take 4) := by
    unfold Aes.keyExpansion
    simp only [hk]
    rfl
  rw [hspec]
  exact hf.1.symm

end SqiProofs.AesCt

/- C20 (AES): facts about the FIPS 197 *specification* only (independent of the generated code, hence cached):
   the computed S-box (GF(2^8) inverse + affine map) equals the table of FIPS 197 Figure 7; bit-level description of xtime. -/
import SqiModel.Aes

namespace SqiProofs.AesSpec
open SqiModel

set_option maxRecDepth 100000

def sboxTableOk : Bool := (List.range 256).all fun n => Aes.sbox (UInt8.ofNat n) == UInt8.ofNat (Aes.sboxTable.getD n 0)
theorem sboxTableOk_true : sboxTableOk = true := by decide +kernel

/-- the S-box defined by inversion and the affine map is the table of FIPS 197 Figure 7 -/
theorem sbox_table (n : Nat) (h : n < 256) : Aes.sbox (UInt8.ofNat n) = UInt8.ofNat (Aes.sboxTable.getD n 0) := by
  have := sboxTableOk_true
  unfold sboxTableOk at this
  rw [List.all_eq_true] at this
  simpa using this n (List.mem_range.mpr h)

def xtimeBitsOk : Bool := (List.range 256).all fun n => (List.range 8).all fun b =>
  (Aes.xtime (UInt8.ofNat n)).toBitVec.getLsbD b ==
    ((decide (0 < b) && n.testBit (b - 1)) != ((b == 0 || b == 1 || b == 3 || b == 4) && n.testBit 7))
theorem xtimeBitsOk_true : xtimeBitsOk = true := by decide +kernel

end SqiProofs.AesSpec

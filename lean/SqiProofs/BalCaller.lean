/-
The caller `theta_chain_comput_balanced`: the integer constants re-extracted from its C text
(`SqiGen.BalCaller`, tools/translate/balcaller.py) equal the ones the hand model `SqiModel.ThetaChain.balanced` /
`balancedCap` assumes, and the corollary of `balanced_skel_sound` stated with the generated values.
-/
import SqiGen.BalCaller
import SqiProofs.SkelRecSim

namespace SqiProofs.BalCaller
open SqiGen.BalCaller SqiModel.ThetaChain SqiModel.SkelRec SqiGen.ChainSkel

/-- the C loop `for (log = 0; len > 1; len >>= 1) log++` computes `⌊log2 len⌋` (any fuel ≥ len) -/
theorem logLoop_eq : ∀ (f m acc : Nat), m ≤ f → logLoop f (m : Int) (acc : Int) = ((acc + m.log2 : Nat) : Int) := by
  intro f
  induction f with
  | zero =>
    intro m acc h
    have : m = 0 := by omega
    subst this
    simp [logLoop]
  | succ f ih =>
    intro m acc h
    unfold logLoop
    by_cases h2 : 2 ≤ m
    · have hc : (m : Int) > 1 := by omega
      have hs : (m : Int) >>> (1 : Nat) = ((m / 2 : Nat) : Int) := by
        rw [Int.shiftRight_eq_div_pow]; simp
      rw [if_pos hc, hs]
      have := ih (m / 2) (acc + 1) (by omega)
      rw [show ((acc : Int) + 1) = ((acc + 1 : Nat) : Int) by simp, this]
      have hl : m.log2 = (m / 2).log2 + 1 := by
        rw [Nat.log2_def m]; simp [h2]
      rw [hl]; congr 1; omega
    · have hc : ¬ (m : Int) > 1 := by omega
      rw [if_neg hc]
      have hl : m.log2 = 0 := by
        rw [Nat.log2_def m]; simp [h2]
      rw [hl]; simp

/-- the stack-depth expression of the C text, `10 * log + 1` after the `log` loop started at `len = n - 3`,
    is the hand model's `balancedCap n` (both stacks) -/
theorem stackSize_eq (lf n : Nat) (hn : 4 ≤ n) (hlf : n - 3 ≤ lf) :
    stack1Size n (logLoop lf (lenInit n) logInit) = (balancedCap n : Int) ∧
    stack2Size n (logLoop lf (lenInit n) logInit) = (balancedCap n : Int) := by
  have h3 : lenInit (n : Int) = ((n - 3 : Nat) : Int) := by unfold lenInit; omega
  have := logLoop_eq lf (n - 3) 0 hlf
  simp only [Nat.zero_add] at this
  rw [h3, show logInit = ((0 : Nat) : Int) from rfl, this]
  unfold stack1Size stack2Size balancedCap
  constructor <;> simp

/-- **everything `balcaller.py` re-extracts from the text of `theta_chain_comput_balanced` equals what the hand model
    `balanced n` / `balancedCap n` / the entry state of `balanced_skel_sound` assume**, for every n ≥ 4 -/
theorem caller_matches_model (lf n : Nat) (hn : 4 ≤ n) (hlf : n - 3 ≤ lf) :
    -- (a) stack depth
    stack1Size n (logLoop lf (lenInit n) logInit) = (balancedCap n : Int) ∧
    stack2Size n (logLoop lf (lenInit n) logInit) = (balancedCap n : Int) ∧
    -- (c) arguments of the call of theta_chain_comput_rec, entry slot of the stacks, kernel = [2^2]Q
    recLen n = ((n - 3 : Nat) : Int) ∧ recIndex n = ((0 : Nat) : Int) ∧ recAdvance n = 0 ∧
    recStacklen n = (([n + 1].length : Nat) : Int) ∧ recTotal n = (n : Int) ∧
    stack1Push n = 0 ∧ stack2Push n = 0 ∧ stack1Pop n = 0 ∧ stack2Pop n = 0 ∧
    kernelDbl1 n = 2 ∧ kernelDbl2 n = 2 ∧
    -- (b) element counts of steps (VLA and malloc agree)
    stepsVla n = stepsMalloc n ∧ stepsMalloc n = ((n - 1 : Nat) : Int) ∧
    -- (d) the trailing loop continues exactly where the recursion stops and ends at the last element of steps
    tailLo n = recIndex n + recLen n ∧ tailHi n = stepsMalloc n ∧ splitIdx n = stepsMalloc n - 1 := by
  obtain ⟨s1, s2⟩ := stackSize_eq lf n hn hlf
  refine ⟨s1, s2, ?_, rfl, rfl, rfl, rfl, rfl, rfl, rfl, rfl, rfl, rfl, rfl, ?_, ?_, rfl, ?_⟩
  · unfold recLen; omega
  · unfold stepsMalloc; omega
  · unfold tailLo recIndex recLen; omega
  · unfold splitIdx stepsMalloc; omega

/-- the trailing loop `for (int i = n - 3; i < n - 1; i++)`: every `out->steps[…]` of its body is inside the allocation
    and every `double_iter` count is non-negative; it doubles the carried point (exponent 4, then 3 after the push
    through step n-3) down to a kernel of exponent 3 in both iterations -/
theorem tail_in_bounds (n : Nat) (hn : 4 ≤ n) (i : Int) (hlo : tailLo n ≤ i) (hhi : i < tailHi n) :
    (∀ j ∈ tailStepIdx n i, 0 ≤ j ∧ j < stepsMalloc n) ∧ (∀ d ∈ tailDbl n i, 0 ≤ d) ∧
    tailDbl n (tailLo n) = [4 - 3, 4 - 3] ∧ tailDbl n (tailLo n + 1) = [3 - 3, 3 - 3] ∧ tailLo n + 2 = tailHi n := by
  unfold tailLo at hlo
  unfold tailHi at hhi
  refine ⟨?_, ?_, ?_, ?_, ?_⟩
  · intro j hj
    simp only [tailStepIdx, List.mem_cons, List.mem_nil_iff, or_false, or_self] at hj
    subst hj; unfold stepsMalloc; omega
  · intro d hd
    simp only [tailDbl, List.mem_cons, List.mem_nil_iff, or_false, or_self] at hd
    subst hd; omega
  · show [(n : Int) - (n - 3) - 2, (n : Int) - (n - 3) - 2] = [4 - 3, 4 - 3]
    have : (n : Int) - (n - 3) - 2 = 4 - 3 := by omega
    rw [this]
  · show [(n : Int) - (n - 3 + 1) - 2, (n : Int) - (n - 3 + 1) - 2] = [3 - 3, 3 - 3]
    have : (n : Int) - (n - 3 + 1) - 2 = 3 - 3 := by omega
    rw [this]
  · unfold tailLo tailHi; omega

/-- `balanced_skel_sound` with the entry state and the arguments the caller's text gives: stack size from the generated
    depth expression, arguments of the generated call.  Additionally every step index the recursion touches is inside
    the `n - 1` elements the caller allocates for `out->steps` (the observer itself uses the looser bound
    `total_length = n`), and the splitting step reads the last element. -/
theorem balanced_caller_sound (oracle : Nat → Bool) (fuel lf n : Nat) (hn : 4 ≤ n) (hf : balancedCap n ≤ fuel)
    (hlf : n - 3 ≤ lf) :
    ∃ k, k = theta_chain_comput_rec obs [] oracle fuel (n + 1) (recLen n) (recIndex n) (recAdvance n) (recStacklen n)
        (recTotal n) 0 0 0 0
        (RecSt.init (OSt.entry (stack1Size n (logLoop lf (lenInit n) logInit)).toNat n (n + 1 - (kernelDbl1 n).toNat) [n + 1])) ∧
    k.fault = none ∧ k.obs.bad = false ∧
    k.obs.steps.map (fun s => s.1) = (List.range' 0 (n - 3)).map (fun (i : Nat) => (i : Int)) ∧
    (∀ s ∈ k.obs.steps, s.2.1 = 3) ∧ k.obs.p1 (stack1Pop n) = some 4 ∧ k.obs.p2 (stack2Pop n) = some 4 ∧
    (∀ s ∈ k.obs.steps, 0 ≤ s.1 ∧ s.1 < tailLo n ∧ s.1 < stepsMalloc n) ∧
    0 ≤ splitIdx n ∧ splitIdx n < stepsMalloc n := by
  obtain ⟨k, hk, h1, h2, h3, h4, h5, h6⟩ := SqiProofs.SkelRecSim.balanced_skel_sound oracle fuel n hn hf
  obtain ⟨s1, -⟩ := stackSize_eq lf n hn hlf
  refine ⟨k, ?_, h1, h2, h3, h4, h5, h6, ?_, ?_, ?_⟩
  · have hl : recLen (n : Int) = ((n - 3 : Nat) : Int) := by unfold recLen; omega
    rw [hk, s1, hl, Int.toNat_natCast]
    rfl
  · intro s hs
    have : s.1 ∈ k.obs.steps.map (fun s => s.1) := List.mem_map_of_mem hs
    rw [h3] at this
    obtain ⟨i, hi, hie⟩ := List.mem_map.mp this
    have := List.mem_range'_1.mp hi
    unfold tailLo stepsMalloc
    omega
  · unfold splitIdx; omega
  · unfold splitIdx stepsMalloc; omega

/-- the set of `out->steps` indices written by the recursion (as translated, from the caller's entry state) together with
    the caller's trailing loop is EXACTLY {0, …, n-2} = {0, …, stepsMalloc n - 1} -/
theorem steps_written_exact (oracle : Nat → Bool) (fuel lf n : Nat) (hn : 4 ≤ n) (hf : balancedCap n ≤ fuel)
    (hlf : n - 3 ≤ lf) (j : Int) :
    let k := theta_chain_comput_rec obs [] oracle fuel (n + 1) (recLen n) (recIndex n) (recAdvance n) (recStacklen n)
        (recTotal n) 0 0 0 0
        (RecSt.init (OSt.entry (stack1Size n (logLoop lf (lenInit n) logInit)).toNat n (n + 1 - (kernelDbl1 n).toNat) [n + 1]))
    (j ∈ k.obs.steps.map (fun s => s.1) ∨ ∃ i, tailLo n ≤ i ∧ i < tailHi n ∧ j ∈ tailStepIdx n i) ↔
      (0 ≤ j ∧ j < stepsMalloc n) := by
  intro k
  obtain ⟨k', hk', -, -, h3, -⟩ := balanced_caller_sound oracle fuel lf n hn hf hlf
  have hkk : k = k' := hk'.symm
  rw [hkk, h3]
  unfold tailLo tailHi stepsMalloc
  constructor
  · rintro (h | ⟨i, h1, h2, h⟩)
    · obtain ⟨m, hm, rfl⟩ := List.mem_map.mp h
      have := List.mem_range'_1.mp hm
      omega
    · simp only [tailStepIdx, List.mem_cons, List.mem_nil_iff, or_false, or_self] at h
      subst h; omega
  · rintro ⟨h0, h1⟩
    by_cases hj : j < (n : Int) - 3
    · left
      refine List.mem_map.mpr ⟨j.toNat, List.mem_range'_1.mpr (by omega), by omega⟩
    · right
      exact ⟨j, by omega, h1, by simp [tailStepIdx]⟩

/-- hence `n - 1` is the LEAST sufficient element count for `out->steps`: an allocation of `a` elements contains every
    written index iff `stepsMalloc n ≤ a`; in particular with `n - 2` elements the index `n - 2` written by the last
    iteration of the trailing loop is outside -/
theorem steps_alloc_tight (oracle : Nat → Bool) (fuel lf n : Nat) (hn : 4 ≤ n) (hf : balancedCap n ≤ fuel)
    (hlf : n - 3 ≤ lf) (a : Int) :
    let k := theta_chain_comput_rec obs [] oracle fuel (n + 1) (recLen n) (recIndex n) (recAdvance n) (recStacklen n)
        (recTotal n) 0 0 0 0
        (RecSt.init (OSt.entry (stack1Size n (logLoop lf (lenInit n) logInit)).toNat n (n + 1 - (kernelDbl1 n).toNat) [n + 1]))
    (∀ j, (j ∈ k.obs.steps.map (fun s => s.1) ∨ ∃ i, tailLo n ≤ i ∧ i < tailHi n ∧ j ∈ tailStepIdx n i) → j < a) ↔
      stepsMalloc n ≤ a := by
  intro k
  have H := steps_written_exact oracle fuel lf n hn hf hlf
  constructor
  · intro h
    have := h (stepsMalloc n - 1) ((H _).mpr (by unfold stepsMalloc; omega))
    omega
  · intro h j hj
    have := (H j).mp hj
    omega

/-- witness form of the negation: the trailing loop writes `out->steps[n - 2]`, outside an allocation of `n - 2` elements -/
theorem steps_alloc_short_fails (n : Nat) (hn : 4 ≤ n) :
    ∃ i, tailLo n ≤ i ∧ i < tailHi n ∧ ∃ j ∈ tailStepIdx n i, ¬ j < stepsMalloc n - 1 := by
  refine ⟨(n : Int) - 2, by unfold tailLo; omega, by unfold tailHi; omega, (n : Int) - 2, by simp [tailStepIdx], ?_⟩
  unfold stepsMalloc; omega

end SqiProofs.BalCaller

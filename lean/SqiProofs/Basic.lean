/- lemma library root (Mathlib modules imported one at a time in the files below) -/

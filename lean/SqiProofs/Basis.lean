/-
Lemmas about the hint-search model (SqiModel.Basis): loop invariants of the two nested searches.
Core-only.
-/
import SqiModel.Basis
set_option linter.unusedSimpArgs false

namespace SqiProofs.Basis
open SqiModel.Basis

variable {Fp : Type}

/-- the only arithmetic fact about GF(p) the round trip needs: adding one to `fp_set_small n` gives `fp_set_small (n+1)` -/
def Add1Small (E : Env Fp) : Prop := ∀ n, E.add1 (E.setSmall n) = E.setSmall (n + 1)

theorem readTab_ok {tab : List (Fp × Fp)} {i : Nat} {x : Fp × Fp}
    (h : readTab tab (i : Int) = .ok x) : tab[i]? = some x := by
  unfold readTab at h
  simp only [Int.natCast_nonneg, if_true, Int.toNat_natCast] at h
  split at h
  · next y hy => cases h; exact hy
  · cases h

theorem readTab_of_get {tab : List (Fp × Fp)} {i : Nat} {x : Fp × Fp}
    (h : tab[i]? = some x) : readTab tab (i : Int) = .ok x := by
  unfold readTab
  simp only [Int.natCast_nonneg, if_true, Int.toNat_natCast, h]

/-! ### not above -/

theorem naInner_spec (E : Env Fp) (hA : Add1Small E) :
    ∀ (fuel hint : Nat) (x : Fp × Fp) (h : Nat) (x' : Fp × Fp),
      1 ≤ hint → x = (E.setSmall (hint - 1), E.one) →
      naInner E fuel hint x = .ok (h, x') →
      hint ≤ h ∧ x' = (E.setSmall h, E.one) ∧ E.sq x' = false ∧
      ∀ k, hint ≤ k → k < h → E.sq (E.setSmall k, E.one) = true := by
  intro fuel
  induction fuel with
  | zero => intro hint x h x' _ _ hr; simp [naInner] at hr
  | succ n ih =>
    intro hint x h x' h1 hx hr
    unfold naInner at hr
    have hx' : (E.add1 x.1, x.2) = (E.setSmall hint, E.one) := by
      subst hx
      show (E.add1 (E.setSmall (hint - 1)), E.one) = _
      rw [hA]; congr 2; omega
    rw [hx'] at hr
    by_cases hs : E.sq (E.setSmall hint, E.one) = false
    · simp only [hs, if_true] at hr
      cases hr
      exact ⟨Nat.le_refl _, rfl, hs, fun k hk hk' => absurd hk (by omega)⟩
    · simp only [hs, if_false] at hr
      have hs' : E.sq (E.setSmall hint, E.one) = true := by
        cases hv : E.sq (E.setSmall hint, E.one) <;> simp_all
      obtain ⟨a, b, c, d⟩ := ih (hint + 1) _ h x' (by omega) (by simp) hr
      refine ⟨by omega, b, c, ?_⟩
      intro k hk hk'
      by_cases hkk : k = hint
      · subst hkk; exact hs'
      · exact d k (by omega) hk'

theorem naOuter_spec (E : Env Fp) (hA : Add1Small E) (oc : Nat → Fp × Fp → Bool) (tab : List (Fp × Fp)) :
    ∀ (fuel hint : Nat) (x : Fp × Fp) (h : Nat) (x' : Fp × Fp),
      (NTAB < hint → x = (E.setSmall (hint - 1), E.one)) →
      naOuter E oc tab fuel hint x = .ok (h, x') →
      hint ≤ h ∧ naCand E tab h = some x' ∧ naGood E oc tab h = true ∧
      ∀ k, hint ≤ k → k < h → naGood E oc tab k = false := by
  intro fuel
  induction fuel with
  | zero => intro hint x h x' _ hr; simp [naOuter] at hr
  | succ n ih =>
    intro hint x h x' hinv hr
    unfold naOuter at hr
    by_cases hlt : hint < NTAB
    · simp only [hlt, if_true] at hr
      cases hrt : readTab tab (hint : Int) with
      | oob => simp [hrt] at hr
      | fuel => simp [hrt] at hr
      | ok t =>
        simp only [hrt] at hr
        have hget := readTab_ok hrt
        have hcand : naCand E tab hint = some t := by simp [naCand, hlt, hget]
        by_cases hoc : oc hint t = true
        · simp only [hoc, if_true] at hr
          cases hr
          refine ⟨Nat.le_refl _, hcand, ?_, fun k hk hk' => absurd hk (by omega)⟩
          simp [naGood, hcand, hlt, hoc]
        · simp only [hoc, if_false] at hr
          obtain ⟨a, b, c, d⟩ := ih (hint + 1) t h x' (by intro hh; unfold NTAB at *; omega) hr
          refine ⟨by omega, b, c, ?_⟩
          intro k hk hk'
          by_cases hkk : k = hint
          · subst hkk
            have : oc k t = false := by cases hv : oc k t <;> simp_all
            simp [naGood, hcand, this]
          · exact d k (by omega) hk'
    · simp only [hlt, if_false] at hr
      have hx0 : (if hint = NTAB then (E.setSmall (hint - 1), E.one) else x) = (E.setSmall (hint - 1), E.one) := by
        by_cases he : hint = NTAB
        · simp [he]
        · simp only [he, if_false]; exact hinv (by omega)
      rw [hx0] at hr
      cases hin : naInner E n hint (E.setSmall (hint - 1), E.one) with
      | oob => simp [hin] at hr
      | fuel => simp [hin] at hr
      | ok r =>
        obtain ⟨h1, x1⟩ := r
        simp only [hin] at hr
        obtain ⟨a1, b1, c1, d1⟩ := naInner_spec E hA n hint _ h1 x1 (by unfold NTAB at hlt; omega) rfl hin
        have hge : ¬ h1 < NTAB := by omega
        have hcand : naCand E tab h1 = some x1 := by simp [naCand, hge, b1]
        have hbad : ∀ k, hint ≤ k → k < h1 → naGood E oc tab k = false := by
          intro k hk hk'
          have hk2 : ¬ k < NTAB := by omega
          simp [naGood, naCand, hk2, d1 k hk hk']
        by_cases hoc : oc h1 x1 = true
        · simp only [hoc, if_true] at hr
          cases hr
          refine ⟨a1, hcand, ?_, hbad⟩
          simp [naGood, hcand, hge, c1, hoc]
        · simp only [hoc, if_false] at hr
          obtain ⟨a, b, c, d⟩ := ih (h1 + 1) x1 h x' (by intro _; simpa using b1) hr
          refine ⟨by omega, b, c, ?_⟩
          intro k hk hk'
          by_cases hk1 : k < h1
          · exact hbad k hk hk1
          · by_cases hkk : k = h1
            · subst hkk
              have : oc k x1 = false := by cases hv : oc k x1 <;> simp_all
              simp [naGood, hcand, this]
            · exact d k (by omega) hk'

/-- the guard of a table read is exactly "0 ≤ hint < 20" -/
def GuardOK (g : Int → Bool) : Prop := ∀ h : Int, g h = true ↔ (0 ≤ h ∧ h < (NTAB : Int))

theorem toDigit_nat (h : Nat) : toDigit (h : Int) = h := by
  unfold toDigit
  have : ¬ ((h : Int) < 0) := by omega
  simp only [this, if_false, Int.toNat_natCast]

theorem naFromHint_of_cand (E : Env Fp) (g : Int → Bool) (hg : GuardOK g) (tab : List (Fp × Fp)) (h : Nat) (x : Fp × Fp)
    (hc : naCand E tab h = some x) : naFromHint E g tab (h : Int) = .ok x := by
  unfold naFromHint
  unfold naCand at hc
  by_cases hlt : h < NTAB
  · have : g (h : Int) = true := (hg h).mpr ⟨Int.natCast_nonneg _, by exact_mod_cast hlt⟩
    simp only [this, if_true]
    simp only [hlt, if_true] at hc
    exact readTab_of_get hc
  · have hgf : g (h : Int) = false := by
      cases hv : g (h : Int) with
      | false => rfl
      | true => exact absurd (by exact_mod_cast ((hg h).mp hv).2) hlt
    simp only [hgf, Bool.false_eq_true, if_false, toDigit_nat h]
    simp only [hlt, if_false] at hc
    cases hc; rfl

/-! ### above -/

theorem abInner_spec (E : Env Fp) (hA : Add1Small E) :
    ∀ (fuel hint : Nat) (z1 z2 : Fp × Fp) (h : Nat) (z1' z2' : Fp × Fp),
      2 ≤ hint → z1 = (E.setSmall (hint - 2), E.one) → z2 = (E.setSmall (hint - 1), E.one) →
      abInner E fuel hint z1 z2 = .ok (h, z1', z2') →
      hint ≤ h ∧ z1' = (E.setSmall (h - 1), E.one) ∧ z2' = (E.setSmall h, E.one) ∧
      (E.sq z2' && !E.sq z1') = true ∧
      ∀ k, hint ≤ k → k < h → (E.sq (E.setSmall k, E.one) && !E.sq (E.setSmall (k - 1), E.one)) = false := by
  intro fuel
  induction fuel with
  | zero => intro hint z1 z2 h z1' z2' _ _ _ hr; simp [abInner] at hr
  | succ n ih =>
    intro hint z1 z2 h z1' z2' h2 hz1 hz2 hr
    unfold abInner at hr
    have e1 : (E.add1 z1.1, z1.2) = (E.setSmall (hint - 1), E.one) := by
      subst hz1
      show (E.add1 (E.setSmall (hint - 2)), E.one) = _
      rw [hA]; congr 2; omega
    have e2 : (E.add1 z2.1, z2.2) = (E.setSmall hint, E.one) := by
      subst hz2
      show (E.add1 (E.setSmall (hint - 1)), E.one) = _
      rw [hA]; congr 2; omega
    rw [e1, e2] at hr
    by_cases hs : (E.sq (E.setSmall hint, E.one) && !E.sq (E.setSmall (hint - 1), E.one)) = true
    · simp only [hs, if_true] at hr
      cases hr
      exact ⟨Nat.le_refl _, rfl, rfl, hs, fun k hk hk' => absurd hk (by omega)⟩
    · simp only [hs, if_false] at hr
      have hs' : (E.sq (E.setSmall hint, E.one) && !E.sq (E.setSmall (hint - 1), E.one)) = false := by
        cases hv : (E.sq (E.setSmall hint, E.one) && !E.sq (E.setSmall (hint - 1), E.one)) <;> simp_all
      obtain ⟨a, b, c, d, e⟩ := ih (hint + 1) _ _ h z1' z2' (by omega)
        (by show _ = (E.setSmall (hint + 1 - 2), E.one); congr 2)
        (by show _ = (E.setSmall (hint + 1 - 1), E.one); congr 2) hr
      refine ⟨by omega, b, c, d, ?_⟩
      intro k hk hk'
      by_cases hkk : k = hint
      · subst hkk; exact hs'
      · exact e k (by omega) hk'

theorem abOuter_spec (E : Env Fp) (hA : Add1Small E) (oc : Nat → Fp × Fp → Bool)
    (mulAlpha : Fp × Fp → Fp × Fp) (ztab : List (Fp × Fp)) :
    ∀ (fuel hint : Nat) (z1 z2 : Fp × Fp) (h : Nat) (x' : Fp × Fp),
      (NTAB < hint → z1 = (E.setSmall (hint - 2), E.one) ∧ z2 = (E.setSmall (hint - 1), E.one)) →
      abOuter E oc mulAlpha ztab fuel hint z1 z2 = .ok (h, x') →
      hint ≤ h ∧ (abZ2 E ztab h).map mulAlpha = some x' ∧ abGood E oc mulAlpha ztab h = true ∧
      ∀ k, hint ≤ k → k < h → abGood E oc mulAlpha ztab k = false := by
  intro fuel
  induction fuel with
  | zero => intro hint z1 z2 h x' _ hr; simp [abOuter] at hr
  | succ n ih =>
    intro hint z1 z2 h x' hinv hr
    unfold abOuter at hr
    by_cases hlt : hint < NTAB
    · simp only [hlt, if_true] at hr
      cases hrt : readTab ztab (hint : Int) with
      | oob => simp [hrt] at hr
      | fuel => simp [hrt] at hr
      | ok t =>
        simp only [hrt] at hr
        have hget := readTab_ok hrt
        have hz : abZ2 E ztab hint = some t := by simp [abZ2, hlt, hget]
        by_cases hoc : oc hint (mulAlpha t) = true
        · simp only [hoc, if_true] at hr
          cases hr
          refine ⟨Nat.le_refl _, by simp [hz], ?_, fun k hk hk' => absurd hk (by omega)⟩
          simp [abGood, hz, hlt, hoc]
        · simp only [hoc, if_false] at hr
          obtain ⟨a, b, c, d⟩ := ih (hint + 1) z1 t h x' (by intro hh; unfold NTAB at *; omega) hr
          refine ⟨by omega, b, c, ?_⟩
          intro k hk hk'
          by_cases hkk : k = hint
          · subst hkk
            have : oc k (mulAlpha t) = false := by cases hv : oc k (mulAlpha t) <;> simp_all
            simp [abGood, hz, this]
          · exact d k (by omega) hk'
    · simp only [hlt, if_false] at hr
      have hz1 : (if hint = NTAB then (E.setSmall (hint - 2), E.one) else z1) = (E.setSmall (hint - 2), E.one) := by
        by_cases he : hint = NTAB
        · simp [he]
        · simp only [he, if_false]; exact (hinv (by omega)).1
      have hz2 : (if hint = NTAB then (E.setSmall (hint - 1), E.one) else z2) = (E.setSmall (hint - 1), E.one) := by
        by_cases he : hint = NTAB
        · simp [he]
        · simp only [he, if_false]; exact (hinv (by omega)).2
      rw [hz1, hz2] at hr
      cases hin : abInner E n hint (E.setSmall (hint - 2), E.one) (E.setSmall (hint - 1), E.one) with
      | oob => simp [hin] at hr
      | fuel => simp [hin] at hr
      | ok r =>
        obtain ⟨h1, y1, y2⟩ := r
        simp only [hin] at hr
        obtain ⟨a1, b1, c1, d1, e1⟩ := abInner_spec E hA n hint _ _ h1 y1 y2 (by unfold NTAB at hlt; omega) rfl rfl hin
        have hge : ¬ h1 < NTAB := by omega
        have hz : abZ2 E ztab h1 = some y2 := by simp [abZ2, hge, c1]
        have hd1 : (E.sq (E.setSmall h1, E.one) && !E.sq (E.setSmall (h1 - 1), E.one)) = true := by
          rw [b1, c1] at d1; exact d1
        have hbad : ∀ k, hint ≤ k → k < h1 → abGood E oc mulAlpha ztab k = false := by
          intro k hk hk'
          have hk2 : ¬ k < NTAB := by omega
          have := e1 k hk hk'
          simp only [abGood, abZ2, hk2, if_false, decide_false, Bool.false_or, this, Bool.false_and]
        by_cases hoc : oc h1 (mulAlpha y2) = true
        · simp only [hoc, if_true] at hr
          cases hr
          refine ⟨a1, by simp [hz], ?_, hbad⟩
          simp only [abGood, hz, hge, decide_false, Bool.false_or, hoc, Bool.and_true]
          rw [c1]; exact hd1
        · simp only [hoc, if_false] at hr
          obtain ⟨a, b, c, d⟩ := ih (h1 + 1) y1 y2 h x'
            (by intro _; exact ⟨by simpa using b1, by simpa using c1⟩) hr
          refine ⟨by omega, b, c, ?_⟩
          intro k hk hk'
          by_cases hk1 : k < h1
          · exact hbad k hk hk1
          · by_cases hkk : k = h1
            · subst hkk
              have : oc k (mulAlpha y2) = false := by cases hv : oc k (mulAlpha y2) <;> simp_all
              simp [abGood, hz, this]
            · exact d k (by omega) hk'

theorem abFromHint_of_z2 (E : Env Fp) (g : Int → Bool) (hg : GuardOK g) (mulAlpha : Fp × Fp → Fp × Fp) (ztab : List (Fp × Fp)) (h : Nat) (x : Fp × Fp)
    (hc : (abZ2 E ztab h).map mulAlpha = some x) : abFromHint E g mulAlpha ztab (h : Int) = .ok x := by
  unfold abFromHint
  unfold abZ2 at hc
  by_cases hlt : h < NTAB
  · have : g (h : Int) = true := (hg h).mpr ⟨Int.natCast_nonneg _, by exact_mod_cast hlt⟩
    simp only [this, if_true]
    simp only [hlt, if_true] at hc
    cases hg : ztab[h]? with
    | none => simp [hg] at hc
    | some z =>
      simp only [hg, Option.map_some, Option.some.injEq] at hc
      rw [readTab_of_get hg]; simp only [hc]
  · have hgf : g (h : Int) = false := by
      cases hv : g (h : Int) with
      | false => rfl
      | true => exact absurd (by exact_mod_cast ((hg h).mp hv).2) hlt
    simp only [hgf, Bool.false_eq_true, if_false, toDigit_nat h]
    simp only [hlt, if_false, Option.map_some, Option.some.injEq] at hc
    simp only [hc]

end SqiProofs.Basis

/-
Algebraic lemmas for C10 (Mathlib, single modules):
  * `difference_point` of basis.c returns x(P-Q) or x(P+Q) (a consistent choice of lifts) — field identity;
  * abstract torsion model: independence of two points of exact order 2^f whose points of order two differ.
-/
import Mathlib.Tactic.Ring
import Mathlib.Tactic.LinearCombination
import Mathlib.Tactic.FieldSimp
import Mathlib.Algebra.Group.Basic
import Mathlib.Algebra.Module.Basic

namespace SqiProofs.BasisAlg

/-! ## difference_point -/
section Diff
variable {F : Type} [Field F]

/-- the quantities computed by `difference_point` (basis.c) for affine abscissas xP, xQ on the curve with C = 1:
    returns (t1, radicand, Z): PQ.z = Z, and PQ.x = sqrt(radicand) + t1 -/
def diffT1 (A xP xQ : F) : F := (xP * xQ + 1) * (xP + xQ) + (xP * xQ * A + xP * xQ * A)
def diffZ (xP xQ : F) : F := (xP - xQ) ^ 2
def diffRad (A xP xQ : F) : F := (diffT1 A xP xQ) ^ 2 - ((xP - xQ) * (xP * xQ - 1)) ^ 2

/-- numerators Z·x(P+Q) and Z·x(P−Q) of the chord law on y² = x³ + A x² + x -/
def numPlus (A xP yP xQ yQ : F) : F := (yQ - yP) ^ 2 - (A + xP + xQ) * (xP - xQ) ^ 2
def numMinus (A xP yP xQ yQ : F) : F := (yQ + yP) ^ 2 - (A + xP + xQ) * (xP - xQ) ^ 2

theorem num_sum (A xP yP xQ yQ : F) (hP : yP ^ 2 = xP ^ 3 + A * xP ^ 2 + xP) (hQ : yQ ^ 2 = xQ ^ 3 + A * xQ ^ 2 + xQ) :
    numPlus A xP yP xQ yQ + numMinus A xP yP xQ yQ = 2 * diffT1 A xP xQ := by
  unfold numPlus numMinus diffT1
  linear_combination 2 * hP + 2 * hQ

theorem num_prod (A xP yP xQ yQ : F) (hP : yP ^ 2 = xP ^ 3 + A * xP ^ 2 + xP) (hQ : yQ ^ 2 = xQ ^ 3 + A * xQ ^ 2 + xQ) :
    numPlus A xP yP xQ yQ * numMinus A xP yP xQ yQ = diffZ xP xQ * (xP * xQ - 1) ^ 2 := by
  unfold numPlus numMinus diffZ
  linear_combination ((yP ^ 2 + (xP ^ 3 + A * xP ^ 2 + xP) - 2 * yQ ^ 2) - 2 * ((A + xP + xQ) * (xP - xQ) ^ 2)) * hP
    + ((yQ ^ 2 + (xQ ^ 3 + A * xQ ^ 2 + xQ) - 2 * (xP ^ 3 + A * xP ^ 2 + xP)) - 2 * ((A + xP + xQ) * (xP - xQ) ^ 2)) * hQ

/-- `difference_point`: with s any square root of the radicand, X = s + t1 is Z·x(P+Q) or Z·x(P−Q) -/
theorem difference_point_num (A xP yP xQ yQ s : F)
    (hP : yP ^ 2 = xP ^ 3 + A * xP ^ 2 + xP) (hQ : yQ ^ 2 = xQ ^ 3 + A * xQ ^ 2 + xQ)
    (hs : s ^ 2 = diffRad A xP xQ) :
    s + diffT1 A xP xQ = numPlus A xP yP xQ yQ ∨ s + diffT1 A xP xQ = numMinus A xP yP xQ yQ := by
  have hsum := num_sum A xP yP xQ yQ hP hQ
  have hprod := num_prod A xP yP xQ yQ hP hQ
  have key : (s + diffT1 A xP xQ - numPlus A xP yP xQ yQ) * (s + diffT1 A xP xQ - numMinus A xP yP xQ yQ) = 0 := by
    unfold diffRad at hs
    unfold diffZ at hprod
    linear_combination hs - (s + diffT1 A xP xQ) * hsum + hprod
  rcases mul_eq_zero.mp key with h | h
  · left; exact sub_eq_zero.mp h
  · right; exact sub_eq_zero.mp h

/-- affine form: the point (X : Z) returned by `difference_point` has x = X/Z equal to the abscissa of P+Q or of
    P−Q given by the chord law (slope through (xP,yP) and (xQ,±yQ)) -/
theorem difference_point_affine (A xP yP xQ yQ s : F) (hne : xP ≠ xQ)
    (hP : yP ^ 2 = xP ^ 3 + A * xP ^ 2 + xP) (hQ : yQ ^ 2 = xQ ^ 3 + A * xQ ^ 2 + xQ)
    (hs : s ^ 2 = diffRad A xP xQ) :
    (s + diffT1 A xP xQ) / diffZ xP xQ = ((yQ - yP) / (xQ - xP)) ^ 2 - A - xP - xQ ∨
    (s + diffT1 A xP xQ) / diffZ xP xQ = ((-yQ - yP) / (xQ - xP)) ^ 2 - A - xP - xQ := by
  have h1 : xP - xQ ≠ 0 := sub_ne_zero.mpr hne
  have h2 : xQ - xP ≠ 0 := sub_ne_zero.mpr (Ne.symm hne)
  rcases difference_point_num A xP yP xQ yQ s hP hQ hs with h | h
  · left
    rw [h]; unfold numPlus diffZ
    field_simp
    ring
  · right
    rw [h]; unfold numMinus diffZ
    field_simp
    ring
end Diff

/-! ## abstract torsion model -/
section Torsion
variable {G : Type} [AddCommGroup G]

theorem two_torsion_indep (T1 T2 : G) (h1 : (2 : ℤ) • T1 = 0) (h2 : (2 : ℤ) • T2 = 0)
    (n1 : T1 ≠ 0) (n2 : T2 ≠ 0) (n12 : T1 ≠ T2) (a b : ℤ) (h : a • T1 + b • T2 = 0) :
    (2 : ℤ) ∣ a ∧ (2 : ℤ) ∣ b := by
  have red : ∀ (c : ℤ) (T : G), (2 : ℤ) • T = 0 → c • T = (c % 2) • T := by
    intro c T hT
    conv => lhs; rw [← Int.emod_add_mul_ediv c 2]
    rw [add_smul, mul_smul, smul_comm (2 : ℤ) (c / 2) T, hT, smul_zero, add_zero]
  rw [red a T1 h1, red b T2 h2] at h
  rcases Int.emod_two_eq_zero_or_one a with ha | ha <;> rcases Int.emod_two_eq_zero_or_one b with hb | hb
  · exact ⟨Int.dvd_of_emod_eq_zero ha, Int.dvd_of_emod_eq_zero hb⟩
  · rw [ha, hb] at h; simp at h; exact absurd h n2
  · rw [ha, hb] at h; simp at h; exact absurd h n1
  · rw [ha, hb] at h; simp only [one_smul] at h
    exfalso; apply n12
    have : T1 = -T2 := eq_neg_of_add_eq_zero_left h
    have h2' : T2 + T2 = 0 := by simpa [two_smul] using h2
    rw [this]; exact neg_eq_of_add_eq_zero_left h2'

/-- two points of exact order 2^f whose multiples of order two are different are independent modulo 2^f -/
theorem indep_of_distinct_two_torsion : ∀ (f : ℕ) (P Q TP TQ : G),
    ((2 : ℤ) ^ (f + 1)) • P = 0 → ((2 : ℤ) ^ (f + 1)) • Q = 0 →
    ((2 : ℤ) ^ f) • P = TP → ((2 : ℤ) ^ f) • Q = TQ →
    TP ≠ 0 → TQ ≠ 0 → TP ≠ TQ →
    ∀ a b : ℤ, a • P + b • Q = 0 → ((2 : ℤ) ^ (f + 1)) ∣ a ∧ ((2 : ℤ) ^ (f + 1)) ∣ b := by
  intro f
  induction f with
  | zero =>
    intro P Q TP TQ hP hQ hTP hTQ n1 n2 n12 a b h
    simp only [pow_zero, one_smul] at hTP hTQ
    subst hTP; subst hTQ
    simpa using two_torsion_indep P Q (by simpa using hP) (by simpa using hQ) n1 n2 n12 a b h
  | succ f ih =>
    intro P Q TP TQ hP hQ hTP hTQ n1 n2 n12 a b h
    -- multiply the relation by 2^(f+1)
    have hT1 : (2 : ℤ) • TP = 0 := by rw [← hTP, ← mul_smul, ← pow_succ']; exact hP
    have hT2 : (2 : ℤ) • TQ = 0 := by rw [← hTQ, ← mul_smul, ← pow_succ']; exact hQ
    have hrel : a • TP + b • TQ = 0 := by
      rw [← hTP, ← hTQ, ← mul_smul, ← mul_smul, mul_comm a, mul_comm b, mul_smul, mul_smul, ← smul_add, h, smul_zero]
    obtain ⟨⟨a', ha⟩, ⟨b', hb⟩⟩ := two_torsion_indep TP TQ hT1 hT2 n1 n2 n12 a b hrel
    subst ha; subst hb
    have h' : a' • ((2 : ℤ) • P) + b' • ((2 : ℤ) • Q) = 0 := by
      rw [← mul_smul, ← mul_smul, mul_comm a', mul_comm b']; exact h
    have e1 : ((2 : ℤ) ^ (f + 1)) • ((2 : ℤ) • P) = 0 := by rw [← mul_smul, ← pow_succ]; exact hP
    have e2 : ((2 : ℤ) ^ (f + 1)) • ((2 : ℤ) • Q) = 0 := by rw [← mul_smul, ← pow_succ]; exact hQ
    have e3 : ((2 : ℤ) ^ f) • ((2 : ℤ) • P) = TP := by rw [← mul_smul, ← pow_succ]; exact hTP
    have e4 : ((2 : ℤ) ^ f) • ((2 : ℤ) • Q) = TQ := by rw [← mul_smul, ← pow_succ]; exact hTQ
    obtain ⟨⟨u, hu⟩, ⟨v, hv⟩⟩ := ih _ _ TP TQ e1 e2 e3 e4 n1 n2 n12 a' b' h'
    exact ⟨⟨u, by rw [hu, pow_succ (2:ℤ) (f+1)]; ring⟩, ⟨v, by rw [hv, pow_succ (2:ℤ) (f+1)]; ring⟩⟩

end Torsion
end SqiProofs.BasisAlg

/-! ## the easy half of the 2-descent, from the curve equation: a point of [2]E has a square abscissa (and x − α is a square) -/
namespace SqiProofs.BasisAlg
section Descent
variable {F : Type} [Field F]

/-- abscissa of 2R by the chord–tangent law on y² = x³ + A x² + x, R = (u, v), v ≠ 0 -/
def dblX (A u v : F) : F := ((3 * u ^ 2 + 2 * A * u + 1) / (2 * v)) ^ 2 - A - 2 * u

/-- x(2R) = ((u² − 1)/(2v))²: the abscissa of a double is a square (descent map of (0,0)) -/
theorem dblX_is_square (A u v : F) (h2 : (2 : F) ≠ 0) (hv : v ≠ 0) (hc : v ^ 2 = u ^ 3 + A * u ^ 2 + u) :
    dblX A u v = ((u ^ 2 - 1) / (2 * v)) ^ 2 := by
  unfold dblX
  have h2v : (2 * v) ≠ 0 := mul_ne_zero h2 hv
  field_simp
  linear_combination (-(4 * A) - 8 * u) * hc

/-- x(2R) − α = ((u² − 2αu + 1)/(2v))² for α a root of x² + A x + 1 (descent map of the 2-torsion point (α, 0)) -/
theorem dblX_sub_alpha_is_square (A u v α : F) (h2 : (2 : F) ≠ 0) (hv : v ≠ 0) (hc : v ^ 2 = u ^ 3 + A * u ^ 2 + u)
    (hα : α ^ 2 + A * α + 1 = 0) :
    dblX A u v - α = ((u ^ 2 - 2 * α * u + 1) / (2 * v)) ^ 2 := by
  unfold dblX
  have h2v : (2 * v) ≠ 0 := mul_ne_zero h2 hv
  field_simp
  linear_combination (-(4 * A) - 8 * u - 4 * α) * hc + (-(4 * u ^ 2)) * hα

/-- the same abscissa as computed by the x-only doubling formula (affine form of xDBL): (u²−1)² / (4u(u²+Au+1)) -/
theorem dblX_eq_xonly (A u v : F) (h2 : (2 : F) ≠ 0) (hv : v ≠ 0) (hc : v ^ 2 = u ^ 3 + A * u ^ 2 + u) :
    dblX A u v = (u ^ 2 - 1) ^ 2 / (4 * u * (u ^ 2 + A * u + 1)) := by
  rw [dblX_is_square A u v h2 hv hc]
  have hd : 4 * u * (u ^ 2 + A * u + 1) = (2 * v) ^ 2 := by linear_combination (-4) * hc
  rw [hd, div_pow]

end Descent
end SqiProofs.BasisAlg

/-
The control skeleton regenerated from basis.c (SqiGen.BasisSearch, tools/translate/basissearch.py) equals the hand model
SqiModel.Basis: searches (both nested loops) and from_hint routines. Core-only.
-/
import SqiModel.Basis
import SqiGen.BasisSearch
import SqiGen.BasisGuard

namespace SqiProofs.BasisGen
open SqiModel.Basis SqiGen.BasisSearch

variable {Fp : Type}

def rmap {α β : Type} (f : α → β) : Res α → Res β
  | .ok a => .ok (f a)
  | .oob => .oob
  | .fuel => .fuel

/-! ### not above -/
theorem na_inner1 (E : Env Fp) (oc : Nat → Fp × Fp → Bool) (tab : List (Fp × Fp)) :
    ∀ (n : Nat) (s : St Fp), notAbove_loop1 E oc tab n s = rmap (fun r => { s with hint := r.1, x := r.2 }) (naInner E n s.hint s.x) := by
  intro n
  induction n with
  | zero => intro s; rfl
  | succ n ih =>
    intro s
    unfold notAbove_loop1 naInner
    by_cases h : E.sq (E.add1 s.x.1, s.x.2) = true
    · simp only [h, Bool.not_true, Bool.false_eq_true, if_false, Bool.true_eq_false]
      rw [ih]
    · have h' : E.sq (E.add1 s.x.1, s.x.2) = false := by cases hv : E.sq (E.add1 s.x.1, s.x.2) <;> simp_all
      simp only [h', Bool.not_false, if_true]
      rfl

theorem na_inner2 (E : Env Fp) (oc : Nat → Fp × Fp → Bool) (tab : List (Fp × Fp)) :
    ∀ (n : Nat) (s : St Fp), notAbove_loop2 E oc tab n s = rmap (fun r => { s with hint := r.1, x := r.2 }) (naInner E n s.hint s.x) := by
  intro n
  induction n with
  | zero => intro s; rfl
  | succ n ih =>
    intro s
    unfold notAbove_loop2 naInner
    by_cases h : E.sq (E.add1 s.x.1, s.x.2) = true
    · simp only [h, Bool.not_true, Bool.false_eq_true, if_false, Bool.true_eq_false]
      rw [ih]
    · have h' : E.sq (E.add1 s.x.1, s.x.2) = false := by cases hv : E.sq (E.add1 s.x.1, s.x.2) <;> simp_all
      simp only [h', Bool.not_false, if_true]
      rfl

theorem na_outer (E : Env Fp) (oc : Nat → Fp × Fp → Bool) (tab : List (Fp × Fp)) :
    ∀ (n : Nat) (s : St Fp), notAbove_loop0 E oc tab n s = rmap (fun r => { s with hint := r.1, x := r.2 }) (naOuter E oc tab n s.hint s.x) := by
  intro n
  induction n with
  | zero => intro s; rfl
  | succ n ih =>
    intro s
    unfold notAbove_loop0 naOuter
    by_cases hlt : s.hint < 20
    · have hlt' : s.hint < NTAB := hlt
      simp only [hlt, hlt', decide_true, if_true]
      cases hr : readTab tab (s.hint : Int) with
      | oob => rfl
      | fuel => rfl
      | ok t =>
        simp only
        by_cases hoc : oc s.hint t = true
        · simp only [hoc, if_true]; rfl
        · simp only [hoc, if_false, Bool.false_eq_true]
          rw [ih]
    · have hlt' : ¬ s.hint < NTAB := hlt
      simp only [hlt, hlt', decide_false, if_false, Bool.false_eq_true]
      by_cases h20 : s.hint = 20
      · have h20' : s.hint = NTAB := h20
        simp only [h20, h20', decide_true, if_true]
        rw [na_inner1]
        simp only
        cases hin : naInner E n 20 (E.setSmall (20 - 1), E.one) with
        | oob => simp [rmap, hin, NTAB]
        | fuel => simp [rmap, hin, NTAB]
        | ok r =>
          obtain ⟨h1, x1⟩ := r
          simp only [rmap, NTAB, hin]
          by_cases hoc : oc h1 x1 = true
          · simp [hoc, hin, rmap]
          · simp only [hoc, if_false, Bool.false_eq_true]
            rw [ih]
            simp [hin, hoc, rmap]
      · have h20' : ¬ s.hint = NTAB := h20
        simp only [h20, h20', decide_false, if_false, Bool.false_eq_true]
        rw [na_inner2]
        cases hin : naInner E n s.hint s.x with
        | oob => simp [rmap]
        | fuel => simp [rmap]
        | ok r =>
          obtain ⟨h1, x1⟩ := r
          simp only [rmap]
          by_cases hoc : oc h1 x1 = true
          · simp [hoc, hin, rmap]
          · simp only [hoc, if_false, Bool.false_eq_true]
            rw [ih]
            simp [hin, hoc, rmap]

/-! ### above -/
theorem ab_inner1 (E : Env Fp) (oc : Nat → Fp × Fp → Bool) (mulAlpha : Fp × Fp → Fp × Fp) (tab : List (Fp × Fp)) :
    ∀ (n : Nat) (s : St Fp), above_loop1 E oc mulAlpha tab n s =
      rmap (fun r => { s with hint := r.1, z1 := r.2.1, z2 := r.2.2 }) (abInner E n s.hint s.z1 s.z2) := by
  intro n
  induction n with
  | zero => intro s; rfl
  | succ n ih =>
    intro s
    unfold above_loop1 abInner
    by_cases h : (E.sq (E.add1 s.z2.1, s.z2.2) && !E.sq (E.add1 s.z1.1, s.z1.2)) = true
    · simp only [h, if_true]; rfl
    · simp only [h, if_false, Bool.false_eq_true]
      rw [ih]

theorem ab_inner2 (E : Env Fp) (oc : Nat → Fp × Fp → Bool) (mulAlpha : Fp × Fp → Fp × Fp) (tab : List (Fp × Fp)) :
    ∀ (n : Nat) (s : St Fp), above_loop2 E oc mulAlpha tab n s =
      rmap (fun r => { s with hint := r.1, z1 := r.2.1, z2 := r.2.2 }) (abInner E n s.hint s.z1 s.z2) := by
  intro n
  induction n with
  | zero => intro s; rfl
  | succ n ih =>
    intro s
    unfold above_loop2 abInner
    by_cases h : (E.sq (E.add1 s.z2.1, s.z2.2) && !E.sq (E.add1 s.z1.1, s.z1.2)) = true
    · simp only [h, if_true]; rfl
    · simp only [h, if_false, Bool.false_eq_true]
      rw [ih]

theorem ab_outer (E : Env Fp) (oc : Nat → Fp × Fp → Bool) (mulAlpha : Fp × Fp → Fp × Fp) (tab : List (Fp × Fp)) :
    ∀ (n : Nat) (s : St Fp), rmap (fun s' : St Fp => (s'.hint, s'.x)) (above_loop0 E oc mulAlpha tab n s) =
      abOuter E oc mulAlpha tab n s.hint s.z1 s.z2 := by
  intro n
  induction n with
  | zero => intro s; rfl
  | succ n ih =>
    intro s
    unfold above_loop0 abOuter
    by_cases hlt : s.hint < 20
    · have hlt' : s.hint < NTAB := hlt
      simp only [hlt, hlt', decide_true, if_true]
      cases hr : readTab tab (s.hint : Int) with
      | oob => rfl
      | fuel => rfl
      | ok t =>
        simp only
        by_cases hoc : oc s.hint (mulAlpha t) = true
        · simp [hoc, rmap]
        · simp only [hoc, if_false, Bool.false_eq_true]
          rw [ih]
    · have hlt' : ¬ s.hint < NTAB := hlt
      simp only [hlt, hlt', decide_false, if_false, Bool.false_eq_true]
      by_cases h20 : s.hint = 20
      · have h20' : s.hint = NTAB := h20
        simp only [h20, h20', decide_true, if_true]
        rw [ab_inner1]
        simp only
        cases hin : abInner E n 20 (E.setSmall (20 - 2), E.one) (E.setSmall (20 - 1), E.one) with
        | oob => simp [rmap, hin, NTAB]
        | fuel => simp [rmap, hin, NTAB]
        | ok r =>
          obtain ⟨h1, y1, y2⟩ := r
          simp only [rmap, NTAB, hin]
          by_cases hoc : oc h1 (mulAlpha y2) = true
          · simp [hoc, hin, rmap]
          · have := ih ⟨h1 + 1, mulAlpha y2, y1, y2⟩
            simp only [rmap] at this
            simp [hoc, hin, rmap, this]
      · have h20' : ¬ s.hint = NTAB := h20
        simp only [h20, h20', decide_false, if_false, Bool.false_eq_true]
        rw [ab_inner2]
        cases hin : abInner E n s.hint s.z1 s.z2 with
        | oob => simp [rmap]
        | fuel => simp [rmap]
        | ok r =>
          obtain ⟨h1, y1, y2⟩ := r
          simp only [rmap]
          by_cases hoc : oc h1 (mulAlpha y2) = true
          · simp [hoc, hin, rmap]
          · have := ih ⟨h1 + 1, mulAlpha y2, y1, y2⟩
            simp only [rmap] at this
            simp [hoc, hin, rmap, this]

/-! ### from_hint routines and the whole pair of searches -/

/-- the guard extracted by basisguard.py and the condition in the generated from_hint routines are the same text; here: the generated
    routines are the hand model with the guard `0 ≤ hint ∧ hint < 20` -/
def guard20 (h : Int) : Bool := decide (h ≥ (0 : Int)) && decide (h < (20 : Int))

theorem na_from_hint (E : Env Fp) (tab : List (Fp × Fp)) (hint : Int) :
    notAboveFromHint E tab hint = naFromHint E guard20 tab hint := rfl

theorem ab_from_hint (E : Env Fp) (mulAlpha : Fp × Fp → Fp × Fp) (tab : List (Fp × Fp)) (hint : Int) :
    aboveFromHint E mulAlpha tab hint = abFromHint E guard20 mulAlpha tab hint := rfl

theorem wrappers_ok : wrapperCalls = ["ec_curve_to_point_2f_not_above_montgomery", "ec_curve_to_point_2f_above_montgomery",
    "ec_curve_to_point_2f_not_above_montgomery_from_hint", "ec_curve_to_point_2f_above_montgomery_from_hint"] := by decide

/-- generated `ec_curve_to_basis_2f_to_hint` (x-coordinates before cofactor clearing): the two generated searches started at hint = 0 -/
def toHintGen (S : Search Fp) (fuel : Nat) : Res (Hinted Fp) :=
  match notAboveTop S.E S.ocP S.tab fuel ⟨0, S.junk, S.junk, S.junk⟩ with
  | .ok sP =>
    match aboveTop S.E S.ocQ S.mulAlpha S.ztab fuel ⟨0, S.junk, S.junk, S.junk⟩ with
    | .ok sQ => .ok ⟨sP.hint, sQ.hint, sP.x, sQ.x⟩
    | .oob => .oob
    | .fuel => .fuel
  | .oob => .oob
  | .fuel => .fuel

def fromHintGen (S : Search Fp) (h0 h1 : Int) : Res ((Fp × Fp) × (Fp × Fp)) :=
  match notAboveFromHint S.E S.tab h0 with
  | .ok xP =>
    match aboveFromHint S.E S.mulAlpha S.ztab h1 with
    | .ok xQ => .ok (xP, xQ)
    | .oob => .oob
    | .fuel => .fuel
  | .oob => .oob
  | .fuel => .fuel

/-- **generated = hand model** for the pair of searches -/
theorem toHintGen_eq (S : Search Fp) (fuel : Nat) : toHintGen S fuel = toHint S fuel := by
  unfold toHintGen toHint notAboveTop aboveTop
  rw [na_outer]
  have hab := ab_outer S.E S.ocQ S.mulAlpha S.ztab fuel ⟨0, S.junk, S.junk, S.junk⟩
  simp only at hab
  rw [← hab]
  cases h1 : naOuter S.E S.ocP S.tab fuel 0 S.junk with
  | oob => simp [rmap]
  | fuel => simp [rmap]
  | ok a =>
    obtain ⟨h0, xP⟩ := a
    simp only [rmap]
    cases h2 : above_loop0 S.E S.ocQ S.mulAlpha S.ztab fuel ⟨0, S.junk, S.junk, S.junk⟩ with
    | oob => simp [rmap]
    | fuel => simp [rmap]
    | ok sQ => simp [rmap]

theorem fromHintGen_eq (S : Search Fp) (hP : S.guardP = guard20) (hQ : S.guardQ = guard20) (h0 h1 : Int) :
    fromHintGen S h0 h1 = fromHint S h0 h1 := by
  unfold fromHintGen fromHint
  rw [na_from_hint, ab_from_hint, hP, hQ]
  rfl

end SqiProofs.BasisGen

/-
C20 (AES) lemmas: soundness of the two reflective evaluators of SqiModel.Bitslice against the UInt64 semantics
of register programs.  Core-only; bit extensionality on BitVec 64, no bv_decide.
-/
import SqiModel.Bitslice
import SqiProofs.Keccak

namespace SqiProofs.Bitslice
open SqiModel.Bitslice

theorem shiftAmtN (m : Nat) (h : m < 64) : ((UInt64.ofNat m).toBitVec % 64).toNat = m :=
  SqiProofs.Keccak.shiftAmt m h

theorem getLsbD_shl (x : UInt64) (n p : Nat) (hn : n < 64) :
    (x <<< UInt64.ofNat n).toBitVec.getLsbD p = (decide (p < 64) && !decide (p < n) && x.toBitVec.getLsbD (p - n)) := by
  rw [UInt64.toBitVec_shiftLeft, BitVec.shiftLeft_eq', shiftAmtN n hn, BitVec.getLsbD_shiftLeft]

theorem getLsbD_shr (x : UInt64) (n p : Nat) (hn : n < 64) :
    (x >>> UInt64.ofNat n).toBitVec.getLsbD p = x.toBitVec.getLsbD (n + p) := by
  rw [UInt64.toBitVec_shiftRight, BitVec.ushiftRight_eq', shiftAmtN n hn, BitVec.getLsbD_ushiftRight]

/-! ### lane-wise evaluation -/
theorem lane_sound (env : Env) (p : Nat) (hp : p < 64) (e : Ex) (b : Bool)
    (h : e.lane (fun i => bitsOf env i p) = some b) : (e.eval env).toBitVec.getLsbD p = b := by
  induction e generalizing b with
  | reg i => simp [Ex.lane] at h; simp [Ex.eval, ← h, bitsOf]
  | const c => simp [Ex.lane] at h
  | xor a c iha ihc =>
    simp only [Ex.lane] at h
    split at h <;> simp at h
    rename_i x y hx hy
    simp [Ex.eval, iha x hx, ihc y hy, ← h]
  | and a c iha ihc =>
    simp only [Ex.lane] at h
    split at h <;> simp at h
    rename_i x y hx hy
    simp [Ex.eval, iha x hx, ihc y hy, ← h]
  | or a c iha ihc =>
    simp only [Ex.lane] at h
    split at h <;> simp at h
    rename_i x y hx hy
    simp [Ex.eval, iha x hx, ihc y hy, ← h]
  | not a iha =>
    simp only [Ex.lane] at h
    split at h <;> simp at h
    rename_i x hx
    have e := iha x hx
    simp only [Ex.eval, UInt64.toBitVec_not, BitVec.getLsbD_not, e, hp, decide_true, Bool.true_and]
    rw [h]; simp
  | shl a n _ => simp [Ex.lane] at h
  | shr a n _ => simp [Ex.lane] at h
  | sub a c _ _ => simp [Ex.lane] at h

def bitRow (env : Env) (p : Nat) : List Bool := env.map fun w => w.toBitVec.getLsbD p

theorem bitRow_getD (env : Env) (p i : Nat) : (bitRow env p).getD i false = bitsOf env i p := by
  unfold bitRow bitsOf
  by_cases h : i < env.length
  · simp [List.getD_eq_getElem?_getD, h]
  · simp [List.getD_eq_getElem?_getD, h]

/-- a lane-wise program acts on every bit position independently, as `laneRun` says -/
theorem laneRun_sound (prog : Prog) (env : Env) (p : Nat) (hp : p < 64) (out : List Bool)
    (h : laneRun prog (bitRow env p) = some out) : bitRow (run prog env) p = out := by
  induction prog generalizing env with
  | nil => simp [laneRun] at h; simp [run, h]
  | cons s rest ih =>
    obtain ⟨d, e⟩ := s
    simp only [laneRun] at h
    split at h
    · rename_i b hb
      have hfun : (fun i => (bitRow env p).getD i false) = fun i => bitsOf env i p := by
        funext i; exact bitRow_getD env p i
      rw [hfun] at hb
      have hs := lane_sound env p hp e b hb
      have hrow : (bitRow env p).set d b = bitRow (step env (d, e)) p := by
        simp [bitRow, step, List.map_set, hs]
      rw [hrow] at h
      simpa [run, List.foldl_cons] using ih (step env (d, e)) h
    · simp at h

/-! ### truth-table evaluation -/
theorem nat_sound (w : Nat) (env : List Nat) (n : Nat) (hn : n < w) (e : Ex) (x : Nat) (h : e.nat w env = some x) :
    e.lane (fun i => (env.getD i 0).testBit n) = some (x.testBit n) := by
  induction e generalizing x with
  | reg i => simp only [Ex.nat, Option.some.injEq] at h; subst h; simp only [Ex.lane]
  | const c => simp [Ex.nat] at h
  | xor a c iha ihc =>
    simp only [Ex.nat] at h
    split at h <;> simp at h
    rename_i u v hu hv
    subst h
    simp only [Ex.lane, iha u hu, ihc v hv, Nat.testBit_xor]
  | and a c iha ihc =>
    simp only [Ex.nat] at h
    split at h <;> simp at h
    rename_i u v hu hv
    subst h
    simp only [Ex.lane, iha u hu, ihc v hv, Nat.testBit_and]
  | or a c iha ihc =>
    simp only [Ex.nat] at h
    split at h <;> simp at h
    rename_i u v hu hv
    subst h
    simp only [Ex.lane, iha u hu, ihc v hv, Nat.testBit_or]
  | not a iha =>
    simp only [Ex.nat] at h
    split at h <;> simp at h
    rename_i u hu
    subst h
    simp only [Ex.lane, iha u hu, Nat.testBit_xor, Nat.testBit_two_pow_sub_one, hn, decide_true]
    cases u.testBit n <;> rfl
  | shl a n _ => simp [Ex.nat] at h
  | shr a n _ => simp [Ex.nat] at h
  | sub a c _ _ => simp [Ex.nat] at h

theorem natRow_getD (env : List Nat) (n i : Nat) :
    (env.map (·.testBit n)).getD i false = (env.getD i 0).testBit n := by
  by_cases h : i < env.length
  · simp [List.getD_eq_getElem?_getD, h]
  · simp [List.getD_eq_getElem?_getD, h]

/-- truth-table evaluation with `w` lanes packed in a Nat agrees, on each lane n < w, with `laneRun` -/
theorem natRun_sound (w : Nat) (prog : Prog) (env out : List Nat) (n : Nat) (hn : n < w)
    (h : natRun w prog env = some out) :
    laneRun prog (env.map (·.testBit n)) = some (out.map (·.testBit n)) := by
  induction prog generalizing env with
  | nil => simp [natRun] at h; simp [laneRun, h]
  | cons s rest ih =>
    obtain ⟨d, e⟩ := s
    simp only [natRun] at h
    split at h
    · rename_i x hx
      have hl := nat_sound w env n hn e x hx
      have hfun : (fun i => (env.map (·.testBit n)).getD i false) = fun i => (env.getD i 0).testBit n := by
        funext i; exact natRow_getD env n i
      simp only [laneRun, hfun, hl]
      have := ih (env.set d x) h
      simpa [List.map_set] using this
    · simp at h

/-! ### affine forms -/
theorem par_zero (val : Nat → Bool) (n : Nat) : par val 0 n = false := by
  induction n with
  | zero => rfl
  | succ n ih => simp [par, ih]

theorem par_xor (val : Nat → Bool) (m1 m2 n : Nat) :
    par val (m1 ^^^ m2) n = (par val m1 n != par val m2 n) := by
  induction n with
  | zero => rfl
  | succ n ih =>
    simp only [par, ih, Nat.testBit_xor]
    cases par val m1 n <;> cases par val m2 n <;> cases m1.testBit n <;> cases m2.testBit n <;> cases val n <;> rfl

theorem par_pow (val : Nat → Bool) (v n : Nat) (h : v < n) : par val (2 ^ v) n = val v := by
  induction n with
  | zero => omega
  | succ n ih =>
    simp only [par, Nat.testBit_two_pow]
    by_cases hv : v = n
    · subst hv
      have : par val (2 ^ v) v = false := by
        clear ih h
        suffices ∀ k, k ≤ v → par val (2 ^ v) k = false from this v (Nat.le_refl v)
        intro k
        induction k with
        | zero => intro _; rfl
        | succ k ihk =>
          intro hk
          have : ¬ v = k := by omega
          simp [par, ihk (by omega), Nat.testBit_two_pow, this]
      simp [this]
    · have : v < n := by omega
      simp [ih this, hv]

theorem eval_xor (nv : Nat) (val : Nat → Bool) (a b : Aff) :
    (a.xor b).eval nv val = (a.eval nv val != b.eval nv val) := by
  simp only [Aff.eval, Aff.xor, par_xor]
  cases a.c <;> cases b.c <;> cases par val a.mask nv <;> cases par val b.mask nv <;> rfl

theorem eval_const (nv : Nat) (val : Nat → Bool) (a : Aff) (h : a.isConst = true) : a.eval nv val = a.c := by
  have : a.mask = 0 := by simpa [Aff.isConst] using h
  simp [Aff.eval, this, par_zero]

theorem eval_zero (nv : Nat) (val : Nat → Bool) : Aff.zero.eval nv val = false := by
  simp [Aff.eval, Aff.zero, par_zero]

theorem eval_var (nv : Nat) (val : Nat → Bool) (i k : Nat) (h : 64 * i + k < nv) :
    (Aff.var i k).eval nv val = val (64 * i + k) := by
  simp [Aff.eval, Aff.var, par_pow val _ nv h]

theorem and_case (nv : Nat) (val : Nat → Bool) (x y A : Aff)
    (h : (if x.isConst = true then (if x.c = true then some y else some Aff.zero)
          else if y.isConst = true then (if y.c = true then some x else some Aff.zero) else none) = some A) :
    A.eval nv val = (x.eval nv val && y.eval nv val) := by
  by_cases hxc : x.isConst = true
  · rw [if_pos hxc] at h
    rw [eval_const nv val x hxc]
    by_cases hc : x.c = true
    · rw [if_pos hc] at h; cases h; simp [hc]
    · rw [if_neg hc] at h; cases h; simp [hc, eval_zero]
  · rw [if_neg hxc] at h
    by_cases hyc : y.isConst = true
    · rw [if_pos hyc] at h
      rw [eval_const nv val y hyc]
      by_cases hc : y.c = true
      · rw [if_pos hc] at h; cases h; simp [hc]
      · rw [if_neg hc] at h; cases h; simp [hc, eval_zero]
    · rw [if_neg hyc] at h; cases h

theorem or_case (nv : Nat) (val : Nat → Bool) (x y A : Aff)
    (h : (if x.isConst = true then (if x.c = true then some (⟨0, true⟩ : Aff) else some y)
          else if y.isConst = true then (if y.c = true then some (⟨0, true⟩ : Aff) else some x) else none) = some A) :
    A.eval nv val = (x.eval nv val || y.eval nv val) := by
  by_cases hxc : x.isConst = true
  · rw [if_pos hxc] at h
    rw [eval_const nv val x hxc]
    by_cases hc : x.c = true
    · rw [if_pos hc] at h; cases h; simp [hc, Aff.eval, par_zero]
    · rw [if_neg hc] at h; cases h; simp [hc]
  · rw [if_neg hxc] at h
    by_cases hyc : y.isConst = true
    · rw [if_pos hyc] at h
      rw [eval_const nv val y hyc]
      by_cases hc : y.c = true
      · rw [if_pos hc] at h; cases h; simp [hc, Aff.eval, par_zero]
      · rw [if_neg hc] at h; cases h; simp [hc]
    · rw [if_neg hyc] at h; cases h

/-- the symbolic environment describes the concrete one -/
def SInv (nreg nv : Nat) (val : Nat → Bool) (senv : SEnv) (env : Env) : Prop :=
  ∀ i p A, i < nreg → p < 64 → senv i p = some A → A.eval nv val = bitsOf env i p

theorem sym_sound (nreg nv : Nat) (val : Nat → Bool) (senv : SEnv) (env : Env) (hinv : SInv nreg nv val senv env)
    (e : Ex) (hok : e.ok nreg = true) (p : Nat) (hp : p < 64) (A : Aff) (h : e.sym senv p = some A) :
    A.eval nv val = (e.eval env).toBitVec.getLsbD p := by
  induction e generalizing p A with
  | reg i =>
    simp only [Ex.ok, decide_eq_true_eq] at hok
    exact hinv i p A hok hp h
  | const c =>
    simp only [Ex.sym, Option.some.injEq] at h
    subst h
    simp [Aff.eval, par_zero, Ex.eval]
  | xor a c iha ihc =>
    simp only [Ex.ok, Bool.and_eq_true] at hok
    simp only [Ex.sym] at h
    split at h <;> simp at h
    rename_i x y hx hy
    subst h
    simp [Ex.eval, eval_xor, iha hok.1 p hp x hx, ihc hok.2 p hp y hy]
  | and a c iha ihc =>
    simp only [Ex.ok, Bool.and_eq_true] at hok
    simp only [Ex.sym] at h
    split at h
    · rename_i x y hx hy
      rw [and_case nv val x y A h, iha hok.1 p hp x hx, ihc hok.2 p hp y hy]
      simp [Ex.eval]
    · rename_i x hx hy
      by_cases hc : (x.isConst && !x.c) = true
      · rw [if_pos hc] at h
        cases h
        simp only [Bool.and_eq_true, Bool.not_eq_true'] at hc
        have ex := iha hok.1 p hp x hx
        rw [eval_const nv val x hc.1, hc.2] at ex
        simp [Ex.eval, eval_zero, ← ex]
      · rw [if_neg hc] at h; cases h
    · rename_i y hx hy
      by_cases hc : (y.isConst && !y.c) = true
      · rw [if_pos hc] at h
        cases h
        simp only [Bool.and_eq_true, Bool.not_eq_true'] at hc
        have ey := ihc hok.2 p hp y hy
        rw [eval_const nv val y hc.1, hc.2] at ey
        simp [Ex.eval, eval_zero, ← ey]
      · rw [if_neg hc] at h; cases h
    · cases h
  | or a c iha ihc =>
    simp only [Ex.ok, Bool.and_eq_true] at hok
    simp only [Ex.sym] at h
    split at h
    · rename_i x y hx hy
      rw [or_case nv val x y A h, iha hok.1 p hp x hx, ihc hok.2 p hp y hy]
      simp [Ex.eval]
    · simp at h
  | not a iha =>
    simp only [Ex.ok] at hok
    simp only [Ex.sym] at h
    split at h <;> simp at h
    rename_i x hx
    subst h
    have ex := iha hok p hp x hx
    simp only [Ex.eval, UInt64.toBitVec_not, BitVec.getLsbD_not, ← ex, hp, decide_true, Bool.true_and]
    simp only [Aff.eval]
    cases x.c <;> cases par val x.mask nv <;> rfl
  | shl a n iha =>
    simp only [Ex.ok, Bool.and_eq_true, decide_eq_true_eq] at hok
    simp only [Ex.sym] at h
    simp only [Ex.eval, getLsbD_shl _ n p hok.2, hp, decide_true, Bool.true_and]
    by_cases hpn : p < n
    · simp only [hpn, if_true, Option.some.injEq] at h; subst h; simp [hpn, eval_zero]
    · simp only [hpn, if_false] at h
      simp [hpn, iha hok.1 (p - n) (by omega) A h]
  | shr a n iha =>
    simp only [Ex.ok, Bool.and_eq_true, decide_eq_true_eq] at hok
    simp only [Ex.sym] at h
    simp only [Ex.eval, getLsbD_shr _ n p hok.2]
    by_cases hpn : n + p < 64
    · simp only [hpn, if_true] at h
      exact iha hok.1 (n + p) hpn A h
    · simp only [hpn, if_false, Option.some.injEq] at h; subst h
      rw [BitVec.getLsbD_of_ge _ _ (by omega), eval_zero]
  | sub a c _ _ => simp [Ex.ok] at hok

theorem bitsOf_set (env : Env) (d : Nat) (v : UInt64) (hd : d < env.length) (i p : Nat) :
    bitsOf (env.set d v) i p = if i = d then v.toBitVec.getLsbD p else bitsOf env i p := by
  unfold bitsOf
  by_cases h : i = d
  · subst h; simp [List.getD_eq_getElem?_getD, List.getElem?_set, hd]
  · have : ¬ d = i := fun e => h e.symm
    simp [List.getD_eq_getElem?_getD, List.getElem?_set, h, this]

theorem step_length (env : Env) (s : Nat × Ex) : (step env s).length = env.length := by simp [step]

theorem run_length (prog : Prog) (env : Env) : (run prog env).length = env.length := by
  induction prog generalizing env with
  | nil => rfl
  | cons s rest ih => simp [run, List.foldl_cons] at ih ⊢; rw [ih, step_length]

theorem sstep_inv (nreg nv : Nat) (val : Nat → Bool) (senv : SEnv) (env : Env) (hinv : SInv nreg nv val senv env)
    (s : Nat × Ex) (hd : s.1 < nreg) (hok : s.2.ok nreg = true) (hlen : env.length = nreg) :
    SInv nreg nv val (sstep senv s) (step env s) := by
  intro i p A hi hp h
  unfold sstep at h
  unfold step
  rw [bitsOf_set env s.1 _ (by omega)]
  by_cases e : i = s.1
  · simp only [e, if_true] at h ⊢
    exact sym_sound nreg nv val senv env hinv s.2 hok p hp A h
  · simp only [e, if_false] at h ⊢
    exact hinv i p A hi hp h

theorem symRun_inv (nreg nv : Nat) (val : Nat → Bool) (prog : Prog) (hok : prog.ok nreg = true) (senv : SEnv) (env : Env)
    (hinv : SInv nreg nv val senv env) (hlen : env.length = nreg) :
    SInv nreg nv val (symRun prog senv) (run prog env) := by
  induction prog generalizing senv env with
  | nil => exact hinv
  | cons s rest ih =>
    simp only [Prog.ok, List.all_cons, Bool.and_eq_true, decide_eq_true_eq] at hok
    simp only [symRun, run, List.foldl_cons]
    exact ih (by simpa [Prog.ok] using hok.2) _ _ (sstep_inv nreg nv val senv env hinv s hok.1.1 hok.1.2 hlen)
      (by rw [step_length]; exact hlen)

/-- the assignment of the variables given by the initial registers -/
def valOf (env0 : Env) : Nat → Bool := fun v => bitsOf env0 (v / 64) (v % 64)

theorem sinit_inv (nreg : Nat) (env0 : Env) : SInv nreg (64 * nreg) (valOf env0) sinit env0 := by
  intro i p A hi hp h
  simp only [sinit, Option.some.injEq] at h
  subst h
  rw [eval_var _ _ i p (by omega)]
  simp only [valOf]
  congr 1 <;> omega

/-- main soundness theorem: bit p of register i after running the program is the affine form computed symbolically -/
theorem symRun_sound (prog : Prog) (nreg : Nat) (hok : prog.ok nreg = true) (env0 : Env) (hlen : env0.length = nreg)
    (i p : Nat) (A : Aff) (hi : i < nreg) (hp : p < 64) (h : symRun prog sinit i p = some A) :
    bitsOf (run prog env0) i p = A.eval (64 * nreg) (valOf env0) :=
  (symRun_inv nreg (64 * nreg) (valOf env0) prog hok sinit env0 (sinit_inv nreg env0) hlen i p A hi hp h).symm

/-- the affine form x_{v1} ⊕ x_{v2} ⊕ … (variables given as (register, bit)) -/
def affOfVars (vs : List (Nat × Nat)) : Aff := vs.foldl (fun a v => a.xor (Aff.var v.1 v.2)) Aff.zero

theorem valOf_var (env0 : Env) (i k : Nat) (hk : k < 64) : valOf env0 (64 * i + k) = bitsOf env0 i k := by
  unfold valOf; congr 1 <;> omega

theorem eval_foldl_vars (nreg : Nat) (env0 : Env) (vs : List (Nat × Nat)) (a : Aff)
    (h : ∀ v ∈ vs, v.1 < nreg ∧ v.2 < 64) :
    (vs.foldl (fun a v => a.xor (Aff.var v.1 v.2)) a).eval (64 * nreg) (valOf env0)
      = vs.foldl (fun acc v => acc != bitsOf env0 v.1 v.2) (a.eval (64 * nreg) (valOf env0)) := by
  induction vs generalizing a with
  | nil => rfl
  | cons v vs ih =>
    have hv := h v (List.mem_cons_self ..)
    simp only [List.foldl_cons]
    rw [ih _ (fun w hw => h w (List.mem_cons_of_mem _ hw)), eval_xor, eval_var _ _ _ _ (by omega), valOf_var _ _ _ hv.2]

theorem eval_affOfVars (nreg : Nat) (env0 : Env) (vs : List (Nat × Nat)) (h : ∀ v ∈ vs, v.1 < nreg ∧ v.2 < 64) :
    (affOfVars vs).eval (64 * nreg) (valOf env0) = vs.foldl (fun acc v => acc != bitsOf env0 v.1 v.2) false := by
  unfold affOfVars
  rw [eval_foldl_vars nreg env0 vs _ h, eval_zero]

/-- reading a symbolic table entry: the output bit is the XOR of the listed input bits -/
theorem table_sound (prog : Prog) (nreg : Nat) (hok : prog.ok nreg = true) (env0 : Env) (hlen : env0.length = nreg)
    (i p : Nat) (vs : List (Nat × Nat)) (hi : i < nreg) (hp : p < 64) (hvs : ∀ v ∈ vs, v.1 < nreg ∧ v.2 < 64)
    (h : symRun prog sinit i p = some (affOfVars vs)) :
    bitsOf (run prog env0) i p = vs.foldl (fun acc v => acc != bitsOf env0 v.1 v.2) false := by
  rw [symRun_sound prog nreg hok env0 hlen i p _ hi hp h, eval_affOfVars nreg env0 vs hvs]

theorem bitsOf_append_left (a b : Env) (i p : Nat) (h : i < a.length) : bitsOf (a ++ b) i p = bitsOf a i p := by
  simp [bitsOf, List.getD_eq_getElem?_getD, List.getElem?_append_left h]

end SqiProofs.Bitslice

/- C17 lemmas: digit-array conversions, ibz_get, two_adic_valuation (core Lean + omega) -/
import SqiModel.Intbig
namespace SqiProofs.C17
open SqiModel.Intbig

/-! ### digits -/

def digitsOk (ds : List Nat) : Prop := ∀ d ∈ ds, d < 2 ^ 64

theorem limbsAux_spec : ∀ (fuel x : Nat), x < 2 ^ (64 * fuel) →
    ibzCopyDigits (limbsAux fuel x) = (x : Int) ∧ digitsOk (limbsAux fuel x) ∧ (limbsAux fuel x).length ≤ fuel := by
  intro fuel
  induction fuel with
  | zero =>
    intro x h
    have : x = 0 := by simpa using h
    subst this; simp [limbsAux, ibzCopyDigits, digitsOk]
  | succ n ih =>
    intro x h
    unfold limbsAux
    by_cases h0 : x = 0
    · subst h0; simp [ibzCopyDigits, digitsOk]
    · simp only [h0, if_false]
      have hx : x / 2 ^ 64 < 2 ^ (64 * n) := by
        apply Nat.div_lt_of_lt_mul
        rw [← Nat.pow_add]; have : 64 + 64 * n = 64 * (n + 1) := by omega
        rw [this]; exact h
      obtain ⟨h1, h2, h3⟩ := ih _ hx
      refine ⟨?_, ?_, by simp only [List.length_cons]; omega⟩
      · simp only [ibzCopyDigits]; rw [h1]
        have := Nat.mod_add_div x (2 ^ 64)
        omega
      · intro d hd
        rcases List.mem_cons.mp hd with hd | hd
        · subst hd; exact Nat.mod_lt _ (by decide)
        · exact h2 d hd

theorem limbs_spec (x : Nat) : ibzCopyDigits (limbs x) = (x : Int) ∧ digitsOk (limbs x) := by
  have hlt : x < 2 ^ (64 * (x.log2 / 64 + 1)) := by
    have h1 := @Nat.lt_log2_self x
    have h2 : x.log2 + 1 ≤ 64 * (x.log2 / 64 + 1) := by omega
    exact Nat.lt_of_lt_of_le h1 (Nat.pow_le_pow_right (by decide) h2)
  have := limbsAux_spec _ _ hlt
  exact ⟨this.1, this.2.1⟩

theorem limbsAux_length_le : ∀ (fuel x m : Nat), x < 2 ^ (64 * m) → (limbsAux fuel x).length ≤ m := by
  intro fuel
  induction fuel with
  | zero => intro x m _; simp [limbsAux]
  | succ n ih =>
    intro x m h
    unfold limbsAux
    by_cases h0 : x = 0
    · simp [h0]
    · simp only [h0, if_false, List.length_cons]
      cases m with
      | zero => simp at h; omega
      | succ m =>
        have hx : x / 2 ^ 64 < 2 ^ (64 * m) := by
          apply Nat.div_lt_of_lt_mul
          rw [← Nat.pow_add]; have : 64 + 64 * m = 64 * (m + 1) := by omega
          rw [this]; exact h
        have := ih _ _ hx; omega

theorem copyDigits_append_zeros (ds : List Nat) (k : Nat) :
    ibzCopyDigits (ds ++ List.replicate k 0) = ibzCopyDigits ds := by
  induction ds with
  | nil =>
    induction k with
    | zero => rfl
    | succ k ih => simp only [List.nil_append] at ih ⊢; simp [List.replicate_succ, ibzCopyDigits, ih]
  | cons d ds ih => simp only [List.cons_append, ibzCopyDigits, ih]

theorem copyDigits_nonneg (ds : List Nat) : 0 ≤ ibzCopyDigits ds := by
  induction ds with
  | nil => simp [ibzCopyDigits]
  | cons d ds ih => simp only [ibzCopyDigits]; omega

theorem copyDigits_lt (ds : List Nat) (h : digitsOk ds) : ibzCopyDigits ds < 2 ^ (64 * ds.length) := by
  induction ds with
  | nil => simp [ibzCopyDigits]
  | cons d ds ih =>
    have hd : d < 2 ^ 64 := h d List.mem_cons_self
    have := ih (fun x hx => h x (List.mem_cons_of_mem _ hx))
    simp only [ibzCopyDigits, List.length_cons]
    have e : (2 : Int) ^ (64 * (ds.length + 1)) = 2 ^ 64 * 2 ^ (64 * ds.length) := by
      rw [← Int.pow_add]; congr 1; omega
    rw [e]
    generalize (2 : Int) ^ (64 * ds.length) = P at *
    generalize ibzCopyDigits ds = c at *
    have hd' : (d : Int) < 2 ^ 64 := by exact_mod_cast hd
    omega

theorem copyDigits_inj : ∀ (l1 l2 : List Nat), l1.length = l2.length → digitsOk l1 → digitsOk l2 →
    ibzCopyDigits l1 = ibzCopyDigits l2 → l1 = l2 := by
  intro l1
  induction l1 with
  | nil => intro l2 hl _ _ _; cases l2 with
    | nil => rfl
    | cons _ _ => simp at hl
  | cons d1 r1 ih =>
    intro l2 hl h1 h2 he
    cases l2 with
    | nil => simp at hl
    | cons d2 r2 =>
      simp only [ibzCopyDigits] at he
      have hd1 : d1 < 2 ^ 64 := h1 d1 List.mem_cons_self
      have hd2 : d2 < 2 ^ 64 := h2 d2 List.mem_cons_self
      have hn1 := copyDigits_nonneg r1
      have hn2 := copyDigits_nonneg r2
      have e1 : d1 = d2 := by omega
      have e2 : ibzCopyDigits r1 = ibzCopyDigits r2 := by omega
      rw [e1, ih r2 (by simpa using hl) (fun x hx => h1 x (List.mem_cons_of_mem _ hx))
        (fun x hx => h2 x (List.mem_cons_of_mem _ hx)) e2]

/-! ### ibz_get and two_adic_valuation -/

theorem ibzGet_spec (x : Int) :
    (ibzGet x - x) % 2 ^ 63 = 0 ∧ -(2 ^ 63) ≤ ibzGet x ∧ ibzGet x < 2 ^ 63 ∧
    (-(2 ^ 63) ≤ x ∧ x < 2 ^ 63 → ibzGet x = x) := by
  unfold ibzGet
  simp only
  split
  · omega
  · split
    · omega
    · omega

theorem toInt32_ibzGet_mod (x : Int) : toInt32 (ibzGet x) % 2 ^ 32 = x % 2 ^ 32 := by
  have h := (ibzGet_spec x).1
  unfold toInt32
  simp only
  split <;> omega

theorem toInt32_ibzGet_eq_zero_iff (x : Int) : toInt32 (ibzGet x) = 0 ↔ x % 2 ^ 32 = 0 := by
  have h := (ibzGet_spec x).1
  unfold toInt32
  simp only
  split <;> omega

/-- what the composition computes: 0 when 2^32 | x, else the number of trailing zeros of the low 32 bits -/
theorem twoAdicValuationOfIbz_eq (x : Int) :
    twoAdicValuationOfIbz x = if x % 2 ^ 32 = 0 then 0 else trailingZeros 32 (x % 2 ^ 32).toNat := by
  unfold twoAdicValuationOfIbz twoAdicValuationInt
  rw [toInt32_ibzGet_mod]
  by_cases h : x % 2 ^ 32 = 0
  · have := (toInt32_ibzGet_eq_zero_iff x).mpr h
    rw [if_pos this, if_pos h]
  · have : toInt32 (ibzGet x) ≠ 0 := fun h' => h ((toInt32_ibzGet_eq_zero_iff x).mp h')
    rw [if_neg this, if_neg h]

theorem trailingZeros_spec' : ∀ (fuel q : Nat), 0 < q → q < 2 ^ fuel →
    q = q / 2 ^ trailingZeros fuel q * 2 ^ trailingZeros fuel q ∧ (q / 2 ^ trailingZeros fuel q) % 2 = 1 ∧
    trailingZeros fuel q < fuel := by
  intro fuel
  induction fuel with
  | zero => intro q h1 h2; simp at h2; omega
  | succ n ih =>
    intro q hq hlt
    unfold trailingZeros
    by_cases hodd : q % 2 = 1
    · simp [hodd]
    · simp only [hodd, if_false]
      have hq2 : q / 2 < 2 ^ n := by rw [Nat.pow_succ] at hlt; omega
      have := ih (q / 2) (by omega) hq2
      generalize trailingZeros n (q / 2) = t at this ⊢
      have hc : q / 2 ^ (t + 1) = q / 2 / 2 ^ t := by
        rw [Nat.pow_succ, Nat.div_div_eq_div_mul, Nat.mul_comm]
      rw [hc]
      refine ⟨?_, this.2.1, by omega⟩
      have h2 : q = q / 2 * 2 := by omega
      rw [Nat.pow_succ, ← Nat.mul_assoc, ← this.1]; exact h2

end SqiProofs.C17

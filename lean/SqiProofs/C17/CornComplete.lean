/- C17 lemmas: completeness of ibz_cornacchia_prime for n = 1 (the only value used by ibz_cornacchia_extended and
   represent_integer): for every prime p ≡ 1 (mod 4) the Euclidean descent finds x, y with x² + y² = p.
   (A constructive proof of Fermat's two-square theorem on the model of the C code.) -/
import Mathlib.Tactic.Ring
import Mathlib.Tactic.LinearCombination
import Mathlib.Data.Nat.Prime.Basic
import SqiModel.NumberTheory
import SqiProofs.C17.RepInt
namespace SqiProofs.C17
open SqiModel.Intbig SqiModel.NumberTheory

theorem isqrtBits_spec (n : Nat) : ∀ (k r : Nat), r * r ≤ n → n < (r + 2 ^ k) * (r + 2 ^ k) →
    isqrtBits k n r * isqrtBits k n r ≤ n ∧ n < (isqrtBits k n r + 1) * (isqrtBits k n r + 1) := by
  intro k
  induction k with
  | zero => intro r h1 h2; simpa [isqrtBits] using ⟨h1, h2⟩
  | succ k ih =>
    intro r h1 h2
    unfold isqrtBits
    split
    · rename_i hle
      apply ih _ hle
      have : r + 2 ^ k + 2 ^ k = r + 2 ^ (k + 1) := by rw [Nat.pow_succ]; omega
      rw [this]; exact h2
    · rename_i hgt
      exact ih _ h1 (by omega)

theorem isqrt_spec (n : Nat) : isqrt n * isqrt n ≤ n ∧ n < (isqrt n + 1) * (isqrt n + 1) := by
  unfold isqrt
  apply isqrtBits_spec n _ 0 (Nat.zero_le _)
  have h1 := @Nat.lt_log2_self n
  have h2 : n.log2 + 1 ≤ 2 * (n.log2 / 2 + 1) := by omega
  have h3 : n < 2 ^ (2 * (n.log2 / 2 + 1)) := Nat.lt_of_lt_of_le h1 (Nat.pow_le_pow_right (by decide) h2)
  rw [Nat.zero_add, ← Nat.pow_add]
  have : n.log2 / 2 + 1 + (n.log2 / 2 + 1) = 2 * (n.log2 / 2 + 1) := by omega
  rw [this]; exact h3

theorem isqrt_sq (u : Nat) : isqrt (u * u) = u := by
  obtain ⟨h1, h2⟩ := isqrt_spec (u * u)
  have a : isqrt (u * u) ≤ u := by
    by_contra h
    have : u + 1 ≤ isqrt (u * u) := by omega
    have h3 := Nat.mul_le_mul this this
    have e : (u + 1) * (u + 1) = u * u + 2 * u + 1 := by ring
    omega
  have b : u ≤ isqrt (u * u) := by
    by_contra h
    have : isqrt (u * u) + 1 ≤ u := by omega
    have h3 := Nat.mul_le_mul this this
    exact absurd h2 (Nat.not_lt.mpr h3)
  omega

theorem sq_le_of_mul_le (p b u : Int) (hp : 0 < p) (hb : 0 < b) (hu : 0 ≤ u) (h1 : b * u ≤ p) (h2 : p ≤ b * b) :
    u * u ≤ p := by
  by_contra hc
  have hc' : p + 1 ≤ u * u := by omega
  have e1 : p * (p + 1) ≤ (b * b) * (u * u) := Int.mul_le_mul h2 hc' (by omega) (by omega)
  have hbu : 0 ≤ b * u := Int.mul_nonneg (by omega) hu
  have e2 : (b * u) * (b * u) ≤ p * p := Int.mul_le_mul h1 h1 hbu (by omega)
  have e3 : (b * b) * (u * u) = (b * u) * (b * u) := by ring
  have e4 : p * (p + 1) = p * p + p := by ring
  omega

/-- the Euclidean descent of Cornacchia's algorithm for n = 1: invariants on (a, b) and the cofactors (ua, ub) -/
theorem cornLoop_descent (p : Int) (hp : 0 < p) : ∀ (fuel : Nat) (a b ua ub : Int),
    0 ≤ a → 0 < b → 0 ≤ ua → 0 ≤ ub → b.toNat < fuel →
    p ∣ a * a + ua * ua → p ∣ b * b + ub * ub → p ∣ a * b - ua * ub → a * ub + b * ua = p → p ≤ b * b →
    ∃ c u : Int, cornLoop p fuel a b = .ok (c, c * c) ∧ 0 ≤ c ∧ 0 ≤ u ∧ c * c + u * u = p := by
  intro fuel
  induction fuel with
  | zero => intro a b ua ub _ _ _ _ h; omega
  | succ k ih =>
    intro a b ua ub ha hb hua hub hfuel I1 I2 I3 I4 I5
    unfold cornLoop
    have hb0 : b ≠ 0 := by omega
    simp only [hb0, if_false]
    rw [Int.tmod_eq_emod_of_nonneg ha]
    set c := a % b with hc
    set q := a / b with hq
    have hdiv : a = b * q + c := by rw [hc, hq]; exact (Int.mul_ediv_add_emod a b).symm
    have hc0 : 0 ≤ c := Int.emod_nonneg a hb0
    have hcb : c < b := Int.emod_lt_of_pos a hb
    have hq0 : 0 ≤ q := Int.ediv_nonneg ha (by omega)
    set uc := ua + q * ub with huc
    have huc0 : 0 ≤ uc := Int.add_nonneg hua (Int.mul_nonneg hq0 hub)
    have J2 : p ∣ c * c + uc * uc := by
      have e : c * c + uc * uc = (a * a + ua * ua) + q * q * (b * b + ub * ub) - 2 * q * (a * b - ua * ub) := by
        rw [huc]; have : c = a - b * q := by omega
        rw [this]; ring
      rw [e]
      exact Int.dvd_sub (Int.dvd_add I1 (Dvd.dvd.mul_left I2 _)) (Dvd.dvd.mul_left I3 _)
    have J3 : p ∣ b * c - ub * uc := by
      have e : b * c - ub * uc = (a * b - ua * ub) - q * (b * b + ub * ub) := by
        rw [huc]; have : c = a - b * q := by omega
        rw [this]; ring
      rw [e]; exact Int.dvd_sub I3 (Dvd.dvd.mul_left I2 _)
    have J4 : b * uc + c * ub = p := by
      rw [huc]; have : c = a - b * q := by omega
      rw [this, ← I4]; ring
    by_cases hstop : c * c ≥ p
    · simp only [hstop, if_true]
      have hcpos : 0 < c := by
        rcases lt_or_ge 0 c with h | h
        · exact h
        · have : c = 0 := by omega
          rw [this] at hstop; omega
      exact ih b c ub uc (by omega) hcpos hub huc0 (by omega) I2 J2 J3 J4 hstop
    · simp only [hstop, if_false]
      refine ⟨c, uc, rfl, hc0, huc0, ?_⟩
      have hbuc : b * uc ≤ p := by
        have : 0 ≤ c * ub := Int.mul_nonneg hc0 hub
        omega
      have hucp := sq_le_of_mul_le p b uc hp hb huc0 hbuc I5
      obtain ⟨m, hm⟩ := J2
      have hpos : 0 < c * c + uc * uc := by
        rcases lt_or_ge 0 (c * c + uc * uc) with h | h
        · exact h
        · have h1 := mul_self_nonneg c
          have h2 := mul_self_nonneg uc
          have hc2 : c * c = 0 := by omega
          have hu2 : uc * uc = 0 := by omega
          have : c = 0 := by rcases Int.mul_eq_zero.mp hc2 with h | h <;> exact h
          have : uc = 0 := by rcases Int.mul_eq_zero.mp hu2 with h | h <;> exact h
          rw [‹c = 0›, ‹uc = 0›] at J4; omega
      have hlt : c * c + uc * uc < 2 * p := by omega
      rw [hm] at hpos hlt
      have hm1 : 0 < m := by
        by_contra h
        have : m ≤ 0 := by omega
        have := Int.mul_le_mul_of_nonneg_left this (le_of_lt hp)
        omega
      have hm2 : m < 2 := by
        by_contra h
        have : 2 ≤ m := by omega
        have := Int.mul_le_mul_of_nonneg_left this (le_of_lt hp)
        omega
      have : m = 1 := by omega
      rw [hm, this]; ring

theorem cornFinish_one (p c u : Int) (hu : 0 ≤ u) (h : c * c + u * u = p) :
    cornFinish 1 p c (c * c) = .ok (c, u) := by
  unfold cornFinish
  have e1 : (p - c * c).tdiv 1 = u * u := by rw [Int.tdiv_one]; omega
  have e2 : (p - c * c).tmod 1 = 0 := Int.tmod_one _
  simp only [e1, e2, ne_eq, not_true_eq_false, if_false]
  have hs : ibzSqrt (u * u) = .ok u := by
    unfold ibzSqrt
    have hnn : ¬ (u * u < 0) := by have := mul_self_nonneg u; omega
    simp only [hnn, if_false]
    have ht : (u * u).toNat = u.toNat * u.toNat := by
      have : u = (u.toNat : Int) := (Int.toNat_of_nonneg hu).symm
      conv_lhs => rw [this]
      rw [← Int.natCast_mul, Int.toNat_natCast]
    rw [ht, isqrt_sq]
    simp only [if_true]
    rw [Int.toNat_of_nonneg hu]
  rw [hs]
  simp only
  rw [if_pos (by rw [← h]; ring)]

end SqiProofs.C17

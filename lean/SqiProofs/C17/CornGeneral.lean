/- C17 lemmas: completeness of ibz_cornacchia_prime for general n: if x² + n·y² = p has a solution, the first
   remainder of the Euclidean descent below √p is its x (Cornacchia's theorem, lattice / Lagrange-identity proof). -/
import Mathlib.Tactic.Ring
import Mathlib.Tactic.LinearCombination
import Mathlib.Tactic.Linarith
import Mathlib.Data.Nat.Prime.Basic
import Mathlib.Data.Int.GCD
import Mathlib.RingTheory.Coprime.Lemmas
import Mathlib.RingTheory.Int.Basic
import SqiProofs.C17.CornComplete
namespace SqiProofs.C17
open SqiModel.Intbig SqiModel.NumberTheory

theorem prime_not_sq (pn : Nat) (hp : pn.Prime) (x : Int) : x * x ≠ pn := by
  intro h
  have h1 : x.natAbs * x.natAbs = pn := by
    have := congrArg Int.natAbs h
    rwa [Int.natAbs_mul, Int.natAbs_natCast] at this
  have hd : x.natAbs ∣ pn := Dvd.intro _ h1
  rcases (Nat.dvd_prime hp).mp hd with h2 | h2
  · rw [h2] at h1; have := hp.two_le; omega
  · rw [h2] at h1
    have := hp.two_le
    have : pn * pn ≥ 2 * pn := Nat.mul_le_mul_right pn this
    omega

/-- a divisor of the prime p whose square is below p² … : |λ| ∈ {1, p} -/
theorem dvd_prime_int (pn : Nat) (hp : pn.Prime) (l : Int) (h : l ∣ (pn : Int)) : l * l = 1 ∨ l * l = (pn : Int) * pn := by
  have h1 : l.natAbs ∣ pn := by
    have := Int.natAbs_dvd_natAbs.mpr h; rwa [Int.natAbs_natCast] at this
  rcases (Nat.dvd_prime hp).mp h1 with h2 | h2
  · left
    have : (l.natAbs : Int) * l.natAbs = 1 := by rw [h2]; rfl
    rwa [← Int.natCast_mul, Int.natAbs_mul_self] at this
  · right
    have : (l.natAbs : Int) * l.natAbs = (pn : Int) * pn := by rw [h2]
    rwa [← Int.natCast_mul, Int.natAbs_mul_self] at this

theorem coprime_of_sol (pn : Nat) (hp : pn.Prime) (n x0 y0 : Int) (hx0 : 1 ≤ x0)
    (hsol : x0 * x0 + n * (y0 * y0) = pn) (hn : 1 ≤ n) : IsCoprime x0 (n * y0) := by
  rw [Int.isCoprime_iff_gcd_eq_one]
  by_contra hne
  obtain ⟨q, hq, hqd⟩ := Nat.exists_prime_and_dvd hne
  have h1 : (q : Int) ∣ x0 := Int.natCast_dvd.mpr (hqd.trans (Int.gcd_dvd_natAbs_left _ _))
  have h2 : (q : Int) ∣ n * y0 := Int.natCast_dvd.mpr (hqd.trans (Int.gcd_dvd_natAbs_right _ _))
  have h3 : (q : Int) ∣ (pn : Int) := by
    rw [← hsol]
    exact Int.dvd_add (Dvd.dvd.mul_right h1 _) (by rw [← mul_assoc]; exact Dvd.dvd.mul_right h2 _)
  have h4 : q ∣ pn := Int.natCast_dvd_natCast.mp h3
  have hqp : q = pn := ((Nat.dvd_prime hp).mp h4).resolve_left hq.one_lt.ne'
  rw [hqp] at h1
  -- p | x0 with 1 ≤ x0 and x0² ≤ p
  have hle : (pn : Int) ≤ x0 := Int.le_of_dvd (by omega) h1
  have hy : 0 ≤ n * (y0 * y0) := Int.mul_nonneg (by omega) (mul_self_nonneg y0)
  have hp2 := hp.two_le
  nlinarith

/-- step A: the stopping pair gives c² + n·u² = m·p with 0 < m ≤ n and m = e² + n·d², where p·d = c·y0 − u·x0 and
    p·e = c·x0 + n·u·y0 (Lagrange identity on the lattice of the chosen root) -/
theorem corn_stepA (pn : Nat) (hp : pn.Prime) (n c uc b ub x0 y0 r δ : Int)
    (hn : 1 ≤ n) (hsol : x0 * x0 + n * (y0 * y0) = pn)
    (hr : (pn : Int) ∣ r * r + n) (hδ : δ * δ = 1)
    (hc : (pn : Int) ∣ c - δ * uc * r) (hxy : (pn : Int) ∣ x0 - δ * r * y0)
    (hc0 : 0 ≤ c) (hcp : c * c < pn) (huc0 : 0 ≤ uc) (hub0 : 0 ≤ ub) (hb0 : 0 < b)
    (hbp : (pn : Int) ≤ b * b) (hdet : b * uc + c * ub = pn) :
    ∃ m e d : Int, c * c + n * (uc * uc) = pn * m ∧ c * y0 - uc * x0 = pn * d ∧ c * x0 + n * uc * y0 = pn * e ∧
      m = e * e + n * (d * d) ∧ 0 < m ∧ m ≤ n := by
  have hp2 : (2 : Int) ≤ pn := by exact_mod_cast hp.two_le
  have hppos : (0 : Int) < pn := by omega
  have hD : (pn : Int) ∣ c * y0 - uc * x0 := by
    have e : c * y0 - uc * x0 = (c - δ * uc * r) * y0 - uc * (x0 - δ * r * y0) := by ring
    rw [e]; exact Int.dvd_sub (Dvd.dvd.mul_right hc _) (Dvd.dvd.mul_left hxy _)
  have hE : (pn : Int) ∣ c * x0 + n * uc * y0 := by
    have e : c * x0 + n * uc * y0 = (c - δ * uc * r) * x0 + δ * uc * r * (x0 - δ * r * y0) + uc * y0 * (r * r + n)
        + (δ * δ - 1) * (uc * (r * r) * y0) := by ring
    rw [e, hδ]
    simp only [sub_self, zero_mul, add_zero]
    exact Int.dvd_add (Int.dvd_add (Dvd.dvd.mul_right hc _) (Dvd.dvd.mul_left hxy _)) (Dvd.dvd.mul_left hr _)
  have hM : (pn : Int) ∣ c * c + n * (uc * uc) := by
    have e : c * c + n * (uc * uc) = (c - δ * uc * r) * (c + δ * uc * r) + uc * uc * (r * r + n)
        + (δ * δ - 1) * (uc * uc * (r * r)) := by ring
    rw [e, hδ]
    simp only [sub_self, zero_mul, add_zero]
    exact Int.dvd_add (Dvd.dvd.mul_right hc _) (Dvd.dvd.mul_left hr _)
  obtain ⟨d, hd⟩ := hD
  obtain ⟨e, he⟩ := hE
  obtain ⟨m, hm⟩ := hM
  have hlag : (c * c + n * (uc * uc)) * (x0 * x0 + n * (y0 * y0))
      = (c * x0 + n * uc * y0) * (c * x0 + n * uc * y0) + n * ((c * y0 - uc * x0) * (c * y0 - uc * x0)) := by ring
  rw [hsol, hm, he, hd] at hlag
  have hmed : m = e * e + n * (d * d) := by
    have : (pn : Int) * pn * (m - (e * e + n * (d * d))) = 0 := by linear_combination hlag
    rcases Int.mul_eq_zero.mp this with h | h
    · have : (pn : Int) * pn > 0 := Int.mul_pos hppos hppos
      omega
    · omega
  have hbuc : b * uc ≤ pn := by have := Int.mul_nonneg hc0 hub0; omega
  have hucp : uc * uc ≤ pn := sq_le_of_mul_le pn b uc hppos hb0 huc0 hbuc hbp
  have hmle : m ≤ n := by
    have h1 : (pn : Int) * m < pn * (n + 1) := by
      rw [← hm]
      have h2 : n * (uc * uc) ≤ n * pn := Int.mul_le_mul_of_nonneg_left hucp (by omega)
      have e1 : (pn : Int) * (n + 1) = n * pn + pn := by ring
      omega
    have := Int.lt_of_mul_lt_mul_left h1 (le_of_lt hppos)
    omega
  have hmpos : 0 < m := by
    have h1 := mul_self_nonneg c
    have h2 : 0 ≤ n * (uc * uc) := Int.mul_nonneg (by omega) (mul_self_nonneg uc)
    rcases lt_or_ge 0 m with h | h
    · exact h
    · exfalso
      have h3 : (pn : Int) * m ≤ 0 := Int.mul_nonpos_of_nonneg_of_nonpos (le_of_lt hppos) h
      have hcc : c * c = 0 := by omega
      have hnu : n * (uc * uc) = 0 := by omega
      have hc' : c = 0 := by rcases Int.mul_eq_zero.mp hcc with h | h <;> exact h
      have huu : uc * uc = 0 := by
        rcases Int.mul_eq_zero.mp hnu with h | h
        · omega
        · exact h
      have hu' : uc = 0 := by rcases Int.mul_eq_zero.mp huu with h | h <;> exact h
      rw [hc', hu'] at hdet; simp at hdet; omega
  exact ⟨m, e, d, hm, hd, he, hmed, hmpos, hmle⟩

/-- step B: parallel case (d = 0) ⇒ m = 1 -/
theorem corn_stepB (pn : Nat) (hp : pn.Prime) (n c uc b ub x0 y0 m : Int) (hx0 : 1 ≤ x0)
    (hsol : x0 * x0 + n * (y0 * y0) = pn) (hcop : IsCoprime x0 (n * y0))
    (hcp : c * c < pn) (hdet : b * uc + c * ub = pn)
    (hm : c * c + n * (uc * uc) = pn * m) (hcy : c * y0 = uc * x0) : m = 1 := by
  have hp2 : (2 : Int) ≤ pn := by exact_mod_cast hp.two_le
  have hcop' : IsCoprime x0 y0 := IsCoprime.of_mul_right_right hcop
  have hx0c : x0 ∣ c := by
    have : x0 ∣ c * y0 := by rw [hcy]; exact Dvd.intro_left _ rfl
    exact hcop'.dvd_of_dvd_mul_right this
  obtain ⟨l, hl⟩ := hx0c
  have hul : uc = l * y0 := by
    have : x0 * (uc - l * y0) = 0 := by rw [hl] at hcy; linear_combination -hcy
    rcases Int.mul_eq_zero.mp this with h | h
    · omega
    · omega
  have hlp : l ∣ (pn : Int) := by
    rw [← hdet, hl, hul]; exact ⟨b * y0 + x0 * ub, by ring⟩
  have hml : m = l * l := by
    have : (pn : Int) * (m - l * l) = 0 := by
      have h1 : c * c + n * (uc * uc) = l * l * (x0 * x0 + n * (y0 * y0)) := by rw [hl, hul]; ring
      rw [hsol] at h1; linear_combination -hm + h1
    rcases Int.mul_eq_zero.mp this with h | h
    · omega
    · omega
  rcases dvd_prime_int pn hp l hlp with h | h
  · omega
  · exfalso
    have h0 : c * c = (pn : Int) * pn * (x0 * x0) := by rw [hl]; linear_combination (x0 * x0) * h
    have h1 : 1 ≤ x0 * x0 := by nlinarith
    have h2 : (pn : Int) * pn * 1 ≤ pn * pn * (x0 * x0) :=
      Int.mul_le_mul_of_nonneg_left h1 (by positivity)
    have h3 : (pn : Int) * 2 ≤ pn * pn := Int.mul_le_mul_of_nonneg_left hp2 (by omega)
    omega

/-- step C: the transversal case (e = 0, m = n ≥ 2) contradicts "first remainder below √p" -/
theorem corn_stepC (pn : Nat) (hp : pn.Prime) (n c uc b ub x0 y0 : Int) (hn2 : 2 ≤ n) (hx0 : 1 ≤ x0)
    (hsol : x0 * x0 + n * (y0 * y0) = pn) (hcop : IsCoprime x0 (n * y0)) (hy0 : y0 ≠ 0)
    (hc0 : 0 ≤ c) (hcp : c * c < pn) (huc0 : 0 ≤ uc) (hub0 : 0 ≤ ub) (hubuc : ub ≤ uc)
    (hbp : (pn : Int) ≤ b * b) (hdet : b * uc + c * ub = pn)
    (hm : c * c + n * (uc * uc) = pn * n) (he : c * x0 + n * uc * y0 = 0) : False := by
  have hp2 : (2 : Int) ≤ pn := by exact_mod_cast hp.two_le
  have hppos : (0 : Int) < pn := by omega
  have hx0u : x0 ∣ uc := by
    have h1 : x0 ∣ uc * (n * y0) := ⟨-c, by linear_combination he⟩
    exact hcop.dvd_of_dvd_mul_right h1
  obtain ⟨mu, hmu⟩ := hx0u
  have hcmu : c = -(n * mu * y0) := by
    have : x0 * (c + n * mu * y0) = 0 := by rw [hmu] at he; linear_combination he
    rcases Int.mul_eq_zero.mp this with h | h
    · omega
    · omega
  have hmumu : mu * mu = 1 := by
    have h1 : c * c + n * (uc * uc) = n * (mu * mu) * (x0 * x0 + n * (y0 * y0)) := by rw [hcmu, hmu]; ring
    rw [hsol, hm] at h1
    have : (pn : Int) * n * (mu * mu - 1) = 0 := by linear_combination -h1
    rcases Int.mul_eq_zero.mp this with h | h
    · have : (pn : Int) * n > 0 := Int.mul_pos hppos (by omega)
      omega
    · omega
  have hmu1 : mu = 1 := by
    have hmu0 : 0 ≤ mu := by
      by_contra hneg
      have h1 : mu ≤ -1 := by omega
      have h2 : x0 * mu ≤ x0 * (-1) := Int.mul_le_mul_of_nonneg_left h1 (by omega)
      omega
    have : (mu - 1) * (mu + 1) = 0 := by linear_combination hmumu
    rcases Int.mul_eq_zero.mp this with h | h
    · omega
    · omega
  rw [hmu1] at hmu hcmu
  simp only [mul_one] at hmu hcmu
  have hdet' : x0 * (b - x0) = n * (-y0) * (-y0 - ub) := by
    rw [hmu, hcmu] at hdet; linear_combination hdet - hsol
  have hcopw : IsCoprime x0 (n * (-y0)) := by
    have : n * (-y0) = -(n * y0) := by ring
    rw [this]; exact hcop.neg_right
  have hx0w : x0 ∣ (-y0 - ub) := by
    have h1 : x0 ∣ (-y0 - ub) * (n * (-y0)) := ⟨b - x0, by linear_combination -hdet'⟩
    exact hcopw.dvd_of_dvd_mul_right h1
  obtain ⟨t, ht⟩ := hx0w
  have hbt : b - x0 = n * (-y0) * t := by
    have : x0 * (b - x0 - n * (-y0) * t) = 0 := by rw [ht] at hdet'; linear_combination hdet'
    rcases Int.mul_eq_zero.mp this with h | h
    · omega
    · omega
  have hw0 : 1 ≤ -y0 := by
    by_contra hneg
    have h1 : 1 ≤ y0 := by omega
    have h2 : n * y0 ≥ 1 := by nlinarith
    omega
  have hx0sq : x0 * x0 < pn := by
    have : 0 < n * (y0 * y0) := Int.mul_pos (by omega) (mul_self_pos.mpr hy0)
    omega
  rcases lt_trichotomy t 0 with ht0 | ht0 | ht0
  · have : x0 * t ≤ x0 * (-1) := Int.mul_le_mul_of_nonneg_left (by omega) (by omega)
    omega
  · rw [ht0, mul_zero] at hbt
    have : b = x0 := by omega
    rw [this] at hbp; omega
  · have h1 : x0 * 1 ≤ x0 * t := Int.mul_le_mul_of_nonneg_left (by omega) (by omega)
    have hwx : x0 ≤ -y0 := by omega
    have hcc : c * c = n * n * (y0 * y0) := by rw [hcmu]; ring
    have hyy : x0 * x0 ≤ y0 * y0 := by nlinarith
    have hyypos : 1 ≤ y0 * y0 := by nlinarith
    have h4 : n * n * (y0 * y0) ≥ (n + 1) * (y0 * y0) + (y0 * y0) := by nlinarith
    nlinarith

/-- the arithmetic heart: at the stopping step of the descent (c² < p ≤ b²) the pair (c, u_c) IS a solution as soon as one exists -/
theorem corn_final (pn : Nat) (hp : pn.Prime) (n c uc b ub x0 y0 r δ : Int)
    (hn : 1 ≤ n) (hx0 : 1 ≤ x0) (hsol : x0 * x0 + n * (y0 * y0) = pn)
    (hr : (pn : Int) ∣ r * r + n) (hδ : δ * δ = 1)
    (hc : (pn : Int) ∣ c - δ * uc * r) (hxy : (pn : Int) ∣ x0 - δ * r * y0)
    (hc0 : 0 ≤ c) (hcp : c * c < pn) (huc0 : 0 ≤ uc) (hub0 : 0 ≤ ub) (hubuc : ub ≤ uc) (hbc : c < b)
    (hbp : (pn : Int) ≤ b * b) (hdet : b * uc + c * ub = pn) :
    c * c + n * (uc * uc) = pn := by
  have hy0 : y0 ≠ 0 := by
    intro h; rw [h] at hsol; simp at hsol; exact prime_not_sq pn hp x0 hsol
  have hcop := coprime_of_sol pn hp n x0 y0 hx0 hsol hn
  obtain ⟨m, e, d, hm, hd, he, hmed, hmpos, hmle⟩ :=
    corn_stepA pn hp n c uc b ub x0 y0 r δ hn hsol hr hδ hc hxy hc0 hcp huc0 hub0 (by omega) hbp hdet
  have hm1 : m = 1 := by
    by_cases hd0 : d = 0
    · rw [hd0, mul_zero] at hd
      exact corn_stepB pn hp n c uc b ub x0 y0 m hx0 hsol hcop hcp hdet hm (by omega)
    · have hdd : 1 ≤ d * d := by
        rcases lt_or_ge d 0 with h | h
        · nlinarith
        · have : 1 ≤ d := by omega
          nlinarith
      have hee : 0 ≤ e * e := mul_self_nonneg e
      have hnd : n * (d * d) ≥ n := by nlinarith
      have hmn : m = n := by omega
      have he0 : e * e = 0 := by omega
      have he0' : e = 0 := by rcases Int.mul_eq_zero.mp he0 with h | h <;> exact h
      by_cases hn1 : n = 1
      · omega
      · exfalso
        rw [he0', mul_zero] at he
        rw [hmn] at hm
        exact corn_stepC pn hp n c uc b ub x0 y0 (by omega) hx0 hsol hcop hy0 hc0 hcp huc0 hub0 hubuc hbp hdet hm he
  rw [hm, hm1, mul_one]

/-- Euclidean descent for general n, given that a solution (x0, y1) in the lattice of the root r exists -/
theorem cornLoop_descent_n (pn : Nat) (hp : pn.Prime) (n r x0 y1 : Int) (hn : 1 ≤ n) (hx0 : 1 ≤ x0)
    (hsol : x0 * x0 + n * (y1 * y1) = pn) (hr : (pn : Int) ∣ r * r + n) (hxy : (pn : Int) ∣ x0 - r * y1) :
    ∀ (fuel : Nat) (a b ua ub ε : Int),
    0 < b → b < a → 0 ≤ ua → ua ≤ ub → b.toNat < fuel → ε * ε = 1 →
    (pn : Int) ∣ a - ε * ua * r → (pn : Int) ∣ b + ε * ub * r → a * ub + b * ua = pn → (pn : Int) ≤ b * b →
    ∃ c u : Int, cornLoop pn fuel a b = .ok (c, c * c) ∧ 0 ≤ c ∧ 0 ≤ u ∧ c * c + n * (u * u) = pn := by
  intro fuel
  induction fuel with
  | zero => intro a b ua ub ε _ _ _ _ h; omega
  | succ k ih =>
    intro a b ua ub ε hb hab hua huab hfuel hε L1 L2 I4 I5
    unfold cornLoop
    have hb0 : b ≠ 0 := by omega
    have ha : 0 ≤ a := by omega
    simp only [hb0, if_false]
    rw [Int.tmod_eq_emod_of_nonneg ha]
    set c := a % b with hc
    set q := a / b with hq
    have hdiv : a = b * q + c := by rw [hc, hq]; exact (Int.mul_ediv_add_emod a b).symm
    have hc0 : 0 ≤ c := Int.emod_nonneg a hb0
    have hcb : c < b := Int.emod_lt_of_pos a hb
    have hq1 : 1 ≤ q := by
      have : 0 ≤ q := Int.ediv_nonneg ha (by omega)
      rcases lt_or_ge 0 q with h | h
      · omega
      · have : q = 0 := by omega
        rw [this] at hdiv; omega
    have hub0 : 0 ≤ ub := by omega
    set uc := ua + q * ub with huc
    have hubuc : ub ≤ uc := by
      have : ub * 1 ≤ ub * q := Int.mul_le_mul_of_nonneg_left hq1 hub0
      have e : q * ub = ub * q := by ring
      omega
    have huc0 : 0 ≤ uc := by omega
    have L3 : (pn : Int) ∣ c - ε * uc * r := by
      have e : c - ε * uc * r = (a - ε * ua * r) - q * (b + ε * ub * r) := by
        rw [huc]; have : c = a - b * q := by omega
        rw [this]; ring
      rw [e]; exact Int.dvd_sub L1 (Dvd.dvd.mul_left L2 _)
    have J4 : b * uc + c * ub = pn := by
      rw [huc]; have : c = a - b * q := by omega
      rw [this, ← I4]; ring
    by_cases hstop : c * c ≥ (pn : Int)
    · simp only [hstop, if_true]
      have hcpos : 0 < c := by
        rcases lt_or_ge 0 c with h | h
        · exact h
        · have : c = 0 := by omega
          rw [this] at hstop
          have : (0 : Int) < pn := by exact_mod_cast hp.pos
          omega
      have L2' : (pn : Int) ∣ b - (-ε) * ub * r := by
        have e : b - (-ε) * ub * r = b + ε * ub * r := by ring
        rw [e]; exact L2
      have L3' : (pn : Int) ∣ c + (-ε) * uc * r := by
        have e : c + (-ε) * uc * r = c - ε * uc * r := by ring
        rw [e]; exact L3
      exact ih b c ub uc (-ε) hcpos hcb hub0 hubuc (by omega) (by rw [neg_mul_neg]; exact hε) L2' L3' J4 hstop
    · simp only [hstop, if_false]
      refine ⟨c, uc, rfl, hc0, huc0, ?_⟩
      have hcp : c * c < pn := by omega
      -- choose the sign of y1 according to ε
      have hε' : ε = 1 ∨ ε = -1 := by
        have : (ε - 1) * (ε + 1) = 0 := by linear_combination hε
        rcases Int.mul_eq_zero.mp this with h | h
        · left; omega
        · right; omega
      rcases hε' with h1 | h1
      · apply corn_final pn hp n c uc b ub x0 y1 r ε hn hx0 hsol hr hε L3 _ hc0 hcp huc0 hub0 hubuc hcb I5 J4
        rw [h1]; have e : x0 - 1 * r * y1 = x0 - r * y1 := by ring
        rw [e]; exact hxy
      · apply corn_final pn hp n c uc b ub x0 (-y1) r ε hn hx0 _ hr hε L3 _ hc0 hcp huc0 hub0 hubuc hcb I5 J4
        · rw [← hsol]; ring
        · rw [h1]; have e : x0 - -1 * r * -y1 = x0 - r * y1 := by ring
          rw [e]; exact hxy

theorem cornFinish_n (n p c u : Int) (hn : 1 ≤ n) (hu : 0 ≤ u) (h : c * c + n * (u * u) = p) :
    cornFinish n p c (c * c) = .ok (c, u) := by
  unfold cornFinish
  have hn0 : n ≠ 0 := by omega
  have e0 : p - c * c = u * u * n := by rw [← h]; ring
  have e1 : (p - c * c).tdiv n = u * u := by rw [e0]; exact Int.mul_tdiv_cancel _ hn0
  have e2 : (p - c * c).tmod n = 0 := by rw [e0]; exact Int.mul_tmod_left _ _
  simp only [e1, e2, ne_eq, not_true_eq_false, if_false]
  have hs : ibzSqrt (u * u) = .ok u := by
    unfold ibzSqrt
    have hnn : ¬ (u * u < 0) := by have := mul_self_nonneg u; omega
    simp only [hnn, if_false]
    have ht : (u * u).toNat = u.toNat * u.toNat := by
      have : u = (u.toNat : Int) := (Int.toNat_of_nonneg hu).symm
      conv_lhs => rw [this]
      rw [← Int.natCast_mul, Int.toNat_natCast]
    rw [ht, isqrt_sq]
    simp only [if_true]
    rw [Int.toNat_of_nonneg hu]
  rw [hs]
  simp only
  rw [if_pos (by rw [← h]; ring)]

/-- the two square roots of −n: a solution lies in the lattice of r or of −r -/
theorem sol_in_lattice (pn : Nat) (hp : pn.Prime) (n r x0 y0 : Int)
    (hsol : x0 * x0 + n * (y0 * y0) = pn) (hr : (pn : Int) ∣ r * r + n) :
    (pn : Int) ∣ x0 - r * y0 ∨ (pn : Int) ∣ x0 - r * (-y0) := by
  have hpI : Prime (pn : Int) := Nat.prime_iff_prime_int.mp hp
  have h : (pn : Int) ∣ (x0 - r * y0) * (x0 + r * y0) := by
    have e : (x0 - r * y0) * (x0 + r * y0) = (x0 * x0 + n * (y0 * y0)) - y0 * y0 * (r * r + n) := by ring
    rw [e, hsol]; exact Int.dvd_sub (dvd_refl _) (Dvd.dvd.mul_left hr _)
  rcases hpI.dvd_or_dvd h with h1 | h1
  · left; exact h1
  · right; have e : x0 - r * -y0 = x0 + r * y0 := by ring
    rw [e]; exact h1

end SqiProofs.C17

/- C17 lemmas: soundness of the Cornacchia variants (never a false solution) -/
import Mathlib.Tactic.Ring
import Mathlib.Tactic.LinearCombination
import SqiModel.NumberTheory
namespace SqiProofs.C17
open SqiModel.Intbig SqiModel.NumberTheory

theorem cornLoop_prod (bound : Int) : ∀ (fuel : Nat) (r2 r1 r0 prod : Int),
    cornLoop bound fuel r2 r1 = .ok (r0, prod) → prod = r0 * r0 ∧ prod < bound := by
  intro fuel
  induction fuel with
  | zero => intro r2 r1 r0 prod h; simp [cornLoop] at h
  | succ n ih =>
    intro r2 r1 r0 prod h
    unfold cornLoop at h
    split at h
    · exact absurd h (by simp)
    · simp only at h
      split at h
      · exact ih _ _ _ _ h
      · rename_i hlt
        injection h with h
        injection h with h1 h2
        subst h1; subst h2
        exact ⟨rfl, by omega⟩

theorem cornFinish_sound (n target r0 prod x y : Int) (hp : prod = r0 * r0)
    (h : cornFinish n target r0 prod = .ok (x, y)) : x * x + n * (y * y) = target := by
  unfold cornFinish at h
  simp only at h
  split at h
  · exact absurd h (by simp)
  · split at h
    · rename_i y' hy
      split at h
      · rename_i hchk
        injection h with h
        injection h with h1 h2
        subst h1; subst h2
        rw [← hchk, hp]; ring
      · exact absurd h (by simp)
    · exact absurd h (by simp)

/-- `ibz_cornacchia_prime` never returns a false solution (no hypothesis on n, p at all) -/
theorem cornacchiaPrime_sound (n p x y : Int) (h : ibzCornacchiaPrime n p = .ok (x, y)) :
    x * x + n * (y * y) = p := by
  unfold ibzCornacchiaPrime at h
  split at h
  · rename_i hp2
    split at h
    · rename_i hn1
      injection h with h
      injection h with h1 h2
      subst h1; subst h2; rw [hn1, hp2]; rfl
    · exact absurd h (by simp)
  · split at h
    · exact absurd h (by simp)
    · exact absurd h (by simp)
    · split at h
      · exact absurd h (by simp)
      · exact absurd h (by simp)
      · rename_i r0 prod hl
        exact cornFinish_sound _ _ _ _ _ _ (cornLoop_prod _ _ _ _ _ _ hl).1 h

/-- `ibz_cornacchia_special_prime` (repaired): sound unless p = 2 ∧ n = 1 (excluded by the contract n ≡ 3 mod 4) -/
theorem cornacchiaSpecialPrime_sound (n p : Int) (e : Nat) (x y : Int)
    (hp2 : ¬ (p = 2 ∧ n = 1))
    (h : ibzCornacchiaSpecialPrime n p e = .ok (x, y)) :
    x * x + n * (y * y) = p * 2 ^ e := by
  unfold ibzCornacchiaSpecialPrime at h
  simp only at h
  split at h
  · rename_i hp
    split at h
    · rename_i hn1; exact absurd ⟨hp, hn1⟩ hp2
    · exact absurd h (by simp)
  · split at h
    · exact absurd h (by simp)
    · split at h
      · exact absurd h (by simp)
      · exact absurd h (by simp)
      · split at h
        · exact absurd h (by simp)
        · split at h
          · exact absurd h (by simp)
          · split at h
            · exact absurd h (by simp)
            · exact absurd h (by simp)
            · rename_i r0 prod hl
              exact cornFinish_sound _ _ _ _ _ _ (cornLoop_prod _ _ _ _ _ _ hl).1 h

/-! ### Gaussian integers: norms -/

def cnorm (a : Int × Int) : Int := a.1 * a.1 + a.2 * a.2

theorem cnorm_cmul (a b : Int × Int) : cnorm (cmul a b) = cnorm a * cnorm b := by
  simp only [cnorm, cmul]; ring

theorem cpowLoop_norm (a : Int × Int) (exp : Nat) : ∀ (k : Nat) (x : Int × Int),
    cnorm (cpowLoop a exp k x) = cnorm x ^ (2 ^ k) * cnorm a ^ (exp % 2 ^ k) := by
  intro k
  induction k with
  | zero => intro x; simp [cpowLoop, Nat.mod_one]
  | succ k ih =>
    intro x
    unfold cpowLoop
    simp only
    rw [ih]
    have hm : exp % 2 ^ (k + 1) = exp % 2 ^ k + 2 ^ k * (exp / 2 ^ k % 2) := Nat.mod_pow_succ
    have hb : exp / 2 ^ k % 2 = 0 ∨ exp / 2 ^ k % 2 = 1 := by omega
    rcases hb with hb | hb
    · have : ¬ (exp / 2 ^ k % 2 = 1) := by omega
      simp only [this, if_false]
      rw [hm, hb, cnorm_cmul, Nat.mul_zero, ← pow_two, ← pow_mul, Nat.pow_succ, Nat.mul_comm]; rfl
    · simp only [hb, if_true]
      rw [hm, hb, cnorm_cmul, cnorm_cmul, Nat.mul_one, mul_pow, ← pow_two, ← pow_mul, pow_add, Nat.pow_succ,
        Nat.mul_comm (2 ^ k) 2]
      ring

theorem cmulByPow_norm (res a : Int × Int) (exp : Nat) (he : exp < 2 ^ 64) :
    cnorm (cmulByPow res a exp) = cnorm res * cnorm a ^ exp := by
  unfold cmulByPow
  rw [cnorm_cmul, cpowLoop_norm, Nat.mod_eq_of_lt he]
  simp [cnorm]

/-! ### extended Cornacchia: factor stripping and recombination -/

def prodPow : List Int → List Nat → Int
  | p :: ps, v :: vs => p ^ v * prodPow ps vs
  | _, _ => 1

theorem valLoop_inv (p : Int) : ∀ (fuel : Nat) (q nodd : Int) (val : Nat) (n' : Int) (v : Nat),
    valLoop p fuel q nodd val = .ok (n', v) → q * p ^ val = n' * p ^ v ∧ v < val + fuel := by
  intro fuel
  induction fuel with
  | zero => intro q nodd val n' v h; simp [valLoop] at h
  | succ k ih =>
    intro q nodd val n' v h
    unfold valLoop at h
    simp only at h
    split at h
    · rename_i hr
      obtain ⟨h1, h2⟩ := ih _ _ _ _ _ h
      have hq : q.tdiv p * p = q := by
        have := Int.tdiv_mul_add_tmod q p; rw [hr] at this; omega
      refine ⟨?_, by omega⟩
      rw [← h1, pow_succ]
      linear_combination (p ^ val) * (-hq)
    · injection h with h
      injection h with h1 h2
      subst h1
      have : v = val := by omega
      subst this
      exact ⟨rfl, by omega⟩

theorem natAbs_le_of_mul_pow (q n' p : Int) (v : Nat) (hp : p ≠ 0) (h : q = n' * p ^ v) : n'.natAbs ≤ q.natAbs := by
  rw [h, Int.natAbs_mul]
  have : 1 ≤ (p ^ v).natAbs := Int.natAbs_pos.mpr (pow_ne_zero v hp)
  exact Nat.le_mul_of_pos_right _ this

theorem log2_add_two_lt (x B : Nat) (hB : 1 ≤ B) (h : x < 2 ^ B) : x.log2 + 2 < B + 2 + 1 := by
  by_cases h0 : x = 0
  · subst h0; simp [Nat.log2_zero]
  · have := (Nat.log2_lt h0).mpr h; omega

theorem stripPrimes_inv (B : Nat) (hB : 1 ≤ B) : ∀ (primes : List Int) (first : Bool) (n nodd : Int) (vals : List Nat),
    n.natAbs < 2 ^ B → stripPrimes primes first n = .ok (nodd, vals) →
    n = nodd * prodPow primes vals ∧ (∀ v ∈ vals, v < B + 2) := by
  intro primes
  induction primes with
  | nil =>
    intro first n nodd vals _ h
    simp only [stripPrimes] at h
    injection h with h; injection h with h1 h2
    subst h1; subst h2; simp [prodPow]
  | cons p ps ih =>
    intro first n nodd vals hn h
    unfold stripPrimes at h
    split at h
    · split at h
      · exact absurd h (by simp)
      · rename_i hp0
        split at h
        · rename_i n1 v hv
          obtain ⟨hv1, hv2⟩ := valLoop_inv _ _ _ _ _ _ _ hv
          simp only [pow_zero, mul_one] at hv1
          have hle := natAbs_le_of_mul_pow n n1 p v hp0 hv1
          split at h
          · rename_i n2 vs hrec
            injection h with h; injection h with h1 h2
            subst h1; subst h2
            obtain ⟨hr1, hr2⟩ := ih false n1 n2 vs (by omega) hrec
            refine ⟨?_, ?_⟩
            · simp only [prodPow]; rw [hv1, hr1]; ring
            · intro w hw
              rcases List.mem_cons.mp hw with hw | hw
              · subst hw
                have := log2_add_two_lt n.natAbs B hB hn
                omega
              · exact hr2 w hw
          · exact absurd h (by simp)
          · exact absurd h (by simp)
        · exact absurd h (by simp)
        · exact absurd h (by simp)
    · split at h
      · rename_i n2 vs hrec
        injection h with h; injection h with h1 h2
        subst h1; subst h2
        obtain ⟨hr1, hr2⟩ := ih false n n2 vs hn hrec
        refine ⟨by simp only [prodPow, pow_zero, one_mul]; exact hr1, ?_⟩
        intro w hw
        rcases List.mem_cons.mp hw with hw | hw
        · omega
        · exact hr2 w hw
      · exact absurd h (by simp)
      · exact absurd h (by simp)

theorem applyPrimes_norm : ∀ (primes : List Int) (vals : List Nat) (xy xy' : Int × Int),
    (∀ v ∈ vals, v < 2 ^ 64) → applyPrimes primes vals xy = .ok xy' →
    cnorm xy' = cnorm xy * prodPow primes vals := by
  intro primes
  induction primes with
  | nil =>
    intro vals xy xy' _ h
    simp only [applyPrimes] at h
    injection h with h; subst h; simp [prodPow]
  | cons p ps ih =>
    intro vals xy xy' hv h
    cases vals with
    | nil =>
      simp only [applyPrimes] at h
      injection h with h; subst h; simp [prodPow]
    | cons v vs =>
      unfold applyPrimes at h
      have hvs : ∀ w ∈ vs, w < 2 ^ 64 := fun w hw => hv w (List.mem_cons_of_mem _ hw)
      split at h
      · rename_i hv0
        split at h
        · rename_i xy1 hext
          have hrec := ih vs xy1 xy' hvs h
          unfold extPrimeLoop at hext
          split at hext
          · rename_i a ha
            injection hext with hext; subst hext
            have hna : cnorm a = p := by
              have := cornacchiaPrime_sound 1 p a.1 a.2 (by simpa using ha)
              simp only [cnorm]; linear_combination this
            rw [hrec, cmulByPow_norm _ _ _ (hv v List.mem_cons_self), hna]
            simp only [prodPow]; ring
          · exact absurd hext (by simp)
          · exact absurd hext (by simp)
        · exact absurd h (by simp)
        · exact absurd h (by simp)
      · rename_i hv0
        have : v = 0 := by simpa using hv0
        subst this
        rw [ih vs xy xy' hvs h]
        simp [prodPow]

/-- `ibz_cornacchia_extended` never returns a false solution of x² + y² = n
    (|n| < 2^B with B ≤ 2^63 so that the int64 valuations cannot wrap; no hypothesis on the primality oracle,
    the prime list or `bad_primes_prod`) -/
theorem cornacchiaExtended_sound (isPP : Int → Bool) (n : Int) (primes : List Int) (bad : Option Int) (x y : Int)
    (B : Nat) (hB1 : 1 ≤ B) (hB : B ≤ 2 ^ 63) (hn : n.natAbs < 2 ^ B)
    (h : ibzCornacchiaExtended isPP n primes bad = .ok (x, y)) : x * x + y * y = n := by
  unfold ibzCornacchiaExtended at h
  simp only at h
  split at h
  · exact absurd h (by simp)
  · split at h
    · exact absurd h (by simp)
    · exact absurd h (by simp)
    · rename_i nodd vals hstrip
      obtain ⟨hs1, hs2⟩ := stripPrimes_inv B hB1 _ _ _ _ _ hn hstrip
      have hvals : ∀ v ∈ vals, v < 2 ^ 64 := fun v hv => by have := hs2 v hv; omega
      split at h
      · exact absurd h (by simp)
      · split at h
        · exact absurd h (by simp)
        · split at h
          · rename_i xy hfirst
            have hnorm := applyPrimes_norm _ _ _ _ hvals h
            have hxy : cnorm xy = nodd := by
              split at hfirst
              · rename_i h1
                injection hfirst with hfirst; subst hfirst; rw [h1]; rfl
              · have := cornacchiaPrime_sound 1 nodd xy.1 xy.2 (by simpa using hfirst)
                simp only [cnorm]; linear_combination this
            rw [hxy] at hnorm
            simp only [cnorm] at hnorm
            rw [hs1]; exact hnorm
          · exact absurd h (by simp)
          · exact absurd h (by simp)

end SqiProofs.C17

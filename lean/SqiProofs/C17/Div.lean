/- C17 lemmas: division conventions, rounded division (core Lean + omega) -/
import SqiModel.Intbig
namespace SqiProofs.C17
open SqiModel.Intbig

theorem tmod_natAbs_lt (a b : Int) (hb : b ≠ 0) : (a.tmod b).natAbs < b.natAbs := by
  rw [Int.natAbs_tmod]; exact Nat.mod_lt _ (Int.natAbs_pos.mpr hb)

theorem tmod_nonpos (a b : Int) (ha : a ≤ 0) : a.tmod b ≤ 0 := by
  have h := Int.tmod_nonneg b (Int.neg_nonneg_of_nonpos ha)
  rw [Int.neg_tmod] at h; omega

theorem fmod_range_pos (a b : Int) (hb : 0 < b) : 0 ≤ a.fmod b ∧ a.fmod b < b :=
  ⟨Int.fmod_nonneg_of_pos a hb, Int.fmod_lt_of_pos a hb⟩

theorem fmod_range_neg (a b : Int) (hb : b < 0) : b < a.fmod b ∧ a.fmod b ≤ 0 := by
  rw [Int.fmod_eq_emod]
  have h1 := Int.emod_nonneg a (Int.ne_of_lt hb)
  have h2 := Int.emod_lt_of_neg a hb
  by_cases hd : b ∣ a
  · have : a % b = 0 := Int.emod_eq_zero_of_dvd hd
    simp [hd]; omega
  · have : a % b ≠ 0 := fun h => hd (Int.dvd_of_emod_eq_zero h)
    have hnb : ¬ (0 ≤ b) := by omega
    simp [hd, hnb]; omega

end SqiProofs.C17

namespace SqiProofs.C17
open SqiModel.Intbig

/-- `ibz_rounded_div`: the result is a nearest integer to a/b -/
theorem roundedDiv_near (a b : Int) (hb : b ≠ 0) :
    2 * (a - ibzRoundedDiv a b * b).natAbs ≤ b.natAbs := by
  have hdm := Int.tdiv_mul_add_tmod a b
  have hlt := tmod_natAbs_lt a b hb
  have hr1 : 0 ≤ a → 0 ≤ a.tmod b := Int.tmod_nonneg b
  have hr2 : a ≤ 0 → a.tmod b ≤ 0 := tmod_nonpos a b
  simp only [ibzRoundedDiv]
  generalize a.tdiv b = q at *
  generalize a.tmod b = r at *
  subst hdm
  split
  · rename_i hgt
    split
    · rename_i hneg
      -- (q*b + r) * b < 0
      have e : q * b + r - (q + -1) * b = r + b := by
        rw [Int.add_mul]; omega
      rw [e]
      rcases Int.lt_trichotomy b 0 with hb' | hb' | hb'
      · have : 0 < q * b + r := by
          rcases Int.lt_trichotomy (q * b + r) 0 with h | h | h
          · have := Int.mul_pos_of_neg_of_neg h hb'; omega
          · rw [h] at hneg; simp at hneg
          · exact h
        have := hr1 (by omega); omega
      · exact absurd hb' hb
      · have : q * b + r < 0 := by
          rcases Int.lt_trichotomy (q * b + r) 0 with h | h | h
          · exact h
          · rw [h] at hneg; simp at hneg
          · have := Int.mul_pos h hb'; omega
        have := hr2 (by omega); omega
    · rename_i hnn
      have e : q * b + r - (q + 1) * b = r - b := by
        rw [Int.add_mul]; omega
      rw [e]
      rcases Int.lt_trichotomy b 0 with hb' | hb' | hb'
      · have : q * b + r ≤ 0 := by
          rcases Int.lt_trichotomy (q * b + r) 0 with h | h | h
          · omega
          · omega
          · have := Int.mul_neg_of_pos_of_neg h hb'; omega
        have := hr2 this; omega
      · exact absurd hb' hb
      · have : 0 ≤ q * b + r := by
          rcases Int.lt_trichotomy (q * b + r) 0 with h | h | h
          · have := Int.mul_neg_of_neg_of_pos h hb'; omega
          · omega
          · omega
        have := hr1 this; omega
  · rename_i hle
    have e : q * b + r - q * b = r := by omega
    rw [e]; omega

end SqiProofs.C17

/- C17 lemmas: extended gcd (the model of mpz_gcdext), annihilators, modular inverse, CRT -/
import Mathlib.Tactic.Ring
import Mathlib.Tactic.LinearCombination
import Mathlib.Data.Int.GCD
import SqiModel.Intbig
namespace SqiProofs.C17
open SqiModel.Intbig

theorem egcdAux_spec (A B : Int) : ∀ (fuel r0 r1 : Nat) (s0 s1 t0 t1 : Int), r1 < fuel →
    (r0 : Int) = s0 * A + t0 * B → (r1 : Int) = s1 * A + t1 * B →
    ((egcdAux fuel r0 r1 s0 s1 t0 t1).1 : Int)
        = (egcdAux fuel r0 r1 s0 s1 t0 t1).2.1 * A + (egcdAux fuel r0 r1 s0 s1 t0 t1).2.2 * B ∧
    (egcdAux fuel r0 r1 s0 s1 t0 t1).1 = Nat.gcd r0 r1 := by
  intro fuel
  induction fuel with
  | zero => intro r0 r1 s0 s1 t0 t1 h; omega
  | succ n ih =>
    intro r0 r1 s0 s1 t0 t1 hlt h0 h1
    unfold egcdAux
    by_cases hz : r1 = 0
    · subst hz; simp [h0]
    · simp only [hz, if_false]
      have hmod : r0 % r1 < n := by
        have := Nat.mod_lt r0 (Nat.pos_of_ne_zero hz); omega
      have hrec := ih r1 (r0 % r1) s1 (s0 - (r0 / r1 : Nat) * s1) t1 (t0 - (r0 / r1 : Nat) * t1) hmod h1 (by
        have h' : ((r0 % r1 : Nat) : Int) = (r0 : Int) - (r1 : Int) * ((r0 / r1 : Nat) : Int) := by
          rw [Int.natCast_mod, Int.natCast_div, Int.emod_def]
        rw [h', h0, h1]; ring)
      refine ⟨hrec.1, ?_⟩
      rw [hrec.2, Nat.gcd_comm r0 r1, Nat.gcd_rec r1 r0, Nat.gcd_comm]

theorem sign_mul_self' (a : Int) : a.sign * a = (a.natAbs : Int) := by
  rcases Int.natAbs_eq a with h | h
  · rcases Nat.eq_zero_or_pos a.natAbs with h0 | h0
    · have : a = 0 := Int.natAbs_eq_zero.mp h0; subst this; simp
    · have hp : 0 < a := by omega
      rw [Int.sign_eq_one_of_pos hp]; omega
  · rcases Nat.eq_zero_or_pos a.natAbs with h0 | h0
    · have : a = 0 := Int.natAbs_eq_zero.mp h0; subst this; simp
    · have hp : a < 0 := by omega
      rw [Int.sign_eq_neg_one_of_neg hp]; omega

/-- the model of `mpz_gcdext`: g = gcd(a,b) ≥ 0 and u·a + v·b = g -/
theorem gcdext_spec (a b : Int) :
    (gcdext a b).1 = (Int.gcd a b : Int) ∧ (gcdext a b).2.1 * a + (gcdext a b).2.2 * b = (gcdext a b).1 := by
  have h := egcdAux_spec (a.natAbs : Int) (b.natAbs : Int) (b.natAbs + 1) a.natAbs b.natAbs 1 0 0 1
    (by omega) (by ring) (by ring)
  simp only [gcdext]
  generalize egcdAux (b.natAbs + 1) a.natAbs b.natAbs 1 0 0 1 = res at h
  obtain ⟨g, s, t⟩ := res
  simp only at h ⊢
  refine ⟨by rw [h.2]; rfl, ?_⟩
  rw [h.1]
  have ha := sign_mul_self' a
  have hb := sign_mul_self' b
  linear_combination s * ha + t * hb

theorem gcdext_fst_nonneg (a b : Int) : 0 ≤ (gcdext a b).1 := by
  rw [(gcdext_spec a b).1]; exact Int.natCast_nonneg _

/-- `ibz_xgcd_ann` for (a,b) ≠ (0,0): Bézout relation and the annihilator relation -/
theorem xgcdAnn_spec (a b : Int) (h : a ≠ 0 ∨ b ≠ 0) :
    let r := ibzXgcdAnn a b
    r.1 = (Int.gcd a b : Int) ∧ r.2.2.2.1 * a + r.2.2.2.2 * b = r.1 ∧
    r.2.1 * a + r.2.2.1 * b = 0 ∧ r.2.1 * r.1 = b ∧ r.2.2.1 * r.1 = -a := by
  have hs := gcdext_spec a b
  simp only [ibzXgcdAnn, ibzXgcd, ibzDiv]
  generalize gcdext a b = res at hs
  obtain ⟨g, u, v⟩ := res
  simp only at hs ⊢
  have hg0 : g ≠ 0 := by
    rw [hs.1]; intro h0
    have : Int.gcd a b = 0 := by exact_mod_cast h0
    rw [Int.gcd_eq_zero_iff] at this; omega
  have hdb : g ∣ b := by rw [hs.1]; exact Int.gcd_dvd_right a b
  have hda : g ∣ -a := by rw [hs.1]; exact (Int.dvd_neg).mpr (Int.gcd_dvd_left a b)
  have e1 : b.tdiv g * g = b := Int.tdiv_mul_cancel hdb
  have e2 : (-a).tdiv g * g = -a := Int.tdiv_mul_cancel hda
  refine ⟨hs.1, hs.2, ?_, e1, e2⟩
  have : g * (b.tdiv g * a + (-a).tdiv g * b) = 0 := by
    linear_combination a * e1 + b * e2
  rcases Int.mul_eq_zero.mp this with h0 | h0
  · exact absurd h0 hg0
  · exact h0

theorem invmod_ok (a m r : Int) (hm : m ≠ 0) (h : ibzInvmod a m = .ok r) :
    0 ≤ r ∧ r < (m.natAbs : Int) ∧ (a * r) % m = 1 % m ∧ Int.gcd a m = 1 := by
  have hs := gcdext_spec a m
  simp only [ibzInvmod] at h
  generalize gcdext a m = res at hs h
  obtain ⟨g, s, t⟩ := res
  simp only at hs h
  split at h
  · rename_i hg
    injection h with h; subst h
    refine ⟨Int.emod_nonneg _ hm, Int.emod_lt _ hm, ?_, ?_⟩
    · rw [Int.mul_emod, Int.emod_emod, ← Int.mul_emod]
      have : a * s = 1 + m * (-t) := by rw [hg] at hs; linear_combination hs.2
      rw [this, Int.add_mul_emod_self_left]
    · have := hs.1; rw [hg] at this; exact_mod_cast this.symm
  · exact absurd h (by simp)

theorem invmod_fail_iff (a m : Int) : ibzInvmod a m = .fail ↔ Int.gcd a m ≠ 1 := by
  have hs := gcdext_spec a m
  simp only [ibzInvmod]
  generalize gcdext a m = res at hs
  obtain ⟨g, s, t⟩ := res
  simp only at hs ⊢
  constructor
  · intro h
    split at h
    · exact absurd h (by simp)
    · rename_i hg; intro h1; apply hg; rw [hs.1, h1]; rfl
  · intro h
    split
    · rename_i hg; exfalso; apply h; rw [hs.1] at hg; exact_mod_cast hg
    · rfl

theorem invmod_ne_ub (a m : Int) : ibzInvmod a m ≠ .ub := by
  simp only [ibzInvmod]
  generalize gcdext a m = res
  obtain ⟨g, s, t⟩ := res
  simp only; split <;> simp

/-- `ibz_crt` for coprime non-zero moduli -/
theorem crt_spec' (a b ma mb : Int) (hcop : Int.gcd ma mb = 1) (hma : ma ≠ 0) (hmb : mb ≠ 0) :
    ibzCrt a b ma mb % ma = a % ma ∧ ibzCrt a b ma mb % mb = b % mb ∧
    0 ≤ ibzCrt a b ma mb ∧ ibzCrt a b ma mb < ((ma * mb).natAbs : Int) := by
  have hs := gcdext_spec ma mb
  simp only [ibzCrt]
  generalize gcdext ma mb = res at hs
  obtain ⟨g, u, v⟩ := res
  simp only at hs ⊢
  have hg : g = 1 := by rw [hs.1, hcop]; rfl
  have hbez : u * ma + v * mb = 1 := by rw [← hg]; exact hs.2
  have hmm : ma * mb ≠ 0 := Int.mul_ne_zero hma hmb
  refine ⟨?_, ?_, Int.emod_nonneg _ hmm, Int.emod_lt _ hmm⟩
  · rw [Int.emod_emod_of_dvd _ (Dvd.intro _ rfl)]
    have : a * v * mb + b * u * ma = a + ma * (u * (b - a)) := by linear_combination a * hbez
    rw [this, Int.add_mul_emod_self_left]
  · rw [Int.emod_emod_of_dvd _ (Dvd.intro_left _ rfl)]
    have : a * v * mb + b * u * ma = b + mb * (v * (a - b)) := by linear_combination b * hbez
    rw [this, Int.add_mul_emod_self_left]

end SqiProofs.C17

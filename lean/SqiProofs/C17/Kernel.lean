/- C17 lemmas: the Gaussian elimination of ibz_4x4/4x5_right_ker_mod_prime (Cohen 2.3.1 as coded) returns a
   genuine non-zero kernel vector.  Generic in the numbers of rows and columns. -/
import Mathlib.Tactic.Ring
import Mathlib.Tactic.LinearCombination
import Mathlib.Data.ZMod.Basic
import Mathlib.Algebra.BigOperators.Ring.Finset
import SqiModel.Kernels
import SqiProofs.C17.Gcd
import SqiProofs.C17.Pow
namespace SqiProofs.C17
open SqiModel.Intbig SqiModel.Kernels

theorem get_tabulate (rows cols : Nat) (f : Nat → Nat → Int) (i s : Nat) (hi : i < rows) (hs : s < cols) :
    SqiModel.Kernels.get (tabulate rows cols f) i s = f i s := by
  simp [SqiModel.Kernels.get, tabulate, List.getD_eq_getElem?_getD, List.getElem?_range, hi, hs]

section
variable (pn : Nat) [hpF : Fact pn.Prime]
local notation "F" => ZMod pn

/-- row i of W applied to v, in the field -/
def dot (cols : Nat) (W : Mat) (i : Nat) (v : Nat → F) : F :=
  ∑ s ∈ Finset.range cols, ((get W i s : Int) : F) * v s

structure KInv (rows cols : Nat) (M : Mat) (k : Nat) (st : KState) : Prop where
  ker : ∀ v : Nat → F, (∀ i < rows, dot pn cols st.W i v = 0) → ∀ i < rows, dot pn cols M i v = 0
  piv : ∀ s < k, ∀ j, st.d s = j + 1 → j < rows ∧ st.c j = s + 1 ∧ ((get st.W j s : Int) : F) = -1 ∧
          ∀ i < rows, i ≠ j → ((get st.W i s : Int) : F) = 0
  zero : ∀ i < rows, st.c i = 0 → ∀ s < k, ((get st.W i s : Int) : F) = 0
  cd : ∀ j < rows, st.c j ≠ 0 → ∃ s < k, st.c j = s + 1 ∧ st.d s = j + 1

theorem findPivot_some (rows : Nat) (W : Mat) (c : Nat → Nat) (k j : Nat) (h : findPivot rows W c k = some j) :
    j < rows ∧ get W j k ≠ 0 ∧ c j = 0 := by
  unfold findPivot at h
  have h1 := List.find?_some h
  have h2 := List.mem_of_find?_eq_some h
  simp only [Bool.and_eq_true, bne_iff_ne, ne_eq, beq_iff_eq] at h1
  exact ⟨List.mem_range.mp h2, h1.1, h1.2⟩

theorem findPivot_none (rows : Nat) (W : Mat) (c : Nat → Nat) (k : Nat) (h : findPivot rows W c k = none) :
    ∀ j < rows, c j = 0 → get W j k = 0 := by
  unfold findPivot at h
  rw [List.find?_eq_none] at h
  intro j hj hc
  have := h j (List.mem_range.mpr hj)
  simp only [Bool.and_eq_true, bne_iff_ne, ne_eq, beq_iff_eq, not_and] at this
  by_contra hne
  exact this hne hc

theorem kerStep_bad_mono (p : Int) (rows cols : Nat) (st : KState) (k : Nat)
    (h : (kerStep p rows cols st k).bad = false) : st.bad = false := by
  unfold kerStep at h
  split at h
  · exact h
  · rename_i j _
    simp only at h
    cases hiv : ibzInvmod (SqiModel.Kernels.get st.W j k) p <;> rw [hiv] at h <;> simp at h
    exact h

theorem kerStep_inv (rows cols : Nat) (M : Mat) (k : Nat) (hk : k < cols) (st : KState)
    (hinv : KInv pn rows cols M k st) (hbad : (kerStep pn rows cols st k).bad = false) :
    KInv pn rows cols M (k + 1) (kerStep pn rows cols st k) := by
  unfold kerStep at hbad ⊢
  split
  · -- no pivot in column k
    rename_i hnone
    have hz := findPivot_none rows st.W st.c k hnone
    refine ⟨hinv.ker, ?_, ?_, ?_⟩
    · intro s hs j hd
      simp only [upd] at hd
      split at hd
      · omega
      · exact hinv.piv s (by omega) j hd
    · intro i hi hc s hs
      by_cases hsk : s = k
      · subst hsk; simp only at hc ⊢; rw [hz i hi hc]; simp
      · exact hinv.zero i hi hc s (by omega)
    · intro j hj hc
      obtain ⟨s, hs, h1, h2⟩ := hinv.cd j hj hc
      refine ⟨s, by omega, h1, ?_⟩
      simp only [upd]; rw [if_neg (by omega)]; exact h2
  · rename_i j hsome
    obtain ⟨hj, hwjk, hcj⟩ := findPivot_some rows st.W st.c k j hsome
    rw [hsome] at hbad
    simp only at hbad ⊢
    -- the pivot is invertible
    cases hiv : ibzInvmod (get st.W j k) (pn : Int) with
    | fail => rw [hiv] at hbad; simp at hbad
    | ub => rw [hiv] at hbad; simp at hbad
    | ok inv =>
      simp only
      have hp0 : (pn : Int) ≠ 0 := by exact_mod_cast hpF.out.ne_zero
      have hinvF : ((get st.W j k : Int) : F) * ((inv : Int) : F) = 1 := by
        have := (invmod_ok _ _ _ hp0 hiv).2.2.1
        have h2 : (((get st.W j k * inv : Int)) : F) = ((1 : Int) : F) := by
          rw [ZMod.intCast_eq_intCast_iff']; exact this
        push_cast at h2; exact h2
      -- field-level description of the new matrix
      set u : F := -((inv : Int) : F) with hu
      have hprod : ((((-inv) % (pn : Int) : Int)) : F) = u := by rw [emod_cast]; push_cast; rfl
      have hwu : ((get st.W j k : Int) : F) * u = -1 := by rw [hu]; linear_combination -hinvF
      set W' := tabulate rows cols fun i s =>
        if i = j then (if s = k then (-1) % (pn : Int) else if k < s then (get st.W j s * ((-inv) % (pn : Int))) % (pn : Int) else get st.W j s)
        else if s = k then 0
        else if k < s then (get st.W i s + (if s = k then (-1) % (pn : Int) else if k < s then (get st.W j s * ((-inv) % (pn : Int))) % (pn : Int) else get st.W j s) * get st.W i k) % (pn : Int)
        else get st.W i s with hW'
      have hzj : ∀ s < k, ((get st.W j s : Int) : F) = 0 := hinv.zero j hj hcj
      have hrowj : ∀ s < cols, ((get W' j s : Int) : F) = u * ((get st.W j s : Int) : F) := by
        intro s hs
        rw [hW', get_tabulate _ _ _ _ _ hj hs]
        simp only [if_true]
        by_cases hsk : s = k
        · subst hsk; simp only [if_true]; rw [emod_cast]; push_cast; rw [mul_comm, hwu]
        · simp only [hsk, if_false]
          by_cases hks : k < s
          · simp only [hks, if_true]; push_cast [emod_cast]; rw [hu]; ring
          · simp only [hks, if_false]; rw [hzj s (by omega)]; ring
      have hrowi : ∀ i < rows, i ≠ j → ∀ s < cols,
          ((get W' i s : Int) : F) = ((get st.W i s : Int) : F) + ((get st.W i k : Int) : F) * ((get W' j s : Int) : F) := by
        intro i hi hij s hs
        rw [hrowj s hs, hW', get_tabulate _ _ _ _ _ hi hs]
        simp only [hij, if_false]
        by_cases hsk : s = k
        · subst hsk; simp only [if_true]; push_cast
          linear_combination -((get st.W i s : Int) : F) * hwu
        · simp only [hsk, if_false]
          by_cases hks : k < s
          · simp only [hks, if_true]; push_cast [emod_cast]; rw [hu]; ring
          · simp only [hks, if_false]; rw [hzj s (by omega)]; ring
      have hW'jk : ((get W' j k : Int) : F) = -1 := by rw [hrowj k hk, mul_comm]; exact hwu
      refine ⟨?_, ?_, ?_, ?_⟩
      · -- kernel inclusion
        intro v hv
        apply hinv.ker
        have hdj : dot pn cols W' j v = u * dot pn cols st.W j v := by
          unfold dot; rw [Finset.mul_sum]
          apply Finset.sum_congr rfl
          intro s hs; rw [hrowj s (Finset.mem_range.mp hs)]; ring
        have hj0 : dot pn cols st.W j v = 0 := by
          have h0 := hv j hj
          rw [hdj] at h0
          have : dot pn cols st.W j v = -(((get st.W j k : Int) : F) * (u * dot pn cols st.W j v)) := by
            linear_combination (dot pn cols st.W j v) * hwu
          rw [this, h0]; ring
        intro i hi
        by_cases hij : i = j
        · subst hij; exact hj0
        · have hdi : dot pn cols W' i v = dot pn cols st.W i v + ((get st.W i k : Int) : F) * dot pn cols W' j v := by
            unfold dot; rw [Finset.mul_sum, ← Finset.sum_add_distrib]
            apply Finset.sum_congr rfl
            intro s hs; rw [hrowi i hi hij s (Finset.mem_range.mp hs)]; ring
          have := hv i hi
          rw [hdi, hv j hj] at this
          linear_combination this
      · -- pivot columns
        intro s hs j' hd
        simp only [upd] at hd ⊢
        by_cases hsk : s = k
        · subst hsk
          simp only [if_true] at hd
          have : j' = j := by omega
          subst this
          refine ⟨hj, by simp, hW'jk, ?_⟩
          intro i hi hij
          rw [hrowi i hi hij s hk, hW'jk]; ring
        · rw [if_neg hsk] at hd
          obtain ⟨hj'r, hcj', hw1, hw0⟩ := hinv.piv s (by omega) j' hd
          have hjj : j' ≠ j := by intro h; subst h; omega
          have hsc : s < cols := by omega
          have hWjs : ((get W' j s : Int) : F) = 0 := by rw [hrowj s hsc, hzj s (by omega)]; ring
          refine ⟨hj'r, by rw [if_neg hjj]; exact hcj', ?_, ?_⟩
          · rw [hrowi j' hj'r hjj s hsc, hWjs, hw1]; ring
          · intro i hi hij
            by_cases hi2 : i = j
            · subst hi2; exact hWjs
            · rw [hrowi i hi hi2 s hsc, hWjs, hw0 i hi hij]; ring
      · -- rows without pivot
        intro i hi hc s hs
        simp only [upd] at hc
        have hij : i ≠ j := by intro h; subst h; simp at hc
        rw [if_neg hij] at hc
        by_cases hsk : s = k
        · subst hsk; rw [hrowi i hi hij s hk, hW'jk]; ring
        · have hsc : s < cols := by omega
          rw [hrowi i hi hij s hsc, hrowj s hsc, hzj s (by omega), hinv.zero i hi hc s (by omega)]; ring
      · -- c/d bookkeeping
        intro j' hj' hc
        simp only [upd] at hc ⊢
        by_cases hjj : j' = j
        · subst hjj; exact ⟨k, by omega, by simp, by simp⟩
        · rw [if_neg hjj] at hc
          obtain ⟨s, hs, h1, h2⟩ := hinv.cd j' hj' hc
          exact ⟨s, by omega, by rw [if_neg hjj]; exact h1, by rw [if_neg (by omega)]; exact h2⟩

theorem kerInit_inv (rows cols : Nat) (M : Mat) : KInv pn rows cols M 0 (kerInit pn rows cols M) := by
  refine ⟨?_, ?_, ?_, ?_⟩
  · intro v hv i hi
    have := hv i hi
    unfold dot at this ⊢
    rw [← this]
    apply Finset.sum_congr rfl
    intro s hs
    simp only [kerInit]
    rw [get_tabulate _ _ _ _ _ hi (Finset.mem_range.mp hs), emod_cast]
  · intro s hs; omega
  · intro i _ _ s hs; omega
  · intro j _ hc; simp [kerInit] at hc

theorem kerPrefix_inv (rows cols : Nat) (M : Mat) : ∀ k, k ≤ cols →
    ((List.range k).foldl (kerStep pn rows cols) (kerInit pn rows cols M)).bad = false →
    KInv pn rows cols M k ((List.range k).foldl (kerStep pn rows cols) (kerInit pn rows cols M)) := by
  intro k
  induction k with
  | zero => intro _ _; exact kerInit_inv pn rows cols M
  | succ k ih =>
    intro hk hbad
    rw [List.range_succ, List.foldl_append] at hbad ⊢
    simp only [List.foldl_cons, List.foldl_nil] at hbad ⊢
    exact kerStep_inv pn rows cols M k (by omega) _ (ih (by omega) (kerStep_bad_mono _ _ _ _ _ hbad)) hbad

/-- the vector returned by the model of `ibz_4x{4,5}_right_ker_mod_prime` is a non-zero element of the right kernel -/
theorem rightKerModPrime_sound (rows cols : Nat) (mat : Mat) (ker : List Int)
    (h : rightKerModPrime rows cols mat pn = .ok ker) :
    ker.length = cols ∧ (∃ s < cols, ((ker.getD s 0 : Int) : F) ≠ 0) ∧
    ∀ i < rows, ∑ s ∈ Finset.range cols, ((SqiModel.Kernels.get mat i s : Int) : F) * ((ker.getD s 0 : Int) : F) = 0 := by
  unfold rightKerModPrime at h
  simp only at h
  split at h
  · exact absurd h (by simp)
  · rename_i hbad
    split at h
    · split at h
      · rename_i k0 hk0
        injection h with h
        have hmem := List.mem_of_getLast? hk0
        rw [List.mem_filter] at hmem
        have hk0c : k0 < cols := List.mem_range.mp hmem.1
        have hd0 : (kerRun pn rows cols mat).d k0 = 0 := by simpa using hmem.2
        have hinv := kerPrefix_inv pn rows cols mat cols (le_refl _) (by simpa [kerRun] using hbad)
        rw [show (List.range cols).foldl (kerStep pn rows cols) (kerInit pn rows cols mat) = kerRun pn rows cols mat from rfl] at hinv
        generalize kerRun pn rows cols mat = st at hinv hd0 h
        have hget : ∀ s < cols, ((ker.getD s 0 : Int) : F) =
            if st.d s > 0 then ((SqiModel.Kernels.get st.W (st.d s - 1) k0 : Int) : F) else if s = k0 then 1 else 0 := by
          intro s hs
          rw [← h]
          simp only [kerVec, List.getD_eq_getElem?_getD, List.getElem?_map, List.getElem?_range hs, Option.map_some,
            Option.getD_some]
          split
          · rw [emod_cast]
          · split <;> simp
        refine ⟨by rw [← h]; simp [kerVec], ⟨k0, hk0c, ?_⟩, ?_⟩
        · rw [hget k0 hk0c, if_neg (by omega), if_pos rfl]; exact one_ne_zero
        · apply hinv.ker
          intro i hi
          unfold dot
          by_cases hci : st.c i = 0
          · apply Finset.sum_eq_zero
            intro s hs
            rw [hinv.zero i hi hci s (Finset.mem_range.mp hs)]; ring
          · obtain ⟨s0, hs0, hc0, hds0⟩ := hinv.cd i hi hci
            have hne : s0 ≠ k0 := by intro h'; subst h'; omega
            rw [Finset.sum_eq_add s0 k0 hne]
            · simp only []
              rw [hget s0 hs0, hget k0 hk0c, if_pos (by omega), if_neg (by omega), if_pos rfl]
              have : st.d s0 - 1 = i := by omega
              rw [this, (hinv.piv s0 hs0 i hds0).2.2.1]; ring
            · intro s hs hss
              have hsc := Finset.mem_range.mp hs
              simp only []
              rw [hget s hsc]
              by_cases hds : st.d s > 0
              · rw [if_pos hds]
                have hdj : st.d s = (st.d s - 1) + 1 := by omega
                obtain ⟨_, hcj, _, hoth⟩ := hinv.piv s hsc (st.d s - 1) hdj
                have hij : i ≠ st.d s - 1 := by
                  intro h'; rw [← h'] at hcj; omega
                rw [hoth i hi hij]; ring
              · rw [if_neg hds, if_neg hss.2]; ring
            · intro h'; exact absurd (Finset.mem_range.mpr hs0) h'
            · intro h'; exact absurd (Finset.mem_range.mpr hk0c) h'
      · exact absurd h (by simp)
    · exact absurd h (by simp)

end

/-- `ibz_2x2_inv_mod` for a positive modulus: the returned matrix is the inverse modulo m, entries reduced -/
theorem inv2x2Mod_sound (mn : Nat) (hm : mn ≠ 0) (a b c d : Int) (inv : Mat)
    (h : inv2x2Mod [[a, b], [c, d]] mn = .ok inv) :
    ∃ w x y z : Int, inv = [[w, x], [y, z]] ∧
      (0 ≤ w ∧ w < mn) ∧ (0 ≤ x ∧ x < mn) ∧ (0 ≤ y ∧ y < mn) ∧ (0 ≤ z ∧ z < mn) ∧
      ((a * w + b * y : Int) : ZMod mn) = 1 ∧ ((a * x + b * z : Int) : ZMod mn) = 0 ∧
      ((c * w + d * y : Int) : ZMod mn) = 0 ∧ ((c * x + d * z : Int) : ZMod mn) = 1 := by
  have hmI : (mn : Int) ≠ 0 := by exact_mod_cast hm
  have hpos : (0 : Int) < mn := by omega
  unfold inv2x2Mod at h
  simp only [SqiModel.Kernels.get, List.getD_cons_zero, List.getD_cons_succ] at h
  split at h
  · rename_i di hdi
    injection h with h
    have hinv := (invmod_ok _ _ _ hmI hdi).2.2.1
    have hF : (((a * d % (mn : Int) - b * c) % (mn : Int) * di : Int) : ZMod mn) = ((1 : Int) : ZMod mn) := by
      rw [ZMod.intCast_eq_intCast_iff']; exact hinv
    have hF' : ((a : ZMod mn) * d - b * c) * (di : ZMod mn) = 1 := by
      have := hF; push_cast [emod_cast] at this; exact this
    refine ⟨_, _, _, _, h.symm, ⟨Int.emod_nonneg _ hmI, Int.emod_lt_of_pos _ hpos⟩, ⟨Int.emod_nonneg _ hmI, Int.emod_lt_of_pos _ hpos⟩,
      ⟨Int.emod_nonneg _ hmI, Int.emod_lt_of_pos _ hpos⟩, ⟨Int.emod_nonneg _ hmI, Int.emod_lt_of_pos _ hpos⟩, ?_, ?_, ?_, ?_⟩
    · push_cast [emod_cast]; linear_combination hF'
    · push_cast [emod_cast]; ring
    · push_cast [emod_cast]; ring
    · push_cast [emod_cast]; linear_combination hF'
  · exact absurd h (by simp)
  · exact absurd h (by simp)

end SqiProofs.C17

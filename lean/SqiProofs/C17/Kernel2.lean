/- C17 lemmas: completeness of the kernel-mod-p elimination (dimension-1 kernel ⇒ a vector is returned) and
   absence of the `ub` outcome (entries stay reduced, so every pivot is invertible modulo the prime). -/
import Mathlib.Algebra.Field.ZMod
import SqiProofs.C17.Kernel
namespace SqiProofs.C17
open SqiModel.Intbig SqiModel.Kernels

section
variable (pn : Nat) [hpF : Fact pn.Prime]
local notation "F" => ZMod pn

/-- second invariant: entries reduced, no failed inversion so far, reverse kernel inclusion, free-column count -/
structure KInv2 (rows cols : Nat) (M : Mat) (k : Nat) (st : KState) : Prop where
  red : ∀ i < rows, ∀ s < cols, 0 ≤ SqiModel.Kernels.get st.W i s ∧ SqiModel.Kernels.get st.W i s < pn
  nobad : st.bad = false
  rker : ∀ v : Nat → F, (∀ i < rows, dot pn cols M i v = 0) → ∀ i < rows, dot pn cols st.W i v = 0
  cnt : st.kdim = ((List.range k).filter fun s => st.d s == 0).length
  dfut : ∀ s, k ≤ s → st.d s = 0

theorem pivot_invertible (x : Int) (hx : 0 ≤ x ∧ x < pn) (hne : x ≠ 0) : ∃ inv, ibzInvmod x pn = .ok inv := by
  cases h : ibzInvmod x (pn : Int) with
  | ok inv => exact ⟨inv, rfl⟩
  | ub => exact absurd h (invmod_ne_ub _ _)
  | fail =>
    exfalso
    have hg := (invmod_fail_iff x pn).mp h
    apply hg
    have hcop : Nat.Coprime x.natAbs pn := by
      rw [Nat.coprime_comm]
      apply (Nat.Prime.coprime_iff_not_dvd hpF.out).mpr
      intro hd
      have := Nat.le_of_dvd (by omega) hd
      omega
    simpa [Int.gcd] using hcop

theorem kerStep_inv2 (rows cols : Nat) (M : Mat) (k : Nat) (hk : k < cols) (st : KState)
    (hinv : KInv pn rows cols M k st) (h2 : KInv2 pn rows cols M k st) :
    KInv2 pn rows cols M (k + 1) (kerStep pn rows cols st k) := by
  have hp0 : (pn : Int) ≠ 0 := by exact_mod_cast hpF.out.ne_zero
  have hppos : (0 : Int) < pn := by have := hpF.out.pos; omega
  unfold kerStep
  split
  · -- no pivot
    refine ⟨h2.red, h2.nobad, h2.rker, ?_, ?_⟩
    · simp only
      rw [List.range_succ, List.filter_append, List.length_append, h2.cnt]
      have e1 : (List.filter (fun s => upd st.d k 0 s == 0) (List.range k)) =
          (List.filter (fun s => st.d s == 0) (List.range k)) := by
        apply List.filter_congr
        intro s hs
        have : s ≠ k := by have := List.mem_range.mp hs; omega
        simp [upd, this]
      rw [e1]; simp [upd]
    · intro s hs; simp only [upd]; split
      · rfl
      · exact h2.dfut s (by omega)
  · rename_i j hsome
    obtain ⟨hj, hwjk, hcj⟩ := findPivot_some rows st.W st.c k j hsome
    obtain ⟨inv, hiv⟩ := pivot_invertible pn _ (h2.red j hj k hk) hwjk
    simp only [hiv]
    have hinvF : ((SqiModel.Kernels.get st.W j k : Int) : F) * ((inv : Int) : F) = 1 := by
      have := (invmod_ok _ _ _ hp0 hiv).2.2.1
      have h2' : (((SqiModel.Kernels.get st.W j k * inv : Int)) : F) = ((1 : Int) : F) := by
        rw [ZMod.intCast_eq_intCast_iff']; exact this
      push_cast at h2'; exact h2'
    set u : F := -((inv : Int) : F) with hu
    have hwu : ((SqiModel.Kernels.get st.W j k : Int) : F) * u = -1 := by rw [hu]; linear_combination -hinvF
    set W' := tabulate rows cols fun i s =>
      if i = j then (if s = k then (-1) % (pn : Int) else if k < s then (SqiModel.Kernels.get st.W j s * ((-inv) % (pn : Int))) % (pn : Int) else SqiModel.Kernels.get st.W j s)
      else if s = k then 0
      else if k < s then (SqiModel.Kernels.get st.W i s + (if s = k then (-1) % (pn : Int) else if k < s then (SqiModel.Kernels.get st.W j s * ((-inv) % (pn : Int))) % (pn : Int) else SqiModel.Kernels.get st.W j s) * SqiModel.Kernels.get st.W i k) % (pn : Int)
      else SqiModel.Kernels.get st.W i s with hW'
    have hzj : ∀ s < k, ((SqiModel.Kernels.get st.W j s : Int) : F) = 0 := hinv.zero j hj hcj
    have hrowj : ∀ s < cols, ((SqiModel.Kernels.get W' j s : Int) : F) = u * ((SqiModel.Kernels.get st.W j s : Int) : F) := by
      intro s hs
      rw [hW', get_tabulate _ _ _ _ _ hj hs]
      simp only [if_true]
      by_cases hsk : s = k
      · subst hsk; simp only [if_true]; rw [emod_cast]; push_cast; rw [mul_comm, hwu]
      · simp only [hsk, if_false]
        by_cases hks : k < s
        · simp only [hks, if_true]; push_cast [emod_cast]; rw [hu]; ring
        · simp only [hks, if_false]; rw [hzj s (by omega)]; ring
    have hrowi : ∀ i < rows, i ≠ j → ∀ s < cols,
        ((SqiModel.Kernels.get W' i s : Int) : F) = ((SqiModel.Kernels.get st.W i s : Int) : F) + ((SqiModel.Kernels.get st.W i k : Int) : F) * ((SqiModel.Kernels.get W' j s : Int) : F) := by
      intro i hi hij s hs
      rw [hrowj s hs, hW', get_tabulate _ _ _ _ _ hi hs]
      simp only [hij, if_false]
      by_cases hsk : s = k
      · subst hsk; simp only [if_true]; push_cast
        linear_combination -((SqiModel.Kernels.get st.W i s : Int) : F) * hwu
      · simp only [hsk, if_false]
        by_cases hks : k < s
        · simp only [hks, if_true]; push_cast [emod_cast]; rw [hu]; ring
        · simp only [hks, if_false]; rw [hzj s (by omega)]; ring
    refine ⟨?_, h2.nobad, ?_, ?_, ?_⟩
    · -- entries stay reduced
      intro i hi s hs
      simp only
      rw [hW', get_tabulate _ _ _ _ _ hi hs]
      have hr := fun x : Int => (⟨Int.emod_nonneg x hp0, Int.emod_lt_of_pos x hppos⟩ : 0 ≤ x % (pn : Int) ∧ x % (pn : Int) < pn)
      split
      · split
        · exact hr _
        · split
          · exact hr _
          · exact h2.red j hj s hs
      · split
        · exact ⟨le_refl _, hppos⟩
        · split
          · exact hr _
          · exact h2.red i hi s hs
    · -- reverse kernel inclusion
      intro v hv i hi
      have hW := h2.rker v hv
      have hdj : dot pn cols W' j v = u * dot pn cols st.W j v := by
        unfold dot; rw [Finset.mul_sum]
        apply Finset.sum_congr rfl
        intro s hs; rw [hrowj s (Finset.mem_range.mp hs)]; ring
      by_cases hij : i = j
      · subst hij; show dot pn cols W' i v = 0; rw [hdj, hW i hi]; ring
      · have hdi : dot pn cols W' i v = dot pn cols st.W i v + ((SqiModel.Kernels.get st.W i k : Int) : F) * dot pn cols W' j v := by
          unfold dot; rw [Finset.mul_sum, ← Finset.sum_add_distrib]
          apply Finset.sum_congr rfl
          intro s hs; rw [hrowi i hi hij s (Finset.mem_range.mp hs)]; ring
        show dot pn cols W' i v = 0
        rw [hdi, hdj, hW i hi, hW j hj]; ring
    · simp only
      rw [List.range_succ, List.filter_append, List.length_append, h2.cnt]
      have e1 : (List.filter (fun s => upd st.d k (j + 1) s == 0) (List.range k)) =
          (List.filter (fun s => st.d s == 0) (List.range k)) := by
        apply List.filter_congr
        intro s hs
        have : s ≠ k := by have := List.mem_range.mp hs; omega
        simp [upd, this]
      rw [e1]; simp [upd]
    · intro s hs; simp only [upd]; rw [if_neg (by omega)]; exact h2.dfut s (by omega)

theorem kerInit_inv2 (rows cols : Nat) (M : Mat) : KInv2 pn rows cols M 0 (kerInit pn rows cols M) := by
  have hp0 : (pn : Int) ≠ 0 := by exact_mod_cast hpF.out.ne_zero
  have hppos : (0 : Int) < pn := by have := hpF.out.pos; omega
  refine ⟨?_, rfl, ?_, by simp [kerInit], fun s _ => rfl⟩
  · intro i hi s hs
    simp only [kerInit]
    rw [get_tabulate _ _ _ _ _ hi hs]
    exact ⟨Int.emod_nonneg _ hp0, Int.emod_lt_of_pos _ hppos⟩
  · intro v hv i hi
    have := hv i hi
    unfold dot at this ⊢
    rw [← this]
    apply Finset.sum_congr rfl
    intro s hs
    simp only [kerInit]
    rw [get_tabulate _ _ _ _ _ hi (Finset.mem_range.mp hs), emod_cast]

theorem kerPrefix_both (rows cols : Nat) (M : Mat) : ∀ k, k ≤ cols →
    KInv pn rows cols M k ((List.range k).foldl (kerStep pn rows cols) (kerInit pn rows cols M)) ∧
    KInv2 pn rows cols M k ((List.range k).foldl (kerStep pn rows cols) (kerInit pn rows cols M)) := by
  intro k
  induction k with
  | zero => intro _; exact ⟨kerInit_inv pn rows cols M, kerInit_inv2 pn rows cols M⟩
  | succ k ih =>
    intro hk
    obtain ⟨h1, h2⟩ := ih (by omega)
    rw [List.range_succ, List.foldl_append]
    simp only [List.foldl_cons, List.foldl_nil]
    have h2' := kerStep_inv2 pn rows cols M k (by omega) _ h1 h2
    exact ⟨kerStep_inv pn rows cols M k (by omega) _ h1 h2'.nobad, h2'⟩

/-- the kernel vector attached to a free column k0 of a fully reduced state -/
def freeVec (st : KState) (k0 : Nat) : Nat → F := fun s =>
  if st.d s > 0 then ((SqiModel.Kernels.get st.W (st.d s - 1) k0 : Int) : F) else if s = k0 then 1 else 0

theorem freeVec_kernel (rows cols : Nat) (M : Mat) (st : KState) (hinv : KInv pn rows cols M cols st)
    (k0 : Nat) (hk0c : k0 < cols) (hd0 : st.d k0 = 0) : ∀ i < rows, dot pn cols st.W i (freeVec pn st k0) = 0 := by
  intro i hi
  unfold dot
  by_cases hci : st.c i = 0
  · apply Finset.sum_eq_zero
    intro s hs
    rw [hinv.zero i hi hci s (Finset.mem_range.mp hs)]; ring
  · obtain ⟨s0, hs0, hc0, hds0⟩ := hinv.cd i hi hci
    have hne : s0 ≠ k0 := by intro h'; subst h'; omega
    rw [Finset.sum_eq_add s0 k0 hne]
    · simp only [freeVec]
      rw [if_pos (by omega), if_neg (by omega), if_pos trivial]
      have : st.d s0 - 1 = i := by omega
      rw [this, (hinv.piv s0 hs0 i hds0).2.2.1]; ring
    · intro s hs hss
      have hsc := Finset.mem_range.mp hs
      simp only [freeVec]
      by_cases hds : st.d s > 0
      · rw [if_pos hds]
        have hdj : st.d s = (st.d s - 1) + 1 := by omega
        obtain ⟨_, hcj, _, hoth⟩ := hinv.piv s hsc (st.d s - 1) hdj
        have hij : i ≠ st.d s - 1 := by
          intro h'; rw [← h'] at hcj; omega
        rw [hoth i hi hij]; ring
      · rw [if_neg hds, if_neg hss.2]; ring
    · intro h'; exact absurd (Finset.mem_range.mpr hs0) h'
    · intro h'; exact absurd (Finset.mem_range.mpr hk0c) h'

/-- for a prime modulus the routine never takes the `ub` exit -/
theorem rightKerModPrime_ne_ub (rows cols : Nat) (mat : Mat) : rightKerModPrime rows cols mat pn ≠ .ub := by
  obtain ⟨_, h2⟩ := kerPrefix_both pn rows cols mat cols (le_refl _)
  rw [show (List.range cols).foldl (kerStep pn rows cols) (kerInit pn rows cols mat) = kerRun pn rows cols mat from rfl] at h2
  unfold rightKerModPrime
  simp only [h2.nobad, Bool.false_eq_true, if_false]
  split
  · rename_i hk1
    have hlen := h2.cnt
    rw [hk1] at hlen
    split
    · simp
    · rename_i hnone
      rw [List.getLast?_eq_none_iff] at hnone
      rw [hnone] at hlen; simp at hlen
  · simp

/-- completeness: if the right kernel of the matrix modulo p is a line (spanned by a non-zero v0), a vector is returned -/
theorem rightKerModPrime_complete (rows cols : Nat) (mat : Mat) (v0 : Nat → F)
    (hv0 : ∃ s < cols, v0 s ≠ 0) (hker0 : ∀ i < rows, dot pn cols mat i v0 = 0)
    (hline : ∀ v : Nat → F, (∀ i < rows, dot pn cols mat i v = 0) → ∃ c : F, ∀ s < cols, v s = c * v0 s) :
    ∃ ker, rightKerModPrime rows cols mat pn = .ok ker := by
  have hfld : ∀ a b : F, a * b = 0 → a = 0 ∨ b = 0 := fun a b h => mul_eq_zero.mp h
  obtain ⟨h1, h2⟩ := kerPrefix_both pn rows cols mat cols (le_refl _)
  rw [show (List.range cols).foldl (kerStep pn rows cols) (kerInit pn rows cols mat) = kerRun pn rows cols mat from rfl] at h1 h2
  have hfree : ∀ k, k ∈ ((List.range cols).filter fun s => (kerRun pn rows cols mat).d s == 0) ↔
      k < cols ∧ (kerRun pn rows cols mat).d k = 0 := by
    intro k; simp [List.mem_filter]
  have hk1 : (kerRun pn rows cols mat).kdim = 1 := by
    rw [h2.cnt]
    generalize hL : ((List.range cols).filter fun s => (kerRun pn rows cols mat).d s == 0) = L at hfree
    have hnd : L.Nodup := by rw [← hL]; exact List.Nodup.filter _ List.nodup_range
    match L, hnd, hfree with
    | [], _, hfree =>
      -- no free column: the kernel is trivial, contradiction with v0 ≠ 0
      exfalso
      obtain ⟨s0, hs0, hne⟩ := hv0
      apply hne
      have hds : (kerRun pn rows cols mat).d s0 ≠ 0 := by
        intro hd; have := (hfree s0).mpr ⟨hs0, hd⟩; simp at this
      have hdj : (kerRun pn rows cols mat).d s0 = ((kerRun pn rows cols mat).d s0 - 1) + 1 := by omega
      obtain ⟨hir, hci, hw1, _⟩ := h1.piv s0 hs0 _ hdj
      have hW := h2.rker v0 hker0 _ hir
      unfold dot at hW
      rw [Finset.sum_eq_single s0] at hW
      · rw [hw1] at hW; linear_combination -hW
      · intro s hs hss
        have hsc := Finset.mem_range.mp hs
        have hds' : (kerRun pn rows cols mat).d s ≠ 0 := by
          intro hd; have := (hfree s).mpr ⟨hsc, hd⟩; simp at this
        have hdj' : (kerRun pn rows cols mat).d s = ((kerRun pn rows cols mat).d s - 1) + 1 := by omega
        obtain ⟨_, hcj, _, hoth⟩ := h1.piv s hsc _ hdj'
        have hij : (kerRun pn rows cols mat).d s0 - 1 ≠ (kerRun pn rows cols mat).d s - 1 := by
          intro h'; rw [← h'] at hcj; omega
        rw [hoth _ hir hij]; ring
      · intro h'; exact absurd (Finset.mem_range.mpr hs0) h'
    | [_], _, _ => rfl
    | k1 :: k2 :: _, hnd, hfree =>
      -- two free columns give two independent kernel vectors
      exfalso
      have hk12 : k1 ≠ k2 := by
        intro h; rw [h] at hnd; simp at hnd
      obtain ⟨hc1, hd1⟩ := (hfree k1).mp (by simp)
      obtain ⟨hc2, hd2⟩ := (hfree k2).mp (by simp)
      have hv1 := h1.ker _ (freeVec_kernel pn rows cols mat _ h1 k1 hc1 hd1)
      have hv2 := h1.ker _ (freeVec_kernel pn rows cols mat _ h1 k2 hc2 hd2)
      obtain ⟨c1, e1⟩ := hline _ hv1
      obtain ⟨c2, e2⟩ := hline _ hv2
      have a1 := e1 k1 hc1
      have a2 := e1 k2 hc2
      have b2 := e2 k2 hc2
      simp only [freeVec] at a1 a2 b2
      rw [if_neg (by omega), if_pos trivial] at a1
      rw [if_neg (by omega), if_neg (Ne.symm hk12)] at a2
      rw [if_neg (by omega), if_pos trivial] at b2
      -- a1 : 1 = c1 * v0 k1 ; a2 : 0 = c1 * v0 k2 ; b2 : 1 = c2 * v0 k2
      have hv02 : v0 k2 ≠ 0 := by intro h; rw [h, mul_zero] at b2; exact one_ne_zero b2
      have hc1z : c1 = 0 := by
        rcases hfld _ _ a2.symm with h | h
        · exact h
        · exact absurd h hv02
      rw [hc1z, zero_mul] at a1; exact one_ne_zero a1
  unfold rightKerModPrime
  simp only [h2.nobad, Bool.false_eq_true, if_false, hk1, if_true]
  have hne := rightKerModPrime_ne_ub pn rows cols mat
  unfold rightKerModPrime at hne
  simp only [h2.nobad, Bool.false_eq_true, if_false, hk1, if_true] at hne
  split
  · exact ⟨_, rfl⟩
  · rename_i hnone; rw [hnone] at hne; exact absurd rfl hne

/-- converse of completeness: when a vector is returned, the kernel modulo p is exactly the line it spans -/
theorem rightKerModPrime_line (rows cols : Nat) (mat : Mat) (ker : List Int)
    (h : rightKerModPrime rows cols mat pn = .ok ker) (v : Nat → F)
    (hv : ∀ i < rows, dot pn cols mat i v = 0) :
    ∃ c : F, ∀ s < cols, v s = c * ((ker.getD s 0 : Int) : F) := by
  obtain ⟨h1, h2⟩ := kerPrefix_both pn rows cols mat cols (le_refl _)
  rw [show (List.range cols).foldl (kerStep pn rows cols) (kerInit pn rows cols mat) = kerRun pn rows cols mat from rfl] at h1 h2
  unfold rightKerModPrime at h
  simp only [h2.nobad, Bool.false_eq_true, if_false] at h
  split at h
  · rename_i hk1
    split at h
    · rename_i k0 hk0
      injection h with h
      have hmem := List.mem_of_getLast? hk0
      rw [List.mem_filter] at hmem
      have hk0c : k0 < cols := List.mem_range.mp hmem.1
      have hd0 : (kerRun pn rows cols mat).d k0 = 0 := by simpa using hmem.2
      -- k0 is the only free column
      have hone : ∀ s < cols, (kerRun pn rows cols mat).d s = 0 → s = k0 := by
        intro s hs hds
        have hcnt := h2.cnt
        rw [hk1] at hcnt
        have hs_in : s ∈ (List.range cols).filter fun s => (kerRun pn rows cols mat).d s == 0 := by
          simp [List.mem_filter, hs, hds]
        have hk_in : k0 ∈ (List.range cols).filter fun s => (kerRun pn rows cols mat).d s == 0 := List.mem_of_getLast? hk0
        generalize ((List.range cols).filter fun s => (kerRun pn rows cols mat).d s == 0) = L at hcnt hs_in hk_in
        match L, hcnt with
        | [x], _ =>
          simp only [List.mem_singleton] at hs_in hk_in
          rw [hs_in, hk_in]
      generalize kerRun pn rows cols mat = st at h1 h2 hd0 h hone
      have hW := h2.rker v hv
      refine ⟨v k0, ?_⟩
      intro s hs
      have hget : ((ker.getD s 0 : Int) : F) =
          if st.d s > 0 then ((SqiModel.Kernels.get st.W (st.d s - 1) k0 : Int) : F) else if s = k0 then 1 else 0 := by
        rw [← h]
        simp only [kerVec, List.getD_eq_getElem?_getD, List.getElem?_map, List.getElem?_range hs, Option.map_some,
          Option.getD_some]
        split
        · rw [emod_cast]
        · split <;> simp
      rw [hget]
      by_cases hds : st.d s > 0
      · rw [if_pos hds]
        -- pivot column s with pivot row i: row i of W·v = −v s + W i k0 · v k0
        have hdj : st.d s = (st.d s - 1) + 1 := by omega
        obtain ⟨hir, hci, hw1, _⟩ := h1.piv s hs _ hdj
        have hrow := hW _ hir
        unfold dot at hrow
        have hsk : s ≠ k0 := by intro hh; rw [hh] at hds; omega
        rw [Finset.sum_eq_add s k0 hsk] at hrow
        · rw [hw1] at hrow; linear_combination -hrow
        · intro s' hs' hss
          have hsc := Finset.mem_range.mp hs'
          by_cases hds' : st.d s' = 0
          · exact absurd (hone s' hsc hds') hss.2
          · have hdj' : st.d s' = (st.d s' - 1) + 1 := by omega
            obtain ⟨_, hcj, _, hoth⟩ := h1.piv s' hsc _ hdj'
            have hij : st.d s - 1 ≠ st.d s' - 1 := by
              intro h'; rw [← h'] at hcj; omega
            rw [hoth _ hir hij]; ring
        · intro h'; exact absurd (Finset.mem_range.mpr hs) h'
        · intro h'; exact absurd (Finset.mem_range.mpr hk0c) h'
      · rw [if_neg hds]
        have : s = k0 := hone s hs (by omega)
        rw [if_pos this, this]; ring
    · exact absurd h (by simp)
  · exact absurd h (by simp)

end
end SqiProofs.C17

/- C17 lemmas: the square-and-multiply model of mpz_powm computes b^e mod m; transfer to ZMod -/
import Mathlib.Tactic.Ring
import Mathlib.Data.ZMod.Basic
import SqiModel.Intbig
namespace SqiProofs.C17
open SqiModel.Intbig

theorem powModAux_spec (m : Nat) : ∀ (fuel b e acc : Nat), e < 2 ^ fuel → acc < m →
    powModAux m fuel b e acc = acc * b ^ e % m := by
  intro fuel
  induction fuel with
  | zero =>
    intro b e acc he hacc
    have : e = 0 := by simpa using he
    subst this; simp [powModAux, Nat.mod_eq_of_lt hacc]
  | succ n ih =>
    intro b e acc he hacc
    unfold powModAux
    by_cases h0 : e = 0
    · subst h0; simp [Nat.mod_eq_of_lt hacc]
    · simp only [h0, if_false]
      have hm : 0 < m := by omega
      have he2 : e / 2 < 2 ^ n := by
        rw [Nat.pow_succ] at he; omega
      have hsq : ∀ c : Nat, c * (b * b % m) ^ (e / 2) % m = c * b ^ (2 * (e / 2)) % m := by
        intro c
        rw [Nat.mul_mod, Nat.pow_mod, Nat.mod_mod, ← Nat.pow_mod, ← Nat.mul_mod, Nat.pow_mul, Nat.pow_two]
      by_cases hodd : e % 2 = 1
      · simp only [hodd, if_true]
        rw [ih _ _ _ he2 (Nat.mod_lt _ hm), hsq]
        have : e = 2 * (e / 2) + 1 := by omega
        conv_rhs => rw [this, Nat.pow_succ]
        rw [Nat.mul_mod, Nat.mod_mod, ← Nat.mul_mod]
        congr 1; ring
      · simp only [hodd, if_false]
        rw [ih _ _ _ he2 hacc, hsq]
        have : e = 2 * (e / 2) := by omega
        conv_rhs => rw [this]

theorem powMod_spec (b e m : Nat) (hm : 0 < m) : powMod b e m = b ^ e % m := by
  unfold powMod
  by_cases h1 : m = 1
  · subst h1
    rw [powModAux_spec 1 _ _ _ _ (Nat.lt_log2_self) (by simp)] ; simp [Nat.mod_one]
    all_goals simp [Nat.mod_one]
  · have h1m : 1 % m = 1 := Nat.mod_eq_of_lt (by omega)
    rw [powModAux_spec m _ _ _ _ (Nat.lt_log2_self) (by rw [h1m]; omega), h1m, Nat.one_mul, Nat.pow_mod, Nat.mod_mod,
      ← Nat.pow_mod]

theorem emod_natAbs' (x m : Int) : x % (m.natAbs : Int) = x % m := by
  rcases Int.natAbs_eq m with h | h
  · rw [← h]
  · conv_rhs => rw [h, Int.emod_neg]

theorem powm_spec (b : Int) (e : Nat) (m : Int) (hm : m ≠ 0) : powm b e m = b ^ e % m := by
  unfold powm
  rw [powMod_spec _ _ _ (Int.natAbs_pos.mpr hm)]
  rw [Int.natCast_mod, Int.natCast_pow, Int.toNat_of_nonneg (Int.emod_nonneg b hm), emod_natAbs']
  exact (Int.ModEq.pow e (Int.mod_modEq b m))

theorem powm_range (b : Int) (e : Nat) (m : Int) (hm : m ≠ 0) : 0 ≤ powm b e m ∧ powm b e m < (m.natAbs : Int) := by
  rw [powm_spec b e m hm]; exact ⟨Int.emod_nonneg _ hm, Int.emod_lt _ hm⟩

theorem powm_cast (pn : Nat) (hp : pn ≠ 0) (b : Int) (e : Nat) :
    ((powm b e (pn : Int) : Int) : ZMod pn) = (b : ZMod pn) ^ e := by
  rw [powm_spec b e pn (by exact_mod_cast hp), ZMod.intCast_mod, Int.cast_pow]

theorem emod_cast (pn : Nat) (x : Int) : ((x % (pn : Int) : Int) : ZMod pn) = (x : ZMod pn) :=
  ZMod.intCast_mod x pn

/-- two residues in `[0,p)` are equal iff their classes are -/
theorem residue_eq_iff (pn : Nat) (x y : Int) (hx : 0 ≤ x ∧ x < pn) (hy : 0 ≤ y ∧ y < pn) :
    (x : ZMod pn) = (y : ZMod pn) ↔ x = y := by
  constructor
  · intro h
    rw [ZMod.intCast_eq_intCast_iff'] at h
    rw [Int.emod_eq_of_lt hx.1 hx.2, Int.emod_eq_of_lt hy.1 hy.2] at h; exact h
  · intro h; rw [h]

end SqiProofs.C17

/- C17 lemmas: ibz_rand_interval over an explicit byte stream (core Lean) -/
import SqiModel.Intbig
namespace SqiProofs.C17
open SqiModel.Intbig

theorem randLoop_range (bmina : Int) (lb ll mask : Nat) : ∀ (fuel : Nat) (s : List Nat) (t : Int) (rest : List Nat),
    randLoop bmina lb ll mask fuel s = .ok (t, rest) → 0 ≤ t ∧ t ≤ bmina := by
  intro fuel
  induction fuel with
  | zero => intro s t rest h; simp [randLoop] at h
  | succ n ih =>
    intro s t rest h
    unfold randLoop at h
    split at h
    · exact absurd h (by simp)
    · simp only at h
      split at h
      · rename_i hle
        injection h with h
        injection h with h1 h2
        subst h1
        exact ⟨Int.natCast_nonneg _, hle⟩
      · exact ih _ _ _ h

theorem randLoop_ne_ub (bmina : Int) (lb ll mask : Nat) : ∀ (fuel : Nat) (s : List Nat),
    randLoop bmina lb ll mask fuel s ≠ .ub := by
  intro fuel
  induction fuel with
  | zero => intro s; simp [randLoop]
  | succ n ih =>
    intro s
    unfold randLoop
    split
    · simp
    · simp only; split
      · simp
      · exact ih _

/-- the unread rest is a suffix of the stream, a whole number of `lb`-byte chunks further -/
theorem randLoop_rest (bmina : Int) (lb ll mask : Nat) : ∀ (fuel : Nat) (s : List Nat) (t : Int) (rest : List Nat),
    randLoop bmina lb ll mask fuel s = .ok (t, rest) → ∃ k, 1 ≤ k ∧ rest = s.drop (k * lb) ∧ k * lb ≤ s.length := by
  intro fuel
  induction fuel with
  | zero => intro s t rest h; simp [randLoop] at h
  | succ n ih =>
    intro s t rest h
    unfold randLoop at h
    split at h
    · exact absurd h (by simp)
    · rename_i hlen
      simp only at h
      split at h
      · injection h with h
        injection h with h1 h2
        exact ⟨1, Nat.le_refl _, by simpa using h2.symm, by omega⟩
      · obtain ⟨k, hk1, hk2, hk3⟩ := ih _ _ _ h
        refine ⟨k + 1, by omega, ?_, ?_⟩
        · rw [hk2, List.drop_drop]; congr 1; rw [Nat.add_mul]; omega
        · rw [List.length_drop] at hk3; rw [Nat.add_mul]; omega

/-- whatever the mask is, an accepted sample lies in [a,b] -/
theorem randIntervalWith_range (maskOf : Nat → Option Nat) (a b : Int) (stream : List Nat) (r : Int) (rest : List Nat)
    (h : ibzRandIntervalWith maskOf a b stream = .ok (r, rest)) : a ≤ r ∧ r ≤ b := by
  unfold ibzRandIntervalWith at h
  simp only at h
  split at h
  · exact absurd h (by simp)
  · split at h
    · rename_i t rest' hl
      injection h with h
      injection h with h1 h2
      have := randLoop_range _ _ _ _ _ _ _ _ hl
      omega
    · exact absurd h (by simp)
    · exact absurd h (by simp)

/-- repaired code: the shift count is reduced modulo 64, the call never executes undefined behaviour -/
theorem randInterval_ne_ub (a b : Int) (stream : List Nat) : ibzRandInterval a b stream ≠ .ub := by
  unfold ibzRandInterval ibzRandIntervalWith
  simp only
  split
  · simp
  · simp
  · rename_i hl; exact absurd hl (randLoop_ne_ub _ _ _ _ _ _)

/-- the mask of the repaired code: `len_bits % 64` low bits, all 64 bits when `len_bits % 64 = 0` -/
theorem mask_value : ∀ k : Nat, k < 64 →
    (2 ^ 64 - 1) / 2 ^ ((64 - k) % 64) = if k = 0 then 2 ^ 64 - 1 else 2 ^ k - 1 := by
  decide

end SqiProofs.C17

/- C17 lemmas: the mask of ibz_rand_interval is wide enough — every value of [a,b] is produced by some byte stream -/
import Mathlib.Tactic.Ring
import SqiModel.Intbig
import SqiProofs.C17.Rand
namespace SqiProofs.C17
open SqiModel.Intbig

/-- n little-endian bytes of t -/
def toBytesLE : Nat → Nat → List Nat
  | 0, _ => []
  | n + 1, t => (t % 256) :: toBytesLE n (t / 256)

theorem toBytesLE_length (n t : Nat) : (toBytesLE n t).length = n := by
  induction n generalizing t with
  | zero => rfl
  | succ n ih => simp [toBytesLE, ih]

theorem fromBytesLE_toBytesLE : ∀ (n t : Nat), t < 256 ^ n → fromBytesLE (toBytesLE n t) = t := by
  intro n
  induction n with
  | zero => intro t h; simp at h; subst h; rfl
  | succ n ih =>
    intro t h
    simp only [toBytesLE, fromBytesLE]
    rw [ih (t / 256) (by rw [Nat.pow_succ] at h; omega)]
    omega

theorem mask_and (x k : Nat) (hk : 1 ≤ k ∧ k ≤ 64) (hx : x < 2 ^ k) :
    (x % 2 ^ 64) &&& ((2 ^ 64 - 1) / 2 ^ ((64 - k % 64) % 64)) = x := by
  have hx64 : x < 2 ^ 64 := Nat.lt_of_lt_of_le hx (Nat.pow_le_pow_right (by decide) hk.2)
  rw [Nat.mod_eq_of_lt hx64]
  by_cases h64 : k = 64
  · subst h64
    have : (2 ^ 64 - 1) / 2 ^ ((64 - 64 % 64) % 64) = 2 ^ 64 - 1 := by decide
    rw [this, Nat.and_two_pow_sub_one_eq_mod, Nat.mod_eq_of_lt hx64]
  · have hk' : k < 64 := by omega
    have hm := mask_value k hk'
    rw [if_neg (by omega)] at hm
    have e : (64 - k % 64) % 64 = (64 - k) % 64 := by rw [Nat.mod_eq_of_lt hk']
    rw [e, hm, Nat.and_two_pow_sub_one_eq_mod, Nat.mod_eq_of_lt hx]

/-- every value of the interval is reachable: the stream consisting of the little-endian bytes of t yields a + t -/
theorem randInterval_reaches (a b : Int) (t : Nat) (ht : (t : Int) ≤ b - a) :
    ibzRandInterval a b (toBytesLE (randParams a b).lenBytes t) = .ok (a + t, []) := by
  have hba : 0 ≤ b - a := by omega
  unfold ibzRandInterval ibzRandIntervalWith
  simp only
  set P := randParams a b with hP
  -- parameters
  have hL : P.lenBits = sizeInBase2 (b - a) := rfl
  have hBy : P.lenBytes = (P.lenBits + 7) / 8 := rfl
  have hLi : P.lenLimbs = (P.lenBytes + 8 - 1) / 8 := rfl
  have hSh : P.shift = 64 - P.lenBits % 64 := rfl
  have hL1 : 1 ≤ P.lenBits := by rw [hL]; unfold sizeInBase2; split <;> omega
  have htlt : t < 2 ^ P.lenBits := by
    rw [hL]; unfold sizeInBase2
    split
    · rename_i h0; have : t = 0 := by omega
      subst this; decide
    · have h1 : (t : Int) ≤ ((b - a).natAbs : Int) := by omega
      have h2 : t ≤ (b - a).natAbs := by exact_mod_cast h1
      exact Nat.lt_of_le_of_lt h2 Nat.lt_log2_self
  have hbytes : t < 256 ^ P.lenBytes := by
    have : (256 : Nat) ^ P.lenBytes = 2 ^ (8 * P.lenBytes) := by
      rw [show (256 : Nat) = 2 ^ 8 from rfl, ← Nat.pow_mul]
    rw [this]
    exact Nat.lt_of_lt_of_le htlt (Nat.pow_le_pow_right (by decide) (by omega))
  have hlen : (toBytesLE P.lenBytes t).length = P.lenBytes := toBytesLE_length _ _
  have hfuel : (toBytesLE P.lenBytes t).length + 1 = P.lenBytes + 1 := by rw [hlen]
  rw [hfuel]
  unfold randLoop
  rw [if_neg (by omega)]
  simp only
  have htake : (toBytesLE P.lenBytes t).take P.lenBytes = toBytesLE P.lenBytes t := by
    have := @List.take_length _ (toBytesLE P.lenBytes t); rwa [hlen] at this
  have hdrop : (toBytesLE P.lenBytes t).drop P.lenBytes = [] := by
    have := @List.drop_length _ (toBytesLE P.lenBytes t); rwa [hlen] at this
  rw [htake, hdrop, fromBytesLE_toBytesLE _ _ hbytes]
  -- the masking does not change t
  set w := 2 ^ (64 * (P.lenLimbs - 1)) with hw
  have hk : 1 ≤ P.lenBits - 64 * (P.lenLimbs - 1) ∧ P.lenBits - 64 * (P.lenLimbs - 1) ≤ 64 := by omega
  have hle : 64 * (P.lenLimbs - 1) ≤ P.lenBits := by omega
  have hq : t / w < 2 ^ (P.lenBits - 64 * (P.lenLimbs - 1)) := by
    apply Nat.div_lt_of_lt_mul
    rw [hw, ← Nat.pow_add]
    have : 64 * (P.lenLimbs - 1) + (P.lenBits - 64 * (P.lenLimbs - 1)) = P.lenBits := by omega
    rw [this]; exact htlt
  have hmask : (P.shift % 64) = (64 - (P.lenBits - 64 * (P.lenLimbs - 1)) % 64) % 64 := by
    rw [hSh]; omega
  have hand := mask_and (t / w) (P.lenBits - 64 * (P.lenLimbs - 1)) hk hq
  rw [hmask, hand]
  have ht' : t % w + t / w * w = t := by
    have := Nat.mod_add_div t w; rw [Nat.mul_comm] at this; exact this
  rw [ht']
  rw [if_pos ht]
  simp only
  congr 2
  omega

end SqiProofs.C17

/- C17 lemmas: soundness of the model of represent_integer / represent_integer_non_diag -/
import Mathlib.Tactic.Ring
import Mathlib.Tactic.LinearCombination
import Mathlib.Data.Int.GCD
import SqiModel.NumberTheory
import SqiProofs.C17.Gcd
import SqiProofs.C17.Rand
import SqiProofs.C17.Conv
import SqiProofs.C17.Cornacchia
namespace SqiProofs.C17
open SqiModel.Intbig SqiModel.NumberTheory

theorem isqrtBits_sq_le (n : Nat) : ∀ (k r : Nat), r * r ≤ n → isqrtBits k n r * isqrtBits k n r ≤ n := by
  intro k
  induction k with
  | zero => intro r h; simpa [isqrtBits] using h
  | succ k ih =>
    intro r h
    unfold isqrtBits
    split
    · rename_i hle; exact ih _ hle
    · exact ih _ h

theorem isqrt_sq_le (n : Nat) : isqrt n * isqrt n ≤ n := isqrtBits_sq_le n _ 0 (Nat.zero_le _)

theorem tmod_two_parity (a : Int) : a % 2 = (a.tmod 2) % 2 := by
  have := Int.tdiv_mul_add_tmod a 2
  omega

theorem get_parity (a : Int) : (ibzGet a) % 2 = a % 2 := by
  have := (ibzGet_spec a).1
  omega

theorem cRem_get_eq (a b : Int) (h : cRem (ibzGet a) 2 = cRem (ibzGet b) 2) : a % 2 = b % 2 := by
  unfold cRem at h
  rw [← get_parity a, ← get_parity b, tmod_two_parity (ibzGet a), tmod_two_parity (ibzGet b), h]

theorem riAccept_ok (nd : Bool) (x y z t x' y' : Int) (h : riAccept nd x y z t = .ok (x', y')) :
    x' * x' + y' * y' = x * x + y * y ∧ x' % 2 = t % 2 ∧ y' % 2 = z % 2 := by
  unfold riAccept at h
  split at h
  · split at h
    · rename_i hp
      injection h with h; injection h with h1 h2; subst h1; subst h2
      exact ⟨rfl, cRem_get_eq _ _ hp.1, cRem_get_eq _ _ hp.2⟩
    · exact absurd h (by simp)
  · simp only at h
    split at h
    · rename_i hsw
      -- no swap
      simp only at h
      split at h
      · rename_i hp
        split at h
        · exact absurd h (by simp)
        · split at h
          · exact absurd h (by simp)
          · split at h
            · exact absurd h (by simp)
            · split at h
              · injection h with h; injection h with h1 h2; subst h1; subst h2
                exact ⟨rfl, cRem_get_eq _ _ hp.1, cRem_get_eq _ _ hp.2⟩
              · exact absurd h (by simp)
      · exact absurd h (by simp)
    · simp only at h
      split at h
      · rename_i hp
        split at h
        · exact absurd h (by simp)
        · split at h
          · exact absurd h (by simp)
          · split at h
            · exact absurd h (by simp)
            · split at h
              · injection h with h; injection h with h1 h2; subst h1; subst h2
                exact ⟨by ring, cRem_get_eq _ _ hp.1, cRem_get_eq _ _ hp.2⟩
              · exact absurd h (by simp)
      · exact absurd h (by simp)

/-- the enumeration loop only returns genuine representations 4n = x² + y² + p(z² + t²), with the parities that make
    the element divisible by 2 in the maximal order -/
theorem riLoop_sound (isPP : Int → Bool) (nd : Bool) (p adjusted : Int) (primes : List Int) (bad : Option Int)
    (hp : 0 < p) (hadj : 0 ≤ adjusted) (B : Nat) (hB1 : 1 ≤ B) (hB : B ≤ 2 ^ 63) (hsize : adjusted.natAbs < 2 ^ B) :
    ∀ (k : Nat) (s : List Nat) (x y z t : Int) (rest : List Nat),
    riLoop isPP nd p adjusted (adjusted.tdiv p) ((isqrt (adjusted.tdiv p).toNat : Nat) : Int) primes bad k s
      = .ok ((x, y, z, t), rest) →
    x * x + y * y + p * (z * z + t * t) = adjusted ∧ x % 2 = t % 2 ∧ y % 2 = z % 2 ∧ 1 ≤ z := by
  intro k
  induction k with
  | zero => intro s x y z t rest h; simp [riLoop] at h
  | succ k ih =>
    intro s x y z t rest h
    unfold riLoop at h
    split at h
    · rename_i z0 s1 hz
      have hzr := randIntervalWith_range _ _ _ _ _ _ hz
      simp only at h
      split at h
      · exact ih _ _ _ _ _ _ h
      · rename_i htemp
        split at h
        · rename_i t0 s2 ht
          have htr := randIntervalWith_range _ _ _ _ _ _ ht
          split at h
          · rename_i x0 y0 hc
            split at h
            · rename_i x1 y1 hacc
              simp only [Res.ok.injEq, Prod.mk.injEq] at h
              obtain ⟨⟨e1, e2, e3, e4⟩, _⟩ := h
              have e1' := e1.symm; have e2' := e2.symm; have e3' := e3.symm; have e4' := e4.symm
              subst e1' e2' e3' e4'
              obtain ⟨hs1, hs2, hs3⟩ := riAccept_ok _ _ _ _ _ _ _ hacc
              -- size of the Cornacchia target
              have hsq := isqrt_sq_le (adjusted.tdiv p).toNat
              have hsq2 := isqrt_sq_le (adjusted.tdiv p - z * z).toNat
              have hq0 : 0 ≤ adjusted.tdiv p := Int.tdiv_nonneg hadj (le_of_lt hp)
              have hqp : adjusted.tdiv p * p ≤ adjusted := by
                have h1 := Int.tdiv_mul_add_tmod adjusted p
                have h2 := Int.tmod_nonneg p hadj
                omega
              set Q := adjusted.tdiv p with hQ
              set bz : Nat := isqrt Q.toNat with hbz
              set bt : Nat := isqrt (Q - z * z).toNat with hbt
              have hz1 : 1 ≤ z := hzr.1
              have hzb : z ≤ (bz : Int) := hzr.2
              have htb : t ≤ (bt : Int) := htr.2
              have ht1 : 1 ≤ t := htr.1
              have hzz : z * z ≤ Q := by
                have h1 : z * z ≤ (bz : Int) * bz := Int.mul_le_mul hzb hzb (by omega) (by omega)
                have h2 : ((bz * bz : Nat) : Int) ≤ (Q.toNat : Int) := by exact_mod_cast hsq
                push_cast at h2; omega
              have htt : t * t ≤ Q - z * z := by
                have h1 : t * t ≤ (bt : Int) * bt := Int.mul_le_mul htb htb (by omega) (by omega)
                have h2 : ((bt * bt : Nat) : Int) ≤ ((Q - z * z).toNat : Int) := by exact_mod_cast hsq2
                push_cast at h2; omega
              have htarget0 : 0 ≤ adjusted - (z * z + t * t) * p := by
                have : (z * z + t * t) * p ≤ Q * p := Int.mul_le_mul_of_nonneg_right (by omega) (le_of_lt hp)
                omega
              have htargetle : adjusted - (z * z + t * t) * p ≤ adjusted := by
                have : 0 ≤ (z * z + t * t) * p := Int.mul_nonneg (Int.add_nonneg (mul_self_nonneg z) (mul_self_nonneg t)) (le_of_lt hp)
                omega
              have hsz : (adjusted - (z * z + t * t) * p).natAbs < 2 ^ B := by
                have : (adjusted - (z * z + t * t) * p).natAbs ≤ adjusted.natAbs := by omega
                omega
              have hcs := cornacchiaExtended_sound isPP _ primes bad x0 y0 B hB1 hB hsz hc
              refine ⟨?_, hs2, hs3, hz1⟩
              rw [hs1, hcs]; ring
            · exact ih _ _ _ _ _ _ h
            · exact absurd h (by simp)
          · exact ih _ _ _ _ _ _ h
          · exact absurd h (by simp)
        · exact absurd h (by simp)
    · exact absurd h (by simp)

theorem gcd4_spec (a b c d : Int) :
    0 ≤ gcd4 a b c d ∧ gcd4 a b c d ∣ a ∧ gcd4 a b c d ∣ b ∧ gcd4 a b c d ∣ c ∧ gcd4 a b c d ∣ d ∧
    ∀ m : Int, m ∣ a → m ∣ b → m ∣ c → m ∣ d → m ∣ gcd4 a b c d := by
  unfold gcd4
  rw [(gcdext_spec a b).1, (gcdext_spec _ c).1, (gcdext_spec _ d).1]
  have h1 : ((Int.gcd a b : Nat) : Int) ∣ a := Int.gcd_dvd_left a b
  have h2 : ((Int.gcd a b : Nat) : Int) ∣ b := Int.gcd_dvd_right a b
  have h3 : ((Int.gcd (Int.gcd a b : Int) c : Nat) : Int) ∣ (Int.gcd a b : Int) := Int.gcd_dvd_left _ _
  have h4 : ((Int.gcd (Int.gcd a b : Int) c : Nat) : Int) ∣ c := Int.gcd_dvd_right _ _
  have h5 : ((Int.gcd (Int.gcd (Int.gcd a b : Int) c : Int) d : Nat) : Int) ∣ (Int.gcd (Int.gcd a b : Int) c : Int) :=
    Int.gcd_dvd_left _ _
  have h6 : ((Int.gcd (Int.gcd (Int.gcd a b : Int) c : Int) d : Nat) : Int) ∣ d := Int.gcd_dvd_right _ _
  refine ⟨Int.natCast_nonneg _, (h5.trans h3).trans h1, (h5.trans h3).trans h2, h5.trans h4, h6, ?_⟩
  intro m ma mb mc md
  exact Int.dvd_coe_gcd (Int.dvd_coe_gcd (Int.dvd_coe_gcd ma mb) mc) md

/-- the quaternion tail: the returned element has exactly the returned norm, which is the target divided by a square -/
theorem riFinish_sound (n p x y z t : Int) (hrep : x * x + y * y + p * (z * z + t * t) = n * 2 * 2)
    (hp4 : p % 4 = 3) (hz : 1 ≤ z) (par1 : x % 2 = t % 2) (par2 : y % 2 = z % 2) :
    ∃ c0 c1 c2 c3 k : Int, (riFinish n x y z t).coord = [c0, c1, c2, c3] ∧ (riFinish n x y z t).denom = 2 ∧
      4 * (riFinish n x y z t).nOut = c0 * c0 + c1 * c1 + p * (c2 * c2 + c3 * c3) ∧
      n = (riFinish n x y z t).nOut * (k * k) ∧ (c0 - c3) % 2 = 0 ∧ (c1 - c2) % 2 = 0 := by
  obtain ⟨hg0, ha, hb, hc, hd, hgreatest⟩ := gcd4_spec (x + t) (y - z) (2 * z) (-(2 * t))
  simp only [riFinish]
  set g := gcd4 (x + t) (y - z) (2 * z) (-(2 * t)) with hg
  have hgne : g ≠ 0 := by
    intro h0; rw [h0] at hc
    have := zero_dvd_iff.mp hc; omega
  have ea : (x + t).tdiv g * g = x + t := Int.tdiv_mul_cancel ha
  have eb : (y - z).tdiv g * g = y - z := Int.tdiv_mul_cancel hb
  have ec : (2 * z).tdiv g * g = 2 * z := Int.tdiv_mul_cancel hc
  have ed : (-(2 * t)).tdiv g * g = -(2 * t) := Int.tdiv_mul_cancel hd
  set a' := (x + t).tdiv g
  set b' := (y - z).tdiv g
  set c' := (2 * z).tdiv g
  set d' := (-(2 * t)).tdiv g
  obtain ⟨m, hm⟩ : ∃ m : Int, p = 4 * m - 1 := ⟨p / 4 + 1, by omega⟩
  set Q := a' * a' + a' * d' + b' * b' + b' * c' + m * (c' * c' + d' * d') with hQ
  have h16 : g * g * Q = n * 2 * 2 := by
    have e1 : g * g * (4 * Q) = 4 * (x * x + y * y + p * (z * z + t * t)) := by
      rw [hQ, hm]
      have hx : 2 * x = 2 * (a' * g) + d' * g := by rw [ea, ed]; ring
      have hy : 2 * y = 2 * (b' * g) + c' * g := by rw [eb, ec]; ring
      have hz2 : 2 * z = c' * g := ec.symm
      have ht2 : 2 * t = -(d' * g) := by rw [ed]; ring
      have : 4 * (x * x + y * y + (4 * m - 1) * (z * z + t * t))
          = (2 * x) * (2 * x) + (2 * y) * (2 * y) + (4 * m - 1) * ((2 * z) * (2 * z) + (2 * t) * (2 * t)) := by ring
      rw [this, hx, hy, hz2, ht2]; ring
    rw [hrep] at e1
    have : 4 * (g * g * Q) = 4 * (n * 2 * 2) := by linear_combination e1
    omega
  have hn : (n * 2 * 2).tdiv (g * g) = Q := by
    rw [← h16]; exact Int.mul_tdiv_cancel_left _ (Int.mul_ne_zero hgne hgne)
  -- g is even
  have h2g : (2 : Int) ∣ g := by
    apply hgreatest
    · exact Int.dvd_of_emod_eq_zero (by omega)
    · exact Int.dvd_of_emod_eq_zero (by omega)
    · exact Dvd.intro _ rfl
    · exact ⟨-t, by ring⟩
  obtain ⟨k, hk⟩ := h2g
  refine ⟨2 * a' + d', 2 * b' + c', c', d', k, rfl, trivial, ?_, ?_, by omega, by omega⟩
  · rw [hn, hQ, hm]; ring
  · rw [hn]
    have : 4 * (Q * (k * k)) = 4 * n := by
      have : g * g * Q = 4 * (k * k * Q) := by rw [hk]; ring
      linear_combination h16 - this
    omega

/-- `represent_integer` / `represent_integer_non_diag` (model): a returned element has the returned norm -/
theorem representInteger_sound (isPP : Int → Bool) (nd : Bool) (trials : Nat) (n p : Int) (stream : List Nat)
    (o : RIOut) (rest : List Nat) (hp : 0 < p) (hp4 : p % 4 = 3) (hn : 0 ≤ n)
    (B : Nat) (hB1 : 1 ≤ B) (hB : B ≤ 2 ^ 63) (hsize : (n * 2 * 2).natAbs < 2 ^ B)
    (h : representInteger isPP nd trials n p stream = .ok (o, rest)) :
    ∃ c0 c1 c2 c3 k : Int, o.coord = [c0, c1, c2, c3] ∧ o.denom = 2 ∧
      4 * o.nOut = c0 * c0 + c1 * c1 + p * (c2 * c2 + c3 * c3) ∧ n = o.nOut * (k * k) ∧
      (c0 - c3) % 2 = 0 ∧ (c1 - c2) % 2 = 0 := by
  unfold representInteger at h
  simp only at h
  split at h
  · rename_i x y z t rest' hl
    simp only [Res.ok.injEq, Prod.mk.injEq] at h
    obtain ⟨rfl, _⟩ := h
    obtain ⟨h1, h2, h3, h4⟩ := riLoop_sound isPP nd p (n * 2 * 2) _ _ hp (by omega) B hB1 hB hsize _ _ _ _ _ _ _ hl
    exact riFinish_sound n p x y z t h1 hp4 h4 h2 h3
  · exact absurd h (by simp)
  · exact absurd h (by simp)

end SqiProofs.C17

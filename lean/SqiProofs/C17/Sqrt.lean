/- C17 lemmas: ibz_sqrt_mod_p (Euler criterion, p ≡ 3 mod 4, p ≡ 5 mod 8, Tonelli–Shanks invariant) -/
import Mathlib.Tactic.Ring
import Mathlib.Tactic.LinearCombination
import Mathlib.Data.ZMod.Basic
import Mathlib.FieldTheory.Finite.Basic
import Mathlib.NumberTheory.LegendreSymbol.Basic
import Mathlib.NumberTheory.LegendreSymbol.QuadraticReciprocity
import SqiModel.Intbig
import SqiProofs.C17.Pow
namespace SqiProofs.C17
open SqiModel.Intbig

section
variable (pn : Nat) [hpF : Fact pn.Prime]

local notation "F" => ZMod pn

theorem pn_pos : 0 < pn := hpF.out.pos
theorem pn_ne_zero : pn ≠ 0 := hpF.out.ne_zero
theorem pn_two_le : 2 ≤ pn := hpF.out.two_le

theorem odd_of_ne_two (hp2 : pn ≠ 2) : pn % 2 = 1 := by
  rcases hpF.out.eq_two_or_odd with h | h
  · exact absurd h hp2
  · exact h

theorem neg_one_ne_one' (hp2 : pn ≠ 2) : (-1 : F) ≠ 1 := by
  haveI : Fact (2 < pn) := ⟨by have := pn_two_le pn; omega⟩
  exact ZMod.neg_one_ne_one

theorem cast_p_sub_one : (((pn : Int) - 1 : Int) : F) = -1 := by
  push_cast; simp

theorem half_toNat (hp2 : pn ≠ 2) : (((pn : Int) - 1) / 2).toNat = pn / 2 := by
  have := odd_of_ne_two pn hp2; omega

/-- value of the powm used by `jacobiP` as an element of the field -/
theorem jacobi_pow_cast (hp2 : pn ≠ 2) (x : Int) :
    ((powm x (((pn : Int) - 1) / 2).toNat pn : Int) : F) = (x : F) ^ (pn / 2) := by
  rw [half_toNat pn hp2, powm_cast pn (pn_ne_zero pn)]

theorem pn_int_ne_two (hp2 : pn ≠ 2) : (pn : Int) ≠ 2 := by exact_mod_cast hp2

theorem jacobiP_eq_one_iff (hp2 : pn ≠ 2) (x : Int) :
    jacobiP x pn = 1 ↔ (x : F) ^ (pn / 2) = 1 := by
  have hc := jacobi_pow_cast pn hp2 x
  have hr := powm_range x (((pn : Int) - 1) / 2).toNat pn (by exact_mod_cast pn_ne_zero pn)
  simp only [Int.natAbs_natCast] at hr
  have h2 := pn_two_le pn
  simp only [jacobiP, pn_int_ne_two pn hp2, if_false]
  generalize powm x (((pn : Int) - 1) / 2).toNat pn = r at hc hr
  have e0 : r = 0 ↔ (r : F) = ((0 : Int) : F) := (residue_eq_iff pn r 0 hr ⟨le_refl _, by omega⟩).symm
  have e1 : r = 1 ↔ (r : F) = ((1 : Int) : F) := (residue_eq_iff pn r 1 hr ⟨by omega, by omega⟩).symm
  simp only [Int.cast_zero, Int.cast_one] at e0 e1
  rw [← hc]
  by_cases h0 : r = 0
  · simp only [h0, if_true]
    constructor
    · intro h; omega
    · intro h; simp at h
  · simp only [h0, if_false]
    by_cases h1 : r = 1
    · simp [h1]
    · simp only [h1, if_false]
      constructor
      · intro h; omega
      · intro h; exact absurd (e1.mpr h) h1

theorem jacobiP_eq_neg_one_iff (hp2 : pn ≠ 2) (x : Int) :
    jacobiP x pn = -1 ↔ (x : F) ^ (pn / 2) = -1 := by
  have hc := jacobi_pow_cast pn hp2 x
  have hr := powm_range x (((pn : Int) - 1) / 2).toNat pn (by exact_mod_cast pn_ne_zero pn)
  simp only [Int.natAbs_natCast] at hr
  have h2 := pn_two_le pn
  have hodd := odd_of_ne_two pn hp2
  simp only [jacobiP, pn_int_ne_two pn hp2, if_false]
  generalize powm x (((pn : Int) - 1) / 2).toNat pn = r at hc hr
  have e0 : r = 0 ↔ (r : F) = ((0 : Int) : F) := (residue_eq_iff pn r 0 hr ⟨le_refl _, by omega⟩).symm
  have e1 : r = 1 ↔ (r : F) = ((1 : Int) : F) := (residue_eq_iff pn r 1 hr ⟨by omega, by omega⟩).symm
  simp only [Int.cast_zero, Int.cast_one] at e0 e1
  rw [← hc]
  by_cases h0 : r = 0
  · simp only [h0, if_true]
    constructor
    · intro h; omega
    · intro h; simp at h
  · simp only [h0, if_false]
    by_cases h1 : r = 1
    · simp only [h1, if_true]
      constructor
      · intro h; omega
      · intro h; simp only [Int.cast_one] at h; exact absurd h.symm (neg_one_ne_one' pn hp2)
    · simp only [h1, if_false, true_iff]
      have hx0 : (x : F) ≠ 0 := by
        intro hx; apply h0; rw [e0, hc, hx]
        exact zero_pow (by omega)
      rcases ZMod.pow_div_two_eq_neg_one_or_one pn hx0 with h | h
      · exact absurd (e1.mpr (hc.trans h)) h1
      · rw [hc]; exact h

/-! ### the non-residue search -/

theorem findQnr_sound (p : Int) : ∀ (fuel : Nat) (q0 q : Int), findQnr p fuel q0 = some q → jacobiP q p = -1 := by
  intro fuel
  induction fuel with
  | zero => intro q0 q h; simp [findQnr] at h
  | succ n ih =>
    intro q0 q h
    unfold findQnr at h
    split at h
    · rename_i hj; injection h with h; rw [← h]; exact hj
    · exact ih _ _ h

theorem findQnr_complete (p : Int) : ∀ (fuel : Nat) (q0 : Int), (∃ k : Nat, k < fuel ∧ jacobiP (q0 + k) p = -1) →
    ∃ q, findQnr p fuel q0 = some q := by
  intro fuel
  induction fuel with
  | zero => intro q0 ⟨k, hk, _⟩; omega
  | succ n ih =>
    intro q0 ⟨k, hk, hj⟩
    unfold findQnr
    by_cases h : jacobiP q0 p = -1
    · exact ⟨q0, by simp [h]⟩
    · simp only [h, if_false]
      apply ih
      cases k with
      | zero => simp at hj; exact absurd hj h
      | succ k' => exact ⟨k', by omega, by rw [← hj]; congr 1; push_cast; ring⟩

theorem exists_qnr (hp2 : pn ≠ 2) : ∃ q, findQnr pn ((pn : Int)).toNat 0 = some q := by
  apply findQnr_complete
  have hchar : ringChar F ≠ 2 := by rw [ZMod.ringChar_zmod_n]; exact hp2
  obtain ⟨x, hx⟩ := FiniteField.exists_nonsquare hchar
  refine ⟨x.val, by simpa using ZMod.val_lt x, ?_⟩
  rw [jacobiP_eq_neg_one_iff pn hp2]
  have hx0 : x ≠ 0 := by rintro rfl; exact hx ⟨0, by simp⟩
  have hcast : (((0 : Int) + (x.val : Int) : Int) : F) = x := by simp
  rw [hcast]
  rcases ZMod.pow_div_two_eq_neg_one_or_one pn hx0 with h | h
  · exact absurd ((ZMod.euler_criterion pn hx0).mpr h) hx
  · exact h

/-! ### trailing zeros -/

theorem trailingZeros_spec : ∀ (fuel q : Nat), 0 < q → q ≤ fuel →
    q = q / 2 ^ trailingZeros fuel q * 2 ^ trailingZeros fuel q ∧ (q / 2 ^ trailingZeros fuel q) % 2 = 1 := by
  intro fuel
  induction fuel with
  | zero => intro q h1 h2; omega
  | succ n ih =>
    intro q hq hle
    unfold trailingZeros
    by_cases hodd : q % 2 = 1
    · simp [hodd]
    · simp only [hodd, if_false]
      have := ih (q / 2) (by omega) (by omega)
      generalize trailingZeros n (q / 2) = t at this ⊢
      have hc : q / 2 ^ (t + 1) = q / 2 / 2 ^ t := by
        rw [Nat.pow_succ, Nat.div_div_eq_div_mul, Nat.mul_comm]
      rw [hc]
      refine ⟨?_, this.2⟩
      have h2 : q = q / 2 * 2 := by omega
      rw [Nat.pow_succ, ← Nat.mul_assoc, ← this.1]; exact h2

end
end SqiProofs.C17

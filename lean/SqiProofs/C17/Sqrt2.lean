/- C17 lemmas: Tonelli–Shanks loop invariant and the assembled soundness/completeness of ibz_sqrt_mod_p -/
import SqiProofs.C17.Sqrt
namespace SqiProofs.C17
open SqiModel.Intbig

section
variable (pn : Nat) [hpF : Fact pn.Prime]
local notation "F" => ZMod pn

theorem tsLoop_range : ∀ (n : Nat) (x y z : Int) (exp : Nat), (0 ≤ x ∧ x < pn) →
    0 ≤ tsLoop pn n x y z exp ∧ tsLoop pn n x y z exp < pn := by
  intro n
  induction n with
  | zero => intro x y z exp h; simpa [tsLoop] using h
  | succ n ih =>
    intro x y z exp h
    unfold tsLoop
    have hp : (pn : Int) ≠ 0 := by exact_mod_cast pn_ne_zero pn
    simp only
    split
    · exact ih _ _ _ _ ⟨Int.emod_nonneg _ hp, Int.emod_lt_of_pos _ (by have := pn_pos pn; omega)⟩
    · exact ih _ _ _ _ h

/-- Tonelli–Shanks invariant: with `n` iterations left, x² = a·y, y^(2^(n-1)) = 1, z^(2^(n-1)) = −1 and
    exp = 2^(n-2) (0 in the last iteration); the loop returns a square root of a. -/
theorem tsLoop_spec (hp2 : pn ≠ 2) (aF : F) : ∀ (n : Nat) (x y z : Int) (exp : Nat),
    (x : F) ^ 2 = aF * (y : F) →
    (n = 0 → (y : F) = 1) →
    (∀ m, n = m + 1 → (y : F) ^ (2 ^ m) = 1 ∧ (z : F) ^ (2 ^ m) = -1) →
    (∀ m, n = m + 2 → exp = 2 ^ m) → (n = 1 → exp = 0) →
    ((tsLoop pn n x y z exp : Int) : F) ^ 2 = aF := by
  intro n
  induction n with
  | zero =>
    intro x y z exp hx hy _ _ _
    simp only [tsLoop]; rw [hx, hy rfl, mul_one]
  | succ n ih =>
    intro x y z exp hx _ hyz hexp hexp1
    obtain ⟨hy, hz⟩ := hyz n rfl
    have hp0 : pn ≠ 0 := pn_ne_zero pn
    have hpI : (pn : Int) ≠ 0 := by exact_mod_cast hp0
    have hb := powm_cast pn hp0 y exp
    have hbr := powm_range y exp pn hpI
    simp only [Int.natAbs_natCast] at hbr
    have h2 := pn_two_le pn
    have hcond : powm y exp pn = (pn : Int) - 1 ↔ (y : F) ^ exp = -1 := by
      rw [← hb, ← cast_p_sub_one pn]
      exact (residue_eq_iff pn _ _ hbr ⟨by omega, by omega⟩).symm
    have hz2 : ((powm z 2 pn : Int) : F) = (z : F) ^ 2 := powm_cast pn hp0 z 2
    unfold tsLoop
    simp only
    cases n with
    | zero =>
      -- last iteration: exp = 0, nothing changes
      have he : exp = 0 := hexp1 rfl
      have hnc : ¬ (powm y exp pn = (pn : Int) - 1) := by
        rw [hcond, he, pow_zero]; exact fun h => neg_one_ne_one' pn hp2 h.symm
      simp only [hnc, if_false]
      apply ih x y _ _ hx
      · intro _; simpa using hy
      · intro m hm; omega
      · intro m hm; omega
      · intro h; omega
    | succ m =>
      have he : exp = 2 ^ m := hexp m rfl
      have hpow2 : (2 : Nat) ^ (m + 1) = 2 ^ m * 2 := Nat.pow_succ 2 m
      have hz' : ((z : F) ^ 2) ^ (2 ^ m) = -1 := by rw [← pow_mul, Nat.mul_comm, ← hpow2]; exact hz
      by_cases hc : powm y exp pn = (pn : Int) - 1
      · simp only [hc, if_true]
        have hyb : (y : F) ^ (2 ^ m) = -1 := by rw [← he]; exact hcond.mp hc
        apply ih
        · rw [emod_cast, emod_cast]; push_cast
          linear_combination ((z : F) ^ 2) * hx
        · intro h; omega
        · intro m' hm'
          have : m' = m := by omega
          subst this
          refine ⟨?_, by rw [hz2]; exact hz'⟩
          rw [emod_cast]; push_cast
          rw [mul_assoc, mul_pow, ← pow_two, hyb, hz']; ring
        · intro m' hm'
          have : m = m' + 1 := by omega
          subst this; rw [he, Nat.pow_succ]; omega
        · intro h
          have : m = 0 := by omega
          subst this; rw [he]; rfl
      · simp only [hc, if_false]
        have hyb : (y : F) ^ (2 ^ m) = 1 := by
          have hsq : ((y : F) ^ (2 ^ m)) ^ 2 = 1 := by rw [← pow_mul, ← hpow2]; exact hy
          have hne : (y : F) ^ (2 ^ m) ≠ -1 := by rw [← he]; exact fun h => hc (hcond.mpr h)
          have : ((y : F) ^ (2 ^ m) - 1) * ((y : F) ^ (2 ^ m) + 1) = 0 := by linear_combination hsq
          rcases mul_eq_zero.mp this with h | h
          · exact sub_eq_zero.mp h
          · exact absurd (eq_neg_of_add_eq_zero_left h) hne
        apply ih x y _ _ hx
        · intro h; omega
        · intro m' hm'
          have : m' = m := by omega
          subst this
          exact ⟨hyb, by rw [hz2]; exact hz'⟩
        · intro m' hm'
          have : m = m' + 1 := by omega
          subst this; rw [he, Nat.pow_succ]; omega
        · intro h
          have : m = 0 := by omega
          subst this; rw [he]; rfl

end
end SqiProofs.C17

/- C17 lemmas: assembled behaviour of the model of ibz_sqrt_mod_p for every prime -/
import SqiProofs.C17.Sqrt2
namespace SqiProofs.C17
open SqiModel.Intbig

/-- p = 2 (repaired code): the root is a mod 2 -/
theorem sqrtModP_two (a : Int) : ibzSqrtModP a 2 = .ok (a % 2) := by
  simp [ibzSqrtModP]

section
variable (pn : Nat) [hpF : Fact pn.Prime]
local notation "F" => ZMod pn

theorem two_pow_half (hp2 : pn ≠ 2) (h8 : pn % 8 = 5) : (2 : F) ^ (pn / 2) = -1 := by
  have h2 : (2 : F) ≠ 0 := by
    intro h
    have : ((2 : Nat) : F) = 0 := by exact_mod_cast h
    rw [ZMod.natCast_eq_zero_iff] at this
    have := Nat.le_of_dvd (by norm_num) this
    have := pn_two_le pn; omega
  rcases ZMod.pow_div_two_eq_neg_one_or_one pn h2 with h | h
  · have hs := (ZMod.euler_criterion pn h2).mpr h
    rw [ZMod.exists_sq_eq_two_iff hp2] at hs; omega
  · exact h

/-- odd prime, Legendre test passed: the routine returns a reduced square root -/
theorem sqrtModP_ok_of_jacobi (hp2 : pn ≠ 2) (a : Int) (hj : (a : F) ^ (pn / 2) = 1) :
    ∃ r, ibzSqrtModP a pn = .ok r ∧ 0 ≤ r ∧ r < pn ∧ (r : F) ^ 2 = (a : F) := by
  have hp0 : pn ≠ 0 := pn_ne_zero pn
  have hpI : (pn : Int) ≠ 0 := by exact_mod_cast hp0
  have hpos : (0 : Int) < pn := by have := pn_pos pn; omega
  have hodd := odd_of_ne_two pn hp2
  have h2le := pn_two_le pn
  have hamod : ((a % (pn : Int) : Int) : F) = (a : F) := emod_cast pn a
  have hj1 : jacobiP (a % (pn : Int)) pn = 1 := by rw [jacobiP_eq_one_iff pn hp2, hamod]; exact hj
  have hrange : ∀ b e, 0 ≤ powm b e pn ∧ powm b e pn < (pn : Int) := by
    intro b e; have := powm_range b e pn hpI; simpa using this
  have hne : ¬ (a % (pn : Int) = 0 ∨ (pn : Int) = 2) := by
    rintro (h0 | h2)
    · have : (a : F) = 0 := by rw [← hamod, h0]; simp
      rw [this, zero_pow (by omega)] at hj; exact zero_ne_one hj
    · exact pn_int_ne_two pn hp2 h2
  simp only [ibzSqrtModP, hne, hj1, ne_eq, not_true_eq_false, if_false]
  by_cases h4 : (pn : Int) % 4 = 3
  · -- p ≡ 3 (mod 4)
    simp only [h4, if_true]
    refine ⟨_, rfl, (hrange _ _).1, (hrange _ _).2, ?_⟩
    rw [powm_cast pn hp0, hamod, ← pow_mul]
    have e1 : (((pn : Int) + 1) / 4).toNat * 2 = pn / 2 + 1 := by omega
    rw [e1, pow_succ, hj, one_mul]
  · simp only [h4, if_false]
    by_cases h8 : (pn : Int) % 8 = 5
    · -- p ≡ 5 (mod 8)
      simp only [h8, if_true]
      have ht : ((powm (a % (pn : Int)) (((pn : Int) - 1) / 4).toNat pn : Int) : F) = (a : F) ^ ((pn - 1) / 4) := by
        rw [powm_cast pn hp0, hamod]; congr 1; omega
      have htsq : ((a : F) ^ ((pn - 1) / 4)) ^ 2 = 1 := by
        rw [← pow_mul]; have : (pn - 1) / 4 * 2 = pn / 2 := by omega
        rw [this]; exact hj
      have hone : powm (a % (pn : Int)) (((pn : Int) - 1) / 4).toNat pn = 1 ↔ (a : F) ^ ((pn - 1) / 4) = 1 := by
        rw [← ht]
        have := residue_eq_iff pn (powm (a % (pn : Int)) (((pn : Int) - 1) / 4).toNat pn) 1 (hrange _ _) ⟨by omega, by omega⟩
        simp only [Int.cast_one] at this; exact this.symm
      by_cases ht1 : powm (a % (pn : Int)) (((pn : Int) - 1) / 4).toNat pn = 1
      · simp only [ht1, if_true]
        refine ⟨_, rfl, (hrange _ _).1, (hrange _ _).2, ?_⟩
        rw [powm_cast pn hp0, hamod, ← pow_mul]
        have e1 : (((pn : Int) + 3) / 8).toNat * 2 = (pn - 1) / 4 + 1 := by omega
        rw [e1, pow_succ, hone.mp ht1, one_mul]
      · simp only [ht1, if_false]
        have htm : (a : F) ^ ((pn - 1) / 4) = -1 := by
          have hne : (a : F) ^ ((pn - 1) / 4) ≠ 1 := fun h => ht1 (hone.mpr h)
          have : ((a : F) ^ ((pn - 1) / 4) - 1) * ((a : F) ^ ((pn - 1) / 4) + 1) = 0 := by linear_combination htsq
          rcases mul_eq_zero.mp this with h | h
          · exact absurd (sub_eq_zero.mp h) hne
          · exact eq_neg_of_add_eq_zero_left h
        refine ⟨_, rfl, Int.emod_nonneg _ hpI, Int.emod_lt_of_pos _ hpos, ?_⟩
        rw [emod_cast]; push_cast
        rw [powm_cast pn hp0]; push_cast
        try rw [hamod]
        have h2 := two_pow_half pn hp2 (by omega)
        have e5 : (((pn : Int) - 5) / 8).toNat * 2 + 1 = (pn - 1) / 4 := by omega
        have e6 : (pn - 1) / 4 * 2 = pn / 2 := by omega
        have key : (4 * (a : F)) ^ ((pn - 1) / 4) = 1 := by
          rw [mul_pow, htm]
          have : (4 : F) = 2 ^ 2 := by norm_num
          rw [this, ← pow_mul, Nat.mul_comm, e6, h2]; ring
        have : (2 * (a : F) * (4 * (a : F)) ^ (((pn : Int) - 5) / 8).toNat) ^ 2
            = (a : F) * (4 * (a : F)) ^ ((((pn : Int) - 5) / 8).toNat * 2 + 1) := by
          generalize (((pn : Int) - 5) / 8).toNat = k
          rw [pow_succ ((4 : F) * (a : F)) (k * 2), pow_mul]; ring
        rw [this, e5, key, mul_one]
    · -- p ≡ 1 (mod 8): Tonelli–Shanks
      simp only [h8, if_false]
      have hq0 : ((pn : Int) - 1).toNat = pn - 1 := by omega
      rw [hq0]
      have hq0ne : pn - 1 ≠ 0 := by omega
      simp only [hq0ne, if_false]
      have hts := trailingZeros_spec (pn - 1) (pn - 1) (by omega) (le_refl _)
      obtain ⟨qnr, hq⟩ := exists_qnr pn hp2
      have hjq := (jacobiP_eq_neg_one_iff pn hp2 qnr).mp (findQnr_sound _ _ _ _ hq)
      rw [hq]
      simp only
      generalize trailingZeros (pn - 1) (pn - 1) = e at hts ⊢
      generalize hqd : (pn - 1) / 2 ^ e = q at hts ⊢
      have he2 : 2 ≤ e := by
        rcases e with _ | _ | e
        · simp at hts; omega
        · simp at hts; omega
        · omega
      have hlt : ¬ e < 2 := by omega
      simp only [hlt, if_false]
      obtain ⟨m, rfl⟩ : ∃ m, e = m + 2 := ⟨e - 2, by omega⟩
      have hhalf : pn / 2 = q * 2 ^ (m + 1) := by
        have h1 : pn - 1 = q * 2 ^ m * 4 := by rw [hts.1]; ring
        have h2 : q * 2 ^ (m + 1) = q * 2 ^ m * 2 := by ring
        rw [h2]; omega
      refine ⟨_, rfl, (tsLoop_range pn _ _ _ _ _ (hrange _ _)).1, (tsLoop_range pn _ _ _ _ _ (hrange _ _)).2, ?_⟩
      apply tsLoop_spec pn hp2 (a : F)
      · rw [powm_cast pn hp0, powm_cast pn hp0, hamod, ← pow_mul]
        have : (q + 1) / 2 * 2 = q + 1 := by omega
        rw [this, pow_succ, mul_comm]
      · intro h; omega
      · intro m' hm'
        have : m' = m + 1 := by omega
        subst this
        rw [powm_cast pn hp0, powm_cast pn hp0, hamod, ← pow_mul, ← pow_mul, ← hhalf]
        exact ⟨hj, hjq⟩
      · intro m' hm'
        have : m' = m := by omega
        subst this; simp
      · intro h; omega

/-- a ≡ 0 (mod p): the root 0 is returned (any prime) -/
theorem sqrtModP_zero (a : Int) (h0 : (a : F) = 0) : ibzSqrtModP a pn = .ok 0 := by
  have : a % (pn : Int) = 0 := Int.emod_eq_zero_of_dvd ((ZMod.intCast_zmod_eq_zero_iff_dvd a pn).mp h0)
  simp [ibzSqrtModP, this]

/-- odd prime, a ≢ 0, Legendre test failed: the routine reports failure -/
theorem sqrtModP_fail_of_jacobi (hp2 : pn ≠ 2) (a : Int) (h0 : (a : F) ≠ 0) (hj : (a : F) ^ (pn / 2) ≠ 1) :
    ibzSqrtModP a pn = .fail := by
  have hamod : ((a % (pn : Int) : Int) : F) = (a : F) := emod_cast pn a
  have hj1 : jacobiP (a % (pn : Int)) pn ≠ 1 := by rw [ne_eq, jacobiP_eq_one_iff pn hp2, hamod]; exact hj
  have hne : ¬ (a % (pn : Int) = 0 ∨ (pn : Int) = 2) := by
    rintro (h | h2)
    · apply h0; rw [← hamod, h]; simp
    · exact pn_int_ne_two pn hp2 h2
  simp only [ibzSqrtModP, hne, hj1, ne_eq, not_false_eq_true, if_true, if_false]

end
end SqiProofs.C17

/- C17 tie T: the definitions GENERATED from intbig.c (SqiGen.Intbig, regenerated on every check run) are equal to the
   hand models of SqiModel.Intbig, so every theorem of SqiProps.C17 is a theorem about the translated code.
   An edit of the C text changes the generated definition and breaks the corresponding equation below. -/
import Mathlib.Tactic.Ring
import SqiGen.Intbig
import SqiModel.Intbig
import SqiProofs.C17.Conv
import SqiProofs.C17.Rand
namespace SqiProofs.C17
open SqiModel.Intbig SqiModel.CProg SqiModel.NumberTheory

/-! ### small routines -/
theorem gen_ibz_div (q r a b : Int) : SqiGen.Intbig.ibz_div q r a b = ibzDiv a b := rfl
theorem gen_ibz_div_2exp (q a : Int) (e : Nat) : SqiGen.Intbig.ibz_div_2exp q a e = ibzDiv2exp a e := by
  show a.tdiv (2 ^ ((e : Int)).toNat) = a.tdiv (2 ^ e)
  rw [Int.toNat_natCast]
theorem gen_ibz_xgcd (g u v a b : Int) : SqiGen.Intbig.ibz_xgcd g u v a b = ibzXgcd a b := rfl
theorem gen_ibz_mod (r a b : Int) : SqiGen.Intbig.ibz_mod r a b = ibzMod a b := rfl
theorem gen_ibz_div_floor (q r n d : Int) : SqiGen.Intbig.ibz_div_floor q r n d = ibzDivFloor n d := rfl
theorem gen_ibz_crt (crt a b ma mb : Int) : SqiGen.Intbig.ibz_crt crt a b ma mb = ibzCrt a b ma mb := by
  unfold SqiGen.Intbig.ibz_crt ibzCrt
  simp only [mpz_gcdext, mpz_mul, mpz_add, mpz_mod]
theorem gen_ibz_two_adic (a : Int) : SqiGen.Intbig.ibz_two_adic a = (ibzTwoAdic a : Nat) := by
  unfold SqiGen.Intbig.ibz_two_adic ibzTwoAdic
  simp only [mpz_sgn, mpz_scan1, Int.sign_eq_zero_iff_zero]
  split <;> simp

/-! ### loop lemmas -/

/-- `while (mpz_tstbit(q, e) == 0) e++` computes the number of trailing zeros -/
theorem while_tstbit (Q : Nat) : ∀ (n k : Nat), Q / 2 ^ k ≠ 0 → Q / 2 ^ k < 2 ^ n →
    whileFuel (fun e : Int => decide (mpz_tstbit (Q : Int) e = 0)) (fun e => e + 1) n (k : Int)
      = some (((k + trailingZeros n (Q / 2 ^ k) : Nat)) : Int) := by
  intro n
  induction n with
  | zero => intro k h0 h1; rw [Nat.pow_zero] at h1; exact absurd (Nat.lt_one_iff.mp h1) h0
  | succ n ih =>
    intro k h0 h1
    have hbit : mpz_tstbit (Q : Int) (k : Int) = ((Q / 2 ^ k % 2 : Nat) : Int) := by
      simp only [mpz_tstbit, Int.toNat_natCast]
      norm_cast
    unfold whileFuel
    rw [hbit]
    by_cases hodd : Q / 2 ^ k % 2 = 1
    · have ht : trailingZeros (n + 1) (Q / 2 ^ k) = 0 := by rw [trailingZeros]; simp [hodd]
      simp [hodd, ht]
    · have hev : Q / 2 ^ k % 2 = 0 := by omega
      have ht : trailingZeros (n + 1) (Q / 2 ^ k) = trailingZeros n (Q / 2 ^ k / 2) + 1 := by
        rw [trailingZeros]; simp [hodd]
      simp only [hev, Nat.cast_zero, decide_true, if_true]
      have hk : ((k : Int) + 1) = ((k + 1 : Nat) : Int) := by push_cast; ring
      have hdiv : Q / 2 ^ (k + 1) = Q / 2 ^ k / 2 := by rw [Nat.pow_succ, Nat.div_div_eq_div_mul]
      rw [hk, ih (k + 1) (by rw [hdiv]; omega) (by rw [hdiv]; rw [Nat.pow_succ] at h1; omega), hdiv, ht]
      congr 2; omega

/-- `while (mpz_legendre(qnr, p) != -1) qnr++` is the non-residue search of the hand model -/
theorem while_qnr (p : Int) : ∀ (n : Nat) (q : Int),
    whileFuel (fun qnr : Int => decide (mpz_legendre qnr p ≠ -1)) (fun qnr => mpz_add_ui qnr 1) n q = findQnr p (n + 1) q := by
  intro n
  induction n with
  | zero =>
    intro q
    by_cases h : mpz_legendre q p = -1
    · have h' : jacobiP q p = -1 := h
      simp [whileFuel, findQnr, h, h']
    · have h' : ¬ jacobiP q p = -1 := h
      simp [whileFuel, findQnr, h, h']
  | succ n ih =>
    intro q
    by_cases h : mpz_legendre q p = -1
    · have h' : jacobiP q p = -1 := h
      rw [whileFuel, findQnr]; simp [h, h']
    · have h' : ¬ jacobiP q p = -1 := h
      rw [whileFuel, findQnr]
      simp only [ne_eq, h, not_false_eq_true, decide_true, if_true, h', if_false]
      exact ih _

theorem sign_sub_eq_zero (a b : Int) : (a - b).sign = 0 ↔ a = b := by
  rw [Int.sign_eq_zero_iff_zero]; omega

/-- body of the translated Tonelli–Shanks `for` loop (state b, x, y, z, exp) -/
def tsBody (p : Int) (st : Int × Int × Int × Int × Int) : Int × Int × Int × Int × Int :=
  let b := mpz_powm st.2.2.1 st.2.2.2.2 p
  let xy : Int × Int :=
    if mpz_cmp b (mpz_sub_ui p 1) = 0 then
      (mpz_mod (mpz_mul st.2.1 st.2.2.2.1) p, mpz_mod (mpz_mul (mpz_mul st.2.2.1 st.2.2.2.1) st.2.2.2.1) p)
    else (st.2.1, st.2.2.1)
  (b, xy.1, xy.2, mpz_powm_ui st.2.2.2.1 2 p, mpz_fdiv_q_2exp st.2.2.2.2 1)

theorem tsBody_step (p b x y z : Int) (k : Nat) :
    tsBody p (b, x, y, z, (k : Int)) =
      (powm y k p, (if powm y k p = p - 1 then x * z % p else x), (if powm y k p = p - 1 then y * z * z % p else y),
        powm z 2 p, ((k / 2 : Nat) : Int)) := by
  have h2 : (2 : Int).toNat = 2 := rfl
  have hk : ((k : Int) / 2 ^ (1 : Int).toNat) = ((k / 2 : Nat) : Int) := by
    have : (1 : Int).toNat = 1 := rfl
    rw [this]; norm_cast
  simp only [tsBody, mpz_powm, mpz_cmp, mpz_sub_ui, sign_sub_eq_zero, Int.toNat_natCast, mpz_mod, mpz_mul, mpz_powm_ui,
    mpz_fdiv_q_2exp, h2, hk]
  by_cases hb : powm y k p = p - 1 <;> simp [hb]

/-- the translated Tonelli–Shanks `for` loop is `tsLoop` -/
theorem for_ts (p : Int) : ∀ (n : Nat) (b x y z : Int) (k : Nat),
    (forN (tsBody p) n (b, x, y, z, (k : Int))).2.1 = tsLoop p n x y z k := by
  intro n
  induction n with
  | zero => intro b x y z k; rfl
  | succ n ih =>
    intro b x y z k
    unfold forN tsLoop
    rw [tsBody_step]
    by_cases hb : powm y k p = p - 1
    · simp only [hb, if_true]; exact ih _ _ _ _ _
    · simp only [hb, if_false]; exact ih _ _ _ _ _

/-- `for_ts` for any loop body that performs the Tonelli–Shanks step (robust to the syntactic form of the generated lambda) -/
theorem for_ts' (p : Int) (f : Int × Int × Int × Int × Int → Int × Int × Int × Int × Int)
    (hf : ∀ (b x y z : Int) (k : Nat), f (b, x, y, z, (k : Int)) =
      (powm y k p, (if powm y k p = p - 1 then x * z % p else x), (if powm y k p = p - 1 then y * z * z % p else y),
        powm z 2 p, ((k / 2 : Nat) : Int))) :
    ∀ (n : Nat) (b x y z : Int) (k : Nat), (forN f n (b, x, y, z, (k : Int))).2.1 = tsLoop p n x y z k := by
  intro n
  induction n with
  | zero => intro b x y z k; rfl
  | succ n ih =>
    intro b x y z k
    unfold forN tsLoop
    rw [hf]
    by_cases hb : powm y k p = p - 1
    · simp only [hb, if_true]; exact ih _ _ _ _ _
    · simp only [hb, if_false]; exact ih _ _ _ _ _

theorem amod_fix (a p : Int) :
    (if mpz_cmp_ui (mpz_mod a p) 0 < 0 then mpz_add p (mpz_mod a p) else mpz_mod a p) = a % p := by
  show (if (a % p - 0).sign < 0 then p + a % p else a % p) = a % p
  split
  · rename_i h
    have : a % p < 0 := by
      rcases Int.lt_trichotomy (a % p - 0) 0 with h1 | h1 | h1
      · omega
      · rw [h1] at h; simp at h
      · rw [Int.sign_eq_one_of_pos h1] at h; omega
    by_cases hp : p = 0
    · subst hp; simp
    · have := Int.emod_nonneg a hp; omega
  · rfl

theorem fdiv2exp_lit (x : Int) : mpz_fdiv_q_2exp x 1 = x / 2 ∧ mpz_fdiv_q_2exp x 2 = x / 4 ∧ mpz_fdiv_q_2exp x 3 = x / 8 := by
  refine ⟨?_, ?_, ?_⟩ <;> simp only [mpz_fdiv_q_2exp] <;> rfl

/-- TIE T for `ibz_sqrt_mod_p` (all three branches, the two `while` loops, the Tonelli–Shanks `for` loop, the a ≡ 0 / p = 2
    early exit): the definition generated from intbig.c equals the hand model, for every a and every modulus p > 0 -/
theorem gen_ibz_sqrt_mod_p (sqrt a p : Int) (hp : 0 < p) : SqiGen.Intbig.ibz_sqrt_mod_p sqrt a p = ibzSqrtModP a p := by
  unfold SqiGen.Intbig.ibz_sqrt_mod_p ibzSqrtModP
  simp only [amod_fix]
  simp only [mpz_mod, mpz_cmp_ui, mpz_add, mpz_set, sign_sub_eq_zero, mpz_jacobi, finish, mpz_mod_ui, mpz_sub_ui,
    mpz_add_ui, mpz_set_ui]
  by_cases h1 : a % p = 0 ∨ p = 2
  · simp [h1]
  · simp only [h1, if_false]
    by_cases hj : jacobiP (a % p) p ≠ 1
    · simp [hj]
    · simp only [hj, if_false]
      by_cases h4 : p % 4 = 3
      · simp only [h4, if_true, mpz_powm, (fdiv2exp_lit _).2.1]; simp
      · simp only [h4, if_false]
        by_cases h8 : p % 8 = 5
        · simp only [h8, if_true, mpz_powm, (fdiv2exp_lit _).2.1, (fdiv2exp_lit _).2.2, mpz_mul, mpz_mul_2exp_lit]
          by_cases ht : powm (a % p) ((p - 1) / 4).toNat p = 1
          · simp [ht]
          · simp only [ht, if_false, one_ne_zero]
            have e1 : a % p * 2 ^ 2 = 4 * (a % p) := by ring
            have e2 : a % p * 2 ^ 1 = 2 * (a % p) := by ring
            rw [e1, e2]
        · simp only [h8, if_false]
          -- Tonelli–Shanks branch
          obtain ⟨Q, hQ⟩ : ∃ Q : Nat, p - 1 = (Q : Int) := ⟨(p - 1).toNat, by omega⟩
          have hQn : (p - 1).toNat = Q := by omega
          simp only [hQ, Int.toNat_natCast]
          by_cases hQ0 : Q = 0
          · subst hQ0
            simp [whileFuel, mpz_tstbit]
          · simp only [hQ0, if_false]
            have hw := while_tstbit Q Q 0 (by simpa using hQ0) (by simpa using Nat.lt_two_pow_self)
            simp only [Nat.pow_zero, Nat.div_one, Nat.zero_add, Nat.cast_zero] at hw
            rw [hw]
            simp only
            have hq := while_qnr p (p.toNat - 1) 0
            have hpn : p.toNat - 1 + 1 = p.toNat := by omega
            rw [hpn] at hq
            rw [hq]
            cases hf : findQnr p p.toNat 0 with
            | none => rfl
            | some qnr =>
              simp only
              set t := trailingZeros Q Q with ht
              by_cases ht2 : t < 2
              · have : ((t : Int) - 2 < 0) := by omega
                simp [mpz_mul_2exp, this, ht2]
              · have hnn : ¬ ((t : Int) - 2 < 0) := by omega
                have hexp : (1 : Int) * 2 ^ ((t : Int) - 2).toNat = ((2 ^ (t - 2) : Nat) : Int) := by
                  have : ((t : Int) - 2).toNat = t - 2 := by omega
                  rw [this]; push_cast; ring
                simp only [mpz_mul_2exp, hnn, if_false, ht2, hexp, one_ne_zero]
                congr 1
                rw [for_ts' p]
                · simp only [Int.toNat_natCast, mpz_powm, mpz_fdiv_q_2exp]
                  have e1 : ((Q : Int) / 2 ^ t).toNat = Q / 2 ^ t := by norm_cast
                  have e2 : (((Q : Int) / 2 ^ t + 1) / 2 ^ (1 : Int).toNat).toNat = (Q / 2 ^ t + 1) / 2 := by
                    have : (1 : Int).toNat = 1 := rfl
                    rw [this]; norm_cast
                  rw [e1, e2]
                · intro b x y z k
                  have h2 : (2 : Int).toNat = 2 := rfl
                  have hk : ((k : Int) / 2 ^ (1 : Int).toNat) = ((k / 2 : Nat) : Int) := by
                    have : (1 : Int).toNat = 1 := rfl
                    rw [this]; norm_cast
                  simp only [mpz_powm, mpz_cmp, sign_sub_eq_zero, Int.toNat_natCast, mpz_mul, mpz_powm_ui,
                    mpz_fdiv_q_2exp, h2, hk]
                  by_cases hb : powm y k p = p - 1 <;> simp [hb, hQ] <;> simp [← hQ, hb]

/-- TIE T for `ibz_sqrt_mod_2p` (incl. the p = 2 guard of the repaired code) -/
theorem gen_ibz_sqrt_mod_2p (sqrt a p : Int) (hp : 0 < p) : SqiGen.Intbig.ibz_sqrt_mod_2p sqrt a p = ibzSqrtMod2P a p := by
  unfold SqiGen.Intbig.ibz_sqrt_mod_2p ibzSqrtMod2P
  simp only []
  rw [gen_ibz_sqrt_mod_p 0 a p hp]
  cases h : ibzSqrtModP a p with
  | ub => rfl
  | fail => simp [finish]
  | ok r =>
    simp only [finish, mpz_cmp_ui, sign_sub_eq_zero, mpz_fdiv_ui, mpz_tstbit, mpz_add, mpz_set]
    by_cases hg : p = 2 ∧ a % 4 ≥ 2
    · simp [hg]
    · have e0 : (0 : Int).toNat = 0 := rfl
      by_cases hpar : a % 2 ≠ r % 2
      · simp [hg, hpar, e0]
      · simp [hg, hpar, e0]

/-! ### ibz_rand_interval -/

/-- the rejection `do … while (1)` loop of the translated code is `randLoop` (any body performing the step below) -/
theorem doLoop_rand (bmina : Int) (L ll mask : Nat) (hL : 1 ≤ L)
    (f : Int × Int × List Nat × Int × Int → Step (Int × Int × List Nat × Int × Int) (Res (Int × List Nat)))
    (hf : ∀ (randret r : Int) (s : List Nat) (tmp : Int), f (randret, r, s, 1, tmp) =
      if s.length < L then Step.exit Res.fail
      else
        let v := fromBytesLE (s.take L)
        let t : Nat := v % 2 ^ (64 * (ll - 1)) + (v / 2 ^ (64 * (ll - 1)) % 2 ^ 64 &&& mask) * 2 ^ (64 * (ll - 1))
        if (t : Int) ≤ bmina then Step.stop (0, (t : Int), s.drop L, 1, (t : Int))
        else Step.next (0, (t : Int), s.drop L, 1, (t : Int))) :
    ∀ (n : Nat) (randret r : Int) (s : List Nat) (tmp : Int), s.length + 1 ≤ n →
      doLoop f n (randret, r, s, 1, tmp) =
        match randLoop bmina L ll mask n s with
        | .ok (t, rest) => some (Sum.inl (0, t, rest, 1, t))
        | .fail => some (Sum.inr Res.fail)
        | .ub => none := by
  intro n
  induction n with
  | zero => intro _ _ s _ h; omega
  | succ n ih =>
    intro randret r s tmp hn
    unfold doLoop randLoop
    rw [hf]
    by_cases hlen : s.length < L
    · simp [hlen]
    · simp only [hlen, if_false]
      by_cases hle : ((fromBytesLE (s.take L) % 2 ^ (64 * (ll - 1)) +
          (fromBytesLE (s.take L) / 2 ^ (64 * (ll - 1)) % 2 ^ 64 &&& mask) * 2 ^ (64 * (ll - 1)) : Nat) : Int) ≤ bmina
      · simp only [hle, if_true]
      · simp only [hle, if_false]
        apply ih
        rw [List.length_drop]; omega

/-- TIE T for `ibz_rand_interval` (mask computation and rejection loop) -/
theorem gen_ibz_rand_interval (rand a b : Int) (stream : List Nat) :
    SqiGen.Intbig.ibz_rand_interval rand a b stream = ibzRandInterval a b stream := by
  unfold SqiGen.Intbig.ibz_rand_interval ibzRandInterval ibzRandIntervalWith
  simp only []
  -- parameters
  set L := sizeInBase2 (b - a) with hLdef
  have hL1 : 1 ≤ L := by rw [hLdef]; unfold sizeInBase2; split <;> omega
  have hP : randParams a b = { lenBits := L, lenBytes := (L + 7) / 8, lenLimbs := ((L + 7) / 8 + 8 - 1) / 8, shift := 64 - L % 64 } := rfl
  rw [hP]
  simp only []
  have hbits : mpz_sizeinbase (mpz_sub b a) 2 = (L : Int) := by simp [mpz_sizeinbase, hLdef]
  rw [hbits]
  have hshift : ((8 : Int) * 8 - (L : Int) % (8 * 8)) % (8 * 8) = (((64 - L % 64) % 64 : Nat) : Int) := by omega
  have hmask : ulShr (ulOfInt (-1)) (((8 : Int) * 8 - (L : Int) % (8 * 8)) % (8 * 8))
      = some (((2 ^ 64 - 1) / 2 ^ ((64 - L % 64) % 64) : Nat) : Int) := by
    rw [hshift]
    have hk : (64 - L % 64) % 64 < 64 := Nat.mod_lt _ (by decide)
    simp only [ulShr]
    rw [if_pos (by omega)]
    congr 1
  rw [hmask]
  simp only []
  have hbytes : (((L : Int) + 7) / 8).toNat = (L + 7) / 8 := by omega
  have hlimbs : ((((L : Int) + 7) / 8 + 8 - 1) / 8 - 1).toNat = ((L + 7) / 8 + 8 - 1) / 8 - 1 := by omega
  rw [doLoop_rand (b - a) ((L + 7) / 8) (((L + 7) / 8 + 8 - 1) / 8) ((2 ^ 64 - 1) / 2 ^ ((64 - L % 64) % 64)) (by omega)]
  · cases hr : randLoop (b - a) ((L + 7) / 8) (((L + 7) / 8 + 8 - 1) / 8) ((2 ^ 64 - 1) / 2 ^ ((64 - L % 64) % 64))
        (stream.length + 1) stream with
    | ok v => obtain ⟨t, rest⟩ := v; simp [finish, mpz_add]
    | fail => rfl
    | ub => exact absurd hr (randLoop_ne_ub _ _ _ _ _ _)
  · intro randret r s tmp
    simp only [randombytes, hbytes]
    by_cases hlen : s.length < (L + 7) / 8
    · simp [hlen, finish]
    · simp only [hlen, if_false, maskTopLimb, hlimbs, Int.toNat_natCast, mpz_cmp, mpz_sub]
      simp only [show ((0 : Int) ≠ 0) = False by simp, if_false]
      have hsign : ∀ x y : Int, (x - y).sign ≤ 0 ↔ x ≤ y := by
        intro x y
        rcases Int.lt_trichotomy (x - y) 0 with h | h | h
        · rw [Int.sign_eq_neg_one_of_neg h]; omega
        · rw [h]; simp; omega
        · rw [Int.sign_eq_one_of_pos h]; omega
      simp only [hsign]
  · omega

/-! ### ibz_cornacchia_prime -/

theorem cornLoop_ne_fail (bound : Int) : ∀ (n : Nat) (r2 r1 : Int), cornLoop bound n r2 r1 ≠ .fail := by
  intro n
  induction n with
  | zero => intro r2 r1; simp [cornLoop]
  | succ n ih =>
    intro r2 r1
    unfold cornLoop
    split
    · simp
    · simp only; split
      · exact ih _ _
      · simp

theorem ibzSqrt_ne_ub (a : Int) : ibzSqrt a ≠ .ub := by
  unfold ibzSqrt; split
  · simp
  · simp only; split <;> simp

theorem sign_nonneg_iff (x y : Int) : (x - y).sign ≥ 0 ↔ y ≤ x := by
  rcases Int.lt_trichotomy (x - y) 0 with h | h | h
  · rw [Int.sign_eq_neg_one_of_neg h]; omega
  · rw [h]; simp; omega
  · rw [Int.sign_eq_one_of_pos h]; omega

/-- the Euclidean `while` loop of the translated code is `cornLoop` (projection on r0, prod) -/
theorem while_corn (p : Int)
    (f : Int × Int × Int × Int × Int → Option (Int × Int × Int × Int × Int))
    (hf : ∀ a r0 prod r2 r1, f (a, r0, prod, r2, r1) =
      if r1 = 0 then none else some (r2.tdiv r1, r2.tmod r1, r2.tmod r1 * r2.tmod r1, r1, r2.tmod r1)) :
    ∀ (n : Nat) (a r0 prod r2 r1 : Int), p ≤ prod →
      (whileFuelO (fun st : Int × Int × Int × Int × Int => decide ((st.2.2.1 - p).sign ≥ 0)) f n (a, r0, prod, r2, r1)).map
          (fun st => (st.2.1, st.2.2.1))
        = match cornLoop p n r2 r1 with
          | .ok v => some v
          | _ => none := by
  intro n
  induction n with
  | zero =>
    intro a r0 prod r2 r1 h
    have : (prod - p).sign ≥ 0 := (sign_nonneg_iff prod p).mpr h
    simp [whileFuelO, cornLoop, this]
  | succ n ih =>
    intro a r0 prod r2 r1 h
    have hc : (prod - p).sign ≥ 0 := (sign_nonneg_iff prod p).mpr h
    unfold whileFuelO cornLoop
    simp only [hc, decide_true, if_true, hf]
    by_cases h0 : r1 = 0
    · simp [h0]
    · simp only [h0, if_false]
      by_cases hge : r2.tmod r1 * r2.tmod r1 ≥ p
      · simp only [hge, if_true]
        exact ih _ _ _ _ _ hge
      · simp only [hge, if_false]
        cases n with
        | zero =>
          have : ¬ ((r2.tmod r1 * r2.tmod r1 - p).sign ≥ 0) := fun h' => hge ((sign_nonneg_iff _ _).mp h')
          simp [whileFuelO, this]
        | succ m =>
          have : ¬ ((r2.tmod r1 * r2.tmod r1 - p).sign ≥ 0) := fun h' => hge ((sign_nonneg_iff _ _).mp h')
          simp [whileFuelO, this]

/-- TIE T for `ibz_cornacchia_prime` (p = 2 branch, call of ibz_sqrt_mod_p, Euclidean `while` loop, exact-division /
    perfect-square / final re-check with the short-circuit `res = res && …` chain), for p > 0 and n ≠ 0 -/
theorem gen_ibz_cornacchia_prime (x y n p : Int) (hp : 0 < p) (hn : n ≠ 0) :
    SqiGen.Intbig.ibz_cornacchia_prime x y n p = ibzCornacchiaPrime n p := by
  unfold SqiGen.Intbig.ibz_cornacchia_prime ibzCornacchiaPrime
  simp only [sign_sub_eq_zero, finish]
  by_cases h2 : p = 2
  · subst h2; by_cases h1 : n = 1 <;> simp [h1]
  · simp only [h2, if_false]
    rw [gen_ibz_sqrt_mod_p _ _ _ hp]
    have hne : prim_ibz_cmp p (prim_ibz_set 2) ≠ 0 := by
      show (p - 2).sign ≠ 0
      rw [ne_eq, sign_sub_eq_zero]; exact h2
    simp only [hne, ne_eq, not_false_eq_true, if_true, one_ne_zero]
    have h00 : prim_ibz_sub (prim_ibz_set 0) n = 0 - n := rfl
    rw [h00]
    cases hs : ibzSqrtModP (0 - n) p with
    | ub => rfl
    | fail => simp
    | ok v =>
      simp only
      let f : Int × Int × Int × Int × Int → Option (Int × Int × Int × Int × Int) := fun x =>
        match prim_ibz_div x.2.2.2.1 x.2.2.2.2 with
        | none => none
        | some (a, r0) => some (a, r0, prim_ibz_mul r0 r0, prim_ibz_copy x.2.2.2.2, prim_ibz_copy r0)
      have hstep : ∀ a r0 prod r2 r1 : Int, f (a, r0, prod, r2, r1)
          = if r1 = 0 then none else some (r2.tdiv r1, r2.tmod r1, r2.tmod r1 * r2.tmod r1, r1, r2.tmod r1) := by
        intro a r0 prod r2 r1
        by_cases h0 : r1 = 0 <;> simp [f, h0, prim_ibz_div]
      have hw := while_corn p f hstep (p.natAbs + 2) 0 0 p v p (le_refl _)
      cases hc : cornLoop p (p.natAbs + 2) v p with
      | fail => exact absurd hc (cornLoop_ne_fail _ _ _ _)
      | ub =>
        rw [hc] at hw
        cases hwl : whileFuelO (fun x : Int × Int × Int × Int × Int => decide (prim_ibz_cmp x.2.2.1 p ≥ 0)) f (p.natAbs + 2)
            (0, 0, prim_ibz_copy p, v, prim_ibz_copy p) with
        | none => rfl
        | some st =>
          exfalso
          have : (whileFuelO (fun st : Int × Int × Int × Int × Int => decide ((st.2.2.1 - p).sign ≥ 0)) f (p.natAbs + 2)
              (0, 0, p, v, p)) = some st := hwl
          rw [this] at hw; simp at hw
      | ok rp =>
        obtain ⟨r0', prod'⟩ := rp
        rw [hc] at hw
        cases hwl : whileFuelO (fun x : Int × Int × Int × Int × Int => decide (prim_ibz_cmp x.2.2.1 p ≥ 0)) f (p.natAbs + 2)
            (0, 0, prim_ibz_copy p, v, prim_ibz_copy p) with
        | none =>
          exfalso
          have : (whileFuelO (fun st : Int × Int × Int × Int × Int => decide ((st.2.2.1 - p).sign ≥ 0)) f (p.natAbs + 2)
              (0, 0, p, v, p)) = none := hwl
          rw [this] at hw; simp at hw
        | some st =>
          have hst : (whileFuelO (fun st : Int × Int × Int × Int × Int => decide ((st.2.2.1 - p).sign ≥ 0)) f (p.natAbs + 2)
              (0, 0, p, v, p)) = some st := hwl
          rw [hst] at hw
          simp only [Option.map_some, Option.some.injEq, Prod.mk.injEq] at hw
          obtain ⟨a', r0'', prod'', r2', r1'⟩ := st
          simp only at hw
          obtain ⟨rfl, rfl⟩ := hw
          simp only [prim_ibz_div, hn, if_false, prim_ibz_sub, prim_ibz_is_zero, prim_ibz_sqrt, prim_ibz_copy, prim_ibz_mul, prim_ibz_add, prim_ibz_cmp, cornFinish]
          by_cases hr : (p - prod'').tmod n = 0
          · simp only [hr, if_true, one_ne_zero, ne_eq, not_false_eq_true, not_true_eq_false, if_false]
            cases hq : ibzSqrt ((p - prod'').tdiv n) with
            | ub => exact absurd hq (ibzSqrt_ne_ub _)
            | fail => simp
            | ok yv =>
              simp only [one_ne_zero, ne_eq, not_false_eq_true, if_true]
              have hsg : (0 = (prod'' + yv * yv * n - p).sign) ↔ prod'' + yv * yv * n = p := by
                rw [eq_comm, sign_sub_eq_zero]
              by_cases hchk : prod'' + yv * yv * n = p
              · simp [hsg, hchk]
              · simp [hsg, hchk]
          · simp [hr]

end SqiProofs.C17

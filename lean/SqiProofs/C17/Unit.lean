/- C17 lemmas: `unit` of matkermod.c (Stabilizer/Split step of the Howell form): for every modulus N > 0 and every
   x ≠ 0 the returned u is a unit modulo N and u·x ≡ gcd(x, N) (mod N). -/
import Mathlib.Tactic.Ring
import Mathlib.Tactic.LinearCombination
import Mathlib.Data.Nat.Factorization.Basic
import Mathlib.Data.Int.GCD
import Mathlib.Data.Int.ModEq
import Mathlib.Data.Int.Basic
import Mathlib.RingTheory.Coprime.Lemmas
import SqiModel.HowellUnit
import SqiProofs.C17.Gcd
namespace SqiProofs.C17
open SqiModel.Intbig SqiModel.Howell

/-- the "Split" fact: with K large, c = N / gcd(w^K, N) is the part of N coprime to w -/
theorem split_lemma (N w K : Nat) (hN : 0 < N) (hK : N < 2 ^ K) (q : Nat) (hq : q.Prime) (hqN : q ∣ N) :
    (q ∣ w → ¬ q ∣ N / Nat.gcd (w ^ K) N) ∧ (¬ q ∣ w → q ∣ N / Nat.gcd (w ^ K) N) := by
  have hdN : Nat.gcd (w ^ K) N ∣ N := Nat.gcd_dvd_right _ _
  have hdc : Nat.gcd (w ^ K) N * (N / Nat.gcd (w ^ K) N) = N := Nat.mul_div_cancel' hdN
  constructor
  · intro hqw hqc
    have hN0 : N ≠ 0 := by omega
    set f := N.factorization q with hf
    have h1 : q ^ f ∣ N := Nat.ordProj_dvd N q
    have hfK : f < K := by
      have h2 : 2 ^ f ≤ q ^ f := Nat.pow_le_pow_left hq.two_le f
      have h3 : q ^ f ≤ N := Nat.le_of_dvd hN h1
      have : 2 ^ f < 2 ^ K := by omega
      exact (Nat.pow_lt_pow_iff_right (by decide)).mp this
    have h4 : q ^ f ∣ w ^ K := (pow_dvd_pow q (le_of_lt hfK)).trans (pow_dvd_pow_of_dvd hqw K)
    have h5 : q ^ f ∣ Nat.gcd (w ^ K) N := Nat.dvd_gcd h4 h1
    have h6 : q ^ f * q ∣ Nat.gcd (w ^ K) N * (N / Nat.gcd (w ^ K) N) := Nat.mul_dvd_mul h5 hqc
    rw [hdc, ← pow_succ] at h6
    exact Nat.pow_succ_factorization_not_dvd hN0 hq h6
  · intro hqw
    have h1 : ¬ q ∣ Nat.gcd (w ^ K) N := fun h => hqw (hq.dvd_of_dvd_pow (h.trans (Nat.gcd_dvd_left _ _)))
    rw [← hdc] at hqN
    rcases (Nat.Prime.dvd_mul hq).mp hqN with h | h
    · exact absurd h h1
    · exact h

theorem sqIter_modEq (m : Int) : ∀ (k : Nat) (s : Int), sqIter m k s ≡ s ^ (2 ^ k) [ZMOD m] := by
  intro k
  induction k with
  | zero => intro s; simp [sqIter]
  | succ k ih =>
    intro s
    unfold sqIter
    have h1 := ih (ibzMod (s * s) m)
    have h2 : ibzMod (s * s) m ≡ s * s [ZMOD m] := Int.mod_modEq _ _
    have h3 : (ibzMod (s * s) m) ^ (2 ^ k) ≡ (s * s) ^ (2 ^ k) [ZMOD m] := Int.ModEq.pow _ h2
    have h4 : (s * s) ^ (2 ^ k) = s ^ (2 ^ (k + 1)) := by rw [← pow_two, ← pow_mul, pow_succ, mul_comm]
    rw [← h4]; exact h1.trans h3

theorem gcd_eq_of_modEq {a b N : Int} (h : a ≡ b [ZMOD N]) : Int.gcd a N = Int.gcd b N := by
  rw [← Int.gcd_emod a N, ← Int.gcd_emod b N, h]

theorem halvings_lt (b : Nat) : b < 2 ^ halvings b := by
  unfold halvings
  split
  · omega
  · exact Nat.lt_log2_self

/-- `unit` (matkermod.c): for N > 0 and x ≠ 0 the result u is reduced, invertible modulo N, and u·x ≡ gcd(x, N) -/
theorem unit_spec (x N : Int) (hN : 0 < N) (hx : x ≠ 0) :
    (unit x N).1 = true ∧ (unit x N).2.2 = (Int.gcd x N : Int) ∧
    0 ≤ (unit x N).2.1 ∧ (unit x N).2.1 < N ∧ Int.gcd (unit x N).2.1 N = 1 ∧
    ((unit x N).2.1 * x) % N = (Int.gcd x N : Int) % N := by
  have hN0 : N ≠ 0 := by omega
  obtain ⟨hg, hbez⟩ := gcdext_spec x N
  unfold unit
  simp only [hx, if_false, ibzXgcd, ibzDiv, ibzMod, gcdI]
  generalize gcdext x N = res at hg hbez
  obtain ⟨g, u0, v⟩ := res
  simp only at hg hbez ⊢
  have hgpos : 0 < g := by
    rw [hg]
    have : Int.gcd x N ≠ 0 := by rw [Ne, Int.gcd_eq_zero_iff]; omega
    omega
  have hgN : g ∣ N := by rw [hg]; exact Int.gcd_dvd_right x N
  have hgx : g ∣ x := by rw [hg]; exact Int.gcd_dvd_left x N
  obtain ⟨x', hx'⟩ := hgx
  have hnm : N.tdiv g * g = N := Int.tdiv_mul_cancel hgN
  set nmod := N.tdiv g with hnmod
  have hbez1 : x' * u0 + v * nmod = 1 := by
    have : g * (x' * u0 + v * nmod - 1) = 0 := by rw [hx'] at hbez; linear_combination hbez + v * hnm
    rcases Int.mul_eq_zero.mp this with h | h
    · omega
    · omega
  have hcop : Int.gcd u0 nmod = 1 := Int.isCoprime_iff_gcd_eq_one.mp ⟨x', v, hbez1⟩
  have hstab0 : (gcdext u0 nmod).1 = 1 := by rw [(gcdext_spec u0 nmod).1, hcop]; rfl
  simp only [hstab0, Int.tdiv_one]
  -- stab3 = gcd(u0^K, N)
  set k := halvings (sizeInBase2 N) with hk
  have hmod := sqIter_modEq N k u0
  have hgcd3 : (gcdext (sqIter N k u0) N).1 = (Nat.gcd (u0.natAbs ^ (2 ^ k)) N.natAbs : Int) := by
    rw [(gcdext_spec _ N).1]
    have h1 : Int.gcd (sqIter N k u0) N = Int.gcd (u0 ^ (2 ^ k)) N := gcd_eq_of_modEq hmod
    rw [h1, Int.gcd, Int.natAbs_pow]
  rw [hgcd3]
  set Nn := N.natAbs with hNn
  have hNnpos : 0 < Nn := Int.natAbs_pos.mpr hN0
  have hNcast : (Nn : Int) = N := by rw [hNn]; omega
  set d := Nat.gcd (u0.natAbs ^ (2 ^ k)) Nn with hd
  have hdN : d ∣ Nn := Nat.gcd_dvd_right _ _
  have hc : N.tdiv (d : Int) = ((Nn / d : Nat) : Int) := by
    rw [← hNcast, Int.tdiv_eq_ediv_of_nonneg (by omega)]; norm_cast
  rw [hc]
  set c := Nn / d with hcdef
  have hK : Nn < 2 ^ (2 ^ k) := by
    have h1 : Nn < 2 ^ (sizeInBase2 N) := by
      unfold sizeInBase2; rw [if_neg hN0]; exact Nat.lt_log2_self
    have h2 : sizeInBase2 N < 2 ^ k := halvings_lt _
    exact Nat.lt_of_lt_of_le h1 (Nat.pow_le_pow_right (by decide) (le_of_lt h2))
  set u := (u0 + (c : Int) * nmod) % N with hu
  have hu0 : 0 ≤ u := Int.emod_nonneg _ hN0
  have huN : u < N := Int.emod_lt_of_pos _ hN
  refine ⟨trivial, hg, hu0, huN, ?_, ?_⟩
  · -- gcd(u, N) = 1
    have hgu : Int.gcd u N = Int.gcd (u0 + (c : Int) * nmod) N := gcd_eq_of_modEq (Int.mod_modEq _ _)
    rw [hgu]
    by_contra hne
    obtain ⟨q, hq, hqd⟩ := Nat.exists_prime_and_dvd hne
    have hqN : q ∣ Nn := hqd.trans (Int.gcd_dvd_natAbs_right _ _)
    have hqs : (q : Int) ∣ u0 + (c : Int) * nmod := by
      have := hqd.trans (Int.gcd_dvd_natAbs_left _ _)
      exact Int.natCast_dvd.mpr this
    obtain ⟨sp1, sp2⟩ := split_lemma Nn u0.natAbs (2 ^ k) hNnpos hK q hq hqN
    by_cases hqu : q ∣ u0.natAbs
    · have hqu' : (q : Int) ∣ u0 := Int.natCast_dvd.mpr hqu
      have hqcn : (q : Int) ∣ (c : Int) * nmod := (Int.dvd_add_right hqu').mp hqs
      have hqcn' : q ∣ c * nmod.natAbs := by
        have := Int.natCast_dvd.mp hqcn
        rwa [Int.natAbs_mul, Int.natAbs_natCast] at this
      rcases (Nat.Prime.dvd_mul hq).mp hqcn' with h | h
      · exact sp1 hqu h
      · have : q ∣ Nat.gcd u0.natAbs nmod.natAbs := Nat.dvd_gcd hqu h
        rw [show Nat.gcd u0.natAbs nmod.natAbs = Int.gcd u0 nmod from rfl, hcop] at this
        exact hq.one_lt.ne' (Nat.dvd_one.mp this)
    · have hqc : (q : Int) ∣ (c : Int) * nmod := Dvd.dvd.mul_right (Int.natCast_dvd_natCast.mpr (sp2 hqu)) _
      have : (q : Int) ∣ u0 := (Int.dvd_add_left hqc).mp hqs
      exact hqu (Int.natCast_dvd.mp this)
  · -- u * x ≡ g
    rw [hu, Int.mul_emod, Int.emod_emod, ← Int.mul_emod]
    have e : (u0 + (c : Int) * nmod) * x = g + N * ((c : Int) * x' - v) := by
      rw [hx']; rw [hx'] at hbez
      linear_combination hbez + ((c : Int) * x') * hnm
    rw [e, Int.add_mul_emod_self_left, hg]

end SqiProofs.C17

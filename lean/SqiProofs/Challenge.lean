/- C20 lemmas: injectivity of the challenge-hash input encoding, secure-clear model, DRBG output length. Core-only. -/
import SqiModel.Challenge
import SqiModel.Drbg

namespace SqiProofs.Challenge
open SqiModel.Challenge

theorem hashInput_inj (w : Nat) (j1 j2 m j1' j2' m' : List UInt8)
    (h1 : j1.length = w) (h1' : j1'.length = w) (h2 : j2.length = w) (h2' : j2'.length = w)
    (h : hashInput j1 j2 m = hashInput j1' j2' m') : j1 = j1' ∧ j2 = j2' ∧ m = m' := by
  unfold hashInput at h
  have ha := List.append_inj h (by simp [h1, h1', h2, h2'])
  have hb := List.append_inj ha.1 (by rw [h1, h1'])
  exact ⟨hb.1, hb.2, ha.2⟩

theorem hashInput_length (j1 j2 m : List UInt8) : (hashInput j1 j2 m).length = j1.length + j2.length + m.length := by
  simp [hashInput]; omega

theorem secureClear_length (buf : List UInt8) (size : Nat) (h : size ≤ buf.length) :
    (secureClear buf size).length = buf.length := by
  simp [secureClear]; omega

theorem secureClear_zero (buf : List UInt8) (size : Nat) (h : size ≤ buf.length) (i : Nat) (hi : i < size) :
    (secureClear buf size)[i]'(by rw [secureClear_length buf size h]; omega) = 0 := by
  simp [secureClear, List.getElem_append, Nat.min_eq_left h, hi]

theorem secureClear_rest (buf : List UInt8) (size : Nat) (h : size ≤ buf.length) (i : Nat) (hi : size ≤ i)
    (hb : i < buf.length) :
    (secureClear buf size)[i]'(by rw [secureClear_length buf size h]; omega) = buf[i] := by
  have : ¬ i < size := by omega
  simp only [secureClear, List.getElem_append, Nat.min_eq_left h, List.length_replicate, this, dite_false, List.getElem_drop]
  congr 1; omega

end SqiProofs.Challenge

namespace SqiProofs.Drbg
open SqiModel.Drbg

theorem genLoop_length (E : List UInt8 → List UInt8 → List UInt8) (key : List UInt8) (hE : ∀ v, (E key v).length = 16)
    (fuel xlen : Nat) (v : List UInt8) (hf : xlen < fuel) :
    (Model.genLoop E key fuel xlen v).1.length = xlen := by
  induction fuel generalizing xlen v with
  | zero => omega
  | succ fuel ih =>
    unfold Model.genLoop
    by_cases h0 : 0 < xlen
    · by_cases h15 : 15 < xlen
      · simp only [h0, h15, if_true, List.length_append, List.length_take, hE]
        rw [ih (xlen - 16) _ (by omega)]; omega
      · simp only [h0, h15, if_true, if_false, List.length_take, hE]; omega
    · simp [h0]; omega

/-- `randombytes(x, n)` writes exactly n bytes -/
theorem randombytes_length (E : List UInt8 → List UInt8 → List UInt8) (st : Model.St) (hE : ∀ v, (E st.key v).length = 16)
    (n : Nat) : (Model.randombytes E st n).1.length = n := by
  unfold Model.randombytes
  simp only
  exact genLoop_length E st.key hE (n + 1) n st.v (by omega)

end SqiProofs.Drbg

/- C20: the extracted call sequence of `hash_to_challenge` (SqiGen.Challenge, tie T) computes the hand model. -/
import SqiModel.Challenge

namespace SqiProofs.Challenge
open SqiModel.Challenge

theorem writeAt_mid (a bytes : List UInt8) (k : Nat) :
    writeAt (a ++ List.replicate (bytes.length + k) 0) a.length bytes = a ++ bytes ++ List.replicate k 0 := by
  unfold writeAt
  have h1 : List.take a.length (a ++ List.replicate (bytes.length + k) (0 : UInt8)) = a := by simp
  have h2 : List.drop (a.length + bytes.length) (a ++ List.replicate (bytes.length + k) (0 : UInt8)) = List.replicate k 0 := by
    rw [List.drop_append]; simp
  rw [h1, h2]

theorem buffer_fill (w : Nat) (jcom jpk msg : List UInt8) (h1 : jcom.length = w) (h2 : jpk.length = w) :
    writeAt (writeAt (writeAt (List.replicate (2 * w + 1 * msg.length) (0 : UInt8)) (0 * w) jcom) (1 * w) jpk) (2 * w) msg
      = jcom ++ jpk ++ msg := by
  have e1 := writeAt_mid [] jcom (w + msg.length)
  have e2 := writeAt_mid jcom jpk msg.length
  have e3 := writeAt_mid (jcom ++ jpk) msg 0
  simp only [List.nil_append, List.length_nil, List.length_append, h1, h2, List.replicate_zero, List.append_nil,
    Nat.add_zero] at e1 e2 e3
  rw [show 2 * w + 1 * msg.length = w + (w + msg.length) by omega, show 0 * w = 0 by omega, e1, Nat.one_mul, e2,
    show 2 * w = w + w by omega, e3]

/-- running the expected call sequence = the hand model `hashToChallenge` -/
theorem expected_run (xof : List UInt8 → Nat → List UInt8) (it : Bool) (w nwords ic : Nat)
    (jcom jpk msg : List UInt8) (h1 : jcom.length = w) (h2 : jpk.length = w) :
    (expectedScript it).run xof w nwords ic jcom jpk msg
      = hashToChallenge xof nwords (if it then ic else 0) jcom jpk msg := by
  have hb := buffer_fill w jcom jpk msg h1 h2
  unfold Script.run expectedScript hashToChallenge challengeDigits hashInput
  simp only [List.foldl_cons, List.foldl_nil, hb]
  have ht : List.take (2 * w + 1 * msg.length) (jcom ++ jpk ++ msg) = jcom ++ jpk ++ msg :=
    List.take_of_length_le (by simp [h1, h2]; omega)
  rw [ht]
  cases it <;> simp [iter]

theorem leNat_lt (l : List UInt8) : leNat l < 256 ^ l.length := by
  induction l with
  | nil => simp [leNat]
  | cons b bs ih =>
    have := b.toNat_lt
    simp only [leNat, List.length_cons, Nat.pow_succ]
    have : (256 : Nat) ^ bs.length * 256 = 256 * 256 ^ bs.length := Nat.mul_comm _ _
    omega

theorem iter_length (xof : List UInt8 → Nat → List UInt8) (hx : ∀ m n, (xof m n).length = n) (n k : Nat) (d : List UInt8)
    (hd : d.length = n) : (iter (fun d => xof d n) k d).length = n := by
  induction k generalizing d with
  | zero => exact hd
  | succ k ih => exact ih _ (hx _ _)

theorem challengeDigits_length (xof : List UInt8 → Nat → List UInt8) (hx : ∀ m n, (xof m n).length = n) (nwords iters : Nat)
    (j1 j2 msg : List UInt8) : (challengeDigits xof nwords iters j1 j2 msg).length = 8 * nwords := by
  unfold challengeDigits
  exact iter_length xof hx _ _ _ (hx _ _)

end SqiProofs.Challenge

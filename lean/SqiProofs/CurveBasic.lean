import Mathlib.AlgebraicGeometry.EllipticCurve.Affine.Point
import Mathlib.Tactic.FieldSimp
import Mathlib.Tactic.LinearCombination
import Mathlib.Tactic.Ring
import SqiGen.Ec

/-! # x-only arithmetic on Montgomery curves versus Mathlib's Weierstrass group law

Specification side of C08. `mont a` is the curve `y² = x³ + a x² + x` as a `WeierstrassCurve.Affine`; its
nonsingular points form Mathlib's `AddCommGroup (mont a).Point`. `IsX P X Z` says that the projective pair
`(X : Z)` represents `x(P)` (`∞ ↦ (X : 0)`, `X ≠ 0`). The core lemmas `isX_dbl` and `isX_add` are stated for the
*shape* of the doubling / differential-addition formulas with an arbitrary non-zero scaling `s`, so every variant of
the generated code (`xDBL`, `xDBL_A24`, `xDBL_A24_normalized`, `xADD`, `xDBLADD`, `xDBLADD_normalized`,
`cubicalDBL`, …) is a corollary by `ring`. -/

set_option linter.unusedSectionVars false
namespace SqiProofs.Curve
open WeierstrassCurve SqiGen

variable {F : Type} [Field F] [DecidableEq F]

/-- Montgomery curve `y² = x³ + a x² + x`. -/
def mont (a : F) : WeierstrassCurve.Affine F := ⟨0, a, 0, 1, 0⟩

/-- `(X : Z)` is a projective representative of `x(P)`; the point at infinity is `(X : 0)` with `X ≠ 0`. -/
def IsX {a : F} : (mont a).Point → F → F → Prop
  | .zero, X, Z => Z = 0 ∧ X ≠ 0
  | .some x _ _, X, Z => Z ≠ 0 ∧ X = x * Z

theorem mont_eq {a x y : F} (h : (mont a).Nonsingular x y) : y ^ 2 = x ^ 3 + a * x ^ 2 + x := by
  have heq : (mont a).Equation x y := h.1
  rw [Affine.equation_iff] at heq
  simp only [mont] at heq
  linear_combination heq

theorem mont_negY (a x y : F) : (mont a).negY x y = -y := by
  simp [Affine.negY, mont]

/-- at a point with `y = 0` the tangent is vertical: `3x² + 2ax + 1 ≠ 0` (nonsingularity) -/
theorem mont_y0 {a x : F} (h : (mont a).Nonsingular x 0) : 3 * x ^ 2 + 2 * a * x + 1 ≠ 0 := by
  rw [Affine.nonsingular_iff] at h
  rcases h.2 with h' | h'
  · simp only [mont] at h'
    intro hh
    apply h'
    linear_combination -hh
  · simp [mont] at h'

theorem isX_zero_iff {a X Z : F} : IsX (0 : (mont a).Point) X Z ↔ Z = 0 ∧ X ≠ 0 := Iff.rfl

theorem isX_some_iff {a x y X Z : F} (h : (mont a).Nonsingular x y) :
    IsX (Affine.Point.some x y h) X Z ↔ Z ≠ 0 ∧ X = x * Z := Iff.rfl

/-- never both coordinates zero -/
theorem IsX.ne_zero {a X Z : F} {P : (mont a).Point} (h : IsX P X Z) : X ≠ 0 ∨ Z ≠ 0 := by
  match P, h with
  | .zero, ⟨_, hX⟩ => exact Or.inl hX
  | .some _ _ _, ⟨hZ, _⟩ => exact Or.inr hZ

/-- "whatever projective representative": rescaling a representative gives a representative -/
theorem IsX.smul {a X Z : F} {P : (mont a).Point} (h : IsX P X Z) {c : F} (hc : c ≠ 0) :
    IsX P (c * X) (c * Z) := by
  match P, h with
  | .zero, ⟨hZ, hX⟩ => exact ⟨by rw [hZ, mul_zero], mul_ne_zero hc hX⟩
  | .some x _ _, ⟨hZ, hX⟩ => exact ⟨mul_ne_zero hc hZ, by rw [hX]; ring⟩

/-- two representatives of the same point are proportional -/
theorem IsX.cross {a X Z X' Z' : F} {P : (mont a).Point} (h : IsX P X Z) (h' : IsX P X' Z') :
    X * Z' = X' * Z := by
  match P, h, h' with
  | .zero, ⟨hZ, _⟩, ⟨hZ', _⟩ => rw [hZ, hZ']; ring
  | .some x _ _, ⟨_, hX⟩, ⟨_, hX'⟩ => rw [hX, hX']; ring

/-- a representative determines the point up to sign -/
theorem IsX.neg {a X Z : F} {P : (mont a).Point} (h : IsX P X Z) : IsX (-P) X Z := by
  match P, h with
  | .zero, h => exact h
  | .some x y hxy, h => rw [Affine.Point.neg_some]; exact h

theorem isX_neg_iff {a X Z : F} {P : (mont a).Point} : IsX (-P) X Z ↔ IsX P X Z :=
  ⟨fun h => by simpa using h.neg, fun h => h.neg⟩

theorem two_y_ne {y : F} (hy : y ≠ 0) (h2 : (2 : F) ≠ 0) : y ≠ -y := by
  intro hh
  apply mul_ne_zero h2 hy
  linear_combination hh

/-- x-coordinate of a doubling, `y ≠ 0` -/
theorem dbl_some {a x y : F} (h : (mont a).Nonsingular x y) (hy : y ≠ 0) (h2 : (2 : F) ≠ 0) :
    ∃ x3 y3 h3, Affine.Point.some x y h + Affine.Point.some x y h = Affine.Point.some x3 y3 h3 ∧
      x3 = ((3 * x ^ 2 + 2 * a * x + 1) / (2 * y)) ^ 2 - a - x - x := by
  have hneg : y ≠ (mont a).negY x y := by rw [mont_negY]; exact two_y_ne hy h2
  refine ⟨_, _, _, Affine.Point.add_self_of_Y_ne hneg, ?_⟩
  rw [Affine.slope_of_Y_ne rfl hneg]
  simp only [Affine.addX, Affine.negY, mont]
  have : y - (-y - 0 * x - 0) = 2 * y := by ring
  rw [this]
  ring

/-- x-coordinate of a sum, `x₁ ≠ x₂` -/
theorem add_some_ne {a x1 y1 x2 y2 : F} (h1 : (mont a).Nonsingular x1 y1) (h2 : (mont a).Nonsingular x2 y2)
    (hx : x1 ≠ x2) :
    ∃ x3 y3 h3, Affine.Point.some x1 y1 h1 + Affine.Point.some x2 y2 h2 = Affine.Point.some x3 y3 h3 ∧
      x3 = ((y1 - y2) / (x1 - x2)) ^ 2 - a - x1 - x2 := by
  refine ⟨_, _, _, Affine.Point.add_of_X_ne hx, ?_⟩
  rw [Affine.slope_of_X_ne hx]
  simp only [Affine.addX, mont]
  ring

/-- the doubling identity `x(2P)·4y² = (x²-1)²` -/
theorem dbl_x_identity (a x y : F) (heq : y ^ 2 = x ^ 3 + a * x ^ 2 + x) (hy : y ≠ 0) (h2 : (2 : F) ≠ 0) :
    (x ^ 2 - 1) ^ 2 = (((3 * x ^ 2 + 2 * a * x + 1) / (2 * y)) ^ 2 - a - x - x) * (4 * y ^ 2) := by
  field_simp
  linear_combination (16 * (a + 2 * x)) * heq

theorem four_ne {h2 : (2 : F) ≠ 0} : (4 : F) ≠ 0 := by
  have : (4 : F) = 2 * 2 := by norm_num
  rw [this]; exact mul_ne_zero h2 h2

/-- **Doubling, any representative, any non-zero scaling** (the shape of every `xDBL*` variant):
`(s (X²-Z²)² : s·4XZ(X² + aXZ + Z²))` represents `2P`, for every point `P` including `∞` and the 2-torsion. -/
theorem isX_dbl {a X Z s : F} (h2 : (2 : F) ≠ 0) (hs : s ≠ 0) {P : (mont a).Point} (hP : IsX P X Z) :
    IsX (P + P) (s * (X ^ 2 - Z ^ 2) ^ 2) (s * (4 * X * Z * (X ^ 2 + a * X * Z + Z ^ 2))) := by
  match P, hP with
  | .zero, ⟨hZ, hX⟩ =>
    subst hZ
    show IsX (0 + 0) _ _
    rw [add_zero]
    refine ⟨by ring, ?_⟩
    have : s * (X ^ 2 - 0 ^ 2) ^ 2 = s * X ^ 4 := by ring
    rw [this]
    exact mul_ne_zero hs (pow_ne_zero _ hX)
  | .some x y h, ⟨hZ, hX⟩ =>
    subst hX
    have heq := mont_eq h
    have hz : s * (4 * (x * Z) * Z * ((x * Z) ^ 2 + a * (x * Z) * Z + Z ^ 2)) = 4 * s * Z ^ 4 * y ^ 2 := by
      linear_combination (-4 * s * Z ^ 4) * heq
    have hx : s * ((x * Z) ^ 2 - Z ^ 2) ^ 2 = s * Z ^ 4 * (x ^ 2 - 1) ^ 2 := by ring
    rw [hz, hx]
    by_cases hy : y = 0
    · subst hy
      have : Affine.Point.some x 0 h + Affine.Point.some x 0 h = 0 :=
        Affine.Point.add_self_of_Y_eq (by rw [mont_negY]; simp)
      rw [this]
      refine ⟨by ring, ?_⟩
      have h3 := mont_y0 h
      have hx1 : x ^ 2 - 1 ≠ 0 := by
        intro hh
        apply h3
        have hx0 : x ≠ 0 := by
          intro h0; rw [h0] at hh; norm_num at hh
        have : x * (3 * x ^ 2 + 2 * a * x + 1) = 0 := by
          linear_combination (-2 : F) * heq + x * hh
        rcases mul_eq_zero.mp this with h' | h'
        · exact absurd h' hx0
        · exact h'
      exact mul_ne_zero (mul_ne_zero hs (pow_ne_zero _ hZ)) (pow_ne_zero _ hx1)
    · obtain ⟨x3, y3, h3, hsum, hx3⟩ := dbl_some h hy h2
      rw [hsum]
      refine ⟨?_, ?_⟩
      · exact mul_ne_zero (mul_ne_zero (mul_ne_zero (four_ne (h2 := h2)) hs) (pow_ne_zero _ hZ)) (pow_ne_zero _ hy)
      · rw [dbl_x_identity a x y heq hy h2, hx3]
        ring

/-- the differential-addition identity `x(P+Q)·x(P-Q)·(x₁-x₂)² = (x₁x₂-1)²` -/
theorem add_sub_x_identity (a x1 y1 x2 y2 : F) (h1 : y1 ^ 2 = x1 ^ 3 + a * x1 ^ 2 + x1)
    (h2 : y2 ^ 2 = x2 ^ 3 + a * x2 ^ 2 + x2) (hx : x1 ≠ x2) :
    (((y1 - y2) / (x1 - x2)) ^ 2 - a - x1 - x2) * (((y1 - -y2) / (x1 - x2)) ^ 2 - a - x1 - x2) * (x1 - x2) ^ 2
      = (x1 * x2 - 1) ^ 2 := by
  have hd : x1 - x2 ≠ 0 := sub_ne_zero.mpr hx
  field_simp
  linear_combination (-a*x1^2 + 4*a*x1*x2 - 2*a*x2^2 - x1^3 + 2*x1^2*x2 + 2*x1*x2^2 + x1 - 2*x2^3 + y1^2 - 2*y2^2) * h1 + (-4*a*x1^2 + 4*a*x1*x2 - a*x2^2 - 4*x1^3 + 2*x1^2*x2 + 2*x1*x2^2 - 2*x1 - x2^3 + x2 + y2^2) * h2

/-- **Differential addition, any representatives, any non-zero scaling** (the shape of `xADD`, of the addition half
of `xDBLADD`, and of `cubicalADD`): if `(Xd : Zd)` represents `x(P - Q)` and `x(P - Q) ∉ {0, ∞}` then
`(s Zd (XpXq - ZpZq)² : s Xd (XpZq - ZpXq)²)` represents `P + Q` — for all `P, Q` including `∞`, `P = -Q`, 2-torsion. -/
theorem isX_add {a Xp Zp Xq Zq Xd Zd s : F} (h2 : (2 : F) ≠ 0) (hs : s ≠ 0) {P Q : (mont a).Point}
    (hP : IsX P Xp Zp) (hQ : IsX Q Xq Zq) (hD : IsX (P - Q) Xd Zd) (hXd : Xd ≠ 0) (hZd : Zd ≠ 0) :
    IsX (P + Q) (s * Zd * (Xp * Xq - Zp * Zq) ^ 2) (s * Xd * (Xp * Zq - Zp * Xq) ^ 2) := by
  match P, Q, hP, hQ, hD with
  | .zero, Q, ⟨hZp, hXp⟩, hQ, hD =>
    have hD' : IsX Q Xd Zd := by
      have : (Affine.Point.zero : (mont a).Point) - Q = -Q := zero_sub Q
      rw [this] at hD
      exact isX_neg_iff.mp hD
    match Q, hQ, hD' with
    | .zero, _, ⟨h0, _⟩ => exact absurd h0 hZd
    | .some xq yq hq, ⟨hZq, hXq⟩, ⟨_, hXd'⟩ =>
      have : (Affine.Point.zero : (mont a).Point) + Affine.Point.some xq yq hq = Affine.Point.some xq yq hq :=
        zero_add _
      rw [this]
      subst hZp
      refine ⟨?_, ?_⟩
      · have : s * Xd * (Xp * Zq - 0 * Xq) ^ 2 = s * Xd * Xp ^ 2 * Zq ^ 2 := by ring
        rw [this]
        exact mul_ne_zero (mul_ne_zero (mul_ne_zero hs hXd) (pow_ne_zero _ hXp)) (pow_ne_zero _ hZq)
      · rw [hXq, hXd']; ring
  | .some xp yp hp, .zero, ⟨hZp, hXp⟩, ⟨hZq, hXq⟩, hD =>
    have e1 : Affine.Point.some xp yp hp - (Affine.Point.zero : (mont a).Point) = Affine.Point.some xp yp hp :=
      sub_zero _
    have e2 : Affine.Point.some xp yp hp + (Affine.Point.zero : (mont a).Point) = Affine.Point.some xp yp hp :=
      add_zero _
    rw [e1] at hD
    rw [e2]
    obtain ⟨_, hXd'⟩ := hD
    subst hZq
    refine ⟨?_, ?_⟩
    · have : s * Xd * (Xp * 0 - Zp * Xq) ^ 2 = s * Xd * Zp ^ 2 * Xq ^ 2 := by ring
      rw [this]
      exact mul_ne_zero (mul_ne_zero (mul_ne_zero hs hXd) (pow_ne_zero _ hZp)) (pow_ne_zero _ hXq)
    · rw [hXp, hXd']; ring
  | .some xp yp hp, .some xq yq hq, ⟨hZp, hXp⟩, ⟨hZq, hXq⟩, hD =>
    have ep := mont_eq hp
    have eq := mont_eq hq
    subst hXp hXq
    by_cases hx : xp = xq
    · subst hx
      rcases Affine.Y_eq_of_X_eq hp.1 hq.1 rfl with hy | hy
      · -- P = Q : the difference would be ∞
        subst hy
        have : Affine.Point.some xp yp hp - Affine.Point.some xp yp hq = 0 := sub_self _
        rw [this] at hD
        exact absurd hD.1 hZd
      · -- P = -Q
        have hsum : Affine.Point.some xp yp hp + Affine.Point.some xp yq hq = 0 :=
          Affine.Point.add_of_Y_eq rfl hy
        rw [hsum]
        have hneg : -Affine.Point.some xp yq hq = Affine.Point.some xp yp hp := by
          rw [Affine.Point.neg_some]
          congr 1
          exact hy.symm
        have hdiff : Affine.Point.some xp yp hp - Affine.Point.some xp yq hq
            = Affine.Point.some xp yp hp + Affine.Point.some xp yp hp := by
          rw [sub_eq_add_neg, hneg]
        rw [hdiff] at hD
        refine ⟨by ring, ?_⟩
        have hx1 : xp ^ 2 - 1 ≠ 0 := by
          by_cases hy0 : yp = 0
          · subst hy0
            have : Affine.Point.some xp 0 hp + Affine.Point.some xp 0 hp = 0 :=
              Affine.Point.add_self_of_Y_eq (by rw [mont_negY]; simp)
            rw [this] at hD
            exact absurd hD.1 hZd
          · obtain ⟨x3, y3, h3, hs3, hx3⟩ := dbl_some hp hy0 h2
            rw [hs3] at hD
            obtain ⟨_, hXd'⟩ := hD
            intro h0
            have hid := dbl_x_identity a xp yp ep hy0 h2
            rw [← hx3, h0] at hid
            have : x3 = 0 := by
              have h4 : (4 : F) * yp ^ 2 ≠ 0 := mul_ne_zero (four_ne (h2 := h2)) (pow_ne_zero _ hy0)
              rcases mul_eq_zero.mp (by rw [← hid]; ring : x3 * (4 * yp ^ 2) = 0) with h' | h'
              · exact h'
              · exact absurd h' h4
            apply hXd
            rw [hXd', this, zero_mul]
        have : s * Zd * (xp * Zp * (xp * Zq) - Zp * Zq) ^ 2 = s * Zd * Zp ^ 2 * Zq ^ 2 * (xp ^ 2 - 1) ^ 2 := by ring
        rw [this]
        exact mul_ne_zero (mul_ne_zero (mul_ne_zero (mul_ne_zero hs hZd) (pow_ne_zero _ hZp)) (pow_ne_zero _ hZq))
          (pow_ne_zero _ hx1)
    · obtain ⟨x3, y3, h3, hs3, hx3⟩ := add_some_ne hp hq hx
      rw [hs3]
      have hnq : (mont a).Nonsingular xq (-yq) := by
        have := (Affine.nonsingular_neg (W' := mont a) xq yq).mpr hq
        rwa [mont_negY] at this
      have hdiff : Affine.Point.some xp yp hp - Affine.Point.some xq yq hq
          = Affine.Point.some xp yp hp + Affine.Point.some xq (-yq) hnq := by
        rw [sub_eq_add_neg, Affine.Point.neg_some]
        congr 1
        simp only [mont_negY]
      obtain ⟨x4, y4, h4, hs4, hx4⟩ := add_some_ne hp hnq hx
      rw [hdiff, hs4] at hD
      obtain ⟨_, hXd'⟩ := hD
      have hd : xp - xq ≠ 0 := sub_ne_zero.mpr hx
      refine ⟨?_, ?_⟩
      · have : s * Xd * (xp * Zp * Zq - Zp * (xq * Zq)) ^ 2 = s * Xd * Zp ^ 2 * Zq ^ 2 * (xp - xq) ^ 2 := by ring
        rw [this]
        exact mul_ne_zero (mul_ne_zero (mul_ne_zero (mul_ne_zero hs hXd) (pow_ne_zero _ hZp)) (pow_ne_zero _ hZq))
          (pow_ne_zero _ hd)
      · have hid := add_sub_x_identity a xp yp xq yq ep eq hx
        rw [← hx3, ← hx4] at hid
        rw [hXd']
        linear_combination (-(s * Zd * Zp ^ 2 * Zq ^ 2)) * hid

end SqiProofs.Curve

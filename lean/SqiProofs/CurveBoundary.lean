import SqiProofs.CurveLift

/-! # The exact boundary of the ladder / Jacobian theorems (= the four known findings) -/

set_option linter.unusedSectionVars false
set_option linter.unusedSimpArgs false
namespace SqiProofs.Curve
open WeierstrassCurve SqiGen SqiModel.Ladder

variable {F : Type} [Field F] [DecidableEq F]

theorem xDBLADD_T00 (P Q A24 : EcPoint F) (Z : F) : (xDBLADD P Q ⟨0, Z⟩ A24).2.z = 0 := by
  simp only [xDBLADD]; ring

theorem xDBLADD_dbl_z (X Xq Zq : F) (PQ A24 : EcPoint F) : (xDBLADD ⟨X, 0⟩ ⟨Xq, Zq⟩ PQ A24).1.z = 0 := by
  simp only [xDBLADD]; ring

theorem xDBLADD_dbl_z' (Z Xq Zq : F) (PQ A24 : EcPoint F) : (xDBLADD ⟨0, Z⟩ ⟨Xq, Zq⟩ PQ A24).1.z = 0 := by
  simp only [xDBLADD]; ring

/-- base point `(0 : Z)` (the 2-torsion point `(0,0)`): the ladder returns `Z = 0` for **every** bit list — correct
(`∞`) for even scalars, wrong for odd ones (`T00_odd_multiple`). -/
theorem xMULbits_T00 (A24 : EcPoint F) (Z : F) (bits : List Bool) : (xMULbits bits ⟨0, Z⟩ A24).z = 0 := by
  -- invariant: R0 has z = 0 or x = 0 … simplest: after any number of steps, both registers are `(· : 0)` or the
  -- state is the initial one
  have key : ∀ (bits : List Bool) (st : LState F),
      ((st.R0.z = 0 ∧ st.R1.z = 0) ∨ (st.R0.z = 0 ∧ st.R1.x = 0 ∧ st.prev = false) ∨
        (st.R1.z = 0 ∧ st.R0.x = 0 ∧ st.prev = true)) →
      (((bits.foldl (ladderStep ⟨0, Z⟩ A24) st).R0.z = 0 ∧ (bits.foldl (ladderStep ⟨0, Z⟩ A24) st).R1.z = 0) ∨
        ((bits.foldl (ladderStep ⟨0, Z⟩ A24) st).R0.z = 0 ∧ (bits.foldl (ladderStep ⟨0, Z⟩ A24) st).R1.x = 0 ∧
          (bits.foldl (ladderStep ⟨0, Z⟩ A24) st).prev = false) ∨
        ((bits.foldl (ladderStep ⟨0, Z⟩ A24) st).R1.z = 0 ∧ (bits.foldl (ladderStep ⟨0, Z⟩ A24) st).R0.x = 0 ∧
          (bits.foldl (ladderStep ⟨0, Z⟩ A24) st).prev = true)) := by
    intro bits
    induction bits with
    | nil => intro st h; exact h
    | cons b bs ih =>
      intro st h
      simp only [List.foldl_cons]
      apply ih
      left
      obtain ⟨⟨x0, z0⟩, ⟨x1, z1⟩, prev⟩ := st
      simp only at h
      rcases h with ⟨h0, h1⟩ | ⟨h0, h1, hp⟩ | ⟨h0, h1, hp⟩
      · subst h0 h1
        simp only [ladderStep, swap_points_mask]
        split <;> exact ⟨xDBLADD_dbl_z _ _ _ _ _, xDBLADD_T00 _ _ _ _⟩
      · subst h0 h1 hp
        simp only [ladderStep, swap_points_mask, Bool.xor_false]
        cases b <;> simp only [if_true, if_false, Bool.false_eq_true]
        · exact ⟨xDBLADD_dbl_z _ _ _ _ _, xDBLADD_T00 _ _ _ _⟩
        · exact ⟨xDBLADD_dbl_z' _ _ _ _ _, xDBLADD_T00 _ _ _ _⟩
      · subst h0 h1 hp
        simp only [ladderStep, swap_points_mask, Bool.xor_true]
        cases b <;> simp only [if_true, if_false, Bool.false_eq_true, Bool.not_false, Bool.not_true]
        · exact ⟨xDBLADD_dbl_z _ _ _ _ _, xDBLADD_T00 _ _ _ _⟩
        · exact ⟨xDBLADD_dbl_z' _ _ _ _ _, xDBLADD_T00 _ _ _ _⟩
  have := key bits (ladderInit ⟨0, Z⟩) (Or.inr (Or.inl ⟨by simp [ladderInit, ec_point_init], by simp [ladderInit], rfl⟩))
  simp only [xMULbits, ladderFinish, swap_points_mask, Bool.false_xor]
  rcases this with ⟨h0, h1⟩ | ⟨h0, _, hp⟩ | ⟨h1, _, hp⟩
  · split
    · exact h1
    · exact h0
  · simp only [hp, Bool.false_eq_true, if_false]; exact h0
  · simp only [hp, if_true]; exact h1

theorem nonsingular_T00 (a : F) : (mont a).Nonsingular 0 0 := by
  rw [Affine.nonsingular_iff, Affine.equation_iff]
  simp [mont]

/-- odd multiples of `T = (0,0)` are `T` itself, which no pair `(X : 0)` represents -/
theorem T00_odd_multiple (a : F) (n : Nat) (hn : n % 2 = 1) (X : F) :
    ¬ IsX (n • Affine.Point.some 0 0 (nonsingular_T00 a)) X 0 := by
  have h2 : Affine.Point.some 0 0 (nonsingular_T00 a) + Affine.Point.some 0 0 (nonsingular_T00 a) = 0 :=
    Affine.Point.add_self_of_Y_eq (by rw [mont_negY]; simp)
  have hn' : n = 2 * (n / 2) + 1 := by omega
  rw [hn', add_nsmul, mul_nsmul, two_nsmul, h2, nsmul_zero, zero_add, one_nsmul]
  intro h
  exact h.1 rfl

/-- `DBL` of a point of order 2 returns `(α² : · : 0)` with `α ≠ 0`: `∞` in a form with `X ≠ 0`, which `ADD`'s test
`X = 0 ∧ Z = 0` does not recognise -/
theorem DBL_order2_noncanonical {a : F} (AC : EcCurve F) (hA : AC.A = a) (x : F) (h : (mont a).Nonsingular x 0)
    (J : JacPoint F) (hJ : IsJac (Affine.Point.some x 0 h) J) : (DBL J AC).z = 0 ∧ (DBL J AC).x ≠ 0 := by
  obtain ⟨hz, hx, hy⟩ := hJ
  have hne : ¬ (J.x = 0 ∧ J.z = 0) := fun hh => hz hh.2
  rw [DBL_generic J AC hne, hA]
  obtain ⟨X, Y, Z⟩ := J
  simp only at hz hx hy ⊢
  subst hx hy
  refine ⟨by ring, ?_⟩
  have h3 := mont_y0 h
  have : (3 * (x * Z ^ 2) ^ 2 + Z ^ 2 * (2 * a * (x * Z ^ 2) + Z ^ 2)) ^ 2 - 4 * a * (0 * Z ^ 3) ^ 2 * Z ^ 2
      - 8 * (x * Z ^ 2) * (0 * Z ^ 3) ^ 2 = (Z ^ 4 * (3 * x ^ 2 + 2 * a * x + 1)) ^ 2 := by ring
  rw [this]
  exact pow_ne_zero _ (mul_ne_zero (pow_ne_zero _ hz) h3)

end SqiProofs.Curve

import SqiProofs.CurveJacSeq
import Mathlib.Tactic.Abel

/-! # xDBLMUL: the two-dimensional differential addition chain, group level

`CS` tracks, for every register of the main loop, the integer pair `(x, y)` such that the register represents
`x(xP + yQ)`. `chain_step`: one iteration of `dblmulStep` follows `cstep` whenever the difference registers really hold
`±` the differences of the operands (`cvalid`). -/

set_option linter.unusedSectionVars false
set_option linter.unusedSimpArgs false
namespace SqiProofs.Curve
open WeierstrassCurve SqiGen SqiModel.Ladder

variable {F : Type} [Field F] [DecidableEq F]

/-- `xP + yQ` -/
def pt {a : F} (P Q : (mont a).Point) (c : ℤ × ℤ) : (mont a).Point := c.1 • P + c.2 • Q

theorem pt_add {a : F} (P Q : (mont a).Point) (c d : ℤ × ℤ) : pt P Q c + pt P Q d = pt P Q (c + d) := by
  simp only [pt, Prod.fst_add, Prod.snd_add, add_zsmul]; abel

theorem pt_sub {a : F} (P Q : (mont a).Point) (c d : ℤ × ℤ) : pt P Q c - pt P Q d = pt P Q (c - d) := by
  simp only [pt, Prod.fst_sub, Prod.snd_sub, sub_zsmul]; abel

theorem pt_neg {a : F} (P Q : (mont a).Point) (c : ℤ × ℤ) : -pt P Q c = pt P Q (-c) := by
  simp only [pt, Prod.fst_neg, Prod.snd_neg, neg_zsmul]; abel

theorem isX_pt_pm {a : F} {P Q : (mont a).Point} {c d : ℤ × ℤ} {X Z : F} (h : IsX (pt P Q d) X Z)
    (hc : c = d ∨ c = -d) : IsX (pt P Q c) X Z := by
  rcases hc with rfl | rfl
  · exact h
  · rw [← pt_neg]; exact h.neg

structure CS where
  c0 : ℤ × ℤ
  c1 : ℤ × ℤ
  c2 : ℤ × ℤ
  d1a : ℤ × ℤ
  d1b : ℤ × ℤ
  d2a : ℤ × ℤ
  d2b : ℤ × ℤ

/-- the main-loop iteration on coefficient pairs -/
def cstep (cs : CS) (rr : Bool × Bool) : CS :=
  let S := if rr.1 && rr.2 then cs.c2 else if xor rr.1 rr.2 then cs.c1 else cs.c0
  let U := if rr.2 then cs.c1 else cs.c0
  let V := if rr.2 then cs.c2 else cs.c1
  { c0 := S + S, c1 := U + V, c2 := cs.c0 + cs.c2,
    d1a := if rr.2 then cs.d1b else cs.d1a, d1b := if rr.2 then cs.d1a else cs.d1b,
    d2a := if xor rr.1 rr.2 then cs.d2b else cs.d2a, d2b := if xor rr.1 rr.2 then cs.d2a else cs.d2b }

/-- the difference registers handed to `xADD` hold `±` the differences of the operands -/
def cvalid (cs : CS) (rr : Bool × Bool) : Prop :=
  let U := if rr.2 then cs.c1 else cs.c0
  let V := if rr.2 then cs.c2 else cs.c1
  let d := if rr.2 then cs.d1b else cs.d1a
  (U - V = d ∨ U - V = -d) ∧ (cs.c0 - cs.c2 = cs.d2a ∨ cs.c0 - cs.c2 = -cs.d2a)

/-- the registers of the main loop represent the points given by the coefficient state -/
structure G {a : F} (P Q : (mont a).Point) (cs : CS) (st : DState F) : Prop where
  r0 : IsX (pt P Q cs.c0) st.R0.x st.R0.z
  r1 : IsX (pt P Q cs.c1) st.R1.x st.R1.z
  r2 : IsX (pt P Q cs.c2) st.R2.x st.R2.z
  d1a : IsX (pt P Q cs.d1a) st.D1a.x st.D1a.z
  d1b : IsX (pt P Q cs.d1b) st.D1b.x st.D1b.z
  d2a : IsX (pt P Q cs.d2a) st.D2a.x st.D2a.z
  d2b : IsX (pt P Q cs.d2b) st.D2b.x st.D2b.z
  n1a : st.D1a.x ≠ 0 ∧ st.D1a.z ≠ 0
  n1b : st.D1b.x ≠ 0 ∧ st.D1b.z ≠ 0
  n2a : st.D2a.x ≠ 0 ∧ st.D2a.z ≠ 0
  n2b : st.D2b.x ≠ 0 ∧ st.D2b.z ≠ 0

theorem chain_step {a : F} (h2 : (2 : F) ≠ 0) {A24 : EcPoint F} (hA : 4 * A24.x = a + 2)
    (P Q : (mont a).Point) (cs : CS) (st : DState F) (rr : Bool × Bool) (hG : G P Q cs st) (hv : cvalid cs rr) :
    G P Q (cstep cs rr) (dblmulStep A24 st rr true) := by
  obtain ⟨r0, r1⟩ := rr
  obtain ⟨g0, g1, g2, gd1a, gd1b, gd2a, gd2b, n1a, n1b, n2a, n2b⟩ := hG
  obtain ⟨hv1, hv2⟩ := hv
  have hd2 : IsX (pt P Q cs.c0 - pt P Q cs.c2) st.D2a.x st.D2a.z := by
    rw [pt_sub]; exact isX_pt_pm gd2a hv2
  have hd1 : IsX ((if r1 then pt P Q cs.c1 else pt P Q cs.c0) - (if r1 then pt P Q cs.c2 else pt P Q cs.c1))
      (if r1 then st.D1b else st.D1a).x (if r1 then st.D1b else st.D1a).z := by
    cases r1 <;> simp only [if_true, if_false, Bool.false_eq_true] at hv1 ⊢
    · rw [pt_sub]; exact isX_pt_pm gd1a hv1
    · rw [pt_sub]; exact isX_pt_pm gd1b hv1
  have hn1 : (if r1 then st.D1b else st.D1a).x ≠ 0 ∧ (if r1 then st.D1b else st.D1a).z ≠ 0 := by
    cases r1 <;> simp only [if_true, if_false, Bool.false_eq_true]
    · exact n1a
    · exact n1b
  have key := dblmulStep_ok h2 hA st r0 r1 _ _ _ g0 g1 g2 hd1 hn1.1 hn1.2 hd2 n2a.1 n2a.2
  obtain ⟨k0, k1, k2, k3, k4⟩ := key
  have e1 := congrArg Prod.fst k3
  have e2 := congrArg Prod.snd k3
  have e3 := congrArg Prod.fst k4
  have e4 := congrArg Prod.snd k4
  simp only at e1 e2 e3 e4
  cases r0 <;> cases r1 <;>
    simp only [Bool.and_true, Bool.and_false, Bool.false_and, Bool.true_and, Bool.xor_false, Bool.xor_true,
      Bool.false_xor, Bool.true_xor, Bool.not_false, Bool.not_true, if_true, if_false, Bool.false_eq_true,
      Bool.and_self, Bool.xor_self, pt_add] at k0 k1 k2 e1 e2 e3 e4 <;>
    refine ⟨?_, ?_, ?_, ?_, ?_, ?_, ?_, ?_, ?_, ?_, ?_⟩ <;>
    simp only [cstep, Bool.and_true, Bool.and_false, Bool.false_and, Bool.true_and, Bool.xor_false, Bool.xor_true,
      Bool.false_xor, Bool.true_xor, Bool.not_false, Bool.not_true, if_true, if_false, Bool.false_eq_true,
      Bool.and_self, Bool.xor_self, e1, e2, e3, e4] <;>
    assumption

end SqiProofs.Curve

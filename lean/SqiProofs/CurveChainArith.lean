import SqiProofs.CurveChain

/-! # xDBLMUL: the coefficient pairs along the chain (pure integer arithmetic)

After the iteration that consumes the digits of index `i`, with `u = ⌊k_t / 2^i⌋`, `v = ⌊l_t / 2^i⌋`:
`R0 = (Ev u, Ev v)` (round up to even), `R2 = (Od u, Od v)` (round to the odd neighbour `2⌊u/2⌋+1`),
`R1` the mixed point selected by `τ` (the code's `sigma[0]`), `DIFF1 = (P, Q)` in the order given by `τ`, and
`DIFF2a = P+Q` iff `u ≡ v (mod 2)`. -/

set_option linter.unusedSectionVars false
set_option linter.unusedSimpArgs false
namespace SqiProofs.Curve

def Ev (u : ℕ) : ℤ := 2 * (((u + 1) / 2 : ℕ) : ℤ)
def Od (u : ℕ) : ℤ := 2 * ((u / 2 : ℕ) : ℤ) + 1

def CSof (u v : ℕ) (τ : Bool) : CS :=
  { c0 := (Ev u, Ev v), c1 := if τ then (Ev u, Od v) else (Od u, Ev v), c2 := (Od u, Od v),
    d1a := if τ then (0, 1) else (1, 0), d1b := if τ then (1, 0) else (0, 1),
    d2a := if u % 2 = v % 2 then (1, 1) else (1, -1), d2b := if u % 2 = v % 2 then (1, -1) else (1, 1) }

/-- the two digits consumed when going from `(u', v')` to `(2u' + bu, 2v' + bv)` with lower selector `τ`:
`ck`/`cl` = "bit i+1 differs from bit i" for the two scalars, ordered by `τ` -/
def chainDigits (u' v' : ℕ) (bu bv τ : Bool) : Bool × Bool :=
  let ck := xor (decide (u' % 2 = 1)) bu
  let cl := xor (decide (v' % 2 = 1)) bv
  (if τ then cl else ck, if τ then ck else cl)

/-- the selector one level up -/
def tauUp (u' v' : ℕ) (bu bv τ : Bool) : Bool := xor τ (chainDigits u' v' bu bv τ).2

theorem cs_step (u' v' : ℕ) (bu bv τ : Bool) :
    cstep (CSof u' v' (tauUp u' v' bu bv τ)) (chainDigits u' v' bu bv τ) = CSof (2 * u' + bu.toNat) (2 * v' + bv.toNat) τ ∧
    cvalid (CSof u' v' (tauUp u' v' bu bv τ)) (chainDigits u' v' bu bv τ) := by
  have eu : (2 * u' + bu.toNat) % 2 = bu.toNat := by cases bu <;> simp
  have ev : (2 * v' + bv.toNat) % 2 = bv.toNat := by cases bv <;> simp
  rcases Nat.mod_two_eq_zero_or_one u' with hu | hu <;> rcases Nat.mod_two_eq_zero_or_one v' with hv | hv <;>
    cases bu <;> cases bv <;> cases τ <;>
    simp only [CSof, cstep, cvalid, chainDigits, tauUp, eu, ev, hu, hv, Bool.toNat_false, Bool.toNat_true,
      Bool.xor_false, Bool.xor_true, Bool.false_xor, Bool.true_xor, Bool.not_false, Bool.not_true, if_true, if_false,
      Bool.false_eq_true, Bool.and_true, Bool.and_false, Bool.false_and, Bool.true_and, Bool.and_self, Bool.xor_self,
      decide_true, decide_false, zero_ne_one, one_ne_zero, Nat.zero_ne_one, Nat.one_ne_zero, add_zero,
      CS.mk.injEq, Prod.mk.injEq, Prod.mk_add_mk, Prod.mk_sub_mk, Prod.neg_mk, Ev, Od, reduceCtorEq, Nat.reduceEqDiff, Nat.mul_mod_right, Nat.mul_add_mod_self_left, Nat.reduceMod, and_self, and_true, true_and, neg_zero] <;>
    omega

/-- the digits from index `i` upwards (least significant first) for shifted scalars `u, v < 2^m`, and the selector at
the top -/
def chainSpec : Nat → Nat → Nat → Bool → List (Bool × Bool) × Bool
  | 0, _, _, τ => ([], τ)
  | m + 1, u, v, τ =>
    let d := chainDigits (u / 2) (v / 2) (decide (u % 2 = 1)) (decide (v % 2 = 1)) τ
    let rest := chainSpec m (u / 2) (v / 2) (tauUp (u / 2) (v / 2) (decide (u % 2 = 1)) (decide (v % 2 = 1)) τ)
    (d :: rest.1, rest.2)

theorem chainSpec_length (m u v : Nat) (τ : Bool) : (chainSpec m u v τ).1.length = m := by
  induction m generalizing u v τ with
  | zero => rfl
  | succ m ih => simp [chainSpec, ih]

end SqiProofs.Curve

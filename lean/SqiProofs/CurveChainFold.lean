import SqiProofs.CurveChainArith

/-! # xDBLMUL: composition of the steps (induction over the number of digits) -/

set_option linter.unusedSectionVars false
set_option linter.unusedSimpArgs false
namespace SqiProofs.Curve
open WeierstrassCurve SqiGen SqiModel.Ladder

variable {F : Type} [Field F] [DecidableEq F]

/-- **Global invariant of the main loop.** Starting from a state that represents `CSof 0 0 τ_top`, consuming the digits
of `chainSpec m u v τ` from the most significant one down yields a state that represents `CSof u v τ`
(`u, v < 2^m`, any `m`). -/
theorem chain_fold {a : F} (h2 : (2 : F) ≠ 0) {A24 : EcPoint F} (hA : 4 * A24.x = a + 2) (P Q : (mont a).Point)
    (st0 : DState F) (m : Nat) (u v : Nat) (τ : Bool) (hu : u < 2 ^ m) (hv : v < 2 ^ m)
    (h0 : G P Q (CSof 0 0 (chainSpec m u v τ).2) st0) :
    G P Q (CSof u v τ) ((chainSpec m u v τ).1.reverse.foldl (fun st rr => dblmulStep A24 st rr true) st0) := by
  induction m generalizing u v τ with
  | zero =>
    have hu0 : u = 0 := by simpa using hu
    have hv0 : v = 0 := by simpa using hv
    subst hu0 hv0
    simpa [chainSpec] using h0
  | succ m ih =>
    simp only [chainSpec, List.reverse_cons, List.foldl_append, List.foldl_cons, List.foldl_nil] at h0 ⊢
    have hu' : u / 2 < 2 ^ m := by rw [pow_succ] at hu; omega
    have hv' : v / 2 < 2 ^ m := by rw [pow_succ] at hv; omega
    have := ih (u / 2) (v / 2) _ hu' hv' h0
    obtain ⟨e1, e2⟩ := cs_step (u / 2) (v / 2) (decide (u % 2 = 1)) (decide (v % 2 = 1)) τ
    have := chain_step h2 hA P Q _ _ _ this e2
    rw [e1] at this
    have eu : 2 * (u / 2) + (decide (u % 2 = 1)).toNat = u := by
      rcases Nat.mod_two_eq_zero_or_one u with h | h <;> simp [h] <;> omega
    have ev : 2 * (v / 2) + (decide (v % 2 = 1)).toNat = v := by
      rcases Nat.mod_two_eq_zero_or_one v with h | h <;> simp [h] <;> omega
    rw [eu, ev] at this
    exact this

end SqiProofs.Curve

import SqiProofs.CurveJac

/-! # xDBLMUL: one iteration of the main loop against the group law (per-step building block) -/

set_option linter.unusedSectionVars false
set_option linter.unusedSimpArgs false
namespace SqiProofs.Curve
open WeierstrassCurve SqiGen SqiModel.Ladder

variable {F : Type} [Field F] [DecidableEq F]

/-- One applied iteration of the xDBLMUL main loop. If `(R0, R1, R2)` represent `(M0, M1, M2)`, then with
`S := M2 / M1 / M0` according to `h = r₀ + r₁ ∈ {2, 1, 0}` and `(U, V) := (M1, M2)` if `r₁` else `(M0, M1)`:
the new `(R0, R1, R2)` represent `(2S, U + V, M0 + M2)`, provided the difference points handed to `xADD` represent
`U - V` (after the conditional swap of `DIFF1a/DIFF1b`) resp. `M0 - M2` and are not in `{∞, (0,0)}`; the `DIFF`
registers are swapped exactly as the masks say. -/
theorem dblmulStep_ok {a : F} (h2 : (2 : F) ≠ 0) {A24 : EcPoint F} (hA : 4 * A24.x = a + 2)
    (st : DState F) (r0 r1 : Bool) (M0 M1 M2 : (mont a).Point)
    (h0 : IsX M0 st.R0.x st.R0.z) (h1 : IsX M1 st.R1.x st.R1.z) (h2' : IsX M2 st.R2.x st.R2.z)
    (hd1 : IsX ((if r1 then M1 else M0) - (if r1 then M2 else M1))
      (if r1 then st.D1b else st.D1a).x (if r1 then st.D1b else st.D1a).z)
    (hd1x : (if r1 then st.D1b else st.D1a).x ≠ 0) (hd1z : (if r1 then st.D1b else st.D1a).z ≠ 0)
    (hd2 : IsX (M0 - M2) st.D2a.x st.D2a.z) (hd2x : st.D2a.x ≠ 0) (hd2z : st.D2a.z ≠ 0) :
    let st' := dblmulStep A24 st (r0, r1) true
    let S := if r0 && r1 then M2 else if xor r0 r1 then M1 else M0
    IsX (S + S) st'.R0.x st'.R0.z ∧
    IsX ((if r1 then M1 else M0) + (if r1 then M2 else M1)) st'.R1.x st'.R1.z ∧
    IsX (M0 + M2) st'.R2.x st'.R2.z ∧
    (st'.D1a, st'.D1b) = (if r1 then (st.D1b, st.D1a) else (st.D1a, st.D1b)) ∧
    (st'.D2a, st'.D2b) = (if xor r0 r1 then (st.D2b, st.D2a) else (st.D2a, st.D2b)) := by
  obtain ⟨R0, R1, R2, T0, T1, T2, D1a, D1b, D2a, D2b⟩ := st
  simp only at h0 h1 h2' hd1 hd1x hd1z hd2 hd2x hd2z
  simp only [dblmulStep, if_true, select_point_mask, swap_points_mask, copy_point_eq]
  refine ⟨?_, ?_, ?_, ?_, ?_⟩
  · cases r0 <;> cases r1 <;>
      simp only [Bool.and_true, Bool.and_false, Bool.false_and, Bool.true_and, Bool.xor_false, Bool.xor_true,
        Bool.false_xor, Bool.true_xor, Bool.not_false, Bool.not_true, if_true, if_false, Bool.false_eq_true,
        Bool.and_self, Bool.xor_self]
    · exact xDBL_A24n_isX h2 hA h0
    · exact xDBL_A24n_isX h2 hA h1
    · exact xDBL_A24n_isX h2 hA h1
    · exact xDBL_A24n_isX h2 hA h2'
  · cases r1 <;> simp only [if_true, if_false, Bool.false_eq_true] at hd1 hd1x hd1z ⊢
    · exact xADD_isX h2 h0 h1 hd1 hd1x hd1z
    · exact xADD_isX h2 h1 h2' hd1 hd1x hd1z
  · exact xADD_isX h2 h0 h2' hd2 hd2x hd2z
  · cases r1 <;> simp
  · cases r0 <;> cases r1 <;> simp

end SqiProofs.Curve

import SqiProofs.CurveDblmulTop

/-! # xDBLMUL_bounded: the iterations above the bound are skipped; harmless when the scalars are short -/

set_option linter.unusedSectionVars false
set_option linter.unusedSimpArgs false
namespace SqiProofs.Curve
open WeierstrassCurve SqiGen SqiModel.Ladder

variable {F : Type} [Field F] [DecidableEq F]

/-- `R` is always a copy of `T` after an iteration, applied or not -/
def TR (st : DState F) : Prop := st.T0 = st.R0 ∧ st.T1 = st.R1 ∧ st.T2 = st.R2

theorem dblmulStep_TR (A24 : EcPoint F) (st : DState F) (rr : Bool × Bool) (ap : Bool) :
    TR (dblmulStep A24 st rr ap) := by
  simp [TR, dblmulStep, copy_point_eq]

/-- a skipped iteration with digits `(0,0)` leaves the whole state unchanged -/
theorem dblmulStep_skip (A24 : EcPoint F) (st : DState F) (h : TR st) :
    dblmulStep A24 st (false, false) false = st := by
  obtain ⟨R0, R1, R2, T0, T1, T2, D1a, D1b, D2a, D2b⟩ := st
  obtain ⟨h0, h1, h2⟩ := h
  simp only at h0 h1 h2
  subst h0 h1 h2
  simp [dblmulStep, copy_point_eq, swap_points_mask]

theorem chainDigits_zero (τ : Bool) : chainDigits 0 0 false false τ = (false, false) := by
  cases τ <;> simp [chainDigits]

theorem tauUp_zero (τ : Bool) : tauUp 0 0 false false τ = τ := by
  cases τ <;> simp [tauUp, chainDigits]

/-- bounded main loop: the digit of index `i` is applied iff `i ≤ b`. If the (shifted) scalars vanish above the bound
the result still represents `CSof u v τ`. `j` is the index of the lowest digit of the current segment. -/
theorem chain_fold_bounded {a : F} (h2 : (2 : F) ≠ 0) {A24 : EcPoint F} (hA : 4 * A24.x = a + 2) (P Q : (mont a).Point)
    (b : Nat) (st0 : DState F) (hTR : TR st0) (m : Nat) : ∀ (j u v : Nat) (τ : Bool), u < 2 ^ m → v < 2 ^ m →
    u < 2 ^ (b + 1 - j) → v < 2 ^ (b + 1 - j) →
    G P Q (CSof 0 0 (chainSpec m u v τ).2) st0 →
    G P Q (CSof u v τ) ((((List.range' j m).reverse).zip (chainSpec m u v τ).1.reverse).foldl
      (fun st ir => dblmulStep A24 st ir.2 (decide (ir.1 ≤ b))) st0) ∧
    TR ((((List.range' j m).reverse).zip (chainSpec m u v τ).1.reverse).foldl
      (fun st ir => dblmulStep A24 st ir.2 (decide (ir.1 ≤ b))) st0) := by
  induction m with
  | zero =>
    intro j u v τ hu hv _ _ h0
    have hu0 : u = 0 := by simpa using hu
    have hv0 : v = 0 := by simpa using hv
    subst hu0 hv0
    simpa [chainSpec, hTR] using h0
  | succ m ih =>
    intro j u v τ hu hv hub hvb h0
    simp only [chainSpec, List.range'_succ, List.reverse_cons] at h0 ⊢
    have hlen : ((List.range' (j + 1) m).reverse).length =
        ((chainSpec m (u / 2) (v / 2) (tauUp (u / 2) (v / 2) (decide (u % 2 = 1)) (decide (v % 2 = 1)) τ)).1.reverse).length := by
      simp [chainSpec_length]
    rw [List.zip_append hlen]
    simp only [List.zip_cons_cons, List.zip_nil_right, List.foldl_append, List.foldl_cons, List.foldl_nil]
    have hu' : u / 2 < 2 ^ m := by rw [pow_succ] at hu; omega
    have hv' : v / 2 < 2 ^ m := by rw [pow_succ] at hv; omega
    by_cases hj : j ≤ b
    · -- applied iteration
      have e : b + 1 - j = (b + 1 - (j + 1)) + 1 := by omega
      have hub' : u / 2 < 2 ^ (b + 1 - (j + 1)) := by rw [e, pow_succ] at hub; omega
      have hvb' : v / 2 < 2 ^ (b + 1 - (j + 1)) := by rw [e, pow_succ] at hvb; omega
      obtain ⟨ihG, _⟩ := ih (j + 1) (u / 2) (v / 2) _ hu' hv' hub' hvb' h0
      obtain ⟨e1, e2⟩ := cs_step (u / 2) (v / 2) (decide (u % 2 = 1)) (decide (v % 2 = 1)) τ
      have := chain_step h2 hA P Q _ _ _ ihG e2
      rw [e1] at this
      have eu : 2 * (u / 2) + (decide (u % 2 = 1)).toNat = u := by
        rcases Nat.mod_two_eq_zero_or_one u with h | h <;> simp [h] <;> omega
      have ev : 2 * (v / 2) + (decide (v % 2 = 1)).toNat = v := by
        rcases Nat.mod_two_eq_zero_or_one v with h | h <;> simp [h] <;> omega
      rw [eu, ev] at this
      simp only [hj, decide_true]
      exact ⟨this, dblmulStep_TR _ _ _ _⟩
    · -- skipped iteration: the scalars vanish here
      have e : b + 1 - j = 0 := by omega
      rw [e] at hub hvb
      have hu0 : u = 0 := by simpa using hub
      have hv0 : v = 0 := by simpa using hvb
      subst hu0 hv0
      have hub' : 0 / 2 < 2 ^ (b + 1 - (j + 1)) := by simp
      obtain ⟨ihG, ihT⟩ := ih (j + 1) (0 / 2) (0 / 2) _ hu' hv' hub' hub' h0
      simp only [Nat.zero_div, Nat.zero_mod, Nat.zero_ne_one, decide_false, chainDigits_zero, tauUp_zero, hj] at ihG ihT ⊢
      rw [dblmulStep_skip _ _ ihT]
      exact ⟨ihG, ihT⟩

theorem dblmulInit_TR (σ : Bool) (P Q PQ : EcPoint F) : TR (dblmulInit σ P Q PQ) := by
  simp [TR, dblmulInit, copy_point_eq]

/-- **xDBLMUL_bounded, whole function**: main loop applied only for indices `≤ b`; correct whenever the odd-ified
scalars are `< 2^(b+1)`. -/
theorem xDBLMUL_bounded_ok {a : F} (h2 : (2 : F) ≠ 0) (nbits : Nat) (hn : 0 < nbits) (b k l : Nat) (curve : EcCurve F)
    (hA24 : 4 * (dblmulA24 curve).x = a + 2)
    (hkb : oddify nbits k < 2 ^ (b + 1)) (hlb : oddify nbits l < 2 ^ (b + 1))
    (Pt Qt : (mont a).Point) (P Q PQ : EcPoint F)
    (hP : IsX Pt P.x P.z) (hQ : IsX Qt Q.x Q.z) (hD : IsX (Pt - Qt) PQ.x PQ.z)
    (nP : XNonDeg Pt) (nQ : XNonDeg Qt) (nS : XNonDeg (Pt + Qt)) (nD : XNonDeg (Pt - Qt)) :
    IsX (chainScalar nbits k • Pt + chainScalar nbits l • Qt)
      (xDBLMULgen nbits (some b) k l P Q PQ curve).x (xDBLMULgen nbits (some b) k l P Q PQ curve).z := by
  obtain ⟨e1, e2, e3, e4⟩ := recode_spec nbits k l
  set τ0 := (decide (k % 2 = 0) && decide (l % 2 = 1)) with hτ0
  have hku : oddify nbits k < 2 ^ nbits := by
    unfold oddify; split <;> exact Nat.mod_lt _ (Nat.two_pow_pos nbits)
  have hlu : oddify nbits l < 2 ^ nbits := by
    unfold oddify; split <;> exact Nat.mod_lt _ (Nat.two_pow_pos nbits)
  have h0 := dblmulInit_G h2 Pt Qt P Q PQ (chainSpec nbits (oddify nbits k) (oddify nbits l) τ0).2 hP hQ hD nP nQ nS nD
  have hfold := (chain_fold_bounded h2 hA24 Pt Qt b _ (dblmulInit_TR _ P Q PQ) nbits 0 _ _ τ0 hku hlu
    (by simpa using hkb) (by simpa using hlb) h0).1
  simp only [xDBLMULgen, List.range_eq_range']
  rw [e1, e2]
  generalize (((List.range' 0 nbits).reverse).zip (chainSpec nbits (oddify nbits k) (oddify nbits l) τ0).1.reverse).foldl
    (fun st ir => dblmulStep (dblmulA24 curve) st ir.2 (decide (ir.1 ≤ b)))
    (dblmulInit (chainSpec nbits (oddify nbits k) (oddify nbits l) τ0).2 P Q PQ) = st at hfold
  have ok := oddify_odd nbits k hn
  have ol := oddify_odd nbits l hn
  obtain ⟨g0, g1, g2, _⟩ := hfold
  simp only [CSof, Ev_odd _ ok, Ev_odd _ ol, Od_odd _ ok, Od_odd _ ol, pt_nat] at g0 g1 g2
  simp only [dblmulOut, e3, e4, select_point_mask, chainScalar]
  rcases Nat.mod_two_eq_zero_or_one k with hk | hk <;> rcases Nat.mod_two_eq_zero_or_one l with hl | hl <;>
    simp only [hk, hl, hτ0, decide_true, decide_false, Nat.zero_ne_one, Nat.one_ne_zero, Bool.xor_false, Bool.xor_true,
      Bool.false_xor, Bool.true_xor, Bool.and_true, Bool.and_false, Bool.false_and, Bool.true_and, if_true, if_false,
      Bool.false_eq_true, Bool.xor_self, Bool.and_self, Bool.not_true, Bool.not_false, reduceCtorEq] at g1 ⊢
  · exact g0
  · exact g1
  · exact g1
  · exact g2

theorem oddify_le (n K : Nat) (hn : 0 < n) (h0 : 0 < K) (hlt : K < 2 ^ n) : oddify n K ≤ K := by
  have := chainScalar_pos n K hn h0 hlt
  unfold chainScalar at this
  split at this <;> omega

/-- **ec_biscalar_mul_bounded** (with the zero-scalar replacement of fix 76cbdb3): on points of order dividing `2^f`,
for all scalars `0 ≤ k, l < 2^f` the result represents `[k]P + [l]Q`. -/
theorem biscalarMulBounded_ok {a : F} (h2 : (2 : F) ≠ 0) (nbits tpe f : Nat) (hf : f < nbits) (k l : Nat)
    (hk : k < 2 ^ f) (hl : l < 2 ^ f) (curve : EcCurve F) (hA24 : 4 * (dblmulA24 curve).x = a + 2)
    (Pt Qt : (mont a).Point) (hoP : 2 ^ f • Pt = 0) (hoQ : 2 ^ f • Qt = 0) (P Q PQ : EcPoint F)
    (hP : IsX Pt P.x P.z) (hQ : IsX Qt Q.x Q.z) (hD : IsX (Pt - Qt) PQ.x PQ.z)
    (nP : XNonDeg Pt) (nQ : XNonDeg Qt) (nS : XNonDeg (Pt + Qt)) (nD : XNonDeg (Pt - Qt)) :
    IsX (k • Pt + l • Qt) (biscalarMulBounded nbits tpe f k l P Q PQ curve).x
      (biscalarMulBounded nbits tpe f k l P Q PQ curve).z := by
  have hn : 0 < nbits := by omega
  have hfn : 2 ^ f < 2 ^ nbits := Nat.pow_lt_pow_right (by norm_num) hf
  have hfpos : 0 < 2 ^ f := Nat.two_pow_pos f
  have hb : 2 ^ f ≤ 2 ^ (f + 2 + (nbits - tpe)) := Nat.pow_le_pow_right (by norm_num) (by omega)
  have hb1 : 2 ^ (f + 2 + (nbits - tpe)) < 2 ^ (f + 2 + (nbits - tpe) + 1) := Nat.pow_lt_pow_right (by norm_num) (by omega)
  -- effective scalars
  have key : ∀ K : Nat, K < 2 ^ f → ∀ T : (mont a).Point, 2 ^ f • T = 0 →
      (0 < (if K % 2 ^ nbits = 0 then 2 ^ f else K)) ∧ (if K % 2 ^ nbits = 0 then 2 ^ f else K) < 2 ^ nbits ∧
      (if K % 2 ^ nbits = 0 then 2 ^ f else K) ≤ 2 ^ f ∧ (if K % 2 ^ nbits = 0 then 2 ^ f else K) • T = K • T := by
    intro K hK T hT
    have hKn : K % 2 ^ nbits = K := Nat.mod_eq_of_lt (by omega)
    rw [hKn]
    by_cases h0 : K = 0
    · subst h0; simp only [if_true]
      exact ⟨hfpos, hfn, le_refl _, by rw [hT, zero_nsmul]⟩
    · simp only [h0, if_false]
      exact ⟨by omega, by omega, by omega, trivial⟩
  obtain ⟨k0, k1, k2, k3⟩ := key k hk Pt hoP
  obtain ⟨l0, l1, l2, l3⟩ := key l hl Qt hoQ
  have := xDBLMUL_bounded_ok h2 nbits hn (f + 2 + (nbits - tpe)) (if k % 2 ^ nbits = 0 then 2 ^ f else k)
    (if l % 2 ^ nbits = 0 then 2 ^ f else l) curve hA24
    (by have := oddify_le nbits _ hn k0 k1; omega) (by have := oddify_le nbits _ hn l0 l1; omega)
    Pt Qt P Q PQ hP hQ hD nP nQ nS nD
  rw [chainScalar_pos nbits _ hn k0 k1, chainScalar_pos nbits _ hn l0 l1, k3, l3] at this
  exact this

end SqiProofs.Curve

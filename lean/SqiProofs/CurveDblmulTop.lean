import SqiProofs.CurveRecode

/-! # xDBLMUL as a whole: recoding + initialisation + main loop + output selection -/

set_option linter.unusedSectionVars false
set_option linter.unusedSimpArgs false
namespace SqiProofs.Curve
open WeierstrassCurve SqiGen SqiModel.Ladder

variable {F : Type} [Field F] [DecidableEq F]

theorem foldl_zip_snd {α β γ : Type} (f : γ → β → γ) (l : List β) (idx : List α) (hlen : idx.length = l.length) (s : γ) :
    (idx.zip l).foldl (fun st ir => f st ir.2) s = l.foldl f s := by
  induction l generalizing idx s with
  | nil => cases idx <;> simp
  | cons b bs ih =>
    cases idx with
    | nil => simp at hlen
    | cons i is_ =>
      simp only [List.length_cons, Nat.add_right_cancel_iff] at hlen
      simp only [List.zip_cons_cons, List.foldl_cons]
      exact ih is_ hlen _

theorem copy_curve_eq (E : EcCurve F) : copy_curve E = E := by
  obtain ⟨A, C, ⟨x, z⟩, f⟩ := E
  simp [copy_curve, copy_point]

theorem eta_point (P : EcPoint F) : (⟨P.x, P.z⟩ : EcPoint F) = P := rfl

theorem pt_00 {a : F} (P Q : (mont a).Point) : pt P Q (0, 0) = 0 := by simp [pt]
theorem pt_10 {a : F} (P Q : (mont a).Point) : pt P Q (1, 0) = P := by simp [pt]
theorem pt_01 {a : F} (P Q : (mont a).Point) : pt P Q (0, 1) = Q := by simp [pt]
theorem pt_11 {a : F} (P Q : (mont a).Point) : pt P Q (1, 1) = P + Q := by simp [pt]
theorem pt_1m1 {a : F} (P Q : (mont a).Point) : pt P Q (1, -1) = P - Q := by simp [pt, sub_eq_add_neg]

/-- the state built before the main loop represents `CSof 0 0 σ` -/
theorem dblmulInit_G {a : F} (h2 : (2 : F) ≠ 0) (Pt Qt : (mont a).Point) (P Q PQ : EcPoint F) (σ : Bool)
    (hP : IsX Pt P.x P.z) (hQ : IsX Qt Q.x Q.z) (hD : IsX (Pt - Qt) PQ.x PQ.z)
    (nP : XNonDeg Pt) (nQ : XNonDeg Qt) (nS : XNonDeg (Pt + Qt)) (nD : XNonDeg (Pt - Qt)) :
    G Pt Qt (CSof 0 0 σ) (dblmulInit σ P Q PQ) := by
  have hDn : IsX (Qt - Pt) PQ.x PQ.z := by
    have : Qt - Pt = -(Pt - Qt) := by abel
    rw [this]; exact hD.neg
  obtain ⟨dx, dz⟩ := nD _ _ hD
  cases σ <;>
    simp only [dblmulInit, CSof, select_point_mask, copy_point_eq, eta_point, if_true, if_false, Bool.false_eq_true, Ev,
      Od, Nat.zero_div, Nat.cast_zero, mul_zero, zero_add, Nat.reduceAdd, Nat.reduceDiv, pt_00, pt_10, pt_01, pt_11, pt_1m1]
  · have hS := xADD_isX h2 hP hQ hD dx dz
    refine ⟨?_, ?_, ?_, ?_, ?_, ?_, ?_, ?_, ?_, ?_, ?_⟩ <;> simp only [pt_00, pt_10, pt_01, pt_11, pt_1m1] <;>
      (first | exact ⟨rfl, one_ne_zero⟩ | exact hP | exact hQ | exact hS | exact hD | exact nP _ _ hP | exact nQ _ _ hQ | exact nS _ _ hS | exact ⟨dx, dz⟩)
  · have hS := xADD_isX h2 hQ hP hDn dx dz
    rw [add_comm] at hS
    refine ⟨?_, ?_, ?_, ?_, ?_, ?_, ?_, ?_, ?_, ?_, ?_⟩ <;> simp only [pt_00, pt_10, pt_01, pt_11, pt_1m1] <;>
      (first | exact ⟨rfl, one_ne_zero⟩ | exact hP | exact hQ | exact hS | exact hD | exact nP _ _ hP | exact nQ _ _ hQ | exact nS _ _ hS | exact ⟨dx, dz⟩)

theorem oddify_odd (n K : Nat) (hn : 0 < n) : oddify n K % 2 = 1 := by
  have hdvd : 2 ∣ 2 ^ n := by
    obtain ⟨m, rfl⟩ := Nat.exists_eq_succ_of_ne_zero (Nat.pos_iff_ne_zero.mp hn)
    exact ⟨2 ^ m, by rw [pow_succ]; ring⟩
  have hpos : 0 < 2 ^ n := Nat.two_pow_pos n
  have hmm := Nat.mod_mod_of_dvd K hdvd
  unfold oddify
  generalize 2 ^ n = N at *
  obtain ⟨M, rfl⟩ := hdvd
  split
  · omega
  · rename_i h
    by_cases h0 : K % (2 * M) = 0
    · have : (K % (2 * M) + 2 * M - 1) % (2 * M) = 2 * M - 1 := by
        rw [h0, Nat.zero_add]; exact Nat.mod_eq_of_lt (by omega)
      rw [this]; omega
    · have : (K % (2 * M) + 2 * M - 1) % (2 * M) = K % (2 * M) - 1 := by
        have e : K % (2 * M) + 2 * M - 1 = (K % (2 * M) - 1) + 2 * M := by omega
        have hlt : K % (2 * M) < 2 * M := Nat.mod_lt _ hpos
        rw [e, Nat.add_mod_right]; exact Nat.mod_eq_of_lt (by omega)
      rw [this]; omega

/-- what the chain computes from a scalar `K`: `K` itself when it is odd or non-zero (mod `2^n`), `2^n` when it is `0` -/
def chainScalar (n K : Nat) : Nat := if K % 2 = 1 then oddify n K else oddify n K + 1

theorem Ev_odd (u : Nat) (h : u % 2 = 1) : Ev u = ((u + 1 : Nat) : ℤ) := by unfold Ev; omega
theorem Od_odd (u : Nat) (h : u % 2 = 1) : Od u = ((u : Nat) : ℤ) := by unfold Od; omega

theorem pt_nat {a : F} (P Q : (mont a).Point) (x y : Nat) : pt P Q ((x : ℤ), (y : ℤ)) = x • P + y • Q := by
  simp [pt, natCast_zsmul]

/-- **xDBLMUL, whole function** (model `SqiModel.Ladder.xDBLMUL`, any `nbits > 0`, any scalars): the result represents
`[chainScalar k]P + [chainScalar l]Q`. -/
theorem xDBLMUL_ok {a : F} (h2 : (2 : F) ≠ 0) (nbits : Nat) (hn : 0 < nbits) (k l : Nat) (curve : EcCurve F)
    (hA24 : 4 * (dblmulA24 curve).x = a + 2)
    (Pt Qt : (mont a).Point) (P Q PQ : EcPoint F)
    (hP : IsX Pt P.x P.z) (hQ : IsX Qt Q.x Q.z) (hD : IsX (Pt - Qt) PQ.x PQ.z)
    (nP : XNonDeg Pt) (nQ : XNonDeg Qt) (nS : XNonDeg (Pt + Qt)) (nD : XNonDeg (Pt - Qt)) :
    IsX (chainScalar nbits k • Pt + chainScalar nbits l • Qt)
      (xDBLMUL nbits k l P Q PQ curve).x (xDBLMUL nbits k l P Q PQ curve).z := by
  obtain ⟨e1, e2, e3, e4⟩ := recode_spec nbits k l
  set τ0 := (decide (k % 2 = 0) && decide (l % 2 = 1)) with hτ0
  have hku : oddify nbits k < 2 ^ nbits := by
    unfold oddify; split <;> exact Nat.mod_lt _ (Nat.two_pow_pos nbits)
  have hlu : oddify nbits l < 2 ^ nbits := by
    unfold oddify; split <;> exact Nat.mod_lt _ (Nat.two_pow_pos nbits)
  have h0 := dblmulInit_G h2 Pt Qt P Q PQ (chainSpec nbits (oddify nbits k) (oddify nbits l) τ0).2 hP hQ hD nP nQ nS nD
  have hfold := chain_fold h2 hA24 Pt Qt _ nbits _ _ τ0 hku hlu h0
  have hlen : ((List.range nbits).reverse).length = ((recode nbits k l).r.reverse).length := by
    rw [e1]; simp [chainSpec_length]
  have hz := foldl_zip_snd (fun st rr => dblmulStep (dblmulA24 curve) st rr true) ((recode nbits k l).r.reverse)
    ((List.range nbits).reverse) hlen (dblmulInit (recode nbits k l).sigma0 P Q PQ)
  simp only [xDBLMUL, xDBLMULgen]
  rw [hz, e1, e2]
  generalize (chainSpec nbits (oddify nbits k) (oddify nbits l) τ0).1.reverse.foldl
    (fun st rr => dblmulStep (dblmulA24 curve) st rr true)
    (dblmulInit (chainSpec nbits (oddify nbits k) (oddify nbits l) τ0).2 P Q PQ) = st at hfold
  have ok := oddify_odd nbits k hn
  have ol := oddify_odd nbits l hn
  obtain ⟨g0, g1, g2, _⟩ := hfold
  simp only [CSof, Ev_odd _ ok, Ev_odd _ ol, Od_odd _ ok, Od_odd _ ol, pt_nat] at g0 g1 g2
  simp only [dblmulOut, e3, e4, select_point_mask, chainScalar]
  rcases Nat.mod_two_eq_zero_or_one k with hk | hk <;> rcases Nat.mod_two_eq_zero_or_one l with hl | hl <;>
    simp only [hk, hl, hτ0, decide_true, decide_false, Nat.zero_ne_one, Nat.one_ne_zero, Bool.xor_false, Bool.xor_true,
      Bool.false_xor, Bool.true_xor, Bool.and_true, Bool.and_false, Bool.false_and, Bool.true_and, if_true, if_false,
      Bool.false_eq_true, Bool.xor_self, Bool.and_self, Bool.not_true, Bool.not_false, reduceCtorEq] at g1 ⊢
  · exact g0
  · exact g1
  · exact g1
  · exact g2

theorem chainScalar_pos (n K : Nat) (hn : 0 < n) (h0 : 0 < K) (hlt : K < 2 ^ n) : chainScalar n K = K := by
  unfold chainScalar oddify
  have hK : K % 2 ^ n = K := Nat.mod_eq_of_lt hlt
  rcases Nat.mod_two_eq_zero_or_one K with h | h
  · have h1 : ¬ (K % 2 = 1) := by omega
    simp only [h1, if_false, hK]
    have e : K + 2 ^ n - 1 = (K - 1) + 2 ^ n := by omega
    rw [e, Nat.add_mod_right, Nat.mod_eq_of_lt (by omega)]
    omega
  · simp only [h, if_true, hK]

/-- the boundary: a zero scalar is treated as `2^n` (the decrement of the even scalar wraps around) -/
theorem chainScalar_zero (n : Nat) : chainScalar n 0 = 2 ^ n := by
  have hpos : 0 < 2 ^ n := Nat.two_pow_pos n
  unfold chainScalar oddify
  simp only [Nat.zero_mod, Nat.zero_ne_one, if_false, Nat.zero_add]
  rw [Nat.mod_eq_of_lt (by omega)]
  omega

/-- the normalised `A24` used by xDBLMUL (`copy_curve`, `ec_curve_normalize_A24`, `copy_point`) -/
theorem dblmulA24_ok {a : F} (h2 : (2 : F) ≠ 0) (curve : EcCurve F) (hA : curve.A = a * curve.C) (hC : curve.C ≠ 0)
    (hflag : curve.is_A24_computed_and_normalized ≠ 0 → 4 * curve.A24.x = a + 2) :
    4 * (dblmulA24 curve).x = a + 2 := by
  simp only [dblmulA24, copy_curve_eq, copy_point_eq]
  by_cases hf : curve.is_A24_computed_and_normalized = 0
  · exact (normalize_A24_ok h2 curve hA hC hf).1
  · have : ec_curve_normalize_A24 curve = curve := by simp [ec_curve_normalize_A24, hf]
    rw [this]
    exact hflag hf

end SqiProofs.Curve

import SqiProofs.CurveBasic

/-! # The generated x-only formulas (SqiGen.Ec) have the doubling / differential-addition shape

Every lemma here is about a definition regenerated from `src/ec/ref/ecx/ec.c` on each run. -/

set_option linter.unusedSectionVars false
namespace SqiProofs.Curve
open WeierstrassCurve SqiGen

variable {F : Type} [Field F] [DecidableEq F]

/-- `(U : V)` is a projective representative of `(a + 2)/4`, i.e. of `(A + 2C : 4C)` -/
def IsA24 (a U V : F) : Prop := V ≠ 0 ∧ 4 * U = (a + 2) * V

/-! ## shapes (pure ring identities) -/

theorem xDBL_x (a C X Z : F) : (xDBL ⟨X, Z⟩ ⟨a * C, C⟩).x = (4 * C) * (X ^ 2 - Z ^ 2) ^ 2 := by
  simp only [xDBL]; ring

theorem xDBL_z (a C X Z : F) :
    (xDBL ⟨X, Z⟩ ⟨a * C, C⟩).z = (4 * C) * (4 * X * Z * (X ^ 2 + a * X * Z + Z ^ 2)) := by
  simp only [xDBL]; ring

theorem xDBL_A24_x (U V X Z : F) : (xDBL_A24 ⟨X, Z⟩ ⟨U, V⟩).x = V * (X ^ 2 - Z ^ 2) ^ 2 := by
  simp only [xDBL_A24]; ring

theorem xDBL_A24_z (a U V X Z : F) (hU : 4 * U = (a + 2) * V) :
    (xDBL_A24 ⟨X, Z⟩ ⟨U, V⟩).z = V * (4 * X * Z * (X ^ 2 + a * X * Z + Z ^ 2)) := by
  simp only [xDBL_A24]
  linear_combination (4 * X ^ 2 * Z ^ 2) * hU

theorem xDBL_A24n_x (U V X Z : F) : (xDBL_A24_normalized ⟨X, Z⟩ ⟨U, V⟩).x = 1 * (X ^ 2 - Z ^ 2) ^ 2 := by
  simp only [xDBL_A24_normalized]; ring

theorem xDBL_A24n_z (a U V X Z : F) (hU : 4 * U = a + 2) :
    (xDBL_A24_normalized ⟨X, Z⟩ ⟨U, V⟩).z = 1 * (4 * X * Z * (X ^ 2 + a * X * Z + Z ^ 2)) := by
  simp only [xDBL_A24_normalized]
  linear_combination (4 * X ^ 2 * Z ^ 2) * hU

theorem xADD_x (Xp Zp Xq Zq Xd Zd : F) :
    (xADD ⟨Xp, Zp⟩ ⟨Xq, Zq⟩ ⟨Xd, Zd⟩).x = 4 * Zd * (Xp * Xq - Zp * Zq) ^ 2 := by
  simp only [xADD]; ring

theorem xADD_z (Xp Zp Xq Zq Xd Zd : F) :
    (xADD ⟨Xp, Zp⟩ ⟨Xq, Zq⟩ ⟨Xd, Zd⟩).z = 4 * Xd * (Xp * Zq - Zp * Xq) ^ 2 := by
  simp only [xADD]; ring

/-- `xDBLADD` is `xDBL_A24` on its first point and `xADD` on the pair -/
theorem xDBLADD_fst (P Q PQ A24 : EcPoint F) :
    (xDBLADD P Q PQ A24).1.x = (xDBL_A24 P A24).x ∧ (xDBLADD P Q PQ A24).1.z = (xDBL_A24 P A24).z := by
  refine ⟨by simp only [xDBLADD, xDBL_A24], by simp only [xDBLADD, xDBL_A24]; ring⟩

theorem xDBLADD_snd (P Q PQ A24 : EcPoint F) :
    (xDBLADD P Q PQ A24).2.x = (xADD P Q PQ).x ∧ (xDBLADD P Q PQ A24).2.z = (xADD P Q PQ).z := by
  constructor <;> (simp only [xDBLADD, xADD]; ring)

theorem xDBLADDn_fst (P Q PQ A24 : EcPoint F) :
    (xDBLADD_normalized P Q PQ A24).1.x = (xDBL_A24_normalized P A24).x ∧
    (xDBLADD_normalized P Q PQ A24).1.z = (xDBL_A24_normalized P A24).z := by
  refine ⟨by simp only [xDBLADD_normalized, xDBL_A24_normalized], by simp only [xDBLADD_normalized, xDBL_A24_normalized]; ring⟩

theorem xDBLADDn_snd (P Q PQ A24 : EcPoint F) :
    (xDBLADD_normalized P Q PQ A24).2.x = (xADD P Q PQ).x ∧ (xDBLADD_normalized P Q PQ A24).2.z = (xADD P Q PQ).z := by
  constructor <;> (simp only [xDBLADD_normalized, xADD]; ring)

/-! ## correctness of each variant -/

theorem four_ne' (h2 : (2 : F) ≠ 0) : (4 : F) ≠ 0 := four_ne (h2 := h2)

theorem xDBL_isX {a : F} (h2 : (2 : F) ≠ 0) {A C : F} (hA : A = a * C) (hC : C ≠ 0)
    {Pt : (mont a).Point} {P : EcPoint F} (hP : IsX Pt P.x P.z) :
    IsX (Pt + Pt) (xDBL P ⟨A, C⟩).x (xDBL P ⟨A, C⟩).z := by
  subst hA
  obtain ⟨X, Z⟩ := P
  rw [xDBL_x, xDBL_z]
  exact isX_dbl h2 (mul_ne_zero (four_ne' h2) hC) hP

theorem xDBL_A24_isX {a : F} (h2 : (2 : F) ≠ 0) {A24 : EcPoint F} (hA : IsA24 a A24.x A24.z)
    {Pt : (mont a).Point} {P : EcPoint F} (hP : IsX Pt P.x P.z) :
    IsX (Pt + Pt) (xDBL_A24 P A24).x (xDBL_A24 P A24).z := by
  obtain ⟨X, Z⟩ := P
  obtain ⟨U, V⟩ := A24
  rw [xDBL_A24_x, xDBL_A24_z a U V X Z hA.2]
  exact isX_dbl h2 hA.1 hP

theorem xDBL_A24n_isX {a : F} (h2 : (2 : F) ≠ 0) {A24 : EcPoint F} (hA : 4 * A24.x = a + 2)
    {Pt : (mont a).Point} {P : EcPoint F} (hP : IsX Pt P.x P.z) :
    IsX (Pt + Pt) (xDBL_A24_normalized P A24).x (xDBL_A24_normalized P A24).z := by
  obtain ⟨X, Z⟩ := P
  obtain ⟨U, V⟩ := A24
  rw [xDBL_A24n_x, xDBL_A24n_z a U V X Z hA]
  exact isX_dbl h2 one_ne_zero hP

theorem xADD_isX {a : F} (h2 : (2 : F) ≠ 0) {Pt Qt : (mont a).Point} {P Q PQ : EcPoint F}
    (hP : IsX Pt P.x P.z) (hQ : IsX Qt Q.x Q.z) (hD : IsX (Pt - Qt) PQ.x PQ.z)
    (hx : PQ.x ≠ 0) (hz : PQ.z ≠ 0) :
    IsX (Pt + Qt) (xADD P Q PQ).x (xADD P Q PQ).z := by
  obtain ⟨Xp, Zp⟩ := P
  obtain ⟨Xq, Zq⟩ := Q
  obtain ⟨Xd, Zd⟩ := PQ
  rw [xADD_x, xADD_z]
  exact isX_add h2 (four_ne' h2) hP hQ hD hx hz

theorem xDBLADD_isX {a : F} (h2 : (2 : F) ≠ 0) {A24 : EcPoint F} (hA : IsA24 a A24.x A24.z)
    {Pt Qt : (mont a).Point} {P Q PQ : EcPoint F}
    (hP : IsX Pt P.x P.z) (hQ : IsX Qt Q.x Q.z) (hD : IsX (Pt - Qt) PQ.x PQ.z)
    (hx : PQ.x ≠ 0) (hz : PQ.z ≠ 0) :
    IsX (Pt + Pt) (xDBLADD P Q PQ A24).1.x (xDBLADD P Q PQ A24).1.z ∧
    IsX (Pt + Qt) (xDBLADD P Q PQ A24).2.x (xDBLADD P Q PQ A24).2.z := by
  rw [(xDBLADD_fst P Q PQ A24).1, (xDBLADD_fst P Q PQ A24).2, (xDBLADD_snd P Q PQ A24).1, (xDBLADD_snd P Q PQ A24).2]
  exact ⟨xDBL_A24_isX h2 hA hP, xADD_isX h2 hP hQ hD hx hz⟩

theorem xDBLADDn_isX {a : F} (h2 : (2 : F) ≠ 0) {A24 : EcPoint F} (hA : 4 * A24.x = a + 2)
    {Pt Qt : (mont a).Point} {P Q PQ : EcPoint F}
    (hP : IsX Pt P.x P.z) (hQ : IsX Qt Q.x Q.z) (hD : IsX (Pt - Qt) PQ.x PQ.z)
    (hx : PQ.x ≠ 0) (hz : PQ.z ≠ 0) :
    IsX (Pt + Pt) (xDBLADD_normalized P Q PQ A24).1.x (xDBLADD_normalized P Q PQ A24).1.z ∧
    IsX (Pt + Qt) (xDBLADD_normalized P Q PQ A24).2.x (xDBLADD_normalized P Q PQ A24).2.z := by
  rw [(xDBLADDn_fst P Q PQ A24).1, (xDBLADDn_fst P Q PQ A24).2, (xDBLADDn_snd P Q PQ A24).1,
    (xDBLADDn_snd P Q PQ A24).2]
  exact ⟨xDBL_A24n_isX h2 hA hP, xADD_isX h2 hP hQ hD hx hz⟩

/-! ## degenerate differences: exactly what `xADD` returns -/

/-- difference `∞` (i.e. `P = Q`): the result has `X = 0` -/
theorem xADD_diff_inf (P Q : EcPoint F) (Xd : F) : (xADD P Q ⟨Xd, 0⟩).x = 0 := by
  simp only [xADD]; ring

/-- difference `(0,0)`: the result has `Z = 0` -/
theorem xADD_diff_T (P Q : EcPoint F) (Zd : F) : (xADD P Q ⟨0, Zd⟩).z = 0 := by
  simp only [xADD]; ring

/-- both inputs `∞`: the result is `(0 : 0)` whatever the difference -/
theorem xADD_inf_inf (Xp Xq : F) (PQ : EcPoint F) :
    (xADD ⟨Xp, 0⟩ ⟨Xq, 0⟩ PQ).z = 0 := by
  simp only [xADD]; ring

/-! ## curve-constant conversions -/

theorem AC_to_A24_isA24 {a A C : F} (h2 : (2 : F) ≠ 0) (hA : A = a * C) (hC : C ≠ 0) (E : EcCurve F)
    (hEA : E.A = A) (hEC : E.C = C) : IsA24 a (AC_to_A24 E).x (AC_to_A24 E).z := by
  simp only [AC_to_A24, hEA, hEC, IsA24]
  subst hA
  refine ⟨?_, by ring⟩
  have : C + C + (C + C) = 4 * C := by ring
  rw [this]
  exact mul_ne_zero (four_ne' h2) hC

theorem A24_to_AC_ok {a U V : F} (hA : IsA24 a U V) (E : EcCurve F) :
    (A24_to_AC E ⟨U, V⟩).A = a * (A24_to_AC E ⟨U, V⟩).C ∧ (A24_to_AC E ⟨U, V⟩).C ≠ 0 := by
  simp only [A24_to_AC]
  refine ⟨?_, hA.1⟩
  linear_combination hA.2

/-- `ec_curve_normalize_A24` on a curve whose flag is clear stores `((A+2C)/4C : 1)` -/
theorem normalize_A24_ok {a : F} (h2 : (2 : F) ≠ 0) (E : EcCurve F) (hA : E.A = a * E.C) (hC : E.C ≠ 0)
    (hflag : E.is_A24_computed_and_normalized = 0) :
    4 * (ec_curve_normalize_A24 E).A24.x = a + 2 ∧ (ec_curve_normalize_A24 E).A24.z = 1 ∧
    (ec_curve_normalize_A24 E).A = E.A ∧ (ec_curve_normalize_A24 E).C = E.C := by
  simp only [ec_curve_normalize_A24, hflag, decide_true, if_true, ec_normalize_point, AC_to_A24]
  refine ⟨?_, trivial, trivial, trivial⟩
  have h4 : (4 : F) ≠ 0 := four_ne' h2
  have : E.C + E.C + (E.C + E.C) = 4 * E.C := by ring
  rw [this, hA]
  field_simp
  ring

/-! ## homogeneity: rescaling any projective input rescales the outputs -/

theorem xDBL_homog (c d X Z A C : F) :
    (xDBL ⟨c * X, c * Z⟩ ⟨d * A, d * C⟩).x = (c ^ 4 * d) * (xDBL ⟨X, Z⟩ ⟨A, C⟩).x ∧
    (xDBL ⟨c * X, c * Z⟩ ⟨d * A, d * C⟩).z = (c ^ 4 * d) * (xDBL ⟨X, Z⟩ ⟨A, C⟩).z := by
  constructor <;> (simp only [xDBL]; ring)

theorem xDBL_A24_homog (c d X Z U V : F) :
    (xDBL_A24 ⟨c * X, c * Z⟩ ⟨d * U, d * V⟩).x = (c ^ 4 * d) * (xDBL_A24 ⟨X, Z⟩ ⟨U, V⟩).x ∧
    (xDBL_A24 ⟨c * X, c * Z⟩ ⟨d * U, d * V⟩).z = (c ^ 4 * d) * (xDBL_A24 ⟨X, Z⟩ ⟨U, V⟩).z := by
  constructor <;> (simp only [xDBL_A24]; ring)

theorem xADD_homog (c d e Xp Zp Xq Zq Xd Zd : F) :
    (xADD ⟨c * Xp, c * Zp⟩ ⟨d * Xq, d * Zq⟩ ⟨e * Xd, e * Zd⟩).x = (c ^ 2 * d ^ 2 * e) * (xADD ⟨Xp, Zp⟩ ⟨Xq, Zq⟩ ⟨Xd, Zd⟩).x ∧
    (xADD ⟨c * Xp, c * Zp⟩ ⟨d * Xq, d * Zq⟩ ⟨e * Xd, e * Zd⟩).z = (c ^ 2 * d ^ 2 * e) * (xADD ⟨Xp, Zp⟩ ⟨Xq, Zq⟩ ⟨Xd, Zd⟩).z := by
  constructor <;> (simp only [xADD]; ring)

theorem xDBLADD_homog (c d e g Xp Zp Xq Zq Xd Zd U V : F) :
    let r' := xDBLADD ⟨c * Xp, c * Zp⟩ ⟨d * Xq, d * Zq⟩ ⟨e * Xd, e * Zd⟩ ⟨g * U, g * V⟩
    let r := xDBLADD ⟨Xp, Zp⟩ ⟨Xq, Zq⟩ ⟨Xd, Zd⟩ ⟨U, V⟩
    r'.1.x = (c ^ 4 * g) * r.1.x ∧ r'.1.z = (c ^ 4 * g) * r.1.z ∧
    r'.2.x = (c ^ 2 * d ^ 2 * e) * r.2.x ∧ r'.2.z = (c ^ 2 * d ^ 2 * e) * r.2.z := by
  refine ⟨?_, ?_, ?_, ?_⟩ <;> (simp only [xDBLADD]; ring)

end SqiProofs.Curve

import SqiProofs.CurveBoundary

/-! # ec_isomorphism: the constants (Nx, Nz, D) define the Montgomery → short Weierstrass → Montgomery isomorphism -/

set_option linter.unusedSectionVars false
set_option linter.unusedSimpArgs false
namespace SqiProofs.Curve
open WeierstrassCurve SqiGen SqiModel.Ladder

variable {F : Type} [Field F] [DecidableEq F]

/-- short-Weierstrass form of the conditions: `p' = s² p`, `q' = s³ q` with `p = (3 - a²)/3`, `q = (2a³ - 9a)/27`.
Under them `x ↦ s x - (a' - s a)/3` maps `mont a` onto `mont a'` (`y ↦ s^{3/2} y`). -/
theorem iso_maps_curve_sw {a a' s x : F} (h3 : (3 : F) ≠ 0) (H1 : 3 - a' ^ 2 = s ^ 2 * (3 - a ^ 2))
    (H2 : 2 * a' ^ 3 - 9 * a' = s ^ 3 * (2 * a ^ 3 - 9 * a)) :
    (s * x - (a' - s * a) / 3) ^ 3 + a' * (s * x - (a' - s * a) / 3) ^ 2 + (s * x - (a' - s * a) / 3)
      = s ^ 3 * (x ^ 3 + a * x ^ 2 + x) := by
  field_simp
  linear_combination (3 * s * (3 * x + a)) * H1 + H2

/-- and they force equal j-invariants -/
theorem iso_j_cross_sw {a a' s : F} (h3 : (3 : F) ≠ 0) (H1 : 3 - a' ^ 2 = s ^ 2 * (3 - a ^ 2))
    (H2 : 2 * a' ^ 3 - 9 * a' = s ^ 3 * (2 * a ^ 3 - 9 * a)) :
    (a' ^ 2 - 3) ^ 3 * (a ^ 2 - 4) = (a ^ 2 - 3) ^ 3 * (a' ^ 2 - 4) := by
  have e1 : a' ^ 2 - 3 = s ^ 2 * (a ^ 2 - 3) := by linear_combination -H1
  have e2 : (2 * a' ^ 3 - 9 * a') ^ 2 = s ^ 6 * (2 * a ^ 3 - 9 * a) ^ 2 := by rw [H2]; ring
  have e3 : (27 : F) * (a' ^ 2 - 4) = 27 * (s ^ 6 * (a ^ 2 - 4)) := by
    have q : ∀ b : F, (2 * b ^ 3 - 9 * b) ^ 2 = 4 * (b ^ 2 - 3) ^ 3 - 27 * (b ^ 2 - 4) := fun b => by ring
    rw [q a', q a, e1] at e2
    linear_combination -e2
  have h27 : (27 : F) ≠ 0 := by
    have : (27 : F) = 3 * 3 * 3 := by norm_num
    rw [this]; exact mul_ne_zero (mul_ne_zero h3 h3) h3
  have e4 : a' ^ 2 - 4 = s ^ 6 * (a ^ 2 - 4) := mul_left_cancel₀ h27 e3
  rw [e1, e4]; ring

/-- **ec_isomorphism.** Curves `(A : C)`, `(A' : C')` with `a² ≠ 3` and equal j-invariants (cross-multiplied form), `sqrt`
returning a square root of the ratio `(3C'²C² - A'²C²)/(3C'²C² - A²C'²)` (as computed by the code): the returned
`(Nx, Nz, D)` has `D = 3CC' ≠ 0`, and with `s = Nx / D`: `p' = s² p`, `q' = s³ q` (the sign test of the code fixes the
second), `Nz / D = (a' - s a)/3`. -/
theorem ec_isomorphism_ok (h3 : (3 : F) ≠ 0) (sqrt : F → F) (E E' : EcCurve F) (a a' : F)
    (hC : E.C ≠ 0) (hC' : E'.C ≠ 0) (hA : E.A = a * E.C) (hA' : E'.A = a' * E'.C) (hp : 3 - a ^ 2 ≠ 0)
    (hj : (a' ^ 2 - 3) ^ 3 * (a ^ 2 - 4) = (a ^ 2 - 3) ^ 3 * (a' ^ 2 - 4))
    (hsq : ∀ t : F, t = (3 - a' ^ 2) / (3 - a ^ 2) → sqrt t ^ 2 = t) :
    let iso := ec_isomorphism sqrt E E'
    iso.D ≠ 0 ∧ 3 - a' ^ 2 = (iso.Nx / iso.D) ^ 2 * (3 - a ^ 2) ∧
    2 * a' ^ 3 - 9 * a' = (iso.Nx / iso.D) ^ 3 * (2 * a ^ 3 - 9 * a) ∧
    iso.Nz / iso.D = (a' - iso.Nx / iso.D * a) / 3 := by
  have hT : (E'.C * E.C * (E'.C * E.C) + E'.C * E.C * (E'.C * E.C) + E'.C * E.C * (E'.C * E.C) - E'.A * E.C * (E'.A * E.C)) *
      (E'.C * E.C * (E'.C * E.C) + E'.C * E.C * (E'.C * E.C) + E'.C * E.C * (E'.C * E.C) - E.A * E'.C * (E.A * E'.C))⁻¹
      = (3 - a' ^ 2) / (3 - a ^ 2) := by
    have hden : E'.C * E.C * (E'.C * E.C) + E'.C * E.C * (E'.C * E.C) + E'.C * E.C * (E'.C * E.C) - E.A * E'.C * (E.A * E'.C)
        = (E.C * E'.C) ^ 2 * (3 - a ^ 2) := by rw [hA]; ring
    have hnum : E'.C * E.C * (E'.C * E.C) + E'.C * E.C * (E'.C * E.C) + E'.C * E.C * (E'.C * E.C) - E'.A * E.C * (E'.A * E.C)
        = (E.C * E'.C) ^ 2 * (3 - a' ^ 2) := by rw [hA']; ring
    have hcc : (E.C * E'.C) ^ 2 ≠ 0 := pow_ne_zero _ (mul_ne_zero hC hC')
    rw [hden, hnum]
    field_simp
  have hD : ((1 : F) + 1 + 1) * E.C * E'.C ≠ 0 := by
    have : ((1 : F) + 1 + 1) = 3 := by norm_num
    rw [this]; exact mul_ne_zero (mul_ne_zero h3 hC) hC'
  simp only [ec_isomorphism, hT]
  set μ := sqrt ((3 - a' ^ 2) / (3 - a ^ 2)) with hμ
  have hμ2 : μ ^ 2 = (3 - a' ^ 2) / (3 - a ^ 2) := hsq _ rfl
  have H1 : 3 - a' ^ 2 = μ ^ 2 * (3 - a ^ 2) := by rw [hμ2, div_mul_cancel₀ _ hp]
  have e1 : a' ^ 2 - 3 = μ ^ 2 * (a ^ 2 - 3) := by linear_combination -H1
  have hp' : a ^ 2 - 3 ≠ 0 := by intro h; apply hp; linear_combination -h
  have e4 : a' ^ 2 - 4 = μ ^ 6 * (a ^ 2 - 4) := by
    have : (a ^ 2 - 3) ^ 3 * (a' ^ 2 - 4) = (a ^ 2 - 3) ^ 3 * (μ ^ 6 * (a ^ 2 - 4)) := by
      rw [← hj, e1]; ring
    exact mul_left_cancel₀ (pow_ne_zero 3 hp') this
  have q : ∀ b : F, (2 * b ^ 3 - 9 * b) ^ 2 = 4 * (b ^ 2 - 3) ^ 3 - 27 * (b ^ 2 - 4) := fun b => by ring
  have hQ : (2 * a' ^ 3 - 9 * a') ^ 2 = (μ ^ 3 * (2 * a ^ 3 - 9 * a)) ^ 2 := by
    rw [q a', e1, e4]
    have := q a
    linear_combination (-(μ ^ 6)) * this
  by_cases hc : (E'.A * E'.A + E'.A * E'.A - (E'.C * E'.C + (E'.C * E'.C + E'.C * E'.C + (E'.C * E'.C + E'.C * E'.C) +
        (E'.C * E'.C + E'.C * E'.C + (E'.C * E'.C + E'.C * E'.C))))) * E'.A * (E.C * E.C * E.C) =
      μ * μ * μ * ((E.A * E.A + E.A * E.A - (E.C * E.C + (E.C * E.C + E.C * E.C + (E.C * E.C + E.C * E.C) +
        (E.C * E.C + E.C * E.C + (E.C * E.C + E.C * E.C))))) * E.A * (E'.C * E'.C * E'.C))
  · have H2 : 2 * a' ^ 3 - 9 * a' = μ ^ 3 * (2 * a ^ 3 - 9 * a) := by
      rw [hA, hA'] at hc
      have hcc : E.C ^ 3 * E'.C ^ 3 ≠ 0 := mul_ne_zero (pow_ne_zero _ hC) (pow_ne_zero _ hC')
      have : (2 * a' ^ 3 - 9 * a') * (E.C ^ 3 * E'.C ^ 3) = μ ^ 3 * (2 * a ^ 3 - 9 * a) * (E.C ^ 3 * E'.C ^ 3) := by
        linear_combination hc
      exact mul_right_cancel₀ hcc this
    simp only [hc, decide_true, Bool.not_true, Bool.false_eq_true, if_false]
    refine ⟨hD, ?_, ?_, ?_⟩
    · rw [mul_div_cancel_left₀ _ hD]; exact H1
    · rw [mul_div_cancel_left₀ _ hD]; exact H2
    · rw [mul_div_cancel_left₀ _ hD, hA, hA']
      have h111 : (1 : F) + 1 + 1 = 3 := by norm_num
      rw [h111]; field_simp
  · have H2 : 2 * a' ^ 3 - 9 * a' = (-μ) ^ 3 * (2 * a ^ 3 - 9 * a) := by
      have hne : 2 * a' ^ 3 - 9 * a' ≠ μ ^ 3 * (2 * a ^ 3 - 9 * a) := by
        intro h
        apply hc
        rw [hA, hA']
        linear_combination (E.C ^ 3 * E'.C ^ 3) * h
      have : (2 * a' ^ 3 - 9 * a' - μ ^ 3 * (2 * a ^ 3 - 9 * a)) * (2 * a' ^ 3 - 9 * a' + μ ^ 3 * (2 * a ^ 3 - 9 * a)) = 0 := by
        linear_combination hQ
      rcases mul_eq_zero.mp this with h | h
      · exact absurd (sub_eq_zero.mp h) hne
      · linear_combination h
    simp only [hc, decide_false, Bool.not_false, if_true]
    refine ⟨hD, ?_, ?_, ?_⟩
    · rw [mul_div_cancel_left₀ _ hD]; rw [H1]; ring
    · rw [mul_div_cancel_left₀ _ hD]; exact H2
    · rw [mul_div_cancel_left₀ _ hD, hA, hA']
      have h111 : (1 : F) + 1 + 1 = 3 := by norm_num
      rw [h111]; field_simp

end SqiProofs.Curve

import SqiProofs.CurveLadder

/-! # Jacobian coordinates, j-invariant, isomorphisms, degenerate ladder inputs, ec_dbl_iter -/

set_option linter.unusedSectionVars false
set_option linter.unusedSimpArgs false
namespace SqiProofs.Curve
open WeierstrassCurve SqiGen SqiModel.Ladder

variable {F : Type} [Field F] [DecidableEq F]

/-! ## ladder on the point at infinity -/

theorem xDBLADD_z_zero (Xp Xq : F) (PQ A24 : EcPoint F) (_hPQ : PQ.z = 0) :
    (xDBLADD ⟨Xp, 0⟩ ⟨Xq, 0⟩ PQ A24).1.z = 0 ∧ (xDBLADD ⟨Xp, 0⟩ ⟨Xq, 0⟩ PQ A24).2.z = 0 := by
  constructor <;> (simp only [xDBLADD]; ring)

theorem xMULbits_inf (A24 : EcPoint F) (X : F) (bits : List Bool) :
    (xMULbits bits ⟨X, 0⟩ A24).z = 0 := by
  have key : ∀ (bits : List Bool) (st : LState F), st.R0.z = 0 → st.R1.z = 0 →
      (bits.foldl (ladderStep ⟨X, 0⟩ A24) st).R0.z = 0 ∧ (bits.foldl (ladderStep ⟨X, 0⟩ A24) st).R1.z = 0 := by
    intro bits
    induction bits with
    | nil => intro st h0 h1; exact ⟨h0, h1⟩
    | cons b bs ih =>
      intro st h0 h1
      simp only [List.foldl_cons]
      apply ih
      · obtain ⟨⟨x0, z0⟩, ⟨x1, z1⟩, prev⟩ := st
        simp only at h0 h1
        subst h0 h1
        simp only [ladderStep, swap_points_mask]
        split <;> exact (xDBLADD_z_zero _ _ _ _ rfl).1
      · obtain ⟨⟨x0, z0⟩, ⟨x1, z1⟩, prev⟩ := st
        simp only at h0 h1
        subst h0 h1
        simp only [ladderStep, swap_points_mask]
        split <;> exact (xDBLADD_z_zero _ _ _ _ rfl).2
  have := key bits (ladderInit ⟨X, 0⟩) (by simp [ladderInit, ec_point_init]) (by simp [ladderInit])
  simp only [xMULbits, ladderFinish, swap_points_mask]
  split
  · exact this.2
  · exact this.1

/-! ## ec_dbl_iter -/

theorem dblIter_ok {a : F} (h2 : (2 : F) ≠ 0) (res : EcPoint F) (n : Int) (curve : EcCurve F)
    (hA : curve.A = a * curve.C) (hC : curve.C ≠ 0)
    (hflag : curve.is_A24_computed_and_normalized ≠ 0 → IsA24 a curve.A24.x curve.A24.z)
    (Pt : (mont a).Point) (P : EcPoint F) (hP : IsX Pt P.x P.z) :
    (0 < n → IsX (2 ^ n.toNat • Pt) (dblIter res n curve P).1.x (dblIter res n curve P).1.z) ∧
    (n ≤ 0 → (dblIter res n curve P).1 = res) := by
  constructor
  · intro hn
    simp only [dblIter, gt_iff_lt, hn, if_true]
    split
    · -- n > 50 : xDBL_A24 with the (re)normalised A24
      apply iter_dbl_isX
      · intro T R hR
        apply xDBL_A24_isX h2 _ hR
        by_cases hf : curve.is_A24_computed_and_normalized = 0
        · obtain ⟨h4, hz, _, _⟩ := normalize_A24_ok h2 curve hA hC hf
          exact ⟨by rw [hz]; exact one_ne_zero, by rw [hz, mul_one]; exact h4⟩
        · have : ec_curve_normalize_A24 curve = curve := by
            simp [ec_curve_normalize_A24, hf]
          rw [this]
          exact hflag hf
      · exact hP
    · apply iter_dbl_isX
      · intro T R hR
        exact xDBL_isX h2 hA hC hR
      · exact hP
  · intro hn
    have : ¬ (n > 0) := by omega
    simp only [dblIter, this, if_false]

/-! ## Jacobian coordinates `(X : Y : Z) ↦ (X/Z², Y/Z³)` -/

/-- mathematical reading: `∞ ⇔ Z = 0` -/
def IsJac {a : F} : (mont a).Point → JacPoint F → Prop
  | .zero, J => J.z = 0
  | .some x y _, J => J.z ≠ 0 ∧ J.x = x * J.z ^ 2 ∧ J.y = y * J.z ^ 3

/-- the form of `∞` that the code itself recognises (`jac_init`): `X = 0 ∧ Z = 0`, `Y ≠ 0` -/
def IsJacC {a : F} : (mont a).Point → JacPoint F → Prop
  | .zero, J => J.x = 0 ∧ J.z = 0 ∧ J.y ≠ 0
  | .some x y _, J => J.z ≠ 0 ∧ J.x = x * J.z ^ 2 ∧ J.y = y * J.z ^ 3

theorem IsJacC.isJac {a : F} {Pt : (mont a).Point} {J : JacPoint F} (h : IsJacC Pt J) : IsJac Pt J := by
  match Pt, h with
  | .zero, h => exact h.2.1
  | .some _ _ _, h => exact h

theorem jac_to_xz_ok {a : F} (Pt : (mont a).Point) (J : JacPoint F) (hJ : IsJac Pt J) :
    IsX Pt (jac_to_xz J).x (jac_to_xz J).z ∨ (Pt = 0 ∧ (jac_to_xz J).z = 0) := by
  match Pt, hJ with
  | .zero, h =>
    right
    refine ⟨rfl, ?_⟩
    simp only [jac_to_xz]
    have h' : J.z = 0 := h
    rw [h', mul_zero]
  | .some x y hxy, ⟨hz, hx, _⟩ =>
    left
    simp only [jac_to_xz]
    exact ⟨mul_ne_zero hz hz, by rw [hx]; ring⟩

theorem jac_neg_ok {a : F} (Pt : (mont a).Point) (J : JacPoint F) (hJ : IsJac Pt J) : IsJac (-Pt) (jac_neg J) := by
  match Pt, hJ with
  | .zero, h => exact h
  | .some x y hxy, ⟨hz, hx, hy⟩ =>
    rw [Affine.Point.neg_some]
    refine ⟨hz, hx, ?_⟩
    simp only [jac_neg, mont_negY]
    rw [hy]; ring

/-- both coordinates of a doubling, `y ≠ 0` -/
theorem dbl_some_xy {a x y : F} (h : (mont a).Nonsingular x y) (hy : y ≠ 0) (h2 : (2 : F) ≠ 0) :
    ∃ x3 y3 h3, Affine.Point.some x y h + Affine.Point.some x y h = Affine.Point.some x3 y3 h3 ∧
      x3 = ((3 * x ^ 2 + 2 * a * x + 1) / (2 * y)) ^ 2 - a - x - x ∧
      y3 = (3 * x ^ 2 + 2 * a * x + 1) / (2 * y) * (x - x3) - y := by
  have hneg : y ≠ (mont a).negY x y := by rw [mont_negY]; exact two_y_ne hy h2
  have hsl : (mont a).slope x x y y = (3 * x ^ 2 + 2 * a * x + 1) / (2 * y) := by
    rw [Affine.slope_of_Y_ne rfl hneg]
    simp only [Affine.negY, mont]
    have : y - (-y - 0 * x - 0) = 2 * y := by ring
    rw [this]
    ring
  have hX : (mont a).addX x x ((mont a).slope x x y y) =
      ((3 * x ^ 2 + 2 * a * x + 1) / (2 * y)) ^ 2 - a - x - x := by
    rw [hsl]; simp only [Affine.addX, mont]; ring
  refine ⟨_, _, _, Affine.Point.add_self_of_Y_ne hneg, hX, ?_⟩
  simp only [Affine.addY, Affine.negAddY, Affine.negY]
  rw [hX, hsl]
  simp only [mont]
  ring

/-- both coordinates of a sum, `x₁ ≠ x₂` -/
theorem add_some_ne_xy {a x1 y1 x2 y2 : F} (h1 : (mont a).Nonsingular x1 y1) (h2 : (mont a).Nonsingular x2 y2)
    (hx : x1 ≠ x2) :
    ∃ x3 y3 h3, Affine.Point.some x1 y1 h1 + Affine.Point.some x2 y2 h2 = Affine.Point.some x3 y3 h3 ∧
      x3 = ((y1 - y2) / (x1 - x2)) ^ 2 - a - x1 - x2 ∧ y3 = (y1 - y2) / (x1 - x2) * (x1 - x3) - y1 := by
  have hsl : (mont a).slope x1 x2 y1 y2 = (y1 - y2) / (x1 - x2) := Affine.slope_of_X_ne hx
  have hX : (mont a).addX x1 x2 ((mont a).slope x1 x2 y1 y2) = ((y1 - y2) / (x1 - x2)) ^ 2 - a - x1 - x2 := by
    rw [hsl]; simp only [Affine.addX, mont]; ring
  refine ⟨_, _, _, Affine.Point.add_of_X_ne hx, hX, ?_⟩
  simp only [Affine.addY, Affine.negAddY, Affine.negY]
  rw [hX, hsl]
  simp only [mont]
  ring

theorem DBL_generic (J : JacPoint F) (AC : EcCurve F) (h : ¬ (J.x = 0 ∧ J.z = 0)) :
    DBL J AC =
      (let al := 3 * J.x ^ 2 + J.z ^ 2 * (2 * AC.A * J.x + J.z ^ 2)
       let X := al ^ 2 - 4 * AC.A * J.y ^ 2 * J.z ^ 2 - 8 * J.x * J.y ^ 2
       ⟨X, al * (4 * J.x * J.y ^ 2 - X) - 8 * J.y ^ 4, 2 * J.y * J.z⟩ : JacPoint F) := by
  have hc : (decide (J.x = 0) && decide (J.z = 0)) = false := by
    simpa [Bool.and_eq_false_iff] using h
  simp only [DBL, hc, Bool.false_eq_true, if_false]
  congr 1 <;> ring

theorem DBL_ok {a : F} (h2 : (2 : F) ≠ 0) (AC : EcCurve F) (hA : AC.A = a)
    (Pt : (mont a).Point) (J : JacPoint F) (hJ : IsJac Pt J) : IsJac (Pt + Pt) (DBL J AC) := by
  match Pt, hJ with
  | .zero, hz =>
    show IsJac (0 + 0) _
    rw [add_zero]
    have hz' : J.z = 0 := hz
    by_cases h : J.x = 0 ∧ J.z = 0
    · have hc : (decide (J.x = 0) && decide (J.z = 0)) = true := by simp [h.1, h.2]
      simp only [DBL, hc, if_true, jac_init]
      rfl
    · rw [DBL_generic J AC h]
      show (2 * J.y * J.z) = 0
      rw [hz', mul_zero]
  | .some x y hxy, ⟨hz, hx, hy⟩ =>
    have heq := mont_eq hxy
    have hne : ¬ (J.x = 0 ∧ J.z = 0) := fun h => hz h.2
    rw [DBL_generic J AC hne, hA]
    obtain ⟨X, Y, Z⟩ := J
    simp only at hz hx hy ⊢
    subst hx hy
    by_cases hy0 : y = 0
    · subst hy0
      have : Affine.Point.some x 0 hxy + Affine.Point.some x 0 hxy = 0 :=
        Affine.Point.add_self_of_Y_eq (by rw [mont_negY]; simp)
      rw [this]
      show 2 * (0 * Z ^ 3) * Z = 0
      ring
    · obtain ⟨x3, y3, h3, hs, hx3, hy3⟩ := dbl_some_xy hxy hy0 h2
      rw [hs]
      have h2y : 2 * y ≠ 0 := mul_ne_zero h2 hy0
      refine ⟨mul_ne_zero (mul_ne_zero h2 (mul_ne_zero hy0 (pow_ne_zero _ hz))) hz, ?_, ?_⟩
      · show _ = x3 * (2 * (y * Z ^ 3) * Z) ^ 2
        rw [hx3]
        field_simp
        ring
      · show _ = y3 * (2 * (y * Z ^ 3) * Z) ^ 3
        rw [hy3, hx3]
        field_simp
        ring

/-- `ADD`, generic branch: affine points with different `x` -/
theorem ADD_generic_ok {a : F} (AC : EcCurve F) (hA : AC.A = a)
    {x1 y1 x2 y2 : F} (h1 : (mont a).Nonsingular x1 y1) (h2 : (mont a).Nonsingular x2 y2) (hx : x1 ≠ x2)
    (J1 J2 : JacPoint F) (hJ1 : IsJac (Affine.Point.some x1 y1 h1) J1) (hJ2 : IsJac (Affine.Point.some x2 y2 h2) J2) :
    IsJac (Affine.Point.some x1 y1 h1 + Affine.Point.some x2 y2 h2) (ADD J1 J2 AC) := by
  obtain ⟨X1, Y1, Z1⟩ := J1
  obtain ⟨X2, Y2, Z2⟩ := J2
  obtain ⟨hz1, hx1, hy1⟩ := hJ1
  obtain ⟨hz2, hx2, hy2⟩ := hJ2
  simp only at hz1 hx1 hy1 hz2 hx2 hy2
  subst hx1 hy1 hx2 hy2
  have hd : x1 - x2 ≠ 0 := sub_ne_zero.mpr hx
  have ht2 : x1 * Z1 ^ 2 * (Z2 * Z2) - x2 * Z2 ^ 2 * (Z1 * Z1) ≠ 0 := by
    have : x1 * Z1 ^ 2 * (Z2 * Z2) - x2 * Z2 ^ 2 * (Z1 * Z1) = (x1 - x2) * Z1 ^ 2 * Z2 ^ 2 := by ring
    rw [this]
    exact mul_ne_zero (mul_ne_zero hd (pow_ne_zero _ hz1)) (pow_ne_zero _ hz2)
  have hc1 : is_jac_equal (⟨x1 * Z1 ^ 2, y1 * Z1 ^ 3, Z1⟩ : JacPoint F) ⟨x2 * Z2 ^ 2, y2 * Z2 ^ 3, Z2⟩ = false := by
    simp only [is_jac_equal, Bool.and_eq_false_iff, decide_eq_false_iff_not]
    right; exact ht2
  have hc4 : is_jac_equal (jac_neg (⟨x1 * Z1 ^ 2, y1 * Z1 ^ 3, Z1⟩ : JacPoint F)) ⟨x2 * Z2 ^ 2, y2 * Z2 ^ 3, Z2⟩ = false := by
    simp only [is_jac_equal, jac_neg, Bool.and_eq_false_iff]
    right; exact decide_eq_false ht2
  have hc7 : (decide (x1 * Z1 ^ 2 = 0) && decide (Z1 = 0)) = false := by simp [hz1]
  have hc10 : (decide (x2 * Z2 ^ 2 = 0) && decide (Z2 = 0)) = false := by simp [hz2]
  obtain ⟨x3, y3, h3, hs, hx3, hy3⟩ := add_some_ne_xy h1 h2 hx
  rw [hs]
  simp only [ADD, hc1, hc4, hc7, hc10, Bool.false_eq_true, if_false, hA]
  refine ⟨?_, ?_, ?_⟩
  · dsimp only
    intro hh
    have : (x1 - x2) * Z1 ^ 3 * Z2 ^ 3 = 0 := by linear_combination -hh
    exact (mul_ne_zero (mul_ne_zero hd (pow_ne_zero _ hz1)) (pow_ne_zero _ hz2)) this
  · dsimp only
    rw [hx3]
    field_simp
    ring
  · dsimp only
    rw [hy3, hx3]
    field_simp
    ring

/-! ### `ADD`: the special branches -/

theorem is_jac_equal_eq (J1 J2 : JacPoint F) :
    is_jac_equal J1 J2 = (decide (J1.y * (J2.z * J2.z * J2.z) - J2.y * (J1.z * J1.z * J1.z) = 0) &&
      decide (J1.x * (J2.z * J2.z) - J2.x * (J1.z * J1.z) = 0)) := by
  simp only [is_jac_equal]

theorem jac_init_isJacC {a : F} : IsJacC (0 : (mont a).Point) (jac_init : JacPoint F) := by
  refine ⟨?_, ?_, ?_⟩ <;> simp [jac_init]

theorem copy_jac_point_eq (J : JacPoint F) : copy_jac_point J = J := by
  simp [copy_jac_point]

/-- `DBL` keeps the canonical form of `∞` and of affine results; the only non-canonical output is the doubling of a
point of order 2 -/
theorem DBL_okC {a : F} (h2 : (2 : F) ≠ 0) (AC : EcCurve F) (hA : AC.A = a)
    (Pt : (mont a).Point) (J : JacPoint F) (hJ : IsJacC Pt J) (hns : Pt = 0 ∨ Pt + Pt ≠ 0) :
    IsJacC (Pt + Pt) (DBL J AC) := by
  match Pt, hJ, hns with
  | .zero, ⟨hx, hz, _⟩, _ =>
    show IsJacC (0 + 0) _
    rw [add_zero]
    have hc : (decide (J.x = 0) && decide (J.z = 0)) = true := by simp [hx, hz]
    simp only [DBL, hc, if_true]
    exact jac_init_isJacC
  | .some x y hxy, hJ, hns =>
    have h := DBL_ok h2 AC hA (Affine.Point.some x y hxy) J hJ
    rcases hns with h0 | hne
    · exact absurd h0 (Affine.Point.some_ne_zero hxy)
    · generalize hS : Affine.Point.some x y hxy + Affine.Point.some x y hxy = S at h hne ⊢
      match S, h, hne with
      | .zero, _, hne => exact absurd rfl hne
      | .some _ _ _, h, _ => exact h

/-- **`ADD` on all inputs** (`∞` in the canonical form `(0 : Y≠0 : 0)` that `jac_init` produces and that `DBL`/`ADD`
test for): the result represents `P + Q`, and it is again canonical except when the `P = Q` branch doubles a point
of order 2. -/
theorem ADD_ok {a : F} (h2 : (2 : F) ≠ 0) (AC : EcCurve F) (hA : AC.A = a)
    (Pt Qt : (mont a).Point) (J1 J2 : JacPoint F) (h1 : IsJacC Pt J1) (h2' : IsJacC Qt J2) :
    IsJac (Pt + Qt) (ADD J1 J2 AC) ∧
    ((¬ (Pt = Qt ∧ Pt ≠ 0 ∧ Pt + Pt = 0)) → IsJacC (Pt + Qt) (ADD J1 J2 AC)) := by
  match Pt, Qt, h1, h2' with
  | .zero, .zero, ⟨hx1, hz1, hy1⟩, ⟨hx2, hz2, hy2⟩ =>
    have hc1 : is_jac_equal J1 J2 = true := by
      rw [is_jac_equal_eq]; simp [hx1, hz1, hx2, hz2]
    have hd : (decide (J1.x = 0) && decide (J1.z = 0)) = true := by simp [hx1, hz1]
    have : ADD J1 J2 AC = jac_init := by
      simp only [ADD, hc1, if_true, DBL, hd]
    rw [this]
    show IsJac (0 + 0) _ ∧ (_ → IsJacC (0 + 0) _)
    rw [add_zero]
    exact ⟨jac_init_isJacC.isJac, fun _ => jac_init_isJacC⟩
  | .zero, .some x2 y2 hq, ⟨hx1, hz1, hy1⟩, ⟨hz2, hx2, hy2⟩ =>
    have hne : J1.y * (J2.z * J2.z * J2.z) ≠ 0 := mul_ne_zero hy1 (mul_ne_zero (mul_ne_zero hz2 hz2) hz2)
    have hc1 : is_jac_equal J1 J2 = false := by
      rw [is_jac_equal_eq]; simp [hx1, hz1, hne]
    have hc4 : is_jac_equal (jac_neg J1) J2 = false := by
      rw [is_jac_equal_eq]; simp [jac_neg, hx1, hz1, hne]
    have hc7 : (decide (J1.x = 0) && decide (J1.z = 0)) = true := by simp [hx1, hz1]
    have : ADD J1 J2 AC = J2 := by
      simp only [ADD, hc1, hc4, hc7, Bool.false_eq_true, if_false, if_true, copy_jac_point_eq]
    rw [this]
    have e : (Affine.Point.zero : (mont a).Point) + Affine.Point.some x2 y2 hq = Affine.Point.some x2 y2 hq := zero_add _
    rw [e]
    exact ⟨⟨hz2, hx2, hy2⟩, fun _ => ⟨hz2, hx2, hy2⟩⟩
  | .some x1 y1 hp, .zero, ⟨hz1, hx1, hy1⟩, ⟨hx2, hz2, hy2⟩ =>
    have hne : J2.y * (J1.z * J1.z * J1.z) ≠ 0 := mul_ne_zero hy2 (mul_ne_zero (mul_ne_zero hz1 hz1) hz1)
    have hc1 : is_jac_equal J1 J2 = false := by
      rw [is_jac_equal_eq]; simp [hx2, hz2, hne]
    have hc4 : is_jac_equal (jac_neg J1) J2 = false := by
      rw [is_jac_equal_eq]; simp [jac_neg, hx2, hz2, hne]
    have hc7 : (decide (J1.x = 0) && decide (J1.z = 0)) = false := by simp [hz1]
    have hc10 : (decide (J2.x = 0) && decide (J2.z = 0)) = true := by simp [hx2, hz2]
    have : ADD J1 J2 AC = J1 := by
      simp only [ADD, hc1, hc4, hc7, hc10, Bool.false_eq_true, if_false, if_true, copy_jac_point_eq]
    rw [this]
    have e : Affine.Point.some x1 y1 hp + (Affine.Point.zero : (mont a).Point) = Affine.Point.some x1 y1 hp := add_zero _
    rw [e]
    exact ⟨⟨hz1, hx1, hy1⟩, fun _ => ⟨hz1, hx1, hy1⟩⟩
  | .some x1 y1 hp, .some x2 y2 hq, hJ1, hJ2 =>
    by_cases hx : x1 = x2
    · subst hx
      obtain ⟨X1, Y1, Z1⟩ := J1
      obtain ⟨X2, Y2, Z2⟩ := J2
      obtain ⟨hz1, hx1, hy1⟩ := hJ1
      obtain ⟨hz2, hx2, hy2⟩ := hJ2
      simp only at hz1 hx1 hy1 hz2 hx2 hy2
      subst hx1 hy1 hx2 hy2
      have hzz : Z1 ^ 3 * Z2 ^ 3 ≠ 0 := mul_ne_zero (pow_ne_zero _ hz1) (pow_ne_zero _ hz2)
      rcases Affine.Y_eq_of_X_eq hp.1 hq.1 rfl with hy | hy
      · -- P = Q : the DBL branch
        subst hy
        have hc1 : is_jac_equal (⟨x1 * Z1 ^ 2, y1 * Z1 ^ 3, Z1⟩ : JacPoint F) ⟨x1 * Z2 ^ 2, y1 * Z2 ^ 3, Z2⟩ = true := by
          rw [is_jac_equal_eq]
          simp only [Bool.and_eq_true, decide_eq_true_eq]
          constructor <;> ring
        have : ADD (⟨x1 * Z1 ^ 2, y1 * Z1 ^ 3, Z1⟩ : JacPoint F) ⟨x1 * Z2 ^ 2, y1 * Z2 ^ 3, Z2⟩ AC
            = DBL ⟨x1 * Z1 ^ 2, y1 * Z1 ^ 3, Z1⟩ AC := by
          simp only [ADD, hc1, if_true]
        rw [this]
        have hJ : IsJacC (Affine.Point.some x1 y1 hp) (⟨x1 * Z1 ^ 2, y1 * Z1 ^ 3, Z1⟩ : JacPoint F) := ⟨hz1, rfl, rfl⟩
        refine ⟨DBL_ok h2 AC hA _ _ hJ.isJac, ?_⟩
        intro hn
        apply DBL_okC h2 AC hA _ _ hJ
        right
        intro h0
        exact hn ⟨rfl, Affine.Point.some_ne_zero hp, h0⟩
      · -- P = -Q
        rw [mont_negY] at hy
        by_cases hyy : y1 = y2
        · -- y1 = y2 = 0 : same point of order 2, DBL branch
          have hy0 : y2 = 0 := by
            have : (2 : F) * y2 = 0 := by linear_combination hy - hyy
            rcases mul_eq_zero.mp this with h | h
            · exact absurd h h2
            · exact h
          subst hy0
          have hy1' : y1 = 0 := by rw [hy]; ring
          subst hy1'
          have hc1 : is_jac_equal (⟨x1 * Z1 ^ 2, 0 * Z1 ^ 3, Z1⟩ : JacPoint F) ⟨x1 * Z2 ^ 2, 0 * Z2 ^ 3, Z2⟩ = true := by
            rw [is_jac_equal_eq]
            simp only [Bool.and_eq_true, decide_eq_true_eq]
            constructor <;> ring
          have : ADD (⟨x1 * Z1 ^ 2, 0 * Z1 ^ 3, Z1⟩ : JacPoint F) ⟨x1 * Z2 ^ 2, 0 * Z2 ^ 3, Z2⟩ AC
              = DBL ⟨x1 * Z1 ^ 2, 0 * Z1 ^ 3, Z1⟩ AC := by
            simp only [ADD, hc1, if_true]
          rw [this]
          have hJ : IsJacC (Affine.Point.some x1 0 hp) (⟨x1 * Z1 ^ 2, 0 * Z1 ^ 3, Z1⟩ : JacPoint F) := ⟨hz1, rfl, rfl⟩
          have hsum : Affine.Point.some x1 0 hp + Affine.Point.some x1 0 hp = 0 :=
            Affine.Point.add_self_of_Y_eq (by rw [mont_negY]; simp)
          refine ⟨DBL_ok h2 AC hA _ _ hJ.isJac, ?_⟩
          intro hn
          exact absurd ⟨rfl, Affine.Point.some_ne_zero hp, hsum⟩ hn
        · -- genuinely opposite points: canonical infinity
          have hsum : Affine.Point.some x1 y1 hp + Affine.Point.some x1 y2 hq = 0 :=
            Affine.Point.add_of_Y_eq rfl (by rw [mont_negY]; exact hy)
          have hc1 : is_jac_equal (⟨x1 * Z1 ^ 2, y1 * Z1 ^ 3, Z1⟩ : JacPoint F) ⟨x1 * Z2 ^ 2, y2 * Z2 ^ 3, Z2⟩ = false := by
            rw [is_jac_equal_eq]
            simp only [Bool.and_eq_false_iff, decide_eq_false_iff_not]
            left
            intro hh
            have : (y1 - y2) * (Z1 ^ 3 * Z2 ^ 3) = 0 := by linear_combination hh
            rcases mul_eq_zero.mp this with h | h
            · exact hyy (sub_eq_zero.mp h)
            · exact hzz h
          have hc4 : is_jac_equal (jac_neg (⟨x1 * Z1 ^ 2, y1 * Z1 ^ 3, Z1⟩ : JacPoint F)) ⟨x1 * Z2 ^ 2, y2 * Z2 ^ 3, Z2⟩ = true := by
            have hn : jac_neg (⟨x1 * Z1 ^ 2, y1 * Z1 ^ 3, Z1⟩ : JacPoint F) = ⟨x1 * Z1 ^ 2, -(y1 * Z1 ^ 3), Z1⟩ := rfl
            rw [hn, is_jac_equal_eq]
            have e1 : -(y1 * Z1 ^ 3) * (Z2 * Z2 * Z2) - y2 * Z2 ^ 3 * (Z1 * Z1 * Z1) = 0 := by rw [hy]; ring
            have e2 : x1 * Z1 ^ 2 * (Z2 * Z2) - x1 * Z2 ^ 2 * (Z1 * Z1) = 0 := by ring
            simp only [Bool.and_eq_true, decide_eq_true_eq]
            exact ⟨e1, e2⟩
          have : ADD (⟨x1 * Z1 ^ 2, y1 * Z1 ^ 3, Z1⟩ : JacPoint F) ⟨x1 * Z2 ^ 2, y2 * Z2 ^ 3, Z2⟩ AC = jac_init := by
            simp only [ADD, hc1, hc4, Bool.false_eq_true, if_false, if_true]
          rw [this, hsum]
          exact ⟨jac_init_isJacC.isJac, fun _ => jac_init_isJacC⟩
    · have h := ADD_generic_ok AC hA hp hq hx J1 J2 hJ1 hJ2
      refine ⟨h, fun _ => ?_⟩
      obtain ⟨x3, y3, h3, hs, _, _⟩ := add_some_ne_xy hp hq hx
      rw [hs] at h ⊢
      exact h

/-! ## j-invariant -/

theorem ec_j_inv_ok {a : F} (h2 : (2 : F) ≠ 0) (curve : EcCurve F) (hA : curve.A = a * curve.C)
    (hC : curve.C ≠ 0) (hns : a ^ 2 - 4 ≠ 0) :
    ec_j_inv curve * (a ^ 2 - 4) = 256 * (a ^ 2 - 3) ^ 3 ∧
    ∀ [(mont a).IsElliptic], ec_j_inv curve = (mont a).j := by
  have hval : ec_j_inv curve = 256 * (a ^ 2 - 3) ^ 3 / (a ^ 2 - 4) := by
    simp only [ec_j_inv, hA]
    have h1 : (a * curve.C * (a * curve.C) - (curve.C * curve.C + curve.C * curve.C) - curve.C * curve.C - curve.C * curve.C)
        * (curve.C * curve.C * (curve.C * curve.C)) = (a ^ 2 - 4) * curve.C ^ 6 := by ring
    rw [h1]
    field_simp
    ring
  refine ⟨by rw [hval]; field_simp, ?_⟩
  intro _
  rw [hval, WeierstrassCurve.j]
  have hΔ : (mont a).Δ = 16 * (a ^ 2 - 4) := by
    simp only [WeierstrassCurve.Δ, WeierstrassCurve.b₂, WeierstrassCurve.b₄, WeierstrassCurve.b₆,
      WeierstrassCurve.b₈, mont]
    ring
  have hc4 : (mont a).c₄ = 16 * (a ^ 2 - 3) := by
    simp only [WeierstrassCurve.c₄, WeierstrassCurve.b₂, WeierstrassCurve.b₄, mont]
    ring
  rw [Units.val_inv_eq_inv_val, WeierstrassCurve.coe_Δ', hΔ, hc4]
  have h16 : (16 : F) ≠ 0 := by
    have : (16 : F) = 2 * 2 * (2 * 2) := by norm_num
    rw [this]
    exact mul_ne_zero (mul_ne_zero h2 h2) (mul_ne_zero h2 h2)
  field_simp
  ring

/-! ## isomorphisms of Montgomery curves `x ↦ s (x - r)` -/

theorem ec_iso_eval_shape (P : EcPoint F) (isom : EcIsom F) :
    (ec_iso_eval P isom).x = P.x * isom.Nx - P.z * isom.Nz ∧ (ec_iso_eval P isom).z = P.z * isom.D := by
  simp only [ec_iso_eval, and_self]

/-- `ec_iso_eval` is the affine map `x ↦ s (x - r)` with `s = Nx / D`, `r = Nz / Nx` -/
theorem ec_iso_eval_affine (x Z : F) (isom : EcIsom F) (hD : isom.D ≠ 0) (hN : isom.Nx ≠ 0) (hZ : Z ≠ 0) :
    (ec_iso_eval ⟨x * Z, Z⟩ isom).z ≠ 0 ∧
    (ec_iso_eval ⟨x * Z, Z⟩ isom).x = (isom.Nx / isom.D * (x - isom.Nz / isom.Nx)) * (ec_iso_eval ⟨x * Z, Z⟩ isom).z := by
  simp only [ec_iso_eval]
  refine ⟨mul_ne_zero hZ hD, ?_⟩
  field_simp

/-- the map `x ↦ s (x - r)` sends `mont a` to `mont a'` (with `y ↦ s^{3/2} y`) exactly under these conditions
(`r` is the abscissa of a point of order 2 or `0`): the right-hand sides of the curve equations correspond. -/
theorem iso_on_curve {a a' s r x : F} (h1 : s ^ 2 * (3 * r ^ 2 + 2 * a * r + 1) = 1) (h2 : a' = s * (a + 3 * r))
    (h3 : r ^ 3 + a * r ^ 2 + r = 0) :
    (s * (x - r)) ^ 3 + a' * (s * (x - r)) ^ 2 + s * (x - r) = s ^ 3 * (x ^ 3 + a * x ^ 2 + x) := by
  subst h2
  linear_combination (s * r - s * x) * h1 + (- s ^ 3) * h3

end SqiProofs.Curve

import SqiProofs.CurveDblmul

/-! # Whole Jacobian programs: `jacRun` / `jacSeq` / `jacDBLMUL` compute the group-law value

Lifting of the per-operation closure (`ADD_ok`, `DBL_okC`, `jac_neg`) by one induction over the program, for every
program that never doubles a point of order 2 (the known finding is exactly the complement). -/

set_option linter.unusedSectionVars false
set_option linter.unusedSimpArgs false
set_option linter.unusedTactic false
namespace SqiProofs.Curve
open WeierstrassCurve SqiGen SqiModel.Ladder

variable {F : Type} [Field F] [DecidableEq F]

theorem jac_neg_okC {a : F} (Pt : (mont a).Point) (J : JacPoint F) (hJ : IsJacC Pt J) : IsJacC (-Pt) (jac_neg J) := by
  match Pt, hJ with
  | .zero, ⟨hx, hz, hy⟩ => exact ⟨hx, hz, by simpa [jac_neg] using hy⟩
  | .some x y hxy, ⟨hz, hx, hy⟩ =>
    rw [Affine.Point.neg_some]
    refine ⟨hz, hx, ?_⟩
    simp only [jac_neg, mont_negY]
    rw [hy]; ring

/-- the doubling performed inside `ADD`/`DBL` is not applied to a point of order 2 -/
def AddGood {a : F} (A B : (mont a).Point) : Prop := ¬ (A = B ∧ A ≠ 0 ∧ A + A = 0)
def DblGood {a : F} (A : (mont a).Point) : Prop := A = 0 ∨ A + A ≠ 0

/-- group-law semantics of one instruction -/
def ptStep {a : F} (ps : List (mont a).Point) (op : Nat × Nat × Nat) : Option (List (mont a).Point) :=
  match op.1, ps[op.2.1]?, ps[op.2.2]? with
  | 1, some A, some B => some (ps ++ [A + B])
  | 2, some A, _ => some (ps ++ [A + A])
  | 3, some A, _ => some (ps ++ [-A])
  | _, _, _ => none

def opGood {a : F} (ps : List (mont a).Point) (op : Nat × Nat × Nat) : Prop :=
  match op.1, ps[op.2.1]?, ps[op.2.2]? with
  | 1, some A, some B => AddGood A B
  | 2, some A, _ => DblGood A
  | _, _, _ => True

def ptRun {a : F} : List (mont a).Point → List (Nat × Nat × Nat) → Option (List (mont a).Point)
  | ps, [] => some ps
  | ps, op :: prog => match ptStep ps op with
    | some ps' => ptRun ps' prog
    | none => none

def progGood {a : F} : List (mont a).Point → List (Nat × Nat × Nat) → Prop
  | _, [] => True
  | ps, op :: prog => opGood ps op ∧ match ptStep ps op with
    | some ps' => progGood ps' prog
    | none => True

/-- registers paired with the points they represent -/
def RegsOk {a : F} (l : List ((mont a).Point × JacPoint F)) : Prop := ∀ pr ∈ l, IsJacC pr.1 pr.2

theorem RegsOk.snoc {a : F} {l : List ((mont a).Point × JacPoint F)} (hl : RegsOk l) {A : (mont a).Point}
    {J : JacPoint F} (h : IsJacC A J) : RegsOk (l ++ [(A, J)]) := by
  intro pr hpr
  rcases List.mem_append.mp hpr with h' | h'
  · exact hl pr h'
  · simp only [List.mem_singleton] at h'
    subst h'
    exact h

theorem jacStep_correct {a : F} (h2 : (2 : F) ≠ 0) (curve : EcCurve F) (hA : curve.A = a)
    (l : List ((mont a).Point × JacPoint F)) (hl : RegsOk l) (op : Nat × Nat × Nat)
    (hg : opGood (l.map Prod.fst) op) :
    (jacStep curve (l.map Prod.snd) op = none ∧ ptStep (l.map Prod.fst) op = none) ∨
    ∃ l', RegsOk l' ∧ jacStep curve (l.map Prod.snd) op = some (l'.map Prod.snd) ∧
      ptStep (l.map Prod.fst) op = some (l'.map Prod.fst) := by
  obtain ⟨c, i, j⟩ := op
  simp only [jacStep, ptStep, opGood, List.getElem?_map] at hg ⊢
  rcases hi : l[i]? with _ | ⟨A, JA⟩
  · left
    simp only [hi, Option.map_none]
    constructor <;> (try split) <;> simp_all
  · have hAm : IsJacC A JA := hl _ (List.mem_of_getElem? hi)
    rcases hj : l[j]? with _ | ⟨B, JB⟩
    · simp only [hi, hj, Option.map_some, Option.map_none] at hg ⊢
      by_cases c2 : c = 2
      · subst c2
        right
        refine ⟨l ++ [(A + A, DBL JA curve)], hl.snoc (DBL_okC h2 curve hA A JA hAm hg), ?_, ?_⟩ <;> simp
      · by_cases c3 : c = 3
        · subst c3
          right
          refine ⟨l ++ [(-A, jac_neg JA)], hl.snoc (jac_neg_okC A JA hAm), ?_, ?_⟩ <;> simp
        · left
          constructor <;> (try split) <;> simp_all
    · have hBm : IsJacC B JB := hl _ (List.mem_of_getElem? hj)
      simp only [hi, hj, Option.map_some] at hg ⊢
      by_cases c1 : c = 1
      · subst c1
        right
        refine ⟨l ++ [(A + B, ADD JA JB curve)], hl.snoc ((ADD_ok h2 curve hA A B JA JB hAm hBm).2 hg), ?_, ?_⟩ <;> simp
      · by_cases c2 : c = 2
        · subst c2
          right
          refine ⟨l ++ [(A + A, DBL JA curve)], hl.snoc (DBL_okC h2 curve hA A JA hAm hg), ?_, ?_⟩ <;> simp
        · by_cases c3 : c = 3
          · subst c3
            right
            refine ⟨l ++ [(-A, jac_neg JA)], hl.snoc (jac_neg_okC A JA hAm), ?_, ?_⟩ <;> simp
          · left
            constructor <;> (try split) <;> simp_all

/-- **Whole programs.** For registers in canonical form and a program that never doubles a point of order 2, the C-shaped
run and the group-law run either both reject the program or produce register files that correspond pointwise, every
Jacobian register again in canonical form (`∞ = (0 : Y≠0 : 0)`). -/
theorem jacRun_correct {a : F} (h2 : (2 : F) ≠ 0) (curve : EcCurve F) (hA : curve.A = a)
    (prog : List (Nat × Nat × Nat)) (l : List ((mont a).Point × JacPoint F)) (hl : RegsOk l)
    (hg : progGood (l.map Prod.fst) prog) :
    (jacRun curve (l.map Prod.snd) prog = none ∧ ptRun (l.map Prod.fst) prog = none) ∨
    ∃ l', RegsOk l' ∧ jacRun curve (l.map Prod.snd) prog = some (l'.map Prod.snd) ∧
      ptRun (l.map Prod.fst) prog = some (l'.map Prod.fst) := by
  induction prog generalizing l with
  | nil => right; exact ⟨l, hl, rfl, rfl⟩
  | cons op prog ih =>
    obtain ⟨hop, hrest⟩ := hg
    rcases jacStep_correct h2 curve hA l hl op hop with ⟨h1, h2'⟩ | ⟨l', hl', h1, h2'⟩
    · left
      simp only [jacRun, ptRun, h1, h2', and_self]
    · simp only [h2'] at hrest
      simp only [jacRun, ptRun, h1, h2']
      exact ih l' hl' hrest

/-- the value of `jacSeq`: the last register represents the last group element -/
theorem jacSeq_correct {a : F} (h2 : (2 : F) ≠ 0) (curve : EcCurve F) (hA : curve.A = a)
    (prog : List (Nat × Nat × Nat)) (l : List ((mont a).Point × JacPoint F)) (hl : RegsOk l)
    (hg : progGood (l.map Prod.fst) prog) (J : JacPoint F) (hJ : jacSeq curve (l.map Prod.snd) prog = some J) :
    ∃ ps A, ptRun (l.map Prod.fst) prog = some ps ∧ ps.getLast? = some A ∧ IsJacC A J := by
  rcases jacRun_correct h2 curve hA prog l hl hg with ⟨h1, _⟩ | ⟨l', hl', h1, h2'⟩
  · simp [jacSeq, h1] at hJ
  · simp only [jacSeq, h1, List.getLast?_map] at hJ
    rcases hlast : l'.getLast? with _ | ⟨A, JA⟩
    · simp [hlast] at hJ
    · simp only [hlast, Option.map_some, Option.some.injEq] at hJ
      subst hJ
      refine ⟨_, A, h2', by simp [List.getLast?_map, hlast], hl' _ (List.mem_of_getLast? hlast)⟩

/-! ## DBLMUL / DBLMUL2 / DBLMUL_generic -/

/-- group-law semantics of one iteration: `R ↦ 2R + [kb]P + [lb]Q` -/
def ptDblmulStep {a : F} (P Q : (mont a).Point) (R : (mont a).Point) (kl : Bool × Bool) : (mont a).Point :=
  let R2 := R + R
  if kl.1 && kl.2 then R2 + (P + Q) else if kl.1 then R2 + P else if kl.2 then R2 + Q else R2

def dblmulGood {a : F} (P Q : (mont a).Point) : (mont a).Point → List (Bool × Bool) → Prop
  | _, [] => True
  | R, kl :: rest =>
    DblGood R ∧ (if kl.1 && kl.2 then AddGood (R + R) (P + Q) else if kl.1 then AddGood (R + R) P
      else if kl.2 then AddGood (R + R) Q else True) ∧ dblmulGood P Q (ptDblmulStep P Q R kl) rest

theorem jacDblmul_fold {a : F} (h2 : (2 : F) ≠ 0) (curve : EcCurve F) (hA : curve.A = a)
    (P Q : (mont a).Point) (JP JQ JPQ : JacPoint F) (hP : IsJacC P JP) (hQ : IsJacC Q JQ) (hPQ : IsJacC (P + Q) JPQ)
    (bits : List (Bool × Bool)) (R : (mont a).Point) (JR : JacPoint F) (hR : IsJacC R JR) (hg : dblmulGood P Q R bits) :
    IsJacC (bits.foldl (ptDblmulStep P Q) R) (bits.foldl (jacDblmulStep JP JQ JPQ curve) JR) := by
  induction bits generalizing R JR with
  | nil => exact hR
  | cons kl rest ih =>
    obtain ⟨hd, ha, hrest⟩ := hg
    simp only [List.foldl_cons]
    apply ih _ _ _ hrest
    have hD := DBL_okC h2 curve hA R JR hR hd
    obtain ⟨kb, lb⟩ := kl
    cases kb <;> cases lb <;>
      simp only [ptDblmulStep, jacDblmulStep, Bool.and_true, Bool.and_false, Bool.false_and, Bool.true_and, if_true,
        if_false, Bool.false_eq_true, Bool.and_self] at ha ⊢
    · exact hD
    · exact (ADD_ok h2 curve hA _ _ _ _ hD hQ).2 ha
    · exact (ADD_ok h2 curve hA _ _ _ _ hD hP).2 ha
    · exact (ADD_ok h2 curve hA _ _ _ _ hD hPQ).2 ha

/-- value of the group-level double-and-add on zipped bit lists of equal length -/
theorem ptDblmul_value {a : F} (P Q : (mont a).Point) (bk bl : List Bool) (hlen : bk.length = bl.length)
    (nk nl : Nat) :
    (bk.zip bl).foldl (ptDblmulStep P Q) (nk • P + nl • Q) =
      (bk.foldl (fun n b => 2 * n + b.toNat) nk) • P + (bl.foldl (fun n b => 2 * n + b.toNat) nl) • Q := by
  induction bk generalizing bl nk nl with
  | nil =>
    cases bl with
    | nil => simp
    | cons _ _ => simp at hlen
  | cons b bs ih =>
    cases bl with
    | nil => simp at hlen
    | cons c cs =>
      simp only [List.length_cons, Nat.add_right_cancel_iff] at hlen
      simp only [List.zip_cons_cons, List.foldl_cons]
      have key : ptDblmulStep P Q (nk • P + nl • Q) (b, c) = (2 * nk + b.toNat) • P + (2 * nl + c.toNat) • Q := by
        cases b <;> cases c <;>
          simp only [ptDblmulStep, Bool.and_true, Bool.and_false, Bool.false_and, Bool.true_and, if_true, if_false,
            Bool.false_eq_true, Bool.and_self, Bool.toNat_false, Bool.toNat_true, add_zero, add_nsmul, mul_nsmul,
            two_nsmul, one_nsmul, mul_comm 2] <;> abel
      rw [key]
      exact ih cs hlen _ _

theorem jacDBLMUL_ok {a : F} (h2 : (2 : F) ≠ 0) (curve : EcCurve F) (hA : curve.A = a) (nbits k l : Nat)
    (P Q : (mont a).Point) (JP JQ : JacPoint F) (hP : IsJacC P JP) (hQ : IsJacC Q JQ) (hadd : AddGood P Q)
    (hg : dblmulGood P Q 0 ((bitsMSB nbits k).zip (bitsMSB nbits l))) :
    IsJacC ((k % 2 ^ nbits) • P + (l % 2 ^ nbits) • Q) (jacDBLMUL nbits k l JP JQ curve) := by
  have hPQ := (ADD_ok h2 curve hA P Q JP JQ hP hQ).2 hadd
  have h0 : IsJacC (0 : (mont a).Point) (jac_init : JacPoint F) := jac_init_isJacC
  have := jacDblmul_fold h2 curve hA P Q JP JQ _ hP hQ hPQ _ 0 jac_init h0 hg
  have hlen : (bitsMSB nbits k).length = (bitsMSB nbits l).length := by simp [bitsMSB]
  have hv := ptDblmul_value P Q (bitsMSB nbits k) (bitsMSB nbits l) hlen 0 0
  simp only [zero_nsmul, add_zero] at hv
  rw [hv] at this
  have ek := valMSB_bitsMSB nbits k
  have el := valMSB_bitsMSB nbits l
  simp only [valMSB] at ek el
  rw [ek, el] at this
  exact this

end SqiProofs.Curve

import SqiProofs.CurveFormulas
import SqiModel.Ladder
import Mathlib.Tactic.Abel

/-! # Ladders: induction over the bit list, no bound on the scalar length

`SqiModel.Ladder` models the loops of xMUL / xMULv2 / ec_ladder3pt / ec_dbl_iter over the generated formulas; here the
loop invariants are proved against the group law. -/

set_option linter.unusedSectionVars false
set_option linter.unusedSimpArgs false
namespace SqiProofs.Curve
open WeierstrassCurve SqiGen SqiModel.Ladder

variable {F : Type} [Field F] [DecidableEq F]

/-! ## bit lists -/

/-- value of a bit list, most significant bit first -/
def valMSB (bits : List Bool) : Nat := bits.foldl (fun n b => 2 * n + b.toNat) 0
/-- value of a bit list, least significant bit first -/
def valLSB : List Bool → Nat
  | [] => 0
  | b :: bs => b.toNat + 2 * valLSB bs

theorem foldl_val (bits : List Bool) (n : Nat) :
    bits.foldl (fun n b => 2 * n + b.toNat) n = n * 2 ^ bits.length + valMSB bits := by
  induction bits generalizing n with
  | nil => simp [valMSB]
  | cons b bs ih =>
    simp only [List.foldl_cons, List.length_cons, valMSB]
    rw [ih, ih (2 * 0 + b.toNat)]
    ring

theorem testBit_toNat (k i : Nat) : (k.testBit i).toNat = k / 2 ^ i % 2 := by
  rw [Nat.testBit_eq_decide_div_mod_eq]
  rcases Nat.mod_two_eq_zero_or_one (k / 2 ^ i) with h | h <;> simp [h]

theorem valLSB_bitsLSB_aux (k : Nat) (n j : Nat) :
    valLSB ((List.range' j n).map (fun i => k.testBit i)) = k / 2 ^ j % 2 ^ n := by
  induction n generalizing j with
  | zero => simp [valLSB, Nat.mod_one]
  | succ n ih =>
    rw [List.range'_succ, List.map_cons, valLSB, ih (j + 1), testBit_toNat]
    have h1 : k / 2 ^ (j + 1) = k / 2 ^ j / 2 := by rw [pow_succ, Nat.div_div_eq_div_mul]
    rw [h1, pow_succ, Nat.mul_comm (2 ^ n) 2, Nat.mod_mul]

theorem valLSB_bitsLSB (n k : Nat) : valLSB (bitsLSB n k) = k % 2 ^ n := by
  have := valLSB_bitsLSB_aux k n 0
  simpa [bitsLSB, List.range_eq_range'] using this

theorem valMSB_reverse (bits : List Bool) : valMSB bits.reverse = valLSB bits := by
  induction bits with
  | nil => simp [valMSB, valLSB]
  | cons b bs ih =>
    rw [List.reverse_cons, valMSB, List.foldl_append]
    simp only [List.foldl_cons, List.foldl_nil]
    rw [valLSB, ← ih, valMSB]
    ring

theorem valMSB_bitsMSB (n k : Nat) : valMSB (bitsMSB n k) = k % 2 ^ n := by
  have : bitsMSB n k = (bitsLSB n k).reverse := by
    simp [bitsMSB, bitsLSB, List.map_reverse]
  rw [this, valMSB_reverse, valLSB_bitsLSB]

/-! ## swaps and selections of the generated code -/

theorem swap_points_mask (P Q : EcPoint F) (b : Bool) :
    swap_points P Q (mask b) = if b then (Q, P) else (P, Q) := by
  cases b <;> simp [swap_points, mask]

theorem select_point_mask (P Q : EcPoint F) (b : Bool) :
    select_point P Q (mask b) = if b then Q else P := by
  cases b <;> simp [select_point, mask]

theorem copy_point_eq (P : EcPoint F) : copy_point P = P := by
  simp [copy_point]

/-! ## Montgomery ladder (xMUL, xMULv2) -/

/-- ladder invariant after reading a prefix of value `n`: the logical pair is `(nP, (n+1)P)` -/
def LInv {a : F} (Pt : (mont a).Point) (n : Nat) (st : LState F) : Prop :=
  if st.prev then IsX (n • Pt) st.R1.x st.R1.z ∧ IsX ((n + 1) • Pt) st.R0.x st.R0.z
  else IsX (n • Pt) st.R0.x st.R0.z ∧ IsX ((n + 1) • Pt) st.R1.x st.R1.z

theorem ladderStep_inv {a : F} (h2 : (2 : F) ≠ 0) {A24 P : EcPoint F} (hA : IsA24 a A24.x A24.z)
    {Pt : (mont a).Point} (hP : IsX Pt P.x P.z) (hx : P.x ≠ 0) (hz : P.z ≠ 0)
    (n : Nat) (st : LState F) (b : Bool) (h : LInv Pt n st) :
    LInv Pt (2 * n + b.toNat) (ladderStep P A24 st b) := by
  obtain ⟨R0, R1, prev⟩ := st
  have e1 : n • Pt + n • Pt = (2 * n) • Pt := by rw [two_mul, add_nsmul]
  have e2 : n • Pt + (n + 1) • Pt = (2 * n + 1) • Pt := by
    rw [← add_nsmul]; congr 1; ring
  have e3 : (n + 1) • Pt + (n + 1) • Pt = (2 * n + 1 + 1) • Pt := by
    rw [← add_nsmul]; congr 1; ring
  have e4 : (n + 1) • Pt + n • Pt = (2 * n + 1) • Pt := by
    rw [← add_nsmul]; congr 1; ring
  have d1 : n • Pt - (n + 1) • Pt = -Pt := by rw [succ_nsmul]; abel
  have d2 : (n + 1) • Pt - n • Pt = Pt := by rw [succ_nsmul]; abel
  have hPn : IsX (-Pt) P.x P.z := hP.neg
  simp only [LInv] at h
  cases prev <;> cases b <;>
    simp only [ladderStep, LInv, Bool.xor_false, Bool.xor_true, Bool.not_false, Bool.not_true,
      swap_points_mask, if_true, if_false, Bool.toNat_false, Bool.toNat_true, add_zero,
      Bool.false_eq_true] at h ⊢
  · -- prev = false, bit = 0 : (R0, R1) = (nP, (n+1)P)
    have := xDBLADD_isX h2 hA h.1 h.2 (by rw [d1]; exact hPn) hx hz
    rw [e1, e2] at this
    exact this
  · -- prev = false, bit = 1 : swapped, (R1, R0) = ((n+1)P, nP)
    have := xDBLADD_isX h2 hA h.2 h.1 (by rw [d2]; exact hP) hx hz
    rw [e3, e4] at this
    exact ⟨this.2, this.1⟩
  · -- prev = true, bit = 0 : swapped back
    have := xDBLADD_isX h2 hA h.1 h.2 (by rw [d1]; exact hPn) hx hz
    rw [e1, e2] at this
    exact this
  · -- prev = true, bit = 1 : (R0, R1) = ((n+1)P, nP)
    have := xDBLADD_isX h2 hA h.2 h.1 (by rw [d2]; exact hP) hx hz
    rw [e3, e4] at this
    exact ⟨this.2, this.1⟩

theorem ladder_fold_inv {a : F} (h2 : (2 : F) ≠ 0) {A24 P : EcPoint F} (hA : IsA24 a A24.x A24.z)
    {Pt : (mont a).Point} (hP : IsX Pt P.x P.z) (hx : P.x ≠ 0) (hz : P.z ≠ 0)
    (bits : List Bool) (n : Nat) (st : LState F) (h : LInv Pt n st) :
    LInv Pt (bits.foldl (fun n b => 2 * n + b.toNat) n) (bits.foldl (ladderStep P A24) st) := by
  induction bits generalizing n st with
  | nil => exact h
  | cons b bs ih =>
    simp only [List.foldl_cons]
    exact ih _ _ (ladderStep_inv h2 hA hP hx hz n st b h)

/-- **Montgomery ladder on an arbitrary bit list** (any length): the result represents `[value of bits]P`. -/
theorem xMULbits_isX {a : F} (h2 : (2 : F) ≠ 0) {A24 P : EcPoint F} (hA : IsA24 a A24.x A24.z)
    {Pt : (mont a).Point} (hP : IsX Pt P.x P.z) (hx : P.x ≠ 0) (hz : P.z ≠ 0) (bits : List Bool) :
    IsX (valMSB bits • Pt) (xMULbits bits P A24).x (xMULbits bits P A24).z := by
  have h0 : LInv Pt 0 (ladderInit P) := by
    simp only [LInv, ladderInit, ec_point_init, zero_nsmul, zero_add, one_nsmul]
    exact ⟨⟨rfl, one_ne_zero⟩, hP⟩
  have h := ladder_fold_inv h2 hA hP hx hz bits 0 _ h0
  simp only [xMULbits, ladderFinish, valMSB, Bool.false_xor, swap_points_mask]
  generalize bits.foldl (ladderStep P A24) (ladderInit P) = st at h ⊢
  obtain ⟨R0, R1, prev⟩ := st
  simp only [LInv] at h
  cases prev <;> simp only [if_true, if_false, Bool.false_eq_true] at h ⊢
  · exact h.1
  · exact h.1

/-! ## three-point ladder -/

/-- the difference point is usable by `xADD` : `x ∉ {0, ∞}` for every representative -/
def XNonDeg {a : F} (T : (mont a).Point) : Prop := ∀ X Z : F, IsX T X Z → X ≠ 0 ∧ Z ≠ 0

/-- what the three-point ladder computes on the group: `T0 ↦ 2T0`, `T1 ↦ T1 + T0` on a one bit -/
def l3spec {a : F} : List Bool → (mont a).Point → (mont a).Point → (mont a).Point
  | [], _, T1 => T1
  | b :: bs, T0, T1 => l3spec bs (T0 + T0) (if b then T1 + T0 else T1)

/-- the differences used along the way are non-degenerate -/
def L3Good {a : F} : List Bool → (mont a).Point → (mont a).Point → Prop
  | [], _, _ => True
  | b :: bs, T0, T1 =>
    (if b then XNonDeg (T0 - T1) else XNonDeg T1) ∧ L3Good bs (T0 + T0) (if b then T1 + T0 else T1)

theorem l3spec_eq {a : F} (bits : List Bool) (T0 T1 : (mont a).Point) :
    l3spec bits T0 T1 = T1 + valLSB bits • T0 := by
  induction bits generalizing T0 T1 with
  | nil => simp [l3spec, valLSB]
  | cons b bs ih =>
    rw [l3spec, ih, valLSB]
    have e : valLSB bs • (T0 + T0) = (2 * valLSB bs) • T0 := by rw [← two_nsmul, ← mul_nsmul]
    cases b
    · simp only [Bool.false_eq_true, if_false, Bool.toNat_false, zero_add]
      rw [e]
    · simp only [if_true, Bool.toNat_true]
      rw [e, add_nsmul, one_nsmul]
      abel

def L3Inv {a : F} (T0 T1 : (mont a).Point) (st : L3State F) : Prop :=
  IsX T0 st.X0.x st.X0.z ∧ IsX T1 st.X1.x st.X1.z ∧ IsX (T0 - T1) st.X2.x st.X2.z

theorem ladder3Step_inv {a : F} (h2 : (2 : F) ≠ 0) {A24 : EcPoint F} (hA : 4 * A24.x = a + 2)
    (T0 T1 : (mont a).Point) (st : L3State F) (b : Bool) (h : L3Inv T0 T1 st)
    (hg : if b then XNonDeg (T0 - T1) else XNonDeg T1) :
    L3Inv (T0 + T0) (if b then T1 + T0 else T1) (ladder3Step A24 st b) := by
  obtain ⟨X0, X1, X2⟩ := st
  obtain ⟨h0, h1, h2'⟩ := h
  simp only at h0 h1 h2'
  cases b <;>
    simp only [ladder3Step, L3Inv, swap_points_mask, Bool.not_false, Bool.not_true, if_true, if_false,
      Bool.false_eq_true] at hg ⊢
  · -- bit = 0 : X2 ← X0 + X2 (difference X1), X0 ← 2 X0
    have hd : IsX (T0 - (T0 - T1)) X1.x X1.z := by
      have : T0 - (T0 - T1) = T1 := by abel
      rw [this]; exact h1
    obtain ⟨hx, hz⟩ := hg _ _ h1
    have := xDBLADDn_isX h2 hA h0 h2' hd hx hz
    refine ⟨this.1, h1, ?_⟩
    have e : T0 + T0 - T1 = T0 + (T0 - T1) := by abel
    rw [e]; exact this.2
  · -- bit = 1 : X1 ← X0 + X1 (difference X2), X0 ← 2 X0
    obtain ⟨hx, hz⟩ := hg _ _ h2'
    have := xDBLADDn_isX h2 hA h0 h1 h2' hx hz
    refine ⟨this.1, ?_, ?_⟩
    · rw [add_comm T1 T0]; exact this.2
    · have e : T0 + T0 - (T1 + T0) = T0 - T1 := by abel
      rw [e]; exact h2'

theorem ladder3_fold_inv {a : F} (h2 : (2 : F) ≠ 0) {A24 : EcPoint F} (hA : 4 * A24.x = a + 2)
    (bits : List Bool) (T0 T1 : (mont a).Point) (st : L3State F) (h : L3Inv T0 T1 st)
    (hg : L3Good bits T0 T1) :
    IsX (l3spec bits T0 T1) (bits.foldl (ladder3Step A24) st).X1.x (bits.foldl (ladder3Step A24) st).X1.z := by
  induction bits generalizing T0 T1 st with
  | nil => exact h.2.1
  | cons b bs ih =>
    simp only [List.foldl_cons, l3spec]
    exact ih _ _ _ (ladder3Step_inv h2 hA T0 T1 st b h hg.1) hg.2

/-- **Three-point ladder on an arbitrary bit list** (least significant bit first): from representatives of
`x(P), x(Q), x(P - Q)` the result represents `P + [value of bits]Q`, provided the differences met on the way are
not in `{∞, (0,0)}` (`L3Good`, stated on the group). -/
theorem ladder3bits_isX {a : F} (h2 : (2 : F) ≠ 0) {A24 : EcPoint F} (hA : 4 * A24.x = a + 2)
    {Pt Qt : (mont a).Point} {P Q PQ : EcPoint F}
    (hP : IsX Pt P.x P.z) (hQ : IsX Qt Q.x Q.z) (hD : IsX (Pt - Qt) PQ.x PQ.z) (bits : List Bool)
    (hg : L3Good bits Qt Pt) :
    IsX (Pt + valLSB bits • Qt) (ladder3bits bits P Q PQ A24).x (ladder3bits bits P Q PQ A24).z := by
  have h0 : L3Inv Qt Pt (⟨copy_point Q, copy_point P, copy_point PQ⟩ : L3State F) := by
    simp only [L3Inv, copy_point_eq]
    refine ⟨hQ, hP, ?_⟩
    have : Qt - Pt = -(Pt - Qt) := by abel
    rw [this]; exact hD.neg
  have := ladder3_fold_inv h2 hA bits Qt Pt _ h0 hg
  rw [l3spec_eq] at this
  simpa only [ladder3bits, copy_point_eq] using this

/-! ## repeated doubling -/

theorem iter_dbl_isX {a : F} (f : EcPoint F → EcPoint F)
    (hf : ∀ (T : (mont a).Point) (R : EcPoint F), IsX T R.x R.z → IsX (T + T) (f R).x (f R).z)
    (n : Nat) (Pt : (mont a).Point) (P : EcPoint F) (hP : IsX Pt P.x P.z) :
    IsX (2 ^ n • Pt) (iter f n P).x (iter f n P).z := by
  induction n generalizing Pt P with
  | zero => simpa [iter] using hP
  | succ n ih =>
    have := ih (Pt + Pt) (f P) (hf Pt P hP)
    rw [iter]
    have e : 2 ^ n • (Pt + Pt) = 2 ^ (n + 1) • Pt := by
      rw [← two_nsmul, ← mul_nsmul, pow_succ, mul_comm]
    rw [e] at this
    exact this

end SqiProofs.Curve

import SqiProofs.CurveDblmulBounded

/-! # lift_point / lift_basis / recover_y (Okeya–Sakurai), j-invariance under Montgomery isomorphisms -/

set_option linter.unusedSectionVars false
set_option linter.unusedSimpArgs false
namespace SqiProofs.Curve
open WeierstrassCurve SqiGen SqiModel.Ladder

variable {F : Type} [Field F] [DecidableEq F]

theorem recover_y_eq (sqrt : F → F) (x : F) (E : EcCurve F) :
    recover_y sqrt x E = sqrt (x * x * E.A + x + x * x * x) := by
  simp only [recover_y]

/-- `recover_y` returns a y-coordinate of the point with abscissa `x` on `y² = x³ + A x² + x` whenever `sqrt` returns a
square root of its (square) argument -/
theorem recover_y_ok (sqrt : F → F) (x : F) (E : EcCurve F)
    (hs : sqrt (x * x * E.A + x + x * x * x) ^ 2 = x * x * E.A + x + x * x * x) :
    recover_y sqrt x E ^ 2 = x ^ 3 + E.A * x ^ 2 + x := by
  rw [recover_y_eq, hs]; ring

/-- Okeya–Sakurai y-recovery identity (Montgomery curve, `B = 1`): if `xd = x(P - Q)` then `2 y₁ y₂` is the numerator
used by `lift_basis` -/
theorem okeya_sakurai (a x1 y1 x2 y2 xd : F) (h1 : y1 ^ 2 = x1 ^ 3 + a * x1 ^ 2 + x1)
    (h2 : y2 ^ 2 = x2 ^ 3 + a * x2 ^ 2 + x2)
    (hd : xd * (x1 - x2) ^ 2 = (y1 + y2) ^ 2 - (a + x1 + x2) * (x1 - x2) ^ 2) :
    2 * y1 * y2 = (x2 - x1) ^ 2 * xd - ((x2 + x1 + 2 * a) * (x1 * x2 + 1) - 2 * a) := by
  linear_combination (-1 : F) * h1 - h2 - hd

/-- the batched inversion of two non-zero elements, as unrolled by the translator -/
theorem binv2 (z c : F) (hz : z ≠ 0) (hc : c ≠ 0) : (z * c)⁻¹ * c = z⁻¹ ∧ z * (z * c)⁻¹ = c⁻¹ := by
  constructor <;> field_simp

/-- **lift_basis.** Input: basis `(P, Q, P-Q)` in x-only projective form on `(A : C)`. Output `P = (x₁ : y₁ : 1)` with
`y₁ = recover_y`, the normalised curve `(a : 1)`, `B.P` normalised, and `Q` in Jacobian coordinates. If `y₁` is a square
root of the curve's right-hand side at `x₁` (i.e. `fp2_sqrt` is correct on that square) and `y₁ ≠ 0`, then for the
lift `y₂` of `x(Q)` that is consistent with the given `x(P - Q)`, `Q_out = (x₂ Z² : y₂ Z³ : Z)`, `Z ≠ 0`:
the recovered y-coordinates are consistent with the third point of the basis. -/
theorem lift_basis_ok (h2 : (2 : F) ≠ 0) (sqrt : F → F) (B : EcBasis F) (E : EcCurve F) (a x1 x2 y2 xd : F)
    (hPz : B.P.z ≠ 0) (hC : E.C ≠ 0) (hA : E.A = a * E.C) (hP : B.P.x = x1 * B.P.z)
    (hQz : B.Q.z ≠ 0) (hQ : B.Q.x = x2 * B.Q.z) (hDz : B.PmQ.z ≠ 0) (hD : B.PmQ.x = xd * B.PmQ.z) :
    let out := lift_basis sqrt B E
    out.1.x = x1 ∧ out.1.z = 1 ∧ out.2.2.2.A = a ∧ out.2.2.2.C = 1 ∧ out.2.2.1.P = ⟨x1, 1⟩ ∧
    (out.1.y ^ 2 = x1 ^ 3 + a * x1 ^ 2 + x1 → out.1.y ≠ 0 → y2 ^ 2 = x2 ^ 3 + a * x2 ^ 2 + x2 →
      xd * (x1 - x2) ^ 2 = (out.1.y + y2) ^ 2 - (a + x1 + x2) * (x1 - x2) ^ 2 →
      out.2.1.z ≠ 0 ∧ out.2.1.x = x2 * out.2.1.z ^ 2 ∧ out.2.1.y = y2 * out.2.1.z ^ 3) := by
  obtain ⟨i1, i2⟩ := binv2 B.P.z E.C hPz hC
  have ex : B.P.x * ((B.P.z * E.C)⁻¹ * E.C) = x1 := by rw [i1, hP]; field_simp
  have ea : E.A * (B.P.z * (B.P.z * E.C)⁻¹) = a := by rw [i2, hA]; field_simp
  simp only [lift_basis, if_neg hPz, if_neg hC, ex, ea]
  refine ⟨trivial, trivial, trivial, trivial, trivial, ?_⟩
  intro hy1 hy1ne hy2 hd
  set y1 := recover_y sqrt x1 { A := a, C := 1, A24 := E.A24, is_A24_computed_and_normalized := E.is_A24_computed_and_normalized } with hy1def
  have os := okeya_sakurai a x1 y1 x2 y2 xd hy1 hy2 hd
  have h2y : y1 + y1 ≠ 0 := by
    have : y1 + y1 = 2 * y1 := by ring
    rw [this]; exact mul_ne_zero h2 hy1ne
  refine ⟨?_, ?_, ?_⟩
  · exact mul_ne_zero hQz (mul_ne_zero (mul_ne_zero h2y hQz) hDz)
  · rw [hQ]; ring
  · rw [hQ, hD]
    linear_combination (-(B.Q.z ^ 2 * B.PmQ.z * (B.Q.z * ((y1 + y1) * B.Q.z * B.PmQ.z)) ^ 2)) * os

/-- the same on Mathlib's group: the lifted pair `(P, Q)` satisfies `x(P - Q) = ` the given third point -/
theorem lift_basis_isJac {a : F} (h2 : (2 : F) ≠ 0) (sqrt : F → F) (B : EcBasis F) (E : EcCurve F) (x1 x2 y2 : F)
    (hPz : B.P.z ≠ 0) (hC : E.C ≠ 0) (hA : E.A = a * E.C) (hP : B.P.x = x1 * B.P.z)
    (hp : (mont a).Nonsingular x1 (lift_basis sqrt B E).1.y) (hq : (mont a).Nonsingular x2 y2)
    (hx : x1 ≠ x2) (hy : (lift_basis sqrt B E).1.y ≠ 0)
    (hQ : IsX (Affine.Point.some x2 y2 hq) B.Q.x B.Q.z)
    (hD : IsX (Affine.Point.some x1 _ hp - Affine.Point.some x2 y2 hq) B.PmQ.x B.PmQ.z) :
    IsJac (Affine.Point.some x1 _ hp) (lift_basis sqrt B E).1 ∧
    IsJac (Affine.Point.some x2 y2 hq) (lift_basis sqrt B E).2.1 := by
  obtain ⟨hQz, hQx⟩ := hQ
  have hnq : (mont a).Nonsingular x2 (-y2) := by
    have := (Affine.nonsingular_neg (W' := mont a) x2 y2).mpr hq
    rwa [mont_negY] at this
  have hdiff : Affine.Point.some x1 _ hp - Affine.Point.some x2 y2 hq
      = Affine.Point.some x1 _ hp + Affine.Point.some x2 (-y2) hnq := by
    rw [sub_eq_add_neg, Affine.Point.neg_some]
    congr 1
    simp only [mont_negY]
  obtain ⟨x4, y4, h4, hs4, hx4⟩ := add_some_ne hp hnq hx
  rw [hdiff, hs4] at hD
  obtain ⟨hDz, hDx⟩ := hD
  have key := lift_basis_ok h2 sqrt B E a x1 x2 y2 x4 hPz hC hA hP hQz hQx hDz hDx
  obtain ⟨k1, k2, _, _, _, k6⟩ := key
  have hd : x1 - x2 ≠ 0 := sub_ne_zero.mpr hx
  have := k6 (mont_eq hp) hy (mont_eq hq) (by rw [hx4]; field_simp; ring)
  refine ⟨⟨by rw [k2]; exact one_ne_zero, by rw [k1, k2]; ring, by rw [k2]; ring⟩, this⟩

/-- **lift_point**: an affine input `(X : Z)`, `Z ≠ 0`, on `(A : C)` is normalised and lifted to `(x : y : 1)` with
`y = recover_y`; the input `∞` gives `(1 : 1 : 0)` — a representative of `∞` that `ADD`/`DBL` do *not* recognise (they test
`X = 0 ∧ Z = 0`), recorded. -/
theorem lift_point_ok (sqrt : F → F) (Q : EcPoint F) (E : EcCurve F) (a x : F) (hC : E.C ≠ 0) (hA : E.A = a * E.C) :
    (Q.z = 0 → (lift_point sqrt Q E).1 = ⟨1, 1, 0⟩ ∧ (lift_point sqrt Q E).2.1 = Q ∧ (lift_point sqrt Q E).2.2 = E) ∧
    (Q.z ≠ 0 → Q.x = x * Q.z →
      (lift_point sqrt Q E).1.x = x ∧ (lift_point sqrt Q E).1.z = 1 ∧
      (lift_point sqrt Q E).1.y = recover_y sqrt x ⟨a, 1, E.A24, E.is_A24_computed_and_normalized⟩ ∧
      (lift_point sqrt Q E).2.1 = ⟨x, 1⟩ ∧ (lift_point sqrt Q E).2.2.A = a ∧ (lift_point sqrt Q E).2.2.C = 1) := by
  constructor
  · intro hz
    simp [lift_point, hz]
  · intro hz hx
    obtain ⟨i1, i2⟩ := binv2 Q.z E.C hz hC
    have ex : Q.x * ((Q.z * E.C)⁻¹ * E.C) = x := by rw [i1, hx]; field_simp
    have ea : E.A * (Q.z * (Q.z * E.C)⁻¹) = a := by rw [i2, hA]; field_simp
    simp only [lift_point, decide_eq_false hz, Bool.false_eq_true, if_false, if_neg hz, if_neg hC, ex, ea, and_self]

/-! ## j-invariance under the Montgomery isomorphisms `x ↦ s (x - r)` -/

/-- the conditions of `iso_on_curve` force equal j-invariants (cross-multiplied form, no non-singularity needed) -/
theorem iso_j_cross {a a' s r : F} (h1 : s ^ 2 * (3 * r ^ 2 + 2 * a * r + 1) = 1) (h2 : a' = s * (a + 3 * r))
    (h3 : r ^ 3 + a * r ^ 2 + r = 0) :
    (a' ^ 2 - 3) ^ 3 * (a ^ 2 - 4) = (a ^ 2 - 3) ^ 3 * (a' ^ 2 - 4) := by
  subst h2
  by_cases hr : r = 0
  · subst hr
    have hs : s ^ 2 = 1 := by linear_combination h1
    have : (s * (a + 3 * 0)) ^ 2 = a ^ 2 := by linear_combination a ^ 2 * hs
    rw [this]
  · have h3' : r ^ 2 + a * r + 1 = 0 := by
      have : r * (r ^ 2 + a * r + 1) = 0 := by linear_combination h3
      rcases mul_eq_zero.mp this with h | h
      · exact absurd h hr
      · exact h
    have h1' : s ^ 2 * (r ^ 2 - 1) = 1 := by linear_combination h1 - 2 * s ^ 2 * h3'
    have hr1 : r ^ 2 - 1 ≠ 0 := by
      intro h; rw [h, mul_zero] at h1'; exact zero_ne_one h1'
    have ha : a = -(r ^ 2 + 1) / r := by field_simp; linear_combination h3'
    have hs : s ^ 2 = 1 / (r ^ 2 - 1) := by field_simp; linear_combination h1'
    have e : (s * (a + 3 * r)) ^ 2 = s ^ 2 * (a + 3 * r) ^ 2 := by ring
    rw [e, hs, ha]
    field_simp
    ring

/-- `ec_j_inv` takes the same value on two curves related by such an isomorphism -/
theorem iso_j_eq {a a' s r : F} (h1 : s ^ 2 * (3 * r ^ 2 + 2 * a * r + 1) = 1) (h2 : a' = s * (a + 3 * r))
    (h3 : r ^ 3 + a * r ^ 2 + r = 0) (hns : a ^ 2 - 4 ≠ 0) (hns' : a' ^ 2 - 4 ≠ 0) :
    256 * (a' ^ 2 - 3) ^ 3 / (a' ^ 2 - 4) = 256 * (a ^ 2 - 3) ^ 3 / (a ^ 2 - 4) := by
  have := iso_j_cross h1 h2 h3
  field_simp
  linear_combination 256 * this

end SqiProofs.Curve

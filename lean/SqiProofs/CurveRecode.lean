import SqiProofs.CurveChainFold

/-! # xDBLMUL: the scalar recoding loop produces the digits of `chainSpec` (recoding lemma) -/

set_option linter.unusedSectionVars false
set_option linter.unusedSimpArgs false
namespace SqiProofs.Curve
open SqiModel.Ladder

/-- representation invariant of the recoding loop before the iteration of index `i`: `u, v` are the two (odd-ified)
scalars shifted right by `i`, stored in the order given by `pre` (the previous `sigma[0]`); `τ = sigma[0]` -/
structure Rep (st : RecState) (u v : Nat) (τ : Bool) (racc : List (Bool × Bool)) : Prop where
  s0 : st.s0 = τ
  s1 : st.s1 = !τ
  kt : st.kt = if st.pre then v else u
  lt : st.lt = if st.pre then u else v
  r : st.r = racc

theorem beq_eq_not_xor (a b : Bool) : (a == b) = !(a ^^ b) := by cases a <;> cases b <;> rfl

theorem recodeStep_digits (st : RecState) (u v : Nat) (τ : Bool) (racc : List (Bool × Bool)) (last : Bool)
    (h : Rep st u v τ racc) (hl : last = true → u < 2 ∧ v < 2) :
    (recodeStep st last).r = racc ++ [chainDigits (u / 2) (v / 2) (decide (u % 2 = 1)) (decide (v % 2 = 1)) τ] ∧
    (recodeStep st last).s0 = tauUp (u / 2) (v / 2) (decide (u % 2 = 1)) (decide (v % 2 = 1)) τ ∧
    (last = false → Rep (recodeStep st last) (u / 2) (v / 2)
      (tauUp (u / 2) (v / 2) (decide (u % 2 = 1)) (decide (v % 2 = 1)) τ)
      (racc ++ [chainDigits (u / 2) (v / 2) (decide (u % 2 = 1)) (decide (v % 2 = 1)) τ])) := by
  obtain ⟨kt, lt, s0, s1, pre, r⟩ := st
  obtain ⟨h0, h1, hk, hl', hr⟩ := h
  simp only at h0 h1 hk hl' hr
  subst h0 h1 hr
  cases last
  · -- an ordinary iteration: shift
    cases pre <;> simp only [if_true, if_false, Bool.false_eq_true] at hk hl' <;> subst hk hl' <;> cases s0 <;>
      simp only [recodeStep, chainDigits, tauUp, Nat.testBit_zero, Bool.xor_false, Bool.xor_true, Bool.false_xor,
        Bool.true_xor, Bool.not_false, Bool.not_true, if_true, if_false, Bool.false_eq_true, Bool.xor_self] <;>
      refine ⟨trivial, ?_, fun _ => ⟨?_, ?_, ?_, ?_, ?_⟩⟩ <;> simp [beq_eq_not_xor]
  · obtain ⟨hu, hv⟩ := hl rfl
    have hu2 : u / 2 % 2 = 0 := by omega
    have hv2 : v / 2 % 2 = 0 := by omega
    cases pre <;> simp only [if_true, if_false, Bool.false_eq_true] at hk hl' <;> subst hk hl' <;> cases s0 <;>
      simp only [recodeStep, chainDigits, tauUp, Nat.testBit_zero, Bool.xor_false, Bool.xor_true, Bool.false_xor,
        Bool.true_xor, Bool.not_false, Bool.not_true, if_true, if_false, Bool.false_eq_true, Bool.xor_self, hu2, hv2,
        Nat.zero_ne_one, decide_false] <;>
      refine ⟨trivial, ?_, fun h => by cases h⟩ <;> simp [beq_eq_not_xor]

theorem recode_fold (nbits : Nat) (m : Nat) : ∀ (j : Nat), j + m = nbits → ∀ (st : RecState) (u v : Nat) (τ : Bool)
    (racc : List (Bool × Bool)), Rep st u v τ racc → u < 2 ^ m → v < 2 ^ m →
    ((List.range' j m).foldl (fun st i => recodeStep st (i + 1 == nbits)) st).r = racc ++ (chainSpec m u v τ).1 ∧
    ((List.range' j m).foldl (fun st i => recodeStep st (i + 1 == nbits)) st).s0 = (chainSpec m u v τ).2 := by
  induction m with
  | zero =>
    intro j _ st u v τ racc h _ _
    simp [chainSpec, h.r, h.s0]
  | succ m ih =>
    intro j hj st u v τ racc h hu hv
    simp only [List.range'_succ, List.foldl_cons, chainSpec]
    by_cases hm : m = 0
    · subst hm
      have hlast : (j + 1 == nbits) = true := by simp; omega
      have hu1 : u < 2 := by simpa using hu
      have hv1 : v < 2 := by simpa using hv
      obtain ⟨e1, e2, _⟩ := recodeStep_digits st u v τ racc true h (fun _ => ⟨hu1, hv1⟩)
      simp only [hlast, List.range'_zero, List.foldl_nil, chainSpec, e1, e2, and_self]
    · have hlast : (j + 1 == nbits) = false := by simp; omega
      obtain ⟨_, _, e3⟩ := recodeStep_digits st u v τ racc false h (fun h => by cases h)
      have hu' : u / 2 < 2 ^ m := by rw [pow_succ] at hu; omega
      have hv' : v / 2 < 2 ^ m := by rw [pow_succ] at hv; omega
      have := ih (j + 1) (by omega) _ _ _ _ _ (e3 rfl) hu' hv'
      simp only [hlast]
      rw [this.1, this.2]
      simp

/-- the odd-ified scalar: `K` itself when odd, `K - 1` with wrap-around modulo `2^n` when even (as `mp_sub` does) -/
def oddify (n K : Nat) : Nat := if K % 2 = 1 then K % 2 ^ n else (K % 2 ^ n + 2 ^ n - 1) % 2 ^ n

/-- **Recoding lemma.** The digits and the final `sigma[0]` produced by `recode` are those of `chainSpec` for the
odd-ified scalars, started with `sigma[0] = (k even ∧ l odd)`. -/
theorem recode_spec (n k l : Nat) :
    (recode n k l).r = (chainSpec n (oddify n k) (oddify n l) (decide (k % 2 = 0) && decide (l % 2 = 1))).1 ∧
    (recode n k l).sigma0 = (chainSpec n (oddify n k) (oddify n l) (decide (k % 2 = 0) && decide (l % 2 = 1))).2 ∧
    (recode n k l).mevens = xor (decide (k % 2 = 0)) (decide (l % 2 = 0)) ∧
    (recode n k l).bothOdd = (decide (k % 2 = 1) && decide (l % 2 = 1)) := by
  have hk : oddify n k < 2 ^ n := by
    unfold oddify; split <;> exact Nat.mod_lt _ (Nat.two_pow_pos n)
  have hl : oddify n l < 2 ^ n := by
    unfold oddify; split <;> exact Nat.mod_lt _ (Nat.two_pow_pos n)
  have key := recode_fold n n 0 (by omega)
    ⟨oddify n k, oddify n l, decide (k % 2 = 0) && decide (l % 2 = 1), !(decide (k % 2 = 0) && decide (l % 2 = 1)), false, []⟩
    (oddify n k) (oddify n l) (decide (k % 2 = 0) && decide (l % 2 = 1)) [] ⟨rfl, rfl, rfl, rfl, rfl⟩ hk hl
  simp only [List.nil_append] at key
  rcases Nat.mod_two_eq_zero_or_one k with hk2 | hk2 <;> rcases Nat.mod_two_eq_zero_or_one l with hl2 | hl2 <;>
    simp only [recode, oddify, Nat.testBit_zero, hk2, hl2, List.range_eq_range', decide_true, decide_false,
      Nat.zero_ne_one, Nat.one_ne_zero, Bool.not_true, Bool.not_false, Bool.xor_false, Bool.xor_true, Bool.false_xor,
      Bool.true_xor, Bool.and_true, Bool.and_false, Bool.false_and, Bool.true_and, Bool.or_false, Bool.or_true,
      Bool.false_or, Bool.true_or, if_true, if_false, Bool.false_eq_true, Bool.xor_self, Bool.and_self,
      reduceCtorEq] at key ⊢ <;>
    exact ⟨key.1, key.2, trivial, trivial⟩

end SqiProofs.Curve

/- correctness of the balanced Pohlig–Hellman recursion model (SqiModel.Dlog) over a commutative monoid / group -/
import SqiModel.Dlog
import Mathlib.Algebra.Group.Basic
import Mathlib.GroupTheory.OrderOfElement
import Mathlib.Tactic.Ring

namespace SqiProofs.Dlog
open SqiModel.Dlog

variable {M : Type} [CommMonoid M] [DecidableEq M]

theorem sqrIter_eq (n : ℕ) (x : M) : sqrIter (· * ·) n x = x ^ (2 ^ n) := by
  induction n generalizing x with
  | zero => simp [sqrIter]
  | succ n ih => rw [sqrIter, ih, ← pow_two, ← pow_mul, pow_succ' 2 n]

/-- update performed on the stack entries below the top by a call that found `a` over `len` bits -/
def upd (a len : ℕ) (fg : M × M) : M × M := (fg.1 * fg.2 ^ a, fg.2 ^ (2 ^ len))

theorem upd_comp (a1 a2 right left : ℕ) (fg : M × M) :
    upd a2 left (upd a1 right fg) = upd (a1 + 2 ^ right * a2) (right + left) fg := by
  unfold upd
  refine Prod.ext ?_ ?_
  · show fg.1 * fg.2 ^ a1 * (fg.2 ^ 2 ^ right) ^ a2 = fg.1 * fg.2 ^ (a1 + 2 ^ right * a2)
    rw [pow_add, mul_assoc, ← pow_mul]
  · show (fg.2 ^ 2 ^ right) ^ 2 ^ left = fg.2 ^ 2 ^ (right + left)
    rw [← pow_mul, pow_add]

theorem two_pow_pos (n : ℕ) : 0 < 2 ^ n := Nat.pos_of_ne_zero (pow_ne_zero n (by decide))

theorem upd_zero_zero (below : List (M × M)) : below.map (upd 0 0) = below := by
  have : (upd 0 0 : M × M → M × M) = id := by
    funext fg; simp [upd]
  rw [this, List.map_id]

/-- completeness (and functional correctness) of the recursion: if G has exact order 2^len and F·G^a = 1 with
    a < 2^len, the recursion returns exactly a and updates the lower stack as specified — for every len -/
theorem dlogRec_complete : ∀ (len : ℕ) (F G : M) (below : List (M × M)) (a : ℕ),
    G ^ (2 ^ len) = 1 → (∀ k, k < 2 ^ len → G ^ k = 1 → k = 0) → a < 2 ^ len → F * G ^ a = 1 →
    dlogRec (· * ·) 1 len (F, G) below = some (a, below.map (upd a len)) := by
  intro len
  induction len using Nat.strong_induction_on with
  | _ len ih =>
    intro F G below a hG hinj ha hFa
    rw [dlogRec]
    by_cases h0 : len = 0
    · subst h0
      have : a = 0 := by simpa using ha
      subst this
      simp [upd_zero_zero]
    · by_cases h1 : len = 1
      · subst h1
        simp only [h0, if_false, if_true]
        have ha2 : a = 0 ∨ a = 1 := by
          have : a < 2 := by simpa using ha
          omega
        rcases ha2 with rfl | rfl
        · have hF : F = 1 := by simpa using hFa
          simp [hF, upd, pow_two]
        · have hF1 : F ≠ 1 := by
            intro hF; rw [hF, one_mul, pow_one] at hFa
            have := hinj 1 (by norm_num) (by simpa using hFa)
            omega
          have hFG : F = G := by
            have hGG : G * G = 1 := by simpa [pow_two] using hG
            calc F = F * (G * G) := by rw [hGG, mul_one]
              _ = (F * G ^ 1) * G := by rw [pow_one, mul_assoc]
              _ = G := by rw [hFa, one_mul]
          have hG1 : G ≠ 1 := hFG ▸ hF1
          simp [hFG, hG1, upd, pow_two]
      · simp only [h0, h1, if_false]
        have hlen2 : 2 ≤ len := by omega
        have hr : len / 2 < len := by omega
        have hl : len - len / 2 < len := by omega
        have hsum : len / 2 + (len - len / 2) = len := by omega
        have hpow : (2 : ℕ) ^ len = 2 ^ (len / 2) * 2 ^ (len - len / 2) := by rw [← pow_add, hsum]
        have hpos : 0 < 2 ^ (len / 2) := two_pow_pos _
        have hpos' : 0 < 2 ^ (len - len / 2) := two_pow_pos _
        -- split a
        obtain ⟨a1, a2, rfl, ha1, ha2⟩ : ∃ a1 a2, a = a1 + 2 ^ (len / 2) * a2 ∧ a1 < 2 ^ (len / 2) ∧ a2 < 2 ^ (len - len / 2) := by
          refine ⟨a % 2 ^ (len / 2), a / 2 ^ (len / 2), (Nat.mod_add_div _ _).symm, Nat.mod_lt _ hpos, ?_⟩
          rw [Nat.div_lt_iff_lt_mul hpos, mul_comm, ← hpow]; exact ha
        rw [sqrIter_eq, sqrIter_eq]
        -- first call: low bits on the 2^left-th powers
        have hG' : (G ^ 2 ^ (len - len / 2)) ^ 2 ^ (len / 2) = 1 := by
          rw [← pow_mul, mul_comm, ← hpow]; exact hG
        have hinj' : ∀ k, k < 2 ^ (len / 2) → (G ^ 2 ^ (len - len / 2)) ^ k = 1 → k = 0 := by
          intro k hk hk1
          rw [← pow_mul] at hk1
          have := hinj _ (by rw [hpow, mul_comm (2 ^ (len / 2))]; exact Nat.mul_lt_mul_of_pos_left hk hpos') hk1
          rcases Nat.mul_eq_zero.mp this with h | h
          · exact absurd h (Nat.ne_of_gt hpos')
          · exact h
        have hF' : F ^ 2 ^ (len - len / 2) * (G ^ 2 ^ (len - len / 2)) ^ a1 = 1 := by
          have h := congrArg (· ^ 2 ^ (len - len / 2)) hFa
          simp only [one_pow, mul_pow] at h
          rw [← pow_mul, add_mul, pow_add] at h
          have e2 : G ^ (2 ^ (len / 2) * a2 * 2 ^ (len - len / 2)) = 1 := by
            rw [mul_right_comm, ← hpow, pow_mul, hG, one_pow]
          rw [e2, mul_one] at h
          rw [← pow_mul, mul_comm (2 ^ (len - len / 2)) a1]; exact h
        rw [ih (len / 2) hr _ _ ((F, G) :: below) a1 hG' hinj' ha1 hF']
        simp only [List.map_cons]
        -- second call: high bits
        have hG1 : ((upd a1 (len / 2) (F, G)).2) ^ 2 ^ (len - len / 2) = 1 := by
          simp only [upd]; rw [← pow_mul, ← hpow]; exact hG
        have hinj1 : ∀ k, k < 2 ^ (len - len / 2) → ((upd a1 (len / 2) (F, G)).2) ^ k = 1 → k = 0 := by
          intro k hk hk1
          simp only [upd] at hk1
          rw [← pow_mul] at hk1
          have := hinj _ (by rw [hpow]; exact Nat.mul_lt_mul_of_pos_left hk hpos) hk1
          rcases Nat.mul_eq_zero.mp this with h | h
          · exact absurd h (Nat.ne_of_gt hpos)
          · exact h
        have hF1 : (upd a1 (len / 2) (F, G)).1 * ((upd a1 (len / 2) (F, G)).2) ^ a2 = 1 := by
          simp only [upd]
          rw [← pow_mul, mul_assoc, ← pow_add]; exact hFa
        have key := ih (len - len / 2) hl (upd a1 (len / 2) (F, G)).1 (upd a1 (len / 2) (F, G)).2
          (below.map (upd a1 (len / 2))) a2 hG1 hinj1 ha2 hF1
        rw [show upd a1 (len / 2) (F, G) = ((upd a1 (len / 2) (F, G)).1, (upd a1 (len / 2) (F, G)).2) from rfl]
        rw [key]
        simp only [List.map_map, Option.some.injEq, Prod.mk.injEq, true_and]
        apply List.map_congr_left
        intro fg _
        simp only [Function.comp]
        rw [upd_comp, hsum]

/-- soundness: whenever the recursion answers `a` (len ≥ 1), then a < 2^len and F·G^a = 1, and the lower stack is
    updated as specified; hence it answers `none` when F ∉ ⟨G⟩ -/
theorem dlogRec_sound : ∀ (len : ℕ) (F G : M) (below : List (M × M)) (a : ℕ) (below' : List (M × M)),
    1 ≤ len → G ^ (2 ^ len) = 1 → dlogRec (· * ·) 1 len (F, G) below = some (a, below') →
    a < 2 ^ len ∧ F * G ^ a = 1 ∧ below' = below.map (upd a len) := by
  intro len
  induction len using Nat.strong_induction_on with
  | _ len ih =>
    intro F G below a below' hlen hG hres
    rw [dlogRec] at hres
    have h0 : len ≠ 0 := by omega
    simp only [h0, if_false] at hres
    by_cases h1 : len = 1
    · subst h1
      simp only [if_true] at hres
      by_cases hF : F = 1
      · simp only [hF, if_true, Option.some.injEq, Prod.mk.injEq] at hres
        obtain ⟨rfl, rfl⟩ := hres
        refine ⟨by norm_num, by simp [hF], ?_⟩
        apply List.map_congr_left; intro fg _; simp [upd, pow_two]
      · simp only [hF, if_false] at hres
        by_cases hFG : F = G
        · simp only [hFG, if_true, Option.some.injEq, Prod.mk.injEq] at hres
          obtain ⟨rfl, rfl⟩ := hres
          refine ⟨by norm_num, ?_, ?_⟩
          · rw [hFG, pow_one, ← pow_two]; simpa using hG
          · apply List.map_congr_left; intro fg _; simp [upd, pow_two]
        · simp [hFG] at hres
    · simp only [h1, if_false] at hres
      have hlen2 : 2 ≤ len := by omega
      have hr : len / 2 < len := by omega
      have hl : len - len / 2 < len := by omega
      have hr1 : 1 ≤ len / 2 := by omega
      have hl1 : 1 ≤ len - len / 2 := by omega
      have hsum : len / 2 + (len - len / 2) = len := by omega
      have hpow : (2 : ℕ) ^ len = 2 ^ (len / 2) * 2 ^ (len - len / 2) := by rw [← pow_add, hsum]
      rw [sqrIter_eq, sqrIter_eq] at hres
      have hG' : (G ^ 2 ^ (len - len / 2)) ^ 2 ^ (len / 2) = 1 := by
        rw [← pow_mul, mul_comm, ← hpow]; exact hG
      cases hc1 : dlogRec (· * ·) 1 (len / 2) (F ^ 2 ^ (len - len / 2), G ^ 2 ^ (len - len / 2)) ((F, G) :: below) with
      | none => simp [hc1] at hres
      | some r1 =>
        obtain ⟨d1, l1⟩ := r1
        obtain ⟨hd1, hF1, hl1'⟩ := ih (len / 2) hr _ _ _ d1 l1 hr1 hG' hc1
        rw [List.map_cons] at hl1'
        subst hl1'
        simp only [hc1] at hres
        have hG1 : ((upd d1 (len / 2) (F, G)).2) ^ 2 ^ (len - len / 2) = 1 := by
          simp only [upd]; rw [← pow_mul, ← hpow]; exact hG
        cases hc2 : dlogRec (· * ·) 1 (len - len / 2) (upd d1 (len / 2) (F, G)) (below.map (upd d1 (len / 2))) with
        | none => simp [hc2] at hres
        | some r2 =>
          obtain ⟨d2, l2⟩ := r2
          simp only [hc2, Option.some.injEq, Prod.mk.injEq] at hres
          obtain ⟨rfl, rfl⟩ := hres
          obtain ⟨hd2, hF2, hl2⟩ := ih (len - len / 2) hl (upd d1 (len / 2) (F, G)).1 (upd d1 (len / 2) (F, G)).2 _ d2 l2 hl1 hG1 hc2
          refine ⟨?_, ?_, ?_⟩
          · rw [hpow]
            calc d1 + 2 ^ (len / 2) * d2 < 2 ^ (len / 2) + 2 ^ (len / 2) * d2 := by omega
              _ = 2 ^ (len / 2) * (d2 + 1) := by ring
              _ ≤ 2 ^ (len / 2) * 2 ^ (len - len / 2) := Nat.mul_le_mul_left _ hd2
          · simp only [upd] at hF2
            rw [← pow_mul, mul_assoc, ← pow_add] at hF2; exact hF2
          · rw [hl2, List.map_map]
            apply List.map_congr_left
            intro fg _
            simp only [Function.comp]
            rw [upd_comp, hsum]

/-! ## group level -/
section Group
variable {H : Type} [CommGroup H] [DecidableEq H]

/-- **dlog_2e_correct**: for g of exact order 2^e in ANY commutative group and every e, the model of `fp2_dlog_2e`
    returns a on input (g^a, g), for every a < 2^e -/
theorem dlog_2e_correct (g : H) (e : ℕ) (hg : g ^ (2 ^ e) = 1) (hord : ∀ k, k < 2 ^ e → g ^ k = 1 → k = 0)
    (a : ℕ) (ha : a < 2 ^ e) :
    dlog2e (· * ·) 1 (·⁻¹) (g ^ a) g e = some a := by
  unfold dlog2e
  have hG : (g⁻¹) ^ (2 ^ e) = 1 := by rw [inv_pow, hg, inv_one]
  have hinj : ∀ k, k < 2 ^ e → (g⁻¹) ^ k = 1 → k = 0 := by
    intro k hk hk1
    rw [inv_pow, inv_eq_one] at hk1
    exact hord k hk hk1
  have hFa : g ^ a * (g⁻¹) ^ a = 1 := by rw [inv_pow, mul_inv_cancel]
  rw [dlogRec_complete e (g ^ a) g⁻¹ [] a hG hinj ha hFa]
  rfl

/-- exact order 2^e from the two checks a tester can make: g^(2^e) = 1 and g^(2^(e-1)) ≠ 1 -/
theorem inj_of_exact_order (g : H) (e : ℕ) (he : 1 ≤ e) (hg : g ^ (2 ^ e) = 1) (hne : g ^ (2 ^ (e - 1)) ≠ 1) :
    ∀ k, k < 2 ^ e → g ^ k = 1 → k = 0 := by
  obtain ⟨n, rfl⟩ : ∃ n, e = n + 1 := ⟨e - 1, by omega⟩
  have hord : orderOf g = 2 ^ (n + 1) := orderOf_eq_prime_pow (by simpa using hne) hg
  intro k hk hk1
  have hdvd : orderOf g ∣ k := orderOf_dvd_of_pow_eq_one hk1
  rw [hord] at hdvd
  exact Nat.eq_zero_of_dvd_of_lt hdvd hk

/-- the answer is never wrong: if the model answers `a` (e ≥ 1, g^(2^e) = 1) then f = g^a with a < 2^e;
    in particular it answers `none` for f ∉ ⟨g⟩ -/
theorem dlog_2e_sound (f g : H) (e : ℕ) (he : 1 ≤ e) (hg : g ^ (2 ^ e) = 1) (a : ℕ)
    (h : dlog2e (· * ·) 1 (·⁻¹) f g e = some a) : a < 2 ^ e ∧ f = g ^ a := by
  unfold dlog2e at h
  cases hc : dlogRec (· * ·) 1 e (f, g⁻¹) [] with
  | none => simp [hc] at h
  | some r =>
    obtain ⟨a', l⟩ := r
    simp only [hc, Option.map_some, Option.some.injEq] at h
    subst h
    have hG : (g⁻¹) ^ (2 ^ e) = 1 := by rw [inv_pow, hg, inv_one]
    obtain ⟨h1, h2, _⟩ := dlogRec_sound e f g⁻¹ [] a' l he hG hc
    refine ⟨h1, ?_⟩
    rw [inv_pow] at h2
    exact mul_inv_eq_one.mp h2

theorem dlog_2e_none (f g : H) (e : ℕ) (he : 1 ≤ e) (hg : g ^ (2 ^ e) = 1) (hf : ∀ a, f ≠ g ^ a) :
    dlog2e (· * ·) 1 (·⁻¹) f g e = none := by
  cases h : dlog2e (· * ·) 1 (·⁻¹) f g e with
  | none => rfl
  | some a => exact absurd (dlog_2e_sound f g e he hg a h).2 (hf a)
end Group

end SqiProofs.Dlog

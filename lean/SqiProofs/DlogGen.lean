/- the recursion regenerated from biextension.c (SqiGen.DlogRec, tools/translate/dlogrec.py) equals the hand model SqiModel.Dlog. Core-only. -/
import SqiModel.Dlog
import SqiGen.DlogRec

namespace SqiProofs.DlogGen
open SqiModel.Dlog SqiGen.DlogRec

variable {M : Type} [DecidableEq M]

theorem dlogRecGen_eq (mul : M → M → M) (one : M) : ∀ (len : Nat) (top : M × M) (below : List (M × M)),
    dlogRecGen mul one len top below = dlogRec mul one len top below := by
  intro len
  induction len using Nat.strongRecOn with
  | _ len ih =>
    intro top below
    rw [dlogRecGen, dlogRec]
    by_cases h0 : len = 0
    · simp [h0]
    · by_cases h1 : len = 1
      · simp only [h0, h1, if_false, if_true]
      · simp only [h0, h1, if_false]
        have hr : len / 2 < len := by omega
        have hl : len - len / 2 < len := by omega
        rw [ih (len / 2) hr]
        cases hc : dlogRec mul one (len / 2) (sqrIter mul (len - len / 2) top.1, sqrIter mul (len - len / 2) top.2) (top :: below) with
        | none => rfl
        | some r =>
          obtain ⟨d1, l⟩ := r
          cases l with
          | nil => rfl
          | cons t1 b1 =>
            simp only
            rw [ih (len - len / 2) hl]
            rfl

theorem dlog2eGen_eq (mul : M → M → M) (one : M) (inv : M → M) (f g : M) (e : Nat) :
    dlog2eGen mul one inv f g e = dlog2e mul one inv f g e := by
  unfold dlog2eGen dlog2e
  rw [dlogRecGen_eq]

end SqiProofs.DlogGen

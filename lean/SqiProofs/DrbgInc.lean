/- C20 lemma: the C-ordered increment loop with literals (hi, lo, cmp, reset) = (n−1, 0, 0xff, 0) is the model's
   `incV` on n-byte arrays (hence `+1 mod 2^128` for n = 16 by `incV_eq`).  Core-only. -/
import SqiProofs.DrbgRefine

namespace SqiProofs.Drbg
open SqiModel.Drbg

theorem incLoopAux_eq (r suf : List UInt8) :
    Model.incLoopAux 0xff 0 0 r.length (r.reverse ++ suf) = (Model.incRev r).reverse ++ suf := by
  induction r generalizing suf with
  | nil => simp [Model.incLoopAux, Model.incRev]
  | cons b r ih =>
    have hlen : r.reverse.length = r.length := List.length_reverse
    have hget : (r.reverse ++ b :: suf).getD r.length 0 = b := by
      rw [List.getD_eq_getElem?_getD, List.getElem?_append_right (by rw [hlen]; exact Nat.le_refl _), hlen]
      simp
    have hset : ∀ x, (r.reverse ++ b :: suf).set r.length x = r.reverse ++ x :: suf := by
      intro x
      rw [List.set_append_right _ _ (by rw [hlen]; exact Nat.le_refl _), hlen]
      simp
    simp only [List.length_cons, List.reverse_cons, List.append_assoc, List.singleton_append,
      Model.incLoopAux, Nat.zero_add, hget, hset, Model.incRev]
    by_cases h : b = 0xff
    · simp only [h, if_true]
      rw [ih]
      simp
    · simp [h]

/-- the C loop over the whole array is `incV` -/
theorem incLoop_eq_incV (v : List UInt8) (hi : Nat) (h : v.length = hi + 1) :
    Model.incLoop hi 0 0xff 0 v = Model.incV v := by
  unfold Model.incLoop Model.incV
  have := incLoopAux_eq v.reverse []
  simp only [List.reverse_reverse, List.append_nil, List.length_reverse] at this
  rw [Nat.sub_zero, ← h]
  exact this

end SqiProofs.Drbg

/-
C20 lemmas: the DRBG model (V a 16-byte big-endian array, incremented bytewise with carry like the C loops)
refines the SP 800-90A specification (V an integer mod 2^128).  Core-only.  The block cipher is a parameter E
with 16-byte output blocks.
-/
import SqiModel.Drbg

namespace SqiProofs.Drbg
open SqiModel.Drbg

def leN : List UInt8 → Nat
  | [] => 0
  | b :: bs => b.toNat + 256 * leN bs

def leBytes : Nat → Nat → List UInt8
  | 0, _ => []
  | n + 1, v => (v % 256).toUInt8 :: leBytes n (v / 256)

theorem beNat_append_single (l : List UInt8) (b : UInt8) : beNat (l ++ [b]) = beNat l * 256 + b.toNat := by
  simp [beNat, List.foldl_append]

theorem beNat_reverse (l : List UInt8) : beNat l.reverse = leN l := by
  induction l with
  | nil => rfl
  | cons b bs ih => rw [List.reverse_cons, beNat_append_single, ih, leN]; omega

theorem beBytes_eq (n v : Nat) : beBytes n v = (leBytes n v).reverse := by
  induction n generalizing v with
  | zero => rfl
  | succ n ih => simp [beBytes, leBytes, ih]

theorem leBytes_length (n v : Nat) : (leBytes n v).length = n := by
  induction n generalizing v with
  | zero => rfl
  | succ n ih => simp [leBytes, ih]

theorem leN_lt (l : List UInt8) : leN l < 256 ^ l.length := by
  induction l with
  | nil => simp [leN]
  | cons b bs ih =>
    have := b.toNat_lt
    simp only [leN, List.length_cons, Nat.pow_succ]
    have : (256 : Nat) ^ bs.length * 256 = 256 * 256 ^ bs.length := Nat.mul_comm _ _
    omega

theorem toUInt8_toNat (b : UInt8) : (b.toNat).toUInt8 = b := by
  simp

theorem leBytes_leN (l : List UInt8) : leBytes l.length (leN l) = l := by
  induction l with
  | nil => rfl
  | cons b bs ih =>
    have hb := b.toNat_lt
    have h1 : (b.toNat + 256 * leN bs) % 256 = b.toNat := by omega
    have h2 : (b.toNat + 256 * leN bs) / 256 = leN bs := by omega
    simp only [List.length_cons, leBytes, leN, h1, h2, ih, toUInt8_toNat]

theorem leN_leBytes (n v : Nat) : leN (leBytes n v) = v % 256 ^ n := by
  induction n generalizing v with
  | zero => simp [leBytes, leN, Nat.mod_one]
  | succ n ih =>
    have h : ((v % 256).toUInt8).toNat = v % 256 := by
      simp [Nat.toUInt8, UInt8.toNat_ofNat']
    simp only [leBytes, leN, ih, h, Nat.pow_succ]
    rw [Nat.mul_comm (256 ^ n) 256, Nat.mod_mul]

theorem incRev_length (l : List UInt8) : (Model.incRev l).length = l.length := by
  induction l with
  | nil => rfl
  | cons b bs ih => unfold Model.incRev; split <;> simp [ih]

theorem leN_incRev (l : List UInt8) : leN (Model.incRev l) = (leN l + 1) % 256 ^ l.length := by
  induction l with
  | nil => simp [Model.incRev, leN]
  | cons b bs ih =>
    have hlt := leN_lt bs
    have hb := b.toNat_lt
    unfold Model.incRev
    by_cases h : b = 0xff
    · subst h
      have e : (0xff : UInt8).toNat = 255 := rfl
      have e0 : (0 : UInt8).toNat = 0 := rfl
      simp only [if_true, leN, ih, List.length_cons, Nat.pow_succ, e, e0]
      rw [Nat.mul_comm (256 ^ bs.length) 256, show 255 + 256 * leN bs + 1 = 256 * (leN bs + 1) by omega,
        Nat.mul_mod_mul_left]
      omega
    · have hne : b.toNat ≠ 255 := by
        intro hc; apply h; apply UInt8.toNat.inj; simpa using hc
      have hadd : (b + 1).toNat = b.toNat + 1 := by
        rw [UInt8.toNat_add]; have : (1 : UInt8).toNat = 1 := rfl
        rw [this]; omega
      simp only [h, if_false, leN, hadd, List.length_cons, Nat.pow_succ]
      rw [Nat.mod_eq_of_lt]
      · omega
      · rw [Nat.mul_comm (256 ^ bs.length) 256]; omega

theorem pow_eq : (2 : Nat) ^ 128 = 256 ^ 16 := by decide

/-- the bytewise increment with carry is `+1 mod 2^128` on the big-endian value -/
theorem incV_eq (v : List UInt8) (h : v.length = 16) :
    Model.incV v = beBytes 16 ((beNat v + 1) % 2 ^ 128) := by
  unfold Model.incV
  rw [beBytes_eq]
  congr 1
  have hl : v.reverse.length = 16 := by simpa using h
  have e : beNat v = leN v.reverse := by rw [← beNat_reverse, List.reverse_reverse]
  rw [e, pow_eq, ← hl, ← leN_incRev, ← incRev_length v.reverse, leBytes_leN]

theorem beNat_beBytes (v : Nat) (h : v < 2 ^ 128) : beNat (beBytes 16 v) = v := by
  rw [beBytes_eq, beNat_reverse, leN_leBytes, ← pow_eq, Nat.mod_eq_of_lt h]

theorem beBytes_length (n v : Nat) : (beBytes n v).length = n := by
  rw [beBytes_eq]; simp [leBytes_length]

theorem xorBytes_zeros (l : List UInt8) (n : Nat) : xorBytes l (List.replicate n 0) = l.take n := by
  induction l generalizing n with
  | nil => simp [xorBytes]
  | cons b bs ih =>
    cases n with
    | zero => simp [xorBytes]
    | succ n =>
      have := ih n
      simp only [xorBytes] at this
      simp [xorBytes, List.replicate_succ, this]

variable (E : List UInt8 → List UInt8 → List UInt8)

theorem incV_length (v : List UInt8) (h : v.length = 16) : (Model.incV v).length = 16 := by
  rw [incV_eq v h, beBytes_length]

theorem beNat_incV (v : List UInt8) (h : v.length = 16) : beNat (Model.incV v) = (beNat v + 1) % 2 ^ 128 := by
  rw [incV_eq v h, beNat_beBytes _ (Nat.mod_lt _ (by decide))]

theorem beBytes_beNat (w : List UInt8) (h : w.length = 16) : beBytes 16 (beNat w) = w := by
  have hl : w.reverse.length = 16 := by simpa using h
  have e : beNat w = leN w.reverse := by rw [← beNat_reverse, List.reverse_reverse]
  rw [beBytes_eq, e, ← hl, leBytes_leN, List.reverse_reverse]

/-- the generate loop = the specification's block stream, truncated -/
theorem genLoop_refines (key : List UInt8) (hE : ∀ v, v.length = 16 → (E key v).length = 16) (fuel xlen : Nat) (v : List UInt8)
    (hv : v.length = 16) (hf : xlen < fuel) :
    (Model.genLoop E key fuel xlen v).1 = ((Spec.blocks E key ((xlen + 15) / 16) (beNat v)).1).take xlen ∧
    beNat (Model.genLoop E key fuel xlen v).2 = (Spec.blocks E key ((xlen + 15) / 16) (beNat v)).2 ∧
    (Model.genLoop E key fuel xlen v).2.length = 16 := by
  induction fuel generalizing xlen v with
  | zero => omega
  | succ fuel ih =>
    unfold Model.genLoop
    by_cases h0 : 0 < xlen
    · have hq : (xlen + 15) / 16 = (xlen - 1) / 16 + 1 := by omega
      rw [hq]
      simp only [Spec.blocks, ← beNat_incV v hv, beBytes_beNat _ (incV_length v hv)]
      by_cases h15 : 15 < xlen
      · have hq2 : (xlen - 1) / 16 = (xlen - 16 + 15) / 16 := by omega
        obtain ⟨i1, i2, i3⟩ := ih (xlen - 16) (Model.incV v) (incV_length v hv) (by omega)
        simp only [h0, h15, if_true, hq2]
        refine ⟨?_, i2, i3⟩
        have hb : (E key (Model.incV v)).take 16 = E key (Model.incV v) :=
          List.take_of_length_le (by rw [hE _ (incV_length v hv)]; exact Nat.le_refl 16)
        have hc : (E key (Model.incV v)).take xlen = E key (Model.incV v) :=
          List.take_of_length_le (by rw [hE _ (incV_length v hv)]; omega)
        rw [hb, i1, List.take_append, hc, hE _ (incV_length v hv)]
      · have hq2 : (xlen - 1) / 16 = 0 := by omega
        simp only [h0, h15, if_true, if_false, hq2, Spec.blocks, List.append_nil]
        exact ⟨trivial, trivial, incV_length v hv⟩
    · have : xlen = 0 := by omega
      subst this
      simp [Spec.blocks, hv]

/-- `AES256_CTR_DRBG_Update(NULL, Key, V)` = CTR_DRBG_Update(0^384, Key, V) -/
theorem update_refines (key : List UInt8) (hE : ∀ v, v.length = 16 → (E key v).length = 16) (v : List UInt8) (hv : v.length = 16) :
    (Model.update E none key v).1 = (Spec.update E (List.replicate 48 0) key (beNat v)).1 ∧
    beNat (Model.update E none key v).2 = (Spec.update E (List.replicate 48 0) key (beNat v)).2 ∧
    (Model.update E none key v).2.length = 16 := by
  have h1 := incV_length v hv
  have h2 := incV_length _ h1
  have h3 := incV_length _ h2
  unfold Model.update Spec.update
  simp only [Spec.blocks, ← beNat_incV v hv, beBytes_beNat _ h1, ← beNat_incV _ h1, beBytes_beNat _ h2,
    ← beNat_incV _ h2, beBytes_beNat _ h3, List.append_nil, xorBytes_zeros, List.take_take]
  have hl : (E key (Model.incV v) ++ (E key (Model.incV (Model.incV v)) ++ E key (Model.incV (Model.incV (Model.incV v))))).length = 48 := by
    simp [hE _ h1, hE _ h2, hE _ h3]
  refine ⟨?_, ?_, ?_⟩
  · simp [List.append_assoc, List.take_take]
  · simp [List.append_assoc, List.take_take, List.take_of_length_le (Nat.le_of_eq hl)]
  · simp [hE _ h1, hE _ h2, hE _ h3]

/-- `randombytes(x, n)` refines CTR_DRBG_Generate (no additional input): same bytes, corresponding new state -/
theorem randombytes_refines (st : Model.St) (hE : ∀ v, v.length = 16 → (E st.key v).length = 16) (hv : st.v.length = 16) (n : Nat) :
    (Model.randombytes E st n).1 = (Spec.generate E (abs st) n).1 ∧
    abs (Model.randombytes E st n).2 = (Spec.generate E (abs st) n).2 ∧
    (Model.randombytes E st n).2.v.length = 16 := by
  obtain ⟨g1, g2, g3⟩ := genLoop_refines E st.key hE (n + 1) n st.v hv (by omega)
  obtain ⟨u1, u2, u3⟩ := update_refines E st.key hE (Model.genLoop E st.key (n + 1) n st.v).2 g3
  unfold Model.randombytes Spec.generate abs
  simp only [g1, ← g2, u1, ← u2]
  exact ⟨trivial, trivial, u3⟩


/-- `AES256_CTR_DRBG_Update(provided_data, Key, V)` with 48 bytes of provided data -/
theorem update_refines_some (key : List UInt8) (hE : ∀ v, v.length = 16 → (E key v).length = 16) (p v : List UInt8) (hv : v.length = 16) :
    (Model.update E (some p) key v).1 = (Spec.update E p key (beNat v)).1 ∧
    beNat (Model.update E (some p) key v).2 = (Spec.update E p key (beNat v)).2 ∧
    ((Model.update E (some p) key v).2.length = 16 ∨ p.length < 48) := by
  have h1 := incV_length v hv
  have h2 := incV_length _ h1
  have h3 := incV_length _ h2
  have hl : (E key (Model.incV v) ++ (E key (Model.incV (Model.incV v)) ++ E key (Model.incV (Model.incV (Model.incV v))))).length = 48 := by
    simp [hE _ h1, hE _ h2, hE _ h3]
  unfold Model.update Spec.update
  simp only [Spec.blocks, ← beNat_incV v hv, beBytes_beNat _ h1, ← beNat_incV _ h1, beBytes_beNat _ h2,
    ← beNat_incV _ h2, beBytes_beNat _ h3, List.append_nil, List.append_assoc,
    List.take_of_length_le (Nat.le_of_eq hl)]
  refine ⟨trivial, trivial, ?_⟩
  by_cases hp : p.length < 48
  · exact Or.inr hp
  · left
    simp [xorBytes, hE _ h1, hE _ h2, hE _ h3]; omega

/-- `randombytes_init(entropy, NULL, _)` = CTR_DRBG_Instantiate (no df, empty personalization string) -/
theorem init_refines (hE : ∀ v, v.length = 16 → (E (List.replicate 32 0) v).length = 16) (entropy : List UInt8) :
    abs (Model.init E entropy none) = Spec.instantiate E entropy [] := by
  have hz : beNat (List.replicate 16 0) = 0 := by decide
  obtain ⟨u1, u2, _⟩ := update_refines_some E (List.replicate 32 0) hE (entropy.take 48) (List.replicate 16 0) (by simp)
  unfold Model.init Spec.instantiate abs
  simp only [List.nil_append, List.length_nil, Nat.sub_zero, xorBytes_zeros, u1, u2, hz]

theorem xorBytes_take_left (l p : List UInt8) (n : Nat) (h : p.length ≤ n) :
    xorBytes (l.take n) p = xorBytes l p := by
  induction l generalizing p n with
  | nil => simp [xorBytes]
  | cons b bs ih =>
    cases p with
    | nil => simp [xorBytes]
    | cons c cs =>
      cases n with
      | zero => simp at h
      | succ n =>
        have := ih cs n (by simpa using h)
        simp only [xorBytes] at this
        simp [xorBytes, this]

/-- `randombytes_init(entropy, personalization, _)` with a 48-byte personalization string = CTR_DRBG_Instantiate -/
theorem init_refines_pers (hE : ∀ v, v.length = 16 → (E (List.replicate 32 0) v).length = 16) (entropy pers : List UInt8) (hp : pers.length = 48) :
    abs (Model.init E entropy (some pers)) = Spec.instantiate E entropy pers := by
  have hz : beNat (List.replicate 16 0) = 0 := by decide
  obtain ⟨u1, u2, _⟩ := update_refines_some E (List.replicate 32 0) hE (xorBytes entropy pers)
    (List.replicate 16 0) (by simp)
  unfold Model.init Spec.instantiate abs
  simp only [hp, Nat.sub_self, List.replicate_zero, List.append_nil,
    xorBytes_take_left entropy pers 48 (Nat.le_of_eq hp)]
  rw [hz] at u1 u2
  simp only [u1, u2]

/-- the specification run over a request list -/
def specRun (sp : Spec.St) : List Nat → List (List UInt8) × Spec.St
  | [] => ([], sp)
  | n :: ns => ((Spec.generate E sp n).1 :: (specRun (Spec.generate E sp n).2 ns).1, (specRun (Spec.generate E sp n).2 ns).2)

theorem update_key_length (key : List UInt8) (hE : ∀ v, v.length = 16 → (E key v).length = 16) (v : List UInt8)
    (hv : v.length = 16) : (Model.update E none key v).1.length = 32 := by
  have h1 := incV_length v hv
  have h2 := incV_length _ h1
  have h3 := incV_length _ h2
  unfold Model.update
  simp [hE _ h1, hE _ h2, hE _ h3]

theorem randombytes_key_length (st : Model.St) (hE : ∀ v, v.length = 16 → (E st.key v).length = 16) (hv : st.v.length = 16)
    (n : Nat) : (Model.randombytes E st n).2.key.length = 32 := by
  obtain ⟨_, _, g3⟩ := genLoop_refines E st.key hE (n + 1) n st.v hv (by omega)
  unfold Model.randombytes
  simp only
  exact update_key_length E st.key hE _ g3

theorem update_some_lengths (key : List UInt8) (hE : ∀ v, v.length = 16 → (E key v).length = 16) (p v : List UInt8)
    (hv : v.length = 16) (hp : p.length = 48) :
    (Model.update E (some p) key v).1.length = 32 ∧ (Model.update E (some p) key v).2.length = 16 := by
  have h1 := incV_length v hv
  have h2 := incV_length _ h1
  have h3 := incV_length _ h2
  unfold Model.update
  simp [xorBytes, hE _ h1, hE _ h2, hE _ h3, hp]

theorem init_lengths (hE : ∀ v, v.length = 16 → (E (List.replicate 32 0) v).length = 16) (entropy : List UInt8)
    (he : 48 ≤ entropy.length) :
    (Model.init E entropy none).key.length = 32 ∧ (Model.init E entropy none).v.length = 16 := by
  have := update_some_lengths E (List.replicate 32 0) hE (entropy.take 48) (List.replicate 16 0) (by simp) (by simp; omega)
  unfold Model.init
  exact this

/-- every history of the model is the specification's history (block cipher with 16-byte blocks on 32-byte keys) -/
theorem run_refines (hE : ∀ k v, k.length = 32 → v.length = 16 → (E k v).length = 16) (st : Model.St)
    (hk : st.key.length = 32) (hv : st.v.length = 16) (reqs : List Nat) :
    (Model.run E st reqs).1 = (specRun E (abs st) reqs).1 ∧ abs (Model.run E st reqs).2 = (specRun E (abs st) reqs).2 := by
  induction reqs generalizing st with
  | nil => simp [Model.run, specRun]
  | cons n ns ih =>
    obtain ⟨r1, r2, r3⟩ := randombytes_refines E st (fun v h => hE _ _ hk h) hv n
    obtain ⟨i1, i2⟩ := ih (Model.randombytes E st n).2 (randombytes_key_length E st (fun v h => hE _ _ hk h) hv n) r3
    simp only [Model.run, specRun, r1, ← r2, i1, i2]
    exact ⟨trivial, trivial⟩

end SqiProofs.Drbg

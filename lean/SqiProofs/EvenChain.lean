/-
Lemmas for C09: the C-shaped loop model of `ec_eval_even_strategy` (SqiModel.EvenChain) run on a valid,
depth-bounded strategy (`StratD`) — induction over the strategy tree, no bound on the length.
-/
import SqiModel.EvenChain
import SqiModel.StrategyDepth

namespace SqiProofs.EvenChain
open SqiModel SqiModel.EvenChain

/-- per-event correctness: indices inside their arrays, strategy index below `sb`, kernel of the right order -/
def evOk (vla sb : Nat) : Ev → Bool
  | .push st cur _ => decide (st < sb) && decide (1 ≤ cur) && decide (cur < vla)
  | .dbls cur cnt extra _ => decide (1 ≤ cur) && decide (cur < vla) && decide (cnt % 2 = 0) && decide (extra ≤ 1)
  | .iso4 _ cur _ k => decide (1 ≤ cur) && decide (cur < vla) && decide (k = 2)
  | .fin4 cur _ k => decide (0 ≤ cur) && decide (cur < vla) && decide (k = 2)
  | .fin2 k => decide (k = 1)
  | .error _ => false
  | _ => true

def degSum (l : List Ev) : Nat := (l.map Ev.deg).sum

@[simp] theorem degSum_nil : degSum [] = 0 := rfl
@[simp] theorem degSum_append (a b : List Ev) : degSum (a ++ b) = degSum a + degSum b := by
  simp [degSum, List.map_append, List.sum_append]
@[simp] theorem degSum_cons (a : Ev) (b : List Ev) : degSum (a :: b) = a.deg + degSum b := by
  simp [degSum]

theorem whileLoop_exit (P : Params) (j : Nat) (s : St) (he : s.err = none)
    (hb : s.block = (P.eHalf : Int) - 1 - (j : Int)) : whileLoop P j s = s := by
  rw [whileLoop]; simp [he, hb]

theorem whileLoop_push (P : Params) (j : Nat) (s : St) (he : s.err = none)
    (hb : s.block ≠ (P.eHalf : Int) - 1 - (j : Int)) (h : s.strategy < P.row.length) :
    whileLoop P j s = whileLoop P j { pushBody P s P.row[s.strategy] with strategy := s.strategy + 1 } := by
  rw [whileLoop]; simp [he, hb, h]

theorem forLoop_add (P : Params) (a b : Nat) : ∀ (j : Nat) (s : St),
    forLoop P (a + b) j s = forLoop P b (j + a) (forLoop P a j s) := by
  induction a with
  | zero => intro j s; simp [forLoop]
  | succ a ih =>
    intro j s
    have : a + 1 + b = (a + b) + 1 := by omega
    rw [this]
    simp only [forLoop]
    rw [ih]
    congr 1; omega

/-- the state after one successful iteration of the while body -/
def pushed (P : Params) (s : St) (c b o : Nat) : St :=
  { strategy := s.strategy + 1, block := s.block + b, current := (c : Int) + 1,
    xdbls := upd s.xdbls (c + 1) (some b),
    sp := upd s.sp (c + 1) (some (o - (if P.isOdd = 1 ∧ c = 0 then 1 else 0) - 2 * b)),
    err := none,
    trace := s.trace ++ [.push s.strategy ((c : Int) + 1) b,
      .dbls ((c : Int) + 1) (2 * b) (if P.isOdd = 1 ∧ c = 0 then 1 else 0)
        (o - (if P.isOdd = 1 ∧ c = 0 then 1 else 0) - 2 * b)] }

theorem pushBody_ok (P : Params) (s : St) (c b o : Nat) (he : s.err = none) (hc : s.current = (c : Int))
    (hv : c + 1 < P.vla) (ho : s.sp c = some o) :
    ({ pushBody P s b with strategy := s.strategy + 1 } : St) = pushed P s c b o := by
  have h1 : idxOK ((c : Int) + 1) P.vla = true := by simp [idxOK]; omega
  have h2 : idxOK (c : Int) P.vla = true := by simp [idxOK]; omega
  have h4 : ((c : Int) + 1).toNat = c + 1 := by omega
  have h5 : ((c : Int) + 1 = 1) ↔ c = 0 := by omega
  simp [pushBody, pushed, St.emit, hc, h1, h2, h4, h5, ho, he]

theorem forLoop_push (P : Params) (n j : Nat) (s : St) (c b o : Nat) (he : s.err = none)
    (hb : s.block ≠ (P.eHalf : Int) - 1 - (j : Int)) (h : s.strategy < P.row.length)
    (hr : P.row[s.strategy] = b) (hc : s.current = (c : Int)) (hv : c + 1 < P.vla) (ho : s.sp c = some o) :
    forLoop P (n + 1) j s = forLoop P (n + 1) j (pushed P s c b o) := by
  simp only [forLoop]
  rw [whileLoop_push P j s he hb h, hr, pushBody_ok P s c b o he hc hv ho]

theorem forLoop_push' (P : Params) (n j : Nat) (s : St) (c b o : Nat) (hn : 1 ≤ n) (he : s.err = none)
    (hb : s.block ≠ (P.eHalf : Int) - 1 - (j : Int)) (h : s.strategy < P.row.length)
    (hr : P.row[s.strategy] = b) (hc : s.current = (c : Int)) (hv : c + 1 < P.vla) (ho : s.sp c = some o) :
    forLoop P n j s = forLoop P n j (pushed P s c b o) := by
  cases n with
  | zero => omega
  | succ m => exact forLoop_push P m j s c b o he hb h hr hc hv ho

theorem forLoop_add' (P : Params) (n a b : Nat) (hn : n = a + b) (j : Nat) (s : St) :
    forLoop P n j s = forLoop P b (j + a) (forLoop P a j s) := by
  subst hn; exact forLoop_add P a b j s

/-- the state after the isogeny part of an iteration (non-base slot `c ≥ 1`) -/
def popped (s : St) (j c d : Nat) : St :=
  { strategy := s.strategy, block := s.block - d, current := (c : Int) - 1,
    xdbls := upd s.xdbls c (some 0),
    sp := fun i => if i < c then (s.sp i).map (· - 2) else s.sp i,
    err := none,
    trace := s.trace ++ [.iso4 j c s.block 2, .pop ((c : Int) - 1) (s.block - d)] }

theorem isoStep_ok (P : Params) (j : Nat) (s : St) (c d : Nat) (he : s.err = none) (hc : s.current = (c : Int))
    (hc1 : 1 ≤ c) (hv : c < P.vla) (ho : s.sp c = some 2) (hd : s.xdbls c = some d) :
    isoStep P j s = popped s j c d := by
  have h1 : idxOK (c : Int) P.vla = true := by simp [idxOK]; omega
  have h2 : ¬ c = 0 := by omega
  simp [isoStep, popped, St.emit, he, hc, h1, h2, ho, hd]


theorem drop_head {l : List Nat} {i b : Nat} {r : List Nat} (h : l.drop i = b :: r) :
    ∃ hi : i < l.length, l[i] = b ∧ l.drop (i + 1) = r := by
  have hi : i < l.length := by
    by_cases hh : i < l.length
    · exact hh
    · have : l.drop i = [] := List.drop_eq_nil_of_le (by omega)
      rw [this] at h; cases h
  refine ⟨hi, ?_, ?_⟩
  · have := List.drop_eq_getElem_cons hi
    rw [this] at h
    exact (List.cons.inj h).1
  · have := List.drop_eq_getElem_cons hi
    rw [this] at h
    exact (List.cons.inj h).2

/-- **Subtree lemma.** A subtree with `h` leaves stored at stack slot `c ≥ 1` is consumed by exactly `h`
    iterations of the main loop: every carried point below it is lowered by `2h`, the bookkeeping is restored,
    every event is in bounds and every kernel has exponent exactly 2 (order 4). -/
theorem sub_lemma (P : Params) (sb : Nat) {h c : Nat} {t : List Nat} (hs : StratD P.vla h c t) :
    ∀ (j : Nat) (s : St) (t2 : List Nat) (d : Nat),
      1 ≤ c → s.err = none → s.current = (c : Int) → s.sp c = some (2 * h) → s.xdbls c = some d →
      s.block = (P.eHalf : Int) - j - h → P.row.drop s.strategy = t ++ t2 → s.strategy + t.length ≤ sb →
      (forLoop P h j s).err = none ∧ (forLoop P h j s).strategy = s.strategy + t.length ∧
      (forLoop P h j s).current = (c : Int) - 1 ∧ (forLoop P h j s).block = s.block - d ∧
      (∀ k, k < c → (forLoop P h j s).sp k = (s.sp k).map (· - 2 * h)) ∧
      (∀ k, k < c → (forLoop P h j s).xdbls k = s.xdbls k) ∧
      ∃ new, (forLoop P h j s).trace = s.trace ++ new ∧ new.all (evOk P.vla sb) = true ∧ degSum new = 2 * h := by
  induction hs with
  | @leaf c hcv =>
    intro j s t2 d hc1 he hc ho hd hb hr hsb
    have hex : s.block = (P.eHalf : Int) - 1 - (j : Int) := by omega
    have e : forLoop P 1 j s = popped s j c d := by
      simp only [forLoop]
      rw [whileLoop_exit P j s he hex, isoStep_ok P j s c d he hc hc1 hcv (by simpa using ho) hd]
    rw [e]
    refine ⟨rfl, by simp [popped], rfl, rfl, ?_, ?_, ?_⟩
    · intro k hk; simp [popped, hk]
    · intro k hk; simp [popped, upd]; omega
    · refine ⟨_, rfl, ?_, ?_⟩
      · simp [evOk]; omega
      · simp [Ev.deg]
  | @node n b c ta tb hb1 hbn hsa hsb' iha ihb =>
    intro j s t2 d hc1 he hc ho hd hb hr hsb
    have hcv : c + 1 < P.vla := hsa.idx_lt
    -- the while loop pushes once
    have hne : s.block ≠ (P.eHalf : Int) - 1 - (j : Int) := by omega
    have hr' : P.row.drop s.strategy = b :: (ta ++ tb ++ t2) := by simpa using hr
    obtain ⟨hi, hrow, hdrop⟩ := drop_head hr'
    have e0 : forLoop P n j s = forLoop P n j (pushed P s c b (2 * n)) :=
      forLoop_push' P n j s c b (2 * n) (by omega) he hne hi hrow hc hcv ho
    have hodd : ¬ (P.isOdd = 1 ∧ c = 0) := by omega
    -- left subtree at slot c+1
    have hsplit : n = (n - b) + b := by omega
    have A := iha j (pushed P s c b (2 * n)) (tb ++ t2) b (by omega) rfl (by simp [pushed])
      (by simp [pushed, upd, hodd]; omega) (by simp [pushed, upd])
      (by simp [pushed]; omega) (by simp [pushed, hdrop, List.append_assoc]) (by simp [pushed]; simp at hsb; omega)
    obtain ⟨a1, a2, a3, a4, a5, a6, newa, a7, a8, a9⟩ := A
    -- right subtree at slot c
    have B := ihb (j + (n - b)) (forLoop P (n - b) j (pushed P s c b (2 * n))) t2 d hc1 a1 (by rw [a3]; simp)
      (by rw [a5 c (by omega)]; simp [pushed, upd, ho]; omega)
      (by rw [a6 c (by omega)]; simp [pushed, upd, hd])
      (by rw [a4]; simp [pushed]; omega)
      (by rw [a2]; simp [pushed]; rw [← List.drop_drop, hdrop]; simp [List.append_assoc])
      (by rw [a2]; simp [pushed]; simp at hsb; omega)
    obtain ⟨b1, b2, b3, b4, b5, b6, newb, b7, b8, b9⟩ := B
    have e1 : forLoop P n j s = forLoop P b (j + (n - b)) (forLoop P (n - b) j (pushed P s c b (2 * n))) := by
      rw [e0]; exact forLoop_add' P n (n - b) b hsplit j _
    rw [e1]
    refine ⟨b1, ?_, b3, ?_, ?_, ?_, ?_⟩
    · rw [b2, a2]; simp [pushed]; omega
    · rw [b4, a4]; simp [pushed]
    · intro k hk
      rw [b5 k hk, a5 k (by omega)]
      have : k ≠ c + 1 := by omega
      simp [pushed, upd, this]
      cases s.sp k with
      | none => rfl
      | some v => simp; omega
    · intro k hk
      rw [b6 k hk, a6 k (by omega)]
      have : k ≠ c + 1 := by omega
      simp [pushed, upd, this]
    · refine ⟨[.push s.strategy ((c : Int) + 1) b,
          .dbls ((c : Int) + 1) (2 * b) (if P.isOdd = 1 ∧ c = 0 then 1 else 0)
            (2 * n - (if P.isOdd = 1 ∧ c = 0 then 1 else 0) - 2 * b)] ++ newa ++ newb, ?_, ?_, ?_⟩
      · rw [b7, a7]; simp [pushed, List.append_assoc]
      · simp only [List.all_append, a8, b8, Bool.and_true]
        simp [evOk, hodd]
        simp at hsb
        omega
      · simp [a9, b9, Ev.deg]; omega


theorem isOdd_le (P : Params) : P.isOdd = 0 ∨ P.isOdd = 1 := by
  unfold Params.isOdd; omega

/-- **Spine lemma.** The base slot (`current = 0`, the kernel generator itself) carrying a subtree with `h` leaves
    whose last leaf is the final isogeny outside the loop: after `h-1` iterations the bookkeeping is back to
    `current = 0`, `BLOCK = 0` and the base point has exponent `2 + is_odd`. -/
theorem spine_lemma (P : Params) (sb : Nat) {h c : Nat} {t : List Nat} (hs : StratD P.vla h c t) :
    ∀ (j : Nat) (s : St) (t2 : List Nat), c = 0 →
      s.err = none → s.current = 0 → s.sp 0 = some (2 * h + P.isOdd) → s.block = 0 → j + h = P.eHalf →
      P.row.drop s.strategy = t ++ t2 → s.strategy + t.length ≤ sb →
      (forLoop P (h - 1) j s).err = none ∧ (forLoop P (h - 1) j s).strategy = s.strategy + t.length ∧
      (forLoop P (h - 1) j s).current = 0 ∧ (forLoop P (h - 1) j s).block = 0 ∧
      (forLoop P (h - 1) j s).sp 0 = some (2 + P.isOdd) ∧
      ∃ new, (forLoop P (h - 1) j s).trace = s.trace ++ new ∧ new.all (evOk P.vla sb) = true ∧
        degSum new = 2 * (h - 1) := by
  induction hs with
  | @leaf c hcv =>
    intro j s t2 hc0 he hc ho hb hj hr hsb
    simp only [Nat.sub_self, forLoop]
    refine ⟨he, by simp, hc, hb, by simpa using ho, [], by simp, by simp, by simp⟩
  | @node n b c ta tb hb1 hbn hsa hsb' iha ihb =>
    intro j s t2 hc0 he hc ho hb hj hr hsb
    subst hc0
    have hcv : 0 + 1 < P.vla := hsa.idx_lt
    have hne : s.block ≠ (P.eHalf : Int) - 1 - (j : Int) := by omega
    have hr' : P.row.drop s.strategy = b :: (ta ++ tb ++ t2) := by simpa using hr
    obtain ⟨hi, hrow, hdrop⟩ := drop_head hr'
    have e0 : forLoop P (n - 1) j s = forLoop P (n - 1) j (pushed P s 0 b (2 * n + P.isOdd)) :=
      forLoop_push' P (n - 1) j s 0 b (2 * n + P.isOdd) (by omega) he hne hi hrow (by simpa using hc) hcv ho
    have hodd := isOdd_le P
    have A := sub_lemma P sb hsa j (pushed P s 0 b (2 * n + P.isOdd)) (tb ++ t2) b (by omega) rfl (by simp [pushed])
      (by simp only [pushed, upd]; rcases hodd with h0 | h0 <;> simp [h0] <;> omega)
      (by simp [pushed, upd])
      (by simp [pushed, hb]; omega) (by simp [pushed, hdrop, List.append_assoc]) (by simp [pushed]; simp at hsb; omega)
    obtain ⟨a1, a2, a3, a4, a5, a6, newa, a7, a8, a9⟩ := A
    have B := ihb (j + (n - b)) (forLoop P (n - b) j (pushed P s 0 b (2 * n + P.isOdd))) t2 rfl a1
      (by rw [a3]; simp)
      (by rw [a5 0 (by omega)]; simp [pushed, upd, ho]; omega)
      (by rw [a4]; simp [pushed, hb])
      (by omega)
      (by rw [a2]; simp [pushed]; rw [← List.drop_drop, hdrop]; simp [List.append_assoc])
      (by rw [a2]; simp [pushed]; simp at hsb; omega)
    obtain ⟨b1, b2, b3, b4, b5, newb, b7, b8, b9⟩ := B
    have e1 : forLoop P (n - 1) j s =
        forLoop P (b - 1) (j + (n - b)) (forLoop P (n - b) j (pushed P s 0 b (2 * n + P.isOdd))) := by
      rw [e0]; exact forLoop_add' P (n - 1) (n - b) (b - 1) (by omega) j _
    rw [e1]
    refine ⟨b1, ?_, b3, b4, b5, ?_⟩
    · rw [b2, a2]; simp [pushed]; omega
    · refine ⟨[.push s.strategy ((0 : Nat) + 1 : Int) b,
          .dbls ((0 : Nat) + 1 : Int) (2 * b) (if P.isOdd = 1 ∧ (0 : Nat) = 0 then 1 else 0)
            (2 * n + P.isOdd - (if P.isOdd = 1 ∧ (0 : Nat) = 0 then 1 else 0) - 2 * b)] ++ newa ++ newb, ?_, ?_, ?_⟩
      · rw [b7, a7]; simp [pushed, List.append_assoc]
      · simp only [List.all_append, a8, b8, Bool.and_true]
        simp [evOk]
        simp at hsb
        refine ⟨by omega, by omega, ?_⟩
        split <;> omega
      · simp [a9, b9, Ev.deg]; omega


theorem vla_even (P : Params) : P.vla % 2 = 0 := by
  unfold Params.vla; omega

theorem finalSteps_ok (P : Params) (sb : Nat) (s : St) (he : s.err = none) (hc : s.current = 0)
    (ho : s.sp 0 = some (2 + P.isOdd)) (hv : 0 < P.vla) :
    (finalSteps P s).err = none ∧ (finalSteps P s).strategy = s.strategy ∧
    ∃ new, (finalSteps P s).trace = s.trace ++ new ∧ new.all (evOk P.vla sb) = true ∧
      degSum new = 2 + P.isOdd := by
  have hev := vla_even P
  have h0 : idxOK 0 P.vla = true := by simp [idxOK]; omega
  have h1 : idxOK 1 P.vla = true := by simp [idxOK]; omega
  rcases isOdd_le P with hodd | hodd
  · simp [finalSteps, he, hodd, hc, h0, ho, St.emit, evOk, Ev.deg]
    omega
  · simp [finalSteps, he, hodd, h1, ho, St.emit, upd, evOk, Ev.deg]
    omega

/-- `ec_eval_even_strategy` on a zero-padded row holding a valid strategy for ⌊len/2⌋ leaves whose depth fits the
    VLAs: no fault, the strategy is consumed exactly, every index is in bounds, every kernel has exactly the right
    order (4, 4, …, 4 and 2 for the trailing step of an odd chain) and the degrees multiply to 2^len. -/
theorem evalP_sound (P : Params) (t pad : List Nat) (hlen : 2 ≤ P.isogLen) (hrow : P.row = t ++ pad)
    (hs : StratD P.vla P.eHalf 0 t) :
    (evalP P).err = none ∧ (evalP P).strategy = P.eHalf - 1 ∧
    (evalP P).trace.all (evOk P.vla (P.eHalf - 1)) = true ∧ degSum (evalP P).trace = P.isogLen := by
  have hv : 0 < P.vla := hs.idx_lt
  have hlenT : t.length + 1 = P.eHalf := hs.toStrat.length
  have S := spine_lemma P (P.eHalf - 1) hs 0 (initSt P) pad rfl rfl rfl
    (by simp [initSt, Params.eHalf, Params.isOdd]; omega) rfl (by omega)
    (by simp [initSt, hrow]) (by simp [initSt]; omega)
  obtain ⟨s1, s2, s3, s4, s5, new, s6, s7, s8⟩ := S
  have F := finalSteps_ok P (P.eHalf - 1) _ s1 s3 s5 hv
  obtain ⟨f1, f2, newf, f3, f4, f5⟩ := F
  have e : evalP P = finalSteps P (forLoop P (P.eHalf - 1) 0 (initSt P)) := by
    unfold evalP; simp; omega
  rw [e]
  refine ⟨f1, ?_, ?_, ?_⟩
  · rw [f2, s2]; simp [initSt]; omega
  · rw [f3, s6]; simp [List.all_append, s7, f4, initSt, evOk]
  · rw [f3, s6]; simp [s8, f5, initSt, Ev.deg]
    have : P.isogLen = 2 * P.eHalf + P.isOdd := by unfold Params.eHalf Params.isOdd; omega
    have : 1 ≤ P.eHalf := by unfold Params.eHalf; omega
    omega


/-! ### table rows -/

/-- row `i` of a 4-isogeny strategy table serves chains of length `f - i`: it must be a valid strategy for
    ⌊(f-i)/2⌋ leaves whose traversal depth fits the VLAs of size `2·bitlen(⌊(f-i)/2⌋ mod 256)` -/
def rowOKD (f : Nat) (row : List Nat) (i : Nat) : Bool :=
  decide (2 ≤ f - i) && checkStratD (2 * bitlen (((f - i) / 2) % 256)) ((f - i) / 2) 0 row

def rowsValidD (f : Nat) (table : List (List Nat)) : Bool :=
  (table.zipIdx).all fun (row, i) => rowOKD f row i

def badRowsD (f : Nat) (table : List (List Nat)) : List Nat :=
  (table.zipIdx).filterMap fun (row, i) => if rowOKD f row i then none else some i

theorem evalEven_sound_of_rows (f : Nat) (table : List (List Nat)) (h : rowsValidD f table = true)
    (isogLen : Nat) (h1 : isogLen ≤ f) (h2 : f - isogLen < table.length) :
    let P := mkParams table f isogLen
    (evalEven table f isogLen).err = none ∧ (evalEven table f isogLen).strategy = isogLen / 2 - 1 ∧
    (evalEven table f isogLen).trace.all (evOk P.vla (isogLen / 2 - 1)) = true ∧
    degSum (evalEven table f isogLen).trace = isogLen := by
  intro P
  unfold rowsValidD at h
  rw [List.all_eq_true] at h
  have hm : (table[f - isogLen], f - isogLen) ∈ table.zipIdx := by
    rw [List.mem_zipIdx_iff_getElem?]; simp [h2]
  have hr := h _ hm
  simp only [rowOKD, Bool.and_eq_true, decide_eq_true_eq] at hr
  have hfi : f - (f - isogLen) = isogLen := by omega
  rw [hfi] at hr
  obtain ⟨t, pad, hs, hrow, _, _⟩ := checkStratD_sound _ _ _ _ hr.2
  have hidx : ((f : Int) - (isogLen : Int)) = ((f - isogLen : Nat) : Int) := by omega
  have hPr : P.row = t ++ pad := by
    show (mkParams table f isogLen).row = _
    simp only [mkParams, hidx]
    simp [List.getD, h2, hrow]
  have hPl : P.isogLen = isogLen := rfl
  have hv : P.vla = 2 * bitlen ((isogLen / 2) % 256) := rfl
  have := evalP_sound P t pad (by rw [hPl]; exact hr.1) hPr (by rw [hv]; exact hs)
  exact this

theorem whileLoop_err (P : Params) (j : Nat) (s : St) (he : s.err.isSome = true) : whileLoop P j s = s := by
  rw [whileLoop]; simp [he]
theorem isoStep_err (P : Params) (j : Nat) (s : St) (he : s.err.isSome = true) : isoStep P j s = s := by
  simp [isoStep, he]
theorem finalSteps_err (P : Params) (s : St) (he : s.err.isSome = true) : finalSteps P s = s := by
  simp [finalSteps, he]
theorem forLoop_err (P : Params) (n : Nat) : ∀ (j : Nat) (s : St), s.err.isSome = true → forLoop P n j s = s := by
  induction n with
  | zero => intro j s _; rfl
  | succ n ih =>
    intro j s he
    simp only [forLoop]
    rw [whileLoop_err P j s he, isoStep_err P j s he]
    exact ih (j + 1) s he

/-- outside the admissible range the table row does not exist: the first strategy read is out of bounds
    (every length ≥ 4 reads the table). -/
theorem evalEven_out_of_range (table : List (List Nat)) (f isogLen : Nat) (h4 : 4 ≤ isogLen) (hv : isogLen / 2 % 256 ≠ 0)
    (hout : f < isogLen ∨ table.length ≤ f - isogLen) :
    (evalEven table f isogLen).err = some (.rowIndex ((f : Int) - isogLen) table.length) := by
  have hcases : f < isogLen ∨ (isogLen ≤ f ∧ table.length ≤ f - isogLen) := by omega
  have hrow : (mkParams table f isogLen).row = [] := by
    simp only [mkParams]
    rcases hcases with h | ⟨h, h'⟩
    · have : ¬ (0 : Int) ≤ (f : Int) - (isogLen : Int) := by omega
      simp only [this, if_false]
    · have hidx : ((f : Int) - (isogLen : Int)) = ((f - isogLen : Nat) : Int) := by omega
      simp [hidx, List.getD, h']
  have hok : (mkParams table f isogLen).rowOK = false := by
    simp only [Params.rowOK, mkParams]
    rcases hcases with h | ⟨h, h'⟩
    · have : ¬ (0 : Int) ≤ (f : Int) - (isogLen : Int) := by omega
      simp only [this, decide_false, Bool.false_and]
    · have : ¬ ((f : Int) - (isogLen : Int) < (table.length : Int)) := by omega
      simp only [this, decide_false, Bool.and_false]
  have hvla : (mkParams table f isogLen).vla ≠ 0 := by
    simp only [Params.vla, Params.eHalf, mkParams, bitlen, hv]
    simp
  have he : (mkParams table f isogLen).eHalf - 1 = ((mkParams table f isogLen).eHalf - 2) + 1 := by
    simp only [Params.eHalf, mkParams]; omega
  have hne : (initSt (mkParams table f isogLen)).block ≠ ((mkParams table f isogLen).eHalf : Int) - 1 - ((0 : Nat) : Int) := by
    simp only [initSt, Params.eHalf, mkParams]; omega
  have hw : whileLoop (mkParams table f isogLen) 0 (initSt (mkParams table f isogLen)) =
      (initSt (mkParams table f isogLen)).fail (.rowIndex ((f : Int) - isogLen) table.length) := by
    rw [whileLoop]
    simp only [hrow, hok]
    simp [initSt]
    simp [mkParams, Params.eHalf] at hne ⊢
    intro hh; omega
  have hfail : ((initSt (mkParams table f isogLen)).fail (.rowIndex ((f : Int) - isogLen) table.length)).err.isSome = true := by
    simp [St.fail]
  unfold evalEven evalP
  simp only [hvla, if_false]
  rw [he]
  simp only [forLoop]
  rw [hw, isoStep_err _ _ _ hfail, forLoop_err _ _ _ _ hfail, finalSteps_err _ _ hfail]
  simp [St.fail]

end SqiProofs.EvenChain

/-
The cheap fiat programs are their specifications, for ALL inputs (symbolic execution of the instruction lists
re-extracted from fp_p*.c, `SqiProofs.FiatExec`, then `omega` on div/mod-free linear goals):
fiat_*_add = `Ref.fp_add`, fiat_*_sub = `Ref.fp_sub`, fiat_*_opp = modular negation, fiat_*_selectznz = select,
fiat_*_set_one = R mod p — at the three levels.  (File produced by a script from one template per function; it is
ordinary checked-in source.)
-/
import SqiGen.Fiat1
import SqiGen.Fiat3
import SqiGen.Fiat5
import SqiModel.GfRef
import SqiProofs.FiatExec

set_option maxRecDepth 100000
set_option maxHeartbeats 400000

namespace SqiProofs.FiatCheap
open SqiModel.Fiat SqiProofs.FiatExec SqiModel.Gf

/-! case forms of the value-level specifications without `%` (operands below `R`, `p < R`) -/
theorem fp_add_c1 (P : RefParams) (a b : Nat) (hpR : P.p < P.R) (h : a + b < P.p) : Ref.fp_add P a b = a + b := by
  simp only [Ref.fp_add, h, if_true]; exact Nat.mod_eq_of_lt (by omega)
theorem fp_add_c2 (P : RefParams) (a b : Nat) (h : P.p ≤ a + b) (h2 : a + b - P.p < P.R) : Ref.fp_add P a b = a + b - P.p := by
  simp only [Ref.fp_add, Nat.not_lt.mpr h, if_false]; exact Nat.mod_eq_of_lt h2
theorem fp_add_c3 (P : RefParams) (a b : Nat) (ha : a < P.R) (hb : b < P.R) (h : P.p ≤ a + b) (h2 : P.R ≤ a + b - P.p) :
    Ref.fp_add P a b = a + b - P.p - P.R := by
  simp only [Ref.fp_add, Nat.not_lt.mpr h, if_false]
  have : a + b - P.p = (a + b - P.p - P.R) + P.R := by omega
  rw [this, Nat.add_mod_right, Nat.mod_eq_of_lt (by omega)]; omega
theorem fp_sub_c1 (P : RefParams) (a b : Nat) (h : b ≤ a) : Ref.fp_sub P a b = a - b := by
  simp [Ref.fp_sub, Nat.not_lt.mpr h]
theorem fp_sub_c2 (P : RefParams) (a b : Nat) (hb : b < P.R) (h : a < b) (h2 : a + P.p < b) : Ref.fp_sub P a b = a + P.R - b + P.p := by
  simp only [Ref.fp_sub, h, if_true]; exact Nat.mod_eq_of_lt (by omega)
theorem fp_sub_c3 (P : RefParams) (a b : Nat) (hb : b < P.R) (hpR : P.p < P.R) (h : a < b) (h2 : b ≤ a + P.p) :
    Ref.fp_sub P a b = a + P.p - b := by
  simp only [Ref.fp_sub, h, if_true]
  have : a + P.R - b + P.p = (a + P.p - b) + P.R := by omega
  rw [this, Nat.add_mod_right, Nat.mod_eq_of_lt (by omega)]


theorem fp_add_lt (P : RefParams) (a b : Nat) (h : a + b < P.p) : Ref.fp_add P a b = (a + b) % P.R := by
  simp [Ref.fp_add, h]
theorem fp_add_ge (P : RefParams) (a b : Nat) (h : P.p ≤ a + b) : Ref.fp_add P a b = (a + b - P.p) % P.R := by
  simp [Ref.fp_add, Nat.not_lt.mpr h]

/-! ### level 1 (4 limbs) -/

/-- `fiat_p5248_add` (the program re-extracted from fp_p5248.c) is `Ref.fp_add lvl1` on ALL 4-limb inputs -/
theorem add_correct_1 (a0 a1 a2 a3 b0 b1 b2 b3 : Nat) (ha0 : a0 < 2^64) (ha1 : a1 < 2^64) (ha2 : a2 < 2^64) (ha3 : a3 < 2^64)
    (hb0 : b0 < 2^64) (hb1 : b1 < 2^64) (hb2 : b2 < 2^64) (hb3 : b3 < 2^64) :
    evalBase SqiModel.Fiat.W (run SqiGen.Fiat1.add [[a0,a1,a2,a3],[b0,b1,b2,b3]]) =
      Ref.fp_add lvl1 (a0 + 2^64*a1 + 2^128*a2 + 2^192*a3) (b0 + 2^64*b1 + 2^128*b2 + 2^192*b3) := by
  apply run_of_post SqiGen.Fiat1.add _ (fun o => evalBase SqiModel.Fiat.W o = _)
  simp only [SqiGen.Fiat1.add, SqiGen.Fiat1.add_code0]
  fiat_exec 17
  simp only [evalBase, SqiModel.Fiat.W, Nat.reducePow]
  by_cases hS : (a0 + 2^64*a1 + 2^128*a2 + 2^192*a3) + (b0 + 2^64*b1 + 2^128*b2 + 2^192*b3) < lvl1.p
  · rw [fp_add_lt _ _ _ hS]
    simp only [lvl1, RefParams.R, Nat.reduceMul, Nat.reducePow, Nat.reduceSub] at hS ⊢
    omega
  · rw [fp_add_ge _ _ _ (by omega)]
    simp only [lvl1, RefParams.R, Nat.reduceMul, Nat.reducePow, Nat.reduceSub] at hS ⊢
    omega

theorem selectznz_correct_1 (c a0 a1 a2 a3 b0 b1 b2 b3 : Nat) (ha0 : a0 < 2 ^ 64) (ha1 : a1 < 2 ^ 64) (ha2 : a2 < 2 ^ 64) (ha3 : a3 < 2 ^ 64) (hb0 : b0 < 2 ^ 64) (hb1 : b1 < 2 ^ 64) (hb2 : b2 < 2 ^ 64) (hb3 : b3 < 2 ^ 64) :
    run SqiGen.Fiat1.selectznz [[c], [a0, a1, a2, a3], [b0, b1, b2, b3]] = if c % 2 ^ 64 = 0 then [a0, a1, a2, a3] else [b0, b1, b2, b3] := by
  apply run_of_post SqiGen.Fiat1.selectznz _ (fun o => o = _)
  simp only [SqiGen.Fiat1.selectznz, SqiGen.Fiat1.selectznz_code0]
  fiat_exec 8
  split <;> simp_all <;> omega

theorem set_one_correct_1 : runLimbs SqiGen.Fiat1.set_one 4 [] = Ref.fp_set_one lvl1 := by decide +kernel

/-! ### level 3 -/

theorem selectznz_correct_3 (c a0 a1 a2 a3 a4 a5 b0 b1 b2 b3 b4 b5 : Nat) (ha0 : a0 < 2 ^ 64) (ha1 : a1 < 2 ^ 64) (ha2 : a2 < 2 ^ 64) (ha3 : a3 < 2 ^ 64) (ha4 : a4 < 2 ^ 64) (ha5 : a5 < 2 ^ 64) (hb0 : b0 < 2 ^ 64) (hb1 : b1 < 2 ^ 64) (hb2 : b2 < 2 ^ 64) (hb3 : b3 < 2 ^ 64) (hb4 : b4 < 2 ^ 64) (hb5 : b5 < 2 ^ 64) :
    run SqiGen.Fiat3.selectznz [[c], [a0, a1, a2, a3, a4, a5], [b0, b1, b2, b3, b4, b5]] = if c % 2 ^ 64 = 0 then [a0, a1, a2, a3, a4, a5] else [b0, b1, b2, b3, b4, b5] := by
  apply run_of_post SqiGen.Fiat3.selectznz _ (fun o => o = _)
  simp only [SqiGen.Fiat3.selectznz, SqiGen.Fiat3.selectznz_code0]
  fiat_exec 12
  split <;> simp_all <;> omega

theorem set_one_correct_3 : runLimbs SqiGen.Fiat3.set_one 6 [] = Ref.fp_set_one lvl3 := by decide +kernel

/-! ### level 5 -/

theorem selectznz_correct_5 (c a0 a1 a2 a3 a4 a5 a6 a7 b0 b1 b2 b3 b4 b5 b6 b7 : Nat) (ha0 : a0 < 2 ^ 64) (ha1 : a1 < 2 ^ 64) (ha2 : a2 < 2 ^ 64) (ha3 : a3 < 2 ^ 64) (ha4 : a4 < 2 ^ 64) (ha5 : a5 < 2 ^ 64) (ha6 : a6 < 2 ^ 64) (ha7 : a7 < 2 ^ 64) (hb0 : b0 < 2 ^ 64) (hb1 : b1 < 2 ^ 64) (hb2 : b2 < 2 ^ 64) (hb3 : b3 < 2 ^ 64) (hb4 : b4 < 2 ^ 64) (hb5 : b5 < 2 ^ 64) (hb6 : b6 < 2 ^ 64) (hb7 : b7 < 2 ^ 64) :
    run SqiGen.Fiat5.selectznz [[c], [a0, a1, a2, a3, a4, a5, a6, a7], [b0, b1, b2, b3, b4, b5, b6, b7]] = if c % 2 ^ 64 = 0 then [a0, a1, a2, a3, a4, a5, a6, a7] else [b0, b1, b2, b3, b4, b5, b6, b7] := by
  apply run_of_post SqiGen.Fiat5.selectznz _ (fun o => o = _)
  simp only [SqiGen.Fiat5.selectznz, SqiGen.Fiat5.selectznz_code0]
  fiat_exec 16
  split <;> simp_all <;> omega

theorem set_one_correct_5 : runLimbs SqiGen.Fiat5.set_one 8 [] = Ref.fp_set_one lvl5 := by decide +kernel

end SqiProofs.FiatCheap

/-
Symbolic execution of `SqiModel.Fiat` programs with sharing: one lemma per instruction kind that introduces the
new register values as fresh variables together with *linear* facts about them (carry/borrow links and bounds),
so the context grows linearly, nothing is inlined, and the final goal is closed by `omega`.  Core-only.
-/
import SqiModel.Fiat

namespace SqiProofs.FiatExec
open SqiModel.Fiat

/-- running a code list from a state; irreducible so that `apply exec_*` matches the head instruction syntactically
    instead of unfolding the fold -/
@[irreducible] def execS (args : List (List Nat)) (s : St) (code : List Instr) : St := code.foldl (step args) s

theorem execS_cons (args : List (List Nat)) (s : St) (i : Instr) (code : List Instr) :
    execS args s (i :: code) = execS args (step args s i) code := by unfold execS; rfl
theorem execS_nil (args : List (List Nat)) (s : St) : execS args s [] = s := by unfold execS; rfl

variable (args : List (List Nat)) (P : St → Prop) (regs outs : List (Nat × Nat)) (rest : List Instr)

theorem W_pos : 0 < W := by unfold W; exact Nat.pow_pos (by decide)

theorem exec_mulx (lo hi : Nat) (a b : Opnd)
    (h : ∀ l hh, l + W * hh = eval args regs a * eval args regs b → l < W →
      P (execS args ⟨(hi, hh) :: (lo, l) :: regs, outs⟩ rest)) :
    P (execS args ⟨regs, outs⟩ (Instr.mulx lo hi a b :: rest)) := by
  have := h (eval args regs a * eval args regs b % W) (eval args regs a * eval args regs b / W)
    (Nat.mod_add_div _ _) (Nat.mod_lt _ W_pos)
  rw [execS_cons]; simpa [step] using this

theorem exec_adc (o c : Nat) (cin a b : Opnd)
    (h : ∀ l hh, l + W * hh = eval args regs cin + eval args regs a + eval args regs b → l < W →
      P (execS args ⟨(c, hh) :: (o, l) :: regs, outs⟩ rest)) :
    P (execS args ⟨regs, outs⟩ (Instr.adc o c cin a b :: rest)) := by
  have := h ((eval args regs cin + eval args regs a + eval args regs b) % W)
    ((eval args regs cin + eval args regs a + eval args regs b) / W) (Nat.mod_add_div _ _) (Nat.mod_lt _ W_pos)
  rw [execS_cons]; simpa [step] using this

/-- subtract with borrow, for in-range operands (`a < 2^64`, `cin + b ≤ 2^64`): `d + (cin + b) = a + 2^64·bw` -/
theorem exec_sbb (o c : Nat) (cin a b : Opnd) (hx : eval args regs a < W) (hy : eval args regs cin + eval args regs b ≤ W)
    (h : ∀ d bw, d < W → bw ≤ 1 → d + (eval args regs cin + eval args regs b) = eval args regs a + W * bw →
      P (execS args ⟨(c, bw) :: (o, d) :: regs, outs⟩ rest)) :
    P (execS args ⟨regs, outs⟩ (Instr.sbb o c cin a b :: rest)) := by
  have hW := W_pos
  have := h ((eval args regs a + 2 * W - (eval args regs cin + eval args regs b)) % W)
    (if eval args regs a < eval args regs cin + eval args regs b then 1 else 0) (Nat.mod_lt _ hW)
    (by split <;> omega)
    (by
      generalize eval args regs a = x at *
      generalize eval args regs cin + eval args regs b = y at *
      by_cases hlt : x < y
      · simp only [hlt, if_true]
        have : x + 2 * W - y = (x + W - y) + W := by omega
        rw [this, Nat.add_mod_right, Nat.mod_eq_of_lt (by omega)]; omega
      · simp only [hlt, if_false]
        have : x + 2 * W - y = (x - y) + W + W := by omega
        rw [this, Nat.add_mod_right, Nat.add_mod_right, Nat.mod_eq_of_lt (by omega)]; omega)
  rw [execS_cons]; simpa [step] using this

theorem exec_cmov (o : Nat) (c a b : Opnd)
    (h : ∀ v, ((eval args regs c = 0 ∧ v = eval args regs a) ∨ (1 ≤ eval args regs c ∧ v = eval args regs b)) →
      P (execS args ⟨(o, v) :: regs, outs⟩ rest)) :
    P (execS args ⟨regs, outs⟩ (Instr.cmov o c a b :: rest)) := by
  have := h (if eval args regs c = 0 then eval args regs a else eval args regs b)
    (by by_cases hc : eval args regs c = 0
        · left; exact ⟨hc, by simp [hc]⟩
        · right; exact ⟨by omega, by simp [hc]⟩)
  rw [execS_cons]; simpa [step] using this

/-- conditional move between two literals (fiat's borrow mask `0 / 0xff…ff`): split on the condition, so that the
    mask is a concrete number in each branch -/
theorem exec_cmov_lit (o : Nat) (c : Opnd) (x y : Nat)
    (h0 : eval args regs c = 0 → P (execS args ⟨(o, x % W) :: regs, outs⟩ rest))
    (h1 : 1 ≤ eval args regs c → P (execS args ⟨(o, y % W) :: regs, outs⟩ rest)) :
    P (execS args ⟨regs, outs⟩ (Instr.cmov o c (.lit x) (.lit y) :: rest)) := by
  rw [execS_cons]
  by_cases hc : eval args regs c = 0
  · simpa [step, eval, hc] using h0 hc
  · simpa [step, eval, hc] using h1 (by omega)

theorem ones_and (k : Nat) : 18446744073709551615 &&& k = k % 18446744073709551616 := by
  have h : (18446744073709551615 : Nat) = 2 ^ 64 - 1 := by decide
  rw [h, Nat.and_comm, Nat.and_two_pow_sub_one_eq_mod]
theorem and_ones (k : Nat) : k &&& 18446744073709551615 = k % 18446744073709551616 := by
  rw [Nat.and_comm, ones_and]

theorem exec_mov (o bits : Nat) (e : Opnd)
    (h : ∀ v, v = eval args regs e % 2 ^ bits → P (execS args ⟨(o, v) :: regs, outs⟩ rest)) :
    P (execS args ⟨regs, outs⟩ (Instr.mov o bits e :: rest)) := by
  rw [execS_cons]; simpa [step] using h _ rfl

theorem exec_out (i : Nat) (e : Opnd)
    (h : ∀ v, v = eval args regs e → P (execS args ⟨regs, (i, v) :: outs⟩ rest)) :
    P (execS args ⟨regs, outs⟩ (Instr.out i e :: rest)) := by
  rw [execS_cons]; simpa [step] using h _ rfl

theorem exec_nil (h : P ⟨regs, outs⟩) : P (execS args ⟨regs, outs⟩ []) := by rw [execS_nil]; exact h

/-- postcondition on the outputs, as a first-order head symbol so that `apply exec_*` unifies -/
def Post (f : List (Nat × Nat) → Prop) (s : St) : Prop := f s.outs

theorem run_of_post (p : Prog) (args : List (List Nat)) (Q : List Nat → Prop)
    (h : Post (fun outs => Q ((List.range p.nout).map (fun i => lookup i outs))) (execS args ⟨[], []⟩ p.code)) :
    Q (run p args) := by unfold execS at h; exact h

/-- evaluate operands against a register file whose values are variables -/
macro "fiat_eval" " at " h:ident : tactic =>
  `(tactic| simp only [eval, lookup, argv, W, List.getD_cons_zero, List.getD_cons_succ, List.getD_nil, Nat.reduceEqDiff, ↓reduceIte,
      Nat.reduceSub, Nat.reduceMod, Nat.reduceAdd, Nat.reducePow, Nat.reduceMul, Nat.zero_add, Nat.add_zero, Nat.zero_and, Nat.and_zero,
      ones_and, and_ones] at $h:ident)
macro "fiat_evalg" : tactic =>
  `(tactic| simp only [eval, lookup, argv, W, List.getD_cons_zero, List.getD_cons_succ, List.getD_nil, Nat.reduceEqDiff, ↓reduceIte,
      Nat.reduceSub, Nat.reduceMod, Nat.reduceAdd, Nat.reducePow, Nat.reduceMul, Nat.zero_add, Nat.add_zero, Nat.zero_and, Nat.and_zero,
      ones_and, and_ones])

/-- execute one instruction symbolically -/
macro "fiat_step" : tactic => `(tactic| first
  | (apply exec_adc; intro l hh h hb; fiat_eval at h; fiat_eval at hb)
  | (apply exec_mulx; intro l hh h hb; fiat_eval at h; fiat_eval at hb)
  | (refine exec_sbb _ _ _ _ _ _ _ _ _ _ (by (fiat_evalg; omega)) (by (fiat_evalg; omega)) ?_; intro d bw hd hbw h; fiat_eval at h; fiat_eval at hd)
  | (refine exec_cmov_lit _ _ _ _ _ _ _ _ _ ?_ ?_ <;> (intro hc; fiat_eval at hc; try simp only [Nat.reduceMod]))
  | (apply exec_cmov; intro v h; fiat_eval at h)
  | (apply exec_mov; intro v h; fiat_eval at h)
  | (apply exec_out; intro v h; fiat_eval at h))

/-- execute the whole program (`n` = number of instructions); leaves the postcondition on the final output list -/
macro "fiat_exec " n:num : tactic => `(tactic| (
  iterate $n (all_goals fiat_step)
  all_goals apply exec_nil
  all_goals simp only [Post, List.range, List.range.loop, List.map, lookup, Nat.reduceEqDiff, ↓reduceIte]))

/-! named single-step tactics (used by generated proof scripts that need to refer to registers) -/
macro "fx_mov " x:ident e:ident : tactic => `(tactic| (apply exec_mov; intro $x $e; fiat_eval at $e))
macro "fx_mulx " l:ident hh:ident e:ident b:ident : tactic =>
  `(tactic| (apply exec_mulx; intro $l $hh $e $b; fiat_eval at $e; fiat_eval at $b))
macro "fx_adc " l:ident hh:ident e:ident b:ident : tactic =>
  `(tactic| (apply exec_adc; intro $l $hh $e $b; fiat_eval at $e; fiat_eval at $b))
macro "fx_sbb " d:ident bw:ident hd:ident hbw:ident e:ident : tactic =>
  `(tactic| (refine exec_sbb _ _ _ _ _ _ _ _ _ _ (by (fiat_evalg; omega)) (by (fiat_evalg; omega)) ?_; intro $d $bw $hd $hbw $e; fiat_eval at $e; fiat_eval at $hd))
macro "fx_cmov " v:ident e:ident : tactic => `(tactic| (apply exec_cmov; intro $v $e; fiat_eval at $e))
macro "fx_out " v:ident e:ident : tactic => `(tactic| (apply exec_out; intro $v $e; fiat_eval at $e))
macro "fx_done" : tactic => `(tactic| (apply exec_nil; simp only [Post, List.range, List.range.loop, List.map, lookup, Nat.reduceEqDiff, ↓reduceIte]))

end SqiProofs.FiatExec

/-
Helper lemmas towards `generated fp2_batched_inv = hand model` (whole function): invariant rule for `loopAcc`, and the closed form of
an index loop `t.set i (F t i)` against a target list, entry-wise (`getElem?`).
-/
import SqiGen.Fp2Loops
import SqiProofs.FpRefGen

namespace SqiProofs.Fp2BatchGen
open SqiModel.Gf SqiModel.FpRefSem SqiProofs.FpRefGen

/-- invariant rule for `loopAcc lo hi` -/
theorem loopAcc_inv {σ : Type} (Inv : Nat → σ → Prop) (lo : Nat) (f : σ → Nat → σ) (s : σ) (h0 : Inv lo s) :
    ∀ hi, lo ≤ hi → (∀ k s, lo ≤ k → k < hi → Inv k s → Inv (k + 1) (f s k)) → Inv hi (loopAcc lo hi f s) := by
  intro hi hle
  induction hi, hle using Nat.le_induction with
  | base => intro _; rw [loopAcc_zero]; exact h0
  | succ hi hle ih =>
    intro hs
    rw [loopAcc_succ lo hi hle]
    exact hs hi _ hle (Nat.lt_succ_self _) (ih (fun k s h1 h2 h3 => hs k s h1 (Nat.lt_succ_of_lt h2) h3))

/-- an index loop `t := t.set i (F t i)`, `lo ≤ i < n`, computes the entries `lo..n-1` of a target list `T` as soon as each step does
    so on every state that already agrees with `T` on `lo..i-1` and with the initial `t` elsewhere -/
theorem setLoop_eq {β : Type} (F : List β → Nat → β) (T t : List β) (lo n : Nat) (hlo : lo ≤ n) (hn : n ≤ t.length)
    (hF : ∀ s i, lo ≤ i → i < n → s.length = t.length → (∀ j, lo ≤ j → j < i → s[j]? = T[j]?) →
      (∀ j, (j < lo ∨ i ≤ j) → s[j]? = t[j]?) → T[i]? = some (F s i)) :
    (loopAcc lo n (fun t i => t.set i (F t i)) t).length = t.length ∧
    (∀ j, lo ≤ j → j < n → (loopAcc lo n (fun t i => t.set i (F t i)) t)[j]? = T[j]?) ∧
    (∀ j, (j < lo ∨ n ≤ j) → (loopAcc lo n (fun t i => t.set i (F t i)) t)[j]? = t[j]?) := by
  refine loopAcc_inv (fun k s => k ≤ n → (s.length = t.length ∧ (∀ j, lo ≤ j → j < k → s[j]? = T[j]?) ∧
      (∀ j, (j < lo ∨ k ≤ j) → s[j]? = t[j]?))) lo _ t ?_ n hlo ?_ (Nat.le_refl _)
  · intro _
    exact ⟨rfl, fun j h1 h2 => absurd h2 (by omega), fun _ _ => rfl⟩
  · intro k s hk1 hk2 ih _
    obtain ⟨hl, ha, hb⟩ := ih (by omega)
    have hT := hF s k hk1 hk2 hl ha hb
    refine ⟨by simp [hl], ?_, ?_⟩
    · intro j h1 h2
      by_cases hjk : j = k
      · subst hjk; rw [hT]; simp [List.getElem?_set]; omega
      · rw [List.getElem?_set_ne (by omega)]; exact ha j h1 (by omega)
    · intro j hj
      rw [List.getElem?_set_ne (by omega)]; exact hb j (by omega)

theorem scanFrom_length {β γ : Type} (f : β → γ → β) : ∀ (xs : List γ) (a : β), (scanFrom f a xs).length = xs.length := by
  intro xs; induction xs with
  | nil => intro a; rfl
  | cons x xs ih => intro a; simp [scanFrom, ih]

theorem scan_get {β γ : Type} (f : β → γ → β) : ∀ (xs : List γ) (a : β) (i : Nat) (h : i < xs.length),
    ∃ u, (a :: scanFrom f a xs)[i]? = some u ∧ (a :: scanFrom f a xs)[i + 1]? = some (f u xs[i]) := by
  intro xs; induction xs with
  | nil => intro a i h; simp at h
  | cons x xs ih =>
    intro a i h
    cases i with
    | zero => exact ⟨a, by simp, by simp [scanFrom]⟩
    | succ i =>
      obtain ⟨u, h1, h2⟩ := ih (f a x) i (by simpa using h)
      refine ⟨u, ?_, ?_⟩
      · simpa [scanFrom] using h1
      · simpa [scanFrom] using h2

/-- a recurrence loop `t[i] = f t[i-1] (g i)`, `1 ≤ i < n`, started with `t[0] = a`, is `a :: scanFrom f a ys` when `g (i+1) = ys[i]` -/
theorem scanLoop_eq {β : Type} (f : β → β → β) (junk a : β) (ys : List β) (g : Nat → β) (n : Nat) (hn : n = ys.length + 1)
    (hg : ∀ i (h : i < ys.length), g (i + 1) = ys[i]) (t : List β) (ht : t.length = n) (h0 : t[0]? = some a) :
    loopAcc 1 n (fun t i => t.set i (f (t.getD (i - 1) junk) (g i))) t = a :: scanFrom f a ys := by
  have key := setLoop_eq (fun t i => f (t.getD (i - 1) junk) (g i)) (a :: scanFrom f a ys) t 1 n (by omega) (by omega) ?_
  · obtain ⟨k1, k2, k3⟩ := key
    apply List.ext_getElem?
    intro j
    by_cases hj0 : j = 0
    · subst hj0; rw [k3 0 (by omega), h0]; rfl
    by_cases hjn : j < n
    · exact k2 j (by omega) hjn
    · rw [k3 j (by omega)]
      rw [List.getElem?_eq_none (by omega), List.getElem?_eq_none (by simp [scanFrom_length]; omega)]
  · intro s i hi1 hi2 hl ha hb
    obtain ⟨u, h1, h2⟩ := scan_get f ys a (i - 1) (by omega)
    have e : i - 1 + 1 = i := by omega
    rw [e] at h2
    have hs : s[i - 1]? = some u := by
      by_cases h : i = 1
      · subst h; rw [hb 0 (by omega), h0]; simpa using h1
      · rw [ha (i - 1) (by omega) (by omega)]; exact h1
    have hgi : g i = ys[i - 1]'(by omega) := by
      have := hg (i - 1) (by omega); rwa [e] at this
    rw [h2, hgi]
    simp [List.getD, hs]

/-- a loop rewriting entry `i` from its own old value, `lo ≤ i < n = length` -/
theorem ptLoop_eq {β : Type} (G : β → Nat → β) (junk : β) (T t : List β) (lo n : Nat) (hlo : lo ≤ n) (hn : n = t.length)
    (hT : T.length = n) (hlow : ∀ j, j < lo → T[j]? = t[j]?)
    (hG : ∀ i (h : i < t.length), lo ≤ i → T[i]? = some (G t[i] i)) :
    loopAcc lo n (fun s i => s.set i (G (s.getD i junk) i)) t = T := by
  have key := setLoop_eq (fun s i => G (s.getD i junk) i) T t lo n hlo (by omega) ?_
  · obtain ⟨k1, k2, k3⟩ := key
    apply List.ext_getElem?
    intro j
    by_cases hj0 : j < lo
    · rw [k3 j (Or.inl hj0), hlow j hj0]
    by_cases hjn : j < n
    · exact k2 j (by omega) hjn
    · rw [k3 j (by omega)]
      rw [List.getElem?_eq_none (by omega), List.getElem?_eq_none (by omega)]
  · intro s i hi1 hi2 hl ha hb
    have hs : s[i]? = some (t[i]'(by omega)) := by rw [hb i (Or.inr (Nat.le_refl _))]; simp
    rw [hG i (by omega) hi1]
    simp [List.getD, hs]

/-- the first loop of `fp2_batched_inv` (pair state `(z, x)`): `z = map isz xs`, `x = zipWith sel xs z` -/
theorem pairLoop_eq {β : Type} (isz : β → Nat) (sel : β → Nat → β) (junk : β) (xs : List β) (z0 : List Nat) (hz : z0.length = xs.length) :
    loopAcc 0 xs.length (fun (s : List Nat × List β) i =>
        ((s.1.set i (isz (s.2.getD i junk))), s.2.set i (sel (s.2.getD i junk) ((s.1.set i (isz (s.2.getD i junk))).getD i 0)))) (z0, xs)
      = (xs.map isz, List.zipWith sel xs (xs.map isz)) := by
  generalize hF : (fun (s : List Nat × List β) (i : Nat) =>
        ((s.1.set i (isz (s.2.getD i junk))), s.2.set i (sel (s.2.getD i junk) ((s.1.set i (isz (s.2.getD i junk))).getD i 0)))) = F
  have key := loopAcc_inv (fun k (s : List Nat × List β) => k ≤ xs.length → (s.1.length = xs.length ∧ s.2.length = xs.length ∧
      (∀ j, j < k → s.1[j]? = (xs.map isz)[j]? ∧ s.2[j]? = (List.zipWith sel xs (xs.map isz))[j]?) ∧ (∀ j, k ≤ j → s.2[j]? = xs[j]?)))
    0 F (z0, xs) ?_ xs.length (Nat.zero_le _) ?_ (Nat.le_refl _)
  · obtain ⟨k1, k2, k3, k4⟩ := key
    apply Prod.ext
    · apply List.ext_getElem?; intro j
      by_cases hj : j < xs.length
      · exact (k3 j hj).1
      · rw [List.getElem?_eq_none (by omega), List.getElem?_eq_none (by simp; omega)]
    · apply List.ext_getElem?; intro j
      by_cases hj : j < xs.length
      · exact (k3 j hj).2
      · rw [List.getElem?_eq_none (by omega), List.getElem?_eq_none (by simp; omega)]
  · intro _; exact ⟨hz, rfl, fun j h => absurd h (by omega), fun _ _ => rfl⟩
  · intro k s _ hk ih _
    obtain ⟨h1, h2, h3, h4⟩ := ih (by omega)
    have hs : s.2[k]? = some xs[k] := by rw [h4 k (Nat.le_refl _)]; simp [hk]
    have e1 : s.2.getD k junk = xs[k] := by simp [List.getD, hs]
    have e2 : (s.1.set k (isz xs[k])).getD k 0 = isz xs[k] := by simp [List.getD, h1, hk]
    subst hF; dsimp only
    simp only [e1, e2]
    refine ⟨by simp [h1], by simp [h2], ?_, ?_⟩
    · intro j hj
      by_cases hjk : j = k
      · subst hjk; simp [List.getElem?_set, h1, h2, hk, List.getElem?_zipWith]
      · rw [List.getElem?_set_ne (by omega), List.getElem?_set_ne (by omega)]; exact h3 j (by omega)
    · intro j hj
      rw [List.getElem?_set_ne (by omega)]; exact h4 j (by omega)

theorem getLastD_eq_getD {β : Type} (l : List β) (d e : β) (h : l ≠ []) : l.getLast?.getD d = l.getD (l.length - 1) e := by
  rw [List.getLast?_eq_getElem?]
  have : l.length - 1 < l.length := by cases l with | nil => exact absurd rfl h | cons a l => simp
  simp [List.getD, this]

/-- the last loop of the product chain: `x[0] = t2[n-1]`, `x[i] = t1[i-1]·t2[n-i-1]` is `getLast t2 :: zipWith f t1.dropLast t2.reverse.tail` -/
theorem zipLoop_eq {β : Type} (f : β → β → β) (junk d : β) (T1 T2 X : List β) (n : Nat) (hn1 : 1 ≤ n) (h1 : T1.length = n)
    (h2 : T2.length = n) (hX : X.length = n) :
    loopAcc 1 n (fun s i => s.set i ((fun (_ : β) i => f (T1.getD (i - 1) junk) (T2.getD (n - i - 1) junk)) (s.getD i junk) i))
        (X.set 0 (T2.getD (n - 1) junk))
      = (T2.getLast?.getD d) :: List.zipWith f T1.dropLast T2.reverse.tail := by
  have hne : T2 ≠ [] := by intro h; subst h; simp at h2; omega
  apply ptLoop_eq (fun (_ : β) i => f (T1.getD (i - 1) junk) (T2.getD (n - i - 1) junk)) junk _ _ 1 n hn1 (by simp [hX])
  · simp [h1, h2]; omega
  · intro j hj
    have : j = 0 := by omega
    subst this
    rw [getLastD_eq_getD T2 d junk hne, h2, List.getElem?_set_self (by omega)]; rfl
  · intro i hi hi1
    have hin : i < n := by simpa [hX] using hi
    obtain ⟨k, rfl⟩ : ∃ k, i = k + 1 := ⟨i - 1, by omega⟩
    have a1 : T1.dropLast[k]? = some (T1[k]'(by omega)) := by
      rw [List.getElem?_dropLast]; simp [h1]; omega
    have a2 : T2.reverse.tail[k]? = some (T2[n - (k + 1) - 1]'(by omega)) := by
      rw [List.getElem?_tail, List.getElem?_reverse (by omega)]
      have e : T2.length - 1 - (k + 1) = n - (k + 1) - 1 := by omega
      rw [List.getElem?_eq_getElem (by omega)]; simp only [e]
    have b1 : T1.getD (k + 1 - 1) junk = T1[k]'(by omega) := by simp [List.getD]; rw [List.getElem?_eq_getElem (by omega)]; rfl
    have b2 : T2.getD (n - (k + 1) - 1) junk = T2[n - (k + 1) - 1]'(by omega) := by
      simp [List.getD]; rw [List.getElem?_eq_getElem (by omega)]; rfl
    simp only [List.getElem?_cons_succ, List.getElem?_zipWith, a1, a2, b1, b2]

variable {α : Type} (O : FpOps α)
open SqiGen.Fp2Loops SqiGen

theorem core_eq (junk x0 : Fp2 α) (rest : List (Fp2 α)) (n : Nat) (hn : n = rest.length + 1) (t1u t2u : List (Fp2 α))
    (h1 : t1u.length = n) (h2 : t2u.length = n) (z : List Nat) (inv one zero : Fp2 α) :
    let X := x0 :: rest
    let t1_1 := t1u.set 0 (Fp2Ref.fp2_copy O (t1u.getD 0 junk) (X.getD 0 junk))
    let t1_3 := loopAcc 1 n (fp2_batched_inv_loop_2 O junk n X t2u z inv one zero) t1_1
    let inverse_2 := Fp2Ref.fp2_inv O (Fp2Ref.fp2_copy O inv (t1_3.getD (n - 1) junk))
    let t2_1 := t2u.set 0 (Fp2Ref.fp2_copy O (t2u.getD 0 junk) inverse_2)
    let t2_3 := loopAcc 1 n (fp2_batched_inv_loop_3 O junk n X t1_3 z inverse_2 one zero) t2_1
    let x_3 := X.set 0 (Fp2Ref.fp2_copy O (X.getD 0 junk) (t2_3.getD (n - 1) junk))
    loopAcc 1 n (fp2_batched_inv_loop_4 O junk n t1_3 t2_3 z inverse_2 one zero) x_3 = fp2_batched_inv_core O X := by
  intro X t1_1 t1_3
  have E2 : t1_3 = x0 :: scanFrom (fp2_mul O) x0 rest :=
    scanLoop_eq (fp2_mul O) junk x0 rest (fun i => X.getD i junk) n hn (fun i h => by simp [X, List.getD, h])
      t1_1 (by simp [t1_1, h1]) (by show (t1u.set 0 x0)[0]? = some x0; exact List.getElem?_set_self (by omega))
  rw [E2]
  intro inverse_2 t2_1 t2_3
  have E3 : t2_3 = inverse_2 :: scanFrom (fp2_mul O) inverse_2 rest.reverse :=
    scanLoop_eq (fp2_mul O) junk inverse_2 rest.reverse (fun i => X.getD (n - i) junk) n (by simp [hn])
      (fun i h => by
        have hi : i < rest.length := by simpa using h
        have e : n - (i + 1) = (rest.length - 1 - i) + 1 := by omega
        simp only [X, e, List.getD_cons_succ]
        simp [List.getD, hi]; rw [List.getElem?_eq_getElem (by omega)]; simp)
      t2_1 (by simp [t2_1, h2]) (by show (t2u.set 0 inverse_2)[0]? = some inverse_2; exact List.getElem?_set_self (by omega))
  rw [E3]
  intro x_3
  have hT1 : (x0 :: scanFrom (fp2_mul O) x0 rest).length = n := by simp [scanFrom_length, hn]
  have hinv : inverse_2 = fp2_inv O ((x0 :: scanFrom (fp2_mul O) x0 rest).getLast?.getD x0) := by
    rw [getLastD_eq_getD _ x0 junk (by simp), hT1]; rfl
  have hcore : fp2_batched_inv_core O X = ((inverse_2 :: scanFrom (fp2_mul O) inverse_2 rest.reverse).getLast?.getD inverse_2) ::
      List.zipWith (fp2_mul O) (x0 :: scanFrom (fp2_mul O) x0 rest).dropLast
        (inverse_2 :: scanFrom (fp2_mul O) inverse_2 rest.reverse).reverse.tail := by
    rw [hinv]; rfl
  rw [hcore]
  exact zipLoop_eq (fp2_mul O) junk inverse_2 _ _ X n (by omega) hT1 (by simp [scanFrom_length, hn]) (by simp [X, hn])

theorem loopAcc_ge {σ : Type} (lo hi : Nat) (h : hi ≤ lo) (f : σ → Nat → σ) (s : σ) : loopAcc lo hi f s = s := by
  unfold loopAcc; simp [Nat.sub_eq_zero_of_le h]

/-- **generated `fp2_batched_inv` = hand model**, every operation record, every batch (any length), scratch arrays of the batch length
    with arbitrary content -/
theorem fp2_batched_inv_eq (junk : Fp2 α) (xs : List (Fp2 α)) (t1u t2u : List (Fp2 α)) (zu : List Nat) (invu oneu zerou : Fp2 α)
    (h1 : t1u.length = xs.length) (h2 : t2u.length = xs.length) (hz : zu.length = xs.length) :
    SqiGen.Fp2Loops.fp2_batched_inv O junk xs xs.length t1u t2u zu invu oneu zerou = SqiModel.Gf.fp2_batched_inv O xs := by
  have L1 : loopAcc 0 xs.length (fp2_batched_inv_loop_1 O junk xs.length t1u t2u invu (fp2_set_one O) (fp2_set_zero O)) (zu, xs)
      = (xs.map (fp2_is_zero O), List.zipWith (fun x zi => fp2_select O x (fp2_set_one O) zi) xs (xs.map (fp2_is_zero O))) :=
    pairLoop_eq (fp2_is_zero O) (fun x zi => fp2_select O x (fp2_set_one O) zi) junk xs zu hz
  have e1 : Fp2Ref.fp2_set_one O oneu = fp2_set_one O := rfl
  have e0 : Fp2Ref.fp2_set_zero O zerou = fp2_set_zero O := rfl
  unfold SqiGen.Fp2Loops.fp2_batched_inv SqiModel.Gf.fp2_batched_inv
  simp only [e1, e0]
  rw [L1]
  dsimp only
  generalize hZ : xs.map (fp2_is_zero O) = Z
  generalize hX : List.zipWith (fun x zi => fp2_select O x (fp2_set_one O) zi) xs Z = X
  have hZl : Z.length = xs.length := by rw [← hZ]; simp
  have hXl : X.length = xs.length := by rw [← hX]; simp [hZl]
  generalize xs.length = n at *
  have L5 : ∀ Y : List (Fp2 α), Y.length = n → ∀ a b c, loopAcc 0 n (fp2_batched_inv_loop_5 O junk n a b Z c (fp2_set_one O) (fp2_set_zero O)) Y =
      List.zipWith (fun y zi => fp2_select O y (fp2_set_zero O) zi) Y Z := by
    intro Y hY a b c
    apply ptLoop_eq (fun y i => fp2_select O y (fp2_set_zero O) (Z.getD i 0)) junk _ Y 0 n (Nat.zero_le _) hY.symm
    · simp [hY, hZl]
    · intro j hj; omega
    · intro i hi _
      have : Z[i]? = some (Z[i]'(by omega)) := List.getElem?_eq_getElem (by omega)
      simp [List.getElem?_zipWith, List.getD, this, hi]
  cases X with
  | nil =>
    have : n = 0 := by simpa using hXl.symm
    subst this
    simp [loopAcc_zero, loopAcc_ge, fp2_batched_inv_core]
  | cons x0 rest =>
    have hn : n = rest.length + 1 := by simpa using hXl.symm
    have C := core_eq O junk x0 rest n hn t1u t2u h1 h2 Z invu (fp2_set_one O) (fp2_set_zero O)
    dsimp only at C
    rw [C, L5 _ (by simp [fp2_batched_inv_core, scanFrom_length, hn])]

end SqiProofs.Fp2BatchGen

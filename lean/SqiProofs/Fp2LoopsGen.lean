/-
`generated = hand model` for the loop function `fp2_pow_vartime` of src/gf/ref/gfx/fp2.c: `SqiGen.Fp2Loops.fp2_pow_vartime`
(re-extracted from the C text on every run by tools/translate/fp2loops.py: two nested `loopAcc` loops, bit extraction
`(exp[j] >> i) & 1`, conditional `fp2_mul`, `fp2_sqr`) equals, for EVERY operation record, EVERY exponent array and `size = exp.length`,
the model `SqiModel.Gf.fp2_pow_vartime` that `fp2_pow_vartime_spec` is stated on.
-/
import SqiGen.Fp2Loops
import SqiProofs.FpRefGen

namespace SqiProofs.Fp2LoopsGen
open SqiModel.Gf SqiModel.FpRefSem SqiProofs.FpRefGen
variable {α : Type} (O : FpOps α)

/-- one iteration of the inner loop of the model, on bit `b` -/
def stepBit (b : Nat) (s : Fp2 α × Fp2 α) : Fp2 α × Fp2 α :=
  (if b = 1 then fp2_mul O s.1 s.2 else s.1, fp2_sqr O s.2)

theorem powWord_succ_back (k : Nat) : ∀ (w : Nat) (s : Fp2 α × Fp2 α),
    powWord O w (k + 1) s = stepBit O (w / 2 ^ k % 2) (powWord O w k s) := by
  induction k with
  | zero => intro w s; obtain ⟨out, acc⟩ := s; simp [powWord, stepBit]
  | succ k ih =>
    intro w s; obtain ⟨out, acc⟩ := s
    rw [powWord, ih, powWord]
    have e : w / 2 / 2 ^ k = w / 2 ^ (k + 1) := by
      rw [Nat.div_div_eq_div_mul, Nat.pow_succ, Nat.mul_comm]
    rw [e]

/-- the generated inner-loop body is the model's bit step on bit `i` of `exp[j]` -/
theorem loop_2_eq (x : Fp2 α) (exp : List Nat) (size j : Nat) (s : Fp2 α × Fp2 α) (i : Nat) :
    SqiGen.Fp2Loops.fp2_pow_vartime_loop_2 O x exp size j s i = stepBit O (exp.getD j 0 / 2 ^ i % 2) s := by
  have e : (exp.getD j 0 >>> i) &&& 1 = exp.getD j 0 / 2 ^ i % 2 := by
    rw [Nat.shiftRight_eq_div_pow, Nat.and_one_is_mod]
  show ((if (exp.getD j 0 >>> i) &&& 1 = 1 then fp2_mul O s.1 s.2 else s.1), fp2_sqr O s.2) = _
  rw [e]; rfl

/-- the generated inner loop (all 64 bits of `exp[j]`) is `powWord` -/
theorem inner_eq (x : Fp2 α) (exp : List Nat) (size j : Nat) (s : Fp2 α × Fp2 α) (k : Nat) :
    loopAcc 0 k (SqiGen.Fp2Loops.fp2_pow_vartime_loop_2 O x exp size j) s = powWord O (exp.getD j 0) k s := by
  induction k with
  | zero => rw [loopAcc_zero]; obtain ⟨out, acc⟩ := s; rfl
  | succ k ih => rw [loopAcc_succ 0 k (Nat.zero_le _), ih, loop_2_eq, powWord_succ_back]

theorem loop_1_eq (x : Fp2 α) (exp : List Nat) (size : Nat) (s : Fp2 α × Fp2 α) (j : Nat) :
    SqiGen.Fp2Loops.fp2_pow_vartime_loop_1 O x exp size s j = powWord O (exp.getD j 0) 64 s := by
  unfold SqiGen.Fp2Loops.fp2_pow_vartime_loop_1
  simp only [Prod.mk.eta, inner_eq]

/-- an index loop over `l.getD j 0`, `j < l.length`, is the fold over `l` -/
theorem foldl_range'_getD {σ : Type} (h : σ → Nat → σ) : ∀ (l pre : List Nat) (s : σ),
    (List.range' pre.length l.length).foldl (fun s j => h s ((pre ++ l).getD j 0)) s = l.foldl h s := by
  intro l
  induction l with
  | nil => intro pre s; simp
  | cons a l ih =>
    intro pre s
    have e1 : (pre ++ a :: l).getD pre.length 0 = a := by simp [List.getD]
    have e2 : pre ++ a :: l = (pre ++ [a]) ++ l := by simp
    have e3 : pre.length + 1 = (pre ++ [a]).length := by simp
    simp only [List.length_cons, List.range'_succ, List.foldl_cons, e1]
    rw [e2, e3]; exact ih (pre ++ [a]) (h s a)

theorem loopAcc_getD {σ : Type} (h : σ → Nat → σ) (l : List Nat) (s : σ) :
    loopAcc 0 l.length (fun s j => h s (l.getD j 0)) s = l.foldl h s := by
  unfold loopAcc
  have := foldl_range'_getD h l [] s
  simpa using this

/-- **generated `fp2_pow_vartime` = hand model**, every operation record, every exponent array, `size = exp.length`;
    the result does not depend on the previous content of `out` nor on the uninitialised local `acc`. -/
theorem fp2_pow_vartime_eq (out x acc0 : Fp2 α) (exp : List Nat) :
    SqiGen.Fp2Loops.fp2_pow_vartime O out x exp exp.length acc0 = fp2_pow_vartime O x exp := by
  show (loopAcc 0 exp.length (SqiGen.Fp2Loops.fp2_pow_vartime_loop_1 O x exp exp.length) (fp2_set_one O, x)).1 = _
  have e : SqiGen.Fp2Loops.fp2_pow_vartime_loop_1 O x exp exp.length = fun s j => (fun s w => powWord O w 64 s) s (exp.getD j 0) := by
    funext s j; exact loop_1_eq O x exp exp.length s j
  rw [e, loopAcc_getD (fun s w => powWord O w 64 s) exp]; rfl

/-! ## `fp2_batched_inv`: the five loop bodies re-extracted from the C text (arrays as lists, `List.set` / `List.getD`) are the steps
of the hand model `SqiModel.Gf.fp2_batched_inv` (`scanFrom (fp2_mul O)`, `zipWith (fp2_mul O)`, the two `zipWith … fp2_select`).
PARTIAL: step level only; the loop structure / bounds / straight-line glue are text-checked by the translator, not proved equal. -/

open SqiGen.Fp2Loops in
/-- loop 1 (`z[i] = fp2_is_zero(&x[i]); fp2_select(&x[i], &x[i], &one, z[i])`): entry `i` becomes the model's
    `fp2_select O x (fp2_set_one O) (fp2_is_zero O x)` when `one = fp2_set_one O`, `i < z.length` -/
theorem batched_loop_1_eq (junk : Fp2 α) (len : Nat) (t1 t2 : List (Fp2 α)) (inverse one zero : Fp2 α)
    (z : List Nat) (x : List (Fp2 α)) (i : Nat) (hi : i < z.length) :
    fp2_batched_inv_loop_1 O junk len t1 t2 inverse one zero (z, x) i =
      (z.set i (fp2_is_zero O (x.getD i junk)), x.set i (fp2_select O (x.getD i junk) one (fp2_is_zero O (x.getD i junk)))) := by
  have e : (z.set i (fp2_is_zero O (x.getD i junk))).getD i 0 = fp2_is_zero O (x.getD i junk) := by
    simp [List.getD, hi]
  show (z.set i (fp2_is_zero O (x.getD i junk)),
        x.set i (fp2_select O (x.getD i junk) one ((z.set i (fp2_is_zero O (x.getD i junk))).getD i 0))) = _
  rw [e]

open SqiGen.Fp2Loops in
/-- loop 2 (`t1[i] = t1[i-1]·x[i]`): the `scanFrom (fp2_mul O)` step of the prefix products -/
theorem batched_loop_2_eq (junk : Fp2 α) (len : Nat) (x t2 : List (Fp2 α)) (z : List Nat) (inverse one zero : Fp2 α)
    (t1 : List (Fp2 α)) (i : Nat) :
    fp2_batched_inv_loop_2 O junk len x t2 z inverse one zero t1 i = t1.set i (fp2_mul O (t1.getD (i - 1) junk) (x.getD i junk)) := rfl

open SqiGen.Fp2Loops in
/-- loop 3 (`t2[i] = t2[i-1]·x[len-i]`): the `scanFrom (fp2_mul O)` step over the reversed batch -/
theorem batched_loop_3_eq (junk : Fp2 α) (len : Nat) (x t1 : List (Fp2 α)) (z : List Nat) (inverse one zero : Fp2 α)
    (t2 : List (Fp2 α)) (i : Nat) :
    fp2_batched_inv_loop_3 O junk len x t1 z inverse one zero t2 i = t2.set i (fp2_mul O (t2.getD (i - 1) junk) (x.getD (len - i) junk)) := rfl

open SqiGen.Fp2Loops in
/-- loop 4 (`x[i] = t1[i-1]·t2[len-i-1]`): the `zipWith (fp2_mul O) t1.dropLast t2.reverse.tail` step -/
theorem batched_loop_4_eq (junk : Fp2 α) (len : Nat) (t1 t2 : List (Fp2 α)) (z : List Nat) (inverse one zero : Fp2 α)
    (x : List (Fp2 α)) (i : Nat) :
    fp2_batched_inv_loop_4 O junk len t1 t2 z inverse one zero x i =
      x.set i (fp2_mul O (t1.getD (i - 1) junk) (t2.getD (len - i - 1) junk)) := rfl

open SqiGen.Fp2Loops in
/-- loop 5 (`fp2_select(&x[i], &x[i], &zero, z[i])`): the model's final `zipWith (fun y zi => fp2_select O y (fp2_set_zero O) zi)` step -/
theorem batched_loop_5_eq (junk : Fp2 α) (len : Nat) (t1 t2 : List (Fp2 α)) (z : List Nat) (inverse one zero : Fp2 α)
    (x : List (Fp2 α)) (i : Nat) :
    fp2_batched_inv_loop_5 O junk len t1 t2 z inverse one zero x i = x.set i (fp2_select O (x.getD i junk) zero (z.getD i 0)) := rfl

end SqiProofs.Fp2LoopsGen

/-
`generated = hand model` for the straight-line functions of src/gf/ref/gfx/fp2.c: `SqiGen.Fp2Ref.*` (re-extracted from the C text
on every run by tools/translate/fp2ref.py) are, for EVERY operation record `O : FpOps α`, the models `SqiModel.Gf.fp2_*` that the
generic GF(p²) theorems of C07 are about (definitional: the hand models were written as the same call sequences).
-/
import SqiGen.Fp2Ref
import Mathlib.Tactic.Ring

namespace SqiProofs.Fp2RefGen
open SqiModel.Gf SqiModel.FpRefSem
variable {α : Type} (O : FpOps α)

theorem fp2_set_small_eq (x : Fp2 α) (v : Nat) : SqiGen.Fp2Ref.fp2_set_small O x v = fp2_set_small O v := rfl
theorem fp2_set_one_eq (x : Fp2 α) : SqiGen.Fp2Ref.fp2_set_one O x = fp2_set_one O := rfl
theorem fp2_set_zero_eq (x : Fp2 α) : SqiGen.Fp2Ref.fp2_set_zero O x = fp2_set_zero O := rfl
theorem fp2_is_zero_eq (a : Fp2 α) : SqiGen.Fp2Ref.fp2_is_zero O a = fp2_is_zero O a := rfl
theorem fp2_is_equal_eq (a b : Fp2 α) : SqiGen.Fp2Ref.fp2_is_equal O a b = fp2_is_equal O a b := rfl
theorem fp2_is_one_eq (a : Fp2 α) : SqiGen.Fp2Ref.fp2_is_one O a = fp2_is_one O a := rfl
theorem fp2_select_eq (d a0 a1 : Fp2 α) (ctl : Nat) : SqiGen.Fp2Ref.fp2_select O d a0 a1 ctl = fp2_select O a0 a1 ctl := rfl
theorem fp2_cswap_eq (a b : Fp2 α) (ctl : Nat) : SqiGen.Fp2Ref.fp2_cswap O a b ctl = fp2_cswap O a b ctl := rfl
theorem fp2_copy_eq (x y : Fp2 α) : SqiGen.Fp2Ref.fp2_copy O x y = y := rfl
theorem fp2_half_eq (x y : Fp2 α) : SqiGen.Fp2Ref.fp2_half O x y = fp2_half O y := rfl
theorem fp2_add_eq (x y z : Fp2 α) : SqiGen.Fp2Ref.fp2_add O x y z = fp2_add O y z := rfl
theorem fp2_sub_eq (x y z : Fp2 α) : SqiGen.Fp2Ref.fp2_sub O x y z = fp2_sub O y z := rfl
theorem fp2_neg_eq (x y : Fp2 α) : SqiGen.Fp2Ref.fp2_neg O x y = fp2_neg O y := rfl
theorem fp2_mul_eq (x y z : Fp2 α) : SqiGen.Fp2Ref.fp2_mul O x y z = fp2_mul O y z := rfl
theorem fp2_sqr_eq (x y : Fp2 α) : SqiGen.Fp2Ref.fp2_sqr O x y = fp2_sqr O y := rfl
theorem fp2_inv_eq (x : Fp2 α) : SqiGen.Fp2Ref.fp2_inv O x = fp2_inv O x := rfl
theorem fp2_is_square_eq (x : Fp2 α) : SqiGen.Fp2Ref.fp2_is_square O x = fp2_is_square O x := rfl

/-- `-((uint32_t)buf[0] & 1)` on the first byte of the encoding = `oddMask` of the encoded integer -/
theorem odd_byte (E : Nat) : negw 32 (u32 (E % 256) &&& 1) = oddMask E := by
  unfold oddMask
  rw [Nat.and_one_is_mod]
  have e : u32 (E % 256) % 2 = E % 2 := by unfold u32; omega
  rw [e]
  rcases (by omega : E % 2 = 0 ∨ E % 2 = 1) with h | h <;> rw [h] <;> simp [negw, T32]

/-- `fp2_sqrt` (complex square root with all its masks and the sign normalisation through `fp_encode`) -/
theorem fp2_sqrt_eq (x : Fp2 α) : SqiGen.Fp2Ref.fp2_sqrt O x = fp2_sqrt O x := by
  unfold SqiGen.Fp2Ref.fp2_sqrt fp2_sqrt
  simp only [odd_byte]

end SqiProofs.Fp2RefGen

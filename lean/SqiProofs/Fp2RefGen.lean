/-
`generated = hand model` for the straight-line functions of src/gf/ref/gfx/fp2.c: `SqiGen.Fp2Ref.*` (re-extracted from the C text
on every run by tools/translate/fp2ref.py) are, for EVERY operation record `O : FpOps α`, the models `SqiModel.Gf.fp2_*` that the
generic GF(p²) theorems of C07 are about (definitional: the hand models were written as the same call sequences).
-/
import SqiGen.Fp2Ref

namespace SqiProofs.Fp2RefGen
open SqiModel.Gf
variable {α : Type} (O : FpOps α)

theorem fp2_set_small_eq (x : Fp2 α) (v : Nat) : SqiGen.Fp2Ref.fp2_set_small O x v = fp2_set_small O v := rfl
theorem fp2_set_one_eq (x : Fp2 α) : SqiGen.Fp2Ref.fp2_set_one O x = fp2_set_one O := rfl
theorem fp2_set_zero_eq (x : Fp2 α) : SqiGen.Fp2Ref.fp2_set_zero O x = fp2_set_zero O := rfl
theorem fp2_is_zero_eq (a : Fp2 α) : SqiGen.Fp2Ref.fp2_is_zero O a = fp2_is_zero O a := rfl
theorem fp2_is_equal_eq (a b : Fp2 α) : SqiGen.Fp2Ref.fp2_is_equal O a b = fp2_is_equal O a b := rfl
theorem fp2_is_one_eq (a : Fp2 α) : SqiGen.Fp2Ref.fp2_is_one O a = fp2_is_one O a := rfl
theorem fp2_select_eq (d a0 a1 : Fp2 α) (ctl : Nat) : SqiGen.Fp2Ref.fp2_select O d a0 a1 ctl = fp2_select O a0 a1 ctl := rfl
theorem fp2_cswap_eq (a b : Fp2 α) (ctl : Nat) : SqiGen.Fp2Ref.fp2_cswap O a b ctl = fp2_cswap O a b ctl := rfl
theorem fp2_copy_eq (x y : Fp2 α) : SqiGen.Fp2Ref.fp2_copy O x y = y := rfl
theorem fp2_half_eq (x y : Fp2 α) : SqiGen.Fp2Ref.fp2_half O x y = fp2_half O y := rfl
theorem fp2_add_eq (x y z : Fp2 α) : SqiGen.Fp2Ref.fp2_add O x y z = fp2_add O y z := rfl
theorem fp2_sub_eq (x y z : Fp2 α) : SqiGen.Fp2Ref.fp2_sub O x y z = fp2_sub O y z := rfl
theorem fp2_neg_eq (x y : Fp2 α) : SqiGen.Fp2Ref.fp2_neg O x y = fp2_neg O y := rfl
theorem fp2_mul_eq (x y z : Fp2 α) : SqiGen.Fp2Ref.fp2_mul O x y z = fp2_mul O y z := rfl
theorem fp2_sqr_eq (x y : Fp2 α) : SqiGen.Fp2Ref.fp2_sqr O x y = fp2_sqr O y := rfl
theorem fp2_inv_eq (x : Fp2 α) : SqiGen.Fp2Ref.fp2_inv O x = fp2_inv O x := rfl
theorem fp2_is_square_eq (x : Fp2 α) : SqiGen.Fp2Ref.fp2_is_square O x = fp2_is_square O x := rfl

end SqiProofs.Fp2RefGen

/-
`generated = hand model` for the composites of src/gf/ref/gfx/fp.c: `SqiGen.FpRef.*` (re-extracted from the C text on every
run by tools/translate/fpref.py, C semantics in `SqiModel.FpRefSem`) equal the value-level models `SqiModel.Gf.Ref.*` that all
C07 theorems are about.  If the C text changes meaning, the generated definitions change and these proofs stop building.
-/
import Mathlib.Tactic.Ring
import Mathlib.Tactic.LinearCombination
import Mathlib.Tactic.Zify
import SqiGen.FpRef
import SqiProofs.GfRefExp

namespace SqiProofs.FpRefGen
open SqiModel.Gf SqiModel.FpRefSem
set_option maxRecDepth 20000

/-! ## loops -/

theorem loopAcc_zero {σ : Type} (lo : Nat) (f : σ → Nat → σ) (s : σ) : loopAcc lo lo f s = s := by
  simp [loopAcc]

theorem loopAcc_succ {σ : Type} (lo hi : Nat) (h : lo ≤ hi) (f : σ → Nat → σ) (s : σ) :
    loopAcc lo (hi + 1) f s = f (loopAcc lo hi f s) hi := by
  unfold loopAcc
  have e : hi + 1 - lo = (hi - lo) + 1 := by omega
  rw [e, List.range'_concat, List.foldl_append]
  simp only [List.foldl_cons, List.foldl_nil, Nat.one_mul]
  congr 1; omega

/-! ## the accumulate loops of `fp_is_zero` / `fp_is_equal` -/

theorem orfold (f : Nat → Nat) (n : Nat) :
    loopAcc 0 n (fun r i => u64 (r ||| f i)) 0 < 2 ^ 64 ∧
    (loopAcc 0 n (fun r i => u64 (r ||| f i)) 0 = 0 ↔ ∀ i < n, f i % 2 ^ 64 = 0) := by
  induction n with
  | zero => simp [loopAcc_zero]
  | succ n ih =>
    rw [loopAcc_succ 0 n (Nat.zero_le _)]
    obtain ⟨h1, h2⟩ := ih
    refine ⟨Nat.mod_lt _ (by decide), ?_⟩
    show (_ ||| f n) % 2 ^ 64 = 0 ↔ _
    rw [Nat.or_mod_two_pow, Nat.or_eq_zero_iff, Nat.mod_eq_of_lt h1, h2]
    constructor
    · rintro ⟨a, b⟩ i hi
      by_cases e : i = n
      · rw [e]; exact b
      · exact a i (by omega)
    · intro a
      exact ⟨fun i hi => a i (by omega), a n (by omega)⟩

/-! ## arrays of limbs -/

theorem ofLimbs_congr (n : Nat) (f g : Nat → Nat) (h : ∀ i < n, f i = g i) : ofLimbs n f = ofLimbs n g := by
  induction n with
  | zero => rfl
  | succ n ih =>
    simp only [ofLimbs]
    rw [ih (fun i hi => h i (by omega)), h n (by omega)]

theorem ofLimbs_limb (n a : Nat) : ofLimbs n (limb a) = a % 2 ^ (64 * n) := by
  induction n with
  | zero => simp [ofLimbs, Nat.mod_one]
  | succ n ih =>
    simp only [ofLimbs, ih, limb]
    have e : 2 ^ (64 * (n + 1)) = 2 ^ (64 * n) * 2 ^ 64 := by rw [Nat.mul_succ, Nat.pow_add]
    rw [e, Nat.mod_mul, Nat.mod_mod, Nat.mul_comm (2 ^ (64 * n))]

theorem ofLimbs_zero (n : Nat) : ofLimbs n (fun _ => 0) = 0 := by
  induction n with
  | zero => rfl
  | succ n ih => simp [ofLimbs, ih]

theorem eq_zero_of_limbs (n a : Nat) (ha : a < 2 ^ (64 * n)) (h : ∀ i < n, limb a i = 0) : a = 0 := by
  have := ofLimbs_limb n a
  rw [Nat.mod_eq_of_lt ha, ofLimbs_congr n (limb a) (fun _ => 0) h, ofLimbs_zero] at this
  exact this.symm

theorem eq_of_limbs (n a b : Nat) (ha : a < 2 ^ (64 * n)) (hb : b < 2 ^ (64 * n)) (h : ∀ i < n, limb a i = limb b i) : a = b := by
  have e1 := ofLimbs_limb n a
  have e2 := ofLimbs_limb n b
  rw [Nat.mod_eq_of_lt ha] at e1
  rw [Nat.mod_eq_of_lt hb] at e2
  rw [← e1, ← e2]
  exact ofLimbs_congr n _ _ h

theorem eq_of_xor_eq_zero {a b : Nat} (h : a ^^^ b = 0) : a = b := by
  have : a ^^^ (a ^^^ b) = a ^^^ 0 := by rw [h]
  rw [← Nat.xor_assoc, Nat.xor_self, Nat.zero_xor, Nat.xor_zero] at this
  exact this.symm

theorem limb_lt (a i : Nat) : limb a i < 2 ^ 64 := Nat.mod_lt _ (by decide)

/-! ## `fp_is_zero`, `fp_is_equal` -/

theorem mask_of_flag (c : Prop) [Decidable c] : negw 32 (is_digit_zero_ct (if c then 0 else 1)) = if c then T32 else 0 := by
  by_cases h : c <;> simp [h, negw, is_digit_zero_ct, T32]

theorem fp_is_zero_eq (P : RefParams) (a : Nat) (ha : a < P.R) : SqiGen.FpRef.fp_is_zero P a = Ref.fp_is_zero a := by
  unfold SqiGen.FpRef.fp_is_zero Ref.fp_is_zero
  have hf : SqiGen.FpRef.fp_is_zero_loop_1 P a = fun r i => u64 (r ||| limb a i) := by
    funext r i; simp [SqiGen.FpRef.fp_is_zero_loop_1]
  have h0 : u64 0 = 0 := rfl
  simp only [hf, h0]
  obtain ⟨h1, h2⟩ := orfold (limb a) P.n
  have key : (loopAcc 0 P.n (fun r i => u64 (r ||| limb a i)) 0 = 0) ↔ a = 0 := by
    rw [h2]
    constructor
    · intro h
      exact eq_zero_of_limbs P.n a ha (fun i hi => by have := h i hi; rwa [Nat.mod_eq_of_lt (limb_lt a i)] at this)
    · rintro rfl i _
      simp [limb]
  by_cases e : a = 0
  · rw [if_pos e, key.mpr e]; first | done | decide
  · rw [if_neg e]
    have : loopAcc 0 P.n (fun r i => u64 (r ||| limb a i)) 0 ≠ 0 := fun h => e (key.mp h)
    simp only [is_digit_zero_ct, negw, Nat.mod_eq_of_lt h1, this, if_false]
    first | done | decide

theorem fp_is_equal_eq (P : RefParams) (a b : Nat) (ha : a < P.R) (hb : b < P.R) :
    SqiGen.FpRef.fp_is_equal P a b = Ref.fp_is_equal a b := by
  unfold SqiGen.FpRef.fp_is_equal Ref.fp_is_equal
  have hf : SqiGen.FpRef.fp_is_equal_loop_1 P a b = fun r i => u64 (r ||| (limb a i ^^^ limb b i)) := by
    funext r i; simp [SqiGen.FpRef.fp_is_equal_loop_1]
  have h0 : u64 0 = 0 := rfl
  simp only [hf, h0]
  obtain ⟨h1, h2⟩ := orfold (fun i => limb a i ^^^ limb b i) P.n
  have key : (loopAcc 0 P.n (fun r i => u64 (r ||| (limb a i ^^^ limb b i))) 0 = 0) ↔ a = b := by
    rw [h2]
    constructor
    · intro h
      refine eq_of_limbs P.n a b ha hb (fun i hi => ?_)
      have := h i hi
      rw [Nat.mod_eq_of_lt (Nat.xor_lt_two_pow (limb_lt a i) (limb_lt b i))] at this
      exact eq_of_xor_eq_zero this
    · rintro rfl i _
      simp
  by_cases e : a = b
  · rw [if_pos e, key.mpr e]; first | done | decide
  · rw [if_neg e]
    have : loopAcc 0 P.n (fun r i => u64 (r ||| (limb a i ^^^ limb b i))) 0 ≠ 0 := fun h => e (key.mp h)
    simp only [is_digit_zero_ct, negw, Nat.mod_eq_of_lt h1, this, if_false]
    first | done | decide

/-! ## the bit loop of `fp_exp3div4`, and the call sequences built on it -/

theorem foldl_const {σ : Type} (g : σ → σ) (l : List Nat) (s : σ) : l.foldl (fun s _ => g s) s = g^[l.length] s := by
  induction l generalizing s with
  | nil => rfl
  | cons x xs ih => simp only [List.foldl_cons, List.length_cons, Function.iterate_succ, Function.comp_apply, ih]

theorem loopAcc_const {σ : Type} (lo hi : Nat) (g : σ → σ) (s : σ) : loopAcc lo hi (fun s _ => g s) s = g^[hi - lo] s := by
  unfold loopAcc
  rw [foldl_const, List.length_range']

theorem loopAcc_const' {σ : Type} (lo hi : Nat) (f : σ → Nat → σ) (g : σ → σ) (s : σ) (h : ∀ s i, f s i = g s) :
    loopAcc lo hi f s = g^[hi - lo] s := by
  have : f = fun s _ => g s := by funext s i; exact h s i
  rw [this, loopAcc_const]

theorem iter_exp (P : RefParams) (g : Nat × Nat × Nat × Nat → Nat × Nat × Nat × Nat)
    (hg : ∀ bit pt out acc, ∃ b', g (bit, pt, out, acc) =
      (b', pt / 2, (if pt % 2 = 1 then Ref.fp_mul P out acc else out), Ref.fp_sqr P acc)) :
    ∀ k bit pt out acc, (g^[k] (bit, pt, out, acc)).2.2.1 = Ref.expLoop P k pt out acc := by
  intro k
  induction k with
  | zero => intro bit pt out acc; rfl
  | succ k ih =>
    intro bit pt out acc
    obtain ⟨b', e⟩ := hg bit pt out acc
    rw [Function.iterate_succ, Function.comp_apply, e, ih]
    rfl

theorem low_bit (pt : Nat) : u64 (limb pt 0 &&& 1) = pt % 2 := by
  unfold u64 limb
  rw [Nat.and_one_is_mod]
  omega



theorem exp_step (P : RefParams) (bit pt out acc : Nat) : SqiGen.FpRef.fp_exp3div4_loop_1 P (bit, pt, out, acc) 0 =
      (pt % 2, pt / 2, (if pt % 2 = 1 then Ref.fp_mul P out acc else out), Ref.fp_sqr P acc) := by
  simp only [SqiGen.FpRef.fp_exp3div4_loop_1, low_bit, mp_shiftr1]
  by_cases h : pt % 2 = 1 <;> simp [h]

theorem fp_exp3div4_eq (P : RefParams) (out a : Nat) :
    SqiGen.FpRef.fp_exp3div4 P out a = Ref.fp_exp3div4 P a := by
  unfold SqiGen.FpRef.fp_exp3div4 Ref.fp_exp3div4
  dsimp only
  rw [loopAcc_const' _ _ (SqiGen.FpRef.fp_exp3div4_loop_1 P) (fun s => SqiGen.FpRef.fp_exp3div4_loop_1 P s 0) _ (fun s i => rfl), Nat.sub_zero]
  have hp : mp_shiftr1 (mp_shiftr1 P.p) = P.p / 4 := by unfold mp_shiftr1; omega
  have hb : P.n * 64 - 2 = 64 * P.n - 2 := by omega
  rw [hp, hb]
  exact iter_exp P _ (fun bit pt out acc => ⟨_, exp_step P bit pt out acc⟩) _ _ _ _ _

theorem fp_inv_eq (P : RefParams) (a : Nat) : SqiGen.FpRef.fp_inv P a = Ref.fp_inv P a := by
  unfold SqiGen.FpRef.fp_inv Ref.fp_inv
  simp only [fp_exp3div4_eq P]

theorem fp_set_one_eq (P : RefParams) (a : Nat) : SqiGen.FpRef.fp_set_one P a = Ref.fp_set_one P := rfl

section dom
variable {P : RefParams} [Fact P.p.Prime] (hV : SqiProofs.GfRef.Valid P)
include hV

theorem fp_is_square_eq (a : Nat) (ha : a < P.p) :
    SqiGen.FpRef.fp_is_square P a = Ref.fp_is_square P a := by
  unfold SqiGen.FpRef.fp_is_square Ref.fp_is_square
  simp only [fp_exp3div4_eq P, fp_set_one_eq]
  have h0 := (SqiProofs.GfRef.fp_exp3div4_spec hV ha).1
  have h1 := (SqiProofs.GfRef.fp_mul_spec hV (SqiProofs.GfRef.fp_sqr_spec hV h0).1 ha).1
  have h2 : Ref.fp_set_one P < P.R := Nat.lt_trans (Nat.mod_lt _ (by have := hV.hp2; omega)) hV.hpR
  rw [fp_is_equal_eq P _ _ (Nat.lt_trans h1 hV.hpR) h2, fp_is_zero_eq P a (Nat.lt_trans ha hV.hpR)]

end dom

/-! ## limb arrays: reading a limb of `ofLimbs`, the store loops -/

theorem ofLimbs_lt (n : Nat) (f : Nat → Nat) : ofLimbs n f < 2 ^ (64 * n) := by
  induction n with
  | zero => simp [ofLimbs]
  | succ n ih =>
    simp only [ofLimbs]
    have e : 2 ^ (64 * (n + 1)) = 2 ^ (64 * n) * 2 ^ 64 := by rw [Nat.mul_succ, Nat.pow_add]
    have h : f n % 2 ^ 64 < 2 ^ 64 := Nat.mod_lt _ (by decide)
    rw [e]
    calc ofLimbs n f + f n % 2 ^ 64 * 2 ^ (64 * n) < 2 ^ (64 * n) + f n % 2 ^ 64 * 2 ^ (64 * n) := by omega
      _ = (f n % 2 ^ 64 + 1) * 2 ^ (64 * n) := by ring
      _ ≤ 2 ^ 64 * 2 ^ (64 * n) := Nat.mul_le_mul_right _ (by omega)
      _ = 2 ^ (64 * n) * 2 ^ 64 := Nat.mul_comm _ _

theorem limb_add_high (A c i n : Nat) (h : i < n) : limb (A + c * 2 ^ (64 * n)) i = limb A i := by
  unfold limb
  have e : 2 ^ (64 * n) = 2 ^ (64 * i) * (2 ^ 64 * 2 ^ (64 * (n - i - 1))) := by
    rw [← Nat.pow_add, ← Nat.pow_add]; congr 1; omega
  rw [e, ← Nat.mul_assoc, Nat.mul_comm c, Nat.mul_assoc, Nat.add_mul_div_left _ _ (Nat.two_pow_pos _),
    Nat.mul_comm (2 ^ 64), ← Nat.mul_assoc, Nat.add_mul_mod_self_right]

theorem limb_ofLimbs (n : Nat) (f : Nat → Nat) (i : Nat) (h : i < n) : limb (ofLimbs n f) i = f i % 2 ^ 64 := by
  induction n with
  | zero => omega
  | succ n ih =>
    simp only [ofLimbs]
    by_cases e : i = n
    · subst e
      unfold limb
      rw [Nat.add_mul_div_right _ _ (Nat.two_pow_pos _), Nat.div_eq_of_lt (ofLimbs_lt i f), Nat.zero_add, Nat.mod_mod]
    · rw [limb_add_high _ _ _ _ (by omega)]
      exact ih (by omega)

theorem setLimb_limb (n x i v j : Nat) (hj : j < n) :
    limb (setLimb n x i v) j = if j = i then v % 2 ^ 64 else limb x j := by
  unfold setLimb
  rw [limb_ofLimbs n _ j hj]
  by_cases e : j = i
  · rw [if_pos e, if_pos e]
  · rw [if_neg e, if_neg e]; exact Nat.mod_eq_of_lt (limb_lt x j)

/-- `for (i = lo; i < m; i++) x[i] = E i` -/
theorem store_loop (n lo : Nat) (E : Nat → Nat) (x : Nat) (m : Nat) (hlo : lo ≤ m) (hm : m ≤ n) :
    ∀ j < n, limb (loopAcc lo m (fun y i => setLimb n y i (E i)) x) j =
      if lo ≤ j ∧ j < m then E j % 2 ^ 64 else limb x j := by
  induction m with
  | zero =>
    intro j hj
    have : lo = 0 := by omega
    subst this
    rw [loopAcc_zero]; simp
  | succ m ih =>
    intro j hj
    by_cases e : lo = m + 1
    · rw [← e, loopAcc_zero]
      have : ¬ (lo ≤ j ∧ j < lo) := by omega
      rw [if_neg this]
    · rw [loopAcc_succ lo m (by omega), setLimb_limb _ _ _ _ _ hj]
      by_cases e2 : j = m
      · subst e2
        have : lo ≤ j ∧ j < j + 1 := by omega
        rw [if_pos rfl, if_pos this]
      · rw [if_neg e2, ih (by omega) (by omega) j hj]
        by_cases e3 : lo ≤ j ∧ j < m
        · have : lo ≤ j ∧ j < m + 1 := by omega
          rw [if_pos e3, if_pos this]
        · have : ¬ (lo ≤ j ∧ j < m + 1) := by omega
          rw [if_neg e3, if_neg this]

theorem store_loop_lt (n lo : Nat) (E : Nat → Nat) (x : Nat) (hx : x < 2 ^ (64 * n)) (m : Nat) (hlo : lo ≤ m) :
    loopAcc lo m (fun y i => setLimb n y i (E i)) x < 2 ^ (64 * n) := by
  induction m with
  | zero => have : lo = 0 := by omega
            subst this; rw [loopAcc_zero]; exact hx
  | succ m ih =>
    by_cases e : lo = m + 1
    · rw [← e, loopAcc_zero]; exact hx
    · rw [loopAcc_succ lo m (by omega)]
      exact ofLimbs_lt _ _

/-! ## `fp_set_zero`, `fp_set_small`, `fp_half` -/

theorem fp_set_zero_eq (P : RefParams) (a : Nat) (ha : a < P.R) : SqiGen.FpRef.fp_set_zero P a = Ref.fp_set_zero := by
  unfold SqiGen.FpRef.fp_set_zero Ref.fp_set_zero
  have hf : SqiGen.FpRef.fp_set_zero_loop_1 P = fun y i => setLimb P.n y i ((fun _ => 0) i) := by
    funext y i; rfl
  simp only [hf]
  refine eq_zero_of_limbs P.n _ (store_loop_lt P.n 0 _ a ha P.n (Nat.zero_le _)) (fun j hj => ?_)
  rw [store_loop P.n 0 _ a P.n (Nat.zero_le _) (Nat.le_refl _) j hj, if_pos ⟨Nat.zero_le _, hj⟩]
  rfl

theorem limb_small (v j : Nat) (hv : v < 2 ^ 64) : limb v j = if j = 0 then v else 0 := by
  unfold limb
  by_cases e : j = 0
  · subst e; rw [if_pos rfl]; show v / 2 ^ (64 * 0) % 2 ^ 64 = v; simp; exact hv
  · rw [if_neg e]
    have : 2 ^ 64 ≤ 2 ^ (64 * j) := Nat.pow_le_pow_right (by decide) (by omega)
    rw [Nat.div_eq_of_lt (by omega)]

theorem fp_set_small_eq (P : RefParams) (hn : 1 ≤ P.n) (x val : Nat) (hx : x < P.R) :
    SqiGen.FpRef.fp_set_small P x val = Ref.fp_set_small P val := by
  unfold SqiGen.FpRef.fp_set_small Ref.fp_set_small
  have hf : SqiGen.FpRef.fp_set_small_loop_1 P = fun y i => setLimb P.n y i ((fun _ => 0) i) := by
    funext y i; rfl
  simp only [hf]
  congr 1
  have hW : val % W < 2 ^ (64 * P.n) := by
    have : val % W < 2 ^ 64 := Nat.mod_lt _ (by decide)
    have : 2 ^ 64 ≤ 2 ^ (64 * P.n) := Nat.pow_le_pow_right (by decide) (by omega)
    omega
  refine eq_of_limbs P.n _ _ (store_loop_lt P.n 1 _ _ (ofLimbs_lt _ _) P.n hn) hW (fun j hj => ?_)
  have hW' : val % W < 2 ^ 64 := Nat.mod_lt _ (by decide)
  rw [store_loop P.n 1 _ _ P.n hn (Nat.le_refl _) j hj, limb_small (val % W) j hW']
  by_cases e : j = 0
  · subst e
    have : ¬ (1 ≤ 0 ∧ 0 < P.n) := by omega
    rw [if_neg this, setLimb_limb _ _ _ _ _ hj, if_pos rfl, if_pos rfl]; rfl
  · have : 1 ≤ j ∧ j < P.n := by omega
    rw [if_pos this, if_neg e]
    rfl

section dom2
variable {P : RefParams} [Fact P.p.Prime] (hV : SqiProofs.GfRef.Valid P)
include hV

theorem fp_half_eq (out a : Nat) : SqiGen.FpRef.fp_half P out a = Ref.fp_half P a := by
  unfold SqiGen.FpRef.fp_half Ref.fp_half
  simp only [fp_inv_eq, fp_set_small_eq P hV.hn 0 2 (Nat.two_pow_pos _)]

end dom2

/-! ## `fp_select` (limb-wise mask) -/

theorem limb_xor (a b i : Nat) : limb (a ^^^ b) i = limb a i ^^^ limb b i := by
  unfold limb
  rw [← Nat.shiftRight_eq_div_pow, ← Nat.shiftRight_eq_div_pow, ← Nat.shiftRight_eq_div_pow,
    Nat.shiftRight_xor_distrib, Nat.xor_mod_two_pow]

theorem limb_and (a b i : Nat) : limb (a &&& b) i = limb a i &&& limb b i := by
  unfold limb
  rw [← Nat.shiftRight_eq_div_pow, ← Nat.shiftRight_eq_div_pow, ← Nat.shiftRight_eq_div_pow,
    Nat.shiftRight_and_distrib, Nat.and_mod_two_pow]

theorem limb_cons (w x i : Nat) (hw : w < 2 ^ 64) :
    limb (w + W * x) i = if i = 0 then w else limb x (i - 1) := by
  unfold limb W
  by_cases e : i = 0
  · subst e
    rw [if_pos rfl, Nat.mul_zero, Nat.pow_zero, Nat.div_one, Nat.add_mul_mod_self_left, Nat.mod_eq_of_lt hw]
  · rw [if_neg e]
    have e1 : 2 ^ (64 * i) = 2 ^ 64 * 2 ^ (64 * (i - 1)) := by rw [← Nat.pow_add]; congr 1; omega
    rw [e1, ← Nat.div_div_eq_div_mul, Nat.add_mul_div_left _ _ (Nat.two_pow_pos _), Nat.div_eq_of_lt hw, Nat.zero_add]

theorem limb_replLimb (n w i : Nat) (hw : w < 2 ^ 64) (hi : i < n) : limb (Ref.replLimb n w) i = w := by
  induction n generalizing i with
  | zero => omega
  | succ n ih =>
    rw [Ref.replLimb, limb_cons _ _ _ hw]
    by_cases e : i = 0
    · rw [if_pos e]
    · rw [if_neg e]; exact ih (i - 1) (by omega)

theorem replLimb_lt (n w : Nat) (hw : w < 2 ^ 64) : Ref.replLimb n w < 2 ^ (64 * n) := by
  induction n with
  | zero => simp [Ref.replLimb]
  | succ n ih =>
    rw [Ref.replLimb]
    have e : 2 ^ (64 * (n + 1)) = 2 ^ 64 * 2 ^ (64 * n) := by rw [← Nat.pow_add]; congr 1; omega
    rw [e]
    unfold W
    calc w + 2 ^ 64 * Ref.replLimb n w < 2 ^ 64 + 2 ^ 64 * Ref.replLimb n w := by omega
      _ = 2 ^ 64 * (Ref.replLimb n w + 1) := by ring
      _ ≤ 2 ^ 64 * 2 ^ (64 * n) := Nat.mul_le_mul_left _ (by omega)

theorem ctlWord_lt (ctl : Nat) : Ref.ctlWord ctl < 2 ^ 64 := by
  unfold Ref.ctlWord; split <;> omega

theorem sext32_eq (ctl : Nat) : u64 (sext32 ctl) = Ref.ctlWord ctl := by
  have := ctlWord_lt ctl
  unfold u64 sext32
  unfold Ref.ctlWord at this ⊢
  exact Nat.mod_eq_of_lt this

theorem fp_select_eq (P : RefParams) (d a0 a1 ctl : Nat) (hd : d < P.R) (h0 : a0 < P.R) (h1 : a1 < P.R) :
    SqiGen.FpRef.fp_select P d a0 a1 ctl = Ref.fp_select P a0 a1 ctl := by
  unfold SqiGen.FpRef.fp_select Ref.fp_select
  have hf : SqiGen.FpRef.fp_select_loop_1 P a0 a1 (u64 (sext32 ctl)) = fun y i => setLimb P.n y i
      ((fun i => limb a0 i ^^^ (Ref.ctlWord ctl &&& (limb a0 i ^^^ limb a1 i))) i) := by
    funext y i; simp only [SqiGen.FpRef.fp_select_loop_1, sext32_eq]
  simp only [hf]
  have hc := ctlWord_lt ctl
  have hr := replLimb_lt P.n _ hc
  have hR : P.R = 2 ^ (64 * P.n) := rfl
  rw [hR] at hd h0 h1
  refine eq_of_limbs P.n _ _ (store_loop_lt P.n 0 _ d hd P.n (Nat.zero_le _))
    (Nat.xor_lt_two_pow h0 (Nat.and_lt_two_pow _ (Nat.xor_lt_two_pow h0 h1))) (fun j hj => ?_)
  rw [store_loop P.n 0 _ d P.n (Nat.zero_le _) (Nat.le_refl _) j hj, if_pos ⟨Nat.zero_le _, hj⟩,
    limb_xor, limb_and, limb_xor, limb_replLimb _ _ _ hc hj]
  exact Nat.mod_eq_of_lt (Nat.xor_lt_two_pow (limb_lt _ _) (Nat.and_lt_two_pow _ (Nat.xor_lt_two_pow (limb_lt _ _) (limb_lt _ _))))

/-! ## `fp_neg`: the SUBC borrow loop -/

theorem subc_spec (x y b : Nat) (hx : x < 2 ^ 64) (hy : y < 2 ^ 64) (hb : b ≤ 1) :
    (subc x y b).1 < 2 ^ 64 ∧ (subc x y b).2 ≤ 1 ∧ (subc x y b).1 + y + b = x + 2 ^ 64 * (subc x y b).2 := by
  have ht : subw 64 x y = if y ≤ x then x - y else x + 2 ^ 64 - y := by unfold subw; split <;> omega
  have htl : subw 64 x y < 2 ^ 64 := by unfold subw; omega
  have hl : is_digit_lessthan_ct x y = if x < y then 1 else 0 := by
    unfold is_digit_lessthan_ct; rw [Nat.mod_eq_of_lt hx, Nat.mod_eq_of_lt hy]
  have hz : is_digit_zero_ct (subw 64 x y) = if x = y then 1 else 0 := by
    unfold is_digit_zero_ct; rw [Nat.mod_eq_of_lt htl, ht]
    by_cases h1 : y ≤ x
    · rw [if_pos h1]; by_cases h2 : x = y
      · rw [if_pos h2, if_pos (by omega)]
      · rw [if_neg h2, if_neg (by omega)]
    · rw [if_neg h1, if_neg (by omega), if_neg (by omega)]
  have hd : ∀ c, c ≤ 1 → subw 64 (subw 64 x y) (u64 c) = (subw 64 x y + 2 ^ 64 - c) % 2 ^ 64 := by
    intro c hc; unfold u64; generalize subw 64 x y = t at htl ⊢; unfold subw; omega
  unfold subc
  simp only [hl, hz, hd b hb]
  have hb' : b = 0 ∨ b = 1 := by omega
  rcases hb' with rfl | rfl
  · simp only [Nat.zero_and, Nat.or_zero]
    rw [ht]
    by_cases h1 : x < y
    · rw [if_pos h1, if_neg (by omega)]; omega
    · rw [if_neg h1, if_pos (by omega)]; omega
  · rw [ht]
    by_cases h1 : x < y
    · rw [if_pos h1, if_neg (by omega), if_neg (by omega)]
      refine ⟨by omega, by decide, ?_⟩
      have : (1 ||| 1 &&& 0) = 1 := by decide
      rw [this]; omega
    · rw [if_neg h1, if_pos (by omega)]
      by_cases h2 : x = y
      · rw [if_pos h2]
        have : (0 ||| 1 &&& 1) = 1 := by decide
        rw [this]; omega
      · rw [if_neg h2]
        have : (0 ||| 1 &&& 0) = 0 := by decide
        rw [this]; omega

theorem mod_succ_limb (x m : Nat) : x % 2 ^ (64 * (m + 1)) = x % 2 ^ (64 * m) + 2 ^ (64 * m) * limb x m := by
  have e : 2 ^ (64 * (m + 1)) = 2 ^ (64 * m) * 2 ^ 64 := by rw [Nat.mul_succ, Nat.pow_add]
  rw [e, Nat.mod_mul]; rfl

theorem mod_eq_of_limbs (m x y : Nat) (h : ∀ j < m, limb x j = limb y j) : x % 2 ^ (64 * m) = y % 2 ^ (64 * m) := by
  rw [← ofLimbs_limb, ← ofLimbs_limb]; exact ofLimbs_congr m _ _ h

theorem neg_loop (P : RefParams) (a out : Nat) (m : Nat) (hm : m ≤ P.n) :
    (loopAcc 0 m (SqiGen.FpRef.fp_neg_loop_1 P a) (out, 0)).2 ≤ 1 ∧
    (loopAcc 0 m (SqiGen.FpRef.fp_neg_loop_1 P a) (out, 0)).1 % 2 ^ (64 * m) + a % 2 ^ (64 * m) =
      P.p % 2 ^ (64 * m) + 2 ^ (64 * m) * (loopAcc 0 m (SqiGen.FpRef.fp_neg_loop_1 P a) (out, 0)).2 := by
  induction m with
  | zero => rw [loopAcc_zero]; simp [Nat.mod_one]
  | succ m ih =>
    obtain ⟨ib, ie⟩ := ih (by omega)
    rw [loopAcc_succ 0 m (Nat.zero_le _)]
    generalize loopAcc 0 m (SqiGen.FpRef.fp_neg_loop_1 P a) (out, 0) = s at ib ie ⊢
    obtain ⟨o, b⟩ := s
    simp only at ib ie
    obtain ⟨c1, c2, c3⟩ := subc_spec (limb P.p m) (limb a m) b (limb_lt _ _) (limb_lt _ _) ib
    have hstep : SqiGen.FpRef.fp_neg_loop_1 P a (o, b) m =
        (setLimb P.n o m (subc (limb P.p m) (limb a m) b).1, (subc (limb P.p m) (limb a m) b).2) := by
      simp only [SqiGen.FpRef.fp_neg_loop_1, u32]
      rw [Nat.mod_eq_of_lt (by omega : (subc (limb P.p m) (limb a m) b).2 < 2 ^ 32)]
    rw [hstep]
    refine ⟨c2, ?_⟩
    simp only
    rw [mod_succ_limb, mod_succ_limb a, mod_succ_limb P.p, setLimb_limb _ _ _ _ _ (by omega : m < P.n), if_pos rfl,
      Nat.mod_eq_of_lt c1,
      mod_eq_of_limbs m (setLimb P.n o m _) o (fun j hj => by rw [setLimb_limb _ _ _ _ _ (by omega), if_neg (by omega)])]
    have e : 2 ^ (64 * (m + 1)) = 2 ^ (64 * m) * 2 ^ 64 := by rw [Nat.mul_succ, Nat.pow_add]
    rw [e]
    zify at ie c3 ⊢
    linear_combination ie + (2 : Int) ^ (64 * m) * c3

theorem fp_neg_eq (P : RefParams) (hV : SqiProofs.GfRef.Valid P) (out a : Nat) (ha : a < P.R) :
    SqiGen.FpRef.fp_neg P out a = Ref.fp_neg P a := by
  unfold SqiGen.FpRef.fp_neg Ref.fp_neg
  have h0 : u32 0 = 0 := rfl
  simp only [h0]
  congr 1
  obtain ⟨hb, he⟩ := neg_loop P a out P.n (Nat.le_refl _)
  have hn := hV.hn
  have hlt : (loopAcc 0 P.n (SqiGen.FpRef.fp_neg_loop_1 P a) (out, 0)).1 < 2 ^ (64 * P.n) := by
    have hs := loopAcc_succ 0 (P.n - 1) (Nat.zero_le _) (SqiGen.FpRef.fp_neg_loop_1 P a) (out, 0)
    rw [Nat.sub_add_cancel hn] at hs
    rw [hs]
    generalize loopAcc 0 (P.n - 1) (SqiGen.FpRef.fp_neg_loop_1 P a) (out, 0) = s0
    show setLimb P.n _ _ _ < _
    unfold setLimb
    exact ofLimbs_lt _ _
  have hR : P.R = 2 ^ (64 * P.n) := rfl
  have hp := hV.hpR
  rw [hR] at ha hp ⊢
  rw [Nat.mod_eq_of_lt hlt, Nat.mod_eq_of_lt ha, Nat.mod_eq_of_lt hp] at he
  generalize (loopAcc 0 P.n (SqiGen.FpRef.fp_neg_loop_1 P a) (out, 0)) = s at hb he hlt ⊢
  obtain ⟨o, b⟩ := s
  simp only at hb he hlt ⊢
  generalize 2 ^ (64 * P.n) = R at *
  by_cases hle : a ≤ P.p
  · have hb0 : b = 0 := by
      rcases (by omega : b = 0 ∨ b = 1) with h | h
      · exact h
      · subst h; omega
    subst hb0
    have : P.p + R - a = (P.p - a) + R := by omega
    rw [this, Nat.add_mod_right, Nat.mod_eq_of_lt (by omega)]; omega
  · have hb1 : b = 1 := by
      rcases (by omega : b = 0 ∨ b = 1) with h | h
      · subst h; omega
      · exact h
    subst hb1
    rw [Nat.mod_eq_of_lt (by omega)]; omega

/-! ## `fp_sqrt` -/

theorem oddMask_eq (t : Nat) : u32 (negw 32 (u32 (limb t 0) &&& 1)) = oddMask (t % W) := by
  unfold oddMask W
  rw [Nat.and_one_is_mod]
  have e : u32 (limb t 0) % 2 = t % 2 := by unfold u32 limb; omega
  rw [e]
  have e2 : t % 2 ^ 64 % 2 = t % 2 := by omega
  rw [e2]
  rcases (by omega : t % 2 = 0 ∨ t % 2 = 1) with h | h <;> rw [h] <;> simp [negw, u32, T32]

section dom3
variable {P : RefParams} [Fact P.p.Prime] (hV : SqiProofs.GfRef.Valid P)
include hV

theorem fp_sqrt_eq (a : Nat) (ha : a < P.p) : SqiGen.FpRef.fp_sqrt P a = Ref.fp_sqrt P a := by
  unfold SqiGen.FpRef.fp_sqrt Ref.fp_sqrt
  simp only [fp_exp3div4_eq P, oddMask_eq]
  have h0 := (SqiProofs.GfRef.fp_exp3div4_spec hV ha).1
  have h1 := (SqiProofs.GfRef.fp_mul_spec hV h0 ha).1
  have h2 := (SqiProofs.GfRef.fp_frommont_spec hV h1).1
  have h3 := (SqiProofs.GfRef.fp_neg_spec hV h1).1
  have hR := hV.hpR
  rw [fp_neg_eq P hV _ _ (Nat.lt_trans h1 hR)]
  exact fp_select_eq P _ _ _ _ (Nat.lt_trans h1 hR) (Nat.lt_trans h1 hR) (Nat.lt_trans h3 hR)

end dom3

/-! ## `fp_cswap` -/

theorem cswap_loop (P : RefParams) (cw a b : Nat) (ha : a < 2 ^ (64 * P.n)) (hb : b < 2 ^ (64 * P.n)) (m : Nat) (hm : m ≤ P.n) :
    let s := loopAcc 0 m (SqiGen.FpRef.fp_cswap_loop_1 P cw) (0, a, b)
    s.2.1 < 2 ^ (64 * P.n) ∧ s.2.2 < 2 ^ (64 * P.n) ∧
    (∀ j < P.n, limb s.2.1 j = if j < m then limb a j ^^^ (cw &&& (limb a j ^^^ limb b j)) else limb a j) ∧
    (∀ j < P.n, limb s.2.2 j = if j < m then limb b j ^^^ (cw &&& (limb a j ^^^ limb b j)) else limb b j) := by
  induction m with
  | zero =>
    rw [loopAcc_zero]
    exact ⟨ha, hb, fun j _ => by simp, fun j _ => by simp⟩
  | succ m ih =>
    obtain ⟨i1, i2, i3, i4⟩ := ih (by omega)
    rw [loopAcc_succ 0 m (Nat.zero_le _)]
    generalize loopAcc 0 m (SqiGen.FpRef.fp_cswap_loop_1 P cw) (0, a, b) = s at i1 i2 i3 i4 ⊢
    obtain ⟨t, A, B⟩ := s
    simp only at i1 i2 i3 i4
    have hmn : m < P.n := by omega
    have eA : limb A m = limb a m := by rw [i3 m hmn, if_neg (by omega)]
    have eB : limb B m = limb b m := by rw [i4 m hmn, if_neg (by omega)]
    have hx : cw &&& (limb a m ^^^ limb b m) < 2 ^ 64 := Nat.and_lt_two_pow _ (Nat.xor_lt_two_pow (limb_lt _ _) (limb_lt _ _))
    simp only [SqiGen.FpRef.fp_cswap_loop_1, eA, eB, u64, Nat.mod_eq_of_lt hx]
    refine ⟨ofLimbs_lt _ _, ofLimbs_lt _ _, fun j hj => ?_, fun j hj => ?_⟩
    · rw [setLimb_limb _ _ _ _ _ hj]
      by_cases e : j = m
      · subst e
        rw [if_pos rfl, if_pos (by omega)]
        exact Nat.mod_eq_of_lt (Nat.xor_lt_two_pow (limb_lt _ _) hx)
      · rw [if_neg e, i3 j hj]
        by_cases e2 : j < m
        · rw [if_pos e2, if_pos (by omega)]
        · rw [if_neg e2, if_neg (by omega)]
    · rw [setLimb_limb _ _ _ _ _ hj]
      by_cases e : j = m
      · subst e
        rw [if_pos rfl, if_pos (by omega)]
        exact Nat.mod_eq_of_lt (Nat.xor_lt_two_pow (limb_lt _ _) hx)
      · rw [if_neg e, i4 j hj]
        by_cases e2 : j < m
        · rw [if_pos e2, if_pos (by omega)]
        · rw [if_neg e2, if_neg (by omega)]

theorem fp_cswap_eq (P : RefParams) (a b ctl : Nat) (ha : a < P.R) (hb : b < P.R) :
    SqiGen.FpRef.fp_cswap P a b ctl = Ref.fp_cswap P a b ctl := by
  unfold SqiGen.FpRef.fp_cswap Ref.fp_cswap
  simp only [sext32_eq]
  have hR : P.R = 2 ^ (64 * P.n) := rfl
  rw [hR] at ha hb
  obtain ⟨l1, l2, l3, l4⟩ := cswap_loop P (Ref.ctlWord ctl) a b ha hb P.n (Nat.le_refl _)
  have hc := ctlWord_lt ctl
  have hr := replLimb_lt P.n _ hc
  have ht : Ref.replLimb P.n (Ref.ctlWord ctl) &&& (a ^^^ b) < 2 ^ (64 * P.n) := Nat.and_lt_two_pow _ (Nat.xor_lt_two_pow ha hb)
  refine Prod.ext ?_ ?_
  · refine eq_of_limbs P.n _ _ l1 (Nat.xor_lt_two_pow ha ht) (fun j hj => ?_)
    rw [l3 j hj, if_pos hj, limb_xor, limb_and, limb_xor, limb_replLimb _ _ _ hc hj]
  · refine eq_of_limbs P.n _ _ l2 (Nat.xor_lt_two_pow hb ht) (fun j hj => ?_)
    rw [l4 j hj, if_pos hj, limb_xor, limb_and, limb_xor, limb_replLimb _ _ _ hc hj]

end SqiProofs.FpRefGen

/-
Two back-ends that both refine `ZMod p` (`FpRefines`) are observationally identical at the level of
canonical encodings: lemmas for C06.
-/
import SqiProofs.GfFp2Batch

set_option linter.unusedSectionVars false

namespace SqiProofs.GfAgree
open SqiModel.Gf SqiProofs.GfFp2

variable {p : Nat} [Fact p.Prime]
variable {α β : Type} {O₁ : FpOps α} {O₂ : FpOps β} {d₁ : α → Prop} {d₂ : β → Prop}
variable {v₁ : α → ZMod p} {v₂ : β → ZMod p}

/-- in a field of odd characteristic p, two square roots of the same element with even canonical
    representatives coincide -/
theorem even_root_unique (hp4 : p % 4 = 3) {r s : ZMod p} (h : r * r = s * s) (hr : r.val % 2 = 0) (hs : s.val % 2 = 0) :
    r = s := by
  have : (r - s) * (r + s) = 0 := by linear_combination h
  rcases mul_eq_zero.mp this with h1 | h1
  · exact sub_eq_zero.mp h1
  · have hrs : r = -s := eq_neg_of_add_eq_zero_left h1
    by_cases hs0 : s = 0
    · rw [hrs, hs0]; simp
    · exfalso
      have := val_parity_neg hp4 hs0
      rw [← hrs, hr, hs] at this
      omega

/-- the normalised square root in `Fp[i]` is unique -/
theorem normalised_root_unique (hp4 : p % 4 = 3) {y z : CF p} (h : y * y = z * z)
    (hy : y.re.val % 2 = 0 ∧ (y.re = 0 → y.im.val % 2 = 0))
    (hz : z.re.val % 2 = 0 ∧ (z.re = 0 → z.im.val % 2 = 0)) : y = z := by
  have := nonres_fact hp4
  have : (y - z) * (y + z) = 0 := by linear_combination h
  rcases mul_eq_zero.mp this with h1 | h1
  · exact sub_eq_zero.mp h1
  · have hyz : y = -z := eq_neg_of_add_eq_zero_left h1
    have hre : y.re = - z.re := by rw [hyz]; simp
    have him : y.im = - z.im := by rw [hyz]; simp
    by_cases hz0 : z.re = 0
    · have hy0 : y.re = 0 := by rw [hre, hz0]; simp
      by_cases hzi : z.im = 0
      · ext
        · rw [hy0, hz0]
        · rw [him, hzi]; simp
      · exfalso
        have := val_parity_neg hp4 hzi
        rw [← him, hy.2 hy0, hz.2 hz0] at this
        omega
    · exfalso
      have := val_parity_neg hp4 hz0
      rw [← hre, hy.1, hz.1] at this
      omega

section
variable (h₁ : FpRefines O₁ p d₁ v₁) (h₂ : FpRefines O₂ p d₂ v₂)
include h₁ h₂

/-- related operands: same field element in both representations -/
def Rel (v₁ : α → ZMod p) (v₂ : β → ZMod p) (d₁ : α → Prop) (d₂ : β → Prop) (a : α) (b : β) : Prop :=
  d₁ a ∧ d₂ b ∧ v₁ a = v₂ b

omit h₁ h₂ in
theorem Rel.mk' {a : α} {b : β} (ha : d₁ a) (hb : d₂ b) (h : v₁ a = v₂ b) : Rel v₁ v₂ d₁ d₂ a b := ⟨ha, hb, h⟩

theorem encode_agree {a : α} {b : β} (r : Rel v₁ v₂ d₁ d₂ a b) : O₁.encode a = O₂.encode b := by
  rw [h₁.encode r.1, h₂.encode r.2.1, r.2.2]

theorem add_agree {a b : α} {a' b' : β} (ra : Rel v₁ v₂ d₁ d₂ a a') (rb : Rel v₁ v₂ d₁ d₂ b b') :
    Rel v₁ v₂ d₁ d₂ (O₁.add a b) (O₂.add a' b') := by
  obtain ⟨x1, x2⟩ := h₁.add ra.1 rb.1
  obtain ⟨y1, y2⟩ := h₂.add ra.2.1 rb.2.1
  exact ⟨x1, y1, by rw [x2, y2, ra.2.2, rb.2.2]⟩

theorem sub_agree {a b : α} {a' b' : β} (ra : Rel v₁ v₂ d₁ d₂ a a') (rb : Rel v₁ v₂ d₁ d₂ b b') :
    Rel v₁ v₂ d₁ d₂ (O₁.sub a b) (O₂.sub a' b') := by
  obtain ⟨x1, x2⟩ := h₁.sub ra.1 rb.1
  obtain ⟨y1, y2⟩ := h₂.sub ra.2.1 rb.2.1
  exact ⟨x1, y1, by rw [x2, y2, ra.2.2, rb.2.2]⟩

theorem mul_agree {a b : α} {a' b' : β} (ra : Rel v₁ v₂ d₁ d₂ a a') (rb : Rel v₁ v₂ d₁ d₂ b b') :
    Rel v₁ v₂ d₁ d₂ (O₁.mul a b) (O₂.mul a' b') := by
  obtain ⟨x1, x2⟩ := h₁.mul ra.1 rb.1
  obtain ⟨y1, y2⟩ := h₂.mul ra.2.1 rb.2.1
  exact ⟨x1, y1, by rw [x2, y2, ra.2.2, rb.2.2]⟩

theorem neg_agree {a : α} {a' : β} (ra : Rel v₁ v₂ d₁ d₂ a a') : Rel v₁ v₂ d₁ d₂ (O₁.neg a) (O₂.neg a') := by
  obtain ⟨x1, x2⟩ := h₁.neg ra.1
  obtain ⟨y1, y2⟩ := h₂.neg ra.2.1
  exact ⟨x1, y1, by rw [x2, y2, ra.2.2]⟩

theorem sqr_agree {a : α} {a' : β} (ra : Rel v₁ v₂ d₁ d₂ a a') : Rel v₁ v₂ d₁ d₂ (O₁.sqr a) (O₂.sqr a') := by
  obtain ⟨x1, x2⟩ := h₁.sqr ra.1
  obtain ⟨y1, y2⟩ := h₂.sqr ra.2.1
  exact ⟨x1, y1, by rw [x2, y2, ra.2.2]⟩

theorem inv_agree {a : α} {a' : β} (ra : Rel v₁ v₂ d₁ d₂ a a') : Rel v₁ v₂ d₁ d₂ (O₁.inv a) (O₂.inv a') := by
  obtain ⟨x1, x2⟩ := h₁.inv ra.1
  obtain ⟨y1, y2⟩ := h₂.inv ra.2.1
  exact ⟨x1, y1, by rw [x2, y2, ra.2.2]⟩

theorem half_agree {a : α} {a' : β} (ra : Rel v₁ v₂ d₁ d₂ a a') : Rel v₁ v₂ d₁ d₂ (O₁.half a) (O₂.half a') := by
  obtain ⟨x1, x2⟩ := h₁.half ra.1
  obtain ⟨y1, y2⟩ := h₂.half ra.2.1
  refine ⟨x1, y1, ?_⟩
  have h2 := two_ne_zero' (p := p) h₁.p4
  have : v₁ (O₁.half a) * 2 = v₂ (O₂.half a') * 2 := by rw [x2, y2, ra.2.2]
  exact mul_right_cancel₀ h2 this

theorem setSmall_agree (v : Nat) (hv : v < 2 ^ 32) : Rel v₁ v₂ d₁ d₂ (O₁.setSmall v) (O₂.setSmall v) := by
  obtain ⟨x1, x2⟩ := h₁.setSmall v hv
  obtain ⟨y1, y2⟩ := h₂.setSmall v hv
  exact ⟨x1, y1, by rw [x2, y2]⟩

/-- square roots of squares agree (both are the unique root with even canonical representative) -/
theorem sqrt_agree {a : α} {a' : β} (ra : Rel v₁ v₂ d₁ d₂ a a') (hsq : IsSquare (v₁ a)) :
    Rel v₁ v₂ d₁ d₂ (O₁.sqrt a) (O₂.sqrt a') := by
  obtain ⟨x1, x2, x3⟩ := h₁.sqrt ra.1
  obtain ⟨y1, y2, y3⟩ := h₂.sqrt ra.2.1
  refine ⟨x1, y1, even_root_unique h₁.p4 ?_ x2 y2⟩
  rw [x3 hsq, y3 (by rw [← ra.2.2]; exact hsq), ra.2.2]

/-- squareness tests agree away from 0 (at 0 the two back-ends of the pinned tree DISAGREE) -/
theorem isSquare_agree {a : α} {a' : β} (ra : Rel v₁ v₂ d₁ d₂ a a') (hne : v₁ a ≠ 0) :
    O₁.isSquare a = O₂.isSquare a' := by
  obtain ⟨c1, e1⟩ := h₁.isSquare ra.1
  obtain ⟨c2, e2⟩ := h₂.isSquare ra.2.1
  have e1' := e1 hne
  have e2' := e2 (by rw [← ra.2.2]; exact hne)
  rw [← ra.2.2] at e2'
  by_cases hs : IsSquare (v₁ a)
  · rw [e1'.mpr hs, e2'.mpr hs]
  · have n1 : O₁.isSquare a ≠ T32 := fun h => hs (e1'.mp h)
    have n2 : O₂.isSquare a' ≠ T32 := fun h => hs (e2'.mp h)
    rcases c1 with c1 | c1
    · rcases c2 with c2 | c2
      · rw [c1, c2]
      · exact absurd c2 n2
    · exact absurd c1 n1

theorem isZero_agree {a : α} {a' : β} (ra : Rel v₁ v₂ d₁ d₂ a a') : O₁.isZero a = O₂.isZero a' := by
  rcases h₁.isZero ra.1 with ⟨c1, e1⟩ | ⟨c1, e1⟩ <;> rcases h₂.isZero ra.2.1 with ⟨c2, e2⟩ | ⟨c2, e2⟩
  · rw [c1, c2]
  · exact absurd (by rw [← ra.2.2]; exact e1) e2
  · exact absurd (by rw [ra.2.2]; exact e2) e1
  · rw [c1, c2]

theorem isEqual_agree {a b : α} {a' b' : β} (ra : Rel v₁ v₂ d₁ d₂ a a') (rb : Rel v₁ v₂ d₁ d₂ b b') :
    O₁.isEqual a b = O₂.isEqual a' b' := by
  rcases h₁.isEqual ra.1 rb.1 with ⟨c1, e1⟩ | ⟨c1, e1⟩ <;> rcases h₂.isEqual ra.2.1 rb.2.1 with ⟨c2, e2⟩ | ⟨c2, e2⟩
  · rw [c1, c2]
  · exact absurd (by rw [← ra.2.2, ← rb.2.2]; exact e1) e2
  · exact absurd (by rw [ra.2.2, rb.2.2]; exact e2) e1
  · rw [c1, c2]

/-! ### GF(p²): related pairs -/

def Rel2 (v₁ : α → ZMod p) (v₂ : β → ZMod p) (d₁ : α → Prop) (d₂ : β → Prop) (x : Fp2 α) (y : Fp2 β) : Prop :=
  dom2 d₁ x ∧ dom2 d₂ y ∧ val2 v₁ x = val2 v₂ y

theorem fp2_encode_agree {x : Fp2 α} {y : Fp2 β} (hb : O₁.encBytes = O₂.encBytes) (r : Rel2 v₁ v₂ d₁ d₂ x y) :
    fp2_encode O₁ x = fp2_encode O₂ y := by
  have hre : v₁ x.re = v₂ y.re := by simpa [val2] using congrArg QuadraticAlgebra.re r.2.2
  have him : v₁ x.im = v₂ y.im := by simpa [val2] using congrArg QuadraticAlgebra.im r.2.2
  unfold fp2_encode
  rw [h₁.encode r.1.1, h₁.encode r.1.2, h₂.encode r.2.1.1, h₂.encode r.2.1.2, hre, him, hb]

theorem fp2_mul_agree {x y : Fp2 α} {x' y' : Fp2 β} (rx : Rel2 v₁ v₂ d₁ d₂ x x') (ry : Rel2 v₁ v₂ d₁ d₂ y y') :
    Rel2 v₁ v₂ d₁ d₂ (fp2_mul O₁ x y) (fp2_mul O₂ x' y') := by
  obtain ⟨a1, a2⟩ := fp2_mul_spec h₁ rx.1 ry.1
  obtain ⟨b1, b2⟩ := fp2_mul_spec h₂ rx.2.1 ry.2.1
  exact ⟨a1, b1, by rw [a2, b2, rx.2.2, ry.2.2]⟩

theorem fp2_sqr_agree {x : Fp2 α} {x' : Fp2 β} (rx : Rel2 v₁ v₂ d₁ d₂ x x') :
    Rel2 v₁ v₂ d₁ d₂ (fp2_sqr O₁ x) (fp2_sqr O₂ x') := by
  obtain ⟨a1, a2⟩ := fp2_sqr_spec h₁ rx.1
  obtain ⟨b1, b2⟩ := fp2_sqr_spec h₂ rx.2.1
  exact ⟨a1, b1, by rw [a2, b2, rx.2.2]⟩

theorem fp2_add_agree {x y : Fp2 α} {x' y' : Fp2 β} (rx : Rel2 v₁ v₂ d₁ d₂ x x') (ry : Rel2 v₁ v₂ d₁ d₂ y y') :
    Rel2 v₁ v₂ d₁ d₂ (fp2_add O₁ x y) (fp2_add O₂ x' y') := by
  obtain ⟨a1, a2⟩ := fp2_add_spec h₁ rx.1 ry.1
  obtain ⟨b1, b2⟩ := fp2_add_spec h₂ rx.2.1 ry.2.1
  exact ⟨a1, b1, by rw [a2, b2, rx.2.2, ry.2.2]⟩

theorem fp2_sub_agree {x y : Fp2 α} {x' y' : Fp2 β} (rx : Rel2 v₁ v₂ d₁ d₂ x x') (ry : Rel2 v₁ v₂ d₁ d₂ y y') :
    Rel2 v₁ v₂ d₁ d₂ (fp2_sub O₁ x y) (fp2_sub O₂ x' y') := by
  obtain ⟨a1, a2⟩ := fp2_sub_spec h₁ rx.1 ry.1
  obtain ⟨b1, b2⟩ := fp2_sub_spec h₂ rx.2.1 ry.2.1
  exact ⟨a1, b1, by rw [a2, b2, rx.2.2, ry.2.2]⟩

theorem fp2_inv_agree {x : Fp2 α} {x' : Fp2 β} (rx : Rel2 v₁ v₂ d₁ d₂ x x') :
    Rel2 v₁ v₂ d₁ d₂ (fp2_inv O₁ x) (fp2_inv O₂ x') := by
  have := nonres_fact (p := p) h₁.p4
  obtain ⟨a1, a2, a3⟩ := fp2_inv_spec h₁ rx.1
  obtain ⟨b1, b2, b3⟩ := fp2_inv_spec h₂ rx.2.1
  refine ⟨a1, b1, ?_⟩
  by_cases hz : val2 v₁ x = 0
  · rw [a2 hz, b2 (by rw [← rx.2.2]; exact hz)]
  · have hz' : val2 v₂ x' ≠ 0 := by rw [← rx.2.2]; exact hz
    rw [eq_inv_of_mul_eq_one_left (a3 hz), eq_inv_of_mul_eq_one_left (b3 hz'), rx.2.2]

/-- complex square roots of squares agree (unique normalised root) -/
theorem fp2_sqrt_agree {x : Fp2 α} {x' : Fp2 β} (rx : Rel2 v₁ v₂ d₁ d₂ x x') (hsq : IsSquare (val2 v₁ x)) :
    Rel2 v₁ v₂ d₁ d₂ (fp2_sqrt O₁ x) (fp2_sqrt O₂ x') := by
  obtain ⟨a1, a2, a3⟩ := fp2_sqrt_spec h₁ rx.1
  obtain ⟨b1, b2, b3⟩ := fp2_sqrt_spec h₂ rx.2.1
  refine ⟨a1, b1, normalised_root_unique h₁.p4 ?_ a2 b2⟩
  rw [a3 hsq, b3 (by rw [← rx.2.2]; exact hsq), rx.2.2]

/-- `fp2_is_square` agrees away from 0 -/
theorem fp2_is_square_agree {x : Fp2 α} {x' : Fp2 β} (rx : Rel2 v₁ v₂ d₁ d₂ x x') (hne : val2 v₁ x ≠ 0) :
    fp2_is_square O₁ x = fp2_is_square O₂ x' := by
  obtain ⟨e1, c1⟩ := fp2_is_square_spec_partial h₁ rx.1 hne
  obtain ⟨e2, c2⟩ := fp2_is_square_spec_partial h₂ rx.2.1 (by rw [← rx.2.2]; exact hne)
  rw [← rx.2.2] at e2
  by_cases hs : IsSquare (val2 v₁ x)
  · rw [e1.mpr hs, e2.mpr hs]
  · have n1 : fp2_is_square O₁ x ≠ T32 := fun h => hs (e1.mp h)
    have n2 : fp2_is_square O₂ x' ≠ T32 := fun h => hs (e2.mp h)
    rcases c1 with c1 | c1
    · rcases c2 with c2 | c2
      · rw [c1, c2]
      · exact absurd c2 n2
    · exact absurd c1 n1

/-- a back-end whose `fp_is_square` is also right at 0 (both back-ends since the repair 59953ae) -/
def SquareAtZero (O : FpOps α) (d : α → Prop) (v : α → ZMod p) : Prop :=
  ∀ {a}, d a → v a = 0 → O.isSquare a = T32

/-- squareness tests agree on EVERY operand when both back-ends answer true at 0 -/
theorem isSquare_agree_full (z₁ : SquareAtZero O₁ d₁ v₁) (z₂ : SquareAtZero O₂ d₂ v₂)
    {a : α} {a' : β} (ra : Rel v₁ v₂ d₁ d₂ a a') : O₁.isSquare a = O₂.isSquare a' := by
  by_cases hne : v₁ a = 0
  · rw [z₁ ra.1 hne, z₂ ra.2.1 (by rw [← ra.2.2]; exact hne)]
  · exact isSquare_agree h₁ h₂ ra hne

theorem fp2_is_square_agree_full (z₁ : SquareAtZero O₁ d₁ v₁) (z₂ : SquareAtZero O₂ d₂ v₂)
    {x : Fp2 α} {x' : Fp2 β} (rx : Rel2 v₁ v₂ d₁ d₂ x x') : fp2_is_square O₁ x = fp2_is_square O₂ x' := by
  have e1 := fp2_is_square_spec_full h₁ (fun {a} => z₁ (a := a)) rx.1
  have e2 := fp2_is_square_spec_full h₂ (fun {a} => z₂ (a := a)) rx.2.1
  rw [← rx.2.2] at e2
  by_cases hs : IsSquare (val2 v₁ x)
  · rw [e1.mpr hs, e2.mpr hs]
  · by_cases hne : val2 v₁ x = 0
    · exact absurd ⟨0, by rw [hne]; simp⟩ hs
    · exact fp2_is_square_agree h₁ h₂ rx hne

end
end SqiProofs.GfAgree

/-
GF(p²) layer: `fp2.c` as coded (SqiModel.Gf) refines arithmetic in `Fp[i]/(i²+1)`, for ANY back-end
whose `fp_*` operations refine `ZMod p` (`FpRefines`) — so each theorem holds for the ref and for the
x86 back-end at the three levels once their `FpRefines` instance is proved.

Spec: `CF p = QuadraticAlgebra (ZMod p) (-1) 0` (Mathlib), a field when `p ≡ 3 (mod 4)`.
-/
import Mathlib.Algebra.QuadraticAlgebra.Basic
import Mathlib.NumberTheory.LegendreSymbol.Basic
import Mathlib.NumberTheory.SumTwoSquares
import Mathlib.Tactic.Ring
import Mathlib.Tactic.FieldSimp
import Mathlib.Tactic.LinearCombination
import SqiModel.Gf

namespace SqiProofs.GfFp2
open SqiModel.Gf
open scoped QuadraticAlgebra
open QuadraticAlgebra (re_one im_one re_natCast im_natCast re_ofNat im_ofNat)

/-- `Fp[i]/(i²+1)` -/
abbrev CF (p : Nat) := QuadraticAlgebra (ZMod p) (-1) 0

/-- what the GF(p²) proofs need from a back-end: every `fp_*` operation maps the representation domain
    `dom` to itself and commutes with the abstraction `val : α → ZMod p`. -/
structure FpRefines {α : Type} (O : FpOps α) (p : Nat) (dom : α → Prop) (val : α → ZMod p) : Prop where
  p4 : p % 4 = 3
  zero : dom O.zero ∧ val O.zero = 0
  one : dom O.one ∧ val O.one = 1
  add : ∀ {a b}, dom a → dom b → dom (O.add a b) ∧ val (O.add a b) = val a + val b
  sub : ∀ {a b}, dom a → dom b → dom (O.sub a b) ∧ val (O.sub a b) = val a - val b
  neg : ∀ {a}, dom a → dom (O.neg a) ∧ val (O.neg a) = - val a
  mul : ∀ {a b}, dom a → dom b → dom (O.mul a b) ∧ val (O.mul a b) = val a * val b
  sqr : ∀ {a}, dom a → dom (O.sqr a) ∧ val (O.sqr a) = val a * val a
  half : ∀ {a}, dom a → dom (O.half a) ∧ val (O.half a) * 2 = val a
  inv : ∀ {a}, dom a → dom (O.inv a) ∧ val (O.inv a) = (val a)⁻¹
  sqrt : ∀ {a}, dom a → dom (O.sqrt a) ∧ (val (O.sqrt a)).val % 2 = 0 ∧
    (IsSquare (val a) → val (O.sqrt a) * val (O.sqrt a) = val a)
  isSquare : ∀ {a}, dom a → (O.isSquare a = 0 ∨ O.isSquare a = T32) ∧
    (val a ≠ 0 → (O.isSquare a = T32 ↔ IsSquare (val a)))
  isZero : ∀ {a}, dom a → (O.isZero a = T32 ∧ val a = 0) ∨ (O.isZero a = 0 ∧ val a ≠ 0)
  isEqual : ∀ {a b}, dom a → dom b →
    (O.isEqual a b = T32 ∧ val a = val b) ∨ (O.isEqual a b = 0 ∧ val a ≠ val b)
  select : ∀ {a b}, dom a → dom b → O.select a b 0 = a ∧ O.select a b T32 = b
  cswap : ∀ {a b}, dom a → dom b → O.cswap a b 0 = (a, b) ∧ O.cswap a b T32 = (b, a)
  setSmall : ∀ v, v < 2 ^ 32 → dom (O.setSmall v) ∧ val (O.setSmall v) = (v : ZMod p)
  encode : ∀ {a}, dom a → O.encode a = (val a).val

variable {α : Type} {O : FpOps α} {p : Nat} [Fact p.Prime] {dom : α → Prop} {val : α → ZMod p}

def dom2 (dom : α → Prop) (x : Fp2 α) : Prop := dom x.re ∧ dom x.im
def val2 (val : α → ZMod p) (x : Fp2 α) : CF p := ⟨val x.re, val x.im⟩

/-! ## `fp2_mul`, `fp2_sqr` are complex multiplication over any commutative ring -/

/-- over ANY commutative ring: if add/sub/mul of the record are the ring operations then `fp2_mul`
    as coded (Karatsuba, 3 multiplications) is multiplication in `R[i]/(i²+1)` -/
theorem fp2_mul_commRing {R : Type} [CommRing R] (O : FpOps R) (hadd : ∀ a b, O.add a b = a + b)
    (hsub : ∀ a b, O.sub a b = a - b) (hmul : ∀ a b, O.mul a b = a * b) (y z : Fp2 R) :
    ((⟨(fp2_mul O y z).re, (fp2_mul O y z).im⟩ : QuadraticAlgebra R (-1) 0)) =
      (⟨y.re, y.im⟩ : QuadraticAlgebra R (-1) 0) * ⟨z.re, z.im⟩ := by
  ext <;> simp [fp2_mul, hadd, hsub, hmul] <;> ring

theorem fp2_sqr_commRing {R : Type} [CommRing R] (O : FpOps R) (hadd : ∀ a b, O.add a b = a + b)
    (hsub : ∀ a b, O.sub a b = a - b) (hmul : ∀ a b, O.mul a b = a * b) (y : Fp2 R) :
    ((⟨(fp2_sqr O y).re, (fp2_sqr O y).im⟩ : QuadraticAlgebra R (-1) 0)) =
      (⟨y.re, y.im⟩ : QuadraticAlgebra R (-1) 0) * ⟨y.re, y.im⟩ := by
  ext <;> simp [fp2_sqr, hadd, hsub, hmul] <;> ring

/-! ## refinement of the ring operations -/
section
variable (h : FpRefines O p dom val)
include h

theorem fp2_add_spec {x y : Fp2 α} (hx : dom2 dom x) (hy : dom2 dom y) :
    dom2 dom (fp2_add O x y) ∧ val2 val (fp2_add O x y) = val2 val x + val2 val y := by
  obtain ⟨a1, a2⟩ := h.add hx.1 hy.1
  obtain ⟨b1, b2⟩ := h.add hx.2 hy.2
  exact ⟨⟨a1, b1⟩, by ext <;> simp [val2, fp2_add, a2, b2]⟩

theorem fp2_sub_spec {x y : Fp2 α} (hx : dom2 dom x) (hy : dom2 dom y) :
    dom2 dom (fp2_sub O x y) ∧ val2 val (fp2_sub O x y) = val2 val x - val2 val y := by
  obtain ⟨a1, a2⟩ := h.sub hx.1 hy.1
  obtain ⟨b1, b2⟩ := h.sub hx.2 hy.2
  exact ⟨⟨a1, b1⟩, by ext <;> simp [val2, fp2_sub, a2, b2]⟩

theorem fp2_neg_spec {x : Fp2 α} (hx : dom2 dom x) :
    dom2 dom (fp2_neg O x) ∧ val2 val (fp2_neg O x) = - val2 val x := by
  obtain ⟨a1, a2⟩ := h.neg hx.1
  obtain ⟨b1, b2⟩ := h.neg hx.2
  exact ⟨⟨a1, b1⟩, by ext <;> simp [val2, fp2_neg, a2, b2]⟩

theorem fp2_mul_spec {x y : Fp2 α} (hx : dom2 dom x) (hy : dom2 dom y) :
    dom2 dom (fp2_mul O x y) ∧ val2 val (fp2_mul O x y) = val2 val x * val2 val y := by
  obtain ⟨s1, s2⟩ := h.add hx.1 hx.2
  obtain ⟨t1, t2⟩ := h.add hy.1 hy.2
  obtain ⟨m1, m2⟩ := h.mul s1 t1
  obtain ⟨n1, n2⟩ := h.mul hx.2 hy.2
  obtain ⟨r1, r2⟩ := h.mul hx.1 hy.1
  obtain ⟨u1, u2⟩ := h.sub m1 n1
  obtain ⟨v1, v2⟩ := h.sub u1 r1
  obtain ⟨w1, w2⟩ := h.sub r1 n1
  refine ⟨⟨w1, v1⟩, ?_⟩
  ext
  · simp only [val2, fp2_mul, QuadraticAlgebra.re_mul]; rw [w2, r2, n2]; ring
  · simp only [val2, fp2_mul, QuadraticAlgebra.im_mul]; rw [v2, u2, m2, n2, r2, s2, t2]; ring

theorem fp2_sqr_spec {x : Fp2 α} (hx : dom2 dom x) :
    dom2 dom (fp2_sqr O x) ∧ val2 val (fp2_sqr O x) = val2 val x * val2 val x := by
  obtain ⟨s1, s2⟩ := h.add hx.1 hx.2
  obtain ⟨d1, d2⟩ := h.sub hx.1 hx.2
  obtain ⟨m1, m2⟩ := h.mul hx.1 hx.2
  obtain ⟨a1, a2⟩ := h.add m1 m1
  obtain ⟨r1, r2⟩ := h.mul s1 d1
  refine ⟨⟨r1, a1⟩, ?_⟩
  ext
  · simp only [val2, fp2_sqr, QuadraticAlgebra.re_mul]; rw [r2, s2, d2]; ring
  · simp only [val2, fp2_sqr, QuadraticAlgebra.im_mul]; rw [a2, m2]; ring

theorem fp2_half_spec {x : Fp2 α} (hx : dom2 dom x) :
    dom2 dom (fp2_half O x) ∧ val2 val (fp2_half O x) * 2 = val2 val x := by
  obtain ⟨a1, a2⟩ := h.half hx.1
  obtain ⟨b1, b2⟩ := h.half hx.2
  refine ⟨⟨a1, b1⟩, ?_⟩
  have h2 : (2 : CF p) = ⟨2, 0⟩ := by ext <;> simp [re_ofNat, im_ofNat]
  rw [h2]
  ext
  · simp only [val2, fp2_half, QuadraticAlgebra.re_mul]; rw [← a2]; ring
  · simp only [val2, fp2_half, QuadraticAlgebra.im_mul]; rw [← b2]; ring

theorem fp2_set_one_spec : dom2 dom (fp2_set_one O) ∧ val2 val (fp2_set_one O) = 1 := by
  refine ⟨⟨h.one.1, h.zero.1⟩, ?_⟩
  ext <;> simp [val2, fp2_set_one, h.one.2, h.zero.2, re_one, im_one]

theorem fp2_set_zero_spec : dom2 dom (fp2_set_zero O) ∧ val2 val (fp2_set_zero O) = 0 := by
  refine ⟨⟨h.zero.1, h.zero.1⟩, ?_⟩
  ext <;> simp [val2, fp2_set_zero, h.zero.2]

theorem fp2_set_small_spec (v : Nat) (hv : v < 2 ^ 32) :
    dom2 dom (fp2_set_small O v) ∧ val2 val (fp2_set_small O v) = (v : CF p) := by
  obtain ⟨a1, a2⟩ := h.setSmall v hv
  refine ⟨⟨a1, h.zero.1⟩, ?_⟩
  ext <;> simp [val2, fp2_set_small, a2, h.zero.2, re_natCast, im_natCast]

end
end SqiProofs.GfFp2
